/-
  JSON transport of RDF terms, triples and the literal hints for the C07 ops.
-/
import Driver.Codec
import Prov.Rdf

open Lean Prov Prov.Rdf
namespace Driver

def optStr (j : Json) (k : String) : R (Option String) :=
  match field? j k with
  | some v => do pure (some (← v.getStr?))
  | none => pure none

def decTerm (j : Json) : R Rdf.Term := do
  let t ← (← j.getObjVal? "t").getStr?
  match t with
  | "iri" => return .iri (← (← j.getObjVal? "u").getStr?)
  | "b" => return .bnode (← (← j.getObjVal? "l").getStr?)
  | "lit" => return .lit (← (← j.getObjVal? "x").getStr?) (← optStr j "d") (← optStr j "g")
  | _ => throw s!"bad term {j.compress}"

def encTerm : Rdf.Term → Json
  | .iri u => Json.mkObj [("t", "iri"), ("u", u)]
  | .bnode l => Json.mkObj [("t", "b"), ("l", l)]
  | .lit x d g => Json.mkObj [("t", "lit"), ("x", x),
      ("d", match d with | some s => Json.str s | none => Json.null),
      ("g", match g with | some s => Json.str s | none => Json.null)]

def decTriple (j : Json) : R Triple := do
  let a ← j.getArr?
  if a.size != 3 then throw "triple: 3 terms expected"
  return ⟨← decTerm a[0]!, ← decTerm a[1]!, ← decTerm a[2]!⟩

def encTriple (t : Triple) : Json := Json.arr #[encTerm t.s, encTerm t.p, encTerm t.o]

def decHints (j : Json) : R (List (Rdf.Term × LitHint)) := do
  (← j.getArr?).toList.mapM (fun e => do
    let t ← decTerm (← e.getObjVal? "term")
    let pv ← (← e.getObjVal? "pv").getStr?
    let pdt ← match field? e "pdt" with
      | some d => do pure (some (← decDt d))
      | none => pure none
    let flt ← match field? e "flt" with
      | some f => do pure (some (← decFloat f))
      | none => pure none
    return (t, ⟨pv, pdt, flt⟩))

def decGraphIn (j : Json) : R GraphIn := do
  let id ← optStr j "id"
  let types ← (← (← j.getObjVal? "types").getArr?).toList.mapM decTriple
  let all ← (← (← j.getObjVal? "all").getArr?).toList.mapM decTriple
  let pat ← match j.getObjVal? "pat" with
    | .ok p => (← p.getArr?).toList.mapM decTriple
    | .error _ => pure all
  return ⟨id, types, all, pat⟩

end Driver

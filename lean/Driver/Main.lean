/-
  Model driver: reads one JSON operation per line on stdin, applies it to the Lean model,
  writes one JSON result per line on stdout. "reset" starts a fresh heap.
-/
import Driver.Codec
import Driver.IOCase
import Driver.RdfCodec
import Prov.Factory
import Std.Data.HashMap

open Lean Prov
namespace Driver

structure St where
  h : Heap := Heap.empty
  conts : Std.HashMap Nat Nat := {}
  recs : Std.HashMap Nat Nat := {}

def St.cont (s : St) (j : Json) (k : String) : R Nat := do
  let n ← (← j.getObjVal? k).getNat?
  match s.conts[n]? with
  | some r => return r
  | none => throw s!"unknown container handle {n}"

def St.recH (s : St) (j : Json) (k : String) : R Nat := do
  let n ← (← j.getObjVal? k).getNat?
  match s.recs[n]? with
  | some r => return r
  | none => throw s!"unknown record handle {n}"

def St.bindCont (s : St) (j : Json) (ref : Nat) : R St := do
  match field? j "as" with
  | some a => let n ← a.getNat?; return { s with conts := s.conts.insert n ref }
  | none => return s

def St.bindRec (s : St) (j : Json) (ref : Nat) : R St := do
  match field? j "as" with
  | some a => let n ← a.getNat?; return { s with recs := s.recs.insert n ref }
  | none => return s

def decArgVal (s : St) (j : Json) : R ArgVal := do
  if j.isNull then return .nil
  match field? j "rec" with
  | some r =>
    let n ← r.getNat?
    match s.recs[n]? with
    | some ref => return .recId (s.h.recCell ref).r.id
    | none => throw s!"unknown record handle {n}"
  | none => return .val (← decValue j)

def decAttrs (s : St) (j : Json) : R (List AttrArg) := do
  let a ← j.getArr?
  a.toList.mapM (fun e => do
    let n ← decNameArg (← e.getObjVal? "n")
    let v ← decArgVal s (← e.getObjVal? "v")
    let f ← match field? e "f" with
      | some fj => do pure (some (← decFloat fj))
      | none => pure none
    return { name := n, value := v, flt := f })

def errJson (e : Option Err) : Json :=
  Json.mkObj [("err", match e with | some x => Json.str x | none => Json.null)]

def decKind (j : Json) : R RecKind := do
  let k ← (← j.getObjVal? "kind").getStr?
  match RecKind.ofTypeName k with
  | some r => return r
  | none => throw s!"unknown kind {k}"

def decCls (j : Json) : R Heap.ClsFilter := do
  let k ← (← j.getObjVal? "cls").getStr?
  match k with
  | "all" => return .all
  | "element" => return .element
  | "relation" => return .relation
  | k => match RecKind.ofTypeName k with
    | some r => return .kind r
    | none => throw s!"unknown class {k}"

def optValue (j : Json) (k : String) : R (Option Value) := do
  match field? j k with
  | some v => return some (← decValue v)
  | none => return none

def indexOf (l : List Nat) (x : Nat) : Json :=
  match l.findIdx? (· == x) with
  | some i => (i : Nat)
  | none => Json.null

def step (s : St) (j : Json) : R (St × Json) := do
  let op ← (← j.getObjVal? "op").getStr?
  match op with
  | "reset" => return ({}, Json.mkObj [])
  | "new_doc" =>
    -- optional "ns": [[prefix, uri], …] = ProvDocument(namespaces=…), registered in that order by the constructor
    let nss : List Ns ← match j.getObjVal? "ns" with
      | .ok a => (← a.getArr?).toList.mapM (fun e => do
          let pr ← e.getArr?
          match pr.toList with
          | [p, u] => return (⟨← p.getStr?, ← u.getStr?⟩ : Ns)
          | _ => throw "new_doc: ns entries are [prefix, uri]")
      | .error _ => pure []
    let (h, c) := s.h.newDoc nss
    return (← { s with h := h }.bindCont j c, Json.mkObj [])
  | "new_from" =>
    let rs ← (← (← j.getObjVal? "recs").getArr?).toList.mapM (fun e => do
      let n ← e.getNat?
      match s.recs[n]? with
      | some r => pure r
      | none => throw s!"unknown record handle {n}")
    let isB ← (← j.getObjVal? "bundle").getBool?
    -- `ProvBundle(records=…, identifier=q)`: the identifier object is stored as given
    let ident : Option QName ← match j.getObjVal? "id" with
      | .ok jid => do
        match ← decNameArg jid with
        | .qn q => pure (some q)
        | _ => pure none
      | .error _ => pure none
    let (h1, c) := s.h.allocCont (!isB) ident [] none
    match h1.addRecords c rs with
    | (h2, none) => return (← { s with h := h2 }.bindCont j c, errJson none)
    | (h2, some e) => return ({ s with h := h2 }, errJson (some e))
  | "add_ns" =>
    let c ← s.cont j "c"
    let p ← (← j.getObjVal? "p").getStr?
    let u ← (← j.getObjVal? "u").getStr?
    let (h, n) := s.h.addNs c ⟨p, u⟩
    return ({ s with h := h }, Json.mkObj [("p", n.pfx), ("u", n.uri)])
  | "set_default" =>
    let c ← s.cont j "c"
    let u ← (← j.getObjVal? "u").getStr?
    return ({ s with h := s.h.setDefault c u }, Json.mkObj [])
  | "vqn" =>
    let c ← s.cont j "c"
    let x ← decNameArg (← j.getObjVal? "x")
    let (h, q) := s.h.validName c x
    return ({ s with h := h }, Json.mkObj [("q", encOptQ q)])
  | "new_record" =>
    let c ← s.cont j "c"
    let kind ← decKind j
    let id ← decNameArg (← j.getObjVal? "id")
    let attrs ← decAttrs s (← j.getObjVal? "attrs")
    match s.h.newRecord c kind id attrs with
    | (h, .ok r) => return (← { s with h := h }.bindRec j r, errJson none)
    | (h, .error e) => return ({ s with h := h }, errJson (some e))
  | "factory" =>
    let c ← s.cont j "c"
    let fname ← (← j.getObjVal? "f").getStr?
    let spec ← match factorySpec fname with
      | some sp => pure sp
      | none => throw s!"unknown factory {fname}"
    let id ← decNameArg (← j.getObjVal? "id")
    let args ← (← (← j.getObjVal? "args").getArr?).toList.mapM (decArgVal s)
    let other ← decAttrs s (← j.getObjVal? "other")
    match s.h.factory c spec id args other with
    | (h, .ok r) => return (← { s with h := h }.bindRec j r, errJson none)
    | (h, .error e) => return ({ s with h := h }, errJson (some e))
  | "conv" =>
    let r ← s.recH j "r"
    let mname ← (← j.getObjVal? "m").getStr?
    let fname ← match convTable.find? (·.1 == mname) with
      | some p => pure p.2
      | none => throw s!"unknown convenience method {mname}"
    let spec ← match factorySpec fname with
      | some sp => pure sp
      | none => throw s!"unknown factory {fname}"
    let args ← (← (← j.getObjVal? "args").getArr?).toList.mapM (decArgVal s)
    let other ← decAttrs s (← j.getObjVal? "other")
    let cell := s.h.recCell r
    match s.h.factory cell.bundle spec .nil (ArgVal.recId cell.r.id :: args) other with
    | (h, .ok nr) => return (← { s with h := h }.bindRec j nr, errJson none)
    | (h, .error e) => return ({ s with h := h }, errJson (some e))
  | "add_attrs" =>
    let r ← s.recH j "r"
    let attrs ← decAttrs s (← j.getObjVal? "attrs")
    let (h, e) := s.h.addAttributes r attrs
    return ({ s with h := h }, errJson e)
  | "set_time" =>
    let r ← s.recH j "r"
    let st ← optValue j "st"
    let en ← optValue j "en"
    let (h, e) := s.h.setTime r st en
    return ({ s with h := h }, errJson e)
  | "add_type" =>
    let r ← s.recH j "r"
    let v ← decArgVal s (← j.getObjVal? "v")
    let f ← match field? j "f" with
      | some fj => do pure (some (← decFloat fj))
      | none => pure none
    let (h, e) := s.h.addAssertedType r v f
    return ({ s with h := h }, errJson e)
  | "add_record" =>
    let c ← s.cont j "c"
    let r ← s.recH j "r"
    match s.h.addRecord c r with
    | (h, .ok nr) => return (← { s with h := h }.bindRec j nr, errJson none)
    | (h, .error e) => return ({ s with h := h }, errJson (some e))
  | "copy" =>
    let r ← s.recH j "r"
    match s.h.copyRecord r with
    | (h, .ok nr) => return (← { s with h := h }.bindRec j nr, errJson none)
    | (h, .error e) => return ({ s with h := h }, errJson (some e))
  | "get_record" =>
    let c ← s.cont j "c"
    let x ← decNameArg (← j.getObjVal? "x")
    let (h, rs) := s.h.getRecord c x
    let out := match rs with
      | none => Json.null
      | some l => Json.arr (l.map (indexOf (h.cont c).records)).toArray
    return ({ s with h := h }, Json.mkObj [("recs", out)])
  | "get_records" =>
    let c ← s.cont j "c"
    let f ← decCls j
    let l := s.h.getRecords c f
    return (s, Json.mkObj [("recs", Json.arr (l.map (indexOf (s.h.cont c).records)).toArray)])
  | "rec_at" =>   -- bind a handle to the i-th record of a container
    let c ← s.cont j "c"
    let i ← (← j.getObjVal? "i").getNat?
    match (s.h.cont c).records[i]? with
    | some r => return (← s.bindRec j r, Json.mkObj [])
    | none => throw "rec_at: index out of range"
  | "bundle_at" =>  -- bind a handle to the i-th bundle of a document
    let c ← s.cont j "c"
    let i ← (← j.getObjVal? "i").getNat?
    match (s.h.cont c).bundles[i]? with
    | some p => return (← s.bindCont j p.2, Json.mkObj [])
    | none => throw "bundle_at: index out of range"
  | "unified" =>
    let c ← s.cont j "c"
    let res := if (s.h.cont c).isDoc then s.h.unifiedDoc c else s.h.unifiedBundle c
    match res with
    | (h, .ok n) => return (← { s with h := h }.bindCont j n, errJson none)
    | (h, .error e) => return ({ s with h := h }, errJson (some e))
  | "flattened" =>
    let c ← s.cont j "c"
    match s.h.flattened c with
    | (h, .ok n) =>
      return (← { s with h := h }.bindCont j n, Json.mkObj [("err", Json.null), ("same", n == c)])
    | (h, .error e) => return ({ s with h := h }, errJson (some e))
  | "update" =>
    let c ← s.cont j "c"
    let o ← s.cont j "o"
    let (h, e) := s.h.update c o
    return ({ s with h := h }, errJson e)
  | "add_bundle" =>
    let d ← s.cont j "d"
    let b ← s.cont j "b"
    let id ← decNameArg (← j.getObjVal? "id")
    let order ← match field? j "ns_order" with
      | some a => do
        let arr ← a.getArr?
        arr.toList.mapM (fun e => do
          let x ← e.getArr?
          pure (⟨← x[0]!.getStr?, ← x[1]!.getStr?⟩ : Ns))
      | none => pure []
    let (h, e) := s.h.addBundle d b id order
    return ({ s with h := h }, errJson e)
  | "bundle" =>
    let d ← s.cont j "d"
    let id ← decNameArg (← j.getObjVal? "id")
    match s.h.bundle d id with
    | (h, .ok n) => return (← { s with h := h }.bindCont j n, errJson none)
    | (h, .error e) => return ({ s with h := h }, errJson (some e))
  | "eq" =>
    let a ← s.cont j "a"
    let b ← s.cont j "b"
    return (s, Json.mkObj [("eq", s.h.contEq a b)])
  | "rec_eq" =>
    let a ← s.recH j "a"
    let b ← s.recH j "b"
    return (s, Json.mkObj [("eq", recEq (s.h.recCell a).r (s.h.recCell b).r)])
  | "rec_hash" =>
    let a ← s.recH j "a"
    let b ← s.recH j "b"
    return (s, Json.mkObj [("heq", recHashSame (s.h.recCell a).r (s.h.recCell b).r)])
  | "c03_classify" =>
    let c ← s.cont j "c"
    let q ← getNs3 (← j.getObjVal? "q")
    let m := s.h.mgrOf c
    let par := s.h.parentOf c
    return (s, Json.mkObj [
      ("owns", decide (m.Owns q)),
      ("wf", decide (WfName q)),
      ("parent_owns", match par with | some p => decide (p.Owns q) | none => false),
      ("own_resolves", (m.resolveOwn q.print).isSome)])
  | "spec_json" =>
    let t ← decJVal (← j.getObjVal? "tree")
    match Prov.JsonSpec.readDocument t with
    | some bs => return (s, Json.mkObj [("doc", Json.arr (bs.map (fun b =>
        Json.arr #[Json.str b.1, Json.arr (b.2.map encARec).toArray])).toArray)])
    | none => return (s, Json.mkObj [("doc", Json.null)])
  | "spec_xml" =>
    let t ← decXNode (← j.getObjVal? "tree")
    let hints ← match field? j "hints" with
      | some a => (← a.getArr?).toList.mapM (fun e => do
          let lex ← (← e.getObjVal? "lex").getStr?
          let f ← decFloat (← e.getObjVal? "f")
          pure (lex, f))
      | none => pure []
    match Prov.XmlSpec.readDocument hints t with
    | some bs => return (s, Json.mkObj [("doc", Json.arr (bs.map (fun b =>
        Json.arr #[Json.str b.1, Json.arr (b.2.map encARec).toArray])).toArray)])
    | none => return (s, Json.mkObj [("doc", Json.null)])
  | "provn" =>
    let c ← s.cont j "c"
    return (s, Json.mkObj [("text", Json.str (s.h.provnDocument c))])
  | "provn_rec" =>
    let r ← s.recH j "r"
    return (s, Json.mkObj [("text", Json.str (provnRecord (s.h.recCell r).r))])
  | "spec_provn" =>
    let text ← (← j.getObjVal? "text").getStr?
    let hints ← match field? j "hints" with
      | some a => (← a.getArr?).toList.mapM (fun e => do
          let lex ← (← e.getObjVal? "lex").getStr?
          let f ← decFloat (← e.getObjVal? "f")
          pure (lex, f))
      | none => pure []
    match Prov.ProvNSpec.parseDocument hints text with
    | some bs => return (s, Json.mkObj [("doc", Json.arr (bs.map (fun b =>
        Json.arr #[Json.str b.1, Json.arr (b.2.map encARec).toArray])).toArray)])
    | none => return (s, Json.mkObj [("doc", Json.null)])
  | "graph_roundtrip" =>
    let c ← s.cont j "c"
    match s.h.provToGraph c with
    | (h1, .error e) => return ({ s with h := h1 }, errJson (some e))
    | (h1, .ok (_u, st)) =>
      let nodeJson (n : GNode) : Json := Json.arr #[Json.bool n.declared.isSome, Json.str n.kind.typeName, Json.str n.id.uri]
      let nodes := Json.arr (st.nodes.map nodeJson).toArray
      let edges := Json.arr (st.edges.map (fun e =>
        match st.pool[e.1]?, st.pool[e.2.1]? with
        | some a, some b => Json.arr #[nodeJson a, nodeJson b, encRecord (h1.recCell e.2.2).r]
        | _, _ => Json.null)).toArray
      match h1.graphToProv st with
      | (h2, .ok nd) => return (← { s with h := h2 }.bindCont j nd, Json.mkObj [("err", Json.null), ("nodes", nodes), ("edges", edges)])
      | (h2, .error e) => return ({ s with h := h2 }, errJson (some e))
  | "to_dot" =>
    let c ← s.cont j "c"
    let b (k : String) : R Bool := do (← j.getObjVal? k).getBool?
    let o : DotOpts := ⟨← b "nary", ← b "labels", ← b "eattrs", ← b "rattrs"⟩
    let st := s.h.toDot o c
    let optS : Option String → Json := fun x => match x with | some v => Json.str v | none => Json.null
    return (s, Json.mkObj [
      ("nodes", Json.arr (st.nodes.map (fun n => Json.mkObj [("name", Json.str n.name), ("shape", Json.str n.shape),
          ("label", Json.str n.label), ("html", Json.bool n.html), ("url", optS n.url), ("cluster", optS n.cluster)])).toArray),
      ("edges", Json.arr (st.edges.map (fun e => Json.mkObj [("tail", Json.str e.tail), ("head", Json.str e.head),
          ("label", optS e.label), ("arrowhead", optS e.arrowhead), ("style", optS e.style), ("color", optS e.color)])).toArray),
      ("clusters", Json.arr (st.clusters.map (fun c => Json.mkObj [("name", Json.str c.name), ("label", Json.str c.label),
          ("url", Json.str c.url)])).toArray)])
  | "io_case" => return (s, ← ioCase j)
  | "enc_rdf" =>
    let c ← s.cont j "c"
    match Prov.Rdf.encodeDocument s.h c with
    | some gs => return (s, Json.mkObj [("graphs", Json.arr (gs.map (fun g =>
        Json.arr #[match g.1 with | some u => Json.str u | none => Json.null, Json.arr (g.2.map encTriple).toArray])).toArray)])
    | none => return (s, Json.mkObj [("graphs", Json.null), ("err", "unsupported")])
  | "dec_rdf" =>
    let nss ← (← (← j.getObjVal? "ns").getArr?).toList.mapM (fun e => do
      let a ← e.getArr?
      pure (⟨← a[0]!.getStr?, ← a[1]!.getStr?⟩ : Ns))
    let graphs ← (← (← j.getObjVal? "graphs").getArr?).toList.mapM decGraphIn
    let hints ← decHints (← j.getObjVal? "hints")
    let hint : Prov.Rdf.Term → Option Prov.Rdf.LitHint := fun t => (hints.find? (fun p => p.1 == t)).map (·.2)
    let fltOf : String → Option FloatAtom := fun pv => (hints.find? (fun p => p.2.pv == pv && p.2.flt.isSome)).bind (·.2.flt)
    match Prov.Rdf.decodeDocument s.h nss graphs hint fltOf with
    | (h, .ok d) => return (← { s with h := h }.bindCont j d, errJson none)
    | (h, .error e) => return ({ s with h := h }, errJson (some e))
  | "dest_path" =>
    let loc ← (← j.getObjVal? "s").getStr?
    return (s, Json.mkObj [("path", match Prov.FileIO.destPath loc with | some p => Json.str p | none => Json.null)])
  | "write_path" =>
    let n ← (← j.getObjVal? "n").getNat?
    let fault : Option Nat ← match field? j "fault" with
      | some f => do pure (some (← f.getNat?))
      | none => pure none
    let existed ← (← j.getObjVal? "dest_exists").getBool?
    let fs0 : Prov.FileIO.FS := (if existed then [("DEST", "OLD")] else []) ++ [("OTHER", "X")]
    let chunks := List.replicate n "c"
    let (fs1, ok) := Prov.FileIO.writePath fs0 "TMP" "DEST" chunks fault
    let dest := match Prov.FileIO.fsGet fs1 "DEST" with
      | none => "absent"
      | some c => if c == "OLD" then "old" else if c == String.join chunks then "new" else "other"
    return (s, Json.mkObj [("ok", Json.bool ok), ("dest", Json.str dest),
      ("tmp_left", Json.bool (Prov.FileIO.fsGet fs1 "TMP").isSome),
      ("other_intact", Json.bool (Prov.FileIO.fsGet fs1 "OTHER" == some "X"))])
  | "enc_xml" =>
    let c ← s.cont j "c"
    let ft ← (← j.getObjVal? "ft").getBool?
    return (s, Json.mkObj [("tree", encXNode (s.h.encodeXml ft c))])
  | "dec_xml" =>
    let t ← decXNode (← j.getObjVal? "tree")
    let hints ← match field? j "hints" with
      | some a => (← a.getArr?).toList.mapM (fun e => do
          let lex ← (← e.getObjVal? "lex").getStr?
          let f ← decFloat (← e.getObjVal? "f")
          pure (lex, f))
      | none => pure []
    match s.h.decodeXml hints t with
    | (h, .ok d) => return (← { s with h := h }.bindCont j d, errJson none)
    | (h, .error e) => return ({ s with h := h }, errJson (some e))
  | "enc_json" =>
    let c ← s.cont j "c"
    match s.h.encodeJson c with
    | some t => return (s, Json.mkObj [("tree", encJVal t)])
    | none => return (s, Json.mkObj [("tree", Json.null), ("unspecified", true)])
  | "dec_json" =>
    let t ← decJVal (← j.getObjVal? "tree")
    match s.h.decodeJson t with
    | (h, .ok d) => return (← { s with h := h }.bindCont j d, errJson none)
    | (h, .error e) => return ({ s with h := h }, errJson (some e))
  | "obs" =>
    let c ← s.cont j "c"
    return (s, encCont s.h c)
  | "obs_rec" =>
    let r ← s.recH j "r"
    return (s, encRecord (s.h.recCell r).r)
  | _ => throw s!"unknown op {op}"

partial def loop (inp : IO.FS.Stream) (out : IO.FS.Stream) (s : St) : IO Unit := do
  let line ← inp.getLine
  if line.isEmpty then return ()
  let t := line.trimAscii.toString
  if t.isEmpty then loop inp out s
  else
    match Json.parse t with
    | .error e =>
      out.putStrLn (Json.mkObj [("fatal", s!"parse: {e}")]).compress
      loop inp out s
    | .ok j =>
      match step s j with
      | .ok (s', r) =>
        out.putStrLn r.compress
        loop inp out s'
      | .error e =>
        out.putStrLn (Json.mkObj [("fatal", e)]).compress
        loop inp out s

end Driver

def main : IO Unit := do
  let inp ← IO.getStdin
  let out ← IO.getStdout
  Driver.loop inp out {}
  out.flush

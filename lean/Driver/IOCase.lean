/-
  Driver side of C16: runs `Prov.SourceIO` with the external dump / parse functions instantiated from
  tables the harness observed on the real libraries (text ↦ digest of the document it parses to).
-/
import Driver.Codec
import Prov.SourceIO
import Prov.Generated.Tables

open Lean Prov.SourceIO
namespace Driver

abbrev Table := List (String × Option String)

def decTable (j : Json) : R Table := do
  (← j.getArr?).toList.mapM (fun e => do
    let a ← e.getArr?
    let k ← (a[0]!).getStr?
    let v := a[1]!
    if v.isNull then return (k, none) else return (k, some (← v.getStr?)))

/-- a text the harness did not classify parses to a marker that matches nothing -/
def lookupT (t : Table) (s : String) : Option String :=
  match t.find? (fun e => e.1 == s) with
  | some (_, r) => r
  | none => some ("table-miss:" ++ s.take 20)

def mkExt (text bytesText : String) (tj tr tx : Table) : Ext String where
  jsonDump := fun _ => text
  jsonLoad := lookupT tj
  provnText := fun _ => text
  rdfOut := fun _ => text.toUTF8
  rdfParseText := lookupT tr
  rdfParseBytes := fun b => (decode b).bind (lookupT tr)
  xmlOutText := fun _ => text
  xmlOutBytes := fun _ => bytesText.toUTF8
  xmlParse := fun b => (decode b).bind (lookupT tx)

def encWritten : Written → Json
  | .returned s => Json.arr #[Json.str "returned", Json.str s]
  | .text s => Json.arr #[Json.str "text", Json.str s]
  | .bytes b => Json.arr #[Json.str "bytes", match decode b with | some s => Json.str s | none => Json.null]
  | .file b => Json.arr #[Json.str "file", match decode b with | some s => Json.str s | none => Json.null]
  | .raised => Json.arr #[Json.str "raised", Json.null]

def writtenData : Written → Option Data
  | .returned s => some (.text s)
  | .text s => some (.text s)
  | .bytes b => some (.bytes b)
  | .file b => some (.bytes b)
  | .raised => none

/-- offer what was written back as source kind `k` (text ↔ bytes through UTF-8, as the harness does) -/
def mkSource (d : Data) (k : String) : R (Source × FS) := do
  let asText : Option String := match d with | .text s => some s | .bytes b => decode b
  let asBytes : ByteArray := match d with | .text s => s.toUTF8 | .bytes b => b
  let noFs : FS := fun _ => none
  match k with
  | "content_str" => match asText with
    | some s => return (.contentStr s, noFs)
    | none => throw "bytes do not decode"
  | "content_bytes" => return (.contentBytes asBytes, noFs)
  | "text_stream" => match asText with
    | some s => return (.stream (.text s false), noFs)
    | none => throw "bytes do not decode"
  | "bin_stream" => return (.stream (.bin asBytes false), noFs)
  | "path" => return (.path "P", fun p => if p == "P" then some asBytes else none)
  | _ => throw s!"unknown source kind {k}"

def ioCase (j : Json) : R Json := do
  let fmtName ← (← j.getObjVal? "fmt").getStr?
  let some f := Fmt.ofName? fmtName | throw s!"unknown format {fmtName}"
  let text ← (← j.getObjVal? "text").getStr?
  let bytesText ← match field? j "bytes_text" with
    | some b => b.getStr?
    | none => pure text
  let tabs ← j.getObjVal? "tables"
  let tj ← decTable (← tabs.getObjVal? "json")
  let tr ← decTable (← tabs.getObjVal? "rdf")
  let tx ← decTable (← tabs.getObjVal? "xml")
  let x := mkExt text bytesText tj tr tx
  let order := Prov.Gen.registry.filterMap Fmt.ofName?
  let cases ← (← j.getObjVal? "cases").getArr?
  let outs ← cases.toList.mapM (fun c => do
    let destName ← (← c.getObjVal? "dest").getStr?
    let dest ← match destName with
      | "ret" => pure Dest.ret | "text" => pure Dest.textStream | "bin" => pure Dest.binStream | "path" => pure Dest.path
      | _ => throw s!"unknown destination {destName}"
    let w := serialize x f "D" dest
    match field? c "src" with
    | none => return Json.mkObj [("written", encWritten w)]
    | some sk =>
      let srcKind ← sk.getStr?
      let mode ← (← c.getObjVal? "mode").getStr?
      let some d := writtenData w | return Json.mkObj [("written", encWritten w), ("result", Json.str "raised")]
      let (src, fs) ← mkSource d srcKind
      let (res, src') := match mode with
        | "deser" => deserialize x fs f src
        | "read_fmt" => read x fs order src (some f)
        | "read_old" => readOld x fs order src
        | _ => read x fs order src none
      let atEnd : Json := match src' with
        | .stream st => Json.bool st.atEnd
        | _ => Json.null
      return Json.mkObj [("result", match res with | some l => Json.str l | none => Json.null), ("at_end", atEnd)])
  return Json.mkObj [("cases", Json.arr outs.toArray)]

end Driver

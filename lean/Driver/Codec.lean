/-
  JSON line protocol: decoding of arguments and encoding of observations.
-/
import Lean.Data.Json
import Prov.Eq
import Prov.Json
import Prov.JsonSpec
import Prov.Xml
import Prov.XmlSpec
import Prov.ProvN
import Prov.ProvNSpec
import Prov.Graph
import Prov.Dot
import Prov.FileIO

open Lean
namespace Driver
open Prov

abbrev R := Except String

def getNs3 (j : Json) : R QName := do
  let a ← j.getArr?
  if a.size != 3 then throw "qname triple expected"
  let p ← a[0]!.getStr?
  let u ← a[1]!.getStr?
  let l ← a[2]!.getStr?
  return ⟨⟨p, u⟩, l⟩

def field? (j : Json) (k : String) : Option Json :=
  match j.getObjVal? k with
  | .ok v => if v.isNull then none else some v
  | .error _ => none

def decNameArg (j : Json) : R NameArg := do
  if j.isNull then return .nil
  match field? j "s" with
  | some s => return .str (← s.getStr?)
  | none =>
    match field? j "q" with
    | some q => return .qn (← getNs3 q)
    | none => throw s!"bad namearg {j.compress}"

def decIntStr (j : Json) : R Int := do
  let s ← j.getStr?
  match s.toInt? with
  | some n => return n
  | none => throw s!"bad int {s}"

def decFloat (j : Json) : R FloatAtom := do
  let r ← (← j.getObjVal? "r").getStr?
  let n ← decIntStr (← j.getObjVal? "n")
  let d ← decIntStr (← j.getObjVal? "d")
  let g ← (← j.getObjVal? "g").getStr?
  return ⟨r, n, d.toNat, g⟩

def decDt (j : Json) : R DateTime := do
  let a ← j.getArr?
  if a.size != 8 then throw "dt: 8 fields expected"
  let n (i : Nat) : R Nat := a[i]!.getNat?
  let tz : Option Int ← if a[7]!.isNull then pure none else (do let z ← a[7]!.getInt?; pure (some z))
  return ⟨← n 0, ← n 1, ← n 2, ← n 3, ← n 4, ← n 5, ← n 6, tz⟩

def decValue (j : Json) : R Value := do
  let k ← (← j.getObjVal? "k").getStr?
  match k with
  | "str" => return .str (← (← j.getObjVal? "v").getStr?)
  | "int" => return .int (← decIntStr (← j.getObjVal? "v"))
  | "bool" => return .bool (← (← j.getObjVal? "v").getBool?)
  | "float" => return .float (← decFloat j)
  | "dt" => return .dt (← decDt (← j.getObjVal? "v"))
  | "uri" => return .uri (← (← j.getObjVal? "v").getStr?)
  | "qn" => return .qn (← getNs3 (← j.getObjVal? "v"))
  | "lit" =>
    let v ← (← j.getObjVal? "v").getStr?
    let ty ← match field? j "t" with
      | some t => do pure (some (← getNs3 t))
      | none => pure none
    let lang ← match field? j "l" with
      | some l => do pure (some (← l.getStr?))
      | none => pure none
    return .lit v ty lang
  | _ => throw s!"bad value kind {k}"

/-! ### encoding -/

def encQ (q : QName) : Json := Json.arr #[q.uri, q.print]
def encOptQ : Option QName → Json
  | some q => encQ q
  | none => Json.null

def encValue : Value → Json
  | .str s => Json.arr #["str", s]
  | .int n => Json.arr #["int", toString n]
  | .bool b => Json.arr #["bool", b]
  | .float f => Json.arr #["float", f.repr]
  | .dt t => Json.arr #["dt", t.iso]
  | .uri u => Json.arr #["uri", u]
  | .qn q => Json.arr #["qn", q.uri, q.print]
  | .lit v ty lang => Json.arr #["lit", v,
      (match ty with | some t => Json.arr #[t.uri, t.print] | none => Json.null),
      (match lang with | some l => Json.str l | none => Json.null)]

def encRecord (r : Record) : Json :=
  Json.mkObj [
    ("kind", Json.str r.kind.typeName),
    ("id", encOptQ r.id),
    ("attrs", Json.arr (r.flat.map (fun p => Json.arr #[p.1.uri, p.1.print, encValue p.2])).toArray)]

def encMgr (m : NsMgr) : List (String × Json) :=
  [("ns", Json.arr (m.reg.values.map (fun n => Json.arr #[n.pfx, n.uri])).toArray),
   ("default", match m.dflt with | some d => Json.str d.uri | none => Json.null)]

partial def encCont (h : Heap) (c : Nat) : Json :=
  let k := h.cont c
  Json.mkObj (([
    ("doc", Json.bool k.isDoc),
    ("id", encOptQ k.id)] : List (String × Json)) ++ encMgr (h.mgrOf c) ++ [
    ("records", Json.arr (k.records.map (fun r => encRecord (h.recCell r).r)).toArray),
    ("bundles", Json.arr (k.bundles.map (fun p => Json.arr #[encQ p.1, encCont h p.2])).toArray)])


/-! ### JSON trees of the PROV-JSON model travel in a tagged encoding that keeps key order:
    null | bool | string | {"i": "123"} | {"f": {float atom}} | {"a": [...]} | {"o": [[k, v], ...]} -/

partial def decJVal (j : Json) : R JVal := do
  match j with
  | .null => return .null
  | .bool b => return .bool b
  | .str s => return .str s
  | _ =>
    match field? j "s" with
    | some sv => return .strf (← sv.getStr?) (← decFloat (← j.getObjVal? "f"))
    | none =>
    match field? j "i" with
    | some i => return .int (← decIntStr i)
    | none =>
      match field? j "f" with
      | some f => return .float (← decFloat f)
      | none =>
        match field? j "a" with
        | some a =>
          let l ← (← a.getArr?).toList.mapM decJVal
          return .arr l
        | none =>
          match field? j "o" with
          | some o =>
            let l ← (← o.getArr?).toList.mapM (fun e => do
              let pr ← e.getArr?
              if pr.size != 2 then throw "pair expected"
              let k ← pr[0]!.getStr?
              let v ← decJVal pr[1]!
              pure (k, v))
            return .obj l
          | none => throw s!"bad JVal {j.compress}"

partial def encJVal : JVal → Json
  | .null => Json.null
  | .bool b => Json.bool b
  | .str s => Json.str s
  | .strf s _ => Json.str s
  | .int n => Json.mkObj [("i", Json.str (toString n))]
  | .float f => Json.mkObj [("f", Json.str f.repr)]
  | .arr l => Json.mkObj [("a", Json.arr (l.map encJVal).toArray)]
  | .obj kvs => Json.mkObj [("o", Json.arr (kvs.map (fun p => Json.arr #[Json.str p.1, encJVal p.2])).toArray)]


open Prov.JsonSpec in
def encAVal : AVal → Json
  | .str s => Json.arr #["str", s]
  | .int n => Json.arr #["int", toString n]
  | .bool b => Json.arr #["bool", b]
  | .float r => Json.arr #["float", r]
  | .dt l => Json.arr #["dt", l]
  | .uri u => Json.arr #["uri", u]
  | .qn u => Json.arr #["qn", u]
  | .lit l ty lang => Json.arr #["lit", l, (match ty with | some t => Json.str t | none => Json.null),
                                 (match lang with | some x => Json.str x | none => Json.null)]

open Prov.JsonSpec in
def encARec (r : ARec) : Json :=
  Json.mkObj [("kind", Json.str r.kind), ("id", match r.id with | some u => Json.str u | none => Json.null),
              ("attrs", Json.arr (r.attrs.map (fun a => Json.arr #[Json.str a.1, encAVal a.2])).toArray)]

partial def decXNode (j : Json) : R XNode := do
  let u ← (← j.getObjVal? "u").getStr?
  let l ← (← j.getObjVal? "l").getStr?
  let p : Option String ← match field? j "p" with
    | some x => do pure (some (← x.getStr?))
    | none => pure none
  let ns ← (← (← j.getObjVal? "ns").getArr?).toList.mapM (fun e => do
    let pr ← e.getArr?
    let k : Option String ← if pr[0]!.isNull then pure none else do pure (some (← pr[0]!.getStr?))
    pure (k, ← pr[1]!.getStr?))
  let attrs ← (← (← j.getObjVal? "a").getArr?).toList.mapM (fun e => do
    let pr ← e.getArr?
    pure ((← pr[0]!.getStr?, ← pr[1]!.getStr?), ← pr[2]!.getStr?))
  let t : Option String ← match field? j "t" with
    | some x => do pure (some (← x.getStr?))
    | none => pure none
  let cs ← (← (← j.getObjVal? "c").getArr?).toList.mapM decXNode
  return { uri := u, loc := l, pfx := p, nsmap := ns, attrs := attrs, text := t, children := cs }

partial def encXNode (n : XNode) : Json :=
  Json.mkObj [
    ("u", Json.str n.uri), ("l", Json.str n.loc),
    ("ns", Json.arr (n.nsmap.map (fun p => Json.arr #[(match p.1 with | some k => Json.str k | none => Json.null), Json.str p.2])).toArray),
    ("a", Json.arr (n.attrs.map (fun a => Json.arr #[Json.str a.1.1, Json.str a.1.2, Json.str a.2])).toArray),
    ("t", match n.text with | some t => Json.str t | none => Json.null),
    ("c", Json.arr (n.children.map encXNode).toArray)]

end Driver

import Prov.Names
import Prov.Text
import Prov.NsMgr
import Prov.Value
import Prov.Kinds
import Prov.Record
import Prov.Heap
import Prov.Eq

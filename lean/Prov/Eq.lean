/-
  Equality and hashing: `ProvRecord.__eq__/__hash__`, `ProvBundle.__eq__`, `ProvDocument.__eq__`
  exactly as coded (set construction, length test, greedy removal loop).
-/
import Prov.Heap

namespace Prov

def optSame (a b : Option QName) : Bool :=
  match a, b with
  | none, none => true
  | some x, some y => x.same y
  | _, _ => false

def pairEq (a b : QName × Value) : Bool := a.1.same b.1 && a.2.keyEq b.2

/-- `set(xs) == set(ys)` for lists of (name, value) pairs -/
def flatSetEq (xs ys : List (QName × Value)) : Bool :=
  xs.all (fun x => ys.any (pairEq x)) && ys.all (fun y => xs.any (pairEq y))

/-- `ProvRecord.__eq__` (after the symmetry fix) -/
def recEq (a b : Record) : Bool :=
  a.kind == b.kind && optSame a.id b.id && flatSetEq a.flat b.flat

/-- what Python's `hash` of a stored value is a function of: `hash(str)`, the exact rational value of a number
    (`hash(1) == hash(1.0) == hash(True)`), the time line position of a datetime, `hash((uri, Identifier))`,
    `hash(self.uri)` for a QualifiedName (the hash of a string), `hash((value, datatype, langtag))` for a Literal -/
inductive HKey where
  | str (s : String)
  | num (q : Rat)
  | dtNaive (i : Int)
  | dtAware (i : Int)
  | ident (u : String)
  | lit (v : String) (ty : Option String) (lang : Option String)
  deriving DecidableEq

def Value.hkey : Value → HKey
  | .str s => .str s
  | .int n => .num (mkRat n 1)
  | .bool b => .num (mkRat (if b then 1 else 0) 1)
  | .float f => .num (mkRat f.num f.den)
  | .dt t => (match t.tz with | none => .dtNaive t.instant | some _ => .dtAware t.instant)
  | .uri u => .ident u
  | .qn q => .str q.uri
  | .lit v ty l => .lit v (ty.map (·.uri)) l

/-- the members of `frozenset(self.attributes)` as `hash` sees them -/
def Record.hkeys (r : Record) : List (String × HKey) := r.flat.map (fun p => (p.1.uri, p.2.hkey))

/-- the arguments of `ProvRecord.__hash__`, `(type, identifier, frozenset(attributes))`, are the same for `hash` -/
def recHashSame (a b : Record) : Bool :=
  a.kind == b.kind && a.id.map (·.uri) == b.id.map (·.uri) &&
    a.hkeys.all (fun x => b.hkeys.contains x) && b.hkeys.all (fun y => a.hkeys.contains y)

/-- `set(records)`: keep the first representative of each `recEq` class -/
def dedupRecs (rs : List Record) : List Record :=
  rs.foldl (fun acc r => if acc.any (fun x => recEq x r) then acc else acc ++ [r]) []

/-- remove the first element equal to `a` (the inner loop of `ProvBundle.__eq__`) -/
def removeFirst (a : Record) : List Record → Option (List Record)
  | [] => none
  | b :: rest =>
    if recEq a b then some rest
    else match removeFirst a rest with
      | some r => some (b :: r)
      | none => none

def greedyMatch : List Record → List Record → Bool
  | [], _ => true
  | a :: as, others =>
    match removeFirst a others with
    | some others' => greedyMatch as others'
    | none => false

/-- `ProvBundle.__eq__` on the two record lists -/
def recordsEq (xs ys : List Record) : Bool :=
  let this := dedupRecs xs
  let other := dedupRecs ys
  this.length == other.length && greedyMatch this other

namespace Heap

def recsOf (h : Heap) (c : Nat) : List Record := (h.cont c).records.map (fun r => (h.recCell r).r)

def bundleEq (h : Heap) (a b : Nat) : Bool := recordsEq (h.recsOf a) (h.recsOf b)

/-- `ProvDocument.__eq__` (after the bundle-count fix) -/
def docEq (h : Heap) (a b : Nat) : Bool :=
  let ak := h.cont a
  let bk := h.cont b
  bk.isDoc && h.bundleEq a b &&
  ak.bundles.length == bk.bundles.length &&
  ak.bundles.all (fun p =>
    match bundlesGet bk.bundles p.1 with
    | some ob => h.bundleEq p.2 ob
    | none => false)

/-- `x == y` with Python's dispatch between ProvBundle and ProvDocument -/
def contEq (h : Heap) (a b : Nat) : Bool :=
  let ad := (h.cont a).isDoc
  let bd := (h.cont b).isDoc
  if ad && bd then h.docEq a b
  else if ad || bd then false        -- document vs plain bundle: `ProvDocument.__eq__` answers False
  else h.bundleEq a b

end Heap
end Prov

/-
  PROV-XML: `prov/serializers/provxml.py` on XML infoset trees.
  `encodeXml` mirrors serialize / serialize_bundle / _derive_record_label / sorted_attributes and the
  xsi:type decision web; `decodeXml` mirrors deserialize_subtree / _extract_attributes /
  xml_qname_to_QualifiedName (after the "fix:" commits).
-/
import Prov.Eq

namespace Prov

structure XNode where
  uri : String
  loc : String
  pfx : Option String                          -- prefix lxml used for the element name (reader input)
  nsmap : List (Option String × String)        -- in-scope namespace declarations (`element.nsmap`)
  attrs : List ((String × String) × String)    -- ((namespace URI, local name), value)
  text : Option String
  children : List XNode
  deriving Repr, Inhabited

def xsiUri : String := nsXsi.uri
def xmlUri : String := "http://www.w3.org/XML/1998/namespace"
def xmlXsdUri : String := "http://www.w3.org/2001/XMLSchema"

def nsmapSet (m : List (Option String × String)) (k : Option String) (v : String) : List (Option String × String) :=
  match m with
  | [] => [(k, v)]
  | (k', v') :: rest => if k' = k then (k, v) :: rest else (k', v') :: nsmapSet rest k v

def nsmapGet (m : List (Option String × String)) (k : Option String) : Option String :=
  (m.find? (fun p => p.1 = k)).map (·.2)

/-! ### writer -/

/-- `ADDITIONAL_N_MAP` / `PROV_BASE_CLS` for subtypes: (type local name, XML label, base kind) -/
def subtypeTable : List (String × String × RecKind) := [
  ("Revision", "wasRevisionOf", .derivation), ("Quotation", "wasQuotedFrom", .derivation),
  ("PrimarySource", "hadPrimarySource", .derivation), ("SoftwareAgent", "softwareAgent", .agent),
  ("Person", "person", .agent), ("Organization", "organization", .agent), ("Plan", "plan", .entity),
  ("Collection", "collection", .entity), ("EmptyCollection", "emptyCollection", .entity),
  ("Bundle", "bundle", .entity)]

/-- Python `str(datetime)`: like isoformat with a space instead of 'T' -/
def DateTime.pyStr (t : DateTime) : String :=
  String.ofList (t.iso.toList.map (fun c => if c == 'T' then ' ' else c))

/-- `str(value)` for the non-Literal kinds -/
def Value.pyStr : Value → String
  | .str s => s
  | .int n => toString n
  | .bool b => if b then "True" else "False"
  | .float f => f.repr
  | .dt t => t.pyStr
  | .uri u => u
  | .qn q => q.print
  | .lit v _ _ => v

/-- sort key of `sorted_attributes`: (str(name), str(value.value if Literal else value)) -/
def sortKey (p : QName × Value) : String × String := (p.1.print, p.2.pyStr)

def keyLe (a b : String × String) : Bool := a.1 < b.1 || (a.1 == b.1 && (a.2 < b.2 || a.2 == b.2))

def insertSorted (x : QName × Value) : List (QName × Value) → List (QName × Value)
  | [] => [x]
  | y :: ys => if keyLe (sortKey y) (sortKey x) then y :: insertSorted x ys else x :: y :: ys

/-- stable sort by `sortKey` -/
def stableSort (l : List (QName × Value)) : List (QName × Value) :=
  l.foldl (fun acc x => insertSorted x acc) []

/-- `sorted_attributes(rec_type, attributes)` -/
def sortedAttributes (k : RecKind) (attrs : List (QName × Value)) : List (QName × Value) :=
  let order : List String := (k.formals ++ ["label", "location", "role", "type", "value"]).map (provUri ++ ·)
  let firsts := order.flatMap (fun u => stableSort (attrs.filter (fun p => p.1.uri == u)))
  let rest := attrs.filter (fun p => !(order.contains p.1.uri))
  firsts ++ stableSort rest

/-- the pair `_derive_record_label` looks for: a prov:type whose value is a qualified name of a PROV subtype of this kind -/
def isSubtypePair (k : RecKind) (p : QName × Value) : Bool :=
  p.1.uri == provUri ++ "type" &&
  (match p.2 with
   | .qn q => subtypeTable.any (fun s => q.uri == provUri ++ s.1 && s.2.2 == k)
   | _ => false)

/-- `_derive_record_label`: element label and the attribute list with the consumed prov:type pair (that very pair, by
    position) removed -/
def deriveLabel (k : RecKind) (attrs : List (QName × Value)) : String × List (QName × Value) :=
  match attrs.find? (isSubtypePair k) with
  | some (_, .qn q) =>
    let lbl := match subtypeTable.find? (fun s => q.uri == provUri ++ s.1) with
      | some s => s.2.1
      | none => k.provN
    (lbl, attrs.eraseP (isSubtypePair k))
  | _ => (k.provN, attrs)

structure XChild where
  xsiType : Option String := none
  lang : Option String := none
  ref : Option String := none
  text : Option String := none
  deriving Repr, DecidableEq

def strStartsWithProv (s : String) : Bool := Text.sStartsWith s "prov:"

/-- Python `str(value)` as used by the `startswith("prov:")` hack (Literals print as PROV-N, which starts with a quote) -/
def Value.pyStrFull : Value → String
  | .lit v _ _ => "\"" ++ v
  | v => v.pyStr

/-- the body of the per-attribute loop of `serialize_bundle`: how one (attr, value) pair is written -/
def encodeXmlAttr (ft : Bool) (attr : QName) (value : Value) : XChild :=
  let isRef := isRefAttr attr
  -- first block: type/lang from the value's own class, and the text v
  let (ty0, lang0, v0) : Option String × Option String × String :=
    match value with
    | .lit v ty lang =>
      let t := match ty with
        | some t => if t.uri == provUri ++ "InternationalizedString" then none else some (t.ns.pfx ++ ":" ++ t.loc)
        | none => none
      (t, lang, v)
    | .qn q => (if isRef then none else some "xsd:QName", none, q.print)
    | .dt t => (none, none, t.iso)
    | v => (none, none, v.pyStr)
  let alwaysCheck := match value with
    | .bool _ | .dt _ | .float _ | .int _ | .uri _ => true
    | _ => false
  let isTLV := attr.uri == provUri ++ "type" || attr.uri == provUri ++ "location" || attr.uri == provUri ++ "value"
  let cond := (ft || alwaysCheck || isTLV) && ty0.isNone && !(strStartsWithProv value.pyStrFull) &&
              !(isRef && v0 != "") && !(attr.uri == provUri ++ "time" || attr.uri == provUri ++ "label")
  let (ty1, v1) : Option String × String :=
    if cond then
      match value with
      | .bool _ => (some "xsd:boolean", v0.toLower)
      | .str _ => (some "xsd:string", v0)
      | .float _ => (some "xsd:double", v0)
      | .int _ => (some "xsd:int", v0)
      | .dt _ =>
        if attr.ns.pfx != "prov" || !(Text.sContains attr.loc.toLower "time") then (some "xsd:dateTime", v0) else (none, v0)
      | .uri _ => (some "xsd:anyURI", v0)
      | .qn _ => (some "xsd:anyURI", v0)       -- isinstance(value, Identifier); unreachable outside reference attributes
      | .lit _ _ _ => (none, v0)
    else (ty0, v0)
  if isRef && v1 != "" then { xsiType := ty1, lang := lang0, ref := some v1, text := none }
  else { xsiType := ty1, lang := lang0, ref := none, text := some v1 }

def childNode (attr : QName) (c : XChild) : XNode :=
  { uri := attr.ns.uri, loc := attr.loc, pfx := none, nsmap := [],
    attrs := (match c.xsiType with | some t => [((xsiUri, "type"), t)] | none => []) ++
             (match c.lang with | some l => [((xmlUri, "lang"), l)] | none => []) ++
             (match c.ref with | some r => [((provUri, "ref"), r)] | none => []),
    text := c.text, children := [] }

def encodeXmlRecord (ft : Bool) (r : Record) : XNode :=
  let (label, attrs) := deriveLabel r.kind r.flat
  { uri := provUri, loc := label, pfx := none, nsmap := [],
    attrs := match r.id with | some q => [((provUri, "id"), q.print)] | none => [],
    text := none,
    children := (sortedAttributes r.kind attrs).map (fun p => childNode p.1 (encodeXmlAttr ft p.1 p.2)) }

namespace Heap

/-- the namespace map `serialize_bundle` attaches to the element of container `c` of document `d` -/
def xmlNsmap (h : Heap) (d c : Nat) (bundleNsOrder : List Ns) : List (Option String × String) :=
  let dm := h.mgrOf d
  let m0 : List (Option String × String) := dm.reg.values.foldl (fun acc n => nsmapSet acc (some n.pfx) n.uri) []
  let m1 := match dm.dflt with | some df => nsmapSet m0 none df.uri | none => m0
  let m2 := bundleNsOrder.foldl (fun acc n => nsmapSet acc (some n.pfx) n.uri) m1
  let m3 := match (h.mgrOf c).dflt with | some df => nsmapSet m2 none df.uri | none => m2
  let m4 := nsmapSet m3 (some "prov") provUri
  let m5 := nsmapSet m4 (some "xsd") xmlXsdUri
  nsmapSet m5 (some "xsi") xsiUri

def encodeXmlContainer (h : Heap) (ft : Bool) (d c : Nat) (isRoot : Bool) : XNode :=
  let k := h.cont c
  { uri := provUri, loc := if isRoot then "document" else "bundleContent", pfx := none,
    nsmap := h.xmlNsmap d c (h.mgrOf c).reg.values,
    attrs := match k.id with | some q => [((provUri, "id"), q.print)] | none => [],
    text := none,
    children := (h.recsOf c).map (encodeXmlRecord ft) }

/-- `ProvXMLSerializer.serialize(document)` as a tree -/
def encodeXml (h : Heap) (ft : Bool) (d : Nat) : XNode :=
  let root := h.encodeXmlContainer ft d d true
  { root with children := root.children ++ (h.cont d).bundles.map (fun p => h.encodeXmlContainer ft d p.2 false) }

end Heap

/-! ### reader -/

def errXml : Err := "lib:ProvXMLException"

/-- `xml_qname_to_QualifiedName(element, qname_str)` -/
def xmlQName (nsmap : List (Option String × String)) (s : String) : Except Err QName :=
  let viaDefault : Except Err QName :=
    match nsmapGet nsmap none with
    | some u => if u.isEmpty || u.all Char.isWhitespace then .error errValue else .ok ⟨⟨"", u⟩, s⟩
    | none => .error errXml
  match Text.splitAt1 ':' s.toList with
  | some (p, l) =>
    let p := String.ofList p
    let l := String.ofList l
    match nsmapGet nsmap (some p) with
    | some u =>
      if u == xmlXsdUri then .ok ⟨nsXsd, l⟩
      else if u == provUri then .ok ⟨nsProv, l⟩
      else if u.isEmpty || u.all Char.isWhitespace then .error errValue
      else .ok ⟨⟨p, u⟩, l⟩
    | none => viaDefault
  | none => viaDefault

/-- the name under which lxml reports a child element (`prefix:local`, or the bare local name) -/
def xmlNameStr (sub : XNode) : String :=
  match sub.pfx with
  | some p => if p == "" then sub.loc else p ++ ":" ++ sub.loc
  | none => sub.loc

/-- one XML attribute of a child element seen by the loop of `_extract_attributes` -/
def xmlValueStep (sub : XNode) (text : String) (acc : Except Err ArgVal) (a : (String × String) × String) : Except Err ArgVal :=
  match acc with
  | .error e => .error e
  | .ok cur =>
    if a.1 == (xsiUri, "type") then
      match xmlQName sub.nsmap a.2 with
      | .error e => .error e
      | .ok dt =>
        if dt.uri == xsdUri ++ "QName" then
          (xmlQName sub.nsmap text).map (fun q => ArgVal.val (.qn q))
        else .ok (.val (.lit text (some dt) none))
    else if a.1 == (provUri, "ref") then
      (xmlQName sub.nsmap a.2).map (fun q => ArgVal.val (.qn q))
    else if a.1 == (xmlUri, "lang") then
      -- Literal(text, langtag=value): a truthy language tag forces prov:InternationalizedString
      if a.2 == "" then .ok (.val (.lit text none (some "")))
      else .ok (.val (.lit text (some (provQ "InternationalizedString")) (some a.2)))
    else .ok cur

/-- the value `_extract_attributes` makes of one child element: its text, reinterpreted by xsi:type / prov:ref / xml:lang -/
def xmlValue (sub : XNode) : Except Err ArgVal :=
  sub.attrs.foldl (xmlValueStep sub (sub.text.getD "")) (.ok (.val (.str (sub.text.getD ""))))

/-- `_extract_attributes(element)` for one child element -/
def extractAttr (sub : XNode) : Except Err (QName × ArgVal) :=
  match xmlQName sub.nsmap (xmlNameStr sub) with
  | .error e => .error e
  | .ok t =>
    match xmlValue sub with
    | .ok v => .ok (t, v)
    | .error e => .error e

/-- `FULL_PROV_RECORD_IDS_MAP[localname]` then `PROV_BASE_CLS`: (base kind, subtype to assert) -/
def xmlRecordKind (label : String) : Option (RecKind × Option String) :=
  match RecKind.ofProvN label with
  | some k => some (k, none)
  | none =>
    match subtypeTable.find? (fun s => s.2.1 == label) with
    | some s => some (s.2.2, some s.1)
    | none => none

namespace Heap

/-- literal hints: the float each `xsd:double` text denotes (A-LEX), keyed by the text -/
abbrev FloatHints := List (String × FloatAtom)

def mapExcept {α β : Type} (f : α → Except Err β) : List α → Except Err (List β)
  | [] => .ok []
  | x :: xs => match f x, mapExcept f xs with
    | .ok y, .ok ys => .ok (y :: ys)
    | .error e, _ => .error e
    | _, .error e => .error e

/-- `deserialize_subtree(xml_doc, bundle)` -/
partial def decodeXmlSubtree (h : Heap) (hints : FloatHints) (c : Nat) (isDoc : Bool) : List XNode → Heap × Option Err
  | [] => (h, none)
  | el :: rest =>
    if el.uri != provUri then (h, some errXml)
    else if el.loc == "other" then decodeXmlSubtree h hints c isDoc rest
    else
      let idRes : Except Err (Option QName) :=
        match el.attrs.find? (fun a => a.1 == (provUri, "id")) with
        | some a => (xmlQName el.nsmap a.2).map some
        | none => .ok none
      match idRes with
      | .error e => (h, some e)
      | .ok recId =>
        if el.loc == "bundleContent" then
          if !isDoc then (h, some errAttr)       -- ProvBundle has no bundle(): AttributeError
          else
            match h.bundle c (match recId with | some q => .qn q | none => .nil) with
            | (h1, .error e) => (h1, some e)
            | (h1, .ok b) =>
              match decodeXmlSubtree h1 hints b false el.children with
              | (h2, some e) => (h2, some e)
              | (h2, none) => decodeXmlSubtree h2 hints c isDoc rest
        else
          match mapExcept extractAttr el.children with
          | .error e => (h, some e)
          | .ok attrs =>
            match xmlRecordKind el.loc with
            | none => (h, some errKey)
            | some (kind, sub) =>
              let typeAttr : Except Err (List (QName × ArgVal)) :=
                match el.attrs.find? (fun a => a.1 == (xsiUri, "type")) with
                | some a => (xmlQName el.nsmap a.2).map (fun q => [(provQ "type", ArgVal.val (.qn q))])
                | none => .ok []
              match typeAttr with
              | .error e => (h, some e)
              | .ok ta =>
                let args : List AttrArg := (attrs ++ ta).map (fun p =>
                  { name := .qn p.1, value := p.2,
                    flt := match p.2 with
                      | .val (.lit lex _ _) => (hints.find? (fun x => x.1 == lex)).map (·.2)
                      | _ => none })
                match h.newRecord c kind (match recId with | some q => .qn q | none => .nil) args with
                | (h1, .error e) => (h1, some e)
                | (h1, .ok r) =>
                  let h2 := match sub with
                    | some t => (h1.addAssertedType r (.val (.qn (provQ t))) none).1
                    | none => h1
                  decodeXmlSubtree h2 hints c isDoc rest

/-- `ProvXMLSerializer.deserialize` from the parsed root element -/
def decodeXml (h : Heap) (hints : FloatHints) (root : XNode) : Heap × Except Err Nat :=
  let (h0, d) := h.newDoc
  match h0.decodeXmlSubtree hints d true root.children with
  | (h1, none) => (h1, .ok d)
  | (h1, some e) => (h1, .error e)

end Heap
end Prov

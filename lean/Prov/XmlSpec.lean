/-
  An independent reader of PROV-XML, written from the W3C note "PROV-XML: The PROV XML Schema"
  (element names, subtype elements, prov:id / prov:ref, xsi:type / xml:lang on values, child order of the
  schema's sequence types). It shares no code with the model of the library's reader (`decodeXml`) and none of
  the library's tables; Props/C10 proves the transcribed tables equal to the regenerated ones.
-/
import Prov.Xml
import Prov.JsonSpec

namespace Prov.XmlSpec
open Prov JsonSpec

def provNsX : String := "http://www.w3.org/ns/prov#"
def xsdNsX : String := "http://www.w3.org/2001/XMLSchema"
def xsiNsX : String := "http://www.w3.org/2001/XMLSchema-instance"
def xmlNsX : String := "http://www.w3.org/XML/1998/namespace"

/-- record elements of the schema: element name ↦ (PROV-DM type, subtype it asserts) -/
def elementTable : List (String × String × Option String) := [
  ("entity", "Entity", none), ("activity", "Activity", none), ("agent", "Agent", none),
  ("wasGeneratedBy", "Generation", none), ("used", "Usage", none), ("wasInformedBy", "Communication", none),
  ("wasStartedBy", "Start", none), ("wasEndedBy", "End", none), ("wasInvalidatedBy", "Invalidation", none),
  ("wasDerivedFrom", "Derivation", none), ("wasAttributedTo", "Attribution", none),
  ("wasAssociatedWith", "Association", none), ("actedOnBehalfOf", "Delegation", none),
  ("wasInfluencedBy", "Influence", none), ("specializationOf", "Specialization", none),
  ("alternateOf", "Alternate", none), ("mentionOf", "Mention", none), ("hadMember", "Membership", none),
  ("wasRevisionOf", "Derivation", some "Revision"), ("wasQuotedFrom", "Derivation", some "Quotation"),
  ("hadPrimarySource", "Derivation", some "PrimarySource"), ("softwareAgent", "Agent", some "SoftwareAgent"),
  ("person", "Agent", some "Person"), ("organization", "Agent", some "Organization"),
  ("plan", "Entity", some "Plan"), ("collection", "Entity", some "Collection"),
  ("emptyCollection", "Entity", some "EmptyCollection"), ("bundle", "Entity", some "Bundle")]

/-- schema sequence of the formal children per PROV-DM type (then label, location, role, type, value, then any) -/
def formalOrder : List (String × List String) := [
  ("Entity", []), ("Agent", []), ("Activity", ["startTime", "endTime"]),
  ("Generation", ["entity", "activity", "time"]), ("Usage", ["activity", "entity", "time"]),
  ("Communication", ["informed", "informant"]), ("Start", ["activity", "trigger", "starter", "time"]),
  ("End", ["activity", "trigger", "ender", "time"]), ("Invalidation", ["entity", "activity", "time"]),
  ("Derivation", ["generatedEntity", "usedEntity", "activity", "generation", "usage"]),
  ("Attribution", ["entity", "agent"]), ("Association", ["activity", "agent", "plan"]),
  ("Delegation", ["delegate", "responsible", "activity"]), ("Influence", ["influencee", "influencer"]),
  ("Specialization", ["specificEntity", "generalEntity"]), ("Alternate", ["alternate1", "alternate2"]),
  ("Mention", ["specificEntity", "generalEntity", "bundle"]), ("Membership", ["collection", "entity"])]

def timeChildren : List String := ["time", "startTime", "endTime"]
def tailOrder : List String := ["label", "location", "role", "type", "value"]

/-- xsd:QName semantics: prefix through the in-scope declarations, no prefix = default namespace -/
def resolveQName (nsmap : List (Option String × String)) (s : String) : Option String :=
  match splitFirstColon s.toList with
  | some (p, l) =>
    (nsmapGet nsmap (some (String.ofList p))).map (fun u =>
      (if u == xsdNsX then u ++ "#" else u) ++ String.ofList l)
  | none => (nsmapGet nsmap none).map (· ++ s)

def attrOf (n : XNode) (u l : String) : Option String := (n.attrs.find? (fun a => a.1 == (u, l))).map (·.2)

/-- the value a child element denotes; `hints` = float value of xsd:double texts (A-LEX) -/
def readChildValue (hints : List (String × FloatAtom)) (isRefChild isTimeChild : Bool) (c : XNode) : Option AVal :=
  let text := c.text.getD ""
  if isRefChild then
    match attrOf c provNsX "ref" with
    | some r => (resolveQName c.nsmap r).map AVal.qn
    | none => none
  else if isTimeChild then some (.dt text)
  else
    match attrOf c xmlNsX "lang" with
    | some l => some (.lit text (some (provNsX ++ "InternationalizedString")) (some l))
    | none =>
      match attrOf c xsiNsX "type" with
      | none => some (.str text)
      | some ty =>
        match resolveQName c.nsmap ty with
        | none => none
        | some tu =>
          let xs := xsdNsX ++ "#"
          if tu == xs ++ "QName" then (resolveQName c.nsmap text).map AVal.qn
          else if tu == xs ++ "string" then some (.str text)
          else if tu == xs ++ "anyURI" then some (.uri text)
          else if tu == xs ++ "int" || tu == xs ++ "long" then
            (match text.toInt? with | some n => some (.int n) | none => some (.lit text (some tu) none))
          else if tu == xs ++ "double" then
            (match hints.find? (fun h => h.1 == text) with
             | some h => some (.float h.2.repr)
             | none => some (.lit text (some tu) none))
          else if tu == xs ++ "boolean" then
            (let l := text.toLower
             if l == "true" || l == "1" then some (.bool true)
             else if l == "false" || l == "0" then some (.bool false)
             else some (.lit text (some tu) none))
          else if tu == xs ++ "dateTime" then
            (if (parseIso text).isSome then some (.dt text) else some (.lit text (some tu) none))
          else some (.lit text (some tu) none)

/-- position of a child in the schema sequence of its record type: formals, then label…value, then the rest -/
def childRank (formals : List String) (c : XNode) : Nat :=
  if c.uri == provNsX then
    match formals.findIdx? (· == c.loc) with
    | some i => i
    | none => match tailOrder.findIdx? (· == c.loc) with
      | some j => formals.length + j
      | none => formals.length + tailOrder.length
  else formals.length + tailOrder.length

def isNonDecreasing : List Nat → Bool
  | [] => true
  | [_] => true
  | a :: b :: rest => a ≤ b && isNonDecreasing (b :: rest)

/-- the identifier of a record element: `some none` = no prov:id, `none` = unreadable -/
def readId (el : XNode) : Option (Option String) :=
  match attrOf el provNsX "id" with
  | some s => (resolveQName el.nsmap s).map some
  | none => some none

/-- one child of a record element of a type with formal sequence `formals`: (attribute URI, value) -/
def childEntry (hints : List (String × FloatAtom)) (formals : List String) (c : XNode) : Option (String × AVal) :=
  let isFormal := c.uri == provNsX && formals.contains c.loc
  let isTime := isFormal && timeChildren.contains c.loc
  (readChildValue hints (isFormal && !isTime) isTime c).map (fun v => (c.uri ++ c.loc, v))

/-- the prov:type values an element stands for beyond its children: its subtype name, its xsi:type -/
def extraTypes (sub : Option String) (el : XNode) : List (String × AVal) :=
  (match sub with | some t => [(provNsX ++ "type", AVal.qn (provNsX ++ t))] | none => []) ++
  (match attrOf el xsiNsX "type" with
   | some ty => (match resolveQName el.nsmap ty with | some u => [(provNsX ++ "type", AVal.qn u)] | none => [])
   | none => [])

/-- one record element; `none` = not PROV-XML (unknown element, unreadable name, children out of schema order) -/
def readRecord (hints : List (String × FloatAtom)) (el : XNode) : Option ARec :=
  if el.uri != provNsX then none else
  match elementTable.find? (fun e => e.1 == el.loc) with
  | none => none
  | some (_, kind, sub) =>
    let formals := (formalOrder.find? (fun f => f.1 == kind)).map (·.2) |>.getD []
    if !isNonDecreasing (el.children.map (childRank formals)) then none else
    match readId el with
    | none => none
    | some id =>
      match mapM? (childEntry hints formals) el.children with
      | none => none
      | some attrs => some ⟨kind, id, attrs ++ extraTypes sub el⟩

/-- a PROV-XML document: ("" ↦ top-level records) and one entry per prov:bundleContent, keyed by its prov:id URI -/
def readDocument (hints : List (String × FloatAtom)) (root : XNode) : Option (List (String × List ARec)) :=
  if !(root.uri == provNsX && root.loc == "document") then none else
  let recEls := root.children.filter (fun c => !(c.uri == provNsX && (c.loc == "bundleContent" || c.loc == "other")))
  let bundleEls := root.children.filter (fun c => c.uri == provNsX && c.loc == "bundleContent")
  match mapM? (readRecord hints) recEls with
  | none => none
  | some top =>
    (mapM? (fun (b : XNode) =>
      match attrOf b provNsX "id" with
      | none => none
      | some s =>
        match resolveQName b.nsmap s, mapM? (readRecord hints) (b.children.filter (fun c => !(c.uri == provNsX && c.loc == "other"))) with
        | some bu, some recs => some (bu, recs)
        | _, _ => none) bundleEls).map (fun bs => ("", top) :: bs)

end Prov.XmlSpec

/-
  PROV-N printer: `ProvBundle.get_provn`, `ProvRecord.get_provn`, `encoding_provn_value`,
  `_ensure_multiline_string_triple_quoted`, the `provn_representation`s — character for character
  (after the three "fix:" commits: backslash escaping, CR, exact floats).
-/
import Prov.Eq

namespace Prov
open Text

/-- `s.replace("\\", "\\\\").replace('"', '\\"')` -/
def provnEscape : List Char → List Char
  | [] => []
  | c :: cs =>
    if c == '\\' then '\\' :: '\\' :: provnEscape cs
    else if c == '"' then '\\' :: '"' :: provnEscape cs
    else c :: provnEscape cs

/-- `_ensure_multiline_string_triple_quoted` -/
def provnQuote (s : String) : String :=
  let e := provnEscape s.toList
  if e.contains '\n' || e.contains '\r' then "\"\"\"" ++ String.ofList e ++ "\"\"\""
  else "\"" ++ String.ofList e ++ "\""

/-- `value.provn_representation()` / `encoding_provn_value(value)` -/
def provnValue : Value → String
  | .str s => provnQuote s
  | .dt t => "\"" ++ t.iso ++ "\" %% xsd:dateTime"
  | .float f => "\"" ++ f.repr ++ "\" %% xsd:double"
  | .bool b => (if b then "\"1\"" else "\"0\"") ++ " %% xsd:boolean"
  | .int n => toString n
  | .qn q => "'" ++ q.print ++ "'"
  | .uri u => "\"" ++ u ++ "\" %% xsd:anyURI"
  | .lit v ty lang =>
    match lang with
    | some l => if l == "" then provnQuote v ++ " %% " ++ (match ty with | some t => t.print | none => "None")
                else provnQuote v ++ "@" ++ l
    | none => provnQuote v ++ " %% " ++ (match ty with | some t => t.print | none => "None")

/-- text of a formal argument: `value.isoformat()` for datetimes, `str(value)` otherwise -/
def provnFormal : Value → String
  | .dt t => t.iso
  | .qn q => q.print
  | .str s => s
  | .int n => toString n
  | .uri u => u
  | .float f => f.repr
  | .bool b => if b then "True" else "False"
  | .lit v _ _ => provnQuote v

def joinWith (sep : String) : List String → String
  | [] => ""
  | [x] => x
  | x :: xs => x ++ sep ++ joinWith sep xs

/-- identifier part: an element lists its identifier first; a relation writes `id; ` before its arguments -/
def provnIdItems (r : Record) : List String × String :=
  match r.id with
  | some q => if r.kind.isElement then ([q.print], "") else ([], q.print ++ "; ")
  | none => ([], "")

/-- the positional arguments: the first value of each formal attribute, or the marker -/
def provnFormals (r : Record) : List String :=
  r.kind.formals.map (fun l =>
    match (r.get (formalQ l)).head? with
    | some v => provnFormal v
    | none => "-")

/-- `name=value` for every other (attribute, value) pair -/
def provnExtras (r : Record) : List String :=
  (r.attrs.filter (fun p => !isFormalOf r.kind p.1)).flatMap (fun p =>
    p.2.map (fun v => p.1.print ++ "=" ++ provnValue v))

/-- `ProvRecord.get_provn()` -/
def provnRecord (r : Record) : String :=
  let items := (provnIdItems r).1 ++ provnFormals r ++
    (if (provnExtras r).isEmpty then [] else ["[" ++ joinWith ", " (provnExtras r) ++ "]"])
  r.kind.provN ++ "(" ++ (provnIdItems r).2 ++ joinWith ", " items ++ ")"

def indentStr (n : Nat) : String := String.ofList (List.replicate (2 * n) ' ')

namespace Heap

/-- lines of a container before joining (`get_provn` up to `lines.extend(record …)`) -/
def provnHeader (h : Heap) (c : Nat) : List String :=
  let k := h.cont c
  let m := h.mgrOf c
  let first := if k.isDoc then "document" else "bundle " ++ (match k.id with | some q => q.print | none => "None")
  let dflt := match m.dflt with | some d => ["default <" ++ d.uri ++ ">"] | none => []
  let pfx := m.reg.values.map (fun n => "prefix " ++ n.pfx ++ " <" ++ n.uri ++ ">")
  [first] ++ dflt ++ pfx ++ (if dflt.isEmpty && pfx.isEmpty then [] else [""])

def provnBundle (h : Heap) (c : Nat) (level : Nat) : String :=
  let lines := h.provnHeader c ++ (h.recsOf c).map provnRecord
  joinWith ("\n" ++ indentStr (level + 1)) lines ++ "\n" ++ indentStr level ++ "endBundle"

/-- `ProvDocument.get_provn()` -/
def provnDocument (h : Heap) (d : Nat) : String :=
  let lines := h.provnHeader d ++ (h.recsOf d).map provnRecord ++
    (h.cont d).bundles.map (fun p => h.provnBundle p.2 1)
  joinWith "\n  " lines ++ "\nendDocument"

end Heap
end Prov

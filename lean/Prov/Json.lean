/-
  PROV-JSON: `prov/serializers/provjson.py` on JSON trees.
  `encodeJson` mirrors encode_json_document/_container/_representation,
  `decodeJson` mirrors decode_json_document/_container/_representation (through the public
  construction operations of the heap layer).
-/
import Prov.Eq

namespace Prov

inductive JVal where
  | null
  | bool (b : Bool)
  | int (n : Int)
  | float (f : FloatAtom)
  | str (s : String)
  | strf (s : String) (f : FloatAtom)   -- a string together with the float its lexical form denotes (A-LEX: supplied by the harness)
  | arr (l : List JVal)
  | obj (kvs : List (String × JVal))
  deriving Repr, Inhabited

namespace JVal
def get? (j : JVal) (k : String) : Option JVal :=
  match j with
  | .obj kvs => (kvs.find? (fun p => p.1 == k)).map (·.2)
  | _ => none
end JVal

/-! ### encoding -/

def jsonObjSet (kvs : List (String × JVal)) (k : String) (v : JVal) : List (String × JVal) :=
  match kvs with
  | [] => [(k, v)]
  | (k', v') :: rest => if k' == k then (k, v) :: rest else (k', v') :: jsonObjSet rest k v

/-- `encode_json_representation(value)` -/
def encodeJsonValue : Value → JVal
  | .lit v ty lang =>
    match lang with
    | some l => if l == "" then
        .obj [("$", .str v), ("type", .str (match ty with | some t => t.print | none => "None"))]
      else .obj [("$", .str v), ("lang", .str l)]
    | none => .obj [("$", .str v), ("type", .str (match ty with | some t => t.print | none => "None"))]
  | .dt t => .obj [("$", .str t.iso), ("type", .str "xsd:dateTime")]
  | .qn q => .obj [("$", .str q.print), ("type", .str "prov:QUALIFIED_NAME")]
  | .uri u => .obj [("$", .str u), ("type", .str "xsd:anyURI")]
  | .float f => .obj [("$", .float f), ("type", .str "xsd:double")]
  | .int n => .obj [("$", .int n), ("type", .str "xsd:int")]
  | .str s => .str s
  | .bool b => .bool b

/-- text of a formal value: `str(first(values))` / `first(values).isoformat()` -/
def formalText (isTime : Bool) (v : Value) : Option String :=
  match v with
  | .qn q => if isTime then none else some q.print
  | .dt t => if isTime then some t.iso else some t.iso      -- str(datetime) differs from isoformat: only times reach here in the envelope
  | .uri u => if isTime then none else some u
  | .str s => if isTime then none else some s
  | _ => none

/-- one record's JSON object; `none` = outside the model's envelope (e.g. a time slot holding a non-datetime) -/
def encodeJsonRecord (r : Record) : Option JVal :=
  let step (acc : Option (List (String × JVal))) (p : QName × List Value) : Option (List (String × JVal)) :=
    match acc with
    | none => none
    | some kvs =>
      match p.2 with
      | [] => some kvs
      | v :: more =>
        if isRefAttr p.1 then
          (formalText false v).map (fun s => jsonObjSet kvs p.1.print (.str s))
        else if isTimeAttr p.1 then
          (formalText true v).map (fun s => jsonObjSet kvs p.1.print (.str s))
        else if more.isEmpty then some (jsonObjSet kvs p.1.print (encodeJsonValue v))
        else some (jsonObjSet kvs p.1.print (.arr ((v :: more).map encodeJsonValue)))
  (r.attrs.foldl step (some [])).map JVal.obj

/-- state of `encode_json_container`'s loop: the container dict and the anonymous-id cache -/
structure EncSt where
  cont : List (String × JVal)                -- rec_label ↦ obj { identifier ↦ record | [records] }
  anon : List (Record × String)              -- AnonymousIDGenerator._cache (keyed by record ==/hash)
  count : Nat

def anonIdFor (st : EncSt) (r : Record) : EncSt × String :=
  match st.anon.find? (fun p => recEq p.1 r) with
  | some p => (st, p.2)
  | none =>
    let id := "_:id" ++ toString (st.count + 1)
    ({ st with anon := st.anon ++ [(r, id)], count := st.count + 1 }, id)

def addRecordJson (st : EncSt) (label ident : String) (rj : JVal) : EncSt :=
  let cur : List (String × JVal) := match (JVal.obj st.cont).get? label with
    | some (.obj kvs) => kvs
    | _ => []
  let newEntry : JVal := match (JVal.obj cur).get? ident with
    | none => rj
    | some (.arr l) => .arr (l ++ [rj])
    | some other => .arr [other, rj]
  { st with cont := jsonObjSet st.cont label (.obj (jsonObjSet cur ident newEntry)) }

/-- the "prefix" block of a container: registered namespaces, then "default" -/
def jsonPrefixes (m : NsMgr) : List (String × JVal) :=
  (m.reg.values.foldl (fun acc n => jsonObjSet acc n.pfx (.str n.uri)) []) |>
    (fun p => match m.dflt with | some d => jsonObjSet p "default" (.str d.uri) | none => p)

/-- the state `encode_json_container` starts its loop with -/
def jsonEncInit (m : NsMgr) : EncSt :=
  { cont := if (jsonPrefixes m).isEmpty then [] else [("prefix", .obj (jsonPrefixes m))], anon := [], count := 0 }

/-- the loop body of `encode_json_container` -/
def encStepJ (acc : Option EncSt) (r : Record) : Option EncSt :=
  match acc with
  | none => none
  | some st =>
    let (st1, ident) : EncSt × String := match r.id with
      | some q => (st, q.print)
      | none => anonIdFor st r
    match encodeJsonRecord r with
    | some rj => some (addRecordJson st1 r.kind.provN ident rj)
    | none => none

/-- `encode_json_container(bundle)` -/
def encodeJsonContainer (m : NsMgr) (records : List Record) : Option (List (String × JVal)) :=
  (records.foldl encStepJ (some (jsonEncInit m))).map (·.cont)

namespace Heap

/-- `encode_json_document(document)` -/
def encodeJson (h : Heap) (d : Nat) : Option JVal :=
  match encodeJsonContainer (h.mgrOf d) (h.recsOf d) with
  | none => none
  | some top =>
    let bundles := (h.cont d).bundles
    if bundles.isEmpty then some (.obj top)
    else
      let step (acc : Option (List (String × JVal))) (p : QName × Nat) : Option (List (String × JVal)) :=
        match acc with
        | none => none
        | some kvs =>
          match encodeJsonContainer (h.mgrOf p.2) (h.recsOf p.2) with
          | some bj => some (jsonObjSet kvs (match (h.cont p.2).id with | some q => q.print | none => "None") (.obj bj))
          | none => none
      match bundles.foldl step (some []) with
      | some bj => some (.obj (jsonObjSet top "bundle" (.obj bj)))
      | none => none

end Heap

/-! ### decoding -/

def errJson : Err := "lib:ProvJSONException"
def errUnspec : Err := "unspecified"

/-- Python `str(x)` of a JSON scalar (the Literal constructor stringifies its value) -/
def jsonPyStr : JVal → Option String
  | .str s => some s
  | .strf s _ => some s
  | .int n => some (toString n)
  | .float f => some f.repr
  | .bool b => some (if b then "True" else "False")
  | .null => some "None"
  | _ => none

def jsonFloatHint : JVal → Option FloatAtom
  | .float f => some f
  | .strf _ f => some f
  | _ => none

/-- result of `decode_json_representation`: an argument for `add_attributes` -/
structure DecVal where
  value : ArgVal
  flt : Option FloatAtom := none

namespace Heap

/-- the module-level helper `valid_qualified_name(bundle, value)` on JSON strings -/
def jsonName (h : Heap) (c : Nat) (j : Option JVal) : Except Err (Option QName) :=
  match j with
  | none => .ok none
  | some .null => .ok none
  | some (.str s) => .ok (h.validName c (.str s)).2       -- the string path never mutates
  | some (.strf s _) => .ok (h.validName c (.str s)).2
  | some _ => .ok none                                     -- non-string: valid_qualified_name returns None

/-- `decode_json_representation(literal, bundle)` -/
def decodeJsonValue (h : Heap) (c : Nat) (j : JVal) : Except Err DecVal :=
  match j with
  | .obj kvs =>
    match (JVal.obj kvs).get? "$" with
    | none => .error errKey
    | some v =>
      match h.jsonName c ((JVal.obj kvs).get? "type") with
      | .error e => .error e
      | .ok dt =>
        let lang : Option JVal := match (JVal.obj kvs).get? "lang" with
          | some .null => none
          | x => x
        if (dt.map (fun q => q.uri)) == some (xsdUri ++ "anyURI") then
          match jsonPyStr v with
          | some s => .ok { value := .val (.uri s) }
          | none => .error errUnspec
        else if (dt.map (fun q => q.uri)) == some (provUri ++ "QUALIFIED_NAME") then
          match h.jsonName c (some v) with
          | .ok (some q) => .ok { value := .val (.qn q) }
          | .ok none => .ok { value := .nil }
          | .error e => .error e
        else
          match jsonPyStr v, lang with
          | some s, none => .ok { value := .val (.lit s dt none), flt := jsonFloatHint v }
          | some s, some (.str l) =>
            -- Literal.__init__: a (truthy) language tag forces prov:InternationalizedString
            if l == "" then .ok { value := .val (.lit s dt (some "")) }
            else .ok { value := .val (.lit s (some (provQ "InternationalizedString")) (some l)) }
          | _, _ => .error errUnspec
  | .str s => .ok { value := .val (.str s) }
  | .strf s _ => .ok { value := .val (.str s) }
  | .int n => .ok { value := .val (.int n) }
  | .float f => .ok { value := .val (.float f) }
  | .bool b => .ok { value := .val (.bool b) }
  | .null => .ok { value := .nil }
  | .arr _ => .error errType        -- a list as attribute value: unhashable

def dictSet (d : List (QName × ArgVal)) (k : QName) (v : ArgVal) : List (QName × ArgVal) :=
  match d with
  | [] => [(k, v)]
  | (k', v') :: rest => if k'.same k then (k', v) :: rest else (k', v') :: dictSet rest k v

/-- name of a JSON attribute key: `PROV_ATTRIBUTES_ID_MAP[attr_name]` or resolution in the bundle -/
def jsonAttrName (h : Heap) (c : Nat) (k : String) : Option QName :=
  match (attrQNames ++ attrLiterals).find? (fun l => "prov:" ++ l == k) with
  | some l => some (provQ l)
  | none => (h.validName c (.str k)).2

structure ElemAcc where
  formal : List (QName × ArgVal) := []
  other : List AttrArg := []
  extraMembers : List JVal := []

/-- the loop over the (attr_name, values) items of one JSON record object -/
def decodeElemAttrs (h : Heap) (c : Nat) (kind : RecKind) :
    List (String × JVal) → ElemAcc → Except Err ElemAcc
  | [], acc => .ok acc
  | (k, values) :: rest, acc =>
    let attr? := h.jsonAttrName c k
    let isProv := match attr? with | some a => isProvAttr a | none => false
    if isProv then
      match attr? with
      | none => .error errUnspec
      | some attr =>
        let pick : Except Err (JVal × List JVal) :=
          match values with
          | .arr l =>
            match l with
            | [] => .error errIndex
            | [x] => .ok (x, [])
            | x :: more =>
              if kind == .membership && attr.uri == provUri ++ "entity" then .ok (x, more)
              else .error errJson
          | x => .ok (x, [])
        match pick with
        | .error e => .error e
        | .ok (v, extra) =>
          let value : Except Err ArgVal :=
            if isRefAttr attr then
              match h.jsonName c (some v) with
              | .ok (some q) => .ok (.val (.qn q))
              | .ok none => .ok .nil
              | .error e => .error e
            else
              match v with
              | .str s => match parseIso s with
                | some t => .ok (.val (.dt t))
                | none => .ok .nil            -- parse_xsd_datetime returns None on ValueError
              | .strf s _ => match parseIso s with
                | some t => .ok (.val (.dt t))
                | none => .ok .nil
              | _ => .error errType            -- dateutil: TypeError on non-strings
          match value with
          | .error e => .error e
          | .ok av =>
            decodeElemAttrs h c kind rest
              { acc with formal := dictSet acc.formal attr av,
                         extraMembers := if extra.isEmpty then acc.extraMembers else extra }
    else
      let vals : List JVal := match values with | .arr l => l | x => [x]
      let rec conv : List JVal → Except Err (List AttrArg)
        | [] => .ok []
        | v :: more =>
          match h.decodeJsonValue c v, conv more with
          | .ok dv, .ok tl =>
            .ok ({ name := (match attr? with | some a => .qn a | none => .nil), value := dv.value, flt := dv.flt } :: tl)
          | .error e, _ => .error e
          | _, .error e => .error e
      match conv vals with
      | .error e => .error e
      | .ok as => decodeElemAttrs h c kind rest { acc with other := acc.other ++ as }

/-- one record object → `new_record` (+ the membership hack) -/
def decodeJsonElement (h : Heap) (c : Nat) (kind : RecKind) (recId : String) (elem : JVal) :
    Heap × Option Err :=
  match elem with
  | .obj kvs =>
    match decodeElemAttrs h c kind kvs {} with
    | .error e => (h, some e)
    | .ok acc =>
      let attrs : List AttrArg := acc.formal.map (fun p => { name := .qn p.1, value := p.2 }) ++ acc.other
      match h.newRecord c kind (.str recId) attrs with
      | (h1, .error e) => (h1, some e)
      | (h1, .ok _) =>
        if acc.extraMembers.isEmpty then (h1, none)
        else
          match acc.formal.find? (fun p => p.1.uri == provUri ++ "collection") with
          | none => (h1, some errKey)
          | some (_, coll) =>
            let rec members (h : Heap) : List JVal → Heap × Option Err
              | [] => (h, none)
              | mj :: more =>
                let ent : ArgVal := match h.jsonName c (some mj) with
                  | .ok (some q) => .val (.qn q)
                  | _ => .nil
                let attrs : List AttrArg :=
                  [{ name := .qn (formalQ "collection"), value := coll }, { name := .qn (formalQ "entity"), value := ent }]
                match h.newRecord c .membership .nil attrs with
                | (h', .ok _) => members h' more
                | (h', .error e) => (h', some e)
            members h1 acc.extraMembers
  | _ => (h, some errAttr)          -- element.items() on a non-dict

/-- `decode_json_container(jc, bundle)` -/
def decodeJsonContainer (h : Heap) (c : Nat) (jc : List (String × JVal)) : Heap × Option Err :=
  -- prefixes first
  let pre : Heap × Option Err :=
    match (JVal.obj jc).get? "prefix" with
    | some (.obj ps) =>
      ps.foldl (fun (acc : Heap × Option Err) p =>
        match acc with
        | (hh, some e) => (hh, some e)
        | (hh, none) =>
          match p.2 with
          | .str uri =>
            if p.1 != "default" then
              if uri.isEmpty || uri.all Char.isWhitespace then (hh, some errValue)   -- Namespace(): not a valid URI
              else ((hh.addNs c ⟨p.1, uri⟩).1, none)
            else (hh.setDefault c uri, none)
          | _ => (hh, some errUnspec)) (h, none)
    | some _ => (h, some errAttr)
    | none => (h, none)
  match pre with
  | (h1, some e) => (h1, some e)
  | (h1, none) =>
    let body := jc.filter (fun p => p.1 != "prefix")
    let rec recs (h : Heap) : List (String × JVal) → Heap × Option Err
      | [] => (h, none)
      | (label, content) :: rest =>
        match RecKind.ofProvN label with
        | none => (h, some errKey)          -- unknown record kind (or "bundle" inside a container)
        | some kind =>
          match content with
          | .obj ids =>
            let rec perId (h : Heap) : List (String × JVal) → Heap × Option Err
              | [] => (h, none)
              | (rid, cj) :: more =>
                let elems : Except Err (List JVal) := match cj with
                  | .obj _ => .ok [cj]
                  | .arr l => .ok l
                  | _ => .error errType
                match elems with
                | .error e => (h, some e)
                | .ok es =>
                  let rec perElem (h : Heap) : List JVal → Heap × Option Err
                    | [] => (h, none)
                    | e :: es' =>
                      match h.decodeJsonElement c kind rid e with
                      | (h', none) => perElem h' es'
                      | (h', some er) => (h', some er)
                  match perElem h es with
                  | (h', none) => perId h' more
                  | (h', some er) => (h', some er)
            match perId h ids with
            | (h', none) => recs h' rest
            | (h', some er) => (h', some er)
          | _ => (h, some errAttr)
    recs h1 body

/-- `decode_json_document(content, document)` into a fresh `ProvDocument()` -/
def decodeJson (h : Heap) (j : JVal) : Heap × Except Err Nat :=
  match j with
  | .obj kvs =>
    let (h0, d) := h.newDoc
    let bundles : Except Err (List (String × JVal)) := match (JVal.obj kvs).get? "bundle" with
      | some (.obj bs) => .ok bs
      | some _ => .error errAttr
      | none => .ok []
    let top := kvs.filter (fun p => p.1 != "bundle")
    match h0.decodeJsonContainer d top with
    | (h1, some e) => (h1, .error e)
    | (h1, none) =>
      match bundles with
      | .error e => (h1, .error e)
      | .ok bs =>
        let rec go (h : Heap) : List (String × JVal) → Heap × Option Err
          | [] => (h, none)
          | (bid, bc) :: rest =>
            match bc with
            | .obj bkvs =>
              let (h2, b) := h.allocCont false none [] (some d)
              match h2.decodeJsonContainer b bkvs with
              | (h3, some e) => (h3, some e)
              | (h3, none) =>
                let idArg : NameArg := match (h3.validName b (.str bid)).2 with
                  | some q => .qn q
                  | none => .nil
                match h3.addBundle d b idArg [] with
                | (h4, none) => go h4 rest
                | (h4, some e) => (h4, some e)
            | _ => (h, some errAttr)
        match go h1 bs with
        | (h2, none) => (h2, .ok d)
        | (h2, some e) => (h2, .error e)
  | _ => (h, .error errType)

end Heap
end Prov

/-
  Names: namespaces, qualified names, association tables.
  Mirrors prov/identifier.py (Namespace, QualifiedName) at value level.
  No Mathlib imports: this file is part of the compiled driver.
-/

namespace Prov

/-- `prov.identifier.Namespace`: equality is (prefix, uri) equality. -/
structure Ns where
  pfx : String
  uri : String
  deriving DecidableEq, Repr, Inhabited

/-- `prov.identifier.QualifiedName`. Python equality is URI equality (`Identifier.__eq__`);
    structural equality here is finer and is used only where the code compares namespaces. -/
structure QName where
  ns  : Ns
  loc : String
  deriving DecidableEq, Repr, Inhabited

/-- `Identifier.uri` of a qualified name: `namespace.uri + localpart`. -/
def QName.uri (q : QName) : String := q.ns.uri ++ q.loc

/-- `QualifiedName._str`: `prefix:local`, or the bare local part when the prefix is empty. -/
def QName.print (q : QName) : String :=
  if q.ns.pfx = "" then q.loc else q.ns.pfx ++ ":" ++ q.loc

/-- Python `QualifiedName.__eq__` : URI equality. -/
def QName.same (a b : QName) : Bool := a.uri == b.uri

/-- Insertion-ordered dictionary with `String` keys (a Python `dict`). -/
abbrev Tbl (α : Type) := List (String × α)

namespace Tbl
variable {α : Type}

def get? (t : Tbl α) (k : String) : Option α :=
  match t with
  | [] => none
  | (k', v) :: rest => if k' = k then some v else get? rest k

def contains (t : Tbl α) (k : String) : Bool := (t.get? k).isSome

/-- `d[k] = v`: replace in place when the key exists (position kept), else append. -/
def set (t : Tbl α) (k : String) (v : α) : Tbl α :=
  match t with
  | [] => [(k, v)]
  | (k', v') :: rest => if k' = k then (k, v) :: rest else (k', v') :: set rest k v

def keys (t : Tbl α) : List String := t.map (·.1)
def values (t : Tbl α) : List α := t.map (·.2)

end Tbl

/-- The three namespaces every manager starts with (`DEFAULT_NAMESPACES`). -/
def nsProv : Ns := ⟨"prov", "http://www.w3.org/ns/prov#"⟩
def nsXsd  : Ns := ⟨"xsd", "http://www.w3.org/2001/XMLSchema#"⟩
def nsXsi  : Ns := ⟨"xsi", "http://www.w3.org/2001/XMLSchema-instance"⟩

def provQ (l : String) : QName := ⟨nsProv, l⟩
def xsdQ (l : String) : QName := ⟨nsXsd, l⟩

end Prov

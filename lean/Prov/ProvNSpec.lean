/-
  An independent PROV-N reader written from the W3C PROV-N grammar (document / bundle framing, namespace
  declarations, the 18 expression productions with optional identifier `;`, `-` markers and positional arguments,
  attribute lists, STRING_LITERAL2 / STRING_LITERAL_LONG2 with ECHAR, `%%` typed literals, `@lang`, INT_LITERAL,
  'qualified name' literals). It shares no code with the printer model (Prov/ProvN.lean).
-/
import Prov.JsonSpec
import Prov.Record

namespace Prov.ProvNSpec
open Prov JsonSpec

inductive Tok where
  | word (s : String)        -- names, keywords, numbers, date-times, the marker "-"
  | str (s : String)         -- decoded content of a string literal
  | iri (s : String)         -- <…>
  | qnlit (s : String)       -- '…'
  | lang (s : String)        -- @tag
  | lp | rp | comma | semi | lb | rb | eq | pct2
  deriving Repr, DecidableEq

/-- characters of names and numbers: PN_CHARS plus PN_CHARS_OTHERS of the PROV-N grammar
    ("/" | "@" | "~" | "&" | "+" | "*" | "?" | "#" | "$" | "!" | "%" of PERCENT) -/
def isWordChar (c : Char) : Bool :=
  c.isAlphanum || c == '_' || c == '-' || c == '.' || c == ':' || c == '/' || c == '+' || c.toNat > 127 ||
  c == '@' || c == '~' || c == '&' || c == '*' || c == '?' || c == '#' || c == '$' || c == '!' || c == '%'

/-- ECHAR ::= '\' [tbnrf\"'] -/
def unescapeChar (c : Char) : Option Char :=
  if c == 't' then some '\t' else if c == 'b' then some (Char.ofNat 8) else if c == 'n' then some '\n'
  else if c == 'r' then some '\r' else if c == 'f' then some (Char.ofNat 12) else if c == '\\' then some '\\'
  else if c == '"' then some '"' else if c == '\'' then some '\'' else none

/-- STRING_LITERAL2 body: up to the closing quote; raw LF/CR are not allowed -/
def lexShort : List Char → List Char → Option (List Char × List Char)
  | [], _ => none
  | '"' :: rest, acc => some (acc.reverse, rest)
  | '\\' :: c :: rest, acc => match unescapeChar c with
    | some d => lexShort rest (d :: acc)
    | none => none
  | c :: rest, acc => if c == '\n' || c == '\r' || c == '\\' then none else lexShort rest (c :: acc)

/-- STRING_LITERAL_LONG2 body: up to the closing `"""` -/
def lexLong : List Char → List Char → Option (List Char × List Char)
  | [], _ => none
  | '"' :: '"' :: '"' :: rest, acc => some (acc.reverse, rest)
  | '\\' :: c :: rest, acc => match unescapeChar c with
    | some d => lexLong rest (d :: acc)
    | none => none
  | c :: rest, acc => if c == '\\' then none else lexLong rest (c :: acc)

def takeWhileC (p : Char → Bool) : List Char → List Char × List Char
  | [] => ([], [])
  | c :: cs => if p c then let (a, b) := takeWhileC p cs; (c :: a, b) else ([], c :: cs)

/-- after an opening quote: the long form when two more quotes follow, else the short form -/
def lexString (k : List Char → Option (List Tok)) : List Char → Option (List Tok)
  | '"' :: '"' :: rest =>
    (match lexLong rest [] with
     | some (s, r) => (k r).map (Tok.str (String.ofList s) :: ·)
     | none => none)
  | cs =>
    (match lexShort cs [] with
     | some (s, r) => (k r).map (Tok.str (String.ofList s) :: ·)
     | none => none)

/-- one tokenizer step: consume white space or one token from the front, continue with `k` on the rest -/
def lexBody (k : List Char → Option (List Tok)) : List Char → Option (List Tok)
  | [] => some []
  | c :: cs =>
    if c == ' ' || c == '\n' || c == '\t' || c == '\r' then k cs
    else if c == '(' then (k cs).map (Tok.lp :: ·)
    else if c == ')' then (k cs).map (Tok.rp :: ·)
    else if c == ',' then (k cs).map (Tok.comma :: ·)
    else if c == ';' then (k cs).map (Tok.semi :: ·)
    else if c == '[' then (k cs).map (Tok.lb :: ·)
    else if c == ']' then (k cs).map (Tok.rb :: ·)
    else if c == '=' then (k cs).map (Tok.eq :: ·)
    else if c == '%' then (match cs with | '%' :: rest => (k rest).map (Tok.pct2 :: ·) | _ => none)
    else if c == '<' then
      let (body, rest) := takeWhileC (· != '>') cs
      (match rest with | '>' :: r => (k r).map (Tok.iri (String.ofList body) :: ·) | _ => none)
    else if c == '\'' then
      let (body, rest) := takeWhileC (· != '\'') cs
      (match rest with | '\'' :: r => (k r).map (Tok.qnlit (String.ofList body) :: ·) | _ => none)
    else if c == '@' then
      let (body, rest) := takeWhileC (fun x => x.isAlphanum || x == '-') cs
      (k rest).map (Tok.lang (String.ofList body) :: ·)
    else if c == '"' then lexString k cs
    else if isWordChar c then
      let (body, rest) := takeWhileC isWordChar (c :: cs)
      (k rest).map (Tok.word (String.ofList body) :: ·)
    else none

/-- tokenizer; fuel = input length (one unit per step) -/
def lex : Nat → List Char → Option (List Tok)
  | 0, cs => if cs.isEmpty then some [] else none
  | n + 1, cs => lexBody (lex n) cs

/-! ### grammar tables -/

/-- expression name ↦ (PROV-DM type, formal attribute per position, may the position hold the marker `-`,
    does the production take an identifier / attributes) -/
structure Prod where
  kind : String
  args : List (String × Bool)     -- (prov attribute local name, optional?)
  hasIdAttrs : Bool
  deriving DecidableEq

def prods : List (String × Prod) := [
  ("wasGeneratedBy", ⟨"Generation", [("entity", false), ("activity", true), ("time", true)], true⟩),
  ("used", ⟨"Usage", [("activity", false), ("entity", true), ("time", true)], true⟩),
  ("wasInformedBy", ⟨"Communication", [("informed", false), ("informant", false)], true⟩),
  ("wasStartedBy", ⟨"Start", [("activity", false), ("trigger", true), ("starter", true), ("time", true)], true⟩),
  ("wasEndedBy", ⟨"End", [("activity", false), ("trigger", true), ("ender", true), ("time", true)], true⟩),
  ("wasInvalidatedBy", ⟨"Invalidation", [("entity", false), ("activity", true), ("time", true)], true⟩),
  ("wasDerivedFrom", ⟨"Derivation", [("generatedEntity", false), ("usedEntity", false), ("activity", true),
                                      ("generation", true), ("usage", true)], true⟩),
  ("wasAttributedTo", ⟨"Attribution", [("entity", false), ("agent", false)], true⟩),
  ("wasAssociatedWith", ⟨"Association", [("activity", false), ("agent", true), ("plan", true)], true⟩),
  ("actedOnBehalfOf", ⟨"Delegation", [("delegate", false), ("responsible", false), ("activity", true)], true⟩),
  ("wasInfluencedBy", ⟨"Influence", [("influencee", false), ("influencer", false)], true⟩),
  ("alternateOf", ⟨"Alternate", [("alternate1", false), ("alternate2", false)], false⟩),
  ("specializationOf", ⟨"Specialization", [("specificEntity", false), ("generalEntity", false)], false⟩),
  ("hadMember", ⟨"Membership", [("collection", false), ("entity", false)], false⟩),
  ("mentionOf", ⟨"Mention", [("specificEntity", false), ("generalEntity", false), ("bundle", false)], false⟩)]

def timeArgs : List String := ["time", "startTime", "endTime"]

/-! ### parser (recursive descent over the token list) -/

abbrev P (α : Type) := List Tok → Option (α × List Tok)

def pNsDecls : Nat → List Tok → List (String × String) × List Tok
  | 0, ts => ([], ts)
  | n + 1, ts =>
    match ts with
    | .word "default" :: .iri u :: rest => let (d, r) := pNsDecls n rest; (("default", u) :: d, r)
    | .word "prefix" :: .word p :: .iri u :: rest => let (d, r) := pNsDecls n rest; ((p, u) :: d, r)
    | _ => ([], ts)

def typedLit (sc : Scope) (hints : List (String × FloatAtom)) (s ty : String) : Option AVal :=
  match sc.resolve ty with
  | none => none
  | some tu =>
    if tu == xsdNs ++ "string" then some (.str s)
    else if tu == xsdNs ++ "anyURI" then some (.uri s)
    else if tu == xsdNs ++ "dateTime" then (if (parseIso s).isSome then some (.dt s) else some (.lit s (some tu) none))
    else if tu == xsdNs ++ "double" then
      (match hints.find? (fun h => h.1 == s) with
       | some h => some (.float h.2.repr)
       | none => some (.lit s (some tu) none))
    else if tu == xsdNs ++ "boolean" then
      (let l := s.toLower
       if l == "true" || l == "1" then some (.bool true)
       else if l == "false" || l == "0" then some (.bool false)
       else some (.lit s (some tu) none))
    else if tu == xsdNs ++ "int" || tu == xsdNs ++ "long" then
      (match s.toInt? with | some n => some (.int n) | none => some (.lit s (some tu) none))
    else some (.lit s (some tu) none)

/-- literal ::= typedLiteral | convenienceNotation -/
def pLiteral (sc : Scope) (hints : List (String × FloatAtom)) : P AVal
  | .str s :: .pct2 :: .word ty :: rest => (typedLit sc hints s ty).map (fun v => (v, rest))
  | .str s :: .lang l :: rest => some (.lit s (some (provNs ++ "InternationalizedString")) (some l), rest)
  | .str s :: rest => some (.str s, rest)
  | .qnlit q :: rest => (sc.resolve q).map (fun u => (.qn u, rest))
  | .word w :: rest => (w.toInt?).map (fun n => (.int n, rest))
  | _ => none

/-- attribute-value pairs inside [ … ] -/
def pAttrs (sc : Scope) (hints : List (String × FloatAtom)) : Nat → List Tok → Option (List (String × AVal) × List Tok)
  | 0, _ => none
  | n + 1, ts =>
    match ts with
    | .word a :: .eq :: rest =>
      match sc.resolve a, pLiteral sc hints rest with
      | some au, some (v, rest') =>
        (match rest' with
         | .comma :: more => (pAttrs sc hints n more).map (fun r => ((au, v) :: r.1, r.2))
         | .rb :: more => some ([(au, v)], more)
         | _ => none)
      | _, _ => none
    | .rb :: more => some ([], more)
    | _ => none

/-- optional ", [attrs]" then ")" -/
def pTail (sc : Scope) (hints : List (String × FloatAtom)) (fuel : Nat) (allowAttrs : Bool) :
    List Tok → Option (List (String × AVal) × List Tok)
  | .rp :: rest => some ([], rest)
  | .comma :: .lb :: rest =>
    if !allowAttrs then none else
    match pAttrs sc hints fuel rest with
    | some (as, .rp :: more) => some (as, more)
    | _ => none
  | .lb :: rest =>        -- attribute list as the first item (element without positional arguments)
    if !allowAttrs then none else
    match pAttrs sc hints fuel rest with
    | some (as, .rp :: more) => some (as, more)
    | _ => none
  | _ => none

/-- a comma before every positional argument but the first -/
def skipComma (first : Bool) (ts : List Tok) : Option (List Tok) :=
  if first then some ts else (match ts with | .comma :: r => some r | _ => none)

/-- one positional argument given as the word `w`: the marker, a time, or a name -/
def argWord (sc : Scope) (a : String) (opt : Bool) (w : String)
    (k : Option (List (String × AVal) × List Tok)) : Option (List (String × AVal) × List Tok) :=
  if w == "-" then (if opt then k else none)
  else if timeArgs.contains a then k.map (fun r => ((provNs ++ a, AVal.dt w) :: r.1, r.2))
  else
    match sc.resolve w with
    | some u => k.map (fun r => ((provNs ++ a, AVal.qn u) :: r.1, r.2))
    | none => none

/-- positional arguments of a relation -/
def pArgs (sc : Scope) : List (String × Bool) → Bool → List Tok → Option (List (String × AVal) × List Tok)
  | [], _, ts => some ([], ts)
  | (a, opt) :: more, first, ts =>
    match skipComma first ts with
    | some (.word w :: rest) => argWord sc a opt w (pArgs sc more false rest)
    | _ => none

/-- optional identifier: ( identifierOrMarker ";" )? — `none` in the first component: not allowed / unreadable -/
def pOptId (sc : Scope) (hasId : Bool) : List Tok → Option (Option String) × List Tok
  | .word i :: .semi :: r =>
    if !hasId then (none, r)
    else if i == "-" then (some none, r) else ((sc.resolve i).map some, r)
  | r => (some none, r)

/-- one expression -/
def pExpr (sc : Scope) (hints : List (String × FloatAtom)) (fuel : Nat) : P ARec
  | .word name :: .lp :: rest =>
    if name == "entity" || name == "agent" then
      (match rest with
       | .word id :: rest' =>
         match sc.resolve id, pTail sc hints fuel true rest' with
         | some u, some (as, more) => some (⟨if name == "entity" then "Entity" else "Agent", some u, as⟩, more)
         | _, _ => none
       | _ => none)
    else if name == "activity" then
      (match rest with
       | .word id :: rest' =>
         match sc.resolve id with
         | none => none
         | some u =>
           -- optional ", start, end"
           let withTimes : Option (List (String × AVal) × List Tok) :=
             match rest' with
             | .comma :: .word s :: .comma :: .word e :: r =>
               some ((if s == "-" then [] else [(provNs ++ "startTime", AVal.dt s)]) ++
                     (if e == "-" then [] else [(provNs ++ "endTime", AVal.dt e)]), r)
             | r => some ([], r)
           match withTimes with
           | some (ts, r) => (pTail sc hints fuel true r).map (fun t => (⟨"Activity", some u, ts ++ t.1⟩, t.2))
           | none => none
       | _ => none)
    else
      match prods.find? (fun p => p.1 == name) with
      | none => none
      | some (_, pr) =>
        match pOptId sc pr.hasIdAttrs rest with
        | (none, _) => none
        | (some id, afterId) =>
          match pArgs sc pr.args true afterId with
          | none => none
          | some (args, r) => (pTail sc hints fuel pr.hasIdAttrs r).map (fun t => (⟨pr.kind, id, args ++ t.1⟩, t.2))
  | _ => none

def pExprs (sc : Scope) (hints : List (String × FloatAtom)) : Nat → List Tok → List ARec × List Tok
  | 0, ts => ([], ts)
  | n + 1, ts =>
    match ts with
    | .word "bundle" :: _ => ([], ts)
    | .word "endBundle" :: _ => ([], ts)
    | .word "endDocument" :: _ => ([], ts)
    | _ =>
      match pExpr sc hints n ts with
      | some (r, rest) => let (rs, rest') := pExprs sc hints n rest; (r :: rs, rest')
      | none => ([], ts)

def pBundles (docDecls : List (String × String)) (hints : List (String × FloatAtom)) :
    Nat → List Tok → Option (List (String × List ARec) × List Tok)
  | 0, _ => none
  | n + 1, ts =>
    match ts with
    | .word "bundle" :: .word bid :: rest =>
      let (decls, r1) := pNsDecls n rest
      let sc : Scope := ⟨decls, docDecls⟩
      let (recs, r2) := pExprs sc hints n r1
      (match r2, sc.resolve bid with
       | .word "endBundle" :: r3, some bu => (pBundles docDecls hints n r3).map (fun x => ((bu, recs) :: x.1, x.2))
       | _, _ => none)
    | _ => some ([], ts)

/-- document ::= "document" declarations expressions bundles "endDocument" -/
def parseDocument (hints : List (String × FloatAtom)) (text : String) : Option (List (String × List ARec)) :=
  let cs := text.toList
  match lex (cs.length + 1) cs with
  | none => none
  | some toks =>
    let fuel := toks.length + 1
    match toks with
    | .word "document" :: rest =>
      let (decls, r1) := pNsDecls fuel rest
      let sc : Scope := ⟨decls, []⟩
      let (recs, r2) := pExprs sc hints fuel r1
      (match pBundles decls hints fuel r2 with
       | some (bs, [.word "endDocument"]) => some (("", recs) :: bs)
       | _ => none)
    | _ => none

end Prov.ProvNSpec

/-
  The re-creation loop over arbitrary argument representations: any list of `add_attributes` arguments each of which
  is known to stand for a stored pair (`ArgFor`: whatever the manager state, it resolves to a name with the same URI
  and a value equal up to prefixes) builds, from an empty record, a record with exactly that content. Used by C09 (the
  record's own arguments) and by the serializer round trips (C01: arguments decoded from PROV-JSON).
-/
import Prov.Props.C08C

namespace Prov.C09
open Prov Prov.C05 Prov.C04

/-- `arg` stands for the pair (a, v) in every manager state -/
def ArgFor (arg : AttrArg) (a : QName) (v : Value) : Prop :=
  ∀ (par : Option NsMgr) (isColl : Bool) (m : NsMgr) (r : Record), m.Inv1 →
    ∃ m' a' v', m'.Inv1 ∧ a'.uri = a.uri ∧ vEq v' v ∧
      addOne par isColl m r arg = (m', (storeValue isColl r a' v').1, (storeValue isColl r a' v').2)

/-- the record's own pair is such an argument -/
theorem argFor_stored (a : QName) (v : Value) (hok : PairOk a v) : ArgFor ⟨.qn a, .val v, none⟩ a v :=
  fun par isColl m r hm => Prov.C08.addOne_general par isColl m hm r a v hok

/-- a `None` value is skipped -/
theorem addOne_nil (par : Option NsMgr) (isColl : Bool) (m : NsMgr) (r : Record) (n : NameArg) (f : Option FloatAtom) :
    addOne par isColl m r ⟨n, .nil, f⟩ = (m, r, none) := rfl

theorem storeValue_empty (isColl : Bool) (r : Record) (a : QName) (v : Value) (h : isProvAttr a = true → r.get a = []) :
    storeValue isColl r a v = (r.insert a v, none) := by
  unfold storeValue
  by_cases hp : isProvAttr a = true
  · simp [hp, h hp]
  · simp [hp]

/-- a later PROV-attribute item does not repeat the URI of an earlier item -/
def NoRepeatA (items : List (AttrArg × QName × Value)) : Prop :=
  items.Pairwise (fun p q => isProvAttr q.2.1 = true → p.2.1.uri ≠ q.2.1.uri)

/-- **the loop from any arguments**: success, and exactly the content the arguments stand for -/
theorem loop_args (par : Option NsMgr) (isColl : Bool) (items : List (AttrArg × QName × Value)) (m : NsMgr) (hm : m.Inv1)
    (r : Record)
    (hfor : ∀ it ∈ items, ArgFor it.1 it.2.1 it.2.2 ∧ valOk it.2.2)
    (hslot : ∀ it ∈ items, isProvAttr it.2.1 = true → r.get it.2.1 = [])
    (hnr : NoRepeatA items) :
    ∃ m' r', addAttrsLoop par isColl m r (items.map (·.1)) = (m', r', none) ∧ m'.Inv1 ∧ r'.kind = r.kind ∧ r'.id = r.id ∧
      (∀ x ∈ r.flat, x ∈ r'.flat) ∧
      (∀ it ∈ items, ∃ x ∈ r'.flat, x.1.uri = it.2.1.uri ∧ x.2.keyEq it.2.2 = true) ∧
      (∀ x ∈ r'.flat, x ∈ r.flat ∨ ∃ it ∈ items, x.1.uri = it.2.1.uri ∧ x.2.keyEq it.2.2 = true) := by
  induction items generalizing m r with
  | nil => exact ⟨m, r, rfl, hm, rfl, rfl, (fun x hx => hx), (fun p hp => absurd hp (by simp)), (fun x hx => Or.inl hx)⟩
  | cons it rest ih =>
    obtain ⟨arg, a, v⟩ := it
    have hnr' := List.pairwise_cons.mp hnr
    obtain ⟨hf, hvok⟩ := hfor (arg, a, v) List.mem_cons_self
    obtain ⟨m1, a', v', hm1, hu, hveq, hstep⟩ := hf par isColl m r hm
    have hempty : isProvAttr a' = true → r.get a' = [] := by
      intro hp
      rw [get_congr r hu]
      exact hslot (arg, a, v) List.mem_cons_self (by rw [← isProvAttr_congr hu]; exact hp)
    rw [storeValue_empty isColl r a' v' hempty] at hstep
    obtain ⟨f1, ⟨x0, hx0, hx0u, hx0k⟩, f3⟩ := flat_insert r a' v'
    have hslot1 : ∀ q ∈ rest, isProvAttr q.2.1 = true → (r.insert a' v').get q.2.1 = [] := by
      intro q hq hp
      have hne : a'.uri ≠ q.2.1.uri := by
        rw [hu]
        exact hnr'.1 q hq hp
      rw [Record.get_insert_other r a' q.2.1 v' hne]
      exact hslot q (List.mem_cons_of_mem _ hq) hp
    obtain ⟨m', r', h1, h2, h3, h4, h5, h6, h7⟩ := ih m1 hm1 (r.insert a' v')
      (fun q hq => hfor q (List.mem_cons_of_mem _ hq)) hslot1 hnr'.2
    refine ⟨m', r', ?_, h2, h3, h4, fun x hx => h5 x (f1 x hx), ?_, ?_⟩
    · simp only [List.map_cons, addAttrsLoop, hstep]
      exact h1
    · intro q hq
      rcases List.mem_cons.mp hq with rfl | hq'
      · exact ⟨x0, h5 x0 hx0, hx0u.trans hu, keyEq_trans (vEq_valOk hveq hvok) hx0k (vEq_keyEq hveq)⟩
      · exact h6 q hq'
    · intro x hx
      rcases h7 x hx with h | ⟨q, hq, hu', hk⟩
      · rcases f3 x h with h' | ⟨hxu, hxv⟩
        · exact Or.inl h'
        · refine Or.inr ⟨(arg, a, v), List.mem_cons_self, hxu.trans hu, ?_⟩
          rw [hxv]; exact vEq_keyEq hveq
      · exact Or.inr ⟨q, List.mem_cons_of_mem _ hq, hu', hk⟩

end Prov.C09

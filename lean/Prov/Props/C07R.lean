/-
  C07, reader side, the unqualified case: the one triple the writer states for a plain relation is read back as exactly
  one request to create a relation of the same kind with the same two endpoints — never zero, never two — for every
  relation kind and every pair of endpoint URIs.
-/
import Prov.Props.C07W

namespace Prov.C07
open Prov Prov.Rdf Prov.Text

def relationKinds : List RecKind :=
  [.generation, .usage, .communication, .start, .«end», .invalidation, .derivation, .attribution, .association,
   .delegation, .influence, .specialization, .alternate, .mention, .membership]

/-- the writer's predicate of each relation kind is recognised by the reader as that kind (whole table) -/
theorem t_relation_predicates :
    relationKinds.all (fun k => relationKindOf (provU k.provN) == some k && provU k.provN != rdfType) = true := by
  decide +kernel

theorem relationKindOf_provN (k : RecKind) (hk : k ∈ relationKinds) :
    relationKindOf (provU k.provN) = some k ∧ provU k.provN ≠ rdfType := by
  have := t_relation_predicates
  rw [List.all_eq_true] at this
  have h := this k hk
  simp only [Bool.and_eq_true, beq_iff_eq, bne_iff_ne, ne_eq] at h
  exact h

/-- the triple the writer states for a plain relation of kind `k` from `s` to `o` (alternateOf is written the other way round) -/
def plainTriple (k : RecKind) (s o : String) : Triple :=
  if k == .alternate then ⟨.iri o, .iri (provU k.provN), .iri s⟩ else ⟨.iri s, .iri (provU k.provN), .iri o⟩

/-- … which is what `c07_writer_plain` says the writer emits (kinds other than alternate) -/
theorem plainTriple_eq (k : RecKind) (hk : k ≠ .alternate) (s o : QName) :
    plainTriple k s.uri o.uri = ⟨.iri s.uri, .iri (provU k.provN), .iri o.uri⟩ := by
  have : (k == RecKind.alternate) = false := by simpa using hk
  simp [plainTriple, this]

theorem ensureOther_ids (st : DecSt) (x : String) : (st.ensureOther x).ids = st.ids := by
  unfold DecSt.ensureOther
  split <;> rfl

/-- **reader, plain relation**: in a graph that holds no qualified node for the subject, the writer's triple is read as exactly
    one creation request: kind `k`, no identifier, first argument `s`, second argument `o` — for every kind and all URIs -/
theorem c07_reader_plain (h : Heap) (doc : Nat) (hint : Term → Option LitHint) (k : RecKind) (hk : k ∈ relationKinds)
    (hm : k ≠ .mention) (s o : String) (st : DecSt) (all : List Triple)
    (hq : ∀ x ∈ all, ¬ (x.s = (plainTriple k s o).s ∧ sStartsWith x.p.str (provU "qualified") = true))
    (hso : (assocGet st.ids (plainTriple k s o).o.str).isNone) :
    ∃ st', triplePass h doc hint all (st, []) (plainTriple k s o) = .ok (st', [plainRel k s o]) := by
  obtain ⟨hrel, hnt⟩ := relationKindOf_provN k hk
  have hnt' : (provU k.provN == rdfType) = false := by simpa using hnt
  have hno : assocGet st.ids (plainTriple k s o).o.str = none := by
    cases hx : assocGet st.ids (plainTriple k s o).o.str with
    | none => rfl
    | some v => rw [hx] at hso; cases hso
  by_cases ha : k = .alternate
  · subst ha
    have hno' : assocGet (st.ensureOther o).ids s = none := by
      rw [ensureOther_ids]
      simpa [plainTriple, Term.str] using hno
    refine ⟨st.ensureOther o, ?_⟩
    simp only [plainTriple, triplePass, Term.str]
    simp [hnt', hrel, plainRel, hno', bind, Except.bind, pure, Except.pure]
  · have ha' : (k == RecKind.alternate) = false := by simpa using ha
    have hm' : (k == RecKind.mention) = false := by simpa using hm
    have hno' : assocGet (st.ensureOther s).ids o = none := by
      rw [ensureOther_ids]
      simpa [plainTriple, ha', Term.str] using hno
    -- no qualified node of this subject: the lookups for delegation / association find nothing
    have hfil : ∀ q : String, sStartsWith q (provU "qualified") = true →
        all.filter (fun x => x.s == .iri s && x.p == .iri q) = [] := by
      intro q hqq
      rw [List.filter_eq_nil_iff]
      intro x hx hc
      simp only [Bool.and_eq_true, beq_iff_eq] at hc
      apply hq x hx
      refine ⟨?_, ?_⟩
      · simp [plainTriple, ha', hc.1]
      · rw [hc.2]; exact hqq
    refine ⟨st.ensureOther s, ?_⟩
    simp only [plainTriple, ha', Bool.false_eq_true, if_false, triplePass, Term.str]
    by_cases hd : k = .delegation
    · subst hd
      have := hfil (provU ("qualified" ++ capitalize "delegation")) (by decide +kernel)
      simp [hnt', hrel, this, hno', bind, Except.bind, pure, Except.pure]
    · by_cases has : k = .association
      · subst has
        have := hfil (provU ("qualified" ++ capitalize "association")) (by decide +kernel)
        simp [hnt', hrel, this, hno', bind, Except.bind, pure, Except.pure]
      · have hd' : (k == RecKind.delegation) = false := by simpa using hd
        have has' : (k == RecKind.association) = false := by simpa using has
        simp [hnt', hrel, ha', hm', hd', has', hno', bind, Except.bind, pure, Except.pure]

end Prov.C07

/-
  C01 on the heap, one element: reading back the object the PROV-JSON writer emitted for a stored record *adds to the
  reading document exactly that record*.

  `c01_record` (Props/C01R) speaks about the reader's loop and the argument list it builds; here the whole
  `decode_json_element` is run on a heap: the attribute loop, `new_record` (identifier resolution, the record constructor with
  the document's own manager, filing under the container) — and the result is stated about the heap that comes out:

  * `newRecord_ok_cell`  what a successful `new_record` stores in the cell it allocates is what `add_attributes` built from the
    arguments, in the manager state the identifier resolution left;
  * `c01_element`        for a document (`C13.DocMgr`), a stored record whose names read back there: the call succeeds, the
    container's record list grows by exactly one index, the new cell has the record's kind, the identifier the text resolves to,
    and exactly the stored content (every stored (attribute, value) pair up to URI / `==`, and nothing else), and every
    namespace-manager cell is as before (`C13.SameMgrs`) — so the hypotheses about the reading document hold again for the next
    element.
-/
import Prov.Props.C01R
import Prov.Props.C13S
import Prov.Props.C09
import Prov.Props.C13B

namespace Prov.C01
open Prov Prov.Heap Prov.C05 Prov.C04 Prov.C09

/-- the cell a successful `new_record` allocates holds what `add_attributes` built -/
theorem newRecord_ok_cell (h : Heap) (c : Nat) (k : RecKind) (idArg : NameArg) (attrs : List AttrArg) (h' : Heap) (idx : Nat)
    (hres : h.newRecord c k idArg attrs = (h', .ok idx)) :
    (h'.recCell idx).r =
      (Record.addAttributes ((h.validName c idArg).1.parentOf c) ((h.validName c idArg).1.mgrOf c)
        ⟨k, (h.validName c idArg).2, []⟩ attrs).2.1 := by
  unfold Heap.newRecord at hres
  generalize h.validName c idArg = vn at hres ⊢
  obtain ⟨h1, vid⟩ := vn
  simp only at hres ⊢
  generalize hmk : h1.mkRecord c k vid attrs = mk at hres
  obtain ⟨h2, e⟩ := mk
  cases e with
  | error err => simp at hres
  | ok r2 =>
    simp only [Prod.mk.injEq, Except.ok.injEq] at hres
    obtain ⟨hh, hr⟩ := hres
    subst hh
    subst hr
    unfold Heap.mkRecord at hmk
    split at hmk
    · simp at hmk
    · simp only [] at hmk
      generalize Record.addAttributes (h1.parentOf c) (h1.mgrOf c) ⟨k, vid, []⟩ attrs = res at hmk ⊢
      obtain ⟨m', rc, e⟩ := res
      cases e with
      | some err => simp at hmk
      | none =>
        simp only [Prod.mk.injEq, Except.ok.injEq] at hmk
        obtain ⟨hh, hr⟩ := hmk
        subst hh
        subst hr
        simp [Heap.recCell, Heap.addRecordRaw, Heap.setCont, Heap.setMgr, Array.getD_eq_getD_getElem?]

/-- resolving a string leaves the container's manager and parent as they were -/
theorem validName_str_sameMgrs (h : Heap) (c : Nat) (s : String) : C13.SameMgrs h (h.validName c (.str s)).1 c := by
  have : (h.validName c (.str s)).1 = h.setMgr c (h.mgrOf c) := rfl
  rw [this]
  exact ⟨fun i => C13.mgrCell_setMgr_same h c i, rfl⟩

/-- **C01 for one element, on the heap** -/
theorem c01_element (h : Heap) (c : Nat) (hc : c < h.conts.size) (d : C13.DocMgr h c) (hinv1 : (h.mgrOf c).Inv1)
    (std : StdNames h c) (r : Record) (hs : Stored r)
    (hrd : ∀ p ∈ r.attrs, PairReadable h c p)
    (hpr : r.attrs.Pairwise (fun p q => p.1.print ≠ q.1.print))
    (rid : String) (hid : r.kind.isElement = true → ((h.validName c (.str rid)).2).isSome = true) :
    ∃ kvs h' idx, encodeJsonRecord r = some (.obj kvs) ∧
      h.decodeJsonElement c r.kind rid (.obj kvs) = (h', none) ∧
      (h'.cont c).records = (h.cont c).records ++ [idx] ∧
      (h'.recCell idx).r.kind = r.kind ∧ (h'.recCell idx).r.id = (h.validName c (.str rid)).2 ∧
      (∀ x ∈ r.flat, ∃ y ∈ (h'.recCell idx).r.flat, y.1.uri = x.1.uri ∧ y.2.keyEq x.2 = true) ∧
      (∀ y ∈ (h'.recCell idx).r.flat, ∃ x ∈ r.flat, y.1.uri = x.1.uri ∧ y.2.keyEq x.2 = true) ∧
      C13.SameMgrs h h' c ∧
      idx = h.recs.size ∧ h'.recs.size = h.recs.size + 1 ∧ h'.conts.size = h.conts.size ∧
      (∀ i, i < h.recs.size → h'.recCell i = h.recCell i) := by
  obtain ⟨kvs, acc, henc, hdec, hex, hloop⟩ := c01_record h c std r hs hrd hpr
  have sv := validName_str_sameMgrs h c rid
  -- the constructor's loop, in the manager state the identifier resolution left
  obtain ⟨m', r', hl, _, hk, hi, hcov, hinv⟩ := hloop ((h.validName c (.str rid)).1.parentOf c)
    (isCollectionCall (acc.formal.map (fun e => ({ name := .qn e.1, value := e.2 } : AttrArg)) ++ acc.other))
    ((h.validName c (.str rid)).1.mgrOf c) (by rw [sv.mgrOf]; exact hinv1)
    ⟨r.kind, (h.validName c (.str rid)).2, []⟩ rfl
  have hadd : Record.addAttributes ((h.validName c (.str rid)).1.parentOf c) ((h.validName c (.str rid)).1.mgrOf c)
      ⟨r.kind, (h.validName c (.str rid)).2, []⟩
      (acc.formal.map (fun e => ({ name := .qn e.1, value := e.2 } : AttrArg)) ++ acc.other) = (m', r', none) := hl
  -- new_record succeeds
  have hnew : ∃ h2 idx, h.newRecord c r.kind (.str rid)
      (acc.formal.map (fun e => ({ name := .qn e.1, value := e.2 } : AttrArg)) ++ acc.other) = (h2, .ok idx) := by
    unfold Heap.newRecord
    generalize hvn : h.validName c (.str rid) = vn at hadd hid
    obtain ⟨h1, vid⟩ := vn
    simp only at hadd hid ⊢
    have hne : (r.kind.isElement && vid.isNone) = false := by
      cases hke : r.kind.isElement with
      | false => rfl
      | true =>
        have := hid hke
        cases vid with
        | none => simp at this
        | some _ => rfl
    have hmk : ∃ h2 idx, h1.mkRecord c r.kind vid
        (acc.formal.map (fun e => ({ name := .qn e.1, value := e.2 } : AttrArg)) ++ acc.other) = (h2, .ok idx) := by
      unfold Heap.mkRecord
      simp only [hne, Bool.false_eq_true, if_false, hadd]
      exact ⟨_, _, rfl⟩
    obtain ⟨h2, idx, hmk⟩ := hmk
    simp only [hmk]
    exact ⟨_, _, rfl⟩
  obtain ⟨h2, idx, hnr⟩ := hnew
  have hcell := newRecord_ok_cell h c r.kind (.str rid) _ h2 idx hnr
  rw [hadd] at hcell
  simp only at hcell
  obtain ⟨happ, _, hidx, hsz⟩ := C09.c09_newRecord_appends h c hc r.kind (.str rid) _ h2 idx hnr
  have hfr : ∀ i, i < h.recs.size → h2.recCell i = h.recCell i := fun i hi => by
    have := recCell_newRecord_lt h c r.kind (.str rid)
      (acc.formal.map (fun e => ({ name := .qn e.1, value := e.2 } : AttrArg)) ++ acc.other) i hi
    rw [hnr] at this; exact this
  have hcs : h2.conts.size = h.conts.size := by
    have := C13.conts_size_newRecord h c r.kind (.str rid)
      (acc.formal.map (fun e => ({ name := .qn e.1, value := e.2 } : AttrArg)) ++ acc.other)
    rw [hnr] at this; exact this
  have hstep : h.decodeJsonElement c r.kind rid (.obj kvs) = (h2, none) := by
    unfold Heap.decodeJsonElement
    simp only [hdec, hnr, hex, List.isEmpty_nil, if_true]
  refine ⟨kvs, h2, idx, henc, hstep, happ, ?_, ?_, ?_, ?_, ?_, hidx, hsz, hcs, hfr⟩
  · rw [hcell]; exact hk
  · rw [hcell]; exact hi
  · rw [hcell]; exact hcov
  · rw [hcell]; exact hinv
  · have := C13.sameMgrs_decodeJsonElement d r.kind rid (.obj kvs)
    rw [hstep] at this
    exact this

/-! ### the whole record walk -/

/-- two lists related element by element -/
inductive All2 {α β : Type} (R : α → β → Prop) : List α → List β → Prop
  | nil : All2 R [] []
  | cons {a b l1 l2} : R a b → All2 R l1 l2 → All2 R (a :: l1) (b :: l2)

theorem All2.imp {α β : Type} {R S : α → β → Prop} (hi : ∀ a b, R a b → S a b) :
    ∀ {l1 : List α} {l2 : List β}, All2 R l1 l2 → All2 S l1 l2
  | _, _, .nil => .nil
  | _, _, .cons h t => .cons (hi _ _ h) (All2.imp hi t)

theorem All2.length_eq {α β : Type} {R : α → β → Prop} : ∀ {l1 : List α} {l2 : List β}, All2 R l1 l2 → l1.length = l2.length
  | _, _, .nil => rfl
  | _, _, .cons _ t => by simp [All2.length_eq t]

/-- two heaps resolve every string alike in container `c` -/
def SameRes (h h' : Heap) (c : Nat) : Prop := ∀ s, (h'.validName c (.str s)).2 = (h.validName c (.str s)).2

theorem sameRes_of_sameMgrs {h h' : Heap} {c : Nat} (s : C13.SameMgrs h h' c) : SameRes h h' c := fun x => by
  simp only [Heap.validName, s.mgrOf, s.parentOf]

theorem readsAs_congr {h h' : Heap} {c : Nat} (sr : SameRes h h' c) {s u : String} (hr : ReadsAs h c s u) : ReadsAs h' c s u := by
  obtain ⟨q, hq, hu⟩ := hr
  exact ⟨q, by rw [sr s]; exact hq, hu⟩

theorem stdNames_congr {h h' : Heap} {c : Nat} (sr : SameRes h h' c) (std : StdNames h c) : StdNames h' c :=
  ⟨readsAs_congr sr std.int_, readsAs_congr sr std.double, readsAs_congr sr std.dateTime, readsAs_congr sr std.anyURI,
    readsAs_congr sr std.qname⟩

theorem jsonAttrName_congr {h h' : Heap} {c : Nat} (sr : SameRes h h' c) (k : String) :
    h'.jsonAttrName c k = h.jsonAttrName c k := by
  unfold Heap.jsonAttrName
  split
  · rfl
  · exact sr k

theorem valReadable_congr {h h' : Heap} {c : Nat} (sr : SameRes h h' c) (v : Value) (hv : ValReadable h c v) :
    ValReadable h' c v := by
  cases v with
  | qn q => exact readsAs_congr sr hv
  | lit s ty lang =>
    cases ty with
    | none => cases lang <;> exact hv
    | some t =>
      cases lang with
      | some l => exact hv
      | none => exact ⟨readsAs_congr sr hv.1, hv.2⟩
  | _ => exact hv

theorem pairReadable_congr {h h' : Heap} {c : Nat} (sr : SameRes h h' c) {p : QName × List Value} (hp : PairReadable h c p) :
    PairReadable h' c p :=
  ⟨by rw [jsonAttrName_congr sr]; exact hp.name,
   fun hr v more hv => by obtain ⟨q, e, hq⟩ := hp.ref hr v more hv; exact ⟨q, e, readsAs_congr sr hq⟩,
   hp.time,
   fun hn v hv => valReadable_congr sr v (hp.other hn v hv)⟩

/-- a written record together with the identifier text it is filed under, readable in container `c` of `h` -/
structure ItemOk (h : Heap) (c : Nat) (it : Record × String) : Prop where
  stored : Stored it.1
  readable : ∀ p ∈ it.1.attrs, PairReadable h c p
  distinct : it.1.attrs.Pairwise (fun p q => p.1.print ≠ q.1.print)
  ident : it.1.kind.isElement = true → ((h.validName c (.str it.2)).2).isSome = true

theorem itemOk_congr {h h' : Heap} {c : Nat} (sr : SameRes h h' c) {it : Record × String} (ok : ItemOk h c it) : ItemOk h' c it :=
  ⟨ok.stored, fun p hp => pairReadable_congr sr (ok.readable p hp), ok.distinct, fun hk => by rw [sr]; exact ok.ident hk⟩

/-- the cell at `idx` of heap `h'` holds the content of `it`, under the identifier its text resolves to in `h` -/
def Holds (h h' : Heap) (c : Nat) (it : Record × String) (idx : Nat) : Prop :=
  (h'.recCell idx).r.kind = it.1.kind ∧ (h'.recCell idx).r.id = (h.validName c (.str it.2)).2 ∧
  (∀ x ∈ it.1.flat, ∃ y ∈ (h'.recCell idx).r.flat, y.1.uri = x.1.uri ∧ y.2.keyEq x.2 = true) ∧
  (∀ y ∈ (h'.recCell idx).r.flat, ∃ x ∈ it.1.flat, y.1.uri = x.1.uri ∧ y.2.keyEq x.2 = true)

/-- **C01 for the record walk of a document**: for any list of stored records whose names read back in the reading document,
    the reader's walk (`elemFold`, the record phase of `decode_json_container` by `Props/C01D`) over the objects the writer
    emitted for them — each under its kind label and identifier text — completes without a refusal; the document's record
    list grows by exactly one cell per record, in order; each new cell holds the kind, the identifier and exactly the content
    of its record; every cell that existed is untouched, and every namespace manager is as the `prefix` block left it -/
theorem c01_elements (c : Nat) : ∀ (items : List (Record × String)) (h : Heap), c < h.conts.size → C13.DocMgr h c →
    (h.mgrOf c).Inv1 → StdNames h c → (∀ it ∈ items, ItemOk h c it) →
    ∃ (elems : List (String × String × JVal)) (h' : Heap) (idxs : List Nat),
      All2 (fun (it : Record × String) (e : String × String × JVal) =>
        e.1 = it.1.kind.provN ∧ e.2.1 = it.2 ∧ encodeJsonRecord it.1 = some e.2.2) items elems ∧
      elemFold c h elems = (h', none) ∧
      (h'.cont c).records = (h.cont c).records ++ idxs ∧
      All2 (fun it idx => Holds h h' c it idx) items idxs ∧
      (∀ i, i < h.recs.size → h'.recCell i = h.recCell i) ∧ h.recs.size ≤ h'.recs.size ∧
      C13.SameMgrs h h' c
  | [], h, _, _, _, _, _ =>
    ⟨[], h, [], All2.nil, rfl, by simp, All2.nil, fun _ _ => rfl, Nat.le_refl _, C13.sameMgrs_refl h c⟩
  | it :: rest, h, hc, d, hinv, std, hok => by
    have ok := hok it List.mem_cons_self
    obtain ⟨kvs, h1, idx, henc, hstep, happ, hk, hi, hcov, hcov', sm, hidx, hsz, hcs, hfr⟩ :=
      c01_element h c hc d hinv std it.1 ok.stored ok.readable ok.distinct it.2 ok.ident
    have sr := sameRes_of_sameMgrs sm
    obtain ⟨elems, h2, idxs, hel, hfold, hrecs, hholds, hfr2, hle2, sm2⟩ :=
      c01_elements c rest h1 (by rw [hcs]; exact hc) (sm.docMgr d) (by rw [sm.mgrOf]; exact hinv) (stdNames_congr sr std)
        (fun x hx => itemOk_congr sr (hok x (List.mem_cons_of_mem _ hx)))
    refine ⟨(it.1.kind.provN, it.2, .obj kvs) :: elems, h2, idx :: idxs, All2.cons ⟨rfl, rfl, henc⟩ hel, ?_, ?_, ?_, ?_, ?_,
      C13.sameMgrs_trans sm sm2⟩
    · unfold elemFold
      have hkind : RecKind.ofProvN it.1.kind.provN = some it.1.kind := by cases it.1.kind <;> rfl
      simp only [hkind, hstep]
      exact hfold
    · rw [hrecs, happ]; simp
    · refine All2.cons ?_ ?_
      · have hcell : h2.recCell idx = h1.recCell idx := hfr2 idx (by rw [hsz, hidx]; exact Nat.lt_succ_self _)
        unfold Holds
        rw [hcell]
        exact ⟨hk, hi, hcov, hcov'⟩
      · refine All2.imp ?_ hholds
        intro x i hx
        unfold Holds at hx ⊢
        rw [sr x.2] at hx
        exact hx
    · intro i hi'
      rw [hfr2 i (by rw [hsz]; exact Nat.lt_succ_of_lt hi'), hfr i hi']
    · exact Nat.le_trans (by rw [hsz]; exact Nat.le_succ _) hle2

/-! ### non-vacuity: the hypotheses hold for a concrete document and two written records -/

theorem hEx_inv1 : (hEx.mgrOf 0).Inv1 := by
  have hm : hEx.mgrOf 0 = NsMgr.init.addNss [⟨"ex", "http://example.org/"⟩] := (C03.c03_newDoc_mgr Heap.empty _).1
  rw [hm]
  exact (C03.c03_constructor_inv [⟨"ex", "http://example.org/"⟩] (by decide) [] (by simp)).1.1

/-- the conclusion of `c01_elements` for the example record filed twice, once under a name and once under a blank identifier -/
example := c01_elements 0 [(rcEx, "ex:g1"), (rcEx, "_:id1")] hEx (by decide +kernel) C13.hEx_docMgr hEx_inv1 hEx_std
  (by
    intro it hit
    simp only [List.mem_cons, List.mem_nil_iff, or_false] at hit
    rcases hit with rfl | rfl <;>
      exact ⟨rcEx_stored, rcEx_readable, by decide +kernel, fun h => absurd h (by decide +kernel)⟩)

end Prov.C01

/-
  C18 for every history: the coherence of `_records` and `_id_map` (`WF`) is an invariant of every sequence of the public
  mutators — creating documents and bundles, records, adding attributes, setting times, asserting types, namespace
  operations — whatever their arguments and whether they succeed or raise. Hence `get_record(x)` on any container of any
  reachable heap returns exactly the records whose identifier has the URI `x` denotes, in insertion order.
-/
import Prov.Props.C18
import Prov.Props.C09E

namespace Prov.C18
open Prov Prov.Heap Prov.C05 Prov.C09

theorem newRecord_wf_any {h : Heap} (hw : WF h) (c : Nat) (k : RecKind) (idArg : NameArg) (attrs : List AttrArg) :
    WF (h.newRecord c k idArg attrs).1 := by
  by_cases hc : c < h.conts.size
  · exact (c18_newRecord_wf hw c hc k idArg attrs).1
  · -- an unknown container: the record cell may be allocated, no container changes
    unfold Heap.newRecord
    simp only [Heap.validName]
    generalize hh1 : h.setMgr c ((h.mgrOf c).validName (h.parentOf c) idArg).1 = h1
    have hw1 : WF h1 := by rw [← hh1]; exact wf_setMgr hw _ _
    have hc1 : h1.conts.size = h.conts.size := by rw [← hh1]; rfl
    obtain ⟨hwm, hsz, _⟩ := mkRecord_wf hw1 c k ((h.mgrOf c).validName (h.parentOf c) idArg).2 attrs
    generalize h1.mkRecord c k ((h.mgrOf c).validName (h.parentOf c) idArg).2 attrs = res at hwm hsz
    obtain ⟨h2, e⟩ := res
    cases e with
    | error err => exact hwm
    | ok r =>
      simp only at hsz ⊢
      have : h2.addRecordRaw c r = h2 := by
        simp only [addRecordRaw, setCont]
        rw [Array.setIfInBounds_eq_of_size_le (by omega)]
      rw [this]
      exact hwm

/-- rewriting a record cell without touching its identifier -/
theorem wf_setRec_sameId {h : Heap} (hw : WF h) (r : Nat) (rc : Record) (hid : rc.id = (h.recCell r).r.id) : WF (h.setRec r rc) := by
  have hids : idsOf (h.setRec r rc) = idsOf h := by
    funext r'
    simp only [idsOf]
    by_cases e : r' = r
    · subst e
      by_cases hlt : r' < h.recs.size
      · rw [C08.recCell_setRec_self h r' rc hlt]; exact hid
      · have : (h.setRec r' rc) = h := by
          simp only [setRec]
          rw [Array.setIfInBounds_eq_of_size_le (by omega)]
        rw [this]
    · rw [C08.recCell_setRec_other h r r' rc e]
  intro c hc
  have hc' : c < h.conts.size := hc
  obtain ⟨h1, h2⟩ := hw c hc'
  refine ⟨?_, fun r' hr' => by simpa [setRec] using h2 r' hr'⟩
  unfold CohCont
  rw [hids]
  exact h1

theorem wf_setCont_same {h : Heap} (hw : WF h) (c : Nat) (k : Cont) (hr : k.records = (h.cont c).records)
    (hi : k.idMap = (h.cont c).idMap) : WF (h.setCont c k) := by
  intro c' hc'
  have hsz : (h.setCont c k).conts.size = h.conts.size := by simp [setCont]
  rw [hsz] at hc'
  obtain ⟨h1, h2⟩ := hw c' hc'
  by_cases e : c' = c
  · subst e
    have hk : (h.setCont c' k).cont c' = k := cont_setCont_self h c' k hc'
    refine ⟨?_, ?_⟩
    · unfold CohCont
      rw [hk, hr, hi]
      exact h1
    · intro r hrm
      rw [hk, hr] at hrm
      exact h2 r hrm
  · have hk : (h.setCont c k).cont c' = h.cont c' := cont_setCont_ne h c c' k e
    refine ⟨?_, ?_⟩
    · unfold CohCont
      rw [hk]
      exact h1
    · intro r hrm
      rw [hk] at hrm
      exact h2 r hrm

theorem bundle_wf {h : Heap} (hw : WF h) (d : Nat) (idArg : NameArg) : WF (h.bundle d idArg).1 := by
  unfold Heap.bundle
  split
  · exact hw
  · have h1 : WF (h.validName d idArg).1 := by unfold Heap.validName; exact wf_setMgr hw _ _
    generalize h.validName d idArg = res at h1
    obtain ⟨hh, vid⟩ := res
    simp only at h1 ⊢
    cases vid with
    | none => exact h1
    | some q =>
      simp only
      split
      · exact h1
      · have h2 := c18_allocCont_wf h1 false (some q) [] (some d)
        generalize hh.allocCont false (some q) [] (some d) = al at h2
        obtain ⟨h3, nb⟩ := al
        simp only at h2 ⊢
        exact wf_setCont_same h2 d _ rfl rfl

theorem hstep_wf18 {h : Heap} (hw : WF h) (op : HOp) : WF (hstep h op) := by
  cases op with
  | newDoc nss => exact c18_allocCont_wf hw true none nss none
  | newBundle id nss doc => exact c18_allocCont_wf hw false id nss doc
  | bundle d id => exact bundle_wf hw d id
  | addNs c n => unfold hstep Heap.addNs; exact wf_setMgr hw c _
  | setDefault c u => unfold hstep Heap.setDefault; exact wf_setMgr hw c _
  | validName c x => unfold hstep Heap.validName; exact wf_setMgr hw c _
  | newRecord c k id attrs => exact newRecord_wf_any hw c k id attrs
  | addAttributes r attrs =>
    unfold hstep Heap.addAttributes
    dsimp only
    have hki := loop_kind_id (h.parentOf (h.recCell r).bundle) (isCollectionCall attrs) attrs (h.mgrOf (h.recCell r).bundle) (h.recCell r).r
    unfold Record.addAttributes
    generalize addAttrsLoop (h.parentOf (h.recCell r).bundle) (isCollectionCall attrs) (h.mgrOf (h.recCell r).bundle) (h.recCell r).r attrs = res at hki ⊢
    obtain ⟨m', rc, e⟩ := res
    exact wf_setRec_sameId (wf_setMgr hw _ m') r rc hki.2
  | setTime r st en =>
    unfold hstep Heap.setTime
    dsimp only
    split
    · exact hw
    · next rc1 h1 =>
      have n1 : rc1.id = (h.recCell r).r.id := by
        cases st with
        | none => simp only [Except.ok.injEq] at h1; rw [← h1]
        | some v =>
          simp only at h1
          cases hed : Heap.ensureDatetime v with
          | error e => rw [hed] at h1; cases h1
          | ok v' => rw [hed] at h1; simp only [Except.ok.injEq] at h1; rw [← h1]
      split
      · exact wf_setRec_sameId hw r rc1 n1
      · next rc2 h2 =>
        have n2 : rc2.id = rc1.id := by
          cases en with
          | none => simp only [Except.ok.injEq] at h2; rw [← h2]
          | some v =>
            simp only at h2
            cases hed : Heap.ensureDatetime v with
            | error e => rw [hed] at h2; cases h2
            | ok v' => rw [hed] at h2; simp only [Except.ok.injEq] at h2; rw [← h2]
        exact wf_setRec_sameId hw r rc2 (n2.trans n1)
  | addAssertedType r v flt =>
    unfold hstep Heap.addAssertedType
    dsimp only
    generalize autoLiteral (h.mgrOf (h.recCell r).bundle) v flt = res
    obtain ⟨m', conv⟩ := res
    simp only
    cases conv with
    | ok v' => exact wf_setRec_sameId (wf_setMgr hw _ m') r _ rfl
    | isNone => exact wf_setMgr hw _ m'
    | crash e => exact wf_setMgr hw _ m'

/-- **C18, all histories**: after any sequence of the public mutators, with any arguments, every container is coherent -/
theorem c18_reachable_wf (ops : List HOp) : WF (ops.foldl hstep Heap.empty) := by
  suffices ∀ h, WF h → WF (ops.foldl hstep h) from this _ wf_empty
  induction ops with
  | nil => intro h hw; exact hw
  | cons op rest ih => intro h hw; exact ih _ (hstep_wf18 hw op)

/-- **`get_record` on every reachable container**: exactly the records of that container whose identifier has the URI that `x`
    denotes there — for `x` a qualified name under any prefix, a `prefix:local` string, a bare local name or a full URI —
    in insertion order -/
theorem c18_get_record_reachable (ops : List HOp) (c : Nat) (hc : c < (ops.foldl hstep Heap.empty).conts.size)
    (x : NameArg) (hx : x ≠ .nil) :
    let h := ops.foldl hstep Heap.empty
    (h.getRecord c x).2 = some (match (h.validName c x).2 with
      | some q => byId (idsOf h) (h.cont c).records q
      | none => []) :=
  c18_get_record _ c x hx ((c18_reachable_wf ops c hc).1)

end Prov.C18

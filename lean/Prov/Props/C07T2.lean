/- C07 table theorem (its own module so that the kernel evaluations run in parallel) -/
import Prov.Props.C07Def

namespace Prov.C07
open Prov Prov.Rdf Prov.Text

/-- … and it is filed as a formal argument or handed to `add_attributes` under its print form, never dropped -/
theorem c07_formal_predicates_kept :
    RecKind.all.all (fun k => (k.formals.drop 1).all (fun l =>
      let p := relAttrPred k (formalQ l)
      !sStartsWith (readBackName k p) (provU "qualified") && readBackName k p != provU "asInBundle")) = true := by
  decide +kernel

end Prov.C07

/-
  C12 for every deriving operation at once: whatever container a deriving step creates — the bundle `add_bundle(document)`
  builds, the bundles `update` creates for `other`'s bundles, the document `flattened()` or `unified()` returns and the bundles
  inside it — resolves names with a namespace-manager cell that no container existing before the step refers to. So any
  sequence of mutations on such a container leaves every earlier container, its manager and every earlier record cell as they
  were (`c12_derived_independent`), in every state the public interface can produce.
-/
import Prov.Props.C12C

namespace Prov.C12
open Prov Prov.Heap Prov.C05 Prov.C09 Prov.C08 Prov.C18

/-- relative to a moment with `n0` containers and `nm` manager cells: the containers of then keep their manager reference
    (`f`), the containers made since refer to cells made since -/
def Sep (n0 nm : Nat) (f : Nat → Nat) (h : Heap) : Prop :=
  n0 ≤ h.conts.size ∧ nm ≤ h.mgrs.size ∧ (∀ c, c < n0 → (h.cont c).mgr = f c) ∧
    (∀ c, n0 ≤ c → c < h.conts.size → nm ≤ (h.cont c).mgr)

variable {n0 nm : Nat} {f : Nat → Nat}

theorem sep_same {h h' : Heap} (hw : Sep n0 nm f h) (hc : h'.conts = h.conts) (hm : h'.mgrs.size = h.mgrs.size) : Sep n0 nm f h' := by
  have hcont : ∀ c, h'.cont c = h.cont c := fun c => by simp [cont, hc]
  refine ⟨by rw [hc]; exact hw.1, by rw [hm]; exact hw.2.1, fun c hlt => by rw [hcont]; exact hw.2.2.1 c hlt,
    fun c h1 h2 => by rw [hcont]; exact hw.2.2.2 c h1 (by rw [← hc]; exact h2)⟩

theorem sep_setMgr {h : Heap} (hw : Sep n0 nm f h) (c : Nat) (m : NsMgr) : Sep n0 nm f (h.setMgr c m) :=
  sep_same hw rfl (by simp [setMgr])

theorem sep_setRec {h : Heap} (hw : Sep n0 nm f h) (r : Nat) (rc : Record) : Sep n0 nm f (h.setRec r rc) := sep_same hw rfl rfl

theorem sep_setCont {h : Heap} (hw : Sep n0 nm f h) (c : Nat) (k : Cont) (hk : k.mgr = (h.cont c).mgr) : Sep n0 nm f (h.setCont c k) := by
  have hsz : (h.setCont c k).conts.size = h.conts.size := by simp [setCont]
  have hcont : ∀ c', c' < h.conts.size → ((h.setCont c k).cont c').mgr = (h.cont c').mgr := by
    intro c' hlt
    by_cases e : c' = c
    · subst e; rw [cont_setCont_self h c' k hlt, hk]
    · rw [cont_setCont_ne h c c' k e]
  refine ⟨by rw [hsz]; exact hw.1, hw.2.1, fun c' hlt => ?_, fun c' h1 h2 => ?_⟩
  · rw [hcont c' (Nat.lt_of_lt_of_le hlt hw.1)]; exact hw.2.2.1 c' hlt
  · rw [hsz] at h2; rw [hcont c' h2]; exact hw.2.2.2 c' h1 h2

theorem sep_allocCont {h : Heap} (hw : Sep n0 nm f h) (isDoc : Bool) (id : Option QName) (nss : List Ns) (doc : Option Nat) :
    Sep n0 nm f (h.allocCont isDoc id nss doc).1 := by
  obtain ⟨a1, a2, a3, _, _⟩ := allocCont_fresh h isDoc id nss doc
  have hcs : (h.allocCont isDoc id nss doc).1.conts.size = h.conts.size + 1 := by simp [allocCont, allocMgr]
  have hms : (h.allocCont isDoc id nss doc).1.mgrs.size = h.mgrs.size + 1 := by simp [allocCont, allocMgr]
  refine ⟨by rw [hcs]; exact Nat.le_succ_of_le hw.1, by rw [hms]; exact Nat.le_succ_of_le hw.2.1, fun c hlt => ?_, fun c h1 h2 => ?_⟩
  · rw [a3 c (Nat.lt_of_lt_of_le hlt hw.1)]; exact hw.2.2.1 c hlt
  · rw [hcs] at h2
    by_cases e : c < h.conts.size
    · rw [a3 c e]; exact hw.2.2.2 c h1 e
    · have hce : c = (h.allocCont isDoc id nss doc).2 := by rw [a1]; omega
      rw [hce, a2]; exact hw.2.1

theorem sep_validName {h : Heap} (hw : Sep n0 nm f h) (c : Nat) (x : NameArg) : Sep n0 nm f (h.validName c x).1 := by
  unfold Heap.validName; exact sep_setMgr hw _ _

theorem sep_mkRecord {h : Heap} (hw : Sep n0 nm f h) (c : Nat) (k : RecKind) (id : Option QName) (attrs : List AttrArg) :
    Sep n0 nm f (h.mkRecord c k id attrs).1 := by
  unfold Heap.mkRecord
  split
  · exact hw
  · simp only []
    split
    · exact sep_setMgr hw _ _
    · exact sep_same (sep_setMgr hw c _) rfl rfl

theorem sep_addAttributes {h : Heap} (hw : Sep n0 nm f h) (r : Nat) (attrs : List AttrArg) : Sep n0 nm f (h.addAttributes r attrs).1 := by
  unfold Heap.addAttributes
  simp only []
  exact sep_setRec (sep_setMgr hw _ _) _ _

theorem sep_newRecord {h : Heap} (hw : Sep n0 nm f h) (c : Nat) (k : RecKind) (idArg : NameArg) (attrs : List AttrArg) :
    Sep n0 nm f (h.newRecord c k idArg attrs).1 := by
  unfold Heap.newRecord
  simp only []
  have s1 := sep_validName hw c idArg
  generalize h.validName c idArg = vn at s1
  obtain ⟨h1, vid⟩ := vn
  simp only at s1 ⊢
  have s2 := sep_mkRecord s1 c k vid attrs
  generalize h1.mkRecord c k vid attrs = mk at s2
  obtain ⟨h2, e⟩ := mk
  cases e with
  | error err => exact s2
  | ok r => unfold addRecordRaw; exact sep_setCont s2 c _ rfl

theorem sep_bundle {h : Heap} (hw : Sep n0 nm f h) (d : Nat) (idArg : NameArg) : Sep n0 nm f (h.bundle d idArg).1 := by
  unfold Heap.bundle
  split
  · exact hw
  · have h1 := sep_validName hw d idArg
    generalize h.validName d idArg = res at h1
    obtain ⟨hh, vid⟩ := res
    simp only at h1 ⊢
    cases vid with
    | none => exact h1
    | some q =>
      simp only
      split
      · exact h1
      · have h2 := sep_allocCont h1 false (some q) [] (some d)
        generalize hh.allocCont false (some q) [] (some d) = al at h2
        obtain ⟨h3, nb⟩ := al
        simp only at h2 ⊢
        exact sep_setCont h2 d _ rfl

theorem sep_addRecords (c : Nat) : ∀ (rs : List Nat) (h : Heap), Sep n0 nm f h → Sep n0 nm f (h.addRecords c rs).1
  | [], _, hw => hw
  | r :: rest, h, hw => by
    unfold Heap.addRecords
    simp only [Heap.addRecord]
    have s1 := sep_newRecord hw c (h.recCell r).r.kind (recreateArgs (h.recCell r).r).1 (recreateArgs (h.recCell r).r).2
    generalize h.newRecord c (h.recCell r).r.kind (recreateArgs (h.recCell r).r).1 (recreateArgs (h.recCell r).r).2 = res at s1
    obtain ⟨h1, e⟩ := res
    cases e with
    | error err => exact s1
    | ok nr => exact sep_addRecords c rest h1 s1

theorem sep_scratchCopy {h : Heap} (hw : Sep n0 nm f h) (r0 : Nat) : Sep n0 nm f (h.scratchCopy r0).1 := by
  unfold scratchCopy
  simp only []
  have s0 := sep_allocCont hw false none [] none
  generalize h.allocCont false none [] none = al at s0
  obtain ⟨h0, sc⟩ := al
  exact sep_mkRecord s0 sc _ _ _

theorem sep_mergeGo (mref : Nat) : ∀ (rs : List Nat) (h : Heap), Sep n0 nm f h → Sep n0 nm f (mergeGroup.go mref h rs).1
  | [], _, hw => hw
  | r :: more, h, hw => by
    unfold mergeGroup.go
    simp only []
    have s1 := sep_addAttributes hw mref ((h.recCell r).r.flat.map (fun p => ({ name := .qn p.1, value := .val p.2 } : AttrArg)))
    generalize h.addAttributes mref ((h.recCell r).r.flat.map (fun p => ({ name := .qn p.1, value := .val p.2 } : AttrArg))) = res at s1
    obtain ⟨h', e⟩ := res
    cases e with
    | none => exact sep_mergeGo mref more h' s1
    | some err => exact s1

theorem sep_mergeGroup {h : Heap} (hw : Sep n0 nm f h) (rs : List Nat) : Sep n0 nm f (h.mergeGroup rs).1 := by
  unfold mergeGroup
  cases rs with
  | nil => exact hw
  | cons r0 rest =>
    simp only []
    have s1 := sep_scratchCopy hw r0
    generalize h.scratchCopy r0 = res at s1
    obtain ⟨h1, e⟩ := res
    cases e with
    | error err => exact s1
    | ok mref =>
      simp only []
      have s2 := sep_mergeGo mref rest h1 s1
      generalize mergeGroup.go mref h1 rest = res2 at s2
      obtain ⟨h2, e2⟩ := res2
      cases e2 <;> exact s2

theorem sep_mergeAll : ∀ (gs : List (List Nat)) (h : Heap) (acc : List (Nat × Nat)), Sep n0 nm f h →
    Sep n0 nm f (unifiedRecords.mergeAll h acc gs).1
  | [], _, _, hw => hw
  | grp :: gs, h, acc, hw => by
    unfold unifiedRecords.mergeAll
    have s1 := sep_mergeGroup hw grp
    generalize h.mergeGroup grp = res at s1
    obtain ⟨h1, e⟩ := res
    cases e with
    | error err => exact s1
    | ok mref => exact sep_mergeAll gs h1 _ s1

theorem sep_unifiedRecords {h : Heap} (hw : Sep n0 nm f h) (c : Nat) : Sep n0 nm f (h.unifiedRecords c).1 := by
  unfold unifiedRecords
  simp only []
  have s1 := sep_mergeAll (((h.cont c).idMap.flatMap (fun e => (groupByKind h e.2).map (·.2))).filter (fun g => g.length > 1)) h [] hw
  generalize unifiedRecords.mergeAll h [] _ = res at s1
  obtain ⟨h1, e⟩ := res
  cases e <;> exact s1

theorem sep_unifiedBundle {h : Heap} (hw : Sep n0 nm f h) (c : Nat) : Sep n0 nm f (h.unifiedBundle c).1 := by
  unfold unifiedBundle
  have s1 := sep_unifiedRecords hw c
  generalize h.unifiedRecords c = res at s1
  obtain ⟨h1, e⟩ := res
  cases e with
  | error err => exact s1
  | ok rs =>
    simp only []
    have s2 := sep_allocCont s1 false (h1.cont c).id [] none
    generalize h1.allocCont false (h1.cont c).id [] none = al at s2
    obtain ⟨h2, nb⟩ := al
    have s3 := sep_addRecords nb rs h2 s2
    generalize h2.addRecords nb rs = res3 at s3
    obtain ⟨h3, e3⟩ := res3
    cases e3 <;> exact s3

theorem sep_registerBundle {h3 : Heap} (hw : Sep n0 nm f h3) (d b' : Nat) (q : QName) : Sep n0 nm f (h3.registerBundle d b' q).1 := by
  unfold registerBundle
  simp only []
  have s4 := sep_setCont hw b' { h3.cont b' with id := some q } rfl
  split
  · exact s4
  · refine sep_setCont (sep_setCont s4 d _ ?_) b' _ ?_ <;> rfl

theorem sep_attachBundle {h1 : Heap} (hw : Sep n0 nm f h1) (d b' : Nat) (idArg : NameArg) : Sep n0 nm f (h1.attachBundle d b' idArg).1 := by
  unfold attachBundle
  split
  · exact hw
  · have s2 : Sep n0 nm f (h1.linkParent d b') := by exact sep_same hw rfl (by simp [linkParent])
    have s3 := sep_validName s2 b' (h1.defaultBundleId b' idArg)
    generalize (h1.linkParent d b').validName b' (h1.defaultBundleId b' idArg) = vn at s3
    obtain ⟨h3, vid⟩ := vn
    cases vid with
    | none => exact s3
    | some q => exact sep_registerBundle s3 d b' q

theorem sep_addBundle {h : Heap} (hw : Sep n0 nm f h) (d b : Nat) (idArg : NameArg) (nsOrder : List Ns) :
    Sep n0 nm f (h.addBundle d b idArg nsOrder).1 := by
  unfold addBundle
  simp only []
  by_cases hdoc : (h.cont b).isDoc = true
  · simp only [hdoc, if_true]
    by_cases hbs : (!(h.cont b).bundles.isEmpty) = true
    · simp only [hbs, if_true]
      exact hw
    · simp only [hbs, Bool.false_eq_true, if_false]
      have s2 := sep_allocCont hw false none nsOrder none
      generalize h.allocCont false none nsOrder none = al at s2
      obtain ⟨h2, nb⟩ := al
      have s3 := sep_addRecords nb (h.cont b).records h2 s2
      generalize h2.addRecords nb (h.cont b).records = res3 at s3
      obtain ⟨h3, e3⟩ := res3
      cases e3 with
      | some err => exact s3
      | none => exact sep_attachBundle s3 d nb idArg
  · simp only [hdoc, Bool.false_eq_true, if_false]
    exact sep_attachBundle hw d b idArg

theorem sep_unifiedGo (nd : Nat) : ∀ (bs : List (QName × Nat)) (h : Heap), Sep n0 nm f h → Sep n0 nm f (unifiedInto.go nd h bs).1
  | [], _, hw => hw
  | (q, b) :: rest, h, hw => by
    unfold unifiedInto.go
    have s1 := sep_unifiedBundle hw b
    generalize h.unifiedBundle b = res at s1
    obtain ⟨h', e⟩ := res
    cases e with
    | error err => exact s1
    | ok ub =>
      simp only []
      have s2 := sep_addBundle s1 nd ub .nil []
      generalize h'.addBundle nd ub .nil [] = res2 at s2
      obtain ⟨h'', e2⟩ := res2
      cases e2 with
      | some err => exact s2
      | none => exact sep_unifiedGo nd rest h'' s2

theorem sep_unifiedDoc {h : Heap} (hw : Sep n0 nm f h) (d : Nat) : Sep n0 nm f (h.unifiedDoc d).1 := by
  unfold unifiedDoc
  simp only []
  have s1 := sep_allocCont hw true none (h.mgrOf d).reg.values none
  generalize h.allocCont true none (h.mgrOf d).reg.values none = al at s1
  obtain ⟨h1, nd⟩ := al
  simp only []
  have s2 : Sep n0 nm f (h1.copyDefault nd (h.mgrOf d).dflt) := by
    unfold copyDefault
    split
    · unfold Heap.setDefault; exact sep_setMgr s1 _ _
    · exact s1
  generalize h1.copyDefault nd (h.mgrOf d).dflt = h2 at s2
  unfold unifiedInto
  have s3 := sep_unifiedRecords s2 d
  generalize h2.unifiedRecords d = res at s3
  obtain ⟨h3, e⟩ := res
  cases e with
  | error err => exact s3
  | ok rs =>
    simp only []
    have s4 := sep_addRecords nd rs h3 s3
    generalize h3.addRecords nd rs = res4 at s4
    obtain ⟨h4, e4⟩ := res4
    cases e4 with
    | some err => exact s4
    | none =>
      simp only []
      have s5 := sep_unifiedGo nd (h4.cont d).bundles h4 s4
      generalize unifiedInto.go nd h4 (h4.cont d).bundles = res5 at s5
      obtain ⟨h5, e5⟩ := res5
      cases e5 <;> exact s5

theorem sep_flattened {h : Heap} (hw : Sep n0 nm f h) (d : Nat) : Sep n0 nm f (h.flattened d).1 := by
  unfold flattened
  simp only []
  split
  · exact hw
  · simp only [newDoc]
    have s1 := sep_allocCont hw true none [] none
    generalize h.allocCont true none [] none = al at s1
    obtain ⟨h1, nd⟩ := al
    simp only []
    have s2 := sep_addRecords nd ((h.cont d).records ++ (h.cont d).bundles.flatMap (fun p => (h.cont p.2).records)) h1 s1
    generalize h1.addRecords nd _ = res at s2
    obtain ⟨h2, e⟩ := res
    cases e <;> exact s2

theorem sep_updateBundle {h : Heap} (hw : Sep n0 nm f h) (c o : Nat) : Sep n0 nm f (h.updateBundle c o).1 := by
  unfold updateBundle
  simp only []
  split
  · exact hw
  · exact sep_addRecords c _ h hw

theorem sep_updateGo (d : Nat) : ∀ (bs : List (QName × Nat)) (h : Heap), Sep n0 nm f h → Sep n0 nm f (updateDoc.go d h bs).1
  | [], _, hw => hw
  | (_, b) :: rest, h, hw => by
    unfold updateDoc.go
    cases hid : (h.cont b).id with
    | none => exact hw
    | some bid =>
      simp only []
      cases hget : bundlesGet (h.cont d).bundles bid with
      | some tb =>
        simp only []
        have s1 := sep_updateBundle hw tb b
        generalize h.updateBundle tb b = res at s1
        obtain ⟨h', e⟩ := res
        cases e with
        | none => exact sep_updateGo d rest h' s1
        | some err => exact s1
      | none =>
        simp only []
        have s1 := sep_bundle hw d (.qn bid)
        generalize h.bundle d (.qn bid) = res at s1
        obtain ⟨h', e⟩ := res
        cases e with
        | error err => exact s1
        | ok nb =>
          simp only []
          have s2 := sep_updateBundle s1 nb b
          generalize h'.updateBundle nb b = res2 at s2
          obtain ⟨h'', e2⟩ := res2
          cases e2 with
          | none => exact sep_updateGo d rest h'' s2
          | some err => exact s2

theorem sep_update {h : Heap} (hw : Sep n0 nm f h) (c o : Nat) : Sep n0 nm f (h.update c o).1 := by
  unfold update
  split
  · unfold updateDoc
    simp only []
    have s1 := sep_addRecords c (h.cont o).records h hw
    generalize h.addRecords c (h.cont o).records = res at s1
    obtain ⟨h1, e⟩ := res
    cases e with
    | some err => exact s1
    | none => exact sep_updateGo c (h.cont o).bundles h1 s1
  · exact sep_updateBundle hw c o

theorem dstep_sep {h : Heap} (hw : Sep n0 nm f h) (op : DOp) : Sep n0 nm f (dstep h op) := by
  cases op with
  | addRecord c r => exact sep_newRecord hw c _ _ _
  | update c o => exact sep_update hw c o
  | addBundle d b id nsOrder => exact sep_addBundle hw d b id nsOrder
  | flattened d => exact sep_flattened hw d
  | unifiedBundle c => exact sep_unifiedBundle hw c
  | unifiedDoc d => exact sep_unifiedDoc hw d

theorem hstep_sep {h : Heap} (hw : Sep n0 nm f h) (op : HOp) : Sep n0 nm f (hstep h op) := by
  cases op with
  | newDoc nss => exact sep_allocCont hw true none nss none
  | newBundle id nss doc => exact sep_allocCont hw false id nss doc
  | bundle d id => exact sep_bundle hw d id
  | addNs c n => unfold hstep Heap.addNs; exact sep_setMgr hw c _
  | setDefault c u => unfold hstep Heap.setDefault; exact sep_setMgr hw c _
  | validName c x => exact sep_validName hw c x
  | newRecord c k id attrs => exact sep_newRecord hw c k id attrs
  | addAttributes r attrs => exact sep_addAttributes hw r attrs
  | setTime r st en =>
    unfold hstep Heap.setTime
    dsimp only
    split
    · exact hw
    · split
      · exact sep_setRec hw _ _
      · exact sep_setRec hw _ _
  | addAssertedType r v flt =>
    unfold hstep Heap.addAssertedType
    dsimp only
    generalize autoLiteral (h.mgrOf (h.recCell r).bundle) v flt = res
    obtain ⟨m', conv⟩ := res
    simp only
    cases conv with
    | ok v' => exact sep_setRec (sep_setMgr hw _ m') r _
    | isNone => exact sep_setMgr hw _ m'
    | crash e => exact sep_setMgr hw _ m'

/-- **containers made by a deriving step are independent of everything that existed**: in any reachable state, for any deriving
    operation (`add_record`, `update`, `add_bundle`, `flattened()`, `unified()` of a bundle or a document; successful or not),
    a container `nb` that the step created and a container `c` that existed before are different containers with different
    manager cells, and no sequence of mutations of `nb` changes `c`'s cell, its manager cell or any record cell that existed -/
theorem c12_derived_independent {h : Heap} (hr : ReachAny h) (op : DOp) (nb c : Nat) (hnb : h.conts.size ≤ nb)
    (hlt : nb < (dstep h op).conts.size) (hc : c < h.conts.size) (ms : List Mut) :
    nb ≠ c ∧ SameView (dstep h op) (ms.foldl (fun hh m => applyMut hh nb m) (dstep h op)) c := by
  have hsep0 : Sep h.conts.size h.mgrs.size (fun c => (h.cont c).mgr) h :=
    ⟨Nat.le_refl _, Nat.le_refl _, fun _ _ => rfl, fun c h1 h2 => absurd h2 (Nat.not_lt.mpr h1)⟩
  have hsep := dstep_sep hsep0 op
  have hne : nb ≠ c := by omega
  have hmc : ((dstep h op).cont c).mgr = (h.cont c).mgr := hsep.2.2.1 c hc
  have hmn : h.mgrs.size ≤ ((dstep h op).cont nb).mgr := hsep.2.2.2 nb hnb hlt
  have hwf := reachAny_wfMgr hr c hc
  exact ⟨hne, c12_noninterference (dstep h op) nb c ms (Ne.symm hne) (by rw [hmc]; omega)⟩

/-- … and the other way round: no sequence of mutations of a container that existed changes a container the step created -/
theorem c12_source_independent {h : Heap} (hr : ReachAny h) (op : DOp) (nb c : Nat) (hnb : h.conts.size ≤ nb)
    (hlt : nb < (dstep h op).conts.size) (hc : c < h.conts.size) (ms : List Mut) :
    SameView (dstep h op) (ms.foldl (fun hh m => applyMut hh c m) (dstep h op)) nb := by
  have hsep0 : Sep h.conts.size h.mgrs.size (fun c => (h.cont c).mgr) h :=
    ⟨Nat.le_refl _, Nat.le_refl _, fun _ _ => rfl, fun c h1 h2 => absurd h2 (Nat.not_lt.mpr h1)⟩
  have hsep := dstep_sep hsep0 op
  have hne : nb ≠ c := by omega
  have hmc : ((dstep h op).cont c).mgr = (h.cont c).mgr := hsep.2.2.1 c hc
  have hmn : h.mgrs.size ≤ ((dstep h op).cont nb).mgr := hsep.2.2.2 nb hnb hlt
  have hwf := reachAny_wfMgr hr c hc
  exact c12_noninterference (dstep h op) c nb ms hne (by rw [hmc]; omega)

end Prov.C12

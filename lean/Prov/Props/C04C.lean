/-
  C04, part 3: `ProvDocument.__eq__` (own records, number of bundles, bundle-wise equality by identifier) is
  symmetric and transitive — given that a document's bundle identifiers are pairwise distinct by URI (they are
  the keys of its `_bundles` dict) and floats carry a non-zero denominator.
-/
import Prov.Props.C04B
import Batteries.Data.List.Perm

namespace Prov.C04
open Prov

/-- the bundle table of a document has one entry per identifier URI -/
def KeysDistinct (bs : List (QName × Nat)) : Prop := (bs.map (fun p => p.1.uri)).Nodup

def HeapOk (h : Heap) : Prop := ∀ c, ∀ r ∈ h.recsOf c, RecOk r

theorem bundlesGet_some {bs : List (QName × Nat)} {q : QName} {b : Nat} (h : Heap.bundlesGet bs q = some b) :
    ∃ p ∈ bs, p.1.uri = q.uri ∧ p.2 = b := by
  unfold Heap.bundlesGet at h
  cases hf : bs.find? (fun p => p.1.same q) with
  | none => simp [hf] at h
  | some p =>
    simp only [hf, Option.map_some, Option.some.injEq] at h
    have hp := List.find?_some hf
    exact ⟨p, List.mem_of_find?_eq_some hf, by simpa [QName.same] using hp, h⟩

theorem bundlesGet_of_mem {bs : List (QName × Nat)} (hd : KeysDistinct bs) {p : QName × Nat} (hp : p ∈ bs)
    {q : QName} (hq : p.1.uri = q.uri) : Heap.bundlesGet bs q = some p.2 := by
  unfold Heap.bundlesGet
  induction bs with
  | nil => cases hp
  | cons x rest ih =>
    unfold KeysDistinct at hd
    simp only [List.map_cons, List.nodup_cons] at hd
    rcases List.mem_cons.mp hp with rfl | hp'
    · have : p.1.same q = true := by simpa [QName.same] using hq
      simp [this]
    · have hx : x.1.same q = false := by
        simp only [QName.same, beq_eq_false_iff_ne, ne_eq]
        intro e
        exact hd.1 (List.mem_map.mpr ⟨p, hp', by rw [hq, e]⟩)
      simp only [List.find?_cons, hx]
      exact ih hd.2 hp'

/-- every bundle identifier of the second document occurs in the first, when the converse holds and the counts agree -/
theorem keys_back {A B : List (QName × Nat)} (hA : KeysDistinct A) (hlen : A.length = B.length)
    (hsub : ∀ p ∈ A, ∃ q ∈ B, q.1.uri = p.1.uri) : ∀ q ∈ B, ∃ p ∈ A, p.1.uri = q.1.uri := by
  have hs : A.map (fun p => p.1.uri) ⊆ B.map (fun p => p.1.uri) := by
    intro u hu
    obtain ⟨p, hp, rfl⟩ := List.mem_map.mp hu
    obtain ⟨q, hq, e⟩ := hsub p hp
    exact List.mem_map.mpr ⟨q, hq, e⟩
  have hperm := (List.subperm_of_subset hA hs).perm_of_length_le (by simp [hlen])
  intro q hq
  have : q.1.uri ∈ A.map (fun p => p.1.uri) := hperm.mem_iff.mpr (List.mem_map.mpr ⟨q, hq, rfl⟩)
  obtain ⟨p, hp, e⟩ := List.mem_map.mp this
  exact ⟨p, hp, e⟩

theorem bundleEq_symm (h : Heap) (ok : HeapOk h) (a b : Nat) (e : h.bundleEq a b = true) : h.bundleEq b a = true :=
  c04_recordsEq_symm _ _ (ok a) (ok b) e

theorem bundleEq_trans (h : Heap) (ok : HeapOk h) (a b c : Nat) (e1 : h.bundleEq a b = true) (e2 : h.bundleEq b c = true) :
    h.bundleEq a c = true :=
  c04_recordsEq_trans _ _ _ (ok a) (ok b) (ok c) e1 e2

/-- **C04** (documents): `d1 == d2` implies `d2 == d1` -/
theorem c04_docEq_symm (h : Heap) (ok : HeapOk h) (a b : Nat) (ha : (h.cont a).isDoc = true)
    (hA : KeysDistinct (h.cont a).bundles) (hB : KeysDistinct (h.cont b).bundles)
    (e : h.docEq a b = true) : h.docEq b a = true := by
  unfold Heap.docEq at e ⊢
  simp only [Bool.and_eq_true, beq_iff_eq, List.all_eq_true] at e ⊢
  obtain ⟨⟨⟨_, e1⟩, elen⟩, eall⟩ := e
  refine ⟨⟨⟨ha, bundleEq_symm h ok a b e1⟩, elen.symm⟩, ?_⟩
  intro q hq
  have hsub : ∀ p ∈ (h.cont a).bundles, ∃ q ∈ (h.cont b).bundles, q.1.uri = p.1.uri := by
    intro p hp
    have := eall p hp
    cases hg : Heap.bundlesGet (h.cont b).bundles p.1 with
    | none => simp [hg] at this
    | some ob =>
      obtain ⟨q', hq', hu, _⟩ := bundlesGet_some hg
      exact ⟨q', hq', hu⟩
  obtain ⟨p, hp, hu⟩ := keys_back hA elen hsub q hq
  rw [bundlesGet_of_mem hA hp hu]
  have := eall p hp
  rw [bundlesGet_of_mem hB hq hu.symm] at this
  exact bundleEq_symm h ok _ _ this

/-- **C04** (documents): transitivity -/
theorem c04_docEq_trans (h : Heap) (ok : HeapOk h) (a b c : Nat)
    (hC : KeysDistinct (h.cont c).bundles)
    (e1 : h.docEq a b = true) (e2 : h.docEq b c = true) : h.docEq a c = true := by
  unfold Heap.docEq at e1 e2 ⊢
  simp only [Bool.and_eq_true, beq_iff_eq, List.all_eq_true] at e1 e2 ⊢
  obtain ⟨⟨⟨_, r1⟩, l1⟩, a1⟩ := e1
  obtain ⟨⟨⟨d2, r2⟩, l2⟩, a2⟩ := e2
  refine ⟨⟨⟨d2, bundleEq_trans h ok a b c r1 r2⟩, l1.trans l2⟩, ?_⟩
  intro p hp
  have h1 := a1 p hp
  cases hg : Heap.bundlesGet (h.cont b).bundles p.1 with
  | none => simp [hg] at h1
  | some ob =>
    simp only [hg] at h1
    obtain ⟨q, hq, hu, rfl⟩ := bundlesGet_some hg
    have h2 := a2 q hq
    cases hg2 : Heap.bundlesGet (h.cont c).bundles q.1 with
    | none => simp [hg2] at h2
    | some oc =>
      simp only [hg2] at h2
      obtain ⟨s, hs, hu2, rfl⟩ := bundlesGet_some hg2
      rw [bundlesGet_of_mem hC hs (hu2.trans hu)]
      exact bundleEq_trans h ok _ _ _ h1 h2

end Prov.C04

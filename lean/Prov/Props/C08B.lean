/-
  C08, part 2: the grouping pass of `_unified_records` — records under one identifier are grouped by kind; every
  record lands in exactly one group, the group of its kind; nothing is lost, duplicated or moved to another kind.
-/
import Prov.Heap

namespace Prov.C08
open Prov Heap

def gStep (h : Heap) (acc : List (RecKind × List Nat)) (r : Nat) : List (RecKind × List Nat) :=
  let k := (h.recCell r).r.kind
  if acc.any (fun g => g.1 == k) then acc.map (fun g => if g.1 == k then (g.1, g.2 ++ [r]) else g)
  else acc ++ [(k, [r])]

theorem groupByKind_eq (h : Heap) (rs : List Nat) : groupByKind h rs = rs.foldl (gStep h) [] := rfl

/-- invariant of the accumulator: kinds pairwise distinct, every member has its group's kind -/
structure GInv (h : Heap) (acc : List (RecKind × List Nat)) : Prop where
  distinct : (acc.map (·.1)).Nodup
  kinds : ∀ g ∈ acc, ∀ r ∈ g.2, (h.recCell r).r.kind = g.1

theorem gStep_inv (h : Heap) (acc : List (RecKind × List Nat)) (r : Nat) (hi : GInv h acc) : GInv h (gStep h acc r) := by
  unfold gStep
  simp only []
  split
  · refine ⟨?_, ?_⟩
    · have : (acc.map (fun g => if g.1 == (h.recCell r).r.kind then (g.1, g.2 ++ [r]) else g)).map (·.1) = acc.map (·.1) := by
        rw [List.map_map]
        apply List.map_congr_left
        intro g _
        simp only [Function.comp]
        split <;> rfl
      rw [this]; exact hi.distinct
    · intro g hg x hx
      obtain ⟨g0, hg0, rfl⟩ := List.mem_map.mp hg
      by_cases hk : (g0.1 == (h.recCell r).r.kind) = true
      · rw [if_pos hk] at hx ⊢
        rcases List.mem_append.mp hx with h' | h'
        · exact hi.kinds g0 hg0 x h'
        · simp only [List.mem_singleton] at h'
          subst h'
          simp only [beq_iff_eq] at hk
          exact hk.symm
      · rw [if_neg hk] at hx ⊢
        exact hi.kinds g0 hg0 x hx
  · next hany =>
    refine ⟨?_, ?_⟩
    · rw [List.map_append, List.nodup_append]
      refine ⟨hi.distinct, by simp, ?_⟩
      intro a ha b hb
      simp only [List.map_cons, List.map_nil, List.mem_singleton] at hb
      subst hb
      intro e
      subst e
      obtain ⟨g, hg, hgk⟩ := List.mem_map.mp ha
      apply hany
      exact List.any_eq_true.mpr ⟨g, hg, by simp [hgk]⟩
    · intro g hg x hx
      rcases List.mem_append.mp hg with h' | h'
      · exact hi.kinds g h' x hx
      · simp only [List.mem_singleton] at h'
        subst h'
        simp only [List.mem_singleton] at hx
        subst hx; rfl

/-- membership: the members of the groups after a step are the old members plus `r` -/
theorem gStep_mem (h : Heap) (acc : List (RecKind × List Nat)) (r x : Nat) :
    (∃ g ∈ gStep h acc r, x ∈ g.2) ↔ (∃ g ∈ acc, x ∈ g.2) ∨ x = r := by
  unfold gStep
  simp only []
  split
  · next hany =>
    obtain ⟨g1, hg1, hk1⟩ := List.any_eq_true.mp hany
    constructor
    · rintro ⟨g, hg, hx⟩
      obtain ⟨g0, hg0, rfl⟩ := List.mem_map.mp hg
      split at hx
      · rcases List.mem_append.mp hx with h' | h'
        · exact Or.inl ⟨g0, hg0, h'⟩
        · exact Or.inr (by simpa using h')
      · exact Or.inl ⟨g0, hg0, hx⟩
    · rintro (⟨g, hg, hx⟩ | rfl)
      · refine ⟨_, List.mem_map.mpr ⟨g, hg, rfl⟩, ?_⟩
        split
        · exact List.mem_append_left _ hx
        · exact hx
      · refine ⟨_, List.mem_map.mpr ⟨g1, hg1, rfl⟩, ?_⟩
        rw [if_pos hk1]
        simp
  · constructor
    · rintro ⟨g, hg, hx⟩
      rcases List.mem_append.mp hg with h' | h'
      · exact Or.inl ⟨g, h', hx⟩
      · simp only [List.mem_singleton] at h'
        subst h'
        exact Or.inr (by simpa using hx)
    · rintro (⟨g, hg, hx⟩ | rfl)
      · exact ⟨g, List.mem_append_left _ hg, hx⟩
      · exact ⟨_, List.mem_append_right _ (List.mem_singleton.mpr rfl), by simp⟩

/-- the total number of grouped records grows by exactly one per step -/
theorem gStep_count (h : Heap) (acc : List (RecKind × List Nat)) (r : Nat) (hi : GInv h acc) :
    ((gStep h acc r).map (·.2.length)).sum = (acc.map (·.2.length)).sum + 1 := by
  unfold gStep
  simp only []
  split
  · next hany =>
    have hd := hi.distinct
    clear hi
    induction acc with
    | nil => simp at hany
    | cons g rest ih =>
      simp only [List.map_cons, List.nodup_cons] at hd
      by_cases hk : (g.1 == (h.recCell r).r.kind) = true
      · -- the group of this kind is the head; no other group has this kind
        have hrest : rest.map (fun g => if g.1 == (h.recCell r).r.kind then (g.1, g.2 ++ [r]) else g) = rest := by
          rw [List.map_congr_left (g := id)]
          · simp
          · intro g' hg'
            have : (g'.1 == (h.recCell r).r.kind) = false := by
              simp only [beq_eq_false_iff_ne, ne_eq]
              intro e
              apply hd.1
              simp only [beq_iff_eq] at hk
              exact List.mem_map.mpr ⟨g', hg', by rw [e, hk]⟩
            simp [this]
        simp only [List.map_cons, hk, if_true, hrest, List.sum_cons, List.length_append, List.length_singleton]
        omega
      · have hk' : (g.1 == (h.recCell r).r.kind) = false := by simpa using hk
        have hany' : rest.any (fun g => g.1 == (h.recCell r).r.kind) = true := by
          simpa [List.any_cons, hk'] using hany
        have := ih hany' hd.2
        simp only [List.map_cons, hk', Bool.false_eq_true, if_false, List.sum_cons]
        omega
  · simp [List.map_append, List.sum_append]

/-- **C08** (grouping): for any list of records, grouping by kind puts every record into a group, only records of the
    list are grouped, each group holds records of one kind, different groups have different kinds, and the groups
    together hold exactly as many records as the list -/
theorem c08_groupByKind_spec (h : Heap) (rs : List Nat) :
    (∀ x, (∃ g ∈ groupByKind h rs, x ∈ g.2) ↔ x ∈ rs) ∧
    (∀ g ∈ groupByKind h rs, ∀ r ∈ g.2, (h.recCell r).r.kind = g.1) ∧
    ((groupByKind h rs).map (·.1)).Nodup ∧
    ((groupByKind h rs).map (·.2.length)).sum = rs.length := by
  rw [groupByKind_eq]
  suffices H : ∀ acc, GInv h acc →
      GInv h (rs.foldl (gStep h) acc) ∧
      (∀ x, (∃ g ∈ rs.foldl (gStep h) acc, x ∈ g.2) ↔ (∃ g ∈ acc, x ∈ g.2) ∨ x ∈ rs) ∧
      ((rs.foldl (gStep h) acc).map (·.2.length)).sum = (acc.map (·.2.length)).sum + rs.length by
    obtain ⟨hi, hm, hc⟩ := H [] ⟨by simp, by simp⟩
    refine ⟨?_, hi.kinds, hi.distinct, by simpa using hc⟩
    intro x
    rw [hm x]
    simp
  induction rs with
  | nil => intro acc hi; exact ⟨hi, by simp, by simp⟩
  | cons r rest ih =>
    intro acc hi
    simp only [List.foldl_cons]
    obtain ⟨h1, h2, h3⟩ := ih (gStep h acc r) (gStep_inv h acc r hi)
    refine ⟨h1, ?_, ?_⟩
    · intro x
      rw [h2 x, gStep_mem h acc r x]
      simp only [List.mem_cons]
      constructor
      · rintro ((h' | h') | h')
        · exact Or.inl h'
        · exact Or.inr (Or.inl h')
        · exact Or.inr (Or.inr h')
      · rintro (h' | h' | h')
        · exact Or.inl (Or.inl h')
        · exact Or.inl (Or.inr h')
        · exact Or.inr h'
    · rw [h3, gStep_count h acc r hi]
      simp only [List.length_cons]
      omega

theorem nodup_map_inj {α β} [DecidableEq β] {f : α → β} (l : List α) (hd : (l.map f).Nodup) {a b : α}
    (ha : a ∈ l) (hb : b ∈ l) (e : f a = f b) : a = b := by
  induction l with
  | nil => cases ha
  | cons x xs ih =>
    simp only [List.map_cons, List.nodup_cons] at hd
    rcases List.mem_cons.mp ha with rfl | ha' <;> rcases List.mem_cons.mp hb with rfl | hb'
    · rfl
    · exact absurd (List.mem_map.mpr ⟨b, hb', e.symm⟩) hd.1
    · exact absurd (List.mem_map.mpr ⟨a, ha', e⟩) hd.1
    · exact ih hd.2 ha' hb'

/-- in particular two records end up in one group iff they have the same kind -/
theorem c08_same_group_iff_same_kind (h : Heap) (rs : List Nat) (a b : Nat) (ha : a ∈ rs) (hb : b ∈ rs) :
    (∃ g ∈ groupByKind h rs, a ∈ g.2 ∧ b ∈ g.2) ↔ (h.recCell a).r.kind = (h.recCell b).r.kind := by
  obtain ⟨hm, hk, hd, _⟩ := c08_groupByKind_spec h rs
  constructor
  · rintro ⟨g, hg, ha', hb'⟩
    rw [hk g hg a ha', hk g hg b hb']
  · intro e
    obtain ⟨ga, hga, haa⟩ := (hm a).mpr ha
    obtain ⟨gb, hgb, hbb⟩ := (hm b).mpr hb
    have hkk : ga.1 = gb.1 := by rw [← hk ga hga a haa, ← hk gb hgb b hbb, e]
    -- groups with the same kind are the same group
    have : ga = gb := nodup_map_inj (groupByKind h rs) hd hga hgb hkk
    subst this
    exact ⟨ga, hga, haa, hbb⟩

end Prov.C08

/-
  C11, forms the writer never produces: what the PROV-JSON reader makes of them is what it makes of the plain form.
-/
import Prov.Props.C11

namespace Prov.C11
open Prov Prov.Heap

/-- **a single value wrapped in an array reads as the value itself** — for PROV attributes (references, times) and for
    every other attribute, whatever the value and whatever comes before and after in the record object -/
theorem c11_singleton_array (h : Heap) (c : Nat) (kind : RecKind) (k : String) (x : JVal) (rest : List (String × JVal))
    (acc : ElemAcc) (hx : ∀ l, x ≠ .arr l) :
    h.decodeElemAttrs c kind ((k, .arr [x]) :: rest) acc = h.decodeElemAttrs c kind ((k, x) :: rest) acc := by
  cases x with
  | arr l => exact absurd rfl (hx l)
  | null => rw [decodeElemAttrs, decodeElemAttrs] <;> first | rfl | (intro l hl; cases hl)
  | bool b => rw [decodeElemAttrs, decodeElemAttrs] <;> first | rfl | (intro l hl; cases hl)
  | int n => rw [decodeElemAttrs, decodeElemAttrs] <;> first | rfl | (intro l hl; cases hl)
  | float f => rw [decodeElemAttrs, decodeElemAttrs] <;> first | rfl | (intro l hl; cases hl)
  | str s => rw [decodeElemAttrs, decodeElemAttrs] <;> first | rfl | (intro l hl; cases hl)
  | strf s f => rw [decodeElemAttrs, decodeElemAttrs] <;> first | rfl | (intro l hl; cases hl)
  | obj kvs => rw [decodeElemAttrs, decodeElemAttrs] <;> first | rfl | (intro l hl; cases hl)

/-- **a membership that lists several entities** keeps the first as the record's own `prov:entity` and hands the others to
    the expansion loop (one further membership per entity), in order -/
theorem c11_membership_entities (h : Heap) (c : Nat) (x : JVal) (more : List JVal) (hm : more ≠ [])
    (rest : List (String × JVal)) (acc : ElemAcc) :
    h.decodeElemAttrs c .membership (("prov:entity", .arr (x :: more)) :: rest) acc =
      (match h.jsonName c (some x) with
       | .ok (some q) => h.decodeElemAttrs c .membership rest
           { acc with formal := dictSet acc.formal (provQ "entity") (.val (.qn q)), extraMembers := more }
       | .ok none => h.decodeElemAttrs c .membership rest
           { acc with formal := dictSet acc.formal (provQ "entity") .nil, extraMembers := more }
       | .error e => .error e) := by
  have hfind : (attrQNames ++ attrLiterals).find? (fun l => "prov:" ++ l == "prov:entity") = some "entity" := by decide
  have hname : h.jsonAttrName c "prov:entity" = some (provQ "entity") := by
    simp only [jsonAttrName, hfind]
  have hprov : isProvAttr (provQ "entity") = true := by decide
  have href : isRefAttr (provQ "entity") = true := by decide
  have huri : ((provQ "entity").uri == provUri ++ "entity") = true := by decide
  cases more with
  | nil => exact absurd rfl hm
  | cons y ys =>
    rw [decodeElemAttrs]
    simp only [hname, hprov, href, huri, if_true, beq_self_eq_true, Bool.and_self]
    cases h.jsonName c (some x) with
    | error e => rfl
    | ok o => cases o <;> simp

/-- … any other attribute (or any other record kind) given several values in a PROV position is refused, not truncated -/
theorem c11_multi_formal_refused (h : Heap) (c : Nat) (kind : RecKind) (hk : kind ≠ .membership) (k : String) (attr : QName)
    (hname : h.jsonAttrName c k = some attr) (hp : isProvAttr attr = true) (x y : JVal) (more : List JVal)
    (rest : List (String × JVal)) (acc : ElemAcc) :
    h.decodeElemAttrs c kind ((k, .arr (x :: y :: more)) :: rest) acc = .error errJson := by
  rw [decodeElemAttrs]
  have hk' : (kind == .membership) = false := by simpa using hk
  simp [hname, hp, hk']

end Prov.C11

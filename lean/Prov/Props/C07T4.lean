/- C07 table theorem (its own module so that the kernel evaluations run in parallel) -/
import Prov.Props.C07Def

namespace Prov.C07
open Prov Prov.Rdf Prov.Text

/-- elements: label, location, start and end time -/
theorem c07_element_predicates :
    [RecKind.entity, .activity, .agent].all (fun k =>
      readBackName k (elemPred (provQ "label")) == provU "label" &&
      readBackName k (provU "atLocation") == provU "location" &&
      readBackName k (elemPred (provQ "startTime")) == provU "startTime" &&
      readBackName k (elemPred (provQ "endTime")) == provU "endTime" &&
      readBackName k (elemPred (provQ "value")) == provU "value") = true := by
  decide +kernel

end Prov.C07

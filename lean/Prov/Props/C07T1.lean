/- C07 table theorem (its own module so that the kernel evaluations run in parallel) -/
import Prov.Props.C07Def

namespace Prov.C07
open Prov Prov.Rdf Prov.Text

/-- for every kind and every formal argument but the first: the reader files the writer's predicate under that argument -/
theorem c07_formal_predicates_inverse :
    RecKind.all.all (fun k => (k.formals.drop 1).all (fun l => readBackName k (relAttrPred k (formalQ l)) == provU l)) = true := by
  decide +kernel

end Prov.C07

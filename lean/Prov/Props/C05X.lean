/-
  C05 / C18 / C09, refused calls: what a call that ends in an error leaves behind.

  C05 says that a second, different value for a formal attribute "is refused with ProvException"; a caller that catches the
  exception goes on using the record and its document (every round-trip property quantifies over such histories). The
  theorems below state what the refused call has done by then:

  * the pair that is refused contributes nothing: after `add_attributes(pairs)` has raised, the record is exactly what the
    pairs *before* the refused one produced (`c05_refused_keeps_prefix`); for a call with one pair the record is as it was
    (`c05_refused_single`), on the heap: the record cell, every other record, every container (record lists, identifier
    indexes, bundle tables) are as before — only the namespace manager may have met a new name (`c05_refused_on_heap`);
  * a refused `new_record` / factory call / `add_record` leaves no record behind (`Props/C18X`); `ProvBundle.update(document
    with bundles)` is refused before anything is touched (`Props/C09X`).
-/
import Prov.Props.C05B

namespace Prov.C05
open Prov Prov.Heap

/-- the guard either stores or refuses; a refusal returns the record it was given -/
theorem storeValue_error (isColl : Bool) (r : Record) (attr : QName) (v : Value) (r' : Record) (e : Err)
    (h : storeValue isColl r attr v = (r', some e)) : r' = r := by
  unfold storeValue at h
  split at h
  · split at h
    · split at h <;> simp at h <;> exact h.1.symm
    · simp at h
  · simp at h

/-- one pair: every way of failing returns the record it was given -/
theorem addOne_error (par : Option NsMgr) (isColl : Bool) (m : NsMgr) (r : Record) (a : AttrArg)
    (m' : NsMgr) (r' : Record) (e : Err) (h : addOne par isColl m r a = (m', r', some e)) : r' = r := by
  unfold addOne at h
  split at h
  · simp at h
  · dsimp only at h
    split at h
    · simp at h; exact h.2.1.symm
    · split at h
      · simp at h; exact h.2.1.symm
      · simp at h; exact h.2.1.symm
      · rename_i v _
        simp only [Prod.mk.injEq] at h
        obtain ⟨_, h2, h3⟩ := h
        exact storeValue_error isColl r _ v r' e (by rw [← h2, ← h3])

/-- **C05, a refused call keeps exactly the accepted prefix**: when `add_attributes(attrs)` raises, the pairs split into
    those before the refused one, the refused one and the rest; the record is what the accepted pairs produced, the refused
    pair is refused in that state with the error reported, and nothing after it was looked at -/
theorem c05_refused_keeps_prefix (par : Option NsMgr) (isColl : Bool) (attrs : List AttrArg) (m : NsMgr) (r : Record)
    (m' : NsMgr) (r' : Record) (e : Err) (h : addAttrsLoop par isColl m r attrs = (m', r', some e)) :
    ∃ pre a post m1, attrs = pre ++ a :: post ∧ addAttrsLoop par isColl m r pre = (m1, r', none) ∧
      addOne par isColl m1 r' a = (m', r', some e) := by
  induction attrs generalizing m r with
  | nil => simp [addAttrsLoop] at h
  | cons a rest ih =>
    unfold addAttrsLoop at h
    split at h
    · rename_i m2 r2 h1
      obtain ⟨pre, a', post, m1, e1, e2, e3⟩ := ih m2 r2 h
      refine ⟨a :: pre, a', post, m1, by rw [e1]; rfl, ?_, e3⟩
      unfold addAttrsLoop
      rw [h1]
      exact e2
    · rename_i hne
      have hr : r' = r := addOne_error par isColl m r a m' r' e h
      subst hr
      exact ⟨[], a, rest, m, rfl, rfl, h⟩

/-- **C05, a refused single pair leaves the record as it was** (whatever the reason: an unknown attribute name, a value
    that is no name / no time, a second, different value for a formal attribute) -/
theorem c05_refused_single (par : Option NsMgr) (m : NsMgr) (r : Record) (a : AttrArg) (m' : NsMgr) (r' : Record) (e : Err)
    (h : Record.addAttributes par m r [a] = (m', r', some e)) : r' = r := by
  unfold Record.addAttributes at h
  obtain ⟨pre, a', post, m1, e1, e2, _⟩ := c05_refused_keeps_prefix par _ [a] m r m' r' e h
  cases pre with
  | nil => simp [addAttrsLoop] at e2; exact e2.2.symm
  | cons x xs =>
    have := congrArg List.length e1
    simp at this

/-- when every pair of a call is accepted up to a second, different value for a formal attribute that is already set, that
    is the pair refused — in particular the stored first value is still the only one -/
theorem c05_refused_value_still_single (isColl : Bool) (r : Record) (attr : QName) (v ex : Value)
    (hc : isColl = false) (hp : isProvAttr attr = true) (hex : (r.get attr).head? = some ex) (hne : v.pyEq ex = false) :
    storeValue isColl r attr v = (r, some errProv) := by
  unfold storeValue
  have hnonempty : (r.get attr).isEmpty = false := by
    cases hg : r.get attr with
    | nil => rw [hg] at hex; simp at hex
    | cons _ _ => rfl
  simp [hc, hp, hnonempty, hex, hne]

/-! ### on the heap -/

theorem conts_setMgr (h : Heap) (c : Nat) (m : NsMgr) : (h.setMgr c m).conts = h.conts := rfl
theorem recs_setMgr (h : Heap) (c : Nat) (m : NsMgr) : (h.setMgr c m).recs = h.recs := rfl
theorem conts_setRec (h : Heap) (r : Nat) (rc : Record) : (h.setRec r rc).conts = h.conts := rfl

/-- writing back the record a cell already holds changes nothing -/
theorem setRec_same (h : Heap) (r : Nat) : (h.setRec r (h.recCell r).r).recs = h.recs := by
  unfold setRec
  apply Array.ext
  · simp
  · intro i h1 h2
    show (h.recs.setIfInBounds r { bundle := (h.recCell r).bundle, r := (h.recCell r).r })[i]'(by simpa using h2) = h.recs[i]
    rw [Array.getElem_setIfInBounds]
    split
    · rename_i hi
      subst hi
      simp [recCell, Array.getD, h2]
    · rfl

/-- **C05 on the heap**: `record.add_attributes([pair])` that raises leaves every record (this one included) and every
    container as they were; only the namespace manager of the record's bundle may have changed (a name it met) -/
theorem c05_refused_on_heap (h : Heap) (r : Nat) (a : AttrArg) (h' : Heap) (e : Err)
    (hcall : h.addAttributes r [a] = (h', some e)) : h'.recs = h.recs ∧ h'.conts = h.conts := by
  unfold Heap.addAttributes at hcall
  dsimp only at hcall
  obtain ⟨m', rc, e', hres⟩ : ∃ m' rc e', Record.addAttributes (h.parentOf (h.recCell r).bundle) (h.mgrOf (h.recCell r).bundle)
      (h.recCell r).r [a] = (m', rc, e') := ⟨_, _, _, rfl⟩
  rw [hres] at hcall
  simp only [Prod.mk.injEq] at hcall
  obtain ⟨hh, he⟩ := hcall
  subst he
  have hrc : rc = (h.recCell r).r := c05_refused_single _ _ _ a m' rc e hres
  subst hh
  refine ⟨?_, rfl⟩
  rw [hrc]
  have : ((h.setMgr (h.recCell r).bundle m').recCell r).r = (h.recCell r).r := rfl
  have := setRec_same (h.setMgr (h.recCell r).bundle m') r
  rw [show ((h.setMgr (h.recCell r).bundle m').recCell r).r = (h.recCell r).r from rfl] at this
  exact this

/-- the same for a call with any number of pairs, about everything but the record itself: no other record, no container -/
theorem c05_refused_others_on_heap (h : Heap) (r : Nat) (attrs : List AttrArg) (h' : Heap) (e : Option Err)
    (hcall : h.addAttributes r attrs = (h', e)) :
    h'.conts = h.conts ∧ h'.recs.size = h.recs.size ∧ ∀ x, x ≠ r → h'.recCell x = h.recCell x := by
  unfold Heap.addAttributes at hcall
  dsimp only at hcall
  obtain ⟨m', rc, e', hres⟩ : ∃ m' rc e', Record.addAttributes (h.parentOf (h.recCell r).bundle) (h.mgrOf (h.recCell r).bundle)
      (h.recCell r).r attrs = (m', rc, e') := ⟨_, _, _, rfl⟩
  rw [hres] at hcall
  simp only [Prod.mk.injEq] at hcall
  obtain ⟨hh, _⟩ := hcall
  subst hh
  refine ⟨rfl, by simp [setRec, setMgr], ?_⟩
  intro x hx
  simp [setRec, setMgr, recCell, Array.getD_eq_getD_getElem?, Ne.symm hx]

/-- non-vacuity: a generation of `ex:e` by `ex:a1`; a later `add_attributes([(prov:activity, ex:a2)])` is refused -/
def opsRefused : List HOp :=
  [.newDoc [⟨"ex", "http://example.org/"⟩],
   .newRecord 0 .generation (.str "ex:g") [⟨.str "prov:entity", .val (.qn ⟨⟨"ex", "http://example.org/"⟩, "e"⟩), none⟩,
                                            ⟨.str "prov:activity", .val (.qn ⟨⟨"ex", "http://example.org/"⟩, "a1"⟩), none⟩]]

example : ((opsRefused.foldl hstep Heap.empty).addAttributes 0
    [⟨.str "prov:activity", .val (.qn ⟨⟨"ex", "http://example.org/"⟩, "a2"⟩), none⟩]).2 = some errProv := rfl

end Prov.C05


/- C07 table theorem (its own module so that the kernel evaluations run in parallel) -/
import Prov.Props.C07Def

namespace Prov.C07
open Prov Prov.Rdf Prov.Text

/-- the well-known extra attributes of relations (`prov:role`, `prov:type` aside, which is `rdf:type`) -/
theorem c07_role_label_location :
    RecKind.all.all (fun k =>
      readBackName k (relAttrPred k (provQ "role")) == provU "role" &&
      readBackName k (relAttrPred k (provQ "label")) == provU "label" &&
      readBackName k (relAttrPred k (provQ "location")) == provU "location" &&
      readBackName k (relAttrPred k (provQ "value")) == provU "value") = true := by
  decide +kernel

end Prov.C07

/-
  C02, the writer's ordering step: `sorted_attributes` only reorders — every (attribute, value) pair handed to it is
  written exactly once (no pair lost, none written twice), whatever the record kind and whatever the names.
-/
import Prov.Xml
import Prov.Lemmas.Perm

namespace Prov.C02
open Prov Prov.Perm

theorem insertSorted_perm (x : QName × Value) : ∀ (l : List (QName × Value)), (insertSorted x l).Perm (x :: l)
  | [] => List.Perm.refl _
  | y :: ys => by
    unfold insertSorted
    split
    · exact (List.Perm.cons y (insertSorted_perm x ys)).trans (List.Perm.swap x y ys)
    · exact List.Perm.refl _

theorem stableSort_perm (l : List (QName × Value)) : (stableSort l).Perm l := by
  unfold stableSort
  suffices h : ∀ (acc : List (QName × Value)), (l.foldl (fun acc x => insertSorted x acc) acc).Perm (acc ++ l) by
    simpa using h []
  induction l with
  | nil => intro acc; simp
  | cons x rest ih =>
    intro acc
    rw [List.foldl_cons]
    refine (ih (insertSorted x acc)).trans ?_
    refine (List.Perm.append_right rest (insertSorted_perm x acc)).trans ?_
    simpa using (List.perm_middle (a := x) (l₁ := acc) (l₂ := rest)).symm

/-- the order list of `sorted_attributes` has no repetition, for every record kind -/
theorem order_nodup (k : RecKind) :
    ((k.formals ++ ["label", "location", "role", "type", "value"]).map (provUri ++ ·)).Nodup := by
  cases k <;> decide +kernel

/-- **`sorted_attributes` is a permutation** -/
theorem c02_sortedAttributes_perm (k : RecKind) (attrs : List (QName × Value)) :
    (sortedAttributes k attrs).Perm attrs := by
  unfold sortedAttributes
  simp only
  generalize hord : (k.formals ++ ["label", "location", "role", "type", "value"]).map (provUri ++ ·) = order
  have hnd : order.Nodup := hord ▸ order_nodup k
  -- the part of attrs whose name is in the order list
  have h1 : (order.flatMap (fun u => stableSort (attrs.filter (fun p => p.1.uri == u)))).Perm
      (attrs.filter (fun p => order.contains p.1.uri)) := by
    refine (perm_flatMap_of_perm order (g := fun u => attrs.filter (fun p => p.1.uri == u)) (fun u _ => stableSort_perm _)).trans ?_
    have hc : order.flatMap (fun u => attrs.filter (fun p => p.1.uri == u)) =
        order.flatMap (fun u => (attrs.filter (fun p => order.contains p.1.uri)).filter (fun p => p.1.uri == u)) := by
      apply flatMap_congr'
      intro u hu
      rw [List.filter_filter]
      apply List.filter_congr
      intro p _
      by_cases h : p.1.uri = u
      · simp [h, hu]
      · simp [h]
    rw [hc]
    exact flatMap_filter_perm (fun p : QName × Value => p.1.uri) order _ hnd (fun e he => by
      have := (List.mem_filter.mp he).2
      simpa using this)
  have h2 : (stableSort (attrs.filter (fun p => !(order.contains p.1.uri)))).Perm
      (attrs.filter (fun p => !(order.contains p.1.uri))) := stableSort_perm _
  exact (List.Perm.append h1 h2).trans (List.filter_append_perm (fun p => order.contains p.1.uri) attrs)

/-- **the children of a record element**: one per attribute pair left after `_derive_record_label`, each pair written once -/
theorem c02_children_perm (ft : Bool) (r : Record) :
    ∃ pairs : List (QName × Value), pairs.Perm (deriveLabel r.kind r.flat).2 ∧
      (encodeXmlRecord ft r).children = pairs.map (fun p => childNode p.1 (encodeXmlAttr ft p.1 p.2)) :=
  ⟨sortedAttributes r.kind (deriveLabel r.kind r.flat).2, c02_sortedAttributes_perm _ _, rfl⟩

end Prov.C02

/-
  C08, part 3: what a merge makes of the attributes. `merged = first.copy(); merged.add_attributes(other.attributes)…`
  on the record model: whenever the loop succeeds, every attribute value of every merged-in record is represented in the
  result (inserted, or already there as an equal value), nothing else appears, and what the accumulator held is kept.
-/
import Prov.Props.C09B

namespace Prov.C08
open Prov Prov.C05 Prov.C04 Prov.C09

/-- one pair of `add_attributes`: name and value are resolved to something equal up to prefixes, then the single-value guard
    and the insertion decide (for every state of the record, empty slot or not) -/
theorem addOne_general (par : Option NsMgr) (isColl : Bool) (m : NsMgr) (hm : m.Inv1) (r : Record) (a : QName) (v : Value)
    (hok : PairOk a v) :
    ∃ m' a' v', m'.Inv1 ∧ a'.uri = a.uri ∧ vEq v' v ∧
      addOne par isColl m r ⟨.qn a, .val v, none⟩ = (m', (storeValue isColl r a' v').1, (storeValue isColl r a' v').2) := by
  obtain ⟨hr, ht, ho⟩ := hok
  have hu := NsMgr.validQ_uri hm a
  have hm1 := NsMgr.validQ_inv1 hm a
  unfold addOne
  simp only [NsMgr.validName]
  by_cases href : isRefAttr a = true
  · have href' : isRefAttr (m.validQ a).2 = true := by rw [isRefAttr_congr hu]; exact href
    cases v with
    | qn x =>
      refine ⟨_, (m.validQ a).2, .qn ((m.validQ a).1.validQ x).2, NsMgr.validQ_inv1 hm1 x, hu, NsMgr.validQ_uri hm1 x, ?_⟩
      simp [convValue, href', ArgVal.toNameArg, NsMgr.validName]
    | _ => exact absurd (hr href) (by simp [isQn])
  · have href' : isRefAttr (m.validQ a).2 = false := by rw [isRefAttr_congr hu]; simpa using href
    by_cases htime : isTimeAttr a = true
    · have htime' : isTimeAttr (m.validQ a).2 = true := by rw [isTimeAttr_congr hu]; exact htime
      cases v with
      | dt t =>
        refine ⟨_, (m.validQ a).2, .dt t, hm1, hu, rfl, ?_⟩
        simp [convValue, href', htime']
      | _ => exact absurd (ht htime) (by simp [isDt])
    · have htime' : isTimeAttr (m.validQ a).2 = false := by rw [isTimeAttr_congr hu]; simpa using htime
      have hprov : isProvAttr a = false := by simp [isProvAttr, href, htime]
      obtain ⟨v', hv', heq⟩ := autoLiteral_fix (m.validQ a).1 hm1 v (ho hprov)
      refine ⟨((autoLiteral (m.validQ a).1 (.val v) none).1), (m.validQ a).2, v', autoLiteral_inv1 _ hm1 _ _, hu, heq, ?_⟩
      simp [convValue, href', htime', hv']

/-- a value of the result stands for the pair (a, v): same attribute URI, and equal to a value that equals v up to prefixes -/
def Stands (x : QName × Value) (a : QName) (v : Value) : Prop :=
  x.1.uri = a.uri ∧ ∃ v', vEq v' v ∧ (x.2.keyEq v' = true ∨ v'.pyEq x.2 = true)

theorem mem_flat_of_head (r : Record) (a : QName) (ex : Value) (h : (r.get a).head? = some ex) :
    ∃ k, (k, ex) ∈ r.flat ∧ k.uri = a.uri :=
  flat_of_mem_get r a ex (List.mem_of_mem_head? h)

/-- the loop, for any starting record: on success everything offered is represented, what was there is kept, nothing else appears -/
theorem loop_merge (par : Option NsMgr) (isColl : Bool) (pairs : List (QName × Value)) (m : NsMgr) (hm : m.Inv1) (r : Record)
    (hok : ∀ p ∈ pairs, PairOk p.1 p.2 ∧ valOk p.2) (m' : NsMgr) (r' : Record)
    (hres : addAttrsLoop par isColl m r (pairs.map (fun p => toArg (p.1, some p.2))) = (m', r', none)) :
    m'.Inv1 ∧ r'.kind = r.kind ∧ r'.id = r.id ∧
    (∀ x ∈ r.flat, x ∈ r'.flat) ∧
    (∀ p ∈ pairs, ∃ x ∈ r'.flat, Stands x p.1 p.2) ∧
    (∀ x ∈ r'.flat, x ∈ r.flat ∨ ∃ p ∈ pairs, Stands x p.1 p.2) := by
  induction pairs generalizing m r with
  | nil =>
    simp only [List.map_nil, addAttrsLoop, Prod.mk.injEq] at hres
    obtain ⟨rfl, rfl, _⟩ := hres
    exact ⟨hm, rfl, rfl, fun x hx => hx, fun p hp => absurd hp (by simp), fun x hx => Or.inl hx⟩
  | cons p rest ih =>
    obtain ⟨a, v⟩ := p
    obtain ⟨hpok, hvok⟩ := hok (a, v) List.mem_cons_self
    obtain ⟨m1, a', v', hm1, hu, hveq, hstep⟩ := addOne_general par isColl m hm r a v hpok
    have harg : toArg (a, some v) = ⟨.qn a, .val v, none⟩ := rfl
    simp only [List.map_cons, addAttrsLoop, harg, hstep] at hres
    -- the guard's verdict
    cases hst : (storeValue isColl r a' v').2 with
    | some e => rw [hst] at hres; simp at hres
    | none =>
      rw [hst] at hres
      simp only at hres
      obtain ⟨i1, i2, i3, i4, i5, i6⟩ := ih m1 hm1 (storeValue isColl r a' v').1
        (fun q hq => hok q (List.mem_cons_of_mem _ hq)) hres
      -- what the store did to the record: kept everything, and represents (a, v)
      have hkeep : ∀ x ∈ r.flat, x ∈ (storeValue isColl r a' v').1.flat := by
        intro x hx
        unfold storeValue
        split
        · split
          · split <;> exact hx
          · exact hx
        · exact (flat_insert r a' v').1 x hx
      have hrep : ∃ x ∈ (storeValue isColl r a' v').1.flat, Stands x a v := by
        by_cases hcond : (!isColl && isProvAttr a' && !(r.get a').isEmpty) = true
        · -- occupied PROV slot: success means the offered value equals the one already there
          cases hex : (r.get a').head? with
          | none =>
            simp only [Bool.and_eq_true, Bool.not_eq_true', List.isEmpty_eq_false_iff] at hcond
            cases hg : r.get a' with
            | nil => exact absurd hg hcond.2
            | cons y ys => rw [hg] at hex; cases hex
          | some ex =>
            have hpy : v'.pyEq ex = true := by
              cases hp : v'.pyEq ex with
              | true => rfl
              | false =>
                simp only [storeValue, hcond, if_true, hex, hp, Bool.false_eq_true, if_false] at hst
                cases hst
            have hsame : (storeValue isColl r a' v').1 = r := by
              simp only [storeValue, hcond, if_true, hex, hpy]
            rw [hsame]
            obtain ⟨k, hk, hku⟩ := mem_flat_of_head r a' ex hex
            exact ⟨(k, ex), hk, hku.trans hu, v', hveq, Or.inr hpy⟩
        · have hsame : (storeValue isColl r a' v').1 = r.insert a' v' := by
            simp [storeValue, hcond]
          rw [hsame]
          obtain ⟨x, hx, hxu, hxk⟩ := (flat_insert r a' v').2.1
          exact ⟨x, hx, hxu.trans hu, v', hveq, Or.inl hxk⟩
      have hback : ∀ x ∈ (storeValue isColl r a' v').1.flat, x ∈ r.flat ∨ Stands x a v := by
        intro x hx
        unfold storeValue at hx
        split at hx
        · split at hx
          · split at hx <;> exact Or.inl hx
          · exact Or.inl hx
        · rcases (flat_insert r a' v').2.2 x hx with h | ⟨hxu, hxv⟩
          · exact Or.inl h
          · exact Or.inr ⟨hxu.trans hu, v', hveq, Or.inl (by rw [hxv]; exact keyEq_refl v')⟩
      have hki : (storeValue isColl r a' v').1.kind = r.kind ∧ (storeValue isColl r a' v').1.id = r.id := by
        unfold storeValue
        split
        · split
          · split <;> exact ⟨rfl, rfl⟩
          · exact ⟨rfl, rfl⟩
        · exact ⟨rfl, rfl⟩
      refine ⟨i1, i2.trans hki.1, i3.trans hki.2, fun x hx => i4 x (hkeep x hx), ?_, ?_⟩
      · intro q hq
        rcases List.mem_cons.mp hq with rfl | hq'
        · obtain ⟨x, hx, hs⟩ := hrep
          exact ⟨x, i4 x hx, hs⟩
        · exact i5 q hq'
      · intro x hx
        rcases i6 x hx with h | ⟨q, hq, hs⟩
        · rcases hback x h with h' | h'
          · exact Or.inl h'
          · exact Or.inr ⟨(a, v), List.mem_cons_self, h'⟩
        · exact Or.inr ⟨q, List.mem_cons_of_mem _ hq, hs⟩

end Prov.C08

/-
  C18 / C08, two more invariants of every history (`ReachAny`): in every container the record list holds each record
  reference once, and the identifier index has one entry per identifier URI (`ND`). Together with coherence (`WF`, `Props/C18S`)
  they make the index an exact picture of the list: the entry of an identifier *is* the sub-list of records carrying it.
  Used by the idempotence theorem of `unified()` (`Props/C08J`, `Props/C08K`).
-/
import Prov.Props.C18S

namespace Prov.C18
open Prov Prov.Heap Prov.C05 Prov.C09 Prov.C08 Prov.C13

/-- record references are listed once; index keys are pairwise different URIs -/
def ND (h : Heap) : Prop :=
  ∀ c, c < h.conts.size → (h.cont c).records.Nodup ∧ ((h.cont c).idMap.map (fun e => e.1.uri)).Nodup

def WF2 (h : Heap) : Prop := WF h ∧ ND h

theorem nd_conts_same {h h' : Heap} (hn : ND h) (hc : h'.conts = h.conts) : ND h' := by
  intro c hlt
  have : h'.cont c = h.cont c := by simp [cont, hc]
  rw [this]; exact hn c (by rw [← hc]; exact hlt)

theorem wf2_conts_same {h h' : Heap} (hw : WF2 h) (hw' : WF h') (hc : h'.conts = h.conts) : WF2 h' :=
  ⟨hw', nd_conts_same hw.2 hc⟩

theorem wf2_empty : WF2 Heap.empty := ⟨wf_empty, fun c hc => by simp [Heap.empty] at hc⟩

theorem wf2_setMgr {h : Heap} (hw : WF2 h) (c : Nat) (m : NsMgr) : WF2 (h.setMgr c m) :=
  wf2_conts_same hw (wf_setMgr hw.1 c m) rfl

theorem wf2_validName {h : Heap} (hw : WF2 h) (c : Nat) (x : NameArg) : WF2 (h.validName c x).1 := by
  unfold Heap.validName; exact wf2_setMgr hw _ _

theorem wf2_setCont_same {h : Heap} (hw : WF2 h) (c : Nat) (k : Cont) (hr : k.records = (h.cont c).records)
    (hi : k.idMap = (h.cont c).idMap) : WF2 (h.setCont c k) := by
  refine ⟨wf_setCont_same hw.1 c k hr hi, fun c' hc' => ?_⟩
  have hsz : (h.setCont c k).conts.size = h.conts.size := by simp [setCont]
  rw [hsz] at hc'
  by_cases e : c' = c
  · subst e
    rw [cont_setCont_self h c' k hc', hr, hi]
    exact hw.2 c' hc'
  · rw [cont_setCont_ne h c c' k e]
    exact hw.2 c' hc'

theorem wf2_allocCont {h : Heap} (hw : WF2 h) (isDoc : Bool) (id : Option QName) (nss : List Ns) (doc : Option Nat) :
    WF2 (h.allocCont isDoc id nss doc).1 := by
  refine ⟨c18_allocCont_wf hw.1 isDoc id nss doc, fun c hc => ?_⟩
  obtain ⟨_, _, a3, _, _⟩ := allocCont_fresh h isDoc id nss doc
  have hsz : (h.allocCont isDoc id nss doc).1.conts.size = h.conts.size + 1 := by simp [allocCont, allocMgr]
  rw [hsz] at hc
  by_cases e : c < h.conts.size
  · rw [a3 c e]; exact hw.2 c e
  · have hce : c = h.conts.size := by omega
    subst hce
    simp [allocCont, allocMgr, cont, Array.getD_eq_getD_getElem?]

theorem wf2_mkRecord {h : Heap} (hw : WF2 h) (c : Nat) (k : RecKind) (id : Option QName) (attrs : List AttrArg) :
    WF2 (h.mkRecord c k id attrs).1 :=
  wf2_conts_same hw (mkRecord_wf hw.1 c k id attrs).1 (conts_mkRecord h c k id attrs)

theorem wf2_addAttributes {h : Heap} (hw : WF2 h) (r : Nat) (attrs : List AttrArg) : WF2 (h.addAttributes r attrs).1 :=
  wf2_conts_same hw (wf_addAttributes hw.1 r attrs) (by unfold Heap.addAttributes; rfl)

theorem idMapAppend_keys (im : List (QName × List Nat)) (q : QName) (r : Nat)
    (hn : (im.map (fun e => e.1.uri)).Nodup) : ((idMapAppend im q r).map (fun e => e.1.uri)).Nodup ∧
      ∀ u, u ∈ (idMapAppend im q r).map (fun e => e.1.uri) → u ∈ im.map (fun e => e.1.uri) ∨ u = q.uri := by
  induction im with
  | nil => simp [idMapAppend]
  | cons hd tl ih =>
    obtain ⟨k, rs⟩ := hd
    simp only [List.map_cons, List.nodup_cons] at hn
    unfold idMapAppend
    by_cases hs : k.same q = true
    · simp only [hs, if_true, List.map_cons, List.nodup_cons]
      exact ⟨hn, fun u hu => Or.inl hu⟩
    · simp only [hs, Bool.false_eq_true, if_false, List.map_cons, List.nodup_cons]
      obtain ⟨i1, i2⟩ := ih hn.2
      refine ⟨⟨fun hmem => ?_, i1⟩, fun u hu => ?_⟩
      · rcases i2 _ hmem with h1 | h1
        · exact hn.1 h1
        · apply hs; simp [QName.same, h1]
      · rcases List.mem_cons.mp hu with h1 | h1
        · exact Or.inl (List.mem_cons.mpr (Or.inl h1))
        · rcases i2 u h1 with h2 | h2
          · exact Or.inl (List.mem_cons_of_mem _ h2)
          · exact Or.inr h2

/-- appending a reference that the list does not hold yet -/
theorem nd_addRecordRaw {h : Heap} (hn : ND h) (c r : Nat) (hfresh : r ∉ (h.cont c).records) : ND (h.addRecordRaw c r) := by
  intro c' hc'
  have hsz : (h.addRecordRaw c r).conts.size = h.conts.size := addRecordRaw_size h c r
  rw [hsz] at hc'
  by_cases e : c' = c
  · subst e
    unfold addRecordRaw
    rw [cont_setCont_self h c' _ hc']
    simp only
    obtain ⟨n1, n2⟩ := hn c' hc'
    refine ⟨List.nodup_append.mpr ⟨n1, by simp, fun a ha b hb => by simp at hb; subst hb; exact fun e => hfresh (e ▸ ha)⟩, ?_⟩
    cases (h.recCell r).r.id with
    | none => exact n2
    | some q => exact (idMapAppend_keys _ q r n2).1
  · rw [cont_addRecordRaw_ne h c c' r e]
    exact hn c' hc'

theorem wf2_newRecord {h : Heap} (hw : WF2 h) (c : Nat) (k : RecKind) (idArg : NameArg) (attrs : List AttrArg) :
    WF2 (h.newRecord c k idArg attrs).1 := by
  refine ⟨newRecord_wf_any hw.1 c k idArg attrs, ?_⟩
  unfold Heap.newRecord
  simp only []
  have s1 := wf2_validName hw c idArg
  generalize h.validName c idArg = vn at s1
  obtain ⟨h1, vid⟩ := vn
  simp only at s1 ⊢
  have s2 := wf2_mkRecord s1 c k vid attrs
  obtain ⟨_, hidx⟩ := frameB_mkRecord 0 0 h1 c k vid attrs (Nat.zero_le _)
  have hconts := conts_mkRecord h1 c k vid attrs
  generalize h1.mkRecord c k vid attrs = mk at s2 hidx hconts
  obtain ⟨h2, e⟩ := mk
  cases e with
  | error err => exact s2.2
  | ok r =>
    simp only at hidx hconts ⊢
    by_cases hc : c < h2.conts.size
    · refine nd_addRecordRaw s2.2 c r (fun hmem => ?_)
      have hcont : h2.cont c = h1.cont c := by simp [cont, hconts]
      rw [hcont] at hmem
      have := (s1.1 c (by rw [← hconts]; exact hc)).2 r hmem
      rw [(hidx r rfl).1] at this
      exact Nat.lt_irrefl _ this
    · have : h2.addRecordRaw c r = h2 := by
        simp only [addRecordRaw, setCont]
        rw [Array.setIfInBounds_eq_of_size_le (by omega)]
      rw [this]; exact s2.2

theorem wf2_bundle {h : Heap} (hw : WF2 h) (d : Nat) (idArg : NameArg) : WF2 (h.bundle d idArg).1 := by
  unfold Heap.bundle
  split
  · exact hw
  · have h1 := wf2_validName hw d idArg
    generalize h.validName d idArg = res at h1
    obtain ⟨hh, vid⟩ := res
    simp only at h1 ⊢
    cases vid with
    | none => exact h1
    | some q =>
      simp only
      split
      · exact h1
      · have h2 := wf2_allocCont h1 false (some q) [] (some d)
        generalize hh.allocCont false (some q) [] (some d) = al at h2
        obtain ⟨h3, nb⟩ := al
        simp only at h2 ⊢
        exact wf2_setCont_same h2 d _ rfl rfl

theorem wf2_addRecords (c : Nat) : ∀ (rs : List Nat) (h : Heap), WF2 h → WF2 (h.addRecords c rs).1
  | [], _, hw => hw
  | r :: rest, h, hw => by
    unfold Heap.addRecords
    simp only [Heap.addRecord]
    have s1 := wf2_newRecord hw c (h.recCell r).r.kind (recreateArgs (h.recCell r).r).1 (recreateArgs (h.recCell r).r).2
    generalize h.newRecord c (h.recCell r).r.kind (recreateArgs (h.recCell r).r).1 (recreateArgs (h.recCell r).r).2 = res at s1
    obtain ⟨h1, e⟩ := res
    cases e with
    | error err => exact s1
    | ok nr => exact wf2_addRecords c rest h1 s1

theorem wf2_scratchCopy {h : Heap} (hw : WF2 h) (r0 : Nat) : WF2 (h.scratchCopy r0).1 := by
  unfold scratchCopy
  simp only []
  have s0 := wf2_allocCont hw false none [] none
  generalize h.allocCont false none [] none = al at s0
  obtain ⟨h0, sc⟩ := al
  exact wf2_mkRecord s0 sc _ _ _

theorem wf2_mergeGo (mref : Nat) : ∀ (rs : List Nat) (h : Heap), WF2 h → WF2 (mergeGroup.go mref h rs).1
  | [], _, hw => hw
  | r :: more, h, hw => by
    unfold mergeGroup.go
    simp only []
    have s1 := wf2_addAttributes hw mref ((h.recCell r).r.flat.map (fun p => ({ name := .qn p.1, value := .val p.2 } : AttrArg)))
    generalize h.addAttributes mref ((h.recCell r).r.flat.map (fun p => ({ name := .qn p.1, value := .val p.2 } : AttrArg))) = res at s1
    obtain ⟨h', e⟩ := res
    cases e with
    | none => exact wf2_mergeGo mref more h' s1
    | some err => exact s1

theorem wf2_mergeGroup {h : Heap} (hw : WF2 h) (rs : List Nat) : WF2 (h.mergeGroup rs).1 := by
  unfold mergeGroup
  cases rs with
  | nil => exact hw
  | cons r0 rest =>
    simp only []
    have s1 := wf2_scratchCopy hw r0
    generalize h.scratchCopy r0 = res at s1
    obtain ⟨h1, e⟩ := res
    cases e with
    | error err => exact s1
    | ok mref =>
      simp only []
      have s2 := wf2_mergeGo mref rest h1 s1
      generalize mergeGroup.go mref h1 rest = res2 at s2
      obtain ⟨h2, e2⟩ := res2
      cases e2 <;> exact s2

theorem wf2_mergeAll : ∀ (gs : List (List Nat)) (h : Heap) (acc : List (Nat × Nat)), WF2 h →
    WF2 (unifiedRecords.mergeAll h acc gs).1
  | [], _, _, hw => hw
  | grp :: gs, h, acc, hw => by
    unfold unifiedRecords.mergeAll
    have s1 := wf2_mergeGroup hw grp
    generalize h.mergeGroup grp = res at s1
    obtain ⟨h1, e⟩ := res
    cases e with
    | error err => exact s1
    | ok mref => exact wf2_mergeAll gs h1 _ s1

theorem wf2_unifiedRecords {h : Heap} (hw : WF2 h) (c : Nat) : WF2 (h.unifiedRecords c).1 := by
  unfold unifiedRecords
  simp only []
  have s1 := wf2_mergeAll (((h.cont c).idMap.flatMap (fun e => (groupByKind h e.2).map (·.2))).filter (fun g => g.length > 1)) h [] hw
  generalize unifiedRecords.mergeAll h [] _ = res at s1
  obtain ⟨h1, e⟩ := res
  cases e <;> exact s1

theorem wf2_unifiedBundle {h : Heap} (hw : WF2 h) (c : Nat) : WF2 (h.unifiedBundle c).1 := by
  unfold unifiedBundle
  have s1 := wf2_unifiedRecords hw c
  generalize h.unifiedRecords c = res at s1
  obtain ⟨h1, e⟩ := res
  cases e with
  | error err => exact s1
  | ok rs =>
    simp only []
    have s2 := wf2_allocCont s1 false (h1.cont c).id [] none
    generalize h1.allocCont false (h1.cont c).id [] none = al at s2
    obtain ⟨h2, nb⟩ := al
    have s3 := wf2_addRecords nb rs h2 s2
    generalize h2.addRecords nb rs = res3 at s3
    obtain ⟨h3, e3⟩ := res3
    cases e3 <;> exact s3

theorem wf2_registerBundle {h3 : Heap} (hw : WF2 h3) (d b' : Nat) (q : QName) : WF2 (h3.registerBundle d b' q).1 := by
  unfold registerBundle
  simp only []
  have s4 := wf2_setCont_same hw b' { h3.cont b' with id := some q } rfl rfl
  split
  · exact s4
  · refine wf2_setCont_same (wf2_setCont_same s4 d _ ?_ ?_) b' _ ?_ ?_ <;> rfl

theorem wf2_attachBundle {h1 : Heap} (hw : WF2 h1) (d b' : Nat) (idArg : NameArg) : WF2 (h1.attachBundle d b' idArg).1 := by
  unfold attachBundle
  split
  · exact hw
  · have s2 : WF2 (h1.linkParent d b') := by exact wf2_conts_same hw (by unfold linkParent; exact wf_mgrs hw.1 _) rfl
    have s3 := wf2_validName s2 b' (h1.defaultBundleId b' idArg)
    generalize (h1.linkParent d b').validName b' (h1.defaultBundleId b' idArg) = vn at s3
    obtain ⟨h3, vid⟩ := vn
    cases vid with
    | none => exact s3
    | some q => exact wf2_registerBundle s3 d b' q

theorem wf2_addBundle {h : Heap} (hw : WF2 h) (d b : Nat) (idArg : NameArg) (nsOrder : List Ns) :
    WF2 (h.addBundle d b idArg nsOrder).1 := by
  unfold addBundle
  simp only []
  by_cases hdoc : (h.cont b).isDoc = true
  · simp only [hdoc, if_true]
    by_cases hbs : (!(h.cont b).bundles.isEmpty) = true
    · simp only [hbs, if_true]
      exact hw
    · simp only [hbs, Bool.false_eq_true, if_false]
      have s2 := wf2_allocCont hw false none nsOrder none
      generalize h.allocCont false none nsOrder none = al at s2
      obtain ⟨h2, nb⟩ := al
      have s3 := wf2_addRecords nb (h.cont b).records h2 s2
      generalize h2.addRecords nb (h.cont b).records = res3 at s3
      obtain ⟨h3, e3⟩ := res3
      cases e3 with
      | some err => exact s3
      | none => exact wf2_attachBundle s3 d nb idArg
  · simp only [hdoc, Bool.false_eq_true, if_false]
    exact wf2_attachBundle hw d b idArg

theorem wf2_unifiedGo (nd : Nat) : ∀ (bs : List (QName × Nat)) (h : Heap), WF2 h → WF2 (unifiedInto.go nd h bs).1
  | [], _, hw => hw
  | (q, b) :: rest, h, hw => by
    unfold unifiedInto.go
    have s1 := wf2_unifiedBundle hw b
    generalize h.unifiedBundle b = res at s1
    obtain ⟨h', e⟩ := res
    cases e with
    | error err => exact s1
    | ok ub =>
      simp only []
      have s2 := wf2_addBundle s1 nd ub .nil []
      generalize h'.addBundle nd ub .nil [] = res2 at s2
      obtain ⟨h'', e2⟩ := res2
      cases e2 with
      | some err => exact s2
      | none => exact wf2_unifiedGo nd rest h'' s2

theorem wf2_unifiedDoc {h : Heap} (hw : WF2 h) (d : Nat) : WF2 (h.unifiedDoc d).1 := by
  unfold unifiedDoc
  simp only []
  have s1 := wf2_allocCont hw true none (h.mgrOf d).reg.values none
  generalize h.allocCont true none (h.mgrOf d).reg.values none = al at s1
  obtain ⟨h1, nd⟩ := al
  simp only []
  have s2 : WF2 (h1.copyDefault nd (h.mgrOf d).dflt) := by
    unfold copyDefault
    split
    · unfold Heap.setDefault; exact wf2_setMgr s1 _ _
    · exact s1
  generalize h1.copyDefault nd (h.mgrOf d).dflt = h2 at s2
  unfold unifiedInto
  have s3 := wf2_unifiedRecords s2 d
  generalize h2.unifiedRecords d = res at s3
  obtain ⟨h3, e⟩ := res
  cases e with
  | error err => exact s3
  | ok rs =>
    simp only []
    have s4 := wf2_addRecords nd rs h3 s3
    generalize h3.addRecords nd rs = res4 at s4
    obtain ⟨h4, e4⟩ := res4
    cases e4 with
    | some err => exact s4
    | none =>
      simp only []
      have s5 := wf2_unifiedGo nd (h4.cont d).bundles h4 s4
      generalize unifiedInto.go nd h4 (h4.cont d).bundles = res5 at s5
      obtain ⟨h5, e5⟩ := res5
      cases e5 <;> exact s5

theorem wf2_flattened {h : Heap} (hw : WF2 h) (d : Nat) : WF2 (h.flattened d).1 := by
  unfold flattened
  simp only []
  split
  · exact hw
  · simp only [newDoc]
    have s1 := wf2_allocCont hw true none [] none
    generalize h.allocCont true none [] none = al at s1
    obtain ⟨h1, nd⟩ := al
    simp only []
    have s2 := wf2_addRecords nd ((h.cont d).records ++ (h.cont d).bundles.flatMap (fun p => (h.cont p.2).records)) h1 s1
    generalize h1.addRecords nd _ = res at s2
    obtain ⟨h2, e⟩ := res
    cases e <;> exact s2

theorem wf2_updateBundle {h : Heap} (hw : WF2 h) (c o : Nat) : WF2 (h.updateBundle c o).1 := by
  unfold updateBundle
  simp only []
  split
  · exact hw
  · exact wf2_addRecords c _ h hw

theorem wf2_updateGo (d : Nat) : ∀ (bs : List (QName × Nat)) (h : Heap), WF2 h → WF2 (updateDoc.go d h bs).1
  | [], _, hw => hw
  | (_, b) :: rest, h, hw => by
    unfold updateDoc.go
    cases hid : (h.cont b).id with
    | none => exact hw
    | some bid =>
      simp only []
      cases hget : bundlesGet (h.cont d).bundles bid with
      | some tb =>
        simp only []
        have s1 := wf2_updateBundle hw tb b
        generalize h.updateBundle tb b = res at s1
        obtain ⟨h', e⟩ := res
        cases e with
        | none => exact wf2_updateGo d rest h' s1
        | some err => exact s1
      | none =>
        simp only []
        have s1 := wf2_bundle hw d (.qn bid)
        generalize h.bundle d (.qn bid) = res at s1
        obtain ⟨h', e⟩ := res
        cases e with
        | error err => exact s1
        | ok nb =>
          simp only []
          have s2 := wf2_updateBundle s1 nb b
          generalize h'.updateBundle nb b = res2 at s2
          obtain ⟨h'', e2⟩ := res2
          cases e2 with
          | none => exact wf2_updateGo d rest h'' s2
          | some err => exact s2

theorem wf2_update {h : Heap} (hw : WF2 h) (c o : Nat) : WF2 (h.update c o).1 := by
  unfold update
  split
  · unfold updateDoc
    simp only []
    have s1 := wf2_addRecords c (h.cont o).records h hw
    generalize h.addRecords c (h.cont o).records = res at s1
    obtain ⟨h1, e⟩ := res
    cases e with
    | some err => exact s1
    | none => exact wf2_updateGo c (h.cont o).bundles h1 s1
  · exact wf2_updateBundle hw c o

theorem dstep_wf2 {h : Heap} (hw : WF2 h) (op : DOp) : WF2 (dstep h op) := by
  cases op with
  | addRecord c r => exact wf2_newRecord hw c _ _ _
  | update c o => exact wf2_update hw c o
  | addBundle d b id nsOrder => exact wf2_addBundle hw d b id nsOrder
  | flattened d => exact wf2_flattened hw d
  | unifiedBundle c => exact wf2_unifiedBundle hw c
  | unifiedDoc d => exact wf2_unifiedDoc hw d

theorem hstep_wf2 {h : Heap} (hw : WF2 h) (op : HOp) : WF2 (hstep h op) := by
  have hwf := hstep_wf18 hw.1 op
  cases op with
  | newDoc nss => exact wf2_allocCont hw true none nss none
  | newBundle id nss doc => exact wf2_allocCont hw false id nss doc
  | bundle d id => exact wf2_bundle hw d id
  | addNs c n => exact wf2_conts_same hw hwf (by unfold hstep Heap.addNs; rfl)
  | setDefault c u => exact wf2_conts_same hw hwf (by unfold hstep Heap.setDefault; rfl)
  | validName c x => exact wf2_validName hw c x
  | newRecord c k id attrs => exact wf2_newRecord hw c k id attrs
  | addAttributes r attrs => exact wf2_addAttributes hw r attrs
  | setTime r st en =>
    refine wf2_conts_same hw hwf ?_
    unfold hstep Heap.setTime
    dsimp only
    split
    · rfl
    · split <;> rfl
  | addAssertedType r v flt =>
    refine wf2_conts_same hw hwf ?_
    unfold hstep Heap.addAssertedType
    dsimp only
    generalize autoLiteral (h.mgrOf (h.recCell r).bundle) v flt = res
    obtain ⟨m', conv⟩ := res
    cases conv <;> rfl

/-- **every reachable state**: coherent, each record listed once, one index entry per identifier URI -/
theorem reachAny_wf2 {h : Heap} (hr : ReachAny h) : WF2 h := by
  induction hr with
  | empty => exact wf2_empty
  | mutate op _ ih => exact hstep_wf2 ih op
  | derive op _ ih => exact dstep_wf2 ih op

end Prov.C18

/- C07: the name the reader files a predicate under (shared by the table theorems) -/
import Prov.Rdf
import Prov.Generated.Tables

namespace Prov.C07
open Prov Prov.Rdf Prov.Text

/-- the PROV attribute the reader files a predicate under -/
def readBackName (k : RecKind) (pred : String) : String :=
  match readerRename k pred ((predicateMapper.find? (fun p => p.1 == pred)).map (·.2)) with
  | .inl q => q.uri
  | .inr u => u


end Prov.C07

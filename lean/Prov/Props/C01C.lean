/-
  C01 at container level, the writer's grouping: `encode_json_container` files every record object under its kind and its
  identifier (an array when the identifier repeats, a generated `_:idN` for records without identifier). Read the way the
  reader walks the result — kind by kind, identifier by identifier, array element by array element — the container holds
  exactly the record objects that were filed, each once: nothing is lost, nothing is repeated, whatever the identifiers.
-/
import Prov.Json
import Prov.Eq

namespace Prov.C01
open Prov

/-- the record objects under one identifier: the elements of an array, else the object itself -/
def entryElems : JVal → List JVal
  | .arr l => l
  | x => [x]

/-- (kind label, identifier, record object) for every record object under one kind -/
def idsElems (label : String) (ids : List (String × JVal)) : List (String × String × JVal) :=
  ids.flatMap (fun p => (entryElems p.2).map (fun e => (label, p.1, e)))

def labelElems (p : String × JVal) : List (String × String × JVal) :=
  if p.1 == "prefix" then [] else match p.2 with | .obj ids => idsElems p.1 ids | _ => []

/-- the record objects of a container dict in the order the reader meets them -/
def contElems (cont : List (String × JVal)) : List (String × String × JVal) := cont.flatMap labelElems

def getKey (kvs : List (String × JVal)) (k : String) : Option JVal := (kvs.find? (fun p => p.1 == k)).map (·.2)

/-- `dict[k] = v` on an ordered dict: either `k` is new and the pair is appended, or the first entry for `k` is replaced in place -/
theorem jsonObjSet_split (kvs : List (String × JVal)) (k : String) (v : JVal) :
    (getKey kvs k = none ∧ jsonObjSet kvs k v = kvs ++ [(k, v)]) ∨
    (∃ l1 old l2, kvs = l1 ++ (k, old) :: l2 ∧ getKey kvs k = some old ∧ jsonObjSet kvs k v = l1 ++ (k, v) :: l2) := by
  induction kvs with
  | nil => left; exact ⟨rfl, rfl⟩
  | cons hd tl ih =>
    obtain ⟨k', v'⟩ := hd
    by_cases hk : (k' == k) = true
    · right
      have e : k' = k := by simpa using hk
      subst e
      exact ⟨[], v', tl, rfl, by simp [getKey], by simp [jsonObjSet]⟩
    · have hk' : (k' == k) = false := by simpa using hk
      rcases ih with ⟨h1, h2⟩ | ⟨l1, old, l2, h1, h2, h3⟩
      · left
        refine ⟨?_, by simp [jsonObjSet, hk', h2]⟩
        simp only [getKey, List.find?_cons, hk'] at h1 ⊢
        exact h1
      · right
        refine ⟨(k', v') :: l1, old, l2, by simp [h1], ?_, by simp [jsonObjSet, hk', h3]⟩
        simp only [getKey, List.find?_cons, hk'] at h2 ⊢
        exact h2

/-- filing one more object under an identifier adds exactly that object -/
theorem idsElems_add (label ident : String) (ids : List (String × JVal)) (rj : JVal) (hrj : ∀ l, rj ≠ .arr l) :
    (idsElems label (jsonObjSet ids ident (match getKey ids ident with
      | none => rj
      | some (.arr l) => .arr (l ++ [rj])
      | some other => .arr [other, rj]))).Perm (idsElems label ids ++ [(label, ident, rj)]) := by
  have hone : entryElems rj = [rj] := by cases rj <;> simp_all [entryElems]
  rcases jsonObjSet_split ids ident (match getKey ids ident with
      | none => rj
      | some (.arr l) => .arr (l ++ [rj])
      | some other => .arr [other, rj]) with ⟨h1, h2⟩ | ⟨l1, old, l2, h1, h2, h3⟩
  · rw [h2, h1]
    simp [idsElems, hone]
  · rw [h3, h2, h1]
    have hnew : (entryElems (match (some old : Option JVal) with
        | none => rj
        | some (.arr l) => .arr (l ++ [rj])
        | some other => .arr [other, rj])) = entryElems old ++ [rj] := by
      cases old <;> simp [entryElems]
    simp only [idsElems, List.flatMap_append, List.flatMap_cons, hnew, List.map_append, List.map_cons, List.map_nil,
      List.append_assoc]
    refine List.Perm.append_left _ (List.Perm.append_left _ ?_)
    exact List.perm_append_comm

theorem get?_obj (kvs : List (String × JVal)) (k : String) : (JVal.obj kvs).get? k = getKey kvs k := rfl

theorem outer_add (cont : List (String × JVal)) (label ident : String) (rj : JVal) (hl : (label == "prefix") = false)
    (hrj : ∀ l, rj ≠ .arr l) (cur : List (String × JVal))
    (hcur : cur = match getKey cont label with | some (.obj kvs) => kvs | _ => []) :
    (contElems (jsonObjSet cont label (.obj (jsonObjSet cur ident (match getKey cur ident with
      | none => rj
      | some (.arr l) => .arr (l ++ [rj])
      | some other => .arr [other, rj]))))).Perm (contElems cont ++ [(label, ident, rj)]) := by
  have hinner := idsElems_add label ident cur rj hrj
  generalize (jsonObjSet cur ident (match getKey cur ident with
      | none => rj
      | some (.arr l) => .arr (l ++ [rj])
      | some other => .arr [other, rj])) = newIds at hinner ⊢
  have hlab : labelElems (label, .obj newIds) = idsElems label newIds := by simp [labelElems, hl]
  rcases jsonObjSet_split cont label (.obj newIds) with ⟨h1, h2⟩ | ⟨l1, old, l2, h1, h2, h3⟩
  · rw [h2]
    rw [h1] at hcur
    simp only at hcur
    subst hcur
    simp only [contElems, List.flatMap_append, List.flatMap_cons, List.flatMap_nil, List.append_nil, hlab]
    refine List.Perm.append_left _ ?_
    simpa [idsElems] using hinner
  · rw [h3]
    rw [h2] at hcur
    have hold : (labelElems (label, old)) = idsElems label cur := by
      cases old <;> simp_all [labelElems, idsElems]
    simp only [contElems]
    rw [h1]
    simp only [List.flatMap_append, List.flatMap_cons, hlab, hold, List.append_assoc]
    refine List.Perm.append_left _ ?_
    refine (List.Perm.append_right _ hinner).trans ?_
    simp only [List.append_assoc]
    refine List.Perm.append_left _ ?_
    exact List.perm_append_comm

/-- **one record filed**: the container holds what it held, plus that record object under its kind and identifier -/
theorem contElems_addRecordJson (st : EncSt) (label ident : String) (rj : JVal) (hl : (label == "prefix") = false)
    (hrj : ∀ l, rj ≠ .arr l) :
    (contElems (addRecordJson st label ident rj).cont).Perm (contElems st.cont ++ [(label, ident, rj)]) :=
  outer_add st.cont label ident rj hl hrj _ rfl

theorem provN_not_prefix (k : RecKind) : (k.provN == "prefix") = false := by cases k <;> decide

/-- one step of the writer's loop, together with what it files -/
def fileStep (st : EncSt) (r : Record) : Option (EncSt × (String × String × JVal)) :=
  let si : EncSt × String := match r.id with
    | some q => (st, q.print)
    | none => anonIdFor st r
  match encodeJsonRecord r with
  | some rj => some (addRecordJson si.1 r.kind.provN si.2 rj, (r.kind.provN, si.2, rj))
  | none => none

/-- everything the loop files, in order -/
def fileAll : EncSt → List Record → Option (EncSt × List (String × String × JVal))
  | st, [] => some (st, [])
  | st, r :: rest =>
    match fileStep st r with
    | none => none
    | some (st1, t) => (fileAll st1 rest).map (fun x => (x.1, t :: x.2))

theorem anonIdFor_cont (st : EncSt) (r : Record) : (anonIdFor st r).1.cont = st.cont := by
  unfold anonIdFor
  split <;> rfl

theorem encodeJsonRecord_obj (r : Record) (rj : JVal) (h : encodeJsonRecord r = some rj) : ∀ l, rj ≠ .arr l := by
  intro l e
  subst e
  unfold encodeJsonRecord at h
  simp only [Option.map_eq_some_iff] at h
  obtain ⟨kvs, _, hk⟩ := h
  cases hk

/-- the writer's loop body is `fileStep` -/
def encStepC (acc : Option EncSt) (r : Record) : Option EncSt :=
  match acc with
  | none => none
  | some st =>
    let si : EncSt × String := match r.id with
      | some q => (st, q.print)
      | none => anonIdFor st r
    match encodeJsonRecord r with
    | some rj => some (addRecordJson si.1 r.kind.provN si.2 rj)
    | none => none

theorem foldl_none (rs : List Record) : rs.foldl encStepC none = none := by
  induction rs with
  | nil => rfl
  | cons r rest ih => simpa [List.foldl_cons, encStepC] using ih

theorem fold_fileAll : ∀ (rs : List Record) (st : EncSt),
    (rs.foldl encStepC (some st)) = (fileAll st rs).map (·.1)
  | [], st => rfl
  | r :: rest, st => by
    rw [List.foldl_cons]
    unfold fileAll fileStep
    cases hid : r.id <;> cases hj : encodeJsonRecord r <;>
      simp only [encStepC, hid, hj, foldl_none, Option.map_none, Option.map_map] <;>
      (rw [fold_fileAll rest]; cases fileAll _ rest <;> rfl)

/-- the loop keeps the container's record objects = what it held + what was filed -/
theorem fileAll_elems : ∀ (rs : List Record) (st st' : EncSt) (ts : List (String × String × JVal)),
    fileAll st rs = some (st', ts) → (contElems st'.cont).Perm (contElems st.cont ++ ts)
  | [], st, st', ts, h => by
    simp only [fileAll, Option.some.injEq, Prod.mk.injEq] at h
    obtain ⟨rfl, rfl⟩ := h
    simp
  | r :: rest, st, st', ts, h => by
    unfold fileAll at h
    cases hs : fileStep st r with
    | none => simp [hs] at h
    | some p =>
      obtain ⟨st1, t⟩ := p
      simp only [hs, Option.map_eq_some_iff, Prod.mk.injEq] at h
      obtain ⟨⟨st2, ts2⟩, h2, rfl, rfl⟩ := h
      have ih := fileAll_elems rest st1 st2 ts2 h2
      -- one step
      unfold fileStep at hs
      cases hj : encodeJsonRecord r with
      | none => simp [hj] at hs
      | some rj =>
        simp only [hj, Option.some.injEq, Prod.mk.injEq] at hs
        obtain ⟨rfl, rfl⟩ := hs
        have hcont : (match r.id with | some q => (st, q.print) | none => anonIdFor st r).1.cont = st.cont := by
          cases r.id with
          | none => exact anonIdFor_cont st r
          | some q => rfl
        have h1 := contElems_addRecordJson (match r.id with | some q => (st, q.print) | none => anonIdFor st r).1 r.kind.provN
          (match r.id with | some q => (st, q.print) | none => anonIdFor st r).2 rj (provN_not_prefix r.kind)
          (encodeJsonRecord_obj r rj hj)
        rw [hcont] at h1
        refine ih.trans ?_
        refine (List.Perm.append_right _ h1).trans ?_
        simp

theorem fileAll_length : ∀ (rs : List Record) (st st' : EncSt) (ts : List (String × String × JVal)),
    fileAll st rs = some (st', ts) → ts.length = rs.length
  | [], st, st', ts, h => by
    simp only [fileAll, Option.some.injEq, Prod.mk.injEq] at h
    rw [← h.2]; rfl
  | r :: rest, st, st', ts, h => by
    unfold fileAll at h
    cases hs : fileStep st r with
    | none => simp [hs] at h
    | some p =>
      obtain ⟨st1, t⟩ := p
      simp only [hs, Option.map_eq_some_iff, Prod.mk.injEq] at h
      obtain ⟨⟨st2, ts2⟩, h2, _, rfl⟩ := h
      simp [fileAll_length rest st1 st2 ts2 h2]

theorem encStepJ_eq : encStepJ = encStepC := by
  funext acc r
  cases acc with
  | none => rfl
  | some st =>
    simp only [encStepJ, encStepC]
    cases hid : r.id with
    | some q => rfl
    | none =>
      simp only
      cases anonIdFor st r
      rfl

theorem jsonEncInit_elems (m : NsMgr) : contElems (jsonEncInit m).cont = [] := by
  unfold jsonEncInit
  by_cases hp : (jsonPrefixes m).isEmpty = true
  · simp [hp, contElems]
  · simp [hp, contElems, labelElems]

/-- **the writer's grouping loses and repeats nothing**: whenever `encode_json_container` succeeds, the record objects the
    reader will meet in the container — kind by kind, identifier by identifier, array element by array element — are, up to
    order, exactly the objects filed for the records, one per record: `(PROV-N name of the kind, identifier text, object)`,
    the identifier text being the printed identifier or the `_:idN` of the anonymous-identifier generator -/
theorem c01_container_elems (m : NsMgr) (records : List Record) (cont : List (String × JVal))
    (h : encodeJsonContainer m records = some cont) :
    ∃ st0 st ts, st0.anon = [] ∧ st0.count = 0 ∧ fileAll st0 records = some (st, ts) ∧ cont = st.cont ∧
      ts.length = records.length ∧ (contElems cont).Perm ts := by
  have ha : (jsonEncInit m).anon = [] := rfl
  have hc : (jsonEncInit m).count = 0 := rfl
  have he := jsonEncInit_elems m
  unfold encodeJsonContainer at h
  generalize jsonEncInit m = st0 at ha hc he h
  rw [encStepJ_eq, fold_fileAll] at h
  simp only [Option.map_map, Option.map_eq_some_iff] at h
  obtain ⟨⟨st, ts⟩, hf, hcont⟩ := h
  simp only [Function.comp] at hcont
  refine ⟨st0, st, ts, ha, hc, hf, hcont.symm, fileAll_length records st0 st ts hf, ?_⟩
  have := fileAll_elems records st0 st ts hf
  rw [he] at this
  rw [← hcont]
  simpa using this

end Prov.C01

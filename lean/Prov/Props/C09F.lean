/-
  C09, `add_bundle`: whatever makes it refuse — a document with nested bundles, a missing or unresolvable identifier, an
  identifier the document already uses — the receiving document's cell (records, identifier index, bundle table) is exactly
  as before; and when it succeeds the bundle table has grown by exactly one entry, under the resolved identifier, whose
  container holds the bundle's records (the same container for a stand-alone bundle, a fresh one filled by `add_record`
  for a bundle-free document).
-/
import Prov.Props.C13B
import Prov.Props.C09D

namespace Prov.C09
open Prov Prov.Heap Prov.C13 Prov.C08

/-- the second half of `add_bundle` never touches a container other than the bundle being attached, unless it succeeds -/
theorem attachBundle_error_frame (h1 : Heap) (d b' : Nat) (idArg : NameArg) (hne : b' ≠ d) (h' : Heap) (e : Err)
    (hres : h1.attachBundle d b' idArg = (h', some e)) : h'.cont d = h1.cont d := by
  unfold attachBundle at hres
  split at hres
  · simp only [Prod.mk.injEq] at hres; rw [← hres.1]
  · have hl : (h1.linkParent d b').cont d = h1.cont d := rfl
    have hv : ∀ x, ((h1.linkParent d b').validName b' x).1.cont d = h1.cont d := fun x => by unfold validName; rfl
    generalize hvn : (h1.linkParent d b').validName b' (h1.defaultBundleId b' idArg) = vn at hres
    have hv' := hv (h1.defaultBundleId b' idArg)
    rw [hvn] at hv'
    obtain ⟨h3, vid⟩ := vn
    simp only at hv'
    cases vid with
    | none => simp only [Prod.mk.injEq] at hres; rw [← hres.1]; exact hv'
    | some q =>
      simp only at hres
      unfold registerBundle at hres
      simp only [] at hres
      split at hres
      · simp only [Prod.mk.injEq] at hres
        rw [← hres.1, cont_setCont_ne h3 b' d _ (Ne.symm hne)]
        exact hv'
      · simp at hres

/-- **a refused `add_bundle` leaves the document as it was**: for every cause of refusal -/
theorem c09_addBundle_error_frame (h : Heap) (d b : Nat) (idArg : NameArg) (nsOrder : List Ns)
    (hd : d < h.conts.size) (hdoc : (h.cont d).isDoc = true) (h' : Heap) (e : Err)
    (hres : h.addBundle d b idArg nsOrder = (h', some e)) : h'.cont d = h.cont d := by
  unfold addBundle at hres
  simp only [] at hres
  by_cases hb : (h.cont b).isDoc = true
  · simp only [hb, if_true] at hres
    by_cases hbs : (!(h.cont b).bundles.isEmpty) = true
    · simp only [hbs, if_true, Prod.mk.injEq] at hres
      rw [← hres.1]
    · simp only [hbs, Bool.false_eq_true, if_false] at hres
      obtain ⟨s2, hidx, _⟩ := frameB_allocCont (d + 1) 0 h false none nsOrder none (by omega)
      generalize h.allocCont false none nsOrder none = al at hres s2 hidx
      obtain ⟨h2, nb⟩ := al
      simp only at hres s2 hidx
      have hnb : d + 1 ≤ nb := by rw [hidx]; omega
      have s3 := frameB_addRecords (d + 1) 0 nb hnb (h.cont b).records h2 (Nat.zero_le _)
      generalize h2.addRecords nb (h.cont b).records = res3 at hres s3
      obtain ⟨h3, e3⟩ := res3
      have h23 : h3.cont d = h.cont d := by rw [s3.conts d (Nat.lt_succ_self _), s2.conts d (Nat.lt_succ_self _)]
      cases e3 with
      | some err => simp only [Prod.mk.injEq] at hres; rw [← hres.1]; exact h23
      | none =>
        simp only at hres
        rw [attachBundle_error_frame h3 d nb idArg (by omega) h' e hres]
        exact h23
  · simp only [hb, Bool.false_eq_true, if_false] at hres
    have hne : b ≠ d := fun e => by rw [e] at hb; exact hb hdoc
    exact attachBundle_error_frame h d b idArg hne h' e hres

/-- the three refusals the property names do happen -/
theorem c09_addBundle_refuses_nested (h : Heap) (d b : Nat) (idArg : NameArg) (nsOrder : List Ns)
    (hb : (h.cont b).isDoc = true) (hbs : (h.cont b).bundles.isEmpty = false) :
    h.addBundle d b idArg nsOrder = (h, some errProv) := by
  unfold addBundle
  simp [hb, hbs]

theorem c09_addBundle_refuses_missing_id (h : Heap) (d b : Nat) (nsOrder : List Ns)
    (hb : (h.cont b).isDoc = false) (hid : (h.cont b).id = none) :
    h.addBundle d b .nil nsOrder = (h, some errProv) := by
  unfold addBundle
  simp [hb, attachBundle, defaultBundleId, hid, idFalsy]

theorem c09_addBundle_refuses_duplicate (h : Heap) (d b : Nat) (q : QName) (nsOrder : List Ns)
    (hb : (h.cont b).isDoc = false) (hne : b ≠ d)
    (hdup : ∀ q', (((h.linkParent d b).validName b (.qn q)).2 = some q') →
      (bundlesGet (h.cont d).bundles q').isSome = true) :
    ∃ h', h.addBundle d b (.qn q) nsOrder = (h', some errProv) := by
  unfold addBundle
  simp only [hb, Bool.false_eq_true, if_false]
  unfold attachBundle
  simp only [defaultBundleId, idFalsy, Bool.false_eq_true, if_false]
  generalize hvn : (h.linkParent d b).validName b (.qn q) = vn at hdup
  have hcd : vn.1.cont d = h.cont d := by rw [← hvn]; unfold validName; rfl
  obtain ⟨h3, vid⟩ := vn
  cases vid with
  | none => exact ⟨h3, rfl⟩
  | some q' =>
    simp only at hcd ⊢
    unfold registerBundle
    simp only []
    have : (bundlesGet ((h3.setCont b { h3.cont b with id := some q' }).cont d).bundles q').isSome = true := by
      rw [cont_setCont_ne h3 b d _ (Ne.symm hne), hcd]
      exact hdup q' rfl
    simp only [this, if_true]
    exact ⟨_, rfl⟩

/-- what a successful attachment does: one new entry in the document's bundle table, the bundle renamed to the resolved
    identifier and linked to the document; records of both untouched -/
theorem attachBundle_ok (h1 : Heap) (d b' : Nat) (idArg : NameArg) (hne : b' ≠ d) (hd : d < h1.conts.size) (hb : b' < h1.conts.size)
    (h' : Heap) (hres : h1.attachBundle d b' idArg = (h', none)) :
    ∃ q, (h'.cont d).bundles = (h1.cont d).bundles ++ [(q, b')] ∧ (h'.cont d).records = (h1.cont d).records ∧
      (h'.cont d).idMap = (h1.cont d).idMap ∧ (bundlesGet (h1.cont d).bundles q).isSome = false ∧
      (h'.cont b').records = (h1.cont b').records ∧ (h'.cont b').id = some q ∧ (h'.cont b').doc = some d ∧
      (∀ c, c ≠ d → c ≠ b' → h'.cont c = h1.cont c) ∧ h'.recs = h1.recs ∧ h'.conts.size = h1.conts.size := by
  unfold attachBundle at hres
  split at hres
  · simp at hres
  · have hv : ∀ x, ((h1.linkParent d b').validName b' x).1.conts = h1.conts := fun x => by unfold validName; rfl
    have hvr : ∀ x, ((h1.linkParent d b').validName b' x).1.recs = h1.recs := fun x => by unfold validName; rfl
    generalize hvn : (h1.linkParent d b').validName b' (h1.defaultBundleId b' idArg) = vn at hres
    have hv' := hv (h1.defaultBundleId b' idArg)
    have hvr' := hvr (h1.defaultBundleId b' idArg)
    rw [hvn] at hv' hvr'
    obtain ⟨h3, vid⟩ := vn
    simp only at hv' hvr'
    have hc3 : ∀ c, h3.cont c = h1.cont c := fun c => by simp [cont, hv']
    cases vid with
    | none => simp at hres
    | some q =>
      simp only at hres
      unfold registerBundle at hres
      simp only [] at hres
      split at hres
      · simp at hres
      · next hnot =>
        simp only [Prod.mk.injEq, and_true] at hres
        have hb3 : b' < h3.conts.size := by rw [hv']; exact hb
        have hd3 : d < h3.conts.size := by rw [hv']; exact hd
        have e4d : (h3.setCont b' { h3.cont b' with id := some q }).cont d = h1.cont d := by
          rw [cont_setCont_ne h3 b' d _ (Ne.symm hne), hc3]
        have e4b : (h3.setCont b' { h3.cont b' with id := some q }).cont b' = { h1.cont b' with id := some q } := by
          rw [cont_setCont_self h3 b' _ hb3, hc3]
        rw [e4d] at hres hnot
        refine ⟨q, ?_, ?_, ?_, by simpa using hnot, ?_, ?_, ?_, ?_, ?_, ?_⟩
        all_goals rw [← hres]
        · rw [cont_setCont_ne _ b' d _ (Ne.symm hne), cont_setCont_self _ d _ (by simpa [setCont] using hd3)]
        · rw [cont_setCont_ne _ b' d _ (Ne.symm hne), cont_setCont_self _ d _ (by simpa [setCont] using hd3)]
        · rw [cont_setCont_ne _ b' d _ (Ne.symm hne), cont_setCont_self _ d _ (by simpa [setCont] using hd3)]
        · rw [cont_setCont_self _ b' _ (by simpa [setCont] using hb3), cont_setCont_ne _ d b' _ hne, e4b]
        · rw [cont_setCont_self _ b' _ (by simpa [setCont] using hb3), cont_setCont_ne _ d b' _ hne, e4b]
        · rw [cont_setCont_self _ b' _ (by simpa [setCont] using hb3)]
        · intro c hcd hcb
          rw [cont_setCont_ne _ b' c _ hcb, cont_setCont_ne _ d c _ hcd, cont_setCont_ne _ b' c _ hcb, hc3]
        · simp [setCont, hvr']
        · simp [setCont, hv']

/-- the identifier a successfully attached bundle ends up with is what `valid_qualified_name` made, in the bundle's own
    scope linked to the document, of the identifier asked for -/
theorem attachBundle_ok_id (h1 : Heap) (d b' : Nat) (idArg : NameArg) (hne : b' ≠ d) (hb : b' < h1.conts.size)
    (h' : Heap) (hres : h1.attachBundle d b' idArg = (h', none)) :
    ∃ q, ((h1.linkParent d b').validName b' (h1.defaultBundleId b' idArg)).2 = some q ∧ (h'.cont b').id = some q := by
  unfold attachBundle at hres
  split at hres
  · simp at hres
  · have hv : ∀ x, ((h1.linkParent d b').validName b' x).1.conts = h1.conts := fun x => by unfold validName; rfl
    generalize hvn : (h1.linkParent d b').validName b' (h1.defaultBundleId b' idArg) = vn at hres
    have hv' := hv (h1.defaultBundleId b' idArg)
    rw [hvn] at hv'
    obtain ⟨h3, vid⟩ := vn
    simp only at hv'
    cases vid with
    | none => simp at hres
    | some q =>
      simp only at hres
      refine ⟨q, rfl, ?_⟩
      unfold registerBundle at hres
      simp only [] at hres
      split at hres
      · simp at hres
      · simp only [Prod.mk.injEq, and_true] at hres
        have hb3 : b' < h3.conts.size := by rw [hv']; exact hb
        rw [← hres]
        rw [cont_setCont_self _ b' _ (by simpa [setCont] using hb3), cont_setCont_ne _ d b' _ hne,
          cont_setCont_self h3 b' _ hb3]

/-- **`add_bundle` of a stand-alone bundle**: on success the bundle itself, with all its records, is what the document now
    lists under the resolved identifier, which the document did not use before; the document's own records are untouched -/
theorem c09_addBundle_attaches_bundle (h : Heap) (d b : Nat) (idArg : NameArg) (nsOrder : List Ns)
    (hd : d < h.conts.size) (hbr : b < h.conts.size) (hdoc : (h.cont d).isDoc = true) (hb : (h.cont b).isDoc = false)
    (h' : Heap) (hres : h.addBundle d b idArg nsOrder = (h', none)) :
    ∃ q, (h'.cont d).bundles = (h.cont d).bundles ++ [(q, b)] ∧ (h'.cont d).records = (h.cont d).records ∧
      (bundlesGet (h.cont d).bundles q).isSome = false ∧
      (h'.cont b).records = (h.cont b).records ∧ (h'.cont b).id = some q ∧ h'.recs = h.recs := by
  unfold addBundle at hres
  simp only [hb, Bool.false_eq_true, if_false] at hres
  have hne : b ≠ d := fun e => by rw [e] at hb; rw [hdoc] at hb; cases hb
  obtain ⟨q, a1, a2, _, a4, a5, a6, _, _, a9, _⟩ := attachBundle_ok h d b idArg hne hd hbr h' hres
  exact ⟨q, a1, a2, a4, a5, a6, a9⟩

theorem allInv1_allocCont' (h : Heap) (hn : AllInv1 h) (isDoc : Bool) (id : Option QName) (nss : List Ns) (doc : Option Nat) :
    AllInv1 (h.allocCont isDoc id nss doc).1 := by
  intro i
  simp only [Heap.allocCont, Heap.allocMgr, Heap.mgrCell, Array.getD_eq_getD_getElem?, Array.getElem?_push]
  split
  · simpa using C05.addNss_inv1 _ NsMgr.init_inv1 nss
  · have := hn i
    simpa [Heap.mgrCell, Array.getD_eq_getD_getElem?] using this

/-- **`add_bundle` of a bundle-free document**: on success the document lists, under the resolved identifier (not used
    before), a fresh bundle that holds one `==` copy of every record of the added document, in order; the receiving
    document's own records and every record that existed are untouched -/
theorem c09_addBundle_attaches_document (h : Heap) (d b : Nat) (idArg : NameArg) (nsOrder : List Ns)
    (hd : d < h.conts.size) (hn : AllInv1 h) (hb : (h.cont b).isDoc = true) (hbs : (h.cont b).bundles.isEmpty = true)
    (hsrc : ∀ r ∈ (h.cont b).records, r < h.recs.size ∧ StoredRec (h.recCell r).r)
    (h' : Heap) (hres : h.addBundle d b idArg nsOrder = (h', none)) :
    ∃ q news, (h'.cont d).bundles = (h.cont d).bundles ++ [(q, h.conts.size)] ∧ (h'.cont d).records = (h.cont d).records ∧
      (bundlesGet (h.cont d).bundles q).isSome = false ∧
      (h'.cont h.conts.size).records = news ∧ (h'.cont h.conts.size).id = some q ∧ news.length = (h.cont b).records.length ∧
      (∀ p ∈ (h.cont b).records.zip news, recEq (h.recCell p.1).r (h'.recCell p.2).r = true) ∧
      (∀ r, r < h.recs.size → h'.recCell r = h.recCell r) := by
  unfold addBundle at hres
  simp only [hb, if_true, hbs, Bool.not_true, Bool.false_eq_true, if_false] at hres
  obtain ⟨a1, _, a3, _, a5⟩ := allocCont_fresh h false none nsOrder none
  have hn1 := allInv1_allocCont' h hn false none nsOrder none
  generalize hal : h.allocCont false none nsOrder none = al at hres a1 a3 a5 hn1
  obtain ⟨h1, nb⟩ := al
  simp only at hres a1 a3 a5 hn1
  have hsz1 : h1.conts.size = h.conts.size + 1 := by
    have := congrArg (fun p => p.1.conts.size) hal
    simp only [allocCont, allocMgr, Array.size_push] at this
    exact this.symm
  have hrecs1 : ∀ r, h1.recCell r = h.recCell r := fun r => by simp [recCell, a5]
  have hempty : (h1.cont nb).records = [] := by
    have := congrArg (fun p => (p.1.cont p.2).records) hal
    simp only at this
    rw [← this]
    simp [allocCont, allocMgr, cont, Array.getD_eq_getD_getElem?]
  obtain ⟨h2, news, f1, f2, flen, f3, f4, f5, f6, _, _⟩ := c09_addRecords_heap nb (h.cont b).records h1
    (by rw [hsz1, a1]; exact Nat.lt_succ_self _) hn1
    (fun r hr => by
      obtain ⟨b1, b2⟩ := hsrc r hr
      exact ⟨by rw [a5]; exact b1, by rw [hrecs1]; exact b2⟩)
  rw [f1] at hres
  simp only at hres
  have hne : nb ≠ d := by rw [a1]; exact Nat.ne_of_gt hd
  obtain ⟨q, c1, c2, _, c4, c5, c6, _, _, c9, _⟩ := attachBundle_ok h2 d nb idArg hne (by rw [f6, hsz1]; omega)
    (by rw [f6, hsz1, a1]; exact Nat.lt_succ_self _) h' hres
  have hd2 : h2.cont d = h.cont d := by rw [f5 d (Ne.symm hne), a3 d hd]
  subst a1
  refine ⟨q, news, by rw [c1, hd2], by rw [c2, hd2], by rw [← hd2]; exact c4, by rw [c5, f2, hempty]; simp, c6, flen, ?_, ?_⟩
  · intro p hp
    have := (f3 p hp).1
    rw [hrecs1] at this
    simp only [recCell, c9] at this ⊢
    exact this
  · intro r hr
    have := f4 r (by rw [a5]; exact hr)
    rw [hrecs1] at this
    simp only [recCell, c9] at this ⊢
    exact this

end Prov.C09

/-
  C08, `ProvDocument.unified()`, the bundles: the loop over the source's bundles — `unified()` of each into a fresh
  container, `add_bundle` of the result to the new document — ends, when it succeeds, with the new document listing one
  bundle per source bundle, in order, each under an identifier with the URI of the source bundle's identifier, and each
  holding exactly what `ProvBundle.unified()` makes of that source bundle (`c08_unifiedBundle_content`): `==` copies, in
  order, of its records with every group of same-identifier, same-kind records replaced by one record holding exactly the
  union of the group's pairs. Nothing written later in the loop changes an earlier result.
-/
import Prov.Props.C08G

namespace Prov.C08
open Prov Prov.Heap Prov.C05 Prov.C04 Prov.C09 Prov.C13

/-- container `ub` of `h'` is what `ProvBundle.unified()` makes of container `b` of `h` -/
def UnifiedOf (h : Heap) (b : Nat) (h' : Heap) (ub : Nat) : Prop :=
  ∃ h1 mp, GoodMap h h1 (groupsOf h b) mp ∧
    (∀ r, r < h.recs.size → h1.recCell r = h.recCell r) ∧
    (∀ r, r < h1.recs.size → h'.recCell r = h1.recCell r) ∧ h1.recs.size ≤ h'.recs.size ∧
    (h'.cont ub).records.length = (placeMerged mp (h.cont b).records).length ∧
    ∀ p ∈ (placeMerged mp (h.cont b).records).zip (h'.cont ub).records, recEq (h1.recCell p.1).r (h'.recCell p.2).r = true

theorem validName_qn_uri (m : NsMgr) (hm : m.Inv1) (par : Option NsMgr) (q : QName) :
    ∃ q', (m.validName par (.qn q)).2 = some q' ∧ q'.uri = q.uri :=
  ⟨(m.validQ q).2, rfl, NsMgr.validQ_uri hm q⟩

theorem frameB_weaken {nc nr nc' nr' : Nat} {h h' : Heap} (f : FrameB nc nr h h') (hc : nc' ≤ nc) (hr : nr' ≤ nr) :
    FrameB nc' nr' h h' :=
  ⟨fun c h1 => f.conts c (Nat.lt_of_lt_of_le h1 hc), fun r h1 => f.recs r (Nat.lt_of_lt_of_le h1 hr), f.csize, f.rsize⟩

theorem cont_id_newRecord (h : Heap) (c c' : Nat) (k : RecKind) (idArg : NameArg) (attrs : List AttrArg) :
    ((h.newRecord c k idArg attrs).1.cont c').id = (h.cont c').id := by
  by_cases hne : c' = c
  · subst hne
    unfold newRecord
    simp only [validName]
    have hc := conts_mkRecord (h.setMgr c' ((h.mgrOf c').validName (h.parentOf c') idArg).1) c' k
      ((h.mgrOf c').validName (h.parentOf c') idArg).2 attrs
    generalize (h.setMgr c' ((h.mgrOf c').validName (h.parentOf c') idArg).1).mkRecord c' k
      ((h.mgrOf c').validName (h.parentOf c') idArg).2 attrs = res at hc
    obtain ⟨h2, e⟩ := res
    have hcont : h2.cont c' = h.cont c' := by
      simp only at hc
      simp only [cont, hc, conts_setMgr]
    cases e with
    | error err => simp only []; rw [hcont]
    | ok r =>
      simp only []
      by_cases hlt : c' < h2.conts.size
      · simp only [addRecordRaw]
        rw [cont_setCont_self _ _ _ hlt, hcont]
      · have : h2.addRecordRaw c' r = h2 := by
          simp only [addRecordRaw, setCont]
          rw [Array.setIfInBounds_eq_of_size_le (by omega)]
        rw [this, hcont]
  · rw [cont_newRecord_ne h c c' k idArg attrs hne]

theorem cont_id_addRecords (t c' : Nat) : ∀ (rs : List Nat) (h : Heap),
    ((h.addRecords t rs).1.cont c').id = (h.cont c').id
  | [], _ => rfl
  | r :: rest, h => by
    unfold Heap.addRecords
    simp only [Heap.addRecord]
    have s1 := cont_id_newRecord h t c' (h.recCell r).r.kind (recreateArgs (h.recCell r).r).1 (recreateArgs (h.recCell r).r).2
    generalize h.newRecord t (h.recCell r).r.kind (recreateArgs (h.recCell r).r).1 (recreateArgs (h.recCell r).r).2 = res at s1
    obtain ⟨h1, e⟩ := res
    cases e with
    | error err => exact s1
    | ok nr => exact (cont_id_addRecords t c' rest h1).trans s1

/-- the bundle `unified()` returns carries the identifier of its source -/
theorem unifiedBundle_id (h : Heap) (c : Nat) (hc : c < h.conts.size) (h' : Heap) (ub : Nat)
    (hres : h.unifiedBundle c = (h', .ok ub)) : (h'.cont ub).id = (h.cont c).id := by
  unfold unifiedBundle at hres
  have s1 := frameB_unifiedRecords h.conts.size 0 h c (Nat.le_refl _) (Nat.zero_le _)
  generalize h.unifiedRecords c = res at hres s1
  obtain ⟨h1, e⟩ := res
  cases e with
  | error err => simp at hres
  | ok rs =>
    simp only at hres s1
    have hd : ((h1.allocCont false (h1.cont c).id [] none).1.cont (h1.allocCont false (h1.cont c).id [] none).2).id = (h1.cont c).id := by
      simp [allocCont, allocMgr, cont, Array.getD_eq_getD_getElem?]
    generalize h1.allocCont false (h1.cont c).id [] none = al at hres hd
    obtain ⟨h2, nb⟩ := al
    simp only at hres hd
    have s3 := cont_id_addRecords nb nb rs h2
    generalize h2.addRecords nb rs = res3 at hres s3
    obtain ⟨h3, e3⟩ := res3
    cases e3 with
    | some err => simp at hres
    | none =>
      simp only [Prod.mk.injEq, Except.ok.injEq] at hres
      obtain ⟨rfl, rfl⟩ := hres
      rw [s3, hd, s1.conts c hc]

/-- two lists of the same length whose members are related position by position -/
inductive Paired {α β : Type} (R : α → β → Prop) : List α → List β → Prop
  | nil : Paired R [] []
  | cons {a : α} {b : β} {l1 : List α} {l2 : List β} : R a b → Paired R l1 l2 → Paired R (a :: l1) (b :: l2)

theorem paired_imp_mem {α β : Type} {R S : α → β → Prop} : ∀ {l1 : List α} {l2 : List β}, Paired R l1 l2 →
    (∀ a b, a ∈ l1 → R a b → S a b) → Paired S l1 l2
  | _, _, .nil, _ => .nil
  | _, _, .cons hab t, f => .cons (f _ _ List.mem_cons_self hab) (paired_imp_mem t (fun a b ha => f a b (List.mem_cons_of_mem _ ha)))

theorem paired_length {α β : Type} {R : α → β → Prop} : ∀ {l1 : List α} {l2 : List β}, Paired R l1 l2 → l1.length = l2.length
  | _, _, .nil => rfl
  | _, _, .cons _ t => by simp [paired_length t]

/-- the loop leaves every container that existed, other than the new document, alone -/
theorem unifiedGo_others (nd : Nat) : ∀ (bs : List (QName × Nat)) (h h' : Heap), nd < h.conts.size →
    unifiedInto.go nd h bs = (h', none) → ∀ c, c < h.conts.size → c ≠ nd → h'.cont c = h.cont c
  | [], h, h', _, hres => by
    simp only [unifiedInto.go, Prod.mk.injEq, and_true] at hres
    subst hres
    exact fun _ _ _ => rfl
  | (_, b) :: rest, h, h', hnd, hres => by
    unfold unifiedInto.go at hres
    obtain ⟨s1, _⟩ := frameB_unifiedBundle h.conts.size 0 h b (Nat.le_refl _) (Nat.zero_le _)
    cases hub : h.unifiedBundle b with
    | mk h1 e =>
      rw [hub] at hres s1
      cases e with
      | error err => simp at hres
      | ok ub =>
        simp only at hres s1
        obtain ⟨u1, u2, u3⟩ := unifiedBundle_result h b h1 ub hub
        cases hab : h1.addBundle nd ub .nil [] with
        | mk h2 e2 =>
          rw [hab] at hres
          cases e2 with
          | some err => simp at hres
          | none =>
            simp only at hres
            have hne : ub ≠ nd := by omega
            have hnd1 : nd < h1.conts.size := by omega
            unfold addBundle at hab
            simp only [u1, Bool.false_eq_true, if_false] at hab
            obtain ⟨q, _, _, _, _, _, _, _, c8, _, c10⟩ := attachBundle_ok h1 nd ub .nil hne hnd1 u3 h2 hab
            have ih := unifiedGo_others nd rest h2 h' (by rw [c10]; exact hnd1) hres
            intro c hc hcn
            rw [ih c (by rw [c10]; exact Nat.lt_of_lt_of_le hc s1.csize) hcn, c8 c hcn (by omega), s1.conts c hc]

/-- one round of the loop, spelled out -/
theorem unifiedGo_step (nd : Nat) (h : Heap) (g : Good2 h) (hnd : nd < h.conts.size) (b : Nat) (hb : b < nd)
    (h1 : Heap) (ub : Nat) (hub : h.unifiedBundle b = (h1, .ok ub)) (h2 : Heap) (hab : h1.addBundle nd ub .nil [] = (h2, none)) :
    ∃ q, (h2.cont nd).bundles = (h.cont nd).bundles ++ [(q, ub)] ∧
      (∀ idb, (h.cont b).id = some idb → q.uri = idb.uri) ∧
      h.conts.size ≤ ub ∧ ub < h2.conts.size ∧ ub ≠ nd ∧
      UnifiedOf h b h2 ub ∧ Good2 h2 ∧ FrameB nd h.recs.size h h2 ∧
      (∀ c, c < h.conts.size → c ≠ nd → h2.cont c = h.cont c) ∧ h1.recs.size = h2.recs.size ∧
      (∀ r ∈ (h2.cont ub).records, r < h2.recs.size) := by
  obtain ⟨u1, u2, u3⟩ := unifiedBundle_result h b h1 ub hub
  have g1 : Good2 h1 := by have := good2_unifiedBundle g b; rw [hub] at this; exact this
  have g2 : Good2 h2 := by have := good2_addBundle g1 nd ub .nil []; rw [hab] at this; exact this
  obtain ⟨f1, _⟩ := frameB_unifiedBundle h.conts.size h.recs.size h b (Nat.le_refl _) (Nat.le_refl _)
  rw [hub] at f1
  simp only at f1
  have hne : ub ≠ nd := by omega
  have hnd1 : nd < h1.conts.size := Nat.lt_of_lt_of_le hnd f1.csize
  have f2 := frameB_addBundle nd h.recs.size h1 nd ub .nil [] (Nat.le_refl _) (by omega) (by omega) f1.rsize
  rw [hab] at f2
  simp only at f2
  have hidub := unifiedBundle_id h b (by omega) h1 ub hub
  unfold addBundle at hab
  simp only [u1, Bool.false_eq_true, if_false] at hab
  obtain ⟨q, c1, _, _, _, c5, c6, _, c8, c9, c10⟩ := attachBundle_ok h1 nd ub .nil hne hnd1 u3 h2 hab
  obtain ⟨q', d1, d2⟩ := attachBundle_ok_id h1 nd ub .nil hne u3 h2 hab
  have hqq : q' = q := by rw [c6] at d2; cases d2; rfl
  subst hqq
  obtain ⟨hA, mp, news, m1, m2, m3, m4, m5, m6, m7, m8, _⟩ := c08_unifiedBundle_content h b g.good h1 ub hub
  have hr2 : ∀ r, h2.recCell r = h1.recCell r := fun r => by simp [recCell, c9]
  refine ⟨q', ?_, ?_, u2, by rw [c10]; exact u3, hne, ?_, g2, ?_, ?_, by rw [c9], ?_⟩
  · rw [c1, f1.conts nd hnd]
  · intro idb hid
    rw [← hidub] at hid
    -- the identifier asked for is the bundle's own; it is resolved in a manager that satisfies the C03 invariant
    have hdef : h1.defaultBundleId ub .nil = .qn idb := by simp [defaultBundleId, hid]
    rw [hdef] at d1
    unfold Heap.validName at d1
    simp only at d1
    obtain ⟨q2, e1, e2⟩ := validName_qn_uri ((h1.linkParent nd ub).mgrOf ub) ((good2_linkParent g1 nd ub).good.normal.1 _)
      ((h1.linkParent nd ub).parentOf ub) idb
    rw [e1] at d1
    cases d1
    exact e2
  · refine ⟨hA, mp, m1, m2, fun r hr => by rw [hr2]; exact m7 r hr, by rw [c9]; exact m8, ?_, ?_⟩
    · rw [c5, m4]; exact m5
    · intro p hp
      rw [c5, m4] at hp
      rw [hr2]
      exact m6 p hp
  · exact frameB_trans (frameB_weaken f1 (Nat.le_of_lt hnd) (Nat.le_refl _)) f2
  · intro c hc hcn
    rw [c8 c hcn (by omega), f1.conts c hc]
  · intro r hr
    exact g2.good.wf.inRange ub r hr

/-- **the bundles of `ProvDocument.unified()`**: when the loop over the source bundles `bs` succeeds, the new document `nd`
    lists, after what it listed before, one bundle per source bundle, in order; each is registered under an identifier with the
    URI of the source bundle's identifier and is what `ProvBundle.unified()` makes of that source bundle, taken in a heap that
    differs from the initial one only by cells allocated since (`FrameB`) -/
theorem unifiedGo_chain (nd : Nat) : ∀ (bs : List (QName × Nat)) (h h' : Heap), Good2 h → nd < h.conts.size →
    (∀ p ∈ bs, p.2 < nd) → unifiedInto.go nd h bs = (h', none) →
    ∃ entries : List (QName × Nat), (h'.cont nd).bundles = (h.cont nd).bundles ++ entries ∧
      Paired (fun (src e : QName × Nat) =>
        (∀ idb, (h.cont src.2).id = some idb → e.1.uri = idb.uri) ∧
        ∃ hi, FrameB nd h.recs.size h hi ∧ UnifiedOf hi src.2 h' e.2) bs entries
  | [], h, h', _, _, _, hres => by
    simp only [unifiedInto.go, Prod.mk.injEq, and_true] at hres
    subst hres
    exact ⟨[], by simp, Paired.nil⟩
  | (qs, b) :: rest, h, h', g, hnd, hbs, hres => by
    unfold unifiedInto.go at hres
    cases hub : h.unifiedBundle b with
    | mk h1 e =>
      rw [hub] at hres
      cases e with
      | error err => simp at hres
      | ok ub =>
        simp only at hres
        cases hab : h1.addBundle nd ub .nil [] with
        | mk h2 e2 =>
          rw [hab] at hres
          cases e2 with
          | some err => simp at hres
          | none =>
            simp only at hres
            obtain ⟨q, s1, s2, s3, s4, s5, s6, g2, f2, o2, _, w2⟩ :=
              unifiedGo_step nd h g hnd b (hbs (qs, b) List.mem_cons_self) h1 ub hub h2 hab
            have hnd2 : nd < h2.conts.size := Nat.lt_of_lt_of_le hnd f2.csize
            obtain ⟨entries, t1, t2⟩ := unifiedGo_chain nd rest h2 h' g2 hnd2 (fun p hp => hbs p (List.mem_cons_of_mem _ hp)) hres
            obtain ⟨_, k2, k3⟩ := unifiedGo_keeps nd rest h2 h' hnd2 hres
            -- later rounds leave the container `ub` alone
            have hub' : h'.cont ub = h2.cont ub := unifiedGo_others nd rest h2 h' hnd2 hres ub s4 s5
            refine ⟨(q, ub) :: entries, by rw [t1, s1, List.append_assoc]; rfl, Paired.cons ⟨s2, h, frameB_refl _ _ _, ?_⟩ ?_⟩
            · obtain ⟨hA, mp, m1, m2, m3, m3s, m4, m5⟩ := s6
              refine ⟨hA, mp, m1, m2, fun r hr => by rw [k2 r (Nat.lt_of_lt_of_le hr m3s)]; exact m3 r hr,
                Nat.le_trans m3s k3, by rw [hub']; exact m4, ?_⟩
              intro p hp
              rw [hub'] at hp
              have hp2 : p.2 < h2.recs.size := w2 p.2 (List.of_mem_zip hp).2
              rw [k2 p.2 hp2]
              exact m5 p hp
            · refine paired_imp_mem t2 ?_
              intro src e hmem ⟨a1, hi, a2, a3⟩
              have hsrc : src.2 < nd := hbs src (List.mem_cons_of_mem _ hmem)
              exact ⟨fun idb hid => a1 idb (by rw [f2.conts src.2 hsrc]; exact hid), hi,
                frameB_trans f2 (frameB_weaken a2 (Nat.le_refl _) f2.rsize), a3⟩

/-- **`ProvDocument.unified()`, the bundles of the result**: in a heap with the reachable invariants, for a document `d`
    whose bundle table refers to existing containers, a successful `unified()` returns a new document that lists exactly one
    bundle per bundle of `d`, in order, each under an identifier with the URI of the source bundle's identifier, each holding
    what `ProvBundle.unified()` makes of that source bundle (its records in order, every group of same-identifier, same-kind
    records replaced at the place of its first member by one record holding exactly the union of the group: `UnifiedOf`,
    `GoodMap`), taken in a heap that differs from the original one only by cells allocated since -/
theorem c08_unifiedDoc_bundles (h : Heap) (d : Nat) (g : Good2 h) (hd : d < h.conts.size)
    (hbs : ∀ p ∈ (h.cont d).bundles, p.2 < h.conts.size) (h' : Heap) (nd : Nat)
    (hres : h.unifiedDoc d = (h', .ok nd)) :
    ∃ entries : List (QName × Nat), (h'.cont nd).bundles = entries ∧
      Paired (fun (src e : QName × Nat) =>
        (∀ idb, (h.cont src.2).id = some idb → e.1.uri = idb.uri) ∧
        ∃ hi, FrameB h.conts.size h.recs.size h hi ∧ UnifiedOf hi src.2 h' e.2) (h.cont d).bundles entries := by
  unfold unifiedDoc at hres
  simp only [] at hres
  have g1 := good2_allocCont g true none (h.mgrOf d).reg.values none
  obtain ⟨f1, a1, hsz1⟩ := frameB_allocCont h.conts.size h.recs.size h true none (h.mgrOf d).reg.values none (Nat.le_refl _)
  have hempty : ((h.allocCont true none (h.mgrOf d).reg.values none).1.cont (h.allocCont true none (h.mgrOf d).reg.values none).2).bundles = [] := by
    simp [allocCont, allocMgr, cont, Array.getD_eq_getD_getElem?]
  generalize h.allocCont true none (h.mgrOf d).reg.values none = al at hres g1 f1 a1 hsz1 hempty
  obtain ⟨h1, n1⟩ := al
  simp only at hres g1 f1 a1 hsz1 hempty
  subst a1
  have g2 := good2_copyDefault g1 h.conts.size (h.mgrOf d).dflt
  have f2 : FrameB h.conts.size h.recs.size h1 (h1.copyDefault h.conts.size (h.mgrOf d).dflt) := by
    unfold copyDefault
    split
    · exact frameB_setMgr _ _ h1 _ _
    · exact frameB_refl _ _ h1
  have hc2 : ∀ c, (h1.copyDefault h.conts.size (h.mgrOf d).dflt).cont c = h1.cont c := fun c => by
    unfold copyDefault; cases (h.mgrOf d).dflt <;> rfl
  have hs2 : (h1.copyDefault h.conts.size (h.mgrOf d).dflt).conts.size = h1.conts.size := by
    unfold copyDefault; cases (h.mgrOf d).dflt <;> rfl
  generalize h1.copyDefault h.conts.size (h.mgrOf d).dflt = h2 at hres g2 f2 hc2 hs2
  have f12 := frameB_trans f1 f2
  unfold unifiedInto at hres
  have g3 := good2_unifiedRecords g2 d
  have f3 := frameB_unifiedRecords (h.conts.size + 1) h.recs.size h2 d (by rw [hs2, hsz1]; exact Nat.le_refl _) f12.rsize
  cases hur : h2.unifiedRecords d with
  | mk h3 e =>
    rw [hur] at hres g3 f3
    simp only at g3 f3
    cases e with
    | error err => simp at hres
    | ok rs =>
      simp only at hres
      have g4 := good2_addRecords h.conts.size rs h3 g3
      have f4 := frameB_addRecords h.conts.size h.recs.size h.conts.size (Nat.le_refl _) rs h3 (Nat.le_trans f12.rsize f3.rsize)
      have b4 := cont_bundles_addRecords h.conts.size h.conts.size rs h3
      cases har : h3.addRecords h.conts.size rs with
      | mk h4 e4 =>
        rw [har] at hres g4 f4 b4
        simp only at g4 f4 b4
        cases e4 with
        | some err => simp at hres
        | none =>
          simp only at hres
          have f14 : FrameB h.conts.size h.recs.size h h4 :=
            frameB_trans f12 (frameB_trans (frameB_weaken f3 (Nat.le_succ _) (Nat.le_refl _)) f4)
          have hnd4 : h.conts.size < h4.conts.size := by
            have := f4.csize; have := f3.csize; omega
          have hbun : (h4.cont d).bundles = (h.cont d).bundles := by rw [f14.conts d hd]
          have hnb : (h4.cont h.conts.size).bundles = [] := by
            rw [b4, f3.conts h.conts.size (Nat.lt_succ_self _), hc2]; exact hempty
          cases hgo : unifiedInto.go h.conts.size h4 (h4.cont d).bundles with
          | mk h5 e5 =>
            rw [hgo] at hres
            cases e5 with
            | some err => simp at hres
            | none =>
              simp only [Prod.mk.injEq, Except.ok.injEq] at hres
              obtain ⟨rfl, rfl⟩ := hres
              obtain ⟨entries, t1, t2⟩ := unifiedGo_chain h.conts.size (h4.cont d).bundles h4 h5 g4 hnd4
                (fun p hp => hbs p (by rw [← hbun]; exact hp)) hgo
              refine ⟨entries, by rw [t1, hnb]; rfl, ?_⟩
              rw [← hbun]
              refine paired_imp_mem t2 ?_
              intro src e hmem ⟨a1, hi, a2, a3⟩
              have hsrc : src.2 < h.conts.size := hbs src (by rw [← hbun]; exact hmem)
              exact ⟨fun idb hid => a1 idb (by rw [f14.conts src.2 hsrc]; exact hid), hi,
                frameB_trans f14 (frameB_weaken a2 (Nat.le_refl _) f14.rsize), a3⟩

/-- non-vacuity: a reachable document with a bundle that states one identifier twice; `unified()` succeeds and the result
    lists one bundle holding one (merged) record -/
def opsBundleDup : List HOp :=
  [.newDoc [⟨"ex", "http://example.org/"⟩],
   .bundle 0 (.str "ex:b"),
   .newRecord 1 .entity (.str "ex:e") [⟨.str "ex:p", .val (.int 1), none⟩],
   .newRecord 1 .entity (.str "ex:e") [⟨.str "ex:q", .val (.str "two"), none⟩],
   .newRecord 0 .agent (.str "ex:ag") []]

example : let h := opsBundleDup.foldl hstep Heap.empty
    (∃ h' nd, h.unifiedDoc 0 = (h', .ok nd) ∧ (h'.cont nd).bundles.map (fun p => (p.1.uri, (h'.cont p.2).records.length)) =
      [("http://example.org/b", 1)]) ∧
    0 < h.conts.size ∧ (∀ p ∈ (h.cont 0).bundles, p.2 < h.conts.size) ∧ NoMem h := by
  refine ⟨⟨_, _, rfl, by decide⟩, by decide, by decide, ?_⟩
  intro r
  by_cases hr : r < 3
  · have : r = 0 ∨ r = 1 ∨ r = 2 := by omega
    rcases this with rfl | rfl | rfl <;> decide
  · have : (opsBundleDup.foldl hstep Heap.empty).recs.size = 3 := by decide
    have hnone : (opsBundleDup.foldl hstep Heap.empty).recs[r]? = none := Array.getElem?_eq_none (by omega)
    simp [recCell, Array.getD_eq_getD_getElem?, hnone]
    decide

end Prov.C08

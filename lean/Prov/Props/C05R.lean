/-
  C05 on every reachable state (`Reach`, `Props/C08I`): the normal form — PROV formal attributes single-valued, reference
  attributes holding qualified names, time attributes holding date-times — is kept not only by construction and attribute
  additions (`Props/C05B`) but through `add_record`, `update`, `add_bundle`, `flattened()` and `unified()`: every record of
  every document these return, and of every document built on from there, is in normal form.
-/
import Prov.Props.C08I

namespace Prov.C05
open Prov Prov.Heap Prov.C08

/-- **every record of every reachable state is in normal form** -/
theorem c05_reach_normal {h : Heap} (hr : Reach h) (r : Nat) : Normal (h.recCell r).r :=
  (reach_good2 hr).good.normal.2 r

/-- … and every namespace manager satisfies the C03 invariant -/
theorem c05_reach_mgrs {h : Heap} (hr : Reach h) (i : Nat) : (h.mgrCell i).m.Inv1 :=
  (reach_good2 hr).good.normal.1 i

end Prov.C05

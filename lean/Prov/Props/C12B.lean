/-
  C12 for the deriving operations themselves: the document returned by `flattened()` / `unified()` has a manager cell of
  its own (allocated by the call, never shared afterwards), so every later sequence of mutations on the result leaves every
  container that existed before — cell, manager cell, record cells — exactly as it was, and vice versa.
-/
import Prov.Props.C12
import Prov.Props.C13B

namespace Prov.C12
open Prov Prov.Heap Prov.C13

/-- the manager reference of every existing container is kept, and containers are only added -/
structure StableMgr (h h' : Heap) : Prop where
  size : h.conts.size ≤ h'.conts.size
  mgr : ∀ c, c < h.conts.size → (h'.cont c).mgr = (h.cont c).mgr

theorem stableMgr_refl (h : Heap) : StableMgr h h := ⟨Nat.le_refl _, fun _ _ => rfl⟩

theorem stableMgr_trans {h1 h2 h3 : Heap} (a : StableMgr h1 h2) (b : StableMgr h2 h3) : StableMgr h1 h3 :=
  ⟨Nat.le_trans a.size b.size, fun c hc => (b.mgr c (Nat.lt_of_lt_of_le hc a.size)).trans (a.mgr c hc)⟩

theorem stableMgr_of_conts {h h' : Heap} (e : h'.conts = h.conts) : StableMgr h h' :=
  ⟨by rw [e]; exact Nat.le_refl _, fun c _ => by simp [cont, e]⟩

theorem stableMgr_newRecord (h : Heap) (t : Nat) (k : RecKind) (idArg : NameArg) (attrs : List AttrArg) :
    StableMgr h (h.newRecord t k idArg attrs).1 :=
  ⟨by rw [conts_size_newRecord]; exact Nat.le_refl _, fun c _ => cont_mgr_newRecord h t c k idArg attrs⟩

theorem stableMgr_addRecords (t : Nat) : ∀ (rs : List Nat) (h : Heap), StableMgr h (h.addRecords t rs).1
  | [], h => stableMgr_refl h
  | r :: rest, h => by
    unfold Heap.addRecords
    simp only [Heap.addRecord]
    have s1 := stableMgr_newRecord h t (h.recCell r).r.kind (recreateArgs (h.recCell r).r).1 (recreateArgs (h.recCell r).r).2
    generalize h.newRecord t (h.recCell r).r.kind (recreateArgs (h.recCell r).r).1 (recreateArgs (h.recCell r).r).2 = res at s1
    obtain ⟨h1, e⟩ := res
    cases e with
    | error err => exact s1
    | ok nr => exact stableMgr_trans s1 (stableMgr_addRecords t rest h1)

theorem stableMgr_allocCont (h : Heap) (isDoc : Bool) (id : Option QName) (nss : List Ns) (doc : Option Nat) :
    StableMgr h (h.allocCont isDoc id nss doc).1 ∧
      ((h.allocCont isDoc id nss doc).1.cont (h.allocCont isDoc id nss doc).2).mgr = h.mgrs.size ∧
      (h.allocCont isDoc id nss doc).2 = h.conts.size ∧ (h.allocCont isDoc id nss doc).1.conts.size = h.conts.size + 1 ∧
      (h.allocCont isDoc id nss doc).1.mgrs.size = h.mgrs.size + 1 := by
  obtain ⟨a1, a2, a3, _, _⟩ := allocCont_fresh h isDoc id nss doc
  refine ⟨⟨by simp [allocCont, allocMgr], fun c hc => by rw [a3 c hc]⟩, a2, a1, by simp [allocCont, allocMgr], by simp [allocCont, allocMgr]⟩

/-- **`flattened()` returns an independent document**: in a well-formed heap, the fresh document's manager cell differs from
    that of every container that existed, so (by `c12_noninterference`) no sequence of mutations on it changes any of them -/
theorem c12_flattened_independent (h : Heap) (d : Nat) (hb : (h.cont d).bundles.isEmpty = false)
    (hwf : ∀ c, c < h.conts.size → (h.cont c).mgr < h.mgrs.size) (h' : Heap) (nd : Nat)
    (hres : h.flattened d = (h', .ok nd)) (c : Nat) (hc : c < h.conts.size) (ms : List Mut) :
    nd ≠ c ∧ SameView h' (ms.foldl (fun hh m => applyMut hh nd m) h') c := by
  unfold flattened at hres
  simp only [hb, Bool.false_eq_true, if_false, newDoc] at hres
  obtain ⟨s1, hm, hidx, hsz, _⟩ := stableMgr_allocCont h true none [] none
  generalize h.allocCont true none [] none = al at hres s1 hm hidx hsz
  obtain ⟨h1, n1⟩ := al
  simp only at hres s1 hm hidx hsz
  have s2 := stableMgr_addRecords n1 ((h.cont d).records ++ (h.cont d).bundles.flatMap (fun p => (h.cont p.2).records)) h1
  generalize h1.addRecords n1 _ = res at hres s2
  obtain ⟨h2, e⟩ := res
  cases e with
  | some err => simp at hres
  | none =>
    simp only [Prod.mk.injEq, Except.ok.injEq] at hres
    obtain ⟨rfl, rfl⟩ := hres
    have hne : n1 ≠ c := by rw [hidx]; exact Nat.ne_of_gt hc
    have hmn : (h2.cont n1).mgr = h.mgrs.size := by
      rw [s2.mgr n1 (by rw [hsz, hidx]; exact Nat.lt_succ_self _)]; exact hm
    have hmc : (h2.cont c).mgr = (h.cont c).mgr := by
      rw [s2.mgr c (Nat.lt_of_lt_of_le hc s1.size), s1.mgr c hc]
    exact ⟨hne, c12_noninterference h2 n1 c ms (Ne.symm hne) (by rw [hmn, hmc]; exact Nat.ne_of_lt (hwf c hc))⟩

theorem stableMgr_of_frame {h h' : Heap} (f : ∀ nc, nc ≤ h.conts.size → FrameB nc 0 h h') : StableMgr h h' :=
  ⟨(f 0 (Nat.zero_le _)).csize, fun c hc => by rw [(f (c + 1) hc).conts c (Nat.lt_succ_self c)]⟩

theorem stableMgr_unifiedRecords (h : Heap) (c : Nat) : StableMgr h (h.unifiedRecords c).1 :=
  stableMgr_of_frame (fun nc hnc => frameB_unifiedRecords nc 0 h c hnc (Nat.zero_le _))

theorem stableMgr_setCont (h : Heap) (c : Nat) (k : Cont) (hk : k.mgr = (h.cont c).mgr) : StableMgr h (h.setCont c k) := by
  refine ⟨by simp [setCont], fun c' hc' => ?_⟩
  by_cases e : c' = c
  · subst e; rw [cont_setCont_self h c' k hc', hk]
  · rw [cont_setCont_ne h c c' k e]

theorem stableMgr_unifiedBundle (h : Heap) (c : Nat) : StableMgr h (h.unifiedBundle c).1 := by
  unfold unifiedBundle
  have s1 := stableMgr_unifiedRecords h c
  generalize h.unifiedRecords c = res at s1
  obtain ⟨h1, e⟩ := res
  cases e with
  | error err => exact s1
  | ok rs =>
    simp only []
    have s2 := (stableMgr_allocCont h1 false (h1.cont c).id [] none).1
    generalize h1.allocCont false (h1.cont c).id [] none = al at s2
    obtain ⟨h2, nb⟩ := al
    simp only at s2
    have s3 := stableMgr_addRecords nb rs h2
    generalize h2.addRecords nb rs = res3 at s3
    obtain ⟨h3, e3⟩ := res3
    cases e3 <;> exact stableMgr_trans s1 (stableMgr_trans s2 s3)

theorem stableMgr_registerBundle (h3 : Heap) (d b' : Nat) (q : QName) : StableMgr h3 (h3.registerBundle d b' q).1 := by
  unfold registerBundle
  simp only []
  have s4 := stableMgr_setCont h3 b' { h3.cont b' with id := some q } rfl
  split
  · exact s4
  · refine stableMgr_trans s4 (stableMgr_trans (stableMgr_setCont _ d _ ?_) (stableMgr_setCont _ b' _ ?_)) <;> rfl

theorem stableMgr_attachBundle (h1 : Heap) (d b' : Nat) (idArg : NameArg) : StableMgr h1 (h1.attachBundle d b' idArg).1 := by
  unfold attachBundle
  split
  · exact stableMgr_refl h1
  · have s2 : StableMgr h1 (h1.linkParent d b') := stableMgr_of_conts rfl
    have s3 : StableMgr (h1.linkParent d b') ((h1.linkParent d b').validName b' (h1.defaultBundleId b' idArg)).1 := by
      unfold validName; exact stableMgr_of_conts rfl
    generalize (h1.linkParent d b').validName b' (h1.defaultBundleId b' idArg) = vn at s3
    obtain ⟨h3, vid⟩ := vn
    cases vid with
    | none => exact stableMgr_trans s2 s3
    | some q => exact stableMgr_trans s2 (stableMgr_trans s3 (stableMgr_registerBundle h3 d b' q))

theorem stableMgr_addBundle (h : Heap) (d b : Nat) (idArg : NameArg) (nsOrder : List Ns) :
    StableMgr h (h.addBundle d b idArg nsOrder).1 := by
  unfold addBundle
  simp only []
  by_cases hdoc : (h.cont b).isDoc = true
  · simp only [hdoc, if_true]
    by_cases hbs : (!(h.cont b).bundles.isEmpty) = true
    · simp only [hbs, if_true]
      exact stableMgr_refl h
    · simp only [hbs, Bool.false_eq_true, if_false]
      have s2 := (stableMgr_allocCont h false none nsOrder none).1
      generalize h.allocCont false none nsOrder none = al at s2
      obtain ⟨h2, nb⟩ := al
      simp only at s2
      have s3 := stableMgr_addRecords nb (h.cont b).records h2
      generalize h2.addRecords nb (h.cont b).records = res3 at s3
      obtain ⟨h3, e3⟩ := res3
      have s23 := stableMgr_trans s2 s3
      cases e3 with
      | some err => exact s23
      | none => exact stableMgr_trans s23 (stableMgr_attachBundle h3 d nb idArg)
  · simp only [hdoc, Bool.false_eq_true, if_false]
    exact stableMgr_attachBundle h d b idArg

theorem stableMgr_unifiedGo (nd : Nat) : ∀ (bs : List (QName × Nat)) (h : Heap), StableMgr h (unifiedInto.go nd h bs).1
  | [], h => stableMgr_refl h
  | (_, b) :: rest, h => by
    unfold unifiedInto.go
    have s1 := stableMgr_unifiedBundle h b
    generalize h.unifiedBundle b = res at s1
    obtain ⟨h', e⟩ := res
    cases e with
    | error err => exact s1
    | ok ub =>
      simp only []
      have s2 := stableMgr_addBundle h' nd ub .nil []
      generalize h'.addBundle nd ub .nil [] = res2 at s2
      obtain ⟨h'', e2⟩ := res2
      cases e2 with
      | some err => exact stableMgr_trans s1 s2
      | none => exact stableMgr_trans s1 (stableMgr_trans s2 (stableMgr_unifiedGo nd rest h''))

theorem stableMgr_unifiedInto (h2 : Heap) (d nd : Nat) : StableMgr h2 (h2.unifiedInto d nd).1 := by
  unfold unifiedInto
  have s3 := stableMgr_unifiedRecords h2 d
  generalize h2.unifiedRecords d = res at s3
  obtain ⟨h3, e⟩ := res
  cases e with
  | error err => exact s3
  | ok rs =>
    simp only []
    have s4 := stableMgr_addRecords nd rs h3
    generalize h3.addRecords nd rs = res4 at s4
    obtain ⟨h4, e4⟩ := res4
    cases e4 with
    | some err => exact stableMgr_trans s3 s4
    | none =>
      simp only []
      have s34 := stableMgr_trans s3 s4
      have s5 := stableMgr_unifiedGo nd (h4.cont d).bundles h4
      generalize unifiedInto.go nd h4 (h4.cont d).bundles = res5 at s5
      obtain ⟨h5, e5⟩ := res5
      cases e5 <;> exact stableMgr_trans s34 s5

/-- **`unified()` returns an independent document**: its manager cell is the one allocated by the call and belongs to no
    container that existed before, so no sequence of mutations on the result changes any of them (the bundles of the result are
    fresh containers too: `c13_unified_frame`) -/
theorem c12_unified_independent (h : Heap) (d : Nat)
    (hwf : ∀ c, c < h.conts.size → (h.cont c).mgr < h.mgrs.size) (h' : Heap) (nd : Nat)
    (hres : h.unifiedDoc d = (h', .ok nd)) (c : Nat) (hc : c < h.conts.size) (ms : List Mut) :
    nd ≠ c ∧ SameView h' (ms.foldl (fun hh m => applyMut hh nd m) h') c := by
  have hfr := c13_unified_frame h d
  rw [hres] at hfr
  unfold unifiedDoc at hres
  simp only [] at hres
  obtain ⟨s1, hm, hidx, hsz, _⟩ := stableMgr_allocCont h true none (h.mgrOf d).reg.values none
  generalize h.allocCont true none (h.mgrOf d).reg.values none = al at hres s1 hm hidx hsz
  obtain ⟨h1, n1⟩ := al
  simp only at hres s1 hm hidx hsz
  have s2 : StableMgr h1 (h1.copyDefault n1 (h.mgrOf d).dflt) := by
    unfold copyDefault; split
    · unfold setDefault; exact stableMgr_of_conts rfl
    · exact stableMgr_refl h1
  have s3 := stableMgr_unifiedInto (h1.copyDefault n1 (h.mgrOf d).dflt) d n1
  rw [hres] at s3
  simp only at s3 hfr
  have hnd : nd = n1 := by
    have : ((h1.copyDefault n1 (h.mgrOf d).dflt).unifiedInto d n1).2 = .ok nd := by rw [hres]
    unfold unifiedInto at this
    repeat' split at this
    all_goals first | (simp only [Except.ok.injEq] at this; exact this.symm) | cases this
  subst hnd
  have hne : nd ≠ c := by rw [hidx]; exact Nat.ne_of_gt hc
  have s23 := stableMgr_trans s2 s3
  have hmn : (h'.cont nd).mgr = h.mgrs.size := by
    rw [s23.mgr nd (by rw [hsz, hidx]; exact Nat.lt_succ_self _)]; exact hm
  have hmc : (h'.cont c).mgr = (h.cont c).mgr := by rw [hfr.conts c hc]
  exact ⟨hne, c12_noninterference h' nd c ms (Ne.symm hne) (by rw [hmn, hmc]; exact Nat.ne_of_lt (hwf c hc))⟩

end Prov.C12

namespace Prov.C12
open Prov Prov.Heap

/-- the well-formedness premise is what allocation establishes: it holds of the empty heap and is kept by `allocCont` -/
def WfMgr (h : Heap) : Prop := ∀ c, c < h.conts.size → (h.cont c).mgr < h.mgrs.size

theorem wfMgr_empty : WfMgr Heap.empty := fun c hc => by simp [Heap.empty] at hc

theorem wfMgr_allocCont (h : Heap) (isDoc : Bool) (id : Option QName) (nss : List Ns) (doc : Option Nat) (hw : WfMgr h) :
    WfMgr (h.allocCont isDoc id nss doc).1 := by
  obtain ⟨s1, hm, hidx, hsz, hms⟩ := stableMgr_allocCont h isDoc id nss doc
  intro c hc
  rw [hms]
  rw [hsz] at hc
  by_cases e : c < h.conts.size
  · rw [s1.mgr c e]; exact Nat.lt_succ_of_lt (hw c e)
  · have : c = (h.allocCont isDoc id nss doc).2 := by rw [hidx]; omega
    rw [this, hm]; exact Nat.lt_succ_self _

/-- non-vacuity: a document in a fresh heap meets the premises, and `unified()` succeeds on it -/
example :
    WfMgr (Heap.empty.newDoc).1 ∧ (∃ h' nd, (Heap.empty.newDoc).1.unifiedDoc 0 = (h', .ok nd)) := by
  refine ⟨wfMgr_allocCont _ _ _ _ _ wfMgr_empty, _, _, rfl⟩

end Prov.C12

/-
  C07, writer side: which triples `encode_container` emits for one relation record — the unqualified triple XOR the
  qualified node ("exactly one relation … never zero and never two" as far as the writer is concerned), and on the
  qualified node exactly one triple per attribute, under the rewritten predicate. For all records, identifiers,
  attribute lists and values that the model can write.
-/
import Prov.Rdf

namespace Prov.C07
open Prov Prov.Rdf Prov.Text

def NoSubtype (r : Record) : Prop :=
  ∀ p ∈ r.extraAttrs, isProv p.1 "type" = true → derivationSubtype p.2 = none

theorem subtype_fold_none (r : Record) (h : NoSubtype r) : retypeOf r.extraAttrs = none := by
  unfold NoSubtype at h
  unfold retypeOf
  generalize r.extraAttrs = l at h
  induction l with
  | nil => rfl
  | cons hd tl ih =>
    simp only [List.foldl_cons]
    have h1 := h hd List.mem_cons_self
    by_cases ht : isProv hd.1 "type" = true
    · rw [if_pos ht, h1 ht]
      exact ih (fun p hp => h p (List.mem_cons_of_mem _ hp))
    · rw [if_neg ht]
      exact ih (fun p hp => h p (List.mem_cons_of_mem _ hp))

theorem relBlock_identified (r : Record) (rs : RelSt) (idt : Term) (a0 : QName) (s : QName)
    (hk : r.kind ≠ .alternate) (hid : rs.ident = some idt)
    (hf0 : r.formalAttrs.getD 0 default = (a0, some (.qn s))) (hns : NoSubtype r) :
    relBlock r rs = some (({ rs with used := [a0], st := rs.st.add (.iri s.uri) (.iri (provU ("qualified" ++ r.kind.typeName))) idt } : RelSt), false) := by
  unfold relBlock
  simp only [hf0, hid]
  have hk' : (r.kind == RecKind.alternate) = false := by simpa using hk
  simp [hk', subtype_fold_none r hns]

/-- the triple an attribute of a qualified node contributes -/
def attrTriple (k : RecKind) (node : Term) (used : List QName) (p : QName × Option Value) : Option Triple :=
  match p.2 with
  | some v => if usedContains used p.1 then none else (encodeValue v).map (fun o => ⟨node, .iri (relAttrPred k p.1), o⟩)
  | none => none

def Encodable (l : List (QName × Option Value)) : Prop := ∀ p ∈ l, ∀ v, p.2 = some v → (encodeValue v).isSome

theorem mem_add (st : EncSt) (s p o : Term) (t : Triple) : t ∈ (st.add s p o).triples ↔ t ∈ st.triples ∨ t = ⟨s, p, o⟩ := by
  simp [EncSt.add]

theorem relStep_identified (r : Record) (rs : RelSt) (idt : Term) (a0 s : QName) (p : QName × Option Value)
    (hk : r.kind ≠ .alternate) (hid : rs.ident = some idt) (hb : rs.hasBnode = false)
    (hf0 : r.formalAttrs.getD 0 default = (a0, some (.qn s))) (hns : NoSubtype r)
    (henc : ∀ v, p.2 = some v → (encodeValue v).isSome) :
    ∃ rs', relStep r rs p = some rs' ∧ rs'.ident = some idt ∧ rs'.hasBnode = false ∧
      ∀ t, t ∈ rs'.st.triples ↔ t ∈ rs.st.triples ∨
        t = ⟨.iri s.uri, .iri (provU ("qualified" ++ r.kind.typeName)), idt⟩ ∨ attrTriple r.kind idt [a0] p = some t := by
  unfold relStep
  rw [hb]
  simp only [Bool.false_eq_true, if_false, relBlock_identified r rs idt a0 s hk hid hf0 hns]
  cases hv : p.2 with
  | none =>
    refine ⟨_, rfl, hid, hb, ?_⟩
    intro t
    simp [mem_add, attrTriple, hv]
  | some v =>
    simp only []
    by_cases hu : usedContains [a0] p.1 = true
    · rw [if_pos hu]
      refine ⟨_, rfl, hid, hb, ?_⟩
      intro t
      simp [mem_add, attrTriple, hv, hu]
    · rw [if_neg hu]
      obtain ⟨obj, hobj⟩ := Option.isSome_iff_exists.mp (henc v hv)
      simp only [hid, hobj]
      refine ⟨_, rfl, rfl, hb, ?_⟩
      intro t
      simp [mem_add, attrTriple, hv, hu, hobj, or_assoc, eq_comm]

theorem fold_identified (r : Record) (idt : Term) (a0 s : QName)
    (hk : r.kind ≠ .alternate) (hf0 : r.formalAttrs.getD 0 default = (a0, some (.qn s))) (hns : NoSubtype r)
    (l : List (QName × Option Value)) (henc : Encodable l) (rs : RelSt) (hid : rs.ident = some idt) (hb : rs.hasBnode = false) :
    ∃ rs', l.foldlM (relStep r) rs = some rs' ∧
      ∀ t, t ∈ rs'.st.triples ↔ t ∈ rs.st.triples ∨
        (l ≠ [] ∧ t = ⟨.iri s.uri, .iri (provU ("qualified" ++ r.kind.typeName)), idt⟩) ∨
        ∃ p ∈ l, attrTriple r.kind idt [a0] p = some t := by
  induction l generalizing rs with
  | nil => exact ⟨rs, rfl, by simp⟩
  | cons p rest ih =>
    obtain ⟨rs1, h1, hid1, hb1, hm1⟩ := relStep_identified r rs idt a0 s p hk hid hb hf0 hns (henc p List.mem_cons_self)
    obtain ⟨rs2, h2, hm2⟩ := ih (fun q hq => henc q (List.mem_cons_of_mem _ hq)) rs1 hid1 hb1
    refine ⟨rs2, by simp [List.foldlM_cons, h1, h2], ?_⟩
    intro t
    rw [hm2, hm1]
    constructor
    · rintro ((h | h | h) | ⟨_, h⟩ | ⟨q, hq, h⟩)
      · exact Or.inl h
      · exact Or.inr (Or.inl ⟨by simp, h⟩)
      · exact Or.inr (Or.inr ⟨p, List.mem_cons_self, h⟩)
      · exact Or.inr (Or.inl ⟨by simp, h⟩)
      · exact Or.inr (Or.inr ⟨q, List.mem_cons_of_mem _ hq, h⟩)
    · rintro (h | ⟨_, h⟩ | ⟨q, hq, h⟩)
      · exact Or.inl (Or.inl h)
      · exact Or.inl (Or.inr (Or.inl h))
      · rcases List.mem_cons.mp hq with rfl | hq'
        · exact Or.inl (Or.inr (Or.inr h))
        · exact Or.inr (Or.inr ⟨q, hq', h⟩)


/-- **identified relation**: the graph gains the qualified link `subject prov:qualifiedK identifier` and one triple
    per attribute other than the first formal argument, on the identifier node — and nothing else: in particular no
    unqualified `subject prov:wasK object` triple -/
theorem c07_writer_identified (st : EncSt) (r : Record) (idt : Term) (a0 s : QName)
    (hk : r.kind ≠ .alternate) (hf0 : r.formalAttrs.getD 0 default = (a0, some (.qn s))) (hns : NoSubtype r)
    (henc : Encodable (allAttributes r)) :
    ∃ st', encodeRelation st r (some idt) = some st' ∧
      ∀ t, t ∈ st'.triples ↔ t ∈ st.triples ∨
        t = ⟨.iri s.uri, .iri (provU ("qualified" ++ r.kind.typeName)), idt⟩ ∨
        ∃ p ∈ allAttributes r, attrTriple r.kind idt [a0] p = some t := by
  have hne : allAttributes r ≠ [] := by
    have : r.formalAttrs ≠ [] := by
      intro e
      rw [e] at hf0
      cases hf0
    intro e
    unfold allAttributes at e
    simp only [List.append_eq_nil_iff] at e
    exact this e.1.1
  obtain ⟨rs', h1, hm⟩ := fold_identified r idt a0 s hk hf0 hns (allAttributes r) henc
    ({ st := st, ident := some idt, hasQ := hasQualifiers r (some idt) } : RelSt) rfl rfl
  refine ⟨rs'.st, by simp [encodeRelation, h1], ?_⟩
  intro t
  rw [hm]
  simp [hne]

/-! ### the unqualified triple -/

/-- the condition under which the writer states the plain triple for an anonymous relation -/
def plainCond (r : Record) : Bool :=
  !qset.contains r.kind ||
    ((List.range r.formalAttrs.length).filter (fun i => ((r.formalAttrs.getD i default).2).isSome) == [0, 1] && r.extraAttrs.isEmpty)

theorem relBlock_plain (r : Record) (rs : RelSt) (a0 a1 s o : QName)
    (hk : r.kind ≠ .alternate) (hm : r.kind ≠ .mention) (hid : rs.ident = none) (hq : rs.hasQ = false)
    (hf0 : r.formalAttrs.getD 0 default = (a0, some (.qn s)))
    (hf1 : r.formalAttrs.getD 1 default = (a1, some (.qn o))) (hc : plainCond r = true) :
    relBlock r rs = some (({ rs with used := [a0, a1], st := rs.st.add (.iri s.uri) (.iri (provU r.kind.provN)) (.iri o.uri) } : RelSt), false) := by
  unfold relBlock
  simp only [hf0, hf1, hid]
  have hk' : (r.kind == RecKind.alternate) = false := by simpa using hk
  have hm' : (r.kind == RecKind.mention) = false := by simpa using hm
  unfold plainCond at hc
  simp at hc
  simp [hk', hm', hc, encodeValue, hq]

/-- every attribute the loop meets is one of the two endpoints or absent -/
def OnlyEndpoints (r : Record) (a0 a1 : QName) : Prop :=
  ∀ p ∈ allAttributes r, p.2 = none ∨ usedContains [a0, a1] p.1 = true

theorem relStep_plain (r : Record) (rs : RelSt) (a0 a1 s o : QName) (p : QName × Option Value)
    (hk : r.kind ≠ .alternate) (hm : r.kind ≠ .mention) (hid : rs.ident = none) (hq : rs.hasQ = false) (hb : rs.hasBnode = false)
    (hf0 : r.formalAttrs.getD 0 default = (a0, some (.qn s)))
    (hf1 : r.formalAttrs.getD 1 default = (a1, some (.qn o))) (hc : plainCond r = true)
    (hp : p.2 = none ∨ usedContains [a0, a1] p.1 = true) :
    ∃ rs', relStep r rs p = some rs' ∧ rs'.ident = none ∧ rs'.hasQ = false ∧ rs'.hasBnode = false ∧
      ∀ t, t ∈ rs'.st.triples ↔ t ∈ rs.st.triples ∨ t = ⟨.iri s.uri, .iri (provU r.kind.provN), .iri o.uri⟩ := by
  unfold relStep
  rw [hb]
  simp only [Bool.false_eq_true, if_false, relBlock_plain r rs a0 a1 s o hk hm hid hq hf0 hf1 hc]
  cases hv : p.2 with
  | none => exact ⟨_, rfl, hid, hq, hb, fun t => by simp [mem_add]⟩
  | some v =>
    have hu : usedContains [a0, a1] p.1 = true := by
      rcases hp with h | h
      · rw [hv] at h; cases h
      · exact h
    simp only [hu, if_true]
    exact ⟨_, rfl, hid, hq, hb, fun t => by simp [mem_add]⟩

/-- **anonymous plain relation**: exactly the one triple `subject prov:wasK object`; no qualified node, no blank node -/
theorem c07_writer_plain (st : EncSt) (r : Record) (a0 a1 s o : QName)
    (hk : r.kind ≠ .alternate) (hm : r.kind ≠ .mention)
    (hf0 : r.formalAttrs.getD 0 default = (a0, some (.qn s)))
    (hf1 : r.formalAttrs.getD 1 default = (a1, some (.qn o))) (hc : plainCond r = true)
    (hnq : hasQualifiers r none = false) (hoe : OnlyEndpoints r a0 a1) :
    ∃ st', encodeRelation st r none = some st' ∧ st'.next = st.next ∧
      ∀ t, t ∈ st'.triples ↔ t ∈ st.triples ∨ t = ⟨.iri s.uri, .iri (provU r.kind.provN), .iri o.uri⟩ := by
  have hne : allAttributes r ≠ [] := by
    have : r.formalAttrs ≠ [] := by
      intro e
      rw [e] at hf0
      cases hf0
    intro e
    unfold allAttributes at e
    simp only [List.append_eq_nil_iff] at e
    exact this e.1.1
  have key : ∀ (l : List (QName × Option Value)) (rs : RelSt), (∀ p ∈ l, p.2 = none ∨ usedContains [a0, a1] p.1 = true) →
      rs.ident = none → rs.hasQ = false → rs.hasBnode = false →
      ∃ rs', l.foldlM (relStep r) rs = some rs' ∧ rs'.st.next = rs.st.next ∧
        ∀ t, t ∈ rs'.st.triples ↔ t ∈ rs.st.triples ∨ (l ≠ [] ∧ t = ⟨.iri s.uri, .iri (provU r.kind.provN), .iri o.uri⟩) := by
    intro l
    induction l with
    | nil => intro rs _ _ _ _; exact ⟨rs, rfl, rfl, by simp⟩
    | cons p rest ih =>
      intro rs hl hid hq hb
      obtain ⟨rs1, h1, hid1, hq1, hb1, hm1⟩ := relStep_plain r rs a0 a1 s o p hk hm hid hq hb hf0 hf1 hc (hl p List.mem_cons_self)
      obtain ⟨rs2, h2, hn2, hm2⟩ := ih rs1 (fun q hq' => hl q (List.mem_cons_of_mem _ hq')) hid1 hq1 hb1
      have hn1 : rs1.st.next = rs.st.next := by
        unfold relStep at h1
        rw [hb] at h1
        simp only [Bool.false_eq_true, if_false, relBlock_plain r rs a0 a1 s o hk hm hid hq hf0 hf1 hc] at h1
        cases hv : p.2 with
        | none => simp only [hv] at h1; injection h1 with h1; rw [← h1]; rfl
        | some v =>
          have hu : usedContains [a0, a1] p.1 = true := by
            rcases hl p List.mem_cons_self with h | h
            · rw [hv] at h; cases h
            · exact h
          simp only [hv, hu, if_true] at h1; injection h1 with h1; rw [← h1]; rfl
      refine ⟨rs2, by simp [List.foldlM_cons, h1, h2], hn2.trans hn1, ?_⟩
      intro t
      rw [hm2, hm1]
      constructor
      · rintro ((h | h) | ⟨_, h⟩)
        · exact Or.inl h
        · exact Or.inr ⟨by simp, h⟩
        · exact Or.inr ⟨by simp, h⟩
      · rintro (h | ⟨_, h⟩)
        · exact Or.inl (Or.inl h)
        · exact Or.inl (Or.inr h)
  obtain ⟨rs', h1, hn, hmem⟩ := key (allAttributes r) ({ st := st, ident := none, hasQ := hasQualifiers r none } : RelSt) hoe rfl hnq rfl
  refine ⟨rs'.st, by simp [encodeRelation, h1], hn, ?_⟩
  intro t
  rw [hmem]
  simp [hne]

/-! ### the anonymous qualified node -/

/-- the blank node the writer mints next -/
def nextBnode (st : EncSt) : Term := .bnode ("b" ++ toString st.next)

def anonSt (st : EncSt) (k : RecKind) (s : QName) : EncSt :=
  (({ st with next := st.next + 1 } : EncSt).add (.iri s.uri) (.iri (provU ("qualified" ++ k.typeName))) (nextBnode st)).add (nextBnode st) (.iri rdfType) (.iri (provU k.typeName))

def anonRs (rs : RelSt) (k : RecKind) (a0 s : QName) : RelSt :=
  { rs with used := [a0], ident := some (nextBnode rs.st), hasBnode := true, st := anonSt rs.st k s }

theorem relBlock_anon (r : Record) (rs : RelSt) (a0 s : QName)
    (hk : r.kind ≠ .alternate) (hid : rs.ident = none) (hq : rs.hasQ = true)
    (hf0 : r.formalAttrs.getD 0 default = (a0, some (.qn s))) (hc : plainCond r = false) (hns : NoSubtype r) :
    relBlock r rs = some (anonRs rs r.kind a0 s, false) := by
  unfold relBlock anonRs anonSt
  simp only [hf0, hid]
  have hk' : (r.kind == RecKind.alternate) = false := by simpa using hk
  unfold plainCond at hc
  simp at hc
  cases h1 : (r.formalAttrs.getD 1 default).2 with
  | none => simp [hk', hq, subtype_fold_none r hns, nextBnode]
  | some ov =>
    have hc' : ¬ (¬ r.kind ∈ qset ∨
        List.filter (fun i => (r.formalAttrs[i]?.getD default).snd.isSome) (List.range r.formalAttrs.length) = [0, 1] ∧
          r.extraAttrs = []) := by
      intro h
      rcases h with h | ⟨h2, h3⟩
      · exact h hc.1
      · exact hc.2 h2 h3
    simp [hk', hq, subtype_fold_none r hns, nextBnode, hc']

/-- a later iteration: the block is skipped, the attribute lands on the blank node -/
theorem relStep_bnode (r : Record) (rs : RelSt) (b : Term) (a0 : QName) (p : QName × Option Value)
    (hid : rs.ident = some b) (hb : rs.hasBnode = true) (hu : rs.used = [a0])
    (henc : ∀ v, p.2 = some v → (encodeValue v).isSome) :
    ∃ rs', relStep r rs p = some rs' ∧ rs'.ident = some b ∧ rs'.hasBnode = true ∧ rs'.used = [a0] ∧ rs'.st.next = rs.st.next ∧
      ∀ t, t ∈ rs'.st.triples ↔ t ∈ rs.st.triples ∨ attrTriple r.kind b [a0] p = some t := by
  unfold relStep
  rw [hb]
  simp only [if_true]
  cases hv : p.2 with
  | none => exact ⟨rs, rfl, hid, hb, hu, rfl, fun t => by simp [attrTriple, hv]⟩
  | some v =>
    simp only []
    by_cases hc : usedContains [a0] p.1 = true
    · rw [hu, if_pos hc]
      exact ⟨rs, rfl, hid, hb, hu, rfl, fun t => by simp [attrTriple, hv, hc]⟩
    · rw [hu, if_neg hc]
      obtain ⟨obj, hobj⟩ := Option.isSome_iff_exists.mp (henc v hv)
      simp only [hid, hobj]
      refine ⟨_, rfl, rfl, hb, rfl, rfl, ?_⟩
      intro t
      simp [mem_add, attrTriple, hv, hc, hobj, eq_comm]

theorem fold_bnode (r : Record) (b : Term) (a0 : QName) (l : List (QName × Option Value)) (henc : Encodable l)
    (rs : RelSt) (hid : rs.ident = some b) (hb : rs.hasBnode = true) (hu : rs.used = [a0]) :
    ∃ rs', l.foldlM (relStep r) rs = some rs' ∧ rs'.st.next = rs.st.next ∧
      ∀ t, t ∈ rs'.st.triples ↔ t ∈ rs.st.triples ∨ ∃ p ∈ l, attrTriple r.kind b [a0] p = some t := by
  induction l generalizing rs with
  | nil => exact ⟨rs, rfl, rfl, by simp⟩
  | cons p rest ih =>
    obtain ⟨rs1, h1, hid1, hb1, hu1, hn1, hm1⟩ := relStep_bnode r rs b a0 p hid hb hu (henc p List.mem_cons_self)
    obtain ⟨rs2, h2, hn2, hm2⟩ := ih (fun q hq => henc q (List.mem_cons_of_mem _ hq)) rs1 hid1 hb1 hu1
    refine ⟨rs2, by simp [List.foldlM_cons, h1, h2], hn2.trans hn1, ?_⟩
    intro t
    rw [hm2, hm1]
    constructor
    · rintro ((h | h) | ⟨q, hq, h⟩)
      · exact Or.inl h
      · exact Or.inr ⟨p, List.mem_cons_self, h⟩
      · exact Or.inr ⟨q, List.mem_cons_of_mem _ hq, h⟩
    · rintro (h | ⟨q, hq, h⟩)
      · exact Or.inl (Or.inl h)
      · rcases List.mem_cons.mp hq with rfl | hq'
        · exact Or.inl (Or.inr h)
        · exact Or.inr ⟨q, hq', h⟩

/-- **anonymous relation that needs a qualified node** (a kind of `qset` with an optional argument or extra
    attributes): one fresh blank node, linked from the subject and typed with the kind, one triple per attribute other
    than the first formal argument — and no unqualified triple -/
theorem c07_writer_anonymous_qualified (st : EncSt) (r : Record) (a0 s : QName)
    (hk : r.kind ≠ .alternate) (hf0 : r.formalAttrs.getD 0 default = (a0, some (.qn s)))
    (hc : plainCond r = false) (hq : hasQualifiers r none = true) (hns : NoSubtype r)
    (henc : Encodable (allAttributes r)) :
    ∃ st', encodeRelation st r none = some st' ∧ st'.next = st.next + 1 ∧
      ∀ t, t ∈ st'.triples ↔ t ∈ st.triples ∨
        t = ⟨.iri s.uri, .iri (provU ("qualified" ++ r.kind.typeName)), nextBnode st⟩ ∨
        t = ⟨nextBnode st, .iri rdfType, .iri (provU r.kind.typeName)⟩ ∨
        ∃ p ∈ allAttributes r, attrTriple r.kind (nextBnode st) [a0] p = some t := by
  -- the first attribute the loop meets is the first formal argument itself
  have hform : r.formalAttrs ≠ [] := by
    intro e
    rw [e] at hf0
    cases hf0
  obtain ⟨p0, rest, hall⟩ : ∃ p0 rest, allAttributes r = p0 :: rest := by
    cases hl : allAttributes r with
    | nil =>
      unfold allAttributes at hl
      simp only [List.append_eq_nil_iff] at hl
      exact absurd hl.1.1 hform
    | cons p0 rest => exact ⟨p0, rest, rfl⟩
  have hp0 : p0 = (a0, some (.qn s)) := by
    have : (allAttributes r).head? = r.formalAttrs.head? := by
      unfold allAttributes
      cases hfa : r.formalAttrs with
      | nil => exact absurd hfa hform
      | cons x xs => simp
    rw [hall] at this
    cases hfa : r.formalAttrs with
    | nil => exact absurd hfa hform
    | cons x xs =>
      rw [hfa] at this hf0
      simp at this hf0
      rw [this, hf0]
  let init : RelSt := { st := st, ident := none, hasQ := hasQualifiers r none }
  have hb0 := relBlock_anon r init a0 s hk rfl hq hf0 hc hns
  -- first iteration
  have hused : usedContains [a0] a0 = true := by simp [usedContains, QName.same]
  have h1 : relStep r init p0 = some (anonRs init r.kind a0 s) := by
    unfold relStep
    have hbf : init.hasBnode = false := rfl
    rw [hbf]
    simp only [Bool.false_eq_true, if_false, hb0, hp0]
    have hu2 : usedContains (anonRs init r.kind a0 s).used a0 = true := hused
    simp [hu2]
  obtain ⟨rs2, h2, hn2, hm2⟩ := fold_bnode r (nextBnode st) a0 rest
    (fun q hq' => henc q (by rw [hall]; exact List.mem_cons_of_mem _ hq')) (anonRs init r.kind a0 s) rfl rfl rfl
  refine ⟨rs2.st, ?_, ?_, ?_⟩
  · simp [encodeRelation, hall, List.foldlM_cons, h1, h2, init]
  · rw [hn2]; rfl
  · intro t
    rw [hm2]
    have hp0t : attrTriple r.kind (nextBnode st) [a0] p0 = none := by
      rw [hp0]; simp [attrTriple, hused]
    simp only [anonRs, anonSt, mem_add, hall, List.mem_cons, exists_eq_or_imp, hp0t, init]
    constructor
    · rintro (((h | h) | h) | h)
      · exact Or.inl h
      · exact Or.inr (Or.inl h)
      · exact Or.inr (Or.inr (Or.inl h))
      · exact Or.inr (Or.inr (Or.inr (Or.inr h)))
    · rintro (h | h | h | h | h)
      · exact Or.inl (Or.inl (Or.inl h))
      · exact Or.inl (Or.inl (Or.inr h))
      · exact Or.inl (Or.inr h)
      · cases h
      · exact Or.inr h

/-! ### non-vacuity: concrete records meet the hypotheses of the three theorems -/

def exNs : Ns := ⟨"ex", "http://example.org/"⟩
def exQ (l : String) : QName := ⟨exNs, l⟩

/-- `wasGeneratedBy(ex:e, ex:a)` -/
def rPlain : Record := ⟨.generation, none, [(formalQ "entity", [.qn (exQ "e")]), (formalQ "activity", [.qn (exQ "a")])]⟩
/-- `wasGeneratedBy(ex:g; ex:e, ex:a, [ex:k="v"])` / the same without identifier -/
def rQual (id : Option QName) : Record :=
  ⟨.generation, id, [(formalQ "entity", [.qn (exQ "e")]), (formalQ "activity", [.qn (exQ "a")]), (exQ "k", [.str "v"])]⟩

example : rPlain.formalAttrs.getD 0 default = (formalQ "entity", some (.qn (exQ "e"))) ∧
    rPlain.formalAttrs.getD 1 default = (formalQ "activity", some (.qn (exQ "a"))) ∧
    plainCond rPlain = true ∧ hasQualifiers rPlain none = false := by decide +kernel

example : OnlyEndpoints rPlain (formalQ "entity") (formalQ "activity") := by
  unfold OnlyEndpoints
  decide +kernel

example : (rQual (some (exQ "g"))).formalAttrs.getD 0 default = (formalQ "entity", some (.qn (exQ "e"))) ∧
    plainCond (rQual none) = false ∧ hasQualifiers (rQual none) none = true := by decide +kernel

example : NoSubtype (rQual none) ∧ Encodable (allAttributes (rQual none)) := by
  unfold NoSubtype Encodable
  decide +kernel

/-- and the triples the model writes for them, evaluated -/
example : (encodeRelation {} rPlain none).map (·.triples.eraseDups) =
    some [⟨.iri "http://example.org/e", .iri (provU "wasGeneratedBy"), .iri "http://example.org/a"⟩] := by decide +kernel

end Prov.C07

/-
  C08 / C09, the bundle table of every document refers to existing containers (`WB`): an invariant of every history in which
  `add_bundle` is given a bundle that exists (`ReachB`). It discharges the side condition of the document-level theorems about
  `unified()` (`Props/C08H`, `Props/C08M`), which thereby hold of every document of every reachable state.
-/
import Prov.Props.C08M
import Prov.Props.C12C
import Prov.Props.C13M

namespace Prov.C08
open Prov Prov.Heap Prov.C05 Prov.C09 Prov.C18 Prov.C12 Prov.C13

/-- every bundle-table entry of every container refers to an existing container -/
def WB (h : Heap) : Prop := ∀ c, c < h.conts.size → ∀ p ∈ (h.cont c).bundles, p.2 < h.conts.size

theorem wb_empty : WB Heap.empty := fun c hc => by simp [Heap.empty] at hc

theorem wb_same {h h' : Heap} (hw : WB h) (hc : h'.conts = h.conts) (_hm : h'.mgrs.size = h.mgrs.size) : WB h' := by
  intro c hlt p hp
  have : h'.cont c = h.cont c := by simp [cont, hc]
  rw [this] at hp; rw [hc] at hlt ⊢
  exact hw c hlt p hp

theorem wb_setMgr {h : Heap} (hw : WB h) (c : Nat) (m : NsMgr) : WB (h.setMgr c m) := wb_same hw rfl (by simp [setMgr])

theorem wb_setRec {h : Heap} (hw : WB h) (r : Nat) (rc : Record) : WB (h.setRec r rc) := wb_same hw rfl rfl

/-- a container cell rewritten with a bundle table whose entries exist -/
theorem wb_setCont {h : Heap} (hw : WB h) (c : Nat) (k : Cont) (hk : ∀ p ∈ k.bundles, p.2 < h.conts.size) : WB (h.setCont c k) := by
  intro c' hlt p hp
  have hsz : (h.setCont c k).conts.size = h.conts.size := by simp [setCont]
  rw [hsz] at hlt ⊢
  by_cases e : c' = c
  · subst e; rw [cont_setCont_self h c' k hlt] at hp; exact hk p hp
  · rw [cont_setCont_ne h c c' k e] at hp; exact hw c' hlt p hp

theorem wb_setCont_same {h : Heap} (hw : WB h) (c : Nat) (k : Cont) (hk : k.bundles = (h.cont c).bundles) : WB (h.setCont c k) := by
  by_cases hc : c < h.conts.size
  · exact wb_setCont hw c k (fun p hp => hw c hc p (hk ▸ hp))
  · have : h.setCont c k = h := by
      simp only [setCont]; rw [Array.setIfInBounds_eq_of_size_le (by omega)]
    rw [this]; exact hw

theorem wb_allocCont {h : Heap} (hw : WB h) (isDoc : Bool) (id : Option QName) (nss : List Ns) (doc : Option Nat) :
    WB (h.allocCont isDoc id nss doc).1 := by
  obtain ⟨_, _, a3, _, _⟩ := allocCont_fresh h isDoc id nss doc
  have hcs : (h.allocCont isDoc id nss doc).1.conts.size = h.conts.size + 1 := by simp [allocCont, allocMgr]
  intro c hlt p hp
  rw [hcs] at hlt ⊢
  by_cases e : c < h.conts.size
  · rw [a3 c e] at hp; exact Nat.lt_succ_of_lt (hw c e p hp)
  · have hce : c = h.conts.size := by omega
    subst hce
    simp [allocCont, allocMgr, cont, Array.getD_eq_getD_getElem?] at hp

theorem wb_validName {h : Heap} (hw : WB h) (c : Nat) (x : NameArg) : WB (h.validName c x).1 := by
  unfold Heap.validName; exact wb_setMgr hw _ _

theorem wb_mkRecord {h : Heap} (hw : WB h) (c : Nat) (k : RecKind) (id : Option QName) (attrs : List AttrArg) :
    WB (h.mkRecord c k id attrs).1 := by
  unfold Heap.mkRecord
  split
  · exact hw
  · simp only []
    split
    · exact wb_setMgr hw _ _
    · exact wb_same (wb_setMgr hw c _) rfl rfl

theorem wb_addAttributes {h : Heap} (hw : WB h) (r : Nat) (attrs : List AttrArg) : WB (h.addAttributes r attrs).1 := by
  unfold Heap.addAttributes
  simp only []
  exact wb_setRec (wb_setMgr hw _ _) _ _

theorem wb_newRecord {h : Heap} (hw : WB h) (c : Nat) (k : RecKind) (idArg : NameArg) (attrs : List AttrArg) :
    WB (h.newRecord c k idArg attrs).1 := by
  unfold Heap.newRecord
  simp only []
  have s1 := wb_validName hw c idArg
  generalize h.validName c idArg = vn at s1
  obtain ⟨h1, vid⟩ := vn
  simp only at s1 ⊢
  have s2 := wb_mkRecord s1 c k vid attrs
  generalize h1.mkRecord c k vid attrs = mk at s2
  obtain ⟨h2, e⟩ := mk
  cases e with
  | error err => exact s2
  | ok r => unfold addRecordRaw; exact wb_setCont_same s2 c _ rfl

theorem conts_size_validName' (h : Heap) (c : Nat) (x : NameArg) : (h.validName c x).1.conts.size = h.conts.size := rfl

theorem wb_bundle {h : Heap} (hw : WB h) (d : Nat) (idArg : NameArg) : WB (h.bundle d idArg).1 := by
  unfold Heap.bundle
  split
  · exact hw
  · have h1 := wb_validName hw d idArg
    generalize h.validName d idArg = res at h1
    obtain ⟨hh, vid⟩ := res
    simp only at h1 ⊢
    cases vid with
    | none => exact h1
    | some q =>
      simp only
      split
      · exact h1
      · have h2 := wb_allocCont h1 false (some q) [] (some d)
        obtain ⟨a1, _, a3, _, _⟩ := allocCont_fresh hh false (some q) [] (some d)
        have hcs : (hh.allocCont false (some q) [] (some d)).1.conts.size = hh.conts.size + 1 := by simp [allocCont, allocMgr]
        generalize hh.allocCont false (some q) [] (some d) = al at h2 a1 a3 hcs
        obtain ⟨h3, nb⟩ := al
        simp only at h2 a1 a3 hcs ⊢
        by_cases hd : d < h3.conts.size
        · refine wb_setCont h2 d _ (fun p hp => ?_)
          simp only [List.mem_append, List.mem_singleton] at hp
          rcases hp with hp | rfl
          · exact h2 d hd p hp
          · simp only; rw [a1, hcs]; exact Nat.lt_succ_self _
        · have : h3.setCont d { h3.cont d with bundles := (h3.cont d).bundles ++ [(q, nb)] } = h3 := by
            simp only [setCont]; rw [Array.setIfInBounds_eq_of_size_le (by omega)]
          rw [this]; exact h2

theorem wb_addRecords (c : Nat) : ∀ (rs : List Nat) (h : Heap), WB h → WB (h.addRecords c rs).1
  | [], _, hw => hw
  | r :: rest, h, hw => by
    unfold Heap.addRecords
    simp only [Heap.addRecord]
    have s1 := wb_newRecord hw c (h.recCell r).r.kind (recreateArgs (h.recCell r).r).1 (recreateArgs (h.recCell r).r).2
    generalize h.newRecord c (h.recCell r).r.kind (recreateArgs (h.recCell r).r).1 (recreateArgs (h.recCell r).r).2 = res at s1
    obtain ⟨h1, e⟩ := res
    cases e with
    | error err => exact s1
    | ok nr => exact wb_addRecords c rest h1 s1

theorem wb_scratchCopy {h : Heap} (hw : WB h) (r0 : Nat) : WB (h.scratchCopy r0).1 := by
  unfold scratchCopy
  simp only []
  have s0 := wb_allocCont hw false none [] none
  generalize h.allocCont false none [] none = al at s0
  obtain ⟨h0, sc⟩ := al
  exact wb_mkRecord s0 sc _ _ _

theorem wb_mergeGo (mref : Nat) : ∀ (rs : List Nat) (h : Heap), WB h → WB (mergeGroup.go mref h rs).1
  | [], _, hw => hw
  | r :: more, h, hw => by
    unfold mergeGroup.go
    simp only []
    have s1 := wb_addAttributes hw mref ((h.recCell r).r.flat.map (fun p => ({ name := .qn p.1, value := .val p.2 } : AttrArg)))
    generalize h.addAttributes mref ((h.recCell r).r.flat.map (fun p => ({ name := .qn p.1, value := .val p.2 } : AttrArg))) = res at s1
    obtain ⟨h', e⟩ := res
    cases e with
    | none => exact wb_mergeGo mref more h' s1
    | some err => exact s1

theorem wb_mergeGroup {h : Heap} (hw : WB h) (rs : List Nat) : WB (h.mergeGroup rs).1 := by
  unfold mergeGroup
  cases rs with
  | nil => exact hw
  | cons r0 rest =>
    simp only []
    have s1 := wb_scratchCopy hw r0
    generalize h.scratchCopy r0 = res at s1
    obtain ⟨h1, e⟩ := res
    cases e with
    | error err => exact s1
    | ok mref =>
      simp only []
      have s2 := wb_mergeGo mref rest h1 s1
      generalize mergeGroup.go mref h1 rest = res2 at s2
      obtain ⟨h2, e2⟩ := res2
      cases e2 <;> exact s2

theorem wb_mergeAll : ∀ (gs : List (List Nat)) (h : Heap) (acc : List (Nat × Nat)), WB h →
    WB (unifiedRecords.mergeAll h acc gs).1
  | [], _, _, hw => hw
  | grp :: gs, h, acc, hw => by
    unfold unifiedRecords.mergeAll
    have s1 := wb_mergeGroup hw grp
    generalize h.mergeGroup grp = res at s1
    obtain ⟨h1, e⟩ := res
    cases e with
    | error err => exact s1
    | ok mref => exact wb_mergeAll gs h1 _ s1

theorem wb_unifiedRecords {h : Heap} (hw : WB h) (c : Nat) : WB (h.unifiedRecords c).1 := by
  unfold unifiedRecords
  simp only []
  have s1 := wb_mergeAll (((h.cont c).idMap.flatMap (fun e => (groupByKind h e.2).map (·.2))).filter (fun g => g.length > 1)) h [] hw
  generalize unifiedRecords.mergeAll h [] _ = res at s1
  obtain ⟨h1, e⟩ := res
  cases e <;> exact s1

theorem wb_unifiedBundle {h : Heap} (hw : WB h) (c : Nat) : WB (h.unifiedBundle c).1 := by
  unfold unifiedBundle
  have s1 := wb_unifiedRecords hw c
  generalize h.unifiedRecords c = res at s1
  obtain ⟨h1, e⟩ := res
  cases e with
  | error err => exact s1
  | ok rs =>
    simp only []
    have s2 := wb_allocCont s1 false (h1.cont c).id [] none
    generalize h1.allocCont false (h1.cont c).id [] none = al at s2
    obtain ⟨h2, nb⟩ := al
    have s3 := wb_addRecords nb rs h2 s2
    generalize h2.addRecords nb rs = res3 at s3
    obtain ⟨h3, e3⟩ := res3
    cases e3 <;> exact s3

theorem wb_registerBundle {h3 : Heap} (hw : WB h3) (d b' : Nat) (q : QName) (hb : b' < h3.conts.size) :
    WB (h3.registerBundle d b' q).1 := by
  unfold registerBundle
  simp only []
  have s4 := wb_setCont_same hw b' { h3.cont b' with id := some q } rfl
  have hsz4 : (h3.setCont b' { h3.cont b' with id := some q }).conts.size = h3.conts.size := by simp [setCont]
  split
  · exact s4
  · by_cases hd : d < h3.conts.size
    · have s5 := wb_setCont s4 d { (h3.setCont b' { h3.cont b' with id := some q }).cont d with
          bundles := ((h3.setCont b' { h3.cont b' with id := some q }).cont d).bundles ++ [(q, b')] } (fun p hp => by
        simp only [List.mem_append, List.mem_singleton] at hp
        rcases hp with hp | rfl
        · exact s4 d (by rw [hsz4]; exact hd) p hp
        · simp only; rw [hsz4]; exact hb)
      exact wb_setCont_same s5 b' _ rfl
    · have hnoop : ∀ k, (h3.setCont b' { h3.cont b' with id := some q }).setCont d k = h3.setCont b' { h3.cont b' with id := some q } := by
        intro k; simp only [setCont]; rw [Array.setIfInBounds_eq_of_size_le (by simp; omega)]
      rw [hnoop]
      exact wb_setCont_same s4 b' _ rfl

theorem wb_attachBundle {h1 : Heap} (hw : WB h1) (d b' : Nat) (idArg : NameArg) (hb : b' < h1.conts.size) :
    WB (h1.attachBundle d b' idArg).1 := by
  unfold attachBundle
  split
  · exact hw
  · have s2 : WB (h1.linkParent d b') := wb_same hw rfl (by simp [linkParent])
    have s3 := wb_validName s2 b' (h1.defaultBundleId b' idArg)
    have hsz : ((h1.linkParent d b').validName b' (h1.defaultBundleId b' idArg)).1.conts.size = h1.conts.size := rfl
    generalize (h1.linkParent d b').validName b' (h1.defaultBundleId b' idArg) = vn at s3 hsz
    obtain ⟨h3, vid⟩ := vn
    cases vid with
    | none => exact s3
    | some q => exact wb_registerBundle s3 d b' q (by simp only at hsz; rw [hsz]; exact hb)

theorem wb_addBundle {h : Heap} (hw : WB h) (d b : Nat) (idArg : NameArg) (nsOrder : List Ns) (hb : b < h.conts.size) :
    WB (h.addBundle d b idArg nsOrder).1 := by
  unfold addBundle
  simp only []
  by_cases hdoc : (h.cont b).isDoc = true
  · simp only [hdoc, if_true]
    by_cases hbs : (!(h.cont b).bundles.isEmpty) = true
    · simp only [hbs, if_true]
      exact hw
    · simp only [hbs, Bool.false_eq_true, if_false]
      have s2 := wb_allocCont hw false none nsOrder none
      obtain ⟨hcs, hidx⟩ := conts_size_allocCont h false none nsOrder none
      generalize h.allocCont false none nsOrder none = al at s2 hcs hidx
      obtain ⟨h2, nb⟩ := al
      simp only at s2 hcs hidx ⊢
      have s3 := wb_addRecords nb (h.cont b).records h2 s2
      have hsz3 := (frameB_addRecords 0 0 nb (Nat.zero_le _) (h.cont b).records h2 (Nat.zero_le _)).csize
      generalize h2.addRecords nb (h.cont b).records = res3 at s3 hsz3
      obtain ⟨h3, e3⟩ := res3
      cases e3 with
      | some err => exact s3
      | none =>
        have hnb : nb < h3.conts.size := by
          have h4 : h2.conts.size ≤ h3.conts.size := hsz3
          omega
        exact wb_attachBundle s3 d nb idArg hnb
  · simp only [hdoc, Bool.false_eq_true, if_false]
    exact wb_attachBundle hw d b idArg hb

theorem wb_unifiedGo (nd : Nat) : ∀ (bs : List (QName × Nat)) (h : Heap), WB h → WB (unifiedInto.go nd h bs).1
  | [], _, hw => hw
  | (q, b) :: rest, h, hw => by
    unfold unifiedInto.go
    have s1 := wb_unifiedBundle hw b
    cases hub : h.unifiedBundle b with
    | mk h' e =>
      rw [hub] at s1
      cases e with
      | error err => exact s1
      | ok ub =>
        simp only []
        obtain ⟨_, _, u3⟩ := unifiedBundle_result h b h' ub hub
        have s2 := wb_addBundle s1 nd ub .nil [] u3
        generalize h'.addBundle nd ub .nil [] = res2 at s2
        obtain ⟨h'', e2⟩ := res2
        cases e2 with
        | some err => exact s2
        | none => exact wb_unifiedGo nd rest h'' s2

theorem wb_unifiedDoc {h : Heap} (hw : WB h) (d : Nat) : WB (h.unifiedDoc d).1 := by
  unfold unifiedDoc
  simp only []
  have s1 := wb_allocCont hw true none (h.mgrOf d).reg.values none
  generalize h.allocCont true none (h.mgrOf d).reg.values none = al at s1
  obtain ⟨h1, nd⟩ := al
  simp only []
  have s2 : WB (h1.copyDefault nd (h.mgrOf d).dflt) := by
    unfold copyDefault
    split
    · unfold Heap.setDefault; exact wb_setMgr s1 _ _
    · exact s1
  generalize h1.copyDefault nd (h.mgrOf d).dflt = h2 at s2
  unfold unifiedInto
  have s3 := wb_unifiedRecords s2 d
  generalize h2.unifiedRecords d = res at s3
  obtain ⟨h3, e⟩ := res
  cases e with
  | error err => exact s3
  | ok rs =>
    simp only []
    have s4 := wb_addRecords nd rs h3 s3
    generalize h3.addRecords nd rs = res4 at s4
    obtain ⟨h4, e4⟩ := res4
    cases e4 with
    | some err => exact s4
    | none =>
      simp only []
      have s5 := wb_unifiedGo nd (h4.cont d).bundles h4 s4
      generalize unifiedInto.go nd h4 (h4.cont d).bundles = res5 at s5
      obtain ⟨h5, e5⟩ := res5
      cases e5 <;> exact s5

theorem wb_flattened {h : Heap} (hw : WB h) (d : Nat) : WB (h.flattened d).1 := by
  unfold flattened
  simp only []
  split
  · exact hw
  · simp only [newDoc]
    have s1 := wb_allocCont hw true none [] none
    generalize h.allocCont true none [] none = al at s1
    obtain ⟨h1, nd⟩ := al
    simp only []
    have s2 := wb_addRecords nd ((h.cont d).records ++ (h.cont d).bundles.flatMap (fun p => (h.cont p.2).records)) h1 s1
    generalize h1.addRecords nd _ = res at s2
    obtain ⟨h2, e⟩ := res
    cases e <;> exact s2

theorem wb_updateBundle {h : Heap} (hw : WB h) (c o : Nat) : WB (h.updateBundle c o).1 := by
  unfold updateBundle
  simp only []
  split
  · exact hw
  · exact wb_addRecords c _ h hw

theorem wb_updateGo (d : Nat) : ∀ (bs : List (QName × Nat)) (h : Heap), WB h → WB (updateDoc.go d h bs).1
  | [], _, hw => hw
  | (_, b) :: rest, h, hw => by
    unfold updateDoc.go
    cases hid : (h.cont b).id with
    | none => exact hw
    | some bid =>
      simp only []
      cases hget : bundlesGet (h.cont d).bundles bid with
      | some tb =>
        simp only []
        have s1 := wb_updateBundle hw tb b
        generalize h.updateBundle tb b = res at s1
        obtain ⟨h', e⟩ := res
        cases e with
        | none => exact wb_updateGo d rest h' s1
        | some err => exact s1
      | none =>
        simp only []
        have s1 := wb_bundle hw d (.qn bid)
        generalize h.bundle d (.qn bid) = res at s1
        obtain ⟨h', e⟩ := res
        cases e with
        | error err => exact s1
        | ok nb =>
          simp only []
          have s2 := wb_updateBundle s1 nb b
          generalize h'.updateBundle nb b = res2 at s2
          obtain ⟨h'', e2⟩ := res2
          cases e2 with
          | none => exact wb_updateGo d rest h'' s2
          | some err => exact s2

theorem wb_update {h : Heap} (hw : WB h) (c o : Nat) : WB (h.update c o).1 := by
  unfold update
  split
  · unfold updateDoc
    simp only []
    have s1 := wb_addRecords c (h.cont o).records h hw
    generalize h.addRecords c (h.cont o).records = res at s1
    obtain ⟨h1, e⟩ := res
    cases e with
    | some err => exact s1
    | none => exact wb_updateGo c (h.cont o).bundles h1 s1
  · exact wb_updateBundle hw c o

/-- the deriving step is applied to things that exist -/
def DOp.inRange (h : Heap) : DOp → Prop
  | .addBundle _ b _ _ => b < h.conts.size
  | _ => True

theorem dstep_wb {h : Heap} (hw : WB h) (op : DOp) (hin : op.inRange h) : WB (dstep h op) := by
  cases op with
  | addRecord c r => exact wb_newRecord hw c _ _ _
  | update c o => exact wb_update hw c o
  | addBundle d b id nsOrder => exact wb_addBundle hw d b id nsOrder hin
  | flattened d => exact wb_flattened hw d
  | unifiedBundle c => exact wb_unifiedBundle hw c
  | unifiedDoc d => exact wb_unifiedDoc hw d

theorem hstep_wb {h : Heap} (hw : WB h) (op : HOp) : WB (hstep h op) := by
  cases op with
  | newDoc nss => exact wb_allocCont hw true none nss none
  | newBundle id nss doc => exact wb_allocCont hw false id nss doc
  | bundle d id => exact wb_bundle hw d id
  | addNs c n => unfold hstep Heap.addNs; exact wb_setMgr hw c _
  | setDefault c u => unfold hstep Heap.setDefault; exact wb_setMgr hw c _
  | validName c x => exact wb_validName hw c x
  | newRecord c k id attrs => exact wb_newRecord hw c k id attrs
  | addAttributes r attrs => exact wb_addAttributes hw r attrs
  | setTime r st en =>
    unfold hstep Heap.setTime
    dsimp only
    split
    · exact hw
    · split
      · exact wb_setRec hw _ _
      · exact wb_setRec hw _ _
  | addAssertedType r v flt =>
    unfold hstep Heap.addAssertedType
    dsimp only
    generalize autoLiteral (h.mgrOf (h.recCell r).bundle) v flt = res
    obtain ⟨m', conv⟩ := res
    simp only
    cases conv with
    | ok v' => exact wb_setRec (wb_setMgr hw _ m') r _
    | isNone => exact wb_setMgr hw _ m'
    | crash e => exact wb_setMgr hw _ m'

/-- the reachable states of `Reach` in which every `add_bundle` was given a container that exists -/
inductive ReachB : Heap → Prop
  | empty : ReachB Heap.empty
  | mutate {h : Heap} (op : HOp) : ReachB h → op.ok → op.argsOk → Clean (hstep h op) → ReachB (hstep h op)
  | derive {h : Heap} (op : DOp) : ReachB h → op.inRange h → ReachB (dstep h op)

theorem reach_of_reachB {h : Heap} (hr : ReachB h) : Reach h := by
  induction hr with
  | empty => exact .empty
  | mutate op _ h1 h2 h3 ih => exact .mutate op ih h1 h2 h3
  | derive op _ _ ih => exact .derive op ih

theorem reachB_wb {h : Heap} (hr : ReachB h) : WB h := by
  induction hr with
  | empty => exact wb_empty
  | mutate op _ _ _ _ ih => exact hstep_wb ih op
  | derive op _ hin ih => exact dstep_wb ih op hin

/-- **the bundles of `ProvDocument.unified()`, for every document of every reachable state** (`c08_unifiedDoc_bundles` without
    its side condition) -/
theorem c08_unifiedDoc_bundles_reach {h : Heap} (hr : ReachB h) (d : Nat) (hd : d < h.conts.size) (h' : Heap) (nd : Nat)
    (hres : h.unifiedDoc d = (h', .ok nd)) :
    ∃ entries : List (QName × Nat), (h'.cont nd).bundles = entries ∧
      Paired (fun (src e : QName × Nat) =>
        (∀ idb, (h.cont src.2).id = some idb → e.1.uri = idb.uri) ∧
        ∃ hi, FrameB h.conts.size h.recs.size h hi ∧ UnifiedOf hi src.2 h' e.2) (h.cont d).bundles entries :=
  c08_unifiedDoc_bundles h d (reach_good2 (reach_of_reachB hr)) hd (reachB_wb hr d hd) h' nd hres

/-- **`ProvDocument.unified()` is idempotent, for every document of every reachable state** -/
theorem c08_unifiedDoc_idempotent_reach {h : Heap} (hr : ReachB h) (d : Nat) (hd : d < h.conts.size) (h' : Heap) (nd : Nat)
    (hres : h.unifiedDoc d = (h', .ok nd)) (hnd : nd < h'.conts.size) :
    h'.unifiedRecords nd = (h', .ok (h'.cont nd).records) ∧
      ∀ e ∈ (h'.cont nd).bundles, h'.unifiedRecords e.2 = (h', .ok (h'.cont e.2).records) :=
  c08_unifiedDoc_twice_noop (reach_of_reachB hr) d hd (reachB_wb hr d hd) h' nd hres hnd

end Prov.C08

/-
  C15 — DOT output is always valid Graphviz: one node per element, one path per relation.
  (1) syntax safety of the two escaping functions for *arbitrary* strings; (2) structure lemmas about the drawing
  functions of the model (which is compared with what Graphviz parses from the real output).
-/
import Prov.Dot

namespace Prov.C15
open Prov

/-! ### no value can break out of an HTML-like label or an href attribute -/

theorem htmlEscape_no_markup (s : List Char) :
    ∀ c ∈ htmlEscape s, c ≠ '<' ∧ c ≠ '>' ∧ c ≠ '"' ∧ c ≠ '\'' := by
  induction s with
  | nil => simp [htmlEscape]
  | cons x xs ih =>
    intro c hc
    simp only [htmlEscape, List.mem_append] at hc
    rcases hc with hc | hc
    · by_cases h1 : x = '&'
      · subst h1; simp at hc; rcases hc with rfl | rfl | rfl | rfl | rfl <;> decide
      · by_cases h2 : x = '<'
        · subst h2; simp at hc; rcases hc with rfl | rfl | rfl | rfl <;> decide
        · by_cases h3 : x = '>'
          · subst h3; simp at hc; rcases hc with rfl | rfl | rfl | rfl <;> decide
          · by_cases h4 : x = '"'
            · subst h4; simp at hc; rcases hc with rfl | rfl | rfl | rfl | rfl | rfl <;> decide
            · by_cases h5 : x = '\''
              · subst h5; simp at hc; rcases hc with rfl | rfl | rfl | rfl | rfl | rfl <;> decide
              · have e1 : (x == '&') = false := by simpa using h1
                have e2 : (x == '<') = false := by simpa using h2
                have e3 : (x == '>') = false := by simpa using h3
                have e4 : (x == '"') = false := by simpa using h4
                have e5 : (x == '\'') = false := by simpa using h5
                simp [e1, e2, e3, e4, e5] at hc
                subst hc
                exact ⟨h2, h3, h4, h5⟩
    · exact ih c hc

/-- every '&' in the escaped text starts one of the five entity references html.escape produces -/
def ampOk : List Char → Bool
  | [] => true
  | '&' :: rest =>
    (Text.startsWith rest "amp;".toList || Text.startsWith rest "lt;".toList || Text.startsWith rest "gt;".toList ||
     Text.startsWith rest "quot;".toList || Text.startsWith rest "#x27;".toList) && ampOk rest
  | _ :: rest => ampOk rest

theorem htmlEscape_amp_ok (s : List Char) : ampOk (htmlEscape s) = true := by
  induction s with
  | nil => rfl
  | cons x xs ih =>
    by_cases h1 : x = '&'
    · subst h1; simp [htmlEscape, ampOk, Text.startsWith, Text.dropPrefix?, ih]
    · by_cases h2 : x = '<'
      · subst h2; simp [htmlEscape, ampOk, Text.startsWith, Text.dropPrefix?, ih]
      · by_cases h3 : x = '>'
        · subst h3; simp [htmlEscape, ampOk, Text.startsWith, Text.dropPrefix?, ih]
        · by_cases h4 : x = '"'
          · subst h4; simp [htmlEscape, ampOk, Text.startsWith, Text.dropPrefix?, ih]
          · by_cases h5 : x = '\''
            · subst h5; simp [htmlEscape, ampOk, Text.startsWith, Text.dropPrefix?, ih]
            · have e1 : (x == '&') = false := by simpa using h1
              have e2 : (x == '<') = false := by simpa using h2
              have e3 : (x == '>') = false := by simpa using h3
              have e4 : (x == '"') = false := by simpa using h4
              have e5 : (x == '\'') = false := by simpa using h5
              simp only [htmlEscape, e1, e2, e3, e4, e5, Bool.false_eq_true, if_false, List.singleton_append]
              rw [ampOk]
              · exact ih
              · intro h; exact h1 h

/-! ### no value can terminate a quoted DOT string early -/

/-- scanner of the body of a DOT double-quoted string: a quote only after a backslash, no dangling backslash -/
def quotedBodyOk : List Char → Bool
  | [] => true
  | '\\' :: _ :: rest => quotedBodyOk rest
  | ['\\'] => false
  | '"' :: _ => false
  | _ :: rest => quotedBodyOk rest

theorem dotQuoteBody_ok (s : List Char) : quotedBodyOk (dotQuoteBody s) = true := by
  induction s with
  | nil => rfl
  | cons x xs ih =>
    by_cases h1 : x = '\\'
    · subst h1; simp [dotQuoteBody, quotedBodyOk, ih]
    · by_cases h2 : x = '"'
      · subst h2; simp [dotQuoteBody, quotedBodyOk, ih]
      · have e1 : (x == '\\') = false := by simpa using h1
        have e2 : (x == '"') = false := by simpa using h2
        simp only [dotQuoteBody, e1, e2, Bool.false_eq_true, if_false]
        rw [quotedBodyOk]
        · exact ih
        · intro c rest h _; exact h1 h
        · intro h _; exact h1 h
        · intro h; exact h2 h

/-! ### structure -/

theorem uriMapGet_set (m : List (String × String)) (k v : String) : uriMapGet (uriMapSet m k v) k = some v := by
  induction m with
  | nil => simp [uriMapSet, uriMapGet]
  | cons hd tl ih =>
    obtain ⟨k', v'⟩ := hd
    by_cases hk : (k' == k) = true
    · simp [uriMapSet, uriMapGet, hk]
    · simp only [uriMapSet, hk, Bool.false_eq_true, if_false, uriMapGet, List.find?_cons]
      simpa [uriMapGet] using ih

/-- attaching an annotation adds at most one node and never touches the node map -/
theorem attachAnnotation_spec (st : DState) (cl : Option String) (t : String) (r : Record) :
    (attachAnnotation st cl t r).nodeMap = st.nodeMap ∧
    ∃ extra, (attachAnnotation st cl t r).nodes = st.nodes ++ extra ∧ extra.length ≤ 1 := by
  unfold attachAnnotation
  dsimp only
  split
  · exact ⟨rfl, [], by simp, by simp⟩
  · exact ⟨rfl, [_], rfl, by simp⟩

/-- an element record is drawn as exactly one element node (plus at most one annotation node) carrying its URI,
    the shape of its kind, inside its container's cluster, and it becomes the node of that URI -/
theorem c15_one_node_per_element (o : DotOpts) (st : DState) (cl : Option String) (r : Record) (q : QName)
    (hid : r.id = some q) :
    ∃ n extra, (addElemNode o st cl r).nodes = st.nodes ++ n :: extra ∧ n.url = some (dotParsed q.uri) ∧
      n.shape = kindShape r.kind ∧ n.cluster = cl ∧ extra.length ≤ 1 ∧
      uriMapGet (addElemNode o st cl r).nodeMap q.uri = some n.name := by
  simp only [addElemNode, hid]
  by_cases hea : o.elemAttrs = true
  · simp only [hea, if_true]
    generalize hst1 : ({ st with cN := st.cN + 1, nodes := _, nodeMap := _ } : DState) = st1
    obtain ⟨hm, extra, hn, hl⟩ := attachAnnotation_spec st1 cl ("n" ++ toString (st.cN + 1)) r
    refine ⟨elemNode o cl r q ("n" ++ toString (st.cN + 1)), extra, ?_, rfl, rfl, rfl, hl, ?_⟩
    · rw [hn, ← hst1]; simp
    · rw [hm, ← hst1]; exact uriMapGet_set _ _ _
  · simp only [hea, Bool.false_eq_true, if_false]
    exact ⟨elemNode o cl r q ("n" ++ toString (st.cN + 1)), [], by simp, rfl, rfl, rfl, by simp, uriMapGet_set _ _ _⟩

/-- a name that already has a node is never drawn a second time -/
theorem c15_known_uri_reuses_node (st : DState) (cl : Option String) (q : QName) (attr n : String)
    (h : uriMapGet st.nodeMap q.uri = some n) : getNode st cl (some (.qn q)) attr = (st, n) := by
  simp [getNode, h]

end Prov.C15

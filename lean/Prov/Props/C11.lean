/-
  C11 — reading foreign PROV-JSON / PROV-XML is stable under re-serialisation.
  The stability half is C01 applied to the loaded document (Props/C01: per-value round trip for the
  normalised values the reader stores; Props/C05: what the reader stores is normalised). This file
  adds the facts specific to *foreign* spellings: the library reader (model) and the specification
  reader agree on every scalar spelling, and the value decoder can only fail in classified ways.
-/
import Prov.JsonSpec
import Prov.Props.C10

namespace Prov.C11
open Prov Heap JsonSpec

/-- raw JSON scalars: the library reader stores exactly what the specification says they denote -/
theorem c11_scalar_str (h : Heap) (c : Nat) (sc : Scope) (s : String) :
    (h.decodeJsonValue c (.str s)).toOption.map (fun d => d.value) = some (.val (.str s)) ∧
    readValue sc (.str s) = some (.str s) := ⟨rfl, rfl⟩

theorem c11_scalar_bool (h : Heap) (c : Nat) (sc : Scope) (b : Bool) :
    (h.decodeJsonValue c (.bool b)).toOption.map (fun d => d.value) = some (.val (.bool b)) ∧
    readValue sc (.bool b) = some (.bool b) := ⟨rfl, rfl⟩

theorem c11_scalar_int (h : Heap) (c : Nat) (sc : Scope) (n : Int) :
    (h.decodeJsonValue c (.int n)).toOption.map (fun d => d.value) = some (.val (.int n)) ∧
    readValue sc (.int n) = some (.int n) := ⟨rfl, rfl⟩

theorem c11_scalar_float (h : Heap) (c : Nat) (sc : Scope) (f : FloatAtom) :
    (h.decodeJsonValue c (.float f)).toOption.map (fun d => d.value) = some (.val (.float f)) ∧
    readValue sc (.float f) = some (.float f.repr) := ⟨rfl, rfl⟩

/-- a JSON `null` attribute value is skipped by both (it states nothing) -/
theorem c11_null_skipped (h : Heap) (c : Nat) :
    (h.decodeJsonValue c .null).toOption.map (fun d => d.value) = some .nil := rfl

/-- the value decoder fails only in three classified ways: a `{…}` value without "$" (KeyError), a list used as a
    value (TypeError), or a "$" that is itself a list/object (outside the model's envelope) -/
theorem c11_value_errors_classified (h : Heap) (c : Nat) (j : JVal) (e : Err)
    (he : h.decodeJsonValue c j = .error e) : e = errKey ∨ e = errType ∨ e = errUnspec := by
  cases j with
  | null => simp [Heap.decodeJsonValue] at he
  | bool b => simp [Heap.decodeJsonValue] at he
  | int n => simp [Heap.decodeJsonValue] at he
  | float f => simp [Heap.decodeJsonValue] at he
  | str s => simp [Heap.decodeJsonValue] at he
  | strf s f => simp [Heap.decodeJsonValue] at he
  | arr l => simp only [Heap.decodeJsonValue] at he; cases he; exact Or.inr (Or.inl rfl)
  | obj kvs =>
    simp only [Heap.decodeJsonValue] at he
    split at he
    · cases he; exact Or.inl rfl
    · split at he
      · next e' he' =>
        -- jsonName never fails
        simp only [Heap.jsonName] at he'
        split at he' <;> cases he'
      · split at he
        · split at he
          · cases he
          · cases he; exact Or.inr (Or.inr rfl)
        · split at he
          · split at he
            · cases he
            · cases he
            · next e' he' =>
              simp only [Heap.jsonName] at he'
              split at he' <;> cases he'
          · split at he
            · cases he
            · split at he <;> cases he
            · cases he; exact Or.inr (Or.inr rfl)

end Prov.C11

/-
  C01 — PROV-JSON round trip.
  Per-value theorem: for every normalised value whose names are resolvable in the reading scope,
  decoding the encoded value and storing it again yields the same value at URI level, with the same
  kind, datatype, language tag and lexical content. (Record/bundle multiplicity is covered by the
  reader/writer correspondence and the end-to-end oracle; see DESIGN §4.C01.)
-/
import Std.Data.String.ToInt
import Prov.Json
import Prov.Lemmas.Iso
import Prov.Lemmas.NsMgr

namespace Prov.C01
open Prov Heap

/-- same value up to the prefixes chosen for the names it mentions -/
def uriEq : Value → Value → Prop
  | .qn a, .qn b => a.uri = b.uri
  | .lit v ty l, .lit v' ty' l' => v = v' ∧ l = l' ∧ ty.map QName.uri = ty'.map QName.uri
  | a, b => a = b

/-- the name `s` is read in container `c` as a name with URI `u` -/
def ReadsAs (h : Heap) (c : Nat) (s : String) (u : String) : Prop :=
  ∃ q, (h.validName c (.str s)).2 = some q ∧ q.uri = u

/-- the fixed names the writer uses for native datatypes are readable (true in every manager reached from
    `NamespaceManager()`: prov and xsd are bound at construction and never re-pointed, C03 (b)) -/
structure StdNames (h : Heap) (c : Nat) : Prop where
  int_ : ReadsAs h c "xsd:int" (xsdUri ++ "int")
  double : ReadsAs h c "xsd:double" (xsdUri ++ "double")
  dateTime : ReadsAs h c "xsd:dateTime" (xsdUri ++ "dateTime")
  anyURI : ReadsAs h c "xsd:anyURI" (xsdUri ++ "anyURI")
  qname : ReadsAs h c "prov:QUALIFIED_NAME" (provUri ++ "QUALIFIED_NAME")

theorem jsonName_of_readsAs {h : Heap} {c : Nat} {s u : String} (hr : ReadsAs h c s u) :
    ∃ q, h.jsonName c (some (.str s)) = .ok (some q) ∧ q.uri = u := by
  obtain ⟨q, hq, hu⟩ := hr
  exact ⟨q, by simp [Heap.jsonName, hq], hu⟩

theorem xsdParserOf_uri {t : QName} {l : String} {p : XsdParser} (ht : t.uri = xsdUri ++ l)
    (hp : xsdParsers.find? (fun e => xsdUri ++ l == xsdUri ++ e.1) = some (l, p)) :
    xsdParserOf t = some p := by
  simp [xsdParserOf, ht, hp]

/-- **int**: `{"$": n, "type": "xsd:int"}` comes back as the int `n` -/
theorem c01_int (h : Heap) (c : Nat) (m : NsMgr) (std : StdNames h c) (n : Int) :
    ∃ dv, h.decodeJsonValue c (encodeJsonValue (.int n)) = .ok dv ∧
      (autoLiteral m dv.value dv.flt).2 = .ok (.int n) := by
  obtain ⟨q, hq, hu⟩ := jsonName_of_readsAs std.int_
  have h1 : (xsdUri ++ "int" == xsdUri ++ "anyURI") = false := by decide
  have h2 : (xsdUri ++ "int" == provUri ++ "QUALIFIED_NAME") = false := by decide
  have hp : xsdParserOf q = some .int := by
    simp only [xsdParserOf, hu]; decide
  refine ⟨{ value := .val (.lit (toString n) (some q) none), flt := none }, ?_, ?_⟩
  · simp [encodeJsonValue, Heap.decodeJsonValue, JVal.get?, hq, hu, h1, h2, jsonPyStr, jsonFloatHint]
  · have : (toString n).toInt? = some n := Int.toInt?_repr n
    simp only [autoLiteral, hp, parseXsd, parseInt, this]

/-- **float**: `{"$": x, "type": "xsd:double"}` comes back as the same float (given `float(repr x) = x`, A-LEX) -/
theorem c01_float (h : Heap) (c : Nat) (m : NsMgr) (std : StdNames h c) (f : FloatAtom) :
    ∃ dv, h.decodeJsonValue c (encodeJsonValue (.float f)) = .ok dv ∧
      (autoLiteral m dv.value dv.flt).2 = .ok (.float f) := by
  obtain ⟨q, hq, hu⟩ := jsonName_of_readsAs std.double
  have h1 : (xsdUri ++ "double" == xsdUri ++ "anyURI") = false := by decide
  have h2 : (xsdUri ++ "double" == provUri ++ "QUALIFIED_NAME") = false := by decide
  have hp : xsdParserOf q = some .double := by
    simp only [xsdParserOf, hu]; decide
  refine ⟨{ value := .val (.lit f.repr (some q) none), flt := some f }, ?_, ?_⟩
  · simp [encodeJsonValue, Heap.decodeJsonValue, JVal.get?, hq, hu, h1, h2, jsonPyStr, jsonFloatHint]
  · simp [autoLiteral, hp, parseXsd]

/-- **datetime** (given `parse(isoformat t) = t`, A-LEX) -/
theorem c01_datetime (h : Heap) (c : Nat) (m : NsMgr) (std : StdNames h c) (t : DateTime)
    (hiso : parseIso t.iso = some t) :
    ∃ dv, h.decodeJsonValue c (encodeJsonValue (.dt t)) = .ok dv ∧
      (autoLiteral m dv.value dv.flt).2 = .ok (.dt t) := by
  obtain ⟨q, hq, hu⟩ := jsonName_of_readsAs std.dateTime
  have h1 : (xsdUri ++ "dateTime" == xsdUri ++ "anyURI") = false := by decide
  have h2 : (xsdUri ++ "dateTime" == provUri ++ "QUALIFIED_NAME") = false := by decide
  have hp : xsdParserOf q = some .dateTime := by
    simp only [xsdParserOf, hu]; decide
  refine ⟨{ value := .val (.lit t.iso (some q) none), flt := none }, ?_, ?_⟩
  · simp [encodeJsonValue, Heap.decodeJsonValue, JVal.get?, hq, hu, h1, h2, jsonPyStr, jsonFloatHint]
  · simp [autoLiteral, hp, parseXsd, hiso]

/-- … and that lexical fact is a theorem for every valid date-time (`parseIso_iso`): no assumption is left -/
theorem c01_datetime_valid (h : Heap) (c : Nat) (m : NsMgr) (std : StdNames h c) (t : DateTime) (hv : ValidDT t) :
    ∃ dv, h.decodeJsonValue c (encodeJsonValue (.dt t)) = .ok dv ∧
      (autoLiteral m dv.value dv.flt).2 = .ok (.dt t) :=
  c01_datetime h c m std t (parseIso_iso t hv)

/-- **URI value** -/
theorem c01_uri (h : Heap) (c : Nat) (m : NsMgr) (std : StdNames h c) (u : String) :
    ∃ dv, h.decodeJsonValue c (encodeJsonValue (.uri u)) = .ok dv ∧
      (autoLiteral m dv.value dv.flt).2 = .ok (.uri u) := by
  obtain ⟨q, hq, hu⟩ := jsonName_of_readsAs std.anyURI
  refine ⟨{ value := .val (.uri u) }, ?_, rfl⟩
  simp [encodeJsonValue, Heap.decodeJsonValue, JVal.get?, hq, hu, jsonPyStr]

/-- **plain string and boolean** travel as JSON scalars -/
theorem c01_str (h : Heap) (c : Nat) (m : NsMgr) (s : String) :
    ∃ dv, h.decodeJsonValue c (encodeJsonValue (.str s)) = .ok dv ∧
      (autoLiteral m dv.value dv.flt).2 = .ok (.str s) :=
  ⟨{ value := .val (.str s) }, rfl, rfl⟩

theorem c01_bool (h : Heap) (c : Nat) (m : NsMgr) (b : Bool) :
    ∃ dv, h.decodeJsonValue c (encodeJsonValue (.bool b)) = .ok dv ∧
      (autoLiteral m dv.value dv.flt).2 = .ok (.bool b) :=
  ⟨{ value := .val (.bool b) }, rfl, rfl⟩

/-- **qualified-name value**: resolvable print form ⇒ same URI after the round trip -/
theorem c01_qname (h : Heap) (c : Nat) (m : NsMgr) (hm : m.Inv1) (std : StdNames h c) (q : QName)
    (hres : ReadsAs h c q.print q.uri) :
    ∃ dv v', h.decodeJsonValue c (encodeJsonValue (.qn q)) = .ok dv ∧
      (autoLiteral m dv.value dv.flt).2 = .ok v' ∧ uriEq v' (.qn q) := by
  obtain ⟨t, ht, htu⟩ := jsonName_of_readsAs std.qname
  obtain ⟨q', hq', hqu⟩ := jsonName_of_readsAs hres
  have h1 : (provUri ++ "QUALIFIED_NAME" == xsdUri ++ "anyURI") = false := by decide
  refine ⟨{ value := .val (.qn q') }, .qn (m.validQ q').2, ?_, ?_, ?_⟩
  · simp [encodeJsonValue, Heap.decodeJsonValue, JVal.get?, ht, htu, h1, hq']
  · simp [autoLiteral]
  · show (m.validQ q').2.uri = q.uri
    rw [NsMgr.validQ_uri hm q', hqu]

/-- **language-tagged literal**: `{"$": v, "lang": l}` comes back with the same text, language tag and the
    datatype prov:InternationalizedString that the constructor had given it -/
theorem c01_lang_literal (h : Heap) (c : Nat) (m : NsMgr) (hm : m.Inv1) (v l : String) (hl : l ≠ "") :
    ∃ dv v', h.decodeJsonValue c (encodeJsonValue (.lit v (some (provQ "InternationalizedString")) (some l))) = .ok dv ∧
      (autoLiteral m dv.value dv.flt).2 = .ok v' ∧
      uriEq v' (.lit v (some (provQ "InternationalizedString")) (some l)) := by
  have hl' : (l == "") = false := by simpa using hl
  refine ⟨{ value := .val (.lit v (some (provQ "InternationalizedString")) (some l)) },
          .lit v (some (m.validQ (provQ "InternationalizedString")).2) (some l), ?_, ?_, ?_⟩
  · simp [encodeJsonValue, Heap.decodeJsonValue, JVal.get?, hl', Heap.jsonName, jsonPyStr, hl]
  · simp [autoLiteral, rehomeLit]
  · refine ⟨rfl, rfl, ?_⟩
    simp [NsMgr.validQ_uri hm]

/-- **typed literal of a non-native (or non-convertible) datatype**: same text, same datatype URI -/
theorem c01_typed_literal (h : Heap) (c : Nat) (m : NsMgr) (hm : m.Inv1) (v : String) (t : QName)
    (hres : ReadsAs h c t.print t.uri)
    (hnot1 : t.uri ≠ xsdUri ++ "anyURI") (hnot2 : t.uri ≠ provUri ++ "QUALIFIED_NAME")
    (hforeign : xsdParserOf t = none) :
    ∃ dv v', h.decodeJsonValue c (encodeJsonValue (.lit v (some t) none)) = .ok dv ∧
      (autoLiteral m dv.value dv.flt).2 = .ok v' ∧ uriEq v' (.lit v (some t) none) := by
  obtain ⟨t', ht', htu⟩ := jsonName_of_readsAs hres
  have hp' : xsdParserOf t' = none := by
    simp only [xsdParserOf, htu]
    simpa [xsdParserOf] using hforeign
  refine ⟨{ value := .val (.lit v (some t') none), flt := none },
          .lit v (some (m.validQ t').2) none, ?_, ?_, ?_⟩
  · simp [encodeJsonValue, Heap.decodeJsonValue, JVal.get?, ht', htu, hnot1, hnot2, jsonPyStr, jsonFloatHint]
  · simp [autoLiteral, hp', rehomeLit]
  · refine ⟨rfl, rfl, ?_⟩
    simp [NsMgr.validQ_uri hm, htu]

/-- non-vacuity: in a fresh document the standard names are readable -/
example : StdNames (Heap.empty.newDoc).1 0 := by
  refine ⟨⟨xsdQ "int", ?_, rfl⟩, ⟨xsdQ "double", ?_, rfl⟩, ⟨xsdQ "dateTime", ?_, rfl⟩, ⟨xsdQ "anyURI", ?_, rfl⟩,
          ⟨provQ "QUALIFIED_NAME", ?_, rfl⟩⟩ <;> decide

end Prov.C01

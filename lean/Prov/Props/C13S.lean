/-
  C13 / C01, the record phase of the PROV-JSON reader registers nothing in a document.

  `decode_json_container` first declares the namespaces of the `prefix` block and then builds the records. Every name the
  record phase hands to `new_record` — attribute names, references, qualified-name values, literal datatypes, the members of
  the multi-entity `hadMember` form — was obtained from a string through the document's own resolver (or is a PROV term), so
  it is *owned* by the document's manager (`Props/C03B`), and arguments made of owned names register nothing
  (`Props/C13R`). The theorems below carry that through the reader's own control flow:

  * `decodeElemAttrs_owned`   whatever the attribute loop of one JSON record object accumulates is owned;
  * `c13_json_element_registers_nothing`  one `decode_json_element` — `new_record` plus the membership loop, succeeding or
    refused — leaves every namespace-manager cell of the heap as it was;
  * `c13_json_records_register_nothing`   … and so does the whole record walk (`C01.elemFold`, which `Props/C01D` proves to be
    the reader's record phase), for any number of record objects, any labels, any identifiers.

  Consequence used by C01: across the record phase the hypotheses of `c01_record` about the reading container (which names
  read back, `StdNames`) are statements about one and the same manager state.
-/
import Prov.Props.C13R
import Prov.Props.C03C
import Prov.Props.C01D
import Prov.Props.C01R
import Prov.Lemmas.Frame

namespace Prov.C13
open Prov Prov.Heap Prov.C03

/-- a container that resolves names alone (a document), in a state the namespace histories of C03 reach -/
structure DocMgr (h : Heap) (c : Nat) : Prop where
  noParent : h.parentOf c = none
  inv2 : (h.mgrOf c).Inv2
  prov : (h.mgrOf c).tbl.get? "prov" = some nsProv

/-- the value part of `ArgOwned` -/
def ValOwned (m : NsMgr) (v : ArgVal) : Prop :=
  match v with
  | .val (.qn q) => m.Owns q
  | .recId (some q) => m.Owns q
  | .val (.lit _ (some ty) _) => m.Owns ty
  | _ => True

theorem argOwned_iff (m : NsMgr) (a : AttrArg) :
    ArgOwned m a ↔ (match a.name with | .qn q => m.Owns q | _ => True) ∧ ValOwned m a.value := Iff.rfl

theorem owns_of_resolved {m : NsMgr} (hm : m.Inv2) (s : String) (q : QName)
    (h : (m.validName none (.str s)).2 = some q) : m.Owns q := by
  simp only [NsMgr.validName, NsMgr.resolveStr] at h
  have hown : m.resolveOwn s = some q := by
    split at h
    · simp at h
    · split at h
      · simp at h
      · cases hr : m.resolveOwn s with
        | none => rw [hr] at h; simp at h
        | some q' => rw [hr] at h; simpa using h
  exact resolveOwn_owned hm s q hown

theorem provQ_owned {m : NsMgr} (hp : m.tbl.get? "prov" = some nsProv) (l : String) : m.Owns (provQ l) :=
  Or.inl ⟨by show "prov" ≠ ""; decide, hp⟩

theorem heap_resolved_owned {h : Heap} {c : Nat} (d : DocMgr h c) (s : String) (q : QName)
    (hq : (h.validName c (.str s)).2 = some q) : (h.mgrOf c).Owns q := by
  have : (h.validName c (.str s)).2 = ((h.mgrOf c).validName none (.str s)).2 := by
    simp only [Heap.validName, d.noParent]
  rw [this] at hq
  exact owns_of_resolved d.inv2 s q hq

theorem jsonName_owned {h : Heap} {c : Nat} (d : DocMgr h c) (j : Option JVal) (q : QName)
    (hq : h.jsonName c j = .ok (some q)) : (h.mgrOf c).Owns q := by
  unfold Heap.jsonName at hq
  split at hq
  · simp at hq
  · simp at hq
  · rename_i s
    exact heap_resolved_owned d s q (by simpa using hq)
  · rename_i s _
    exact heap_resolved_owned d s q (by simpa using hq)
  · simp at hq

theorem jsonAttrName_owned {h : Heap} {c : Nat} (d : DocMgr h c) (k : String) (a : QName)
    (ha : h.jsonAttrName c k = some a) : (h.mgrOf c).Owns a := by
  unfold Heap.jsonAttrName at ha
  split at ha
  · simp only [Option.some.injEq] at ha
    rw [← ha]; exact provQ_owned d.prov _
  · exact heap_resolved_owned d k a ha

/-- the literal branch of `decode_json_representation`, in isolation -/
theorem litBranch_owned (m : NsMgr) (hp : m.tbl.get? "prov" = some nsProv) (dt : Option QName)
    (hdt : ∀ ty, dt = some ty → m.Owns ty) (ps : Option String) (lang : Option JVal) (fh : Option FloatAtom) (dv : DecVal)
    (hd : (match ps, lang with
      | some s, none => (Except.ok { value := .val (.lit s dt none), flt := fh } : Except Err DecVal)
      | some s, some (.str l) =>
        if l == "" then .ok { value := .val (.lit s dt (some "")) }
        else .ok { value := .val (.lit s (some (provQ "InternationalizedString")) (some l)) }
      | _, _ => .error errUnspec) = .ok dv) : ValOwned m dv.value := by
  have hlit : ∀ s l, ValOwned m (.val (.lit s dt l)) := by
    intro s l
    cases dt with
    | none => trivial
    | some ty => exact hdt ty rfl
  cases ps with
  | none => simp at hd
  | some s =>
    cases lang with
    | none =>
      simp only [Except.ok.injEq] at hd
      rw [← hd]; exact hlit s none
    | some l =>
      cases l with
      | str l =>
        simp only at hd
        split at hd
        · simp only [Except.ok.injEq] at hd
          rw [← hd]; exact hlit s _
        · simp only [Except.ok.injEq] at hd
          rw [← hd]; exact provQ_owned hp _
      | _ => simp at hd

theorem decodeJsonValue_owned {h : Heap} {c : Nat} (d : DocMgr h c) (j : JVal) (dv : DecVal)
    (hd : h.decodeJsonValue c j = .ok dv) : ValOwned (h.mgrOf c) dv.value := by
  unfold Heap.decodeJsonValue at hd
  repeat' split at hd
  all_goals first
    | (simp at hd; done)
    | (simp only [Except.ok.injEq] at hd
       subst hd
       first
        | trivial
        | (rename_i q hq; exact jsonName_owned d _ q hq))
    | (rename_i dt hdt _ _ _
       exact litBranch_owned _ d.prov dt (fun ty e => jsonName_owned d _ ty (by rw [hdt, e])) _ _ _ dv hd)
    | (rename_i dt hdt _ _ _ _
       exact litBranch_owned _ d.prov dt (fun ty e => jsonName_owned d _ ty (by rw [hdt, e])) _ _ _ dv hd)

theorem conv_owned {h : Heap} {c : Nat} (d : DocMgr h c) (attr? : Option QName)
    (ha : ∀ a, attr? = some a → (h.mgrOf c).Owns a) :
    ∀ (vs : List JVal) (as : List AttrArg), Heap.decodeElemAttrs.conv h c attr? vs = .ok as →
      ∀ a ∈ as, ArgOwned (h.mgrOf c) a
  | [], as, hc => by
    simp only [Heap.decodeElemAttrs.conv, Except.ok.injEq] at hc
    rw [← hc]; simp
  | v :: more, as, hc => by
    unfold Heap.decodeElemAttrs.conv at hc
    split at hc
    · rename_i dv tl hdv htl
      simp only [Except.ok.injEq] at hc
      rw [← hc]
      intro a hmem
      rcases List.mem_cons.mp hmem with rfl | hmem
      · refine ⟨?_, decodeJsonValue_owned d v dv hdv⟩
        cases attr? with
        | none => trivial
        | some x => exact ha x rfl
      · exact conv_owned d attr? ha more tl htl a hmem
    · simp at hc
    · simp at hc

theorem dictSet_owned (m : NsMgr) (k : QName) (v : ArgVal) (hk : m.Owns k) (hv : ValOwned m v) :
    ∀ (dct : List (QName × ArgVal)), (∀ e ∈ dct, m.Owns e.1 ∧ ValOwned m e.2) →
      ∀ e ∈ dictSet dct k v, m.Owns e.1 ∧ ValOwned m e.2
  | [], _, e, he => by
    simp only [dictSet, List.mem_singleton] at he
    rw [he]; exact ⟨hk, hv⟩
  | (k', v') :: rest, hd, e, he => by
    unfold dictSet at he
    split at he
    · rcases List.mem_cons.mp he with rfl | he
      · exact ⟨(hd (k', v') List.mem_cons_self).1, hv⟩
      · exact hd e (List.mem_cons_of_mem _ he)
    · rcases List.mem_cons.mp he with rfl | he
      · exact hd (k', v') List.mem_cons_self
      · exact dictSet_owned m k v hk hv rest (fun x hx => hd x (List.mem_cons_of_mem _ hx)) e he

/-- what the accumulator of the attribute loop holds is owned -/
def AccOwned (m : NsMgr) (acc : ElemAcc) : Prop :=
  (∀ e ∈ acc.formal, m.Owns e.1 ∧ ValOwned m e.2) ∧ ∀ a ∈ acc.other, ArgOwned m a

/-- **the attribute loop of one JSON record object accumulates owned names only** -/
theorem decodeElemAttrs_owned {h : Heap} {c : Nat} (d : DocMgr h c) (kind : RecKind) :
    ∀ (kvs : List (String × JVal)) (acc acc' : ElemAcc), AccOwned (h.mgrOf c) acc →
      h.decodeElemAttrs c kind kvs acc = .ok acc' → AccOwned (h.mgrOf c) acc'
  | [], acc, acc', ho, hd => by
    simp only [Heap.decodeElemAttrs, Except.ok.injEq] at hd
    rw [← hd]; exact ho
  | (k, values) :: rest, acc, acc', ho, hd => by
    unfold Heap.decodeElemAttrs at hd
    have hother : ∀ as, Heap.decodeElemAttrs.conv h c (h.jsonAttrName c k) (match values with | .arr l => l | x => [x]) = .ok as →
        h.decodeElemAttrs c kind rest { acc with other := acc.other ++ as } = .ok acc' → AccOwned (h.mgrOf c) acc' := by
      intro as has hd'
      have hacc : AccOwned (h.mgrOf c) { acc with other := acc.other ++ as } := by
        refine ⟨ho.1, ?_⟩
        intro a ha
        rcases List.mem_append.mp ha with h1 | h1
        · exact ho.2 a h1
        · exact conv_owned d (h.jsonAttrName c k) (fun x hx => jsonAttrName_owned d k x hx) _ as has a h1
      exact decodeElemAttrs_owned d kind rest _ acc' hacc hd'
    cases hattr : h.jsonAttrName c k with
    | none =>
      simp only [hattr] at hd hother
      split at hd
      · rename_i hc; simp at hc
      · split at hd
        · simp at hd
        · rename_i as has
          exact hother as has hd
    | some attr =>
      simp only [hattr] at hd hother
      have hown := jsonAttrName_owned d k attr hattr
      by_cases hp : isProvAttr attr = true
      · simp only [hp, if_true] at hd
        split at hd
        · simp at hd
        · rename_i v extra _
          split at hd
          · simp at hd
          · rename_i av hav
            refine decodeElemAttrs_owned d kind rest _ acc' (?_ : AccOwned _ ⟨dictSet acc.formal attr av, acc.other,
                         if extra.isEmpty then acc.extraMembers else extra⟩) hd
            refine ⟨?_, ho.2⟩
            refine dictSet_owned _ attr av hown ?_ acc.formal ho.1
            -- the value
            split at hav
            · split at hav
              · rename_i q hq
                simp only [Except.ok.injEq] at hav; rw [← hav]
                exact jsonName_owned d _ q hq
              · simp only [Except.ok.injEq] at hav; rw [← hav]; trivial
              · simp at hav
            · split at hav
              · split at hav <;> (simp only [Except.ok.injEq] at hav; rw [← hav]; trivial)
              · split at hav <;> (simp only [Except.ok.injEq] at hav; rw [← hav]; trivial)
              · simp at hav
      · have hp' : isProvAttr attr = false := by simpa using hp
        simp only [hp', Bool.false_eq_true, if_false] at hd
        split at hd
        · simp at hd
        · rename_i as has
          exact hother as has hd

/-- manager cells and the container's manager reference are the same in two heaps -/
structure SameMgrs (h h' : Heap) (c : Nat) : Prop where
  cells : ∀ i, h'.mgrCell i = h.mgrCell i
  ref : (h'.cont c).mgr = (h.cont c).mgr

theorem SameMgrs.mgrOf {h h' : Heap} {c : Nat} (s : SameMgrs h h' c) : h'.mgrOf c = h.mgrOf c := by
  simp only [Heap.mgrOf, s.ref, s.cells]

theorem SameMgrs.parentOf {h h' : Heap} {c : Nat} (s : SameMgrs h h' c) : h'.parentOf c = h.parentOf c := by
  simp only [Heap.parentOf, s.ref, s.cells]

theorem SameMgrs.docMgr {h h' : Heap} {c : Nat} (s : SameMgrs h h' c) (d : DocMgr h c) : DocMgr h' c :=
  ⟨by rw [s.parentOf]; exact d.noParent, by rw [s.mgrOf]; exact d.inv2, by rw [s.mgrOf]; exact d.prov⟩

theorem sameMgrs_refl (h : Heap) (c : Nat) : SameMgrs h h c := ⟨fun _ => rfl, rfl⟩

theorem sameMgrs_trans {a b e : Heap} {c : Nat} (x : SameMgrs a b c) (y : SameMgrs b e c) : SameMgrs a e c :=
  ⟨fun i => (y.cells i).trans (x.cells i), y.ref.trans x.ref⟩

/-- `new_record` with a textual (or absent) identifier and owned arguments -/
theorem sameMgrs_newRecord_owned (h : Heap) (c : Nat) (k : RecKind) (idArg : NameArg) (attrs : List AttrArg)
    (hid : match idArg with | .qn q => (h.mgrOf c).Owns q | _ => True)
    (hargs : ∀ a ∈ attrs, ArgOwned (h.mgrOf c) a) : SameMgrs h (h.newRecord c k idArg attrs).1 c :=
  ⟨fun i => c13_newRecord_owned_mgrs h c k idArg attrs hid hargs i, cont_mgr_newRecord h c c k idArg attrs⟩

theorem members_sameMgrs (c : Nat) (coll : ArgVal) : ∀ (ms : List JVal) (h : Heap), DocMgr h c →
    ValOwned (h.mgrOf c) coll → SameMgrs h (Heap.decodeJsonElement.members c coll h ms).1 c
  | [], h, _, _ => sameMgrs_refl h c
  | mj :: more, h, d, hc => by
    unfold Heap.decodeJsonElement.members
    simp only []
    have hargs : ∀ a ∈ ([{ name := .qn (formalQ "collection"), value := coll },
        { name := .qn (formalQ "entity"), value := (match h.jsonName c (some mj) with
                  | .ok (some q) => ArgVal.val (.qn q)
                  | _ => ArgVal.nil) }] : List AttrArg), ArgOwned (h.mgrOf c) a := by
      intro a ha
      simp only [List.mem_cons, List.mem_nil_iff, or_false] at ha
      rcases ha with rfl | rfl
      · exact ⟨provQ_owned d.prov _, hc⟩
      · refine ⟨provQ_owned d.prov _, ?_⟩
        show ValOwned _ _
        split
        · rename_i q hq
          exact jsonName_owned d _ q hq
        · trivial
    have s1 := sameMgrs_newRecord_owned h c .membership .nil _ trivial hargs
    generalize h.newRecord c .membership .nil _ = res at s1
    obtain ⟨h', e⟩ := res
    cases e with
    | error err => exact s1
    | ok r =>
      simp only
      exact sameMgrs_trans s1 (members_sameMgrs c coll more h' (s1.docMgr d) (by rw [s1.mgrOf]; exact hc))

/-- one `decode_json_element` on a document -/
theorem sameMgrs_decodeJsonElement {h : Heap} {c : Nat} (d : DocMgr h c) (kind : RecKind) (rid : String) (e : JVal) :
    SameMgrs h (h.decodeJsonElement c kind rid e).1 c := by
  unfold Heap.decodeJsonElement
  split
  · rename_i kvs
    split
    · exact sameMgrs_refl h c
    · rename_i acc hacc
      have ho := decodeElemAttrs_owned d kind kvs {} acc ⟨by simp, by simp⟩ hacc
      have hargs : ∀ a ∈ acc.formal.map (fun p => ({ name := .qn p.1, value := p.2 } : AttrArg)) ++ acc.other,
          ArgOwned (h.mgrOf c) a := by
        intro a ha
        rcases List.mem_append.mp ha with h1 | h1
        · obtain ⟨p, hp, rfl⟩ := List.mem_map.mp h1
          exact ho.1 p hp
        · exact ho.2 a h1
      simp only []
      have s1 := sameMgrs_newRecord_owned h c kind (.str rid) _ trivial hargs
      generalize h.newRecord c kind (.str rid) _ = res at s1
      obtain ⟨h1, r⟩ := res
      cases r with
      | error err => exact s1
      | ok rr =>
        simp only
        split
        · exact s1
        · split
          · exact s1
          · rename_i x coll hfind
            have hmem := List.mem_of_find?_eq_some hfind
            have hc : ValOwned (h1.mgrOf c) coll := by rw [s1.mgrOf]; exact (ho.1 _ hmem).2
            exact sameMgrs_trans s1 (members_sameMgrs c coll acc.extraMembers h1 (s1.docMgr d) hc)
  · exact sameMgrs_refl h c

/-- **C13/C01: one `decode_json_element` — `new_record`, the membership loop, success or refusal — leaves every
    namespace-manager cell of the heap as it was** -/
theorem c13_json_element_registers_nothing {h : Heap} {c : Nat} (d : DocMgr h c) (kind : RecKind) (rid : String) (e : JVal)
    (i : Nat) : (h.decodeJsonElement c kind rid e).1.mgrCell i = h.mgrCell i :=
  (sameMgrs_decodeJsonElement d kind rid e).cells i

theorem sameMgrs_elemFold (c : Nat) : ∀ (elems : List (String × String × JVal)) (h : Heap), DocMgr h c →
    SameMgrs h (C01.elemFold c h elems).1 c
  | [], h, _ => sameMgrs_refl h c
  | (label, rid, e) :: rest, h, d => by
    unfold C01.elemFold
    cases RecKind.ofProvN label with
    | none => exact sameMgrs_refl h c
    | some kind =>
      simp only []
      have s1 := sameMgrs_decodeJsonElement d kind rid e
      generalize h.decodeJsonElement c kind rid e = res at s1
      obtain ⟨h', er⟩ := res
      cases er with
      | none => exact sameMgrs_trans s1 (sameMgrs_elemFold c rest h' (s1.docMgr d))
      | some x => exact s1

/-- **C13/C01: the record phase of the PROV-JSON reader registers nothing in a document** — any number of record objects
    under any labels and identifiers, whether the walk completes or stops at a refusal: every manager cell is as the `prefix`
    block left it, and the document still resolves every string as before -/
theorem c13_json_records_register_nothing (c : Nat) (elems : List (String × String × JVal)) (h : Heap) (d : DocMgr h c) :
    (∀ i, (C01.elemFold c h elems).1.mgrCell i = h.mgrCell i) ∧
    (C01.elemFold c h elems).1.mgrOf c = h.mgrOf c ∧
    ∀ s, ((C01.elemFold c h elems).1.validName c (.str s)).2 = (h.validName c (.str s)).2 := by
  have s := sameMgrs_elemFold c elems h d
  refine ⟨s.cells, s.mgrOf, fun x => ?_⟩
  simp only [Heap.validName, s.mgrOf, s.parentOf]

/-- non-vacuity: the document of `C01.hEx` (built with `ProvDocument(namespaces={'ex': …})`) is such a container, so the
    theorem applies to every record walk over it -/
theorem hEx_docMgr : DocMgr C01.hEx 0 := by
  have hm : C01.hEx.mgrOf 0 = NsMgr.init.addNss [⟨"ex", "http://example.org/"⟩] := (c03_newDoc_mgr Heap.empty _).1
  refine ⟨(c03_newDoc_mgr Heap.empty _).2, ?_, ?_⟩
  · rw [hm]
    exact (c03_constructor_inv [⟨"ex", "http://example.org/"⟩] (by decide) [] (by simp)).1.2
  · rw [hm]; decide +kernel

example (elems : List (String × String × JVal)) (s : String) :
    ((C01.elemFold 0 C01.hEx elems).1.validName 0 (.str s)).2 = (C01.hEx.validName 0 (.str s)).2 :=
  (c13_json_records_register_nothing 0 elems C01.hEx hEx_docMgr).2.2 s

end Prov.C13

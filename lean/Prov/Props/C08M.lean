/-
  C08, idempotence at document level: the document `ProvDocument.unified()` returns holds — at top level and in each of its
  bundles — no two records with one identifier URI and one kind (`c08_unifiedDoc_nodupkey`). Each bundle of the result is the
  result of `ProvBundle.unified()` (`c08_unified_nodupkey`), untouched by the rest of the loop; the top-level records are `==`
  copies of the placed list of the source's own records (`placed_keys_nodup`). Hence unifying the result again merges nothing,
  neither at top level nor in any bundle (`c08_unifiedDoc_twice_noop`).
-/
import Prov.Props.C08K

namespace Prov.C08
open Prov Prov.Heap Prov.C05 Prov.C09 Prov.C18 Prov.C04 Prov.C13

/-- the keys of a container only depend on its record list and on the cells of those records -/
theorem nodupkey_transport {h h' : Heap} (c : Nat) (hk : NoDupKey h c) (hr : (h'.cont c).records = (h.cont c).records)
    (hc : ∀ r ∈ (h.cont c).records, h'.recCell r = h.recCell r) : NoDupKey h' c := by
  unfold NoDupKey at hk ⊢
  rw [hr]
  have aux : ∀ (l : List Nat), (∀ r ∈ l, h'.recCell r = h.recCell r) → l.filterMap (keyOf h') = l.filterMap (keyOf h) := by
    intro l
    induction l with
    | nil => intro _; rfl
    | cons x xs ih =>
      intro hl
      have hx : keyOf h' x = keyOf h x := by unfold keyOf; rw [hl x List.mem_cons_self]
      rw [List.filterMap_cons, List.filterMap_cons, hx, ih (fun r hr => hl r (List.mem_cons_of_mem _ hr))]
  rw [aux _ hc]; exact hk

/-- the loop over the source's bundles: every bundle it attaches holds pairwise different keys, at the end of the loop -/
theorem unifiedGo_nodup (nd : Nat) : ∀ (bs : List (QName × Nat)) (h h' : Heap), Good2 h → WF2 h → nd < h.conts.size →
    (∀ p ∈ bs, p.2 < nd) → unifiedInto.go nd h bs = (h', none) →
    ∃ entries : List (QName × Nat), (h'.cont nd).bundles = (h.cont nd).bundles ++ entries ∧
      ∀ e ∈ entries, NoDupKey h' e.2 ∧ e.2 < h'.conts.size
  | [], h, h', _, _, _, _, hres => by
    simp only [unifiedInto.go, Prod.mk.injEq, and_true] at hres
    subst hres
    exact ⟨[], by simp, fun e he => by cases he⟩
  | (qs, b) :: rest, h, h', g, hw, hnd, hbs, hres => by
    unfold unifiedInto.go at hres
    cases hub : h.unifiedBundle b with
    | mk h1 e =>
      rw [hub] at hres
      cases e with
      | error err => simp at hres
      | ok ub =>
        simp only at hres
        cases hab : h1.addBundle nd ub .nil [] with
        | mk h2 e2 =>
          rw [hab] at hres
          cases e2 with
          | some err => simp at hres
          | none =>
            simp only at hres
            have hb : b < nd := hbs (qs, b) List.mem_cons_self
            obtain ⟨q, s1, _, s3, s4, s5, _, g2, f2, _, _, w2⟩ := unifiedGo_step nd h g hnd b hb h1 ub hub h2 hab
            have hw1 : WF2 h1 := by have := wf2_unifiedBundle hw b; rw [hub] at this; exact this
            have hw2 : WF2 h2 := by have := wf2_addBundle hw1 nd ub .nil []; rw [hab] at this; exact this
            have hnd2 : nd < h2.conts.size := Nat.lt_of_lt_of_le hnd f2.csize
            -- the bundle just attached: keys pairwise different when `unified()` returned it, and attaching changes neither
            -- its record list nor a record cell
            have k1 := c08_unified_nodupkey g hw b (by omega) h1 ub hub
            obtain ⟨u1, u2, u3⟩ := unifiedBundle_result h b h1 ub hub
            have hne : ub ≠ nd := by omega
            have hnd1 : nd < h1.conts.size := by
              have := (frameB_unifiedBundle 0 0 h b (Nat.zero_le _) (Nat.zero_le _)).1.csize
              rw [hub] at this
              exact Nat.lt_of_lt_of_le hnd this
            have hab' := hab
            unfold addBundle at hab'
            simp only [u1, Bool.false_eq_true, if_false] at hab'
            obtain ⟨_, _, _, _, _, c5, _, _, _, c9, _⟩ := attachBundle_ok h1 nd ub .nil hne hnd1 u3 h2 hab'
            have k2 : NoDupKey h2 ub := nodupkey_transport ub k1 c5 (fun r _ => by simp [recCell, c9])
            obtain ⟨entries, t1, t2⟩ := unifiedGo_nodup nd rest h2 h' g2 hw2 hnd2 (fun p hp => hbs p (List.mem_cons_of_mem _ hp)) hres
            obtain ⟨_, r2, _⟩ := unifiedGo_keeps nd rest h2 h' hnd2 hres
            have hub' : h'.cont ub = h2.cont ub := unifiedGo_others nd rest h2 h' hnd2 hres ub s4 s5
            have hsz : h2.conts.size ≤ h'.conts.size := (frameB_unifiedGo 0 0 nd (Nat.zero_le _) rest h2 (Nat.zero_le _) (Nat.zero_le _) |> fun f => by
              rw [hres] at f; exact f.csize)
            refine ⟨(q, ub) :: entries, by rw [t1, s1, List.append_assoc]; rfl, ?_⟩
            intro e he
            rcases List.mem_cons.mp he with rfl | he'
            · exact ⟨nodupkey_transport ub k2 (by rw [hub']) (fun r hr => r2 r (w2 r hr)), Nat.lt_of_lt_of_le s4 hsz⟩
            · exact t2 e he'

/-- **the document `unified()` returns holds no two records with one identifier URI and kind, at top level or in a bundle** -/
theorem c08_unifiedDoc_nodupkey (h : Heap) (d : Nat) (g : Good2 h) (hw : WF2 h) (hd : d < h.conts.size)
    (hbs : ∀ p ∈ (h.cont d).bundles, p.2 < h.conts.size) (h' : Heap) (nd : Nat)
    (hres : h.unifiedDoc d = (h', .ok nd)) :
    NoDupKey h' nd ∧ ∀ e ∈ (h'.cont nd).bundles, NoDupKey h' e.2 ∧ e.2 < h'.conts.size := by
  unfold unifiedDoc at hres
  simp only [] at hres
  have g1 := good2_allocCont g true none (h.mgrOf d).reg.values none
  have w1 := wf2_allocCont hw true none (h.mgrOf d).reg.values none
  obtain ⟨f1, a1, hsz1⟩ := frameB_allocCont h.conts.size h.recs.size h true none (h.mgrOf d).reg.values none (Nat.le_refl _)
  have hemptyB : ((h.allocCont true none (h.mgrOf d).reg.values none).1.cont (h.allocCont true none (h.mgrOf d).reg.values none).2).bundles = [] := by
    simp [allocCont, allocMgr, cont, Array.getD_eq_getD_getElem?]
  have hemptyR : ((h.allocCont true none (h.mgrOf d).reg.values none).1.cont (h.allocCont true none (h.mgrOf d).reg.values none).2).records = [] := by
    simp [allocCont, allocMgr, cont, Array.getD_eq_getD_getElem?]
  generalize h.allocCont true none (h.mgrOf d).reg.values none = al at hres g1 w1 f1 a1 hsz1 hemptyB hemptyR
  obtain ⟨h1, n1⟩ := al
  simp only at hres g1 w1 f1 a1 hsz1 hemptyB hemptyR
  subst a1
  have g2 := good2_copyDefault g1 h.conts.size (h.mgrOf d).dflt
  have w2 : WF2 (h1.copyDefault h.conts.size (h.mgrOf d).dflt) := by
    unfold copyDefault
    split
    · unfold Heap.setDefault; exact wf2_setMgr w1 _ _
    · exact w1
  have f2 : FrameB h.conts.size h.recs.size h1 (h1.copyDefault h.conts.size (h.mgrOf d).dflt) := by
    unfold copyDefault
    split
    · exact frameB_setMgr _ _ h1 _ _
    · exact frameB_refl _ _ h1
  have hc2 : ∀ c, (h1.copyDefault h.conts.size (h.mgrOf d).dflt).cont c = h1.cont c := fun c => by
    unfold copyDefault; cases (h.mgrOf d).dflt <;> rfl
  have hs2 : (h1.copyDefault h.conts.size (h.mgrOf d).dflt).conts.size = h1.conts.size := by
    unfold copyDefault; cases (h.mgrOf d).dflt <;> rfl
  generalize h1.copyDefault h.conts.size (h.mgrOf d).dflt = h2 at hres g2 w2 f2 hc2 hs2
  have f12 := frameB_trans f1 f2
  have hd2 : d < h2.conts.size := by rw [hs2, hsz1]; omega
  unfold unifiedInto at hres
  have g3 := good2_unifiedRecords g2 d
  have w3 := wf2_unifiedRecords w2 d
  have f3 := frameB_unifiedRecords (h.conts.size + 1) h.recs.size h2 d (by rw [hs2, hsz1]; exact Nat.le_refl _) f12.rsize
  cases hur : h2.unifiedRecords d with
  | mk h3 e =>
    rw [hur] at hres g3 w3 f3
    simp only at g3 w3 f3
    cases e with
    | error err => simp at hres
    | ok rs =>
      simp only at hres
      obtain ⟨mp, hrs, hgm, hframe, _, hma⟩ := c08_unifiedRecords_content h2 d g2.good.allInv1
        (fun e he r hr => ⟨g2.good.wf.inRange d r (g2.good.wf.idxIn d e he r hr),
          (stored_of_normal_extra (g2.good.normal.2 r) (g2.good.extra r)).pairs⟩) h3 rs hur
      have hpl := placed_keys_nodup w2 d hd2 mp hgm hframe hma
      rw [← hrs] at hpl
      -- the copies in the new document
      have hnd3 : h.conts.size < h3.conts.size := by have := f3.csize; rw [hs2, hsz1] at this; omega
      have hsrc : ∀ r ∈ rs, r < h3.recs.size ∧ StoredRec (h3.recCell r).r := by
        intro r hr
        have hlt : r < h3.recs.size := by
          rw [hrs] at hr
          rcases c08_nothing_invented mp _ r hr with h5 | ⟨e, he, rfl⟩
          · exact Nat.lt_of_lt_of_le (g2.good.wf.inRange d r h5) f3.rsize
          · obtain ⟨_, _, _, _, hlt, _⟩ := hgm.sound e he
            exact hlt
        exact ⟨hlt, g3.good.storedRec r hlt⟩
      obtain ⟨h4', news, e1, e2, elen, e3, e4, e5, e6, _, e8⟩ := c09_addRecords_heap h.conts.size rs h3 hnd3 g3.good.allInv1 hsrc
      have g4 := good2_addRecords h.conts.size rs h3 g3
      have w4 := wf2_addRecords h.conts.size rs h3 w3
      have b4 := cont_bundles_addRecords h.conts.size h.conts.size rs h3
      rw [e1] at hres g4 w4 b4
      simp only at hres g4 w4 b4
      have hrec3 : (h3.cont h.conts.size).records = [] := by
        rw [f3.conts h.conts.size (Nat.lt_succ_self _), hc2]; exact hemptyR
      have hbun3 : (h3.cont h.conts.size).bundles = [] := by
        rw [f3.conts h.conts.size (Nat.lt_succ_self _), hc2]; exact hemptyB
      have k4 : NoDupKey h4' h.conts.size := by
        unfold NoDupKey
        rw [e2, hrec3, List.nil_append]
        have : news.filterMap (keyOf h4') = rs.filterMap (keyOf h3) := by
          refine (zip_filterMap (keyOf h3) (keyOf h4') rs news elen.symm ?_).symm
          intro p hp
          unfold keyOf
          exact key_of_recEq _ _ (e3 p hp).1
        rw [this]; exact hpl
      have hnd4 : h.conts.size < h4'.conts.size := by rw [e6]; exact hnd3
      have hbun4 : (h4'.cont d).bundles = (h.cont d).bundles := by
        rw [e5 d (by omega), f3.conts d (by omega), f12.conts d hd]
      cases hgo : unifiedInto.go h.conts.size h4' (h4'.cont d).bundles with
      | mk h5 e5' =>
        rw [hgo] at hres
        cases e5' with
        | some err => simp at hres
        | none =>
          simp only [Prod.mk.injEq, Except.ok.injEq] at hres
          obtain ⟨rfl, rfl⟩ := hres
          obtain ⟨r1, r2, _⟩ := unifiedGo_keeps h.conts.size (h4'.cont d).bundles h4' h5 hnd4 hgo
          obtain ⟨entries, t1, t2⟩ := unifiedGo_nodup h.conts.size (h4'.cont d).bundles h4' h5 g4 w4 hnd4
            (fun p hp => hbs p (by rw [← hbun4]; exact hp)) hgo
          refine ⟨nodupkey_transport h.conts.size k4 r1 (fun r hr => r2 r ((w4.1 h.conts.size hnd4).2 r hr)), ?_⟩
          rw [t1, b4, hbun3, List.nil_append]
          exact t2

/-- **`ProvDocument.unified()` is idempotent**: unifying the returned document again merges nothing at top level, and nothing
    in any of its bundles -/
theorem c08_unifiedDoc_twice_noop {h : Heap} (hr : Reach h) (d : Nat) (hd : d < h.conts.size)
    (hbs : ∀ p ∈ (h.cont d).bundles, p.2 < h.conts.size) (h' : Heap) (nd : Nat)
    (hres : h.unifiedDoc d = (h', .ok nd)) (hnd : nd < h'.conts.size) :
    h'.unifiedRecords nd = (h', .ok (h'.cont nd).records) ∧
      ∀ e ∈ (h'.cont nd).bundles, h'.unifiedRecords e.2 = (h', .ok (h'.cont e.2).records) := by
  have g := reach_good2 hr
  have hw := reachAny_wf2 (reachAny_of_reach hr)
  have hw' : WF2 h' := by have := wf2_unifiedDoc hw d; rw [hres] at this; exact this
  obtain ⟨k1, k2⟩ := c08_unifiedDoc_nodupkey h d g hw hd hbs h' nd hres
  exact ⟨c08_unifiedRecords_noop hw' nd hnd k1, fun e he => c08_unifiedRecords_noop hw' e.2 (k2 e he).2 (k2 e he).1⟩

end Prov.C08

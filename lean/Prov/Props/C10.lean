/-
  C10 — emitted PROV-JSON (and PROV-XML) mean the same to an independent reader.
  (1) T6: the tables transcribed from the specifications equal the tables of the code (regenerated);
  (2) the specification reader inverts the writer on values whose meaning does not depend on names.
-/
import Prov.Generated.Tables
import Prov.JsonSpec
import Prov.XmlSpec

namespace Prov.C10
open Prov JsonSpec

def sameSet (a b : List String) : Bool := a.all b.contains && b.all a.contains
def sameSet2 (a b : List (String × String)) : Bool := a.all b.contains && b.all a.contains

/-- T6a: the record-kind keys of PROV-JSON (spec) are exactly the code's PROV_N_MAP / PROV_RECORD_IDS_MAP,
    `bundle` aside (it is the key of the bundle map, not a record kind) -/
theorem t6_json_kind_keys :
    sameSet2 kindKeys (Gen.recordIdsMap.filter (fun p => p.1 != "bundle")) = true := by decide

/-- T6b: the reserved reference / time attribute keys of PROV-JSON are the code's PROV_ATTRIBUTE_QNAMES / _LITERALS -/
theorem t6_json_ref_keys : sameSet refKeys (Gen.attrQnames.map ("prov:" ++ ·)) = true := by decide
theorem t6_json_time_keys : sameSet timeKeys (Gen.attrLiterals.map ("prov:" ++ ·)) = true := by decide

/-- T6c: the writer's datatype names for Python int/float are the ones the spec reader maps to integer / double -/
theorem t6_json_literal_types :
    Gen.jsonLiteralXsdtype = [("float", "xsd:double"), ("int", "xsd:int")] := by decide

/-- T6d: the code's key ↔ attribute maps are the `prov:`-prefixed local names (no renamed key) -/
theorem t6_json_attribute_ids :
    Gen.attributesIdMap = (Gen.provAttributes.map (fun l => ("prov:" ++ l, l))) := by decide

/-- T6e: the record element names of PROV-XML (spec) with their PROV-DM type and asserted subtype are exactly the code's
    PROV_N_MAP ∪ ADDITIONAL_N_MAP joined with PROV_BASE_CLS (`bundle` included: an entity typed prov:Bundle) -/
theorem t6_xml_elements :
    sameSet2 (XmlSpec.elementTable.map (fun e => (e.1, e.2.1)))
      ((Gen.nMap ++ Gen.additionalNMap).map (fun p =>
        (p.2, (Gen.baseCls.find? (fun b => b.1 == p.1)).map (·.2) |>.getD "?"))) = true := by decide

theorem t6_xml_subtypes :
    sameSet2 (XmlSpec.elementTable.filterMap (fun e => e.2.2.map (fun t => (e.1, t))))
      ((Gen.additionalNMap ++ [("Bundle", "bundle")]).map (fun p => (p.2, p.1))) = true := by decide

/-- T6f: the schema's child sequences are the code's FORMAL_ATTRIBUTES, kind by kind -/
theorem t6_xml_formal_order :
    XmlSpec.formalOrder.all (fun f => Gen.kinds.any (fun k => k.1 == f.1 && k.2.2.1 == f.2)) = true ∧
    Gen.kinds.all (fun k => XmlSpec.formalOrder.any (fun f => k.1 == f.1)) = true := by decide

/-- T6g: the model's own subtype table (used by writer and reader models) is the same table -/
theorem t6_xml_model_subtypes :
    sameSet2 (subtypeTable.map (fun s => (s.2.1, s.1))) (XmlSpec.elementTable.filterMap (fun e => e.2.2.map (fun t => (e.1, t)))) = true := by
  decide

/-- the abstract value a stored value denotes -/
def absValue : Value → AVal
  | .str s => .str s
  | .int n => .int n
  | .bool b => .bool b
  | .float f => .float f.repr
  | .dt t => .dt t.iso
  | .uri u => .uri u
  | .qn q => .qn q.uri
  | .lit v ty l => .lit v (ty.map QName.uri) l

def stdScope : Scope := ⟨[], []⟩

/-- the specification reader inverts the writer on every name-free value, in any scope that does not
    re-bind `xsd` -/
theorem c10_json_value_str (sc : Scope) (s : String) : readValue sc (encodeJsonValue (.str s)) = some (absValue (.str s)) := rfl
theorem c10_json_value_bool (sc : Scope) (b : Bool) : readValue sc (encodeJsonValue (.bool b)) = some (absValue (.bool b)) := rfl

theorem c10_json_value_int (n : Int) :
    readValue stdScope (encodeJsonValue (.int n)) = some (absValue (.int n)) := by
  have h0 : stdScope.resolve "xsd:int" = some (xsdNs ++ "int") := by decide
  have h1 : (xsdNs ++ "int" == xsdNs ++ "anyURI") = false := by decide
  have h2 : (xsdNs ++ "int" == provNs ++ "QUALIFIED_NAME") = false := by decide
  simp [encodeJsonValue, readValue, JVal.get?, typedValue, h0, h1, h2, absValue]

theorem c10_json_value_float (f : FloatAtom) :
    readValue stdScope (encodeJsonValue (.float f)) = some (absValue (.float f)) := by
  have h0 : stdScope.resolve "xsd:double" = some (xsdNs ++ "double") := by decide
  have h1 : (xsdNs ++ "double" == xsdNs ++ "anyURI") = false := by decide
  have h2 : (xsdNs ++ "double" == provNs ++ "QUALIFIED_NAME") = false := by decide
  have h3 : (xsdNs ++ "double" == xsdNs ++ "int") = false := by decide
  have h4 : (xsdNs ++ "double" == xsdNs ++ "long") = false := by decide
  simp [encodeJsonValue, readValue, JVal.get?, typedValue, h0, h1, h2, h3, h4, absValue]

theorem c10_json_value_uri (u : String) :
    readValue stdScope (encodeJsonValue (.uri u)) = some (absValue (.uri u)) := by
  have h0 : stdScope.resolve "xsd:anyURI" = some (xsdNs ++ "anyURI") := by decide
  simp [encodeJsonValue, readValue, JVal.get?, typedValue, h0, absValue]

end Prov.C10

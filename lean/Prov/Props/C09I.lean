/-
  C09, `ProvDocument.update(other)` without side conditions.

  `c09_updateDoc_heap` (`Props/C09G`) describes `d.update(other)` — top-level records appended, then every bundle of `other`
  merged into the bundle of `d` with the same identifier URI or into a bundle created for it — under structural hypotheses
  (`Pre`): the bundle tables refer to existing containers that are bundles with identifiers, and no bundle of `other` is
  also a bundle of `d`. Here these are derived from an invariant of histories:

    WT h:  every entry of every bundle table refers to an existing container that is not a document, has an identifier,
           and points back (`_document`) to the container whose table lists it.

  `WT` is kept by every mutator and every deriving operation, provided `add_bundle` is given a container that exists, is
  not the document itself, and — when it is a bundle rather than a document — is not attached to a document already
  (`DOp.okT`; one bundle object attached to two documents is the aliasing `Pre` excludes). On every such state (`ReachT`)
  `d.update(o)` of two different documents succeeds and is the chain of steps `c09_updateDoc_heap` describes.
-/
import Prov.Props.C08N
import Prov.Props.C09H

namespace Prov.C09
open Prov Prov.Heap Prov.C05 Prov.C04 Prov.C08 Prov.C13

/-- every bundle-table entry: an existing non-document container with an identifier whose `_document` is the lister -/
def WT (h : Heap) : Prop := ∀ d, d < h.conts.size → ∀ p ∈ (h.cont d).bundles,
  p.2 < h.conts.size ∧ (h.cont p.2).isDoc = false ∧ (h.cont p.2).id.isSome = true ∧ (h.cont p.2).doc = some d

theorem wt_empty : WT Heap.empty := fun c hc => by simp [Heap.empty] at hc

theorem wt_congr {h h' : Heap} (hw : WT h) (hsz : h'.conts.size = h.conts.size) (hc : ∀ c, h'.cont c = h.cont c) : WT h' := by
  intro d hd p hp
  rw [hc d] at hp; rw [hsz] at hd ⊢
  rw [hc p.2]
  exact hw d hd p hp

theorem wt_same {h h' : Heap} (hw : WT h) (hc : h'.conts = h.conts) : WT h' :=
  wt_congr hw (by rw [hc]) (fun c => by simp [cont, hc])

theorem wt_setMgr {h : Heap} (hw : WT h) (c : Nat) (m : NsMgr) : WT (h.setMgr c m) := wt_same hw rfl
theorem wt_setRec {h : Heap} (hw : WT h) (r : Nat) (rc : Record) : WT (h.setRec r rc) := wt_same hw rfl

theorem setCont_oob (h : Heap) (c : Nat) (k : Cont) (hc : ¬ c < h.conts.size) : h.setCont c k = h := by
  simp only [setCont]; rw [Array.setIfInBounds_eq_of_size_le (by omega)]

theorem size_setCont (h : Heap) (c : Nat) (k : Cont) : (h.setCont c k).conts.size = h.conts.size := by simp [setCont]

/-- a cell rewritten so that its table, kind, identifier and document pointer stay (record list and index may change) -/
theorem wt_setCont_same {h : Heap} (hw : WT h) (c : Nat) (k : Cont) (h1 : k.bundles = (h.cont c).bundles)
    (h2 : k.isDoc = (h.cont c).isDoc) (h3 : k.id = (h.cont c).id) (h4 : k.doc = (h.cont c).doc) : WT (h.setCont c k) := by
  by_cases hc : c < h.conts.size
  · intro d hd p hp
    rw [size_setCont] at hd ⊢
    have htab : ((h.setCont c k).cont d).bundles = (h.cont d).bundles := by
      by_cases e : d = c
      · subst e; rw [cont_setCont_self h d k hc]; exact h1
      · rw [cont_setCont_ne h c d k e]
    rw [htab] at hp
    obtain ⟨a1, a2, a3, a4⟩ := hw d hd p hp
    by_cases e : p.2 = c
    · rw [e, cont_setCont_self h c k hc, h2, h3, h4, ← e]; exact ⟨a1, a2, a3, a4⟩
    · rw [cont_setCont_ne h c p.2 k e]; exact ⟨a1, a2, a3, a4⟩
  · rw [setCont_oob h c k hc]; exact hw

/-- a container no table lists may be rewritten freely as long as its own table stays -/
theorem wt_setCont_nonmember {h : Heap} (hw : WT h) (b : Nat) (k : Cont) (hb : k.bundles = (h.cont b).bundles)
    (hnm : ∀ d, d < h.conts.size → ∀ p ∈ (h.cont d).bundles, p.2 ≠ b) : WT (h.setCont b k) := by
  by_cases hc : b < h.conts.size
  · intro d hd p hp
    rw [size_setCont] at hd ⊢
    have htab : ((h.setCont b k).cont d).bundles = (h.cont d).bundles := by
      by_cases e : d = b
      · subst e; rw [cont_setCont_self h d k hc]; exact hb
      · rw [cont_setCont_ne h b d k e]
    rw [htab] at hp
    rw [cont_setCont_ne h b p.2 k (hnm d hd p hp)]
    exact hw d hd p hp
  · rw [setCont_oob h b k hc]; exact hw

/-- one more entry in the table of `d`, for a container that already looks like a bundle of `d` -/
theorem wt_extend {h : Heap} (hw : WT h) (d b : Nat) (q : QName) (hd : d < h.conts.size) (hb : b < h.conts.size)
    (h2 : (h.cont b).isDoc = false) (h3 : (h.cont b).id.isSome = true) (h4 : (h.cont b).doc = some d) :
    WT (h.setCont d { h.cont d with bundles := (h.cont d).bundles ++ [(q, b)] }) := by
  intro d' hd' p hp
  rw [size_setCont] at hd' ⊢
  have hfld : ∀ c, ((h.setCont d { h.cont d with bundles := (h.cont d).bundles ++ [(q, b)] }).cont c).isDoc = (h.cont c).isDoc ∧
      ((h.setCont d { h.cont d with bundles := (h.cont d).bundles ++ [(q, b)] }).cont c).id = (h.cont c).id ∧
      ((h.setCont d { h.cont d with bundles := (h.cont d).bundles ++ [(q, b)] }).cont c).doc = (h.cont c).doc := by
    intro c
    by_cases e : c = d
    · subst e; rw [cont_setCont_self h c _ hd]; exact ⟨rfl, rfl, rfl⟩
    · rw [cont_setCont_ne h d c _ e]; exact ⟨rfl, rfl, rfl⟩
  rw [(hfld p.2).1, (hfld p.2).2.1, (hfld p.2).2.2]
  by_cases e : d' = d
  · subst e
    rw [cont_setCont_self h d' _ hd] at hp
    simp only [List.mem_append, List.mem_singleton] at hp
    rcases hp with hp | rfl
    · exact hw d' hd' p hp
    · exact ⟨hb, h2, h3, h4⟩
  · rw [cont_setCont_ne h d d' _ e] at hp
    exact hw d' hd' p hp

theorem wt_allocCont {h : Heap} (hw : WT h) (isDoc : Bool) (id : Option QName) (nss : List Ns) (doc : Option Nat) :
    WT (h.allocCont isDoc id nss doc).1 := by
  obtain ⟨_, _, a3, _, _⟩ := allocCont_fresh h isDoc id nss doc
  have hcs : (h.allocCont isDoc id nss doc).1.conts.size = h.conts.size + 1 := by simp [allocCont, allocMgr]
  intro c hlt p hp
  rw [hcs] at hlt ⊢
  by_cases e : c < h.conts.size
  · rw [a3 c e] at hp
    obtain ⟨b1, b2, b3, b4⟩ := hw c e p hp
    rw [a3 p.2 b1]
    exact ⟨Nat.lt_succ_of_lt b1, b2, b3, b4⟩
  · have hce : c = h.conts.size := by omega
    subst hce
    simp [allocCont, allocMgr, cont, Array.getD_eq_getD_getElem?] at hp

/-- the cell `allocCont` creates -/
theorem allocCont_cell (h : Heap) (isDoc : Bool) (id : Option QName) (nss : List Ns) (doc : Option Nat) :
    ((h.allocCont isDoc id nss doc).1.cont h.conts.size).isDoc = isDoc ∧
    ((h.allocCont isDoc id nss doc).1.cont h.conts.size).id = id ∧
    ((h.allocCont isDoc id nss doc).1.cont h.conts.size).doc = doc ∧
    ((h.allocCont isDoc id nss doc).1.cont h.conts.size).bundles = [] := by
  simp [allocCont, allocMgr, cont, Array.getD_eq_getD_getElem?]

theorem wt_validName {h : Heap} (hw : WT h) (c : Nat) (x : NameArg) : WT (h.validName c x).1 := by
  unfold Heap.validName; exact wt_setMgr hw _ _

theorem wt_mkRecord {h : Heap} (hw : WT h) (c : Nat) (k : RecKind) (id : Option QName) (attrs : List AttrArg) :
    WT (h.mkRecord c k id attrs).1 := by
  unfold Heap.mkRecord
  split
  · exact hw
  · simp only []
    split
    · exact wt_setMgr hw _ _
    · exact wt_same (h := h.setMgr c (Record.addAttributes (h.parentOf c) (h.mgrOf c) ⟨k, id, []⟩ attrs).1) (wt_setMgr hw c _) rfl

theorem wt_addAttributes {h : Heap} (hw : WT h) (r : Nat) (attrs : List AttrArg) : WT (h.addAttributes r attrs).1 := by
  unfold Heap.addAttributes
  simp only []
  exact wt_setRec (wt_setMgr hw _ _) _ _

theorem wt_newRecord {h : Heap} (hw : WT h) (c : Nat) (k : RecKind) (idArg : NameArg) (attrs : List AttrArg) :
    WT (h.newRecord c k idArg attrs).1 := by
  unfold Heap.newRecord
  simp only []
  have s1 := wt_validName hw c idArg
  generalize h.validName c idArg = vn at s1
  obtain ⟨h1, vid⟩ := vn
  simp only at s1 ⊢
  have s2 := wt_mkRecord s1 c k vid attrs
  generalize h1.mkRecord c k vid attrs = mk at s2
  obtain ⟨h2, e⟩ := mk
  cases e with
  | error err => exact s2
  | ok r => unfold addRecordRaw; exact wt_setCont_same s2 c _ rfl rfl rfl rfl


/-! ### what record-adding operations leave alone: the shape of every container -/

/-- same containers up to record lists and identifier indexes -/
def SameShape (h h' : Heap) : Prop := h'.conts.size = h.conts.size ∧ ∀ c, (h'.cont c).isDoc = (h.cont c).isDoc ∧
  (h'.cont c).id = (h.cont c).id ∧ (h'.cont c).doc = (h.cont c).doc ∧ (h'.cont c).bundles = (h.cont c).bundles

theorem sameShape_refl (h : Heap) : SameShape h h := ⟨rfl, fun _ => ⟨rfl, rfl, rfl, rfl⟩⟩

theorem sameShape_trans {a b c : Heap} (x : SameShape a b) (y : SameShape b c) : SameShape a c :=
  ⟨y.1.trans x.1, fun k => ⟨(y.2 k).1.trans (x.2 k).1, (y.2 k).2.1.trans (x.2 k).2.1, (y.2 k).2.2.1.trans (x.2 k).2.2.1,
    (y.2 k).2.2.2.trans (x.2 k).2.2.2⟩⟩

theorem sameShape_of_conts {h h' : Heap} (hc : h'.conts = h.conts) : SameShape h h' :=
  ⟨by rw [hc], fun c => by simp [cont, hc]⟩

theorem sameShape_newRecord (h : Heap) (c : Nat) (k : RecKind) (idArg : NameArg) (attrs : List AttrArg) :
    SameShape h (h.newRecord c k idArg attrs).1 := by
  unfold Heap.newRecord
  simp only []
  have s1 : SameShape h (h.validName c idArg).1 := sameShape_of_conts rfl
  generalize h.validName c idArg = vn at s1
  obtain ⟨h1, vid⟩ := vn
  simp only at s1 ⊢
  have s2 : SameShape h1 (h1.mkRecord c k vid attrs).1 := sameShape_of_conts (conts_mkRecord h1 c k vid attrs)
  generalize h1.mkRecord c k vid attrs = mk at s2
  obtain ⟨h2, e⟩ := mk
  cases e with
  | error err => exact sameShape_trans s1 s2
  | ok r =>
    refine sameShape_trans (sameShape_trans s1 s2) ?_
    show SameShape h2 (h2.addRecordRaw c r)
    unfold addRecordRaw
    refine ⟨size_setCont _ _ _, fun c' => ?_⟩
    by_cases hc : c < h2.conts.size
    · by_cases e : c' = c
      · subst e; rw [cont_setCont_self h2 c' _ hc]; exact ⟨rfl, rfl, rfl, rfl⟩
      · rw [cont_setCont_ne h2 c c' _ e]; exact ⟨rfl, rfl, rfl, rfl⟩
    · rw [setCont_oob h2 c _ hc]; exact ⟨rfl, rfl, rfl, rfl⟩

theorem sameShape_addRecords (c : Nat) : ∀ (rs : List Nat) (h : Heap), SameShape h (h.addRecords c rs).1
  | [], h => sameShape_refl h
  | r :: rest, h => by
    unfold Heap.addRecords
    simp only [Heap.addRecord]
    have s1 := sameShape_newRecord h c (h.recCell r).r.kind (recreateArgs (h.recCell r).r).1 (recreateArgs (h.recCell r).r).2
    generalize h.newRecord c (h.recCell r).r.kind (recreateArgs (h.recCell r).r).1 (recreateArgs (h.recCell r).r).2 = res at s1
    obtain ⟨h1, e⟩ := res
    cases e with
    | error err => exact s1
    | ok nr => exact sameShape_trans s1 (sameShape_addRecords c rest h1)

/-- `ProvDocument.bundle(identifier)` -/
theorem wt_bundle {h : Heap} (hw : WT h) (d : Nat) (idArg : NameArg) : WT (h.bundle d idArg).1 := by
  unfold Heap.bundle
  split
  · exact hw
  · have h1 := wt_validName hw d idArg
    generalize h.validName d idArg = res at h1
    obtain ⟨hh, vid⟩ := res
    simp only at h1 ⊢
    cases vid with
    | none => exact h1
    | some q =>
      simp only
      split
      · exact h1
      · have h2 := wt_allocCont h1 false (some q) [] (some d)
        obtain ⟨a1, _, a3, _, _⟩ := allocCont_fresh hh false (some q) [] (some d)
        obtain ⟨c1, c2, c3, _⟩ := allocCont_cell hh false (some q) [] (some d)
        have hcs : (hh.allocCont false (some q) [] (some d)).1.conts.size = hh.conts.size + 1 := by simp [allocCont, allocMgr]
        generalize hh.allocCont false (some q) [] (some d) = al at h2 a1 a3 hcs c1 c2 c3
        obtain ⟨h3, nb⟩ := al
        simp only at h2 a1 a3 hcs c1 c2 c3 ⊢
        subst a1
        by_cases hd : d < h3.conts.size
        · exact wt_extend h2 d hh.conts.size q hd (by rw [hcs]; exact Nat.lt_succ_self _) c1 (by rw [c2]; rfl) c3
        · rw [setCont_oob h3 d _ hd]; exact h2

theorem wt_addRecords (c : Nat) : ∀ (rs : List Nat) (h : Heap), WT h → WT (h.addRecords c rs).1
  | [], _, hw => hw
  | r :: rest, h, hw => by
    unfold Heap.addRecords
    simp only [Heap.addRecord]
    have s1 := wt_newRecord hw c (h.recCell r).r.kind (recreateArgs (h.recCell r).r).1 (recreateArgs (h.recCell r).r).2
    generalize h.newRecord c (h.recCell r).r.kind (recreateArgs (h.recCell r).r).1 (recreateArgs (h.recCell r).r).2 = res at s1
    obtain ⟨h1, e⟩ := res
    cases e with
    | error err => exact s1
    | ok nr => exact wt_addRecords c rest h1 s1

theorem wt_scratchCopy {h : Heap} (hw : WT h) (r0 : Nat) : WT (h.scratchCopy r0).1 := by
  unfold scratchCopy
  simp only []
  have s0 := wt_allocCont hw false none [] none
  generalize h.allocCont false none [] none = al at s0
  obtain ⟨h0, sc⟩ := al
  exact wt_mkRecord s0 sc _ _ _

theorem wt_mergeGo (mref : Nat) : ∀ (rs : List Nat) (h : Heap), WT h → WT (mergeGroup.go mref h rs).1
  | [], _, hw => hw
  | r :: more, h, hw => by
    unfold mergeGroup.go
    simp only []
    have s1 := wt_addAttributes hw mref ((h.recCell r).r.flat.map (fun p => ({ name := .qn p.1, value := .val p.2 } : AttrArg)))
    generalize h.addAttributes mref ((h.recCell r).r.flat.map (fun p => ({ name := .qn p.1, value := .val p.2 } : AttrArg))) = res at s1
    obtain ⟨h', e⟩ := res
    cases e with
    | none => exact wt_mergeGo mref more h' s1
    | some err => exact s1

theorem wt_mergeGroup {h : Heap} (hw : WT h) (rs : List Nat) : WT (h.mergeGroup rs).1 := by
  unfold mergeGroup
  cases rs with
  | nil => exact hw
  | cons r0 rest =>
    simp only []
    have s1 := wt_scratchCopy hw r0
    generalize h.scratchCopy r0 = res at s1
    obtain ⟨h1, e⟩ := res
    cases e with
    | error err => exact s1
    | ok mref =>
      simp only []
      have s2 := wt_mergeGo mref rest h1 s1
      generalize mergeGroup.go mref h1 rest = res2 at s2
      obtain ⟨h2, e2⟩ := res2
      cases e2 <;> exact s2

theorem wt_mergeAll : ∀ (gs : List (List Nat)) (h : Heap) (acc : List (Nat × Nat)), WT h →
    WT (unifiedRecords.mergeAll h acc gs).1
  | [], _, _, hw => hw
  | grp :: gs, h, acc, hw => by
    unfold unifiedRecords.mergeAll
    have s1 := wt_mergeGroup hw grp
    generalize h.mergeGroup grp = res at s1
    obtain ⟨h1, e⟩ := res
    cases e with
    | error err => exact s1
    | ok mref => exact wt_mergeAll gs h1 _ s1

theorem wt_unifiedRecords {h : Heap} (hw : WT h) (c : Nat) : WT (h.unifiedRecords c).1 := by
  unfold unifiedRecords
  simp only []
  have s1 := wt_mergeAll (((h.cont c).idMap.flatMap (fun e => (groupByKind h e.2).map (·.2))).filter (fun g => g.length > 1)) h [] hw
  generalize unifiedRecords.mergeAll h [] _ = res at s1
  obtain ⟨h1, e⟩ := res
  cases e <;> exact s1

theorem wt_unifiedBundle {h : Heap} (hw : WT h) (c : Nat) : WT (h.unifiedBundle c).1 := by
  unfold unifiedBundle
  have s1 := wt_unifiedRecords hw c
  generalize h.unifiedRecords c = res at s1
  obtain ⟨h1, e⟩ := res
  cases e with
  | error err => exact s1
  | ok rs =>
    simp only []
    have s2 := wt_allocCont s1 false (h1.cont c).id [] none
    generalize h1.allocCont false (h1.cont c).id [] none = al at s2
    obtain ⟨h2, nb⟩ := al
    have s3 := wt_addRecords nb rs h2 s2
    generalize h2.addRecords nb rs = res3 at s3
    obtain ⟨h3, e3⟩ := res3
    cases e3 <;> exact s3

/-- the three container writes of `add_bundle`, for a bundle no table lists yet -/
theorem wt_registerBundle {h3 : Heap} (hw : WT h3) (d b' : Nat) (q : QName) (hd : d < h3.conts.size) (hb : b' < h3.conts.size)
    (hne : b' ≠ d) (hnd : (h3.cont b').isDoc = false) (hfree : (h3.cont b').doc = none) :
    WT (h3.registerBundle d b' q).1 := by
  have hnm : ∀ c, c < h3.conts.size → ∀ p ∈ (h3.cont c).bundles, p.2 ≠ b' := by
    intro c hc p hp e
    have := (hw c hc p hp).2.2.2
    rw [e, hfree] at this
    cases this
  unfold registerBundle
  simp only []
  have s4 := wt_setCont_nonmember hw b' { h3.cont b' with id := some q } rfl hnm
  split
  · exact s4
  · -- the same final state, reached in another order: first the document pointer, then the table entry
    have hb4 : b' < (h3.setCont b' { h3.cont b' with id := some q }).conts.size := by rw [size_setCont]; exact hb
    have hcell4 : (h3.setCont b' { h3.cont b' with id := some q }).cont b' = { h3.cont b' with id := some q } :=
      cont_setCont_self h3 b' _ hb
    have hnm4 : ∀ c, c < (h3.setCont b' { h3.cont b' with id := some q }).conts.size →
        ∀ p ∈ ((h3.setCont b' { h3.cont b' with id := some q }).cont c).bundles, p.2 ≠ b' := by
      intro c hc p hp
      rw [size_setCont] at hc
      have : ((h3.setCont b' { h3.cont b' with id := some q }).cont c).bundles = (h3.cont c).bundles := by
        by_cases e : c = b'
        · subst e; rw [hcell4]
        · rw [cont_setCont_ne h3 b' c _ e]
      rw [this] at hp
      exact hnm c hc p hp
    generalize hh4 : h3.setCont b' { h3.cont b' with id := some q } = h4 at s4 hb4 hcell4 hnm4
    have hd4 : d < h4.conts.size := by rw [← hh4, size_setCont]; exact hd
    -- step A: the document pointer of b'
    have sA := wt_setCont_nonmember s4 b' { h4.cont b' with doc := some d } rfl hnm4
    have hcellA : (h4.setCont b' { h4.cont b' with doc := some d }).cont b' = { h4.cont b' with doc := some d } :=
      cont_setCont_self h4 b' _ hb4
    have hdA : (h4.setCont b' { h4.cont b' with doc := some d }).cont d = h4.cont d := cont_setCont_ne h4 b' d _ (Ne.symm hne)
    -- step B: the table entry
    have sB := wt_extend sA d b' q (by rw [size_setCont]; exact hd4) (by rw [size_setCont]; exact hb4)
      (by rw [hcellA, hcell4]; exact hnd) (by rw [hcellA, hcell4]; rfl) (by rw [hcellA])
    refine wt_congr sB (by simp [size_setCont]) (fun c => ?_)
    rw [hdA]
    by_cases e1 : c = b'
    · subst e1
      rw [cont_setCont_self (h4.setCont d _) c _ (by rw [size_setCont]; exact hb4)]
      rw [cont_setCont_ne h4 d c _ hne]
      rw [cont_setCont_ne (h4.setCont c _) d c _ hne]
      rw [cont_setCont_self h4 c _ hb4]
    · rw [cont_setCont_ne (h4.setCont d _) b' c _ e1]
      by_cases e2 : c = d
      · subst e2
        rw [cont_setCont_self h4 c _ hd4]
        rw [cont_setCont_self (h4.setCont b' _) c _ (by rw [size_setCont]; exact hd4)]
      · rw [cont_setCont_ne h4 d c _ e2]
        rw [cont_setCont_ne (h4.setCont b' _) d c _ e2]
        rw [cont_setCont_ne h4 b' c _ e1]

theorem wt_attachBundle {h1 : Heap} (hw : WT h1) (d b' : Nat) (idArg : NameArg) (hd : d < h1.conts.size) (hb : b' < h1.conts.size)
    (hne : b' ≠ d) (hnd : (h1.cont b').isDoc = false) (hfree : (h1.cont b').doc = none) :
    WT (h1.attachBundle d b' idArg).1 := by
  unfold attachBundle
  split
  · exact hw
  · have s2 : WT (h1.linkParent d b') := wt_same hw rfl
    have s3 := wt_validName s2 b' (h1.defaultBundleId b' idArg)
    have hcs : ((h1.linkParent d b').validName b' (h1.defaultBundleId b' idArg)).1.conts = h1.conts := rfl
    generalize (h1.linkParent d b').validName b' (h1.defaultBundleId b' idArg) = vn at s3 hcs
    obtain ⟨h3, vid⟩ := vn
    simp only at hcs
    have hcell : ∀ c, h3.cont c = h1.cont c := fun c => by simp [cont, hcs]
    cases vid with
    | none => exact s3
    | some q =>
      exact wt_registerBundle s3 d b' q (by rw [hcs]; exact hd) (by rw [hcs]; exact hb) hne (by rw [hcell]; exact hnd)
        (by rw [hcell]; exact hfree)

theorem wt_addBundle {h : Heap} (hw : WT h) (d b : Nat) (idArg : NameArg) (nsOrder : List Ns) (hd : d < h.conts.size)
    (hb : b < h.conts.size) (hne : b ≠ d) (hok : (h.cont b).isDoc = true ∨ (h.cont b).doc = none) :
    WT (h.addBundle d b idArg nsOrder).1 := by
  unfold addBundle
  simp only []
  by_cases hdoc : (h.cont b).isDoc = true
  · simp only [hdoc, if_true]
    by_cases hbs : (!(h.cont b).bundles.isEmpty) = true
    · simp only [hbs, if_true]
      exact hw
    · simp only [hbs, Bool.false_eq_true, if_false]
      have s2 := wt_allocCont hw false none nsOrder none
      obtain ⟨hcs, hidx⟩ := conts_size_allocCont h false none nsOrder none
      obtain ⟨c1, _, c3, _⟩ := allocCont_cell h false none nsOrder none
      generalize h.allocCont false none nsOrder none = al at s2 hcs hidx c1 c3
      obtain ⟨h2, nb⟩ := al
      simp only at s2 hcs hidx c1 c3 ⊢
      subst hidx
      have s3 := wt_addRecords h.conts.size (h.cont b).records h2 s2
      have sh := sameShape_addRecords h.conts.size (h.cont b).records h2
      generalize h2.addRecords h.conts.size (h.cont b).records = res3 at s3 sh
      obtain ⟨h3, e3⟩ := res3
      cases e3 with
      | some err => exact s3
      | none =>
        simp only at sh
        exact wt_attachBundle s3 d h.conts.size idArg (by rw [sh.1, hcs]; exact Nat.lt_succ_of_lt hd)
          (by rw [sh.1, hcs]; exact Nat.lt_succ_self _) (Ne.symm (Nat.ne_of_lt hd))
          (by rw [(sh.2 _).1]; exact c1) (by rw [(sh.2 _).2.2.1]; exact c3)
  · simp only [hdoc, Bool.false_eq_true, if_false]
    have hfree : (h.cont b).doc = none := by
      rcases hok with h1 | h1
      · exact absurd h1 hdoc
      · exact h1
    exact wt_attachBundle hw d b idArg hd hb hne (by simpa using hdoc) hfree

/-- the bundle `unified()` returns is a free-standing bundle: not a document, attached nowhere -/
theorem unifiedBundle_free (h : Heap) (c : Nat) (h' : Heap) (ub : Nat) (hres : h.unifiedBundle c = (h', .ok ub)) :
    (h'.cont ub).isDoc = false ∧ (h'.cont ub).doc = none := by
  unfold unifiedBundle at hres
  generalize h.unifiedRecords c = res at hres
  obtain ⟨h1, e⟩ := res
  cases e with
  | error err => simp at hres
  | ok rs =>
    simp only at hres
    obtain ⟨_, hidx⟩ := conts_size_allocCont h1 false (h1.cont c).id [] none
    obtain ⟨c1, _, c3, _⟩ := allocCont_cell h1 false (h1.cont c).id [] none
    generalize h1.allocCont false (h1.cont c).id [] none = al at hres hidx c1 c3
    obtain ⟨h2, nb⟩ := al
    simp only at hres hidx c1 c3
    subst hidx
    have sh := sameShape_addRecords h1.conts.size rs h2
    generalize h2.addRecords h1.conts.size rs = res3 at hres sh
    obtain ⟨h3, e3⟩ := res3
    cases e3 with
    | some err => simp at hres
    | none =>
      simp only [Prod.mk.injEq, Except.ok.injEq] at hres
      obtain ⟨rfl, rfl⟩ := hres
      simp only at sh
      exact ⟨by rw [(sh.2 _).1]; exact c1, by rw [(sh.2 _).2.2.1]; exact c3⟩

theorem wt_unifiedGo (nd : Nat) : ∀ (bs : List (QName × Nat)) (h : Heap), WT h → nd < h.conts.size → WT (unifiedInto.go nd h bs).1
  | [], _, hw, _ => hw
  | (q, b) :: rest, h, hw, hnd => by
    unfold unifiedInto.go
    have s1 := wt_unifiedBundle hw b
    cases hub : h.unifiedBundle b with
    | mk h' e =>
      rw [hub] at s1
      cases e with
      | error err => exact s1
      | ok ub =>
        simp only []
        obtain ⟨_, u2, u3⟩ := unifiedBundle_result h b h' ub hub
        obtain ⟨f1, f2⟩ := unifiedBundle_free h b h' ub hub
        have hnd' : nd < h'.conts.size := Nat.lt_of_lt_of_le hnd (Nat.le_of_lt (Nat.lt_of_le_of_lt u2 u3))
        have s2 := wt_addBundle s1 nd ub .nil [] hnd' u3 (Nat.ne_of_gt (Nat.lt_of_lt_of_le hnd u2)) (Or.inr f2)
        have hsz := (frameB_addBundle 0 0 h' nd ub .nil [] (Nat.zero_le _) (Nat.zero_le _) (Nat.zero_le _) (Nat.zero_le _)).csize
        generalize h'.addBundle nd ub .nil [] = res2 at s2 hsz
        obtain ⟨h'', e2⟩ := res2
        cases e2 with
        | some err => exact s2
        | none => exact wt_unifiedGo nd rest h'' s2 (Nat.lt_of_lt_of_le hnd' hsz)

theorem wt_unifiedDoc {h : Heap} (hw : WT h) (d : Nat) : WT (h.unifiedDoc d).1 := by
  unfold unifiedDoc
  simp only []
  have s1 := wt_allocCont hw true none (h.mgrOf d).reg.values none
  obtain ⟨hcs, hidx⟩ := conts_size_allocCont h true none (h.mgrOf d).reg.values none
  generalize h.allocCont true none (h.mgrOf d).reg.values none = al at s1 hcs hidx
  obtain ⟨h1, nd⟩ := al
  simp only at hcs hidx ⊢
  have hnd1 : nd < h1.conts.size := by rw [hcs, hidx]; exact Nat.lt_succ_self _
  have s2 : WT (h1.copyDefault nd (h.mgrOf d).dflt) ∧ (h1.copyDefault nd (h.mgrOf d).dflt).conts.size = h1.conts.size := by
    unfold copyDefault
    split
    · unfold Heap.setDefault; exact ⟨wt_setMgr s1 _ _, rfl⟩
    · exact ⟨s1, rfl⟩
  generalize h1.copyDefault nd (h.mgrOf d).dflt = h2 at s2
  obtain ⟨s2, hsz2⟩ := s2
  unfold unifiedInto
  have s3 := wt_unifiedRecords s2 d
  have f3 := (frameB_unifiedRecords 0 0 h2 d (Nat.zero_le _) (Nat.zero_le _)).csize
  generalize h2.unifiedRecords d = res at s3 f3
  obtain ⟨h3, e⟩ := res
  cases e with
  | error err => exact s3
  | ok rs =>
    simp only [] at f3 ⊢
    have s4 := wt_addRecords nd rs h3 s3
    have sh4 := sameShape_addRecords nd rs h3
    generalize h3.addRecords nd rs = res4 at s4 sh4
    obtain ⟨h4, e4⟩ := res4
    cases e4 with
    | some err => exact s4
    | none =>
      simp only [] at sh4 ⊢
      have hnd4 : nd < h4.conts.size := by rw [sh4.1]; omega
      have s5 := wt_unifiedGo nd (h4.cont d).bundles h4 s4 hnd4
      generalize unifiedInto.go nd h4 (h4.cont d).bundles = res5 at s5
      obtain ⟨h5, e5⟩ := res5
      cases e5 <;> exact s5

theorem wt_flattened {h : Heap} (hw : WT h) (d : Nat) : WT (h.flattened d).1 := by
  unfold flattened
  simp only []
  split
  · exact hw
  · simp only [newDoc]
    have s1 := wt_allocCont hw true none [] none
    generalize h.allocCont true none [] none = al at s1
    obtain ⟨h1, nd⟩ := al
    simp only []
    have s2 := wt_addRecords nd ((h.cont d).records ++ (h.cont d).bundles.flatMap (fun p => (h.cont p.2).records)) h1 s1
    generalize h1.addRecords nd _ = res at s2
    obtain ⟨h2, e⟩ := res
    cases e <;> exact s2

theorem wt_updateBundle {h : Heap} (hw : WT h) (c o : Nat) : WT (h.updateBundle c o).1 := by
  unfold updateBundle
  simp only []
  split
  · exact hw
  · exact wt_addRecords c _ h hw

theorem wt_updateGo (d : Nat) : ∀ (bs : List (QName × Nat)) (h : Heap), WT h → WT (updateDoc.go d h bs).1
  | [], _, hw => hw
  | (_, b) :: rest, h, hw => by
    unfold updateDoc.go
    cases hid : (h.cont b).id with
    | none => exact hw
    | some bid =>
      simp only []
      cases hget : bundlesGet (h.cont d).bundles bid with
      | some tb =>
        simp only []
        have s1 := wt_updateBundle hw tb b
        generalize h.updateBundle tb b = res at s1
        obtain ⟨h', e⟩ := res
        cases e with
        | none => exact wt_updateGo d rest h' s1
        | some err => exact s1
      | none =>
        simp only []
        have s1 := wt_bundle hw d (.qn bid)
        generalize h.bundle d (.qn bid) = res at s1
        obtain ⟨h', e⟩ := res
        cases e with
        | error err => exact s1
        | ok nb =>
          simp only []
          have s2 := wt_updateBundle s1 nb b
          generalize h'.updateBundle nb b = res2 at s2
          obtain ⟨h'', e2⟩ := res2
          cases e2 with
          | none => exact wt_updateGo d rest h'' s2
          | some err => exact s2

theorem wt_update {h : Heap} (hw : WT h) (c o : Nat) : WT (h.update c o).1 := by
  unfold update
  split
  · unfold updateDoc
    simp only []
    have s1 := wt_addRecords c (h.cont o).records h hw
    generalize h.addRecords c (h.cont o).records = res at s1
    obtain ⟨h1, e⟩ := res
    cases e with
    | some err => exact s1
    | none => exact wt_updateGo c (h.cont o).bundles h1 s1
  · exact wt_updateBundle hw c o

/-- the deriving step is applied to things that exist; a bundle handed to `add_bundle` is not attached anywhere yet -/
def _root_.Prov.C08.DOp.okT (h : Heap) : DOp → Prop
  | .addBundle d b _ _ => d < h.conts.size ∧ b < h.conts.size ∧ b ≠ d ∧ ((h.cont b).isDoc = true ∨ (h.cont b).doc = none)
  | _ => True

theorem dstep_wt {h : Heap} (hw : WT h) (op : DOp) (hin : op.okT h) : WT (dstep h op) := by
  cases op with
  | addRecord c r => exact wt_newRecord hw c _ _ _
  | update c o => exact wt_update hw c o
  | addBundle d b id nsOrder => exact wt_addBundle hw d b id nsOrder hin.1 hin.2.1 hin.2.2.1 hin.2.2.2
  | flattened d => exact wt_flattened hw d
  | unifiedBundle c => exact wt_unifiedBundle hw c
  | unifiedDoc d => exact wt_unifiedDoc hw d

theorem hstep_wt {h : Heap} (hw : WT h) (op : HOp) : WT (hstep h op) := by
  cases op with
  | newDoc nss => exact wt_allocCont hw true none nss none
  | newBundle id nss doc => exact wt_allocCont hw false id nss doc
  | bundle d id => exact wt_bundle hw d id
  | addNs c n => unfold hstep Heap.addNs; exact wt_setMgr hw c _
  | setDefault c u => unfold hstep Heap.setDefault; exact wt_setMgr hw c _
  | validName c x => exact wt_validName hw c x
  | newRecord c k id attrs => exact wt_newRecord hw c k id attrs
  | addAttributes r attrs => exact wt_addAttributes hw r attrs
  | setTime r st en =>
    unfold hstep Heap.setTime
    dsimp only
    split
    · exact hw
    · split
      · exact wt_setRec hw _ _
      · exact wt_setRec hw _ _
  | addAssertedType r v flt =>
    unfold hstep Heap.addAssertedType
    dsimp only
    generalize autoLiteral (h.mgrOf (h.recCell r).bundle) v flt = res
    obtain ⟨m', conv⟩ := res
    simp only
    cases conv with
    | ok v' => exact wt_setRec (wt_setMgr hw _ m') r _
    | isNone => exact wt_setMgr hw _ m'
    | crash e => exact wt_setMgr hw _ m'

/-- the reachable states of `Reach` in which `add_bundle` was never given a bundle that is attached to a document already -/
inductive ReachT : Heap → Prop
  | empty : ReachT Heap.empty
  | mutate {h : Heap} (op : HOp) : ReachT h → op.ok → op.argsOk → Clean (hstep h op) → ReachT (hstep h op)
  | derive {h : Heap} (op : DOp) : ReachT h → op.okT h → ReachT (dstep h op)

theorem reach_of_reachT {h : Heap} (hr : ReachT h) : Reach h := by
  induction hr with
  | empty => exact .empty
  | mutate op _ h1 h2 h3 ih => exact .mutate op ih h1 h2 h3
  | derive op _ _ ih => exact .derive op ih

theorem reachT_wt {h : Heap} (hr : ReachT h) : WT h := by
  induction hr with
  | empty => exact wt_empty
  | mutate op _ _ _ _ ih => exact hstep_wt ih op
  | derive op _ hin ih => exact dstep_wt ih op hin

/-- **C09, `ProvDocument.update(other)` on every reachable state**: for two different documents `d` and `o` of a state in
    which no bundle object was ever attached twice, `d.update(o)` does not raise; it appends an `==` copy of each top-level
    record of `o` to `d`, then merges every bundle of `o` into the bundle of `d` with the same identifier URI, or into a
    bundle created for it (`Chain` of `Step`s, `Props/C09G`): each step appends `==` copies of that bundle's records to exactly
    one bundle of `d` and writes nothing else — no record that existed and no container of `o` -/
theorem c09_updateDoc_reach {h : Heap} (hr : ReachT h) (d o : Nat) (hd : d < h.conts.size) (ho : o < h.conts.size)
    (hdoc : (h.cont d).isDoc = true) (hne : o ≠ d) :
    ∃ h1 h' news, h.updateDoc d o = (h', none) ∧ Appended h h1 d (h.cont o).records news ∧ Chain d h1 (h.cont o).bundles h' := by
  have hw := reachT_wt hr
  have hreach := reach_of_reachT hr
  have g := (reach_good2 hreach).good
  refine c09_updateDoc_heap h d o hne ⟨hd, g.allInv1, ?_, ?_⟩ (srcOk_reach hreach o)
  · intro p hp
    obtain ⟨a1, a2, _, _⟩ := hw d hd p hp
    refine ⟨a1, fun e => ?_⟩
    rw [e, hdoc] at a2
    cases a2
  · intro p hp
    obtain ⟨a1, a2, a3, a4⟩ := hw o ho p hp
    refine ⟨a1, fun e => ?_, fun t ht e => ?_, a3, by rw [a2]; rfl, srcOk_reach hreach p.2⟩
    · rw [e, hdoc] at a2; cases a2
    · have := (hw d hd t ht).2.2.2
      rw [← e, a4] at this
      exact hne (Option.some.inj this)

theorem reachT_of_ops : ∀ (ops : List HOp) (h : Heap), ReachT h → (∀ op ∈ ops, op.ok ∧ op.argsOk) →
    (∀ n, n ≤ ops.length → Clean ((ops.take n).foldl hstep h)) → ReachT (ops.foldl hstep h)
  | [], _, hr, _, _ => hr
  | op :: rest, h, hr, hok, hcl => by
    have h1 : Clean (hstep h op) := by simpa using hcl 1 (by simp)
    exact reachT_of_ops rest (hstep h op) (ReachT.mutate op hr (hok op List.mem_cons_self).1 (hok op List.mem_cons_self).2 h1)
      (fun o ho => hok o (List.mem_cons_of_mem _ ho))
      (fun n hn => by simpa using hcl (n + 1) (by simpa using hn))

/-- non-vacuity: the two documents of `Props/C09G` (each with a bundle `ex:b`, the second also with `ex:c`) are such a state,
    so `d0.update(d2)` is covered: the theorem applies to containers 0 and 2 -/
theorem opsU_reachT : ReachT (opsU.foldl hstep Heap.empty) := by
  refine reachT_of_ops opsU Heap.empty ReachT.empty opsU_ok ?_
  intro n hn
  have hlen : opsU.length = 10 := rfl
  rw [hlen] at hn
  have : n = 0 ∨ n = 1 ∨ n = 2 ∨ n = 3 ∨ n = 4 ∨ n = 5 ∨ n = 6 ∨ n = 7 ∨ n = 8 ∨ n = 9 ∨ n = 10 := by omega
  rcases this with rfl | rfl | rfl | rfl | rfl | rfl | rfl | rfl | rfl | rfl | rfl <;> exact clean_of_cleanB (by decide +kernel)

example : ∃ h1 h' news, (opsU.foldl hstep Heap.empty).updateDoc 0 2 = (h', none) ∧
    Appended (opsU.foldl hstep Heap.empty) h1 0 ((opsU.foldl hstep Heap.empty).cont 2).records news ∧
    Chain 0 h1 ((opsU.foldl hstep Heap.empty).cont 2).bundles h' :=
  c09_updateDoc_reach opsU_reachT 0 2 (by decide +kernel) (by decide +kernel) (by decide +kernel) (by decide)

end Prov.C09

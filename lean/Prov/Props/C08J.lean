/-
  C08, idempotence of `unified()`, first half: a container in which no two records share identifier URI and kind has nothing
  to merge. With the index an exact picture of the record list (`WF2`: coherent, each record listed once, one entry per
  identifier URI — an invariant of every history, `Props/C18T`), every group `_unified_records()` forms is the sub-list of the
  records carrying one identifier URI and one kind (`groupByKind_filter`, `entry_is_byId`); if keys are pairwise different,
  every group has at most one member, none is merged, and `_unified_records()` returns the record list itself, writing nothing
  (`c08_unifiedRecords_noop`).
-/
import Prov.Props.C18T

namespace Prov.C08
open Prov Prov.Heap Prov.C05 Prov.C09 Prov.C18

/-- (identifier URI, kind) of an identified record -/
def keyOf (h : Heap) (r : Nat) : Option (String × RecKind) :=
  (h.recCell r).r.id.map (fun q => (q.uri, (h.recCell r).r.kind))

/-- no two records of the container share identifier URI and kind -/
def NoDupKey (h : Heap) (c : Nat) : Prop := ((h.cont c).records.filterMap (keyOf h)).Nodup

/-- each group is exactly the sub-list of the records of its kind -/
theorem groupByKind_filter (h : Heap) (rs : List Nat) :
    ∀ g ∈ groupByKind h rs, g.2 = rs.filter (fun r => (h.recCell r).r.kind == g.1) := by
  rw [groupByKind_eq]
  suffices H : ∀ (rest pre : List Nat) (acc : List (RecKind × List Nat)),
      (∀ g ∈ acc, g.2 = pre.filter (fun r => (h.recCell r).r.kind == g.1)) →
      (∀ r ∈ pre, ∃ g ∈ acc, g.1 = (h.recCell r).r.kind) →
      ∀ g ∈ rest.foldl (gStep h) acc, g.2 = (pre ++ rest).filter (fun r => (h.recCell r).r.kind == g.1) by
    simpa using H rs [] [] (by simp) (by simp)
  intro rest
  induction rest with
  | nil => intro pre acc h1 _ g hg; simpa using h1 g hg
  | cons r rest ih =>
    intro pre acc h1 h2 g hg
    simp only [List.foldl_cons] at hg
    have := ih (pre ++ [r]) (gStep h acc r) ?_ ?_ g hg
    · simpa [List.append_assoc] using this
    · -- the groups after one step
      intro g' hg'
      unfold gStep at hg'
      simp only [] at hg'
      by_cases hany : (acc.any (fun g => g.1 == (h.recCell r).r.kind)) = true
      · simp only [hany, if_true, List.mem_map] at hg'
        obtain ⟨g0, hg0, rfl⟩ := hg'
        by_cases hk : (g0.1 == (h.recCell r).r.kind) = true
        · simp only [hk, if_true]
          have hk' : ((h.recCell r).r.kind == g0.1) = true := by
            have := beq_iff_eq.mp hk; rw [this]; exact beq_self_eq_true _
          simp [List.filter_append, h1 g0 hg0, hk']
        · simp only [hk, Bool.false_eq_true, if_false]
          have hk' : ((h.recCell r).r.kind == g0.1) = false := by
            rw [Bool.eq_false_iff]; intro e; apply hk
            have := beq_iff_eq.mp e; rw [this]; exact beq_self_eq_true _
          simp [List.filter_append, h1 g0 hg0, hk']
      · simp only [hany, Bool.false_eq_true, if_false, List.mem_append, List.mem_singleton] at hg'
        have hnone : ∀ g0 ∈ acc, (g0.1 == (h.recCell r).r.kind) = false := by
          intro g0 hg0
          rw [Bool.eq_false_iff]; intro e
          exact hany (List.any_eq_true.mpr ⟨g0, hg0, e⟩)
        rcases hg' with hg' | rfl
        · have hk' : ((h.recCell r).r.kind == g'.1) = false := by
            rw [Bool.eq_false_iff]; intro e
            have := hnone g' hg'
            rw [Bool.eq_false_iff] at this; apply this
            have := beq_iff_eq.mp e; rw [this]; exact beq_self_eq_true _
          simp [List.filter_append, h1 g' hg', hk']
        · -- a new kind: nothing before had it
          have hpre : pre.filter (fun x => (h.recCell x).r.kind == (h.recCell r).r.kind) = [] := by
            rw [List.filter_eq_nil_iff]
            intro x hx e
            obtain ⟨g0, hg0, hk0⟩ := h2 x hx
            have := hnone g0 hg0
            rw [Bool.eq_false_iff] at this; apply this
            rw [hk0]; exact e
          simp [List.filter_append, hpre]
    · intro x hx
      rcases List.mem_append.mp hx with hx | hx
      · obtain ⟨g0, hg0, hk0⟩ := h2 x hx
        unfold gStep
        simp only []
        by_cases hany : (acc.any (fun g => g.1 == (h.recCell r).r.kind)) = true
        · simp only [hany, if_true]
          by_cases hk : (g0.1 == (h.recCell r).r.kind) = true
          · exact ⟨(g0.1, g0.2 ++ [r]), List.mem_map.mpr ⟨g0, hg0, by simp [hk]⟩, hk0⟩
          · exact ⟨g0, List.mem_map.mpr ⟨g0, hg0, by simp [hk]⟩, hk0⟩
        · simp only [hany, Bool.false_eq_true, if_false]
          exact ⟨g0, List.mem_append_left _ hg0, hk0⟩
      · simp only [List.mem_singleton] at hx
        subst hx
        unfold gStep
        simp only []
        by_cases hany : (acc.any (fun g => g.1 == (h.recCell x).r.kind)) = true
        · simp only [hany, if_true]
          obtain ⟨g0, hg0, hk⟩ := List.any_eq_true.mp hany
          exact ⟨(g0.1, g0.2 ++ [x]), List.mem_map.mpr ⟨g0, hg0, by simp [hk]⟩, beq_iff_eq.mp hk⟩
        · simp only [hany, Bool.false_eq_true, if_false]
          exact ⟨((h.recCell x).r.kind, [x]), List.mem_append_right _ (by simp), rfl⟩

/-- with one entry per URI, looking an entry's own key up finds that entry -/
theorem idMapGet_own (im : List (QName × List Nat)) (hn : (im.map (fun e => e.1.uri)).Nodup) (e : QName × List Nat) (he : e ∈ im) :
    idMapGet im e.1 = e.2 := by
  unfold idMapGet
  induction im with
  | nil => cases he
  | cons hd tl ih =>
    simp only [List.map_cons, List.nodup_cons] at hn
    simp only [List.find?_cons]
    by_cases hs : hd.1.same e.1 = true
    · simp only [hs]
      rcases List.mem_cons.mp he with rfl | he'
      · rfl
      · exfalso
        apply hn.1
        have : hd.1.uri = e.1.uri := by simpa [QName.same] using hs
        rw [this]
        exact List.mem_map.mpr ⟨e, he', rfl⟩
    · have hs' : hd.1.same e.1 = false := by simpa using hs
      simp only [hs']
      rcases List.mem_cons.mp he with rfl | he'
      · simp [QName.same] at hs
      · exact ih hn.2 he'

/-- **an index entry is the sub-list of the records carrying its identifier** -/
theorem entry_is_byId {h : Heap} (hw : WF2 h) (c : Nat) (hc : c < h.conts.size) (e : QName × List Nat)
    (he : e ∈ (h.cont c).idMap) : e.2 = byId (idsOf h) (h.cont c).records e.1 := by
  have hcoh := (hw.1 c hc).1 e.1
  rw [idMapGet_own _ (hw.2 c hc).2 e he] at hcoh
  exact hcoh

theorem nodup_replicate_le {α : Type} (n : Nat) (a : α) (h : (List.replicate n a).Nodup) : n ≤ 1 := by
  match n with
  | 0 => exact Nat.zero_le _
  | 1 => exact Nat.le_refl _
  | n + 2 => simp [List.replicate_succ] at h

/-- every group holds records of one identifier URI and one kind; with pairwise different keys it has at most one member -/
theorem group_small {h : Heap} (hw : WF2 h) (c : Nat) (hc : c < h.conts.size) (hk : NoDupKey h c)
    (e : QName × List Nat) (he : e ∈ (h.cont c).idMap) (g : RecKind × List Nat) (hg : g ∈ groupByKind h e.2) :
    g.2.length ≤ 1 := by
  have hg2 := groupByKind_filter h e.2 g hg
  rw [entry_is_byId hw c hc e he] at hg2
  -- a sub-list of the records, all of whose members have the same key
  have hsub : g.2.Sublist (h.cont c).records := by
    rw [hg2]; unfold byId
    exact (List.filter_sublist).trans List.filter_sublist
  have hkeys : ∀ r ∈ g.2, keyOf h r = some (e.1.uri, g.1) := by
    intro r hr
    rw [hg2] at hr
    obtain ⟨hr1, hr2⟩ := List.mem_filter.mp hr
    unfold byId at hr1
    obtain ⟨_, hr3⟩ := List.mem_filter.mp hr1
    unfold keyOf
    simp only [idsOf] at hr3
    cases hid : (h.recCell r).r.id with
    | none => rw [hid] at hr3; cases hr3
    | some q =>
      rw [hid] at hr3
      simp only [QName.same, beq_iff_eq] at hr3
      simp only [Option.map_some, Option.some.injEq, Prod.mk.injEq]
      exact ⟨hr3, beq_iff_eq.mp hr2⟩
  have hfm : ∀ (l : List Nat), (∀ r ∈ l, keyOf h r = some (e.1.uri, g.1)) →
      l.filterMap (keyOf h) = List.replicate l.length (e.1.uri, g.1) := by
    intro l
    induction l with
    | nil => intro _; rfl
    | cons x xs ih =>
      intro hl
      rw [List.filterMap_cons, hl x List.mem_cons_self]
      simp only [List.length_cons, List.replicate_succ]
      rw [ih (fun r hr => hl r (List.mem_cons_of_mem _ hr))]
  have hfm := hfm g.2 hkeys
  have hnd : (g.2.filterMap (keyOf h)).Nodup := (hsub.filterMap (keyOf h)).nodup hk
  rw [hfm] at hnd
  exact nodup_replicate_le _ _ hnd

theorem groupsOf_nil {h : Heap} (hw : WF2 h) (c : Nat) (hc : c < h.conts.size) (hk : NoDupKey h c) : groupsOf h c = [] := by
  unfold groupsOf
  rw [List.filter_eq_nil_iff]
  intro g hg
  obtain ⟨e, he, hge⟩ := List.mem_flatMap.mp hg
  obtain ⟨kg, hkg, rfl⟩ := List.mem_map.mp hge
  have := group_small hw c hc hk e he kg hkg
  simp only [gt_iff_lt, decide_eq_true_eq]
  omega

/-- **nothing to merge, nothing written**: in a container whose keys are pairwise different, `_unified_records()` returns
    the record list itself and leaves the heap as it is -/
theorem c08_unifiedRecords_noop {h : Heap} (hw : WF2 h) (c : Nat) (hc : c < h.conts.size) (hk : NoDupKey h c) :
    h.unifiedRecords c = (h, .ok (h.cont c).records) := by
  have hg := groupsOf_nil hw c hc hk
  unfold groupsOf at hg
  unfold unifiedRecords
  simp only [hg, unifiedRecords.mergeAll]
  rw [c08_no_merge_identity]

end Prov.C08

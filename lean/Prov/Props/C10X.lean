/-
  C10 for PROV-XML at value level: the specification reader (written from the PROV-XML note, Prov/XmlSpec.lean) recovers
  from the child element the library's writer emits for an (attribute, value) pair exactly the value — for every value
  kind and both `force_types` settings, through the writer's whole xsi:type decision web.
-/
import Prov.Props.C10R
import Prov.Props.C02
import Prov.XmlSpec
import Prov.Props.C06V

namespace Prov.C10
open Prov Prov.XmlSpec Prov.JsonSpec Prov.C02

/-- the element's in-scope declarations bind `xsd` as the writer declares it -/
def StdMapX (nsmap : List (Option String × String)) : Prop := nsmapGet nsmap (some "xsd") = some xsdNsX

theorem split_pfx (p l : String) (hp : ':' ∉ p.toList) :
    splitFirstColon (p ++ ":" ++ l).toList = some (p.toList, l.toList) := by
  have hc : (":" : String).toList = [':'] := rfl
  simp only [String.toList_append, hc, List.append_assoc, List.cons_append, List.nil_append]
  generalize p.toList = cs at hp
  induction cs with
  | nil => simp [splitFirstColon]
  | cons c rest ih =>
    simp only [List.mem_cons, not_or] at hp
    have : (c == ':') = false := by simpa using Ne.symm hp.1
    simp [splitFirstColon, this, ih hp.2]

theorem resolve_xsd {nsmap : List (Option String × String)} (h : StdMapX nsmap) (l : String) :
    resolveQName nsmap ("xsd:" ++ l) = some (xsdNsX ++ "#" ++ l) := by
  have hs : splitFirstColon ("xsd:" ++ l).toList = some ("xsd".toList, l.toList) := by
    have := split_pfx "xsd" l (by decide)
    simpa [String.append_assoc] using this
  have h0 : nsmapGet nsmap (some "xsd") = some xsdNsX := h
  have h' : nsmapGet nsmap (some (String.ofList "xsd".toList)) = some xsdNsX := by simpa using h0
  unfold resolveQName
  rw [hs]
  simp only [String.ofList_toList, h0, Option.map_some, beq_self_eq_true, if_true]

/-- the child the writer emits, as the reader meets it: with the in-scope declarations of its position -/
def childAt (nsmap : List (Option String × String)) (ft : Bool) (attr : QName) (v : Value) : XNode :=
  { childNode attr (encodeXmlAttr ft attr v) with nsmap := nsmap }

/-- the writer's encodings, by value kind (the xsi:type decision web of `serialize_bundle`, for attributes that are neither
    references nor prov:time / prov:label) -/
theorem enc_int (ft : Bool) (attr : QName) (ha : PlainAttr attr) (n : Int) :
    encodeXmlAttr ft attr (.int n) = { xsiType := some "xsd:int", lang := none, ref := none, text := some (toString n) } := by
  have hlex : strStartsWithProv (toString n) = false := by
    unfold strStartsWithProv Text.sStartsWith Text.startsWith
    have hw := C06.int_chars n
    cases hl : (toString n).toList with
    | nil => simp [Text.dropPrefix?]
    | cons c cs =>
      have hc := hw c (by rw [hl]; simp)
      have hp : ("prov:" : String).toList = 'p' :: "rov:".toList := rfl
      rw [hp]
      simp only [Text.dropPrefix?]
      have : ('p' = c) = False := by
        apply eq_false
        intro e
        subst e
        rcases hc with h | h
        · simp [Char.isDigit] at h
        · cases h
      simp [this]
  have hlex' : strStartsWithProv n.repr = false := hlex
  simp [encodeXmlAttr, ha.notRef, ha.notTime, ha.notLabel, Value.pyStrFull, Value.pyStr, hlex']

/-- reading a child that carries only xsi:type and text -/
theorem spec_child (nsmap : List (Option String × String)) (hints : List (String × FloatAtom)) (ft : Bool) (attr : QName)
    (v : Value) (ty t : String)
    (henc : encodeXmlAttr ft attr v = { xsiType := some ty, lang := none, ref := none, text := some t }) :
    readChildValue hints false false (childAt nsmap ft attr v) =
      readChildValue hints false false
        { uri := attr.ns.uri, loc := attr.loc, pfx := none, nsmap := nsmap, attrs := [((xsiUri, "type"), ty)], text := some t,
          children := [] } := by
  simp [childAt, childNode, henc]

theorem e_lang : ((xsiUri, "type") == (xmlNsX, "lang")) = false := by decide
theorem e_type : ((xsiUri, "type") == (xsiNsX, "type")) = true := by decide

/-- **int** -/
theorem c10x_int (nsmap) (hstd : StdMapX nsmap) (hints) (ft : Bool) (attr : QName) (ha : PlainAttr attr) (n : Int) :
    readChildValue hints false false (childAt nsmap ft attr (.int n)) = some (absValue (.int n)) := by
  rw [spec_child nsmap hints ft attr _ _ _ (enc_int ft attr ha n)]
  have hx : resolveQName nsmap "xsd:int" = some (xsdNsX ++ "#" ++ "int") := by
    have e : ("xsd:" ++ "int" : String) = "xsd:int" := by decide +kernel
    rw [← e]; exact resolve_xsd hstd "int"
  have hi : (toString n).toInt? = some n := Int.toInt?_repr n
  simp [readChildValue, attrOf, e_lang, e_type, hx, hi, absValue]

/-- **bool** -/
theorem c10x_bool (nsmap) (hstd : StdMapX nsmap) (hints) (ft : Bool) (attr : QName) (ha : PlainAttr attr) (b : Bool) :
    readChildValue hints false false (childAt nsmap ft attr (.bool b)) = some (absValue (.bool b)) := by
  have hs : strStartsWithProv (if b then "True" else "False") = false := by cases b <;> decide
  have henc : encodeXmlAttr ft attr (.bool b) =
      { xsiType := some "xsd:boolean", lang := none, ref := none, text := some (if b then "True" else "False").toLower } := by
    simp [encodeXmlAttr, ha.notRef, ha.notTime, ha.notLabel, Value.pyStrFull, Value.pyStr, hs]
  rw [spec_child nsmap hints ft attr _ _ _ henc]
  have hx : resolveQName nsmap "xsd:boolean" = some (xsdNsX ++ "#" ++ "boolean") := by
    have e : ("xsd:" ++ "boolean" : String) = "xsd:boolean" := by decide +kernel
    rw [← e]; exact resolve_xsd hstd "boolean"
  have lt : "True".toLower.toLower = "true" := by decide +kernel
  have lf : "False".toLower.toLower = "false" := by decide +kernel
  cases b
  · simp [readChildValue, attrOf, e_lang, e_type, hx, absValue, lf]
  · simp [readChildValue, attrOf, e_lang, e_type, hx, absValue, lt]

/-- **URI** (the writer's `startswith("prov:")` exception is a hypothesis: such a URI is written without a type) -/
theorem c10x_uri (nsmap) (hstd : StdMapX nsmap) (hints) (ft : Bool) (attr : QName) (ha : PlainAttr attr) (u : String)
    (hlex : strStartsWithProv u = false) :
    readChildValue hints false false (childAt nsmap ft attr (.uri u)) = some (absValue (.uri u)) := by
  have henc : encodeXmlAttr ft attr (.uri u) = { xsiType := some "xsd:anyURI", lang := none, ref := none, text := some u } := by
    simp [encodeXmlAttr, ha.notRef, ha.notTime, ha.notLabel, Value.pyStrFull, Value.pyStr, hlex]
  rw [spec_child nsmap hints ft attr _ _ _ henc]
  have hx : resolveQName nsmap "xsd:anyURI" = some (xsdNsX ++ "#" ++ "anyURI") := by
    have e : ("xsd:" ++ "anyURI" : String) = "xsd:anyURI" := by decide +kernel
    rw [← e]; exact resolve_xsd hstd "anyURI"
  simp [readChildValue, attrOf, e_lang, e_type, hx, absValue]

/-- **float** (A-LEX: the float table holds the text) -/
theorem c10x_float (nsmap) (hstd : StdMapX nsmap) (hints : List (String × FloatAtom)) (ft : Bool) (attr : QName)
    (ha : PlainAttr attr) (f : FloatAtom) (hlex : strStartsWithProv f.repr = false)
    (hh : ∃ h, hints.find? (fun h => h.1 == f.repr) = some h ∧ h.2.repr = f.repr) :
    readChildValue hints false false (childAt nsmap ft attr (.float f)) = some (absValue (.float f)) := by
  have henc : encodeXmlAttr ft attr (.float f) = { xsiType := some "xsd:double", lang := none, ref := none, text := some f.repr } := by
    simp [encodeXmlAttr, ha.notRef, ha.notTime, ha.notLabel, Value.pyStrFull, Value.pyStr, hlex]
  rw [spec_child nsmap hints ft attr _ _ _ henc]
  have hx : resolveQName nsmap "xsd:double" = some (xsdNsX ++ "#" ++ "double") := by
    have e : ("xsd:" ++ "double" : String) = "xsd:double" := by decide +kernel
    rw [← e]; exact resolve_xsd hstd "double"
  obtain ⟨h, hf, hr⟩ := hh
  simp [readChildValue, attrOf, e_lang, e_type, hx, absValue, hf, hr]

/-- **date-time** as an attribute value -/
theorem c10x_datetime (nsmap) (hstd : StdMapX nsmap) (hints) (ft : Bool) (attr : QName) (ha : PlainAttr attr) (t : DateTime)
    (hv : ValidDT t) (hpfx : attr.ns.pfx ≠ "prov") (hlex : strStartsWithProv (Value.dt t).pyStrFull = false) :
    readChildValue hints false false (childAt nsmap ft attr (.dt t)) = some (absValue (.dt t)) := by
  have hpfx' : (attr.ns.pfx != "prov") = true := by simpa using hpfx
  have henc : encodeXmlAttr ft attr (.dt t) = { xsiType := some "xsd:dateTime", lang := none, ref := none, text := some t.iso } := by
    simp [encodeXmlAttr, ha.notRef, ha.notTime, ha.notLabel, hlex, hpfx']
  rw [spec_child nsmap hints ft attr _ _ _ henc]
  have hx : resolveQName nsmap "xsd:dateTime" = some (xsdNsX ++ "#" ++ "dateTime") := by
    have e : ("xsd:" ++ "dateTime" : String) = "xsd:dateTime" := by decide +kernel
    rw [← e]; exact resolve_xsd hstd "dateTime"
  have hp : (parseIso t.iso).isSome = true := by rw [parseIso_iso t hv]; rfl
  simp [readChildValue, attrOf, e_lang, e_type, hx, absValue, hp]

/-- **string**: with or without xsi:type="xsd:string" -/
theorem c10x_str (nsmap) (hstd : StdMapX nsmap) (hints) (ft : Bool) (attr : QName) (ha : PlainAttr attr) (s : String) :
    readChildValue hints false false (childAt nsmap ft attr (.str s)) = some (absValue (.str s)) := by
  have hcases : encodeXmlAttr ft attr (.str s) = { xsiType := some "xsd:string", lang := none, ref := none, text := some s } ∨
      encodeXmlAttr ft attr (.str s) = { xsiType := none, lang := none, ref := none, text := some s } := by
    simp only [encodeXmlAttr, ha.notRef, ha.notTime, ha.notLabel, Value.pyStrFull, Value.pyStr]
    split <;> simp_all
  rcases hcases with henc | henc
  · rw [spec_child nsmap hints ft attr _ _ _ henc]
    have hx : resolveQName nsmap "xsd:string" = some (xsdNsX ++ "#" ++ "string") := by
      have e : ("xsd:" ++ "string" : String) = "xsd:string" := by decide +kernel
      rw [← e]; exact resolve_xsd hstd "string"
    simp [readChildValue, attrOf, e_lang, e_type, hx, absValue]
  · simp [readChildValue, childAt, childNode, henc, attrOf, absValue]

/-- **qualified name** as the value of a non-reference attribute: xsi:type="xsd:QName", text prefix:local -/
theorem c10x_qname (nsmap) (hstd : StdMapX nsmap) (hints) (ft : Bool) (attr : QName) (ha : PlainAttr attr) (q : QName)
    (hres : resolveQName nsmap q.print = some q.uri) :
    readChildValue hints false false (childAt nsmap ft attr (.qn q)) = some (absValue (.qn q)) := by
  have henc : encodeXmlAttr ft attr (.qn q) = { xsiType := some "xsd:QName", lang := none, ref := none, text := some q.print } := by
    simp [encodeXmlAttr, ha.notRef, Value.pyStrFull, Value.pyStr]
  rw [spec_child nsmap hints ft attr _ _ _ henc]
  have hx : resolveQName nsmap "xsd:QName" = some (xsdNsX ++ "#" ++ "QName") := by
    have e : ("xsd:" ++ "QName" : String) = "xsd:QName" := by decide +kernel
    rw [← e]; exact resolve_xsd hstd "QName"
  simp [readChildValue, attrOf, e_lang, e_type, hx, absValue, hres]

/-- **language-tagged string**: xml:lang, no xsi:type -/
theorem c10x_lang (nsmap) (hints) (ft : Bool) (attr : QName) (hnr : isRefAttr attr = false) (v l : String) :
    readChildValue hints false false (childAt nsmap ft attr (.lit v (some (provQ "InternationalizedString")) (some l))) =
      some (absValue (.lit v (some (provQ "InternationalizedString")) (some l))) := by
  have hu : ((provQ "InternationalizedString").uri == provUri ++ "InternationalizedString") = true := by decide
  have henc : encodeXmlAttr ft attr (.lit v (some (provQ "InternationalizedString")) (some l)) =
      { xsiType := none, lang := some l, ref := none, text := some v } := by
    simp [encodeXmlAttr, hnr, hu, Value.pyStrFull]
  have e3 : ((xmlUri, "lang") == (xmlNsX, "lang")) = true := by decide
  simp [readChildValue, childAt, childNode, henc, attrOf, e3, absValue]
  decide

/-- **literal of a foreign datatype**: xsi:type="prefix:local" as the datatype prints -/
theorem c10x_typed (nsmap) (hints) (ft : Bool) (attr : QName) (hnr : isRefAttr attr = false) (v : String) (t : QName)
    (hnis : (t.uri == provUri ++ "InternationalizedString") = false)
    (hres : resolveQName nsmap (t.ns.pfx ++ ":" ++ t.loc) = some t.uri)
    (hf : t.uri ≠ xsdNsX ++ "#" ++ "QName" ∧ t.uri ≠ xsdNsX ++ "#" ++ "string" ∧ t.uri ≠ xsdNsX ++ "#" ++ "anyURI" ∧
      t.uri ≠ xsdNsX ++ "#" ++ "int" ∧ t.uri ≠ xsdNsX ++ "#" ++ "long" ∧ t.uri ≠ xsdNsX ++ "#" ++ "double" ∧
      t.uri ≠ xsdNsX ++ "#" ++ "boolean" ∧ t.uri ≠ xsdNsX ++ "#" ++ "dateTime") :
    readChildValue hints false false (childAt nsmap ft attr (.lit v (some t) none)) = some (absValue (.lit v (some t) none)) := by
  have henc : encodeXmlAttr ft attr (.lit v (some t) none) =
      { xsiType := some (t.ns.pfx ++ ":" ++ t.loc), lang := none, ref := none, text := some v } := by
    simp [encodeXmlAttr, hnr, hnis, Value.pyStrFull]
  rw [spec_child nsmap hints ft attr _ _ _ henc]
  obtain ⟨f1, f2, f3, f4, f5, f6, f7, f8⟩ := hf
  simp [readChildValue, attrOf, e_lang, e_type, hres, absValue, f1, f2, f3, f4, f5, f6, f7, f8]

/-- **reference child** (prov:entity, prov:activity, … of the record's formal sequence): prov:ref="prefix:local" -/
theorem c10x_ref (nsmap) (hints) (ft : Bool) (attr : QName) (href : isRefAttr attr = true) (q : QName) (hne : q.print ≠ "")
    (hres : resolveQName nsmap q.print = some q.uri) :
    readChildValue hints true false (childAt nsmap ft attr (.qn q)) = some (absValue (.qn q)) := by
  have hne' : (q.print != "") = true := by simpa using hne
  have henc : encodeXmlAttr ft attr (.qn q) = { xsiType := none, lang := none, ref := some q.print, text := none } := by
    simp [encodeXmlAttr, href, hne', Value.pyStrFull, Value.pyStr]
  have e4 : ((provUri, "ref") == (provNsX, "ref")) = true := by decide
  simp [readChildValue, childAt, childNode, henc, attrOf, e4, hres, absValue]

theorem enc_dt_text (ft : Bool) (attr : QName) (hnr : isRefAttr attr = false) (t : DateTime) :
    (encodeXmlAttr ft attr (.dt t)).text = some t.iso := by
  simp only [encodeXmlAttr, hnr]
  split <;> (try split) <;> simp_all

/-- **time child** (prov:time, prov:startTime, prov:endTime): the text is the date-time -/
theorem c10x_time (nsmap) (hints) (ft : Bool) (attr : QName) (hnr : isRefAttr attr = false) (t : DateTime) :
    readChildValue hints false true (childAt nsmap ft attr (.dt t)) = some (absValue (.dt t)) := by
  simp [readChildValue, childAt, childNode, enc_dt_text ft attr hnr t, absValue]

end Prov.C10

/-
  C10 for PROV-XML at value level: the specification reader (written from the PROV-XML note, Prov/XmlSpec.lean) recovers
  from the child element the library's writer emits for an (attribute, value) pair exactly the value — for every value
  kind and both `force_types` settings, through the writer's whole xsi:type decision web.
-/
import Prov.Props.C10R
import Prov.Props.C02
import Prov.XmlSpec

namespace Prov.C10
open Prov Prov.XmlSpec Prov.JsonSpec Prov.C02

/-- the element's in-scope declarations bind `xsd` as the writer declares it -/
def StdMapX (nsmap : List (Option String × String)) : Prop := nsmapGet nsmap (some "xsd") = some xsdNsX

theorem split_pfx (p l : String) (hp : ':' ∉ p.toList) :
    splitFirstColon (p ++ ":" ++ l).toList = some (p.toList, l.toList) := by
  have hc : (":" : String).toList = [':'] := rfl
  simp only [String.toList_append, hc, List.append_assoc, List.cons_append, List.nil_append]
  generalize p.toList = cs at hp
  induction cs with
  | nil => simp [splitFirstColon]
  | cons c rest ih =>
    simp only [List.mem_cons, not_or] at hp
    have : (c == ':') = false := by simpa using Ne.symm hp.1
    simp [splitFirstColon, this, ih hp.2]

theorem resolve_xsd {nsmap : List (Option String × String)} (h : StdMapX nsmap) (l : String) :
    resolveQName nsmap ("xsd:" ++ l) = some (xsdNsX ++ "#" ++ l) := by
  have hs : splitFirstColon ("xsd:" ++ l).toList = some ("xsd".toList, l.toList) := by
    have := split_pfx "xsd" l (by decide)
    simpa [String.append_assoc] using this
  unfold resolveQName
  rw [hs]
  have h' : nsmapGet nsmap (some (String.ofList "xsd".toList)) = some xsdNsX := by simpa using h
  simp [h']

/-- the child the writer emits, as the reader meets it: with the in-scope declarations of its position -/
def childAt (nsmap : List (Option String × String)) (ft : Bool) (attr : QName) (v : Value) : XNode :=
  { childNode attr (encodeXmlAttr ft attr v) with nsmap := nsmap }

/-- a child carrying only xsi:type="xsd:l" and text `t` -/
theorem spec_typed (nsmap) (hstd : StdMapX nsmap) (hints : List (String × FloatAtom)) (ft : Bool) (attr : QName) (v : Value)
    (l t : String)
    (henc : encodeXmlAttr ft attr v = { xsiType := some ("xsd:" ++ l), lang := none, ref := none, text := some t }) :
    readChildValue hints false false (childAt nsmap ft attr v) =
      (let tu := xsdNsX ++ "#" ++ l
       let xs := xsdNsX ++ "#"
       if tu == xs ++ "QName" then (resolveQName nsmap t).map AVal.qn
       else if tu == xs ++ "string" then some (.str t)
       else if tu == xs ++ "anyURI" then some (.uri t)
       else if tu == xs ++ "int" || tu == xs ++ "long" then
         (match t.toInt? with | some n => some (.int n) | none => some (.lit t (some tu) none))
       else if tu == xs ++ "double" then
         (match hints.find? (fun h => h.1 == t) with
          | some h => some (.float h.2.repr)
          | none => some (.lit t (some tu) none))
       else if tu == xs ++ "boolean" then
         (let lo := t.toLower
          if lo == "true" || lo == "1" then some (.bool true)
          else if lo == "false" || lo == "0" then some (.bool false)
          else some (.lit t (some tu) none))
       else if tu == xs ++ "dateTime" then
         (if (parseIso t).isSome then some (.dt t) else some (.lit t (some tu) none))
       else some (.lit t (some tu) none)) := by
  have hx := resolve_xsd hstd l
  have e1 : ((xsiUri, "type") == (xmlNsX, "lang")) = false := by decide
  have e2 : ((xsiUri, "type") == (xsiNsX, "type")) = true := by decide
  simp [readChildValue, childAt, childNode, henc, attrOf, e1, e2, hx]

end Prov.C10

/-
  C13 / C08, "the source is untouched by `unified()`" on every reachable state: the two side conditions of
  `c13_unified_untouched` (`Props/C13M`) — the container refers to an allocated manager cell, and that cell's parent link, if
  any, to an allocated cell — are invariants of every history (`WfP`, over mutators and deriving operations alike). So in every
  state the public interface can produce, for every container that exists, `ProvDocument.unified()` leaves the container
  cell, the manager it resolves names with, its parent manager and every record cell exactly as they were.
-/
import Prov.Props.C13M
import Prov.Props.C12C

namespace Prov.C13
open Prov Prov.Heap Prov.C05 Prov.C09 Prov.C08 Prov.C18 Prov.C12

/-- every container refers to an allocated manager cell, and every parent link to an allocated cell -/
def WfP (h : Heap) : Prop :=
  WfMgr h ∧ ∀ i p, (h.mgrCell i).parent = some p → p < h.mgrs.size

theorem wfP_empty : WfP Heap.empty :=
  ⟨wfMgr_empty, fun i p hp => by simp [Heap.empty, mgrCell] at hp; cases hp⟩

theorem parent_setMgr (h : Heap) (c i : Nat) (m : NsMgr) : ((h.setMgr c m).mgrCell i).parent = (h.mgrCell i).parent := by
  simp only [setMgr, mgrCell, Array.getD_eq_getD_getElem?, Array.getElem?_setIfInBounds]
  split
  · next e =>
    split
    · next hlt => subst e; simp [Array.getElem?_eq_getElem hlt]
    · next hlt => subst e; simp [Array.getElem?_eq_none (Nat.le_of_not_lt hlt)]
  · rfl

theorem wfP_setMgr {h : Heap} (hw : WfP h) (c : Nat) (m : NsMgr) : WfP (h.setMgr c m) := by
  refine ⟨wfMgr_setMgr hw.1 c m, fun i p hp => ?_⟩
  have hsz : (h.setMgr c m).mgrs.size = h.mgrs.size := by simp [setMgr]
  rw [hsz]
  rw [parent_setMgr] at hp
  exact hw.2 i p hp

theorem wfP_recs {h : Heap} (hw : WfP h) (rs : Array RecCell) : WfP { h with recs := rs } :=
  ⟨wfMgr_same hw.1 rfl rfl, hw.2⟩

theorem wfP_setRec {h : Heap} (hw : WfP h) (r : Nat) (rc : Record) : WfP (h.setRec r rc) := wfP_recs hw _

theorem wfP_setCont {h : Heap} (hw : WfP h) (c : Nat) (k : Cont) (hk : k.mgr = (h.cont c).mgr) : WfP (h.setCont c k) :=
  ⟨wfMgr_setCont hw.1 c k hk, hw.2⟩

theorem mgr_lt_succ {h : Heap} (hw : WfMgr h) (d : Nat) : (h.cont d).mgr < h.mgrs.size + 1 := by
  by_cases hd : d < h.conts.size
  · exact Nat.lt_succ_of_lt (hw d hd)
  · have : h.cont d = default := by simp [cont, Array.getD_eq_getD_getElem?, Array.getElem?_eq_none (Nat.le_of_not_lt hd)]
    rw [this]
    exact Nat.succ_pos _

theorem wfP_allocCont {h : Heap} (hw : WfP h) (isDoc : Bool) (id : Option QName) (nss : List Ns) (doc : Option Nat) :
    WfP (h.allocCont isDoc id nss doc).1 := by
  refine ⟨wfMgr_allocCont h isDoc id nss doc hw.1, fun i p hp => ?_⟩
  have hsz : (h.allocCont isDoc id nss doc).1.mgrs.size = h.mgrs.size + 1 := by simp [allocCont, allocMgr]
  rw [hsz]
  simp only [allocCont, allocMgr, mgrCell, Array.getD_eq_getD_getElem?, Array.getElem?_push] at hp
  split at hp
  · -- the new cell: its parent is the manager of the document given
    simp only [Option.getD_some] at hp
    cases doc with
    | none => simp at hp
    | some d =>
      simp only [Option.map_some, Option.some.injEq] at hp
      rw [← hp]
      exact mgr_lt_succ hw.1 d
  · have := hw.2 i p (by simpa [mgrCell, Array.getD_eq_getD_getElem?] using hp)
    exact Nat.lt_succ_of_lt this

theorem wfP_linkParent {h : Heap} (hw : WfP h) (d b' : Nat) : WfP (h.linkParent d b') := by
  have hsz : (h.linkParent d b').mgrs.size = h.mgrs.size := by simp [linkParent]
  refine ⟨wfMgr_same hw.1 rfl hsz, fun i p hp => ?_⟩
  rw [hsz]
  unfold linkParent at hp
  simp only [mgrCell, Array.getD_eq_getD_getElem?, Array.getElem?_setIfInBounds] at hp
  split at hp
  · split at hp
    · next _ hlt =>
      simp only [Option.getD_some, Option.some.injEq] at hp
      rw [← hp]
      -- the written cell exists, so there is at least one cell; the document's manager is allocated (or the default 0)
      by_cases hd : d < h.conts.size
      · exact hw.1 d hd
      · have : h.cont d = default := by simp [cont, Array.getD_eq_getD_getElem?, Array.getElem?_eq_none (Nat.le_of_not_lt hd)]
        rw [this]
        exact Nat.lt_of_le_of_lt (Nat.zero_le _) hlt
    · have hd0 : (default : MgrCell).parent = none := rfl
      simp only [Option.getD_none] at hp
      rw [hd0] at hp; cases hp
  · exact hw.2 i p (by simpa [mgrCell, Array.getD_eq_getD_getElem?] using hp)

theorem wfP_validName {h : Heap} (hw : WfP h) (c : Nat) (x : NameArg) : WfP (h.validName c x).1 := by
  unfold Heap.validName; exact wfP_setMgr hw _ _

theorem wfP_mkRecord {h : Heap} (hw : WfP h) (c : Nat) (k : RecKind) (id : Option QName) (attrs : List AttrArg) :
    WfP (h.mkRecord c k id attrs).1 := by
  unfold Heap.mkRecord
  split
  · exact hw
  · simp only []
    split
    · exact wfP_setMgr hw _ _
    · exact wfP_recs (wfP_setMgr hw c _) _

theorem wfP_addAttributes {h : Heap} (hw : WfP h) (r : Nat) (attrs : List AttrArg) : WfP (h.addAttributes r attrs).1 := by
  unfold Heap.addAttributes
  simp only []
  exact wfP_setRec (wfP_setMgr hw _ _) _ _

theorem wfP_newRecord {h : Heap} (hw : WfP h) (c : Nat) (k : RecKind) (idArg : NameArg) (attrs : List AttrArg) :
    WfP (h.newRecord c k idArg attrs).1 := by
  unfold Heap.newRecord
  simp only []
  have s1 := wfP_validName hw c idArg
  generalize h.validName c idArg = vn at s1
  obtain ⟨h1, vid⟩ := vn
  simp only at s1 ⊢
  have s2 := wfP_mkRecord s1 c k vid attrs
  generalize h1.mkRecord c k vid attrs = mk at s2
  obtain ⟨h2, e⟩ := mk
  cases e with
  | error err => exact s2
  | ok r => unfold addRecordRaw; exact wfP_setCont s2 c _ rfl

theorem wfP_bundle {h : Heap} (hw : WfP h) (d : Nat) (idArg : NameArg) : WfP (h.bundle d idArg).1 := by
  unfold Heap.bundle
  split
  · exact hw
  · have h1 := wfP_validName hw d idArg
    generalize h.validName d idArg = res at h1
    obtain ⟨hh, vid⟩ := res
    simp only at h1 ⊢
    cases vid with
    | none => exact h1
    | some q =>
      simp only
      split
      · exact h1
      · have h2 := wfP_allocCont h1 false (some q) [] (some d)
        generalize hh.allocCont false (some q) [] (some d) = al at h2
        obtain ⟨h3, nb⟩ := al
        simp only at h2 ⊢
        exact wfP_setCont h2 d _ rfl

theorem wfP_addRecords (c : Nat) : ∀ (rs : List Nat) (h : Heap), WfP h → WfP (h.addRecords c rs).1
  | [], _, hw => hw
  | r :: rest, h, hw => by
    unfold Heap.addRecords
    simp only [Heap.addRecord]
    have s1 := wfP_newRecord hw c (h.recCell r).r.kind (recreateArgs (h.recCell r).r).1 (recreateArgs (h.recCell r).r).2
    generalize h.newRecord c (h.recCell r).r.kind (recreateArgs (h.recCell r).r).1 (recreateArgs (h.recCell r).r).2 = res at s1
    obtain ⟨h1, e⟩ := res
    cases e with
    | error err => exact s1
    | ok nr => exact wfP_addRecords c rest h1 s1

theorem wfP_scratchCopy {h : Heap} (hw : WfP h) (r0 : Nat) : WfP (h.scratchCopy r0).1 := by
  unfold scratchCopy
  simp only []
  have s0 := wfP_allocCont hw false none [] none
  generalize h.allocCont false none [] none = al at s0
  obtain ⟨h0, sc⟩ := al
  exact wfP_mkRecord s0 sc _ _ _

theorem wfP_mergeGo (mref : Nat) : ∀ (rs : List Nat) (h : Heap), WfP h → WfP (mergeGroup.go mref h rs).1
  | [], _, hw => hw
  | r :: more, h, hw => by
    unfold mergeGroup.go
    simp only []
    have s1 := wfP_addAttributes hw mref ((h.recCell r).r.flat.map (fun p => ({ name := .qn p.1, value := .val p.2 } : AttrArg)))
    generalize h.addAttributes mref ((h.recCell r).r.flat.map (fun p => ({ name := .qn p.1, value := .val p.2 } : AttrArg))) = res at s1
    obtain ⟨h', e⟩ := res
    cases e with
    | none => exact wfP_mergeGo mref more h' s1
    | some err => exact s1

theorem wfP_mergeGroup {h : Heap} (hw : WfP h) (rs : List Nat) : WfP (h.mergeGroup rs).1 := by
  unfold mergeGroup
  cases rs with
  | nil => exact hw
  | cons r0 rest =>
    simp only []
    have s1 := wfP_scratchCopy hw r0
    generalize h.scratchCopy r0 = res at s1
    obtain ⟨h1, e⟩ := res
    cases e with
    | error err => exact s1
    | ok mref =>
      simp only []
      have s2 := wfP_mergeGo mref rest h1 s1
      generalize mergeGroup.go mref h1 rest = res2 at s2
      obtain ⟨h2, e2⟩ := res2
      cases e2 <;> exact s2

theorem wfP_mergeAll : ∀ (gs : List (List Nat)) (h : Heap) (acc : List (Nat × Nat)), WfP h →
    WfP (unifiedRecords.mergeAll h acc gs).1
  | [], _, _, hw => hw
  | grp :: gs, h, acc, hw => by
    unfold unifiedRecords.mergeAll
    have s1 := wfP_mergeGroup hw grp
    generalize h.mergeGroup grp = res at s1
    obtain ⟨h1, e⟩ := res
    cases e with
    | error err => exact s1
    | ok mref => exact wfP_mergeAll gs h1 _ s1

theorem wfP_unifiedRecords {h : Heap} (hw : WfP h) (c : Nat) : WfP (h.unifiedRecords c).1 := by
  unfold unifiedRecords
  simp only []
  have s1 := wfP_mergeAll (((h.cont c).idMap.flatMap (fun e => (groupByKind h e.2).map (·.2))).filter (fun g => g.length > 1)) h [] hw
  generalize unifiedRecords.mergeAll h [] _ = res at s1
  obtain ⟨h1, e⟩ := res
  cases e <;> exact s1

theorem wfP_unifiedBundle {h : Heap} (hw : WfP h) (c : Nat) : WfP (h.unifiedBundle c).1 := by
  unfold unifiedBundle
  have s1 := wfP_unifiedRecords hw c
  generalize h.unifiedRecords c = res at s1
  obtain ⟨h1, e⟩ := res
  cases e with
  | error err => exact s1
  | ok rs =>
    simp only []
    have s2 := wfP_allocCont s1 false (h1.cont c).id [] none
    generalize h1.allocCont false (h1.cont c).id [] none = al at s2
    obtain ⟨h2, nb⟩ := al
    have s3 := wfP_addRecords nb rs h2 s2
    generalize h2.addRecords nb rs = res3 at s3
    obtain ⟨h3, e3⟩ := res3
    cases e3 <;> exact s3

theorem wfP_registerBundle {h3 : Heap} (hw : WfP h3) (d b' : Nat) (q : QName) : WfP (h3.registerBundle d b' q).1 := by
  unfold registerBundle
  simp only []
  have s4 := wfP_setCont hw b' { h3.cont b' with id := some q } rfl
  split
  · exact s4
  · refine wfP_setCont (wfP_setCont s4 d _ ?_) b' _ ?_ <;> rfl

theorem wfP_attachBundle {h1 : Heap} (hw : WfP h1) (d b' : Nat) (idArg : NameArg) : WfP (h1.attachBundle d b' idArg).1 := by
  unfold attachBundle
  split
  · exact hw
  · have s2 : WfP (h1.linkParent d b') := by exact wfP_linkParent hw d b'
    have s3 := wfP_validName s2 b' (h1.defaultBundleId b' idArg)
    generalize (h1.linkParent d b').validName b' (h1.defaultBundleId b' idArg) = vn at s3
    obtain ⟨h3, vid⟩ := vn
    cases vid with
    | none => exact s3
    | some q => exact wfP_registerBundle s3 d b' q

theorem wfP_addBundle {h : Heap} (hw : WfP h) (d b : Nat) (idArg : NameArg) (nsOrder : List Ns) :
    WfP (h.addBundle d b idArg nsOrder).1 := by
  unfold addBundle
  simp only []
  by_cases hdoc : (h.cont b).isDoc = true
  · simp only [hdoc, if_true]
    by_cases hbs : (!(h.cont b).bundles.isEmpty) = true
    · simp only [hbs, if_true]
      exact hw
    · simp only [hbs, Bool.false_eq_true, if_false]
      have s2 := wfP_allocCont hw false none nsOrder none
      generalize h.allocCont false none nsOrder none = al at s2
      obtain ⟨h2, nb⟩ := al
      have s3 := wfP_addRecords nb (h.cont b).records h2 s2
      generalize h2.addRecords nb (h.cont b).records = res3 at s3
      obtain ⟨h3, e3⟩ := res3
      cases e3 with
      | some err => exact s3
      | none => exact wfP_attachBundle s3 d nb idArg
  · simp only [hdoc, Bool.false_eq_true, if_false]
    exact wfP_attachBundle hw d b idArg

theorem wfP_unifiedGo (nd : Nat) : ∀ (bs : List (QName × Nat)) (h : Heap), WfP h → WfP (unifiedInto.go nd h bs).1
  | [], _, hw => hw
  | (q, b) :: rest, h, hw => by
    unfold unifiedInto.go
    have s1 := wfP_unifiedBundle hw b
    generalize h.unifiedBundle b = res at s1
    obtain ⟨h', e⟩ := res
    cases e with
    | error err => exact s1
    | ok ub =>
      simp only []
      have s2 := wfP_addBundle s1 nd ub .nil []
      generalize h'.addBundle nd ub .nil [] = res2 at s2
      obtain ⟨h'', e2⟩ := res2
      cases e2 with
      | some err => exact s2
      | none => exact wfP_unifiedGo nd rest h'' s2

theorem wfP_unifiedDoc {h : Heap} (hw : WfP h) (d : Nat) : WfP (h.unifiedDoc d).1 := by
  unfold unifiedDoc
  simp only []
  have s1 := wfP_allocCont hw true none (h.mgrOf d).reg.values none
  generalize h.allocCont true none (h.mgrOf d).reg.values none = al at s1
  obtain ⟨h1, nd⟩ := al
  simp only []
  have s2 : WfP (h1.copyDefault nd (h.mgrOf d).dflt) := by
    unfold copyDefault
    split
    · unfold Heap.setDefault; exact wfP_setMgr s1 _ _
    · exact s1
  generalize h1.copyDefault nd (h.mgrOf d).dflt = h2 at s2
  unfold unifiedInto
  have s3 := wfP_unifiedRecords s2 d
  generalize h2.unifiedRecords d = res at s3
  obtain ⟨h3, e⟩ := res
  cases e with
  | error err => exact s3
  | ok rs =>
    simp only []
    have s4 := wfP_addRecords nd rs h3 s3
    generalize h3.addRecords nd rs = res4 at s4
    obtain ⟨h4, e4⟩ := res4
    cases e4 with
    | some err => exact s4
    | none =>
      simp only []
      have s5 := wfP_unifiedGo nd (h4.cont d).bundles h4 s4
      generalize unifiedInto.go nd h4 (h4.cont d).bundles = res5 at s5
      obtain ⟨h5, e5⟩ := res5
      cases e5 <;> exact s5

theorem wfP_flattened {h : Heap} (hw : WfP h) (d : Nat) : WfP (h.flattened d).1 := by
  unfold flattened
  simp only []
  split
  · exact hw
  · simp only [newDoc]
    have s1 := wfP_allocCont hw true none [] none
    generalize h.allocCont true none [] none = al at s1
    obtain ⟨h1, nd⟩ := al
    simp only []
    have s2 := wfP_addRecords nd ((h.cont d).records ++ (h.cont d).bundles.flatMap (fun p => (h.cont p.2).records)) h1 s1
    generalize h1.addRecords nd _ = res at s2
    obtain ⟨h2, e⟩ := res
    cases e <;> exact s2

theorem wfP_updateBundle {h : Heap} (hw : WfP h) (c o : Nat) : WfP (h.updateBundle c o).1 := by
  unfold updateBundle
  simp only []
  split
  · exact hw
  · exact wfP_addRecords c _ h hw

theorem wfP_updateGo (d : Nat) : ∀ (bs : List (QName × Nat)) (h : Heap), WfP h → WfP (updateDoc.go d h bs).1
  | [], _, hw => hw
  | (_, b) :: rest, h, hw => by
    unfold updateDoc.go
    cases hid : (h.cont b).id with
    | none => exact hw
    | some bid =>
      simp only []
      cases hget : bundlesGet (h.cont d).bundles bid with
      | some tb =>
        simp only []
        have s1 := wfP_updateBundle hw tb b
        generalize h.updateBundle tb b = res at s1
        obtain ⟨h', e⟩ := res
        cases e with
        | none => exact wfP_updateGo d rest h' s1
        | some err => exact s1
      | none =>
        simp only []
        have s1 := wfP_bundle hw d (.qn bid)
        generalize h.bundle d (.qn bid) = res at s1
        obtain ⟨h', e⟩ := res
        cases e with
        | error err => exact s1
        | ok nb =>
          simp only []
          have s2 := wfP_updateBundle s1 nb b
          generalize h'.updateBundle nb b = res2 at s2
          obtain ⟨h'', e2⟩ := res2
          cases e2 with
          | none => exact wfP_updateGo d rest h'' s2
          | some err => exact s2

theorem wfP_update {h : Heap} (hw : WfP h) (c o : Nat) : WfP (h.update c o).1 := by
  unfold update
  split
  · unfold updateDoc
    simp only []
    have s1 := wfP_addRecords c (h.cont o).records h hw
    generalize h.addRecords c (h.cont o).records = res at s1
    obtain ⟨h1, e⟩ := res
    cases e with
    | some err => exact s1
    | none => exact wfP_updateGo c (h.cont o).bundles h1 s1
  · exact wfP_updateBundle hw c o

theorem dstep_wfP {h : Heap} (hw : WfP h) (op : DOp) : WfP (dstep h op) := by
  cases op with
  | addRecord c r => exact wfP_newRecord hw c _ _ _
  | update c o => exact wfP_update hw c o
  | addBundle d b id nsOrder => exact wfP_addBundle hw d b id nsOrder
  | flattened d => exact wfP_flattened hw d
  | unifiedBundle c => exact wfP_unifiedBundle hw c
  | unifiedDoc d => exact wfP_unifiedDoc hw d

theorem hstep_wfP {h : Heap} (hw : WfP h) (op : HOp) : WfP (hstep h op) := by
  cases op with
  | newDoc nss => exact wfP_allocCont hw true none nss none
  | newBundle id nss doc => exact wfP_allocCont hw false id nss doc
  | bundle d id => exact wfP_bundle hw d id
  | addNs c n => unfold hstep Heap.addNs; exact wfP_setMgr hw c _
  | setDefault c u => unfold hstep Heap.setDefault; exact wfP_setMgr hw c _
  | validName c x => exact wfP_validName hw c x
  | newRecord c k id attrs => exact wfP_newRecord hw c k id attrs
  | addAttributes r attrs => exact wfP_addAttributes hw r attrs
  | setTime r st en =>
    unfold hstep Heap.setTime
    dsimp only
    split
    · exact hw
    · split
      · exact wfP_setRec hw _ _
      · exact wfP_setRec hw _ _
  | addAssertedType r v flt =>
    unfold hstep Heap.addAssertedType
    dsimp only
    generalize autoLiteral (h.mgrOf (h.recCell r).bundle) v flt = res
    obtain ⟨m', conv⟩ := res
    simp only
    cases conv with
    | ok v' => exact wfP_setRec (wfP_setMgr hw _ m') r _
    | isNone => exact wfP_setMgr hw _ m'
    | crash e => exact wfP_setMgr hw _ m'

/-- **every reachable state is well-formed in this sense** -/
theorem reachAny_wfP {h : Heap} (hr : ReachAny h) : WfP h := by
  induction hr with
  | empty => exact wfP_empty
  | mutate op _ ih => exact hstep_wfP ih op
  | derive op _ ih => exact dstep_wfP ih op

/-- **`unified()` leaves its source untouched, in every reachable state**: for every container that exists — the document
    unified, its bundles, any other document — the container cell (records and their order, identifier index, bundle table,
    identifier), the namespace manager it resolves names with, its parent manager, and every record cell are the same after
    `ProvDocument.unified()` as before, whether the call succeeds or raises -/
theorem c13_unified_untouched_reach {h : Heap} (hr : ReachAny h) (d : Nat) (c : Nat) (hc : c < h.conts.size) :
    (h.unifiedDoc d).1.cont c = h.cont c ∧ (h.unifiedDoc d).1.mgrOf c = h.mgrOf c ∧
      (h.unifiedDoc d).1.parentOf c = h.parentOf c ∧
      ∀ r, r < h.recs.size → (h.unifiedDoc d).1.recCell r = h.recCell r :=
  c13_unified_untouched h d c hc ((reachAny_wfP hr).1 c hc) (fun p hp => (reachAny_wfP hr).2 _ p hp)

end Prov.C13

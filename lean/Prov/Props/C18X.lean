/-
  C18, refused calls: a `new_record` / typed factory / convenience method / `add_record` call that raises leaves no record
  behind — the record array, every record list, every identifier index and every bundle table are exactly as they were, so
  `get_record` cannot return a record that `records` does not list (a "ghost"), and `get_records` answers as before.
-/
import Prov.Props.C05X

namespace Prov.C18
open Prov Prov.Heap

/-- the record constructor that raises allocates nothing: record array and containers as before -/
theorem mkRecord_error (h : Heap) (c : Nat) (k : RecKind) (id : Option QName) (attrs : List AttrArg) (h' : Heap) (e : Err)
    (hc : h.mkRecord c k id attrs = (h', .error e)) : h'.recs = h.recs ∧ h'.conts = h.conts := by
  unfold mkRecord at hc
  split at hc
  · simp only [Prod.mk.injEq] at hc
    rw [← hc.1]; exact ⟨rfl, rfl⟩
  · simp only at hc
    split at hc
    · simp only [Prod.mk.injEq] at hc
      rw [← hc.1]; exact ⟨rfl, rfl⟩
    · simp at hc

/-- **C18, no ghost record**: a `new_record` (any typed factory, any convenience method) that raises — an unknown attribute
    name, an unresolvable argument, a second value for a formal attribute, an element without identifier — leaves the record
    array, every record list, every identifier index and every bundle table exactly as they were -/
theorem c18_refused_newRecord (h : Heap) (c : Nat) (k : RecKind) (idArg : NameArg) (attrs : List AttrArg) (h' : Heap) (e : Err)
    (hc : h.newRecord c k idArg attrs = (h', .error e)) : h'.recs = h.recs ∧ h'.conts = h.conts := by
  unfold newRecord at hc
  simp only at hc
  split at hc
  · simp at hc
  · rename_i h2 e2 hmk
    simp only [Prod.mk.injEq, Except.error.injEq] at hc
    obtain ⟨hh, _⟩ := hc
    subst hh
    have := mkRecord_error _ c k _ attrs h2 e2 hmk
    exact ⟨this.1, this.2⟩

/-- … hence `get_record` and `get_records` answer as before in every container -/
theorem c18_refused_newRecord_lookups (h : Heap) (c : Nat) (k : RecKind) (idArg : NameArg) (attrs : List AttrArg) (h' : Heap)
    (e : Err) (hc : h.newRecord c k idArg attrs = (h', .error e)) (c' : Nat) (f : ClsFilter) :
    (h'.cont c').records = (h.cont c').records ∧ (h'.cont c').idMap = (h.cont c').idMap ∧
      h'.getRecords c' f = h.getRecords c' f := by
  obtain ⟨h1, h2⟩ := c18_refused_newRecord h c k idArg attrs h' e hc
  have hcont : h'.cont c' = h.cont c' := by unfold cont; rw [h2]
  refine ⟨by rw [hcont], by rw [hcont], ?_⟩
  unfold getRecords recCell
  rw [hcont, h1]

/-- `add_record(record)` that raises leaves nothing behind either -/
theorem c18_refused_addRecord (h : Heap) (c r : Nat) (h' : Heap) (e : Err)
    (hc : h.addRecord c r = (h', .error e)) : h'.recs = h.recs ∧ h'.conts = h.conts := by
  unfold addRecord at hc
  exact c18_refused_newRecord h c _ _ _ h' e hc

/-- non-vacuity: an activity whose attribute name lives in a prefix nobody declared is refused -/
example : ((C05.opsRefused.foldl C05.hstep Heap.empty).newRecord 0 .activity (.str "ex:a")
    [⟨.str "nowhere:attr", .val (.int 1), none⟩]).2 = .error errInvalidQName := rfl

end Prov.C18


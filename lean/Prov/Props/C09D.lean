/-
  C09 on the heap: `add_record` of a stored record into any container never fails, appends exactly one fresh record to
  that container and to no other, and the new record is `==` to the source (same kind, identifier URI and attribute
  set); a whole `add_record` sequence (update, flattened, constructors, add_bundle of a document) therefore succeeds
  and appends, in order, one `==`-equal copy per source record. No record cell that existed is written.
-/
import Prov.Props.C09
import Prov.Props.C08D

namespace Prov.C09
open Prov Prov.Heap Prov.C05 Prov.C04 Prov.C08

/-- a stored record with the identifier its class requires -/
structure StoredRec (rc : Record) : Prop where
  stored : Stored rc
  elemId : rc.kind.isElement = true → rc.id.isSome = true

theorem validName_id (m : NsMgr) (hm : m.Inv1) (par : Option NsMgr) (rc : Record) :
    optSame rc.id (m.validName par (recreateArgs rc).1).2 = true ∧
      (rc.id.isSome = true → (m.validName par (recreateArgs rc).1).2.isSome = true) := by
  unfold recreateArgs
  cases hid : rc.id with
  | none => simp [NsMgr.validName, optSame]
  | some q =>
    simp only [NsMgr.validName, optSame, QName.same, beq_iff_eq]
    exact ⟨(NsMgr.validQ_uri hm q).symm, fun _ => rfl⟩

/-- **`add_record` on the heap** -/
theorem c09_addRecord_heap (h : Heap) (c r : Nat) (hc : c < h.conts.size) (hn : AllInv1 h)
    (hs : StoredRec (h.recCell r).r) :
    ∃ h' nr, h.addRecord c r = (h', .ok nr) ∧ nr = h.recs.size ∧ h'.recs.size = h.recs.size + 1 ∧
      (h'.cont c).records = (h.cont c).records ++ [nr] ∧
      recEq (h.recCell r).r (h'.recCell nr).r = true ∧
      (∀ r', r' < h.recs.size → h'.recCell r' = h.recCell r') ∧
      (∀ c', c' ≠ c → h'.cont c' = h.cont c') ∧ h'.conts.size = h.conts.size ∧ AllInv1 h' := by
  unfold addRecord
  simp only []
  generalize hrc : (h.recCell r).r = rc at hs
  unfold newRecord
  simp only [validName]
  have hmc : (h.mgrOf c).Inv1 := hn _
  obtain ⟨hidsame, hidsome⟩ := validName_id (h.mgrOf c) hmc (h.parentOf c) rc
  generalize hvn : (h.mgrOf c).validName (h.parentOf c) (recreateArgs rc).1 = vn at hidsame hidsome
  obtain ⟨m1, id'⟩ := vn
  have hm1 : m1.Inv1 := by
    have := NsMgr.validName_inv1 hmc (h.parentOf c) (recreateArgs rc).1
    rw [hvn] at this; exact this
  simp only at hidsame hidsome
  have hn1 : AllInv1 (h.setMgr c m1) := allInv1_setMgr hn c m1 hm1
  -- the constructor
  have hguard : (rc.kind.isElement && id'.isNone) = false := by
    cases hk : rc.kind.isElement with
    | false => simp
    | true =>
      have := hidsome (hs.elemId hk)
      cases id' with
      | none => simp at this
      | some q => simp
  obtain ⟨m', rc', hra, hrec⟩ := c09_recreate_eq ((h.setMgr c m1).parentOf c) ((h.setMgr c m1).mgrOf c) (hn1 _) rc hs.stored id' hidsame
  have hinv' : m'.Inv1 := by
    obtain ⟨m2, rc2, h1, h2, _⟩ := c09_recreate_content ((h.setMgr c m1).parentOf c) ((h.setMgr c m1).mgrOf c) (hn1 _) rc hs.stored id'
    rw [hra] at h1
    cases h1
    exact h2
  have hmk : (h.setMgr c m1).mkRecord c rc.kind id' (recreateArgs rc).2 =
      ({ ((h.setMgr c m1).setMgr c m') with recs := ((h.setMgr c m1).setMgr c m').recs.push ⟨c, rc'⟩ },
        .ok ((h.setMgr c m1).setMgr c m').recs.size) := by
    unfold mkRecord
    simp only [hguard, Bool.false_eq_true, if_false, hra]
  rw [hmk]
  simp only []
  have hsz : ((h.setMgr c m1).setMgr c m').recs.size = h.recs.size := by simp [recs_setMgr]
  have hconts : ((h.setMgr c m1).setMgr c m').conts = h.conts := by simp [conts_setMgr]
  refine ⟨_, _, rfl, hsz, ?_, ?_, ?_, ?_, ?_, ?_, ?_⟩
  · simp [addRecordRaw, setCont, setMgr]
  · -- the container's record list
    simp only [addRecordRaw]
    rw [cont_setCont_self _ _ _ (by simpa [hconts] using hc)]
    simp [cont, hconts, hsz]
  · -- the new cell is `==` to the source
    simp only [recCell, recs_addRecordRaw]
    have : (({ ((h.setMgr c m1).setMgr c m') with recs := ((h.setMgr c m1).setMgr c m').recs.push ⟨c, rc'⟩ } : Heap).recs.getD
        ((h.setMgr c m1).setMgr c m').recs.size default) = ⟨c, rc'⟩ := by
      simp [Array.getD_eq_getD_getElem?]
    rw [this]
    exact hrec
  · intro r' hr'
    simp only [recCell, recs_addRecordRaw]
    simp [Array.getD_eq_getD_getElem?, Array.getElem?_push, recs_setMgr, Nat.ne_of_lt hr']
  · intro c' hc'
    rw [cont_addRecordRaw_ne _ _ _ _ hc']
    simp [cont, hconts]
  · simp [addRecordRaw, setCont, hconts]
  · intro i
    show ((({ ((h.setMgr c m1).setMgr c m') with recs := _ } : Heap).addRecordRaw c _).mgrCell i).m.Inv1
    have : (({ ((h.setMgr c m1).setMgr c m') with recs := ((h.setMgr c m1).setMgr c m').recs.push ⟨c, rc'⟩ } : Heap).addRecordRaw c
        ((h.setMgr c m1).setMgr c m').recs.size).mgrCell i = ((h.setMgr c m1).setMgr c m').mgrCell i := rfl
    rw [this]
    exact allInv1_setMgr hn1 c m' hinv' i

/-- **a whole `add_record` sequence on the heap** (`update`, `flattened`, the constructors' `records=` argument, `add_bundle`
    of a document): with every source a stored record, the sequence succeeds, the target's list grows by one fresh record
    per source, in order (`rs.zip news` pairs each source with its copy), each `==` to its source; no other container and no
    existing record cell is written -/
theorem c09_addRecords_heap (c : Nat) : ∀ (rs : List Nat) (h : Heap), c < h.conts.size → AllInv1 h →
    (∀ r ∈ rs, r < h.recs.size ∧ StoredRec (h.recCell r).r) →
    ∃ h' news, h.addRecords c rs = (h', none) ∧ (h'.cont c).records = (h.cont c).records ++ news ∧
      news.length = rs.length ∧
      (∀ p ∈ rs.zip news, recEq (h.recCell p.1).r (h'.recCell p.2).r = true ∧ h.recs.size ≤ p.2 ∧ p.2 < h'.recs.size) ∧
      (∀ r', r' < h.recs.size → h'.recCell r' = h.recCell r') ∧
      (∀ c', c' ≠ c → h'.cont c' = h.cont c') ∧ h'.conts.size = h.conts.size ∧ AllInv1 h' ∧ h.recs.size ≤ h'.recs.size
  | [], h, _, hn, _ =>
    ⟨h, [], rfl, by simp, rfl, fun _ hp => absurd hp (by simp), fun _ _ => rfl, fun _ _ => rfl, rfl, hn, Nat.le_refl _⟩
  | r :: rest, h, hc, hn, hsrc => by
    obtain ⟨hrlt, hrs⟩ := hsrc r List.mem_cons_self
    obtain ⟨h1, nr, e1, e2, e3, e4, e5, e6, e7, e8, e9⟩ := c09_addRecord_heap h c r hc hn hrs
    obtain ⟨h', news, f1, f2, flen, f3, f4, f5, f6, f7, f8⟩ := c09_addRecords_heap c rest h1 (by rw [e8]; exact hc) e9
      (fun r' hr' => by
        obtain ⟨a1, a2⟩ := hsrc r' (List.mem_cons_of_mem _ hr')
        exact ⟨by rw [e3]; exact Nat.lt_succ_of_lt a1, by rw [e6 r' a1]; exact a2⟩)
    have hle : h.recs.size ≤ h1.recs.size := by rw [e3]; exact Nat.le_succ _
    refine ⟨h', nr :: news, ?_, ?_, by simp [flen], ?_, ?_, ?_, ?_, f7, Nat.le_trans hle f8⟩
    · unfold addRecords
      rw [e1]
      exact f1
    · rw [f2, e4]; simp
    · intro p hp
      simp only [List.zip_cons_cons, List.mem_cons] at hp
      rcases hp with rfl | hp
      · have hnrlt : nr < h1.recs.size := by rw [e3, e2]; exact Nat.lt_succ_self _
        refine ⟨?_, by rw [e2]; exact Nat.le_refl _, Nat.lt_of_lt_of_le hnrlt f8⟩
        rw [f4 nr hnrlt]; exact e5
      · obtain ⟨g1, g2, g3⟩ := f3 p hp
        have hsrcp : p.1 ∈ rest := (List.of_mem_zip hp).1
        have hplt := (hsrc p.1 (List.mem_cons_of_mem _ hsrcp)).1
        rw [e6 p.1 hplt] at g1
        exact ⟨g1, Nat.le_trans hle g2, g3⟩
    · intro r' hr'
      rw [f4 r' (Nat.lt_of_lt_of_le hr' hle), e6 r' hr']
    · intro c' hc'
      rw [f5 c' hc', e7 c' hc']
    · rw [f6, e8]

theorem allInv1_allocCont (h : Heap) (hn : AllInv1 h) (isDoc : Bool) (id : Option QName) (doc : Option Nat) :
    AllInv1 (h.allocCont isDoc id [] doc).1 := by
  intro i
  by_cases hi : i < h.mgrs.size
  · rw [(allocCont_fresh h isDoc id [] doc).2.2.2.1 i hi]; exact hn i
  · by_cases he : i = h.mgrs.size
    · subst he
      have : ((h.allocCont isDoc id [] doc).1.mgrCell h.mgrs.size).m = NsMgr.init := by
        simp [allocCont, allocMgr, mgrCell, Array.getD_eq_getD_getElem?, NsMgr.addNss]
      rw [this]; exact NsMgr.init_inv1
    · have : (h.allocCont isDoc id [] doc).1.mgrCell i = default := by
        simp only [allocCont, allocMgr, mgrCell, Array.getD_eq_getD_getElem?]
        rw [Array.getElem?_eq_none (by simp; omega)]
        rfl
      rw [this]; exact default_mgr_inv1

/-- **`flattened()` on the heap**: a document with bundles whose records (its own and its bundles') are stored records is
    flattened successfully into a fresh document that holds, in order, one `==`-equal copy of each of them; nothing that
    existed is written -/
theorem c09_flattened_heap (h : Heap) (d : Nat) (hn : AllInv1 h) (hb : (h.cont d).bundles.isEmpty = false)
    (hsrc : ∀ r ∈ (h.cont d).records ++ (h.cont d).bundles.flatMap (fun p => (h.cont p.2).records),
      r < h.recs.size ∧ StoredRec (h.recCell r).r) :
    ∃ h' nd news, h.flattened d = (h', .ok nd) ∧ nd = h.conts.size ∧ (h'.cont nd).records = news ∧
      news.length = ((h.cont d).records ++ (h.cont d).bundles.flatMap (fun p => (h.cont p.2).records)).length ∧
      (∀ p ∈ ((h.cont d).records ++ (h.cont d).bundles.flatMap (fun p => (h.cont p.2).records)).zip news,
        recEq (h.recCell p.1).r (h'.recCell p.2).r = true) ∧
      (∀ r', r' < h.recs.size → h'.recCell r' = h.recCell r') ∧ (∀ c', c' < h.conts.size → h'.cont c' = h.cont c') := by
  unfold flattened
  simp only [hb, Bool.false_eq_true, if_false, newDoc]
  obtain ⟨a1, _, a3, _, a5⟩ := allocCont_fresh h true none [] none
  have hn1 := allInv1_allocCont h hn true none none
  generalize hal : h.allocCont true none [] none = al at a1 a3 a5 hn1
  obtain ⟨h1, nd⟩ := al
  simp only at a1 a3 a5 hn1
  have hsz1 : h1.conts.size = h.conts.size + 1 := by
    have := congrArg (fun p => p.1.conts.size) hal
    simp only [allocCont, allocMgr, Array.size_push] at this
    exact this.symm
  have hrecs1 : ∀ r, h1.recCell r = h.recCell r := fun r => by simp [recCell, a5]
  have hempty : (h1.cont nd).records = [] := by
    have := congrArg (fun p => (p.1.cont p.2).records) hal
    simp only at this
    rw [← this]
    simp [allocCont, allocMgr, cont, Array.getD_eq_getD_getElem?]
  obtain ⟨h', news, f1, f2, flen, f3, f4, f5, _, _, _⟩ := c09_addRecords_heap nd _ h1 (by rw [hsz1, a1]; exact Nat.lt_succ_self _) hn1
    (fun r hr => by
      obtain ⟨b1, b2⟩ := hsrc r hr
      exact ⟨by rw [a5]; exact b1, by rw [hrecs1]; exact b2⟩)
  rw [f1]
  refine ⟨h', nd, news, rfl, a1, by rw [f2, hempty]; simp, flen, ?_, ?_, ?_⟩
  · intro p hp
    have := (f3 p hp).1
    rw [hrecs1] at this
    exact this
  · intro r' hr'
    rw [f4 r' (by rw [a5]; exact hr'), hrecs1]
  · intro c' hc'
    rw [f5 c' (by rw [a1]; exact Nat.ne_of_lt hc'), a3 c' hc']

end Prov.C09

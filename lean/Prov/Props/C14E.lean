/-
  C14 on every reachable state (`Reach`, `Props/C08I`): `graph_to_prov ∘ prov_to_graph` on the heap, with no hypothesis on
  records, managers or indices — also when the document is itself a result of `unified()`, `flattened()`, `update`, `add_bundle`.
-/
import Prov.Props.C08I
import Prov.Props.C14D

namespace Prov.C14
open Prov Prov.Heap Prov.C05 Prov.C08

/-- **there and back on any reachable state**: for a container `u` of a reachable state (in the use of `prov_to_graph`: the
    unified document) with distinct element records and no influence relation, the conclusion of `c14_roundtrip_heap` -/
theorem c14_roundtrip_reach {h1 : Heap} (hr : Reach h1) (u : Nat)
    (hel : (h1.getRecords u .element).Nodup) (hni : ∀ r ∈ h1.getRecords u .relation, notInfluence h1 r) :
    let st0 := (h1.getRecords u .element).foldl (elemStep h1) ⟨[], [], [], []⟩
    let st := (h1.getRecords u .relation).foldl (graphStep h1) st0
    ∃ h2 rels news, h1.graphToProv st = (h2, .ok h1.conts.size) ∧
      rels.Perm ((h1.getRecords u .relation).filter (bothPresent h1)) ∧
      (h2.cont h1.conts.size).records = news ∧
      news.length = (st0.nodes.filterMap (·.declared) ++ rels).length ∧
      (∀ p ∈ (st0.nodes.filterMap (·.declared) ++ rels).zip news, recEq (h1.recCell p.1).r (h2.recCell p.2).r = true) ∧
      (∀ r, r < h1.recs.size → h2.recCell r = h1.recCell r) :=
  c14_roundtrip_heap h1 u (reach_good2 hr).good.normal (reach_good2 hr).good.extra (reach_good2 hr).good.wf hel hni

/-- **`graph_to_prov(prov_to_graph(document))`, end to end, for any document of any reachable state**: `prov_to_graph` first
    takes `document.unified()`; when that succeeds with result `nd`, the state it leaves is reachable again, so the round trip
    theorem applies to the unified document itself — declared elements and a permutation of exactly the two-ended relations
    of the unified document come back as `==` copies in a new document, nothing that existed is written -/
theorem c14_roundtrip_of_unified_reach {h : Heap} (hr : Reach h) (d : Nat) (h1 : Heap) (nd : Nat)
    (hres : h.unifiedDoc d = (h1, .ok nd))
    (hel : (h1.getRecords nd .element).Nodup) (hni : ∀ r ∈ h1.getRecords nd .relation, notInfluence h1 r) :
    let st0 := (h1.getRecords nd .element).foldl (elemStep h1) ⟨[], [], [], []⟩
    let st := (h1.getRecords nd .relation).foldl (graphStep h1) st0
    ∃ h2 rels news, h1.graphToProv st = (h2, .ok h1.conts.size) ∧
      rels.Perm ((h1.getRecords nd .relation).filter (bothPresent h1)) ∧
      (h2.cont h1.conts.size).records = news ∧
      news.length = (st0.nodes.filterMap (·.declared) ++ rels).length ∧
      (∀ p ∈ (st0.nodes.filterMap (·.declared) ++ rels).zip news, recEq (h1.recCell p.1).r (h2.recCell p.2).r = true) ∧
      (∀ r, r < h1.recs.size → h2.recCell r = h1.recCell r) := by
  have hr1 : Reach h1 := by
    have := Reach.derive (.unifiedDoc d) hr
    simp only [dstep, hres] at this
    exact this
  exact c14_roundtrip_reach hr1 nd hel hni

end Prov.C14

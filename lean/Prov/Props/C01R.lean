/-
  C01 at record level: the JSON object the writer emits for a stored record is decoded into `add_attributes`
  arguments that rebuild a record with the same content — for every stored record whose names are readable in the
  reading scope (the C03 hypothesis) and whose attribute names print differently.
-/
import Prov.Props.C01
import Prov.Props.C09C

namespace Prov.C01
open Prov Prov.C05 Prov.C04 Prov.C09

/-- the names a value mentions are readable in container `c`; date-times are valid; typed literals are of foreign datatypes -/
def ValReadable (h : Heap) (c : Nat) : Value → Prop
  | .qn q => ReadsAs h c q.print q.uri
  | .lit _ (some t) none => ReadsAs h c t.print t.uri ∧ t.uri ≠ xsdUri ++ "anyURI" ∧ t.uri ≠ provUri ++ "QUALIFIED_NAME" ∧
      xsdParserOf t = none
  | .lit _ none none => False
  | .lit _ ty (some l) => l ≠ "" ∧ ty.map QName.uri = some (provUri ++ "InternationalizedString")
  | .dt t => ValidDT t
  | _ => True

theorem uriEq_vEq {a b : Value} (h : uriEq a b) : vEq a b := by
  cases a <;> cases b <;> simp_all [uriEq, vEq]

/-- **any stored value**: the JSON value the writer emits is decoded into an argument that, in every manager state,
    converts back to the value (up to prefixes) -/
theorem c01_value_any (h : Heap) (c : Nat) (std : StdNames h c) (v : Value) (hr : ValReadable h c v) :
    ∃ dv, h.decodeJsonValue c (encodeJsonValue v) = .ok dv ∧
      ∀ m : NsMgr, m.Inv1 → ∃ v', (autoLiteral m dv.value dv.flt).2 = .ok v' ∧ vEq v' v := by
  cases v with
  | str s =>
    obtain ⟨dv, h1, _⟩ := c01_str h c NsMgr.init s
    exact ⟨dv, h1, fun m _ => by
      obtain ⟨dv', h1', h2'⟩ := c01_str h c m s
      rw [h1] at h1'; cases h1'
      exact ⟨_, h2', vEq_refl _⟩⟩
  | int n =>
    obtain ⟨dv, h1, _⟩ := c01_int h c NsMgr.init std n
    exact ⟨dv, h1, fun m _ => by
      obtain ⟨dv', h1', h2'⟩ := c01_int h c m std n
      rw [h1] at h1'; cases h1'
      exact ⟨_, h2', vEq_refl _⟩⟩
  | bool b =>
    obtain ⟨dv, h1, _⟩ := c01_bool h c NsMgr.init b
    exact ⟨dv, h1, fun m _ => by
      obtain ⟨dv', h1', h2'⟩ := c01_bool h c m b
      rw [h1] at h1'; cases h1'
      exact ⟨_, h2', vEq_refl _⟩⟩
  | float f =>
    obtain ⟨dv, h1, _⟩ := c01_float h c NsMgr.init std f
    exact ⟨dv, h1, fun m _ => by
      obtain ⟨dv', h1', h2'⟩ := c01_float h c m std f
      rw [h1] at h1'; cases h1'
      exact ⟨_, h2', vEq_refl _⟩⟩
  | dt t =>
    obtain ⟨dv, h1, _⟩ := c01_datetime_valid h c NsMgr.init std t hr
    exact ⟨dv, h1, fun m _ => by
      obtain ⟨dv', h1', h2'⟩ := c01_datetime_valid h c m std t hr
      rw [h1] at h1'; cases h1'
      exact ⟨_, h2', vEq_refl _⟩⟩
  | uri u =>
    obtain ⟨dv, h1, _⟩ := c01_uri h c NsMgr.init std u
    exact ⟨dv, h1, fun m _ => by
      obtain ⟨dv', h1', h2'⟩ := c01_uri h c m std u
      rw [h1] at h1'; cases h1'
      exact ⟨_, h2', vEq_refl _⟩⟩
  | qn q =>
    obtain ⟨dv, v0, h1, _, _⟩ := c01_qname h c NsMgr.init NsMgr.init_inv1 std q hr
    exact ⟨dv, h1, fun m hm => by
      obtain ⟨dv', v', h1', h2', h3'⟩ := c01_qname h c m hm std q hr
      rw [h1] at h1'; cases h1'
      exact ⟨v', h2', uriEq_vEq h3'⟩⟩
  | lit s ty lang =>
    cases lang with
    | some l =>
      have hr' : l ≠ "" ∧ ty.map QName.uri = some (provUri ++ "InternationalizedString") := by
        cases ty <;> simpa [ValReadable] using hr
      obtain ⟨hl, hty⟩ := hr'
      -- the writer emits only text and language; the constructor restores prov:InternationalizedString
      have henc : encodeJsonValue (.lit s ty (some l)) = encodeJsonValue (.lit s (some (provQ "InternationalizedString")) (some l)) := by
        have hl' : (l == "") = false := by simpa using hl
        simp [encodeJsonValue, hl']
      obtain ⟨dv, v0, h1, _, _⟩ := c01_lang_literal h c NsMgr.init NsMgr.init_inv1 s l hl
      refine ⟨dv, by rw [henc]; exact h1, fun m hm => ?_⟩
      obtain ⟨dv', v', h1', h2', h3'⟩ := c01_lang_literal h c m hm s l hl
      rw [h1] at h1'; cases h1'
      refine ⟨v', h2', ?_⟩
      have := uriEq_vEq h3'
      cases v' with
      | lit s' ty' l' =>
        simp only [vEq] at this ⊢
        obtain ⟨e1, e2, e3⟩ := this
        exact ⟨e1, e2, by rw [e3, hty]; rfl⟩
      | _ => simp [vEq] at this
    | none =>
      cases ty with
      | none => exact absurd hr (by simp [ValReadable])
      | some t =>
        have hr' : ReadsAs h c t.print t.uri ∧ t.uri ≠ xsdUri ++ "anyURI" ∧ t.uri ≠ provUri ++ "QUALIFIED_NAME" ∧
            xsdParserOf t = none := by simpa [ValReadable] using hr
        obtain ⟨hres, hn1, hn2, hfor⟩ := hr'
        obtain ⟨dv, v0, h1, _, _⟩ := c01_typed_literal h c NsMgr.init NsMgr.init_inv1 s t hres hn1 hn2 hfor
        exact ⟨dv, h1, fun m hm => by
          obtain ⟨dv', v', h1', h2', h3'⟩ := c01_typed_literal h c m hm s t hres hn1 hn2 hfor
          rw [h1] at h1'; cases h1'
          exact ⟨v', h2', uriEq_vEq h3'⟩⟩

end Prov.C01

/-
  C01 at record level: the JSON object the writer emits for a stored record is decoded into `add_attributes`
  arguments that rebuild a record with the same content — for every stored record whose names are readable in the
  reading scope (the C03 hypothesis) and whose attribute names print differently.
-/
import Prov.Props.C01
import Prov.Props.C09C

namespace Prov.C01
open Prov Prov.C05 Prov.C04 Prov.C09

/-- the names a value mentions are readable in container `c`; date-times are valid; typed literals are of foreign datatypes -/
def ValReadable (h : Heap) (c : Nat) : Value → Prop
  | .qn q => ReadsAs h c q.print q.uri
  | .lit _ (some t) none => ReadsAs h c t.print t.uri ∧ t.uri ≠ xsdUri ++ "anyURI" ∧ t.uri ≠ provUri ++ "QUALIFIED_NAME" ∧
      xsdParserOf t = none
  | .lit _ none none => False
  | .lit _ ty (some l) => l ≠ "" ∧ ty.map QName.uri = some (provUri ++ "InternationalizedString")
  | .dt t => ValidDT t
  | _ => True

theorem uriEq_vEq {a b : Value} (h : uriEq a b) : vEq a b := by
  cases a <;> cases b <;> simp_all [uriEq, vEq]

/-- **any stored value**: the JSON value the writer emits is decoded into an argument that, in every manager state,
    converts back to the value (up to prefixes) -/
theorem c01_value_any (h : Heap) (c : Nat) (std : StdNames h c) (v : Value) (hr : ValReadable h c v) :
    ∃ dv, h.decodeJsonValue c (encodeJsonValue v) = .ok dv ∧
      ∀ m : NsMgr, m.Inv1 → ∃ v', (autoLiteral m dv.value dv.flt).2 = .ok v' ∧ vEq v' v := by
  cases v with
  | str s =>
    obtain ⟨dv, h1, _⟩ := c01_str h c NsMgr.init s
    exact ⟨dv, h1, fun m _ => by
      obtain ⟨dv', h1', h2'⟩ := c01_str h c m s
      rw [h1] at h1'; cases h1'
      exact ⟨_, h2', vEq_refl _⟩⟩
  | int n =>
    obtain ⟨dv, h1, _⟩ := c01_int h c NsMgr.init std n
    exact ⟨dv, h1, fun m _ => by
      obtain ⟨dv', h1', h2'⟩ := c01_int h c m std n
      rw [h1] at h1'; cases h1'
      exact ⟨_, h2', vEq_refl _⟩⟩
  | bool b =>
    obtain ⟨dv, h1, _⟩ := c01_bool h c NsMgr.init b
    exact ⟨dv, h1, fun m _ => by
      obtain ⟨dv', h1', h2'⟩ := c01_bool h c m b
      rw [h1] at h1'; cases h1'
      exact ⟨_, h2', vEq_refl _⟩⟩
  | float f =>
    obtain ⟨dv, h1, _⟩ := c01_float h c NsMgr.init std f
    exact ⟨dv, h1, fun m _ => by
      obtain ⟨dv', h1', h2'⟩ := c01_float h c m std f
      rw [h1] at h1'; cases h1'
      exact ⟨_, h2', vEq_refl _⟩⟩
  | dt t =>
    obtain ⟨dv, h1, _⟩ := c01_datetime_valid h c NsMgr.init std t hr
    exact ⟨dv, h1, fun m _ => by
      obtain ⟨dv', h1', h2'⟩ := c01_datetime_valid h c m std t hr
      rw [h1] at h1'; cases h1'
      exact ⟨_, h2', vEq_refl _⟩⟩
  | uri u =>
    obtain ⟨dv, h1, _⟩ := c01_uri h c NsMgr.init std u
    exact ⟨dv, h1, fun m _ => by
      obtain ⟨dv', h1', h2'⟩ := c01_uri h c m std u
      rw [h1] at h1'; cases h1'
      exact ⟨_, h2', vEq_refl _⟩⟩
  | qn q =>
    obtain ⟨dv, v0, h1, _, _⟩ := c01_qname h c NsMgr.init NsMgr.init_inv1 std q hr
    exact ⟨dv, h1, fun m hm => by
      obtain ⟨dv', v', h1', h2', h3'⟩ := c01_qname h c m hm std q hr
      rw [h1] at h1'; cases h1'
      exact ⟨v', h2', uriEq_vEq h3'⟩⟩
  | lit s ty lang =>
    cases lang with
    | some l =>
      have hr' : l ≠ "" ∧ ty.map QName.uri = some (provUri ++ "InternationalizedString") := by
        cases ty <;> simpa [ValReadable] using hr
      obtain ⟨hl, hty⟩ := hr'
      -- the writer emits only text and language; the constructor restores prov:InternationalizedString
      have henc : encodeJsonValue (.lit s ty (some l)) = encodeJsonValue (.lit s (some (provQ "InternationalizedString")) (some l)) := by
        have hl' : (l == "") = false := by simpa using hl
        simp [encodeJsonValue, hl']
      obtain ⟨dv, v0, h1, _, _⟩ := c01_lang_literal h c NsMgr.init NsMgr.init_inv1 s l hl
      refine ⟨dv, by rw [henc]; exact h1, fun m hm => ?_⟩
      obtain ⟨dv', v', h1', h2', h3'⟩ := c01_lang_literal h c m hm s l hl
      rw [h1] at h1'; cases h1'
      refine ⟨v', h2', ?_⟩
      have := uriEq_vEq h3'
      cases v' with
      | lit s' ty' l' =>
        simp only [vEq] at this ⊢
        obtain ⟨e1, e2, e3⟩ := this
        exact ⟨e1, e2, by rw [e3, hty]; rfl⟩
      | _ => simp [vEq] at this
    | none =>
      cases ty with
      | none => exact absurd hr (by simp [ValReadable])
      | some t =>
        have hr' : ReadsAs h c t.print t.uri ∧ t.uri ≠ xsdUri ++ "anyURI" ∧ t.uri ≠ provUri ++ "QUALIFIED_NAME" ∧
            xsdParserOf t = none := by simpa [ValReadable] using hr
        obtain ⟨hres, hn1, hn2, hfor⟩ := hr'
        obtain ⟨dv, v0, h1, _, _⟩ := c01_typed_literal h c NsMgr.init NsMgr.init_inv1 s t hres hn1 hn2 hfor
        exact ⟨dv, h1, fun m hm => by
          obtain ⟨dv', v', h1', h2', h3'⟩ := c01_typed_literal h c m hm s t hres hn1 hn2 hfor
          rw [h1] at h1'; cases h1'
          exact ⟨v', h2', uriEq_vEq h3'⟩⟩

/-! ### decoded arguments stand for the stored pairs -/

theorem vEq_trans {a b c : Value} (h1 : vEq a b) (h2 : vEq b c) : vEq a c := by
  cases a <;> cases b <;> simp_all [vEq] <;> cases c <;> simp_all [vEq]

/-- an argument of a non-PROV attribute whose value converts (in every manager) to something equal to `v` up to prefixes -/
theorem argFor_other (a a' : QName) (hu : a'.uri = a.uri) (hnp : isProvAttr a = false) (v : Value) (val : ArgVal)
    (flt : Option FloatAtom)
    (hconv : ∀ m : NsMgr, m.Inv1 → ∃ v', (autoLiteral m val flt).2 = .ok v' ∧ vEq v' v) :
    ArgFor ⟨.qn a', val, flt⟩ a v := by
  intro par isColl m r hm
  have hu1 := NsMgr.validQ_uri hm a'
  have hm1 := NsMgr.validQ_inv1 hm a'
  obtain ⟨v', hv', heq⟩ := hconv (m.validQ a').1 hm1
  have hnp' : isProvAttr (m.validQ a').2 = false := by rw [isProvAttr_congr (hu1.trans hu)]; exact hnp
  have href : isRefAttr (m.validQ a').2 = false := by
    simp only [isProvAttr, Bool.or_eq_false_iff] at hnp'; exact hnp'.1
  have htime : isTimeAttr (m.validQ a').2 = false := by
    simp only [isProvAttr, Bool.or_eq_false_iff] at hnp'; exact hnp'.2
  refine ⟨(autoLiteral (m.validQ a').1 val flt).1, (m.validQ a').2, v', autoLiteral_inv1 _ hm1 _ _, hu1.trans hu, heq, ?_⟩
  cases hval : val with
  | nil => rw [hval] at hv'; simp [autoLiteral] at hv'
  | val x => subst hval; simp [addOne, NsMgr.validName, convValue, href, htime, hv']
  | recId x => subst hval; simp [addOne, NsMgr.validName, convValue, href, htime, hv']

/-- an argument of a PROV attribute: the decoded name/time under a name with the attribute's URI -/
theorem argFor_formal (a a' : QName) (hu : a'.uri = a.uri) (v v0 : Value) (hok : PairOk a v0) (heq : vEq v0 v) :
    ArgFor ⟨.qn a', .val v0, none⟩ a v := by
  intro par isColl m r hm
  obtain ⟨m', a'', v', hm', hu', hv', hstep⟩ :=
    Prov.C08.addOne_general par isColl m hm r a' v0 (pairOk_congr hu.symm hok)
  exact ⟨m', a'', v', hm', hu'.trans hu, vEq_trans hv' heq, hstep⟩

/-! ### the writer's loop over one record -/

/-- the loop body of `encodeJsonRecord` -/
def encStep (acc : Option (List (String × JVal))) (p : QName × List Value) : Option (List (String × JVal)) :=
  match acc with
  | none => none
  | some kvs =>
    match p.2 with
    | [] => some kvs
    | v :: more =>
      if isRefAttr p.1 then
        (formalText false v).map (fun s => jsonObjSet kvs p.1.print (.str s))
      else if isTimeAttr p.1 then
        (formalText true v).map (fun s => jsonObjSet kvs p.1.print (.str s))
      else if more.isEmpty then some (jsonObjSet kvs p.1.print (encodeJsonValue v))
      else some (jsonObjSet kvs p.1.print (.arr ((v :: more).map encodeJsonValue)))

theorem encodeJsonRecord_eq (r : Record) : encodeJsonRecord r = (r.attrs.foldl encStep (some [])).map JVal.obj := rfl

/-- the JSON value written for attribute `a` holding `v :: more` -/
def jvalOf (a : QName) (v : Value) (more : List Value) : JVal :=
  if isRefAttr a then .str ((formalText false v).getD "")
  else if isTimeAttr a then .str ((formalText true v).getD "")
  else if more.isEmpty then encodeJsonValue v
  else .arr ((v :: more).map encodeJsonValue)

def entryOf (p : QName × List Value) : List (String × JVal) :=
  match p.2 with
  | [] => []
  | v :: more => [(p.1.print, jvalOf p.1 v more)]

/-- PROV attributes hold what the writer can print (a name, resp. a time) -/
def FormalOk (p : QName × List Value) : Prop :=
  ∀ v more, p.2 = v :: more →
    (isRefAttr p.1 = true → (formalText false v).isSome) ∧
    (isRefAttr p.1 = false → isTimeAttr p.1 = true → (formalText true v).isSome)

theorem jsonObjSet_new (kvs : List (String × JVal)) (k : String) (v : JVal) (h : ∀ e ∈ kvs, e.1 ≠ k) :
    jsonObjSet kvs k v = kvs ++ [(k, v)] := by
  induction kvs with
  | nil => rfl
  | cons e rest ih =>
    obtain ⟨k', v'⟩ := e
    have hne : k' ≠ k := h (k', v') List.mem_cons_self
    simp only [jsonObjSet, beq_iff_eq, hne, if_false, List.cons_append]
    rw [ih (fun e he => h e (List.mem_cons_of_mem _ he))]

theorem encStep_entry (kvs : List (String × JVal)) (p : QName × List Value) (hf : FormalOk p)
    (hnew : ∀ e ∈ kvs, e.1 ≠ p.1.print) : encStep (some kvs) p = some (kvs ++ entryOf p) := by
  obtain ⟨a, vs⟩ := p
  cases vs with
  | nil => simp [encStep, entryOf]
  | cons v more =>
    obtain ⟨h1, h2⟩ := hf v more rfl
    simp only [encStep, entryOf, jvalOf]
    by_cases href : isRefAttr a = true
    · obtain ⟨s, hs⟩ := Option.isSome_iff_exists.mp (h1 href)
      simp [href, hs, jsonObjSet_new kvs a.print _ hnew]
    · have href' : isRefAttr a = false := by simpa using href
      by_cases ht : isTimeAttr a = true
      · obtain ⟨s, hs⟩ := Option.isSome_iff_exists.mp (h2 href' ht)
        simp [href', ht, hs, jsonObjSet_new kvs a.print _ hnew]
      · have ht' : isTimeAttr a = false := by simpa using ht
        by_cases hm : more.isEmpty = true
        · simp [href', ht', hm, jsonObjSet_new kvs a.print _ hnew]
        · simp [href', ht', hm, jsonObjSet_new kvs a.print _ hnew]

theorem entryOf_keys (p : QName × List Value) : ∀ e ∈ entryOf p, e.1 = p.1.print := by
  obtain ⟨a, vs⟩ := p
  cases vs <;> simp [entryOf]

/-- **the writer's object**: one member per non-empty attribute, in attribute order, when print forms are distinct -/
theorem enc_fold (attrs : List (QName × List Value)) (kvs : List (String × JVal))
    (hf : ∀ p ∈ attrs, FormalOk p)
    (hnew : ∀ e ∈ kvs, ∀ p ∈ attrs, e.1 ≠ p.1.print)
    (hd : attrs.Pairwise (fun p q => p.1.print ≠ q.1.print)) :
    attrs.foldl encStep (some kvs) = some (kvs ++ attrs.flatMap entryOf) := by
  induction attrs generalizing kvs with
  | nil => simp
  | cons p rest ih =>
    have hd' := List.pairwise_cons.mp hd
    rw [List.foldl_cons, encStep_entry kvs p (hf p List.mem_cons_self) (fun e he => hnew e he p List.mem_cons_self)]
    rw [ih (kvs ++ entryOf p) (fun q hq => hf q (List.mem_cons_of_mem _ hq)) ?_ hd'.2]
    · simp [List.flatMap_cons]
    · intro e he q hq
      rcases List.mem_append.mp he with h | h
      · exact hnew e h q (List.mem_cons_of_mem _ hq)
      · rw [entryOf_keys p e h]; exact hd'.1 q hq

end Prov.C01

/-
  C01 at record level: the JSON object the writer emits for a stored record is decoded into `add_attributes`
  arguments that rebuild a record with the same content — for every stored record whose names are readable in the
  reading scope (the C03 hypothesis) and whose attribute names print differently.
-/
import Prov.Props.C01
import Prov.Props.C09C

namespace Prov.C01
open Prov Prov.C05 Prov.C04 Prov.C09

/-- the names a value mentions are readable in container `c`; date-times are valid; typed literals are of foreign datatypes -/
def ValReadable (h : Heap) (c : Nat) : Value → Prop
  | .qn q => ReadsAs h c q.print q.uri
  | .lit _ (some t) none => ReadsAs h c t.print t.uri ∧ t.uri ≠ xsdUri ++ "anyURI" ∧ t.uri ≠ provUri ++ "QUALIFIED_NAME" ∧
      xsdParserOf t = none
  | .lit _ none none => False
  | .lit _ ty (some l) => l ≠ "" ∧ ty.map QName.uri = some (provUri ++ "InternationalizedString")
  | .dt t => ValidDT t
  | _ => True

theorem uriEq_vEq {a b : Value} (h : uriEq a b) : vEq a b := by
  cases a <;> cases b <;> simp_all [uriEq, vEq]

/-- **any stored value**: the JSON value the writer emits is decoded into an argument that, in every manager state,
    converts back to the value (up to prefixes) -/
theorem c01_value_any (h : Heap) (c : Nat) (std : StdNames h c) (v : Value) (hr : ValReadable h c v) :
    ∃ dv, h.decodeJsonValue c (encodeJsonValue v) = .ok dv ∧
      ∀ m : NsMgr, m.Inv1 → ∃ v', (autoLiteral m dv.value dv.flt).2 = .ok v' ∧ vEq v' v := by
  cases v with
  | str s =>
    obtain ⟨dv, h1, _⟩ := c01_str h c NsMgr.init s
    exact ⟨dv, h1, fun m _ => by
      obtain ⟨dv', h1', h2'⟩ := c01_str h c m s
      rw [h1] at h1'; cases h1'
      exact ⟨_, h2', vEq_refl _⟩⟩
  | int n =>
    obtain ⟨dv, h1, _⟩ := c01_int h c NsMgr.init std n
    exact ⟨dv, h1, fun m _ => by
      obtain ⟨dv', h1', h2'⟩ := c01_int h c m std n
      rw [h1] at h1'; cases h1'
      exact ⟨_, h2', vEq_refl _⟩⟩
  | bool b =>
    obtain ⟨dv, h1, _⟩ := c01_bool h c NsMgr.init b
    exact ⟨dv, h1, fun m _ => by
      obtain ⟨dv', h1', h2'⟩ := c01_bool h c m b
      rw [h1] at h1'; cases h1'
      exact ⟨_, h2', vEq_refl _⟩⟩
  | float f =>
    obtain ⟨dv, h1, _⟩ := c01_float h c NsMgr.init std f
    exact ⟨dv, h1, fun m _ => by
      obtain ⟨dv', h1', h2'⟩ := c01_float h c m std f
      rw [h1] at h1'; cases h1'
      exact ⟨_, h2', vEq_refl _⟩⟩
  | dt t =>
    obtain ⟨dv, h1, _⟩ := c01_datetime_valid h c NsMgr.init std t hr
    exact ⟨dv, h1, fun m _ => by
      obtain ⟨dv', h1', h2'⟩ := c01_datetime_valid h c m std t hr
      rw [h1] at h1'; cases h1'
      exact ⟨_, h2', vEq_refl _⟩⟩
  | uri u =>
    obtain ⟨dv, h1, _⟩ := c01_uri h c NsMgr.init std u
    exact ⟨dv, h1, fun m _ => by
      obtain ⟨dv', h1', h2'⟩ := c01_uri h c m std u
      rw [h1] at h1'; cases h1'
      exact ⟨_, h2', vEq_refl _⟩⟩
  | qn q =>
    obtain ⟨dv, v0, h1, _, _⟩ := c01_qname h c NsMgr.init NsMgr.init_inv1 std q hr
    exact ⟨dv, h1, fun m hm => by
      obtain ⟨dv', v', h1', h2', h3'⟩ := c01_qname h c m hm std q hr
      rw [h1] at h1'; cases h1'
      exact ⟨v', h2', uriEq_vEq h3'⟩⟩
  | lit s ty lang =>
    cases lang with
    | some l =>
      have hr' : l ≠ "" ∧ ty.map QName.uri = some (provUri ++ "InternationalizedString") := by
        cases ty <;> simpa [ValReadable] using hr
      obtain ⟨hl, hty⟩ := hr'
      -- the writer emits only text and language; the constructor restores prov:InternationalizedString
      have henc : encodeJsonValue (.lit s ty (some l)) = encodeJsonValue (.lit s (some (provQ "InternationalizedString")) (some l)) := by
        have hl' : (l == "") = false := by simpa using hl
        simp [encodeJsonValue, hl']
      obtain ⟨dv, v0, h1, _, _⟩ := c01_lang_literal h c NsMgr.init NsMgr.init_inv1 s l hl
      refine ⟨dv, by rw [henc]; exact h1, fun m hm => ?_⟩
      obtain ⟨dv', v', h1', h2', h3'⟩ := c01_lang_literal h c m hm s l hl
      rw [h1] at h1'; cases h1'
      refine ⟨v', h2', ?_⟩
      have := uriEq_vEq h3'
      cases v' with
      | lit s' ty' l' =>
        simp only [vEq] at this ⊢
        obtain ⟨e1, e2, e3⟩ := this
        exact ⟨e1, e2, by rw [e3, hty]; rfl⟩
      | _ => simp [vEq] at this
    | none =>
      cases ty with
      | none => exact absurd hr (by simp [ValReadable])
      | some t =>
        have hr' : ReadsAs h c t.print t.uri ∧ t.uri ≠ xsdUri ++ "anyURI" ∧ t.uri ≠ provUri ++ "QUALIFIED_NAME" ∧
            xsdParserOf t = none := by simpa [ValReadable] using hr
        obtain ⟨hres, hn1, hn2, hfor⟩ := hr'
        obtain ⟨dv, v0, h1, _, _⟩ := c01_typed_literal h c NsMgr.init NsMgr.init_inv1 s t hres hn1 hn2 hfor
        exact ⟨dv, h1, fun m hm => by
          obtain ⟨dv', v', h1', h2', h3'⟩ := c01_typed_literal h c m hm s t hres hn1 hn2 hfor
          rw [h1] at h1'; cases h1'
          exact ⟨v', h2', uriEq_vEq h3'⟩⟩

/-! ### decoded arguments stand for the stored pairs -/

theorem vEq_trans {a b c : Value} (h1 : vEq a b) (h2 : vEq b c) : vEq a c := by
  cases a <;> cases b <;> simp_all [vEq] <;> cases c <;> simp_all [vEq]

/-- an argument of a non-PROV attribute whose value converts (in every manager) to something equal to `v` up to prefixes -/
theorem argFor_other (a a' : QName) (hu : a'.uri = a.uri) (hnp : isProvAttr a = false) (v : Value) (val : ArgVal)
    (flt : Option FloatAtom)
    (hconv : ∀ m : NsMgr, m.Inv1 → ∃ v', (autoLiteral m val flt).2 = .ok v' ∧ vEq v' v) :
    ArgFor ⟨.qn a', val, flt⟩ a v := by
  intro par isColl m r hm
  have hu1 := NsMgr.validQ_uri hm a'
  have hm1 := NsMgr.validQ_inv1 hm a'
  obtain ⟨v', hv', heq⟩ := hconv (m.validQ a').1 hm1
  have hnp' : isProvAttr (m.validQ a').2 = false := by rw [isProvAttr_congr (hu1.trans hu)]; exact hnp
  have href : isRefAttr (m.validQ a').2 = false := by
    simp only [isProvAttr, Bool.or_eq_false_iff] at hnp'; exact hnp'.1
  have htime : isTimeAttr (m.validQ a').2 = false := by
    simp only [isProvAttr, Bool.or_eq_false_iff] at hnp'; exact hnp'.2
  refine ⟨(autoLiteral (m.validQ a').1 val flt).1, (m.validQ a').2, v', autoLiteral_inv1 _ hm1 _ _, hu1.trans hu, heq, ?_⟩
  cases hval : val with
  | nil => rw [hval] at hv'; simp [autoLiteral] at hv'
  | val x => subst hval; simp [addOne, NsMgr.validName, convValue, href, htime, hv']
  | recId x => subst hval; simp [addOne, NsMgr.validName, convValue, href, htime, hv']

/-- an argument of a PROV attribute: the decoded name/time under a name with the attribute's URI -/
theorem argFor_formal (a a' : QName) (hu : a'.uri = a.uri) (v v0 : Value) (hok : PairOk a v0) (heq : vEq v0 v) :
    ArgFor ⟨.qn a', .val v0, none⟩ a v := by
  intro par isColl m r hm
  obtain ⟨m', a'', v', hm', hu', hv', hstep⟩ :=
    Prov.C08.addOne_general par isColl m hm r a' v0 (pairOk_congr hu.symm hok)
  exact ⟨m', a'', v', hm', hu'.trans hu, vEq_trans hv' heq, hstep⟩

/-! ### the writer's loop over one record -/

/-- the loop body of `encodeJsonRecord` -/
def encStep (acc : Option (List (String × JVal))) (p : QName × List Value) : Option (List (String × JVal)) :=
  match acc with
  | none => none
  | some kvs =>
    match p.2 with
    | [] => some kvs
    | v :: more =>
      if isRefAttr p.1 then
        (formalText false v).map (fun s => jsonObjSet kvs p.1.print (.str s))
      else if isTimeAttr p.1 then
        (formalText true v).map (fun s => jsonObjSet kvs p.1.print (.str s))
      else if more.isEmpty then some (jsonObjSet kvs p.1.print (encodeJsonValue v))
      else some (jsonObjSet kvs p.1.print (.arr ((v :: more).map encodeJsonValue)))

theorem encodeJsonRecord_eq (r : Record) : encodeJsonRecord r = (r.attrs.foldl encStep (some [])).map JVal.obj := rfl

/-- the JSON value written for attribute `a` holding `v :: more` -/
def jvalOf (a : QName) (v : Value) (more : List Value) : JVal :=
  if isRefAttr a then .str ((formalText false v).getD "")
  else if isTimeAttr a then .str ((formalText true v).getD "")
  else if more.isEmpty then encodeJsonValue v
  else .arr ((v :: more).map encodeJsonValue)

def entryOf (p : QName × List Value) : List (String × JVal) :=
  match p.2 with
  | [] => []
  | v :: more => [(p.1.print, jvalOf p.1 v more)]

/-- PROV attributes hold what the writer can print (a name, resp. a time) -/
def FormalOk (p : QName × List Value) : Prop :=
  ∀ v more, p.2 = v :: more →
    (isRefAttr p.1 = true → (formalText false v).isSome) ∧
    (isRefAttr p.1 = false → isTimeAttr p.1 = true → (formalText true v).isSome)

theorem jsonObjSet_new (kvs : List (String × JVal)) (k : String) (v : JVal) (h : ∀ e ∈ kvs, e.1 ≠ k) :
    jsonObjSet kvs k v = kvs ++ [(k, v)] := by
  induction kvs with
  | nil => rfl
  | cons e rest ih =>
    obtain ⟨k', v'⟩ := e
    have hne : k' ≠ k := h (k', v') List.mem_cons_self
    simp only [jsonObjSet, beq_iff_eq, hne, if_false, List.cons_append]
    rw [ih (fun e he => h e (List.mem_cons_of_mem _ he))]

theorem encStep_entry (kvs : List (String × JVal)) (p : QName × List Value) (hf : FormalOk p)
    (hnew : ∀ e ∈ kvs, e.1 ≠ p.1.print) : encStep (some kvs) p = some (kvs ++ entryOf p) := by
  obtain ⟨a, vs⟩ := p
  cases vs with
  | nil => simp [encStep, entryOf]
  | cons v more =>
    obtain ⟨h1, h2⟩ := hf v more rfl
    simp only [encStep, entryOf, jvalOf]
    by_cases href : isRefAttr a = true
    · obtain ⟨s, hs⟩ := Option.isSome_iff_exists.mp (h1 href)
      simp [href, hs, jsonObjSet_new kvs a.print _ hnew]
    · have href' : isRefAttr a = false := by simpa using href
      by_cases ht : isTimeAttr a = true
      · obtain ⟨s, hs⟩ := Option.isSome_iff_exists.mp (h2 href' ht)
        simp [href', ht, hs, jsonObjSet_new kvs a.print _ hnew]
      · have ht' : isTimeAttr a = false := by simpa using ht
        by_cases hm : more.isEmpty = true
        · simp [href', ht', hm, jsonObjSet_new kvs a.print _ hnew]
        · simp [href', ht', hm, jsonObjSet_new kvs a.print _ hnew]

theorem entryOf_keys (p : QName × List Value) : ∀ e ∈ entryOf p, e.1 = p.1.print := by
  obtain ⟨a, vs⟩ := p
  cases vs <;> simp [entryOf]

/-- **the writer's object**: one member per non-empty attribute, in attribute order, when print forms are distinct -/
theorem enc_fold (attrs : List (QName × List Value)) (kvs : List (String × JVal))
    (hf : ∀ p ∈ attrs, FormalOk p)
    (hnew : ∀ e ∈ kvs, ∀ p ∈ attrs, e.1 ≠ p.1.print)
    (hd : attrs.Pairwise (fun p q => p.1.print ≠ q.1.print)) :
    attrs.foldl encStep (some kvs) = some (kvs ++ attrs.flatMap entryOf) := by
  induction attrs generalizing kvs with
  | nil => simp
  | cons p rest ih =>
    have hd' := List.pairwise_cons.mp hd
    rw [List.foldl_cons, encStep_entry kvs p (hf p List.mem_cons_self) (fun e he => hnew e he p List.mem_cons_self)]
    rw [ih (kvs ++ entryOf p) (fun q hq => hf q (List.mem_cons_of_mem _ hq)) ?_ hd'.2]
    · simp [List.flatMap_cons]
    · intro e he q hq
      rcases List.mem_append.mp he with h | h
      · exact hnew e h q (List.mem_cons_of_mem _ hq)
      · rw [entryOf_keys p e h]; exact hd'.1 q hq

/-! ### the reader's loop over the writer's object -/

/-- what the reader makes of the written value (total versions of the existential witnesses) -/
def dvOf (h : Heap) (c : Nat) (v : Value) : DecVal :=
  match h.decodeJsonValue c (encodeJsonValue v) with
  | .ok dv => dv
  | .error _ => { value := .nil }

def nameOf (h : Heap) (c : Nat) (a : QName) : QName := (h.jsonAttrName c a.print).getD a

def refOf (h : Heap) (c : Nat) (q : QName) : QName :=
  match h.jsonName c (some (.str q.print)) with
  | .ok (some q') => q'
  | _ => q

/-- `conv` over the written values of one non-PROV attribute -/
theorem conv_values (h : Heap) (c : Nat) (std : StdNames h c) (attr? : Option QName) (vs : List Value)
    (hr : ∀ v ∈ vs, ValReadable h c v) :
    Heap.decodeElemAttrs.conv h c attr? (vs.map encodeJsonValue) =
      .ok (vs.map (fun v => { name := (match attr? with | some a => .qn a | none => .nil),
                              value := (dvOf h c v).value, flt := (dvOf h c v).flt })) := by
  induction vs with
  | nil => simp [Heap.decodeElemAttrs.conv]
  | cons v rest ih =>
    obtain ⟨dv, hdv, _⟩ := c01_value_any h c std v (hr v List.mem_cons_self)
    have hd : dvOf h c v = dv := by simp [dvOf, hdv]
    simp only [List.map_cons, Heap.decodeElemAttrs.conv, hdv, ih (fun w hw => hr w (List.mem_cons_of_mem _ hw)), hd]
    rfl

theorem encodeJsonValue_not_arr (v : Value) : ∀ l, encodeJsonValue v ≠ .arr l := by
  intro l
  cases v with
  | lit s ty lang =>
    cases lang with
    | none => simp [encodeJsonValue]
    | some x => simp only [encodeJsonValue]; split <;> simp
  | _ => simp [encodeJsonValue]

/-- the `formal` dictionary entries the reader derives from one written attribute -/
def fEntry (h : Heap) (c : Nat) (p : QName × List Value) : List (QName × ArgVal) :=
  match p.2 with
  | [] => []
  | v :: _ =>
    if isRefAttr p.1 then (match v with | .qn q => [(nameOf h c p.1, .val (.qn (refOf h c q)))] | _ => [])
    else if isTimeAttr p.1 then (match v with | .dt t => [(nameOf h c p.1, .val (.dt t))] | _ => [])
    else []

/-- the `other_attributes` arguments the reader derives from one written attribute -/
def oArgs (h : Heap) (c : Nat) (p : QName × List Value) : List AttrArg :=
  if isProvAttr p.1 then []
  else p.2.map (fun v => { name := .qn (nameOf h c p.1), value := (dvOf h c v).value, flt := (dvOf h c v).flt })

/-- everything the writer prints for this attribute is readable in container `c` (C03 (c) for each name involved) -/
structure PairReadable (h : Heap) (c : Nat) (p : QName × List Value) : Prop where
  name : ∃ a', h.jsonAttrName c p.1.print = some a' ∧ a'.uri = p.1.uri
  ref : isRefAttr p.1 = true → ∀ v more, p.2 = v :: more → ∃ q, v = .qn q ∧ ReadsAs h c q.print q.uri
  time : isRefAttr p.1 = false → isTimeAttr p.1 = true → ∀ v more, p.2 = v :: more → ∃ t, v = .dt t ∧ ValidDT t
  other : isProvAttr p.1 = false → ∀ v ∈ p.2, ValReadable h c v

theorem dictSet_new (d : List (QName × ArgVal)) (k : QName) (v : ArgVal) (h : ∀ e ∈ d, e.1.same k = false) :
    Heap.dictSet d k v = d ++ [(k, v)] := by
  induction d with
  | nil => rfl
  | cons e rest ih =>
    obtain ⟨k', v'⟩ := e
    have hne : k'.same k = false := h (k', v') List.mem_cons_self
    simp only [Heap.dictSet, hne, Bool.false_eq_true, if_false, List.cons_append]
    rw [ih (fun e he => h e (List.mem_cons_of_mem _ he))]

theorem nameOf_spec {h : Heap} {c : Nat} {p : QName × List Value} (hr : PairReadable h c p) :
    h.jsonAttrName c p.1.print = some (nameOf h c p.1) ∧ (nameOf h c p.1).uri = p.1.uri := by
  obtain ⟨a', h1, h2⟩ := hr.name
  simp [nameOf, h1, h2]

/-- one member of the written object through the reader's loop body -/
theorem dec_step (h : Heap) (c : Nat) (std : StdNames h c) (kind : RecKind) (p : QName × List Value)
    (hr : PairReadable h c p) (rest : List (String × JVal)) (acc : Heap.ElemAcc)
    (hnew : ∀ e ∈ acc.formal, e.1.same (nameOf h c p.1) = false) :
    h.decodeElemAttrs c kind (entryOf p ++ rest) acc =
      h.decodeElemAttrs c kind rest
        { formal := acc.formal ++ fEntry h c p, other := acc.other ++ oArgs h c p, extraMembers := acc.extraMembers } := by
  obtain ⟨hname, huri⟩ := nameOf_spec hr
  obtain ⟨a, vs⟩ := p
  cases vs with
  | nil => simp [entryOf, fEntry, oArgs]
  | cons v more =>
    simp only [entryOf, List.cons_append, List.nil_append]
    by_cases href : isRefAttr a = true
    · obtain ⟨q, rfl, hq⟩ := hr.ref href v more rfl
      obtain ⟨q', hq', _⟩ := jsonName_of_readsAs hq
      have href' : isRefAttr (nameOf h c a) = true := by rw [isRefAttr_congr huri]; exact href
      have hprov' : isProvAttr (nameOf h c a) = true := by simp [isProvAttr, href']
      have hprov : isProvAttr a = true := by simp [isProvAttr, href]
      have hro : refOf h c q = q' := by simp [refOf, hq']
      have hj : jvalOf a (.qn q) more = .str q.print := by simp [jvalOf, href, formalText]
      rw [hj, Heap.decodeElemAttrs]
      · simp [hname, hprov', href', hq', fEntry, oArgs, hprov, hro, href,
          dictSet_new acc.formal (nameOf h c a) _ hnew]
      · intro l hl; cases hl
    · have href0 : isRefAttr a = false := by simpa using href
      have href' : isRefAttr (nameOf h c a) = false := by rw [isRefAttr_congr huri]; exact href0
      by_cases ht : isTimeAttr a = true
      · obtain ⟨t, rfl, hvt⟩ := hr.time href0 ht v more rfl
        have ht' : isTimeAttr (nameOf h c a) = true := by rw [isTimeAttr_congr huri]; exact ht
        have hprov' : isProvAttr (nameOf h c a) = true := by simp [isProvAttr, ht']
        have hprov : isProvAttr a = true := by simp [isProvAttr, ht]
        have hj : jvalOf a (.dt t) more = .str t.iso := by simp [jvalOf, href0, ht, formalText]
        rw [hj, Heap.decodeElemAttrs]
        · simp [hname, hprov', href', parseIso_iso t hvt, fEntry, oArgs, hprov, href0, ht,
            dictSet_new acc.formal (nameOf h c a) _ hnew]
        · intro l hl; cases hl
      · have ht0 : isTimeAttr a = false := by simpa using ht
        have hprov : isProvAttr a = false := by simp [isProvAttr, href0, ht0]
        have hprov' : isProvAttr (nameOf h c a) = false := by rw [isProvAttr_congr huri]; exact hprov
        have hvals := conv_values h c std (some (nameOf h c a)) (v :: more) (hr.other hprov)
        by_cases hm : more.isEmpty = true
        · have hmore : more = [] := by simpa using hm
          subst hmore
          have hj : jvalOf a v [] = encodeJsonValue v := by simp [jvalOf, href0, ht0]
          have hna := encodeJsonValue_not_arr v
          simp only [List.map_cons, List.map_nil] at hvals
          rw [hj]
          cases hev : encodeJsonValue v with
          | arr l => exact absurd hev (hna l)
          | _ =>
            rw [hev] at hvals
            rw [Heap.decodeElemAttrs]
            · simp [hname, hprov', hvals, fEntry, oArgs, hprov, href0, ht0]
            · intro l hl; cases hl
        · have hm0 : more.isEmpty = false := by simpa using hm
          have hj : jvalOf a v more = .arr ((v :: more).map encodeJsonValue) := by simp [jvalOf, href0, ht0, hm0]
          simp only [List.map_cons] at hvals
          rw [hj, Heap.decodeElemAttrs]
          simp [hname, hprov', hvals, fEntry, oArgs, hprov, href0, ht0]

theorem fEntry_keys (h : Heap) (c : Nat) (p : QName × List Value) : ∀ e ∈ fEntry h c p, e.1 = nameOf h c p.1 := by
  obtain ⟨a, vs⟩ := p
  cases vs with
  | nil => simp [fEntry]
  | cons v more =>
    intro e he
    simp only [fEntry] at he
    split at he
    · cases v <;> simp_all
    · split at he
      · cases v <;> simp_all
      · simp at he

/-- **the reader's loop on the writer's object**: every member is accepted; the `formal` dictionary and the
    `other_attributes` list are exactly the decoded images of the record's attributes, in order -/
theorem dec_fold (h : Heap) (c : Nat) (std : StdNames h c) (kind : RecKind) (attrs : List (QName × List Value))
    (hr : ∀ p ∈ attrs, PairReadable h c p) (acc : Heap.ElemAcc)
    (hnew : ∀ e ∈ acc.formal, ∀ p ∈ attrs, e.1.uri ≠ p.1.uri)
    (hd : attrs.Pairwise (fun p q => p.1.uri ≠ q.1.uri)) :
    h.decodeElemAttrs c kind (attrs.flatMap entryOf) acc =
      .ok { formal := acc.formal ++ attrs.flatMap (fEntry h c), other := acc.other ++ attrs.flatMap (oArgs h c),
            extraMembers := acc.extraMembers } := by
  induction attrs generalizing acc with
  | nil => simp [Heap.decodeElemAttrs]
  | cons p rest ih =>
    have hd' := List.pairwise_cons.mp hd
    have hp := hr p List.mem_cons_self
    obtain ⟨_, huri⟩ := nameOf_spec hp
    rw [List.flatMap_cons, dec_step h c std kind p hp _ acc ?_]
    · rw [ih (fun q hq => hr q (List.mem_cons_of_mem _ hq)) _ ?_ hd'.2]
      · simp [List.flatMap_cons, List.append_assoc]
      · intro e he q hq
        rcases List.mem_append.mp he with h1 | h1
        · exact hnew e h1 q (List.mem_cons_of_mem _ hq)
        · rw [fEntry_keys h c p e h1, huri]; exact hd'.1 q hq
    · intro e he
      have := hnew e he p List.mem_cons_self
      simp only [QName.same, huri, beq_eq_false_iff_ne, ne_eq]
      exact this

/-! ### the arguments the reader hands to `add_attributes`, each tied to the stored pair it stands for -/

def fItem (h : Heap) (c : Nat) (p : QName × List Value) : List (AttrArg × QName × Value) :=
  match p.2 with
  | [] => []
  | v :: _ =>
    if isRefAttr p.1 then
      (match v with
       | .qn q => [({ name := .qn (nameOf h c p.1), value := .val (.qn (refOf h c q)) }, p.1, .qn q)]
       | _ => [])
    else if isTimeAttr p.1 then
      (match v with
       | .dt t => [({ name := .qn (nameOf h c p.1), value := .val (.dt t) }, p.1, .dt t)]
       | _ => [])
    else []

def oItem (h : Heap) (c : Nat) (p : QName × List Value) : List (AttrArg × QName × Value) :=
  if isProvAttr p.1 then []
  else p.2.map (fun v => ({ name := .qn (nameOf h c p.1), value := (dvOf h c v).value, flt := (dvOf h c v).flt }, p.1, v))

theorem fItem_args (h : Heap) (c : Nat) (p : QName × List Value) :
    (fItem h c p).map (·.1) = (fEntry h c p).map (fun e => { name := .qn e.1, value := e.2 }) := by
  obtain ⟨a, vs⟩ := p
  cases vs with
  | nil => simp [fItem, fEntry]
  | cons v more =>
    simp only [fItem, fEntry]
    split
    · cases v <;> simp
    · split
      · cases v <;> simp
      · simp

theorem oItem_args (h : Heap) (c : Nat) (p : QName × List Value) : (oItem h c p).map (·.1) = oArgs h c p := by
  simp only [oItem, oArgs]
  split <;> simp

theorem fItem_length (h : Heap) (c : Nat) (p : QName × List Value) : (fItem h c p).length ≤ 1 := by
  obtain ⟨a, vs⟩ := p
  cases vs with
  | nil => simp [fItem]
  | cons v more =>
    simp only [fItem]
    split
    · cases v <;> simp
    · split
      · cases v <;> simp
      · simp

theorem fItem_name (h : Heap) (c : Nat) (p : QName × List Value) : ∀ it ∈ fItem h c p, it.2.1 = p.1 := by
  obtain ⟨a, vs⟩ := p
  cases vs with
  | nil => simp [fItem]
  | cons v more =>
    intro it hit
    simp only [fItem] at hit
    split at hit
    · cases v <;> simp_all
    · split at hit
      · cases v <;> simp_all
      · simp at hit

theorem oItem_name (h : Heap) (c : Nat) (p : QName × List Value) :
    ∀ it ∈ oItem h c p, it.2.1 = p.1 ∧ isProvAttr p.1 = false := by
  intro it hit
  simp only [oItem] at hit
  split at hit
  · simp at hit
  · next hp =>
    obtain ⟨v, _, rfl⟩ := List.mem_map.mp hit
    exact ⟨rfl, by simpa using hp⟩

/-- every formal item stands for the stored pair it was read from -/
theorem fItem_for (h : Heap) (c : Nat) (p : QName × List Value) (hr : PairReadable h c p)
    (hok : ∀ v ∈ p.2, PairOk p.1 v ∧ valOk v) :
    ∀ it ∈ fItem h c p, ArgFor it.1 it.2.1 it.2.2 ∧ valOk it.2.2 ∧ it.2.2 ∈ p.2 := by
  obtain ⟨_, huri⟩ := nameOf_spec hr
  obtain ⟨a, vs⟩ := p
  cases vs with
  | nil => simp [fItem]
  | cons v more =>
    intro it hit
    have hv := hok v List.mem_cons_self
    simp only [fItem] at hit
    split at hit
    · next href =>
      cases v with
      | qn q =>
        simp only [List.mem_singleton] at hit
        subst hit
        obtain ⟨q0, hq0, hq⟩ := hr.ref href (.qn q) more rfl
        cases hq0
        obtain ⟨q', hq', hqu⟩ := jsonName_of_readsAs hq
        have hro : refOf h c q = q' := by simp [refOf, hq']
        refine ⟨?_, hv.2, List.mem_cons_self⟩
        simp only [hro]
        refine argFor_formal a (nameOf h c a) huri (.qn q) (.qn q') ?_ hqu
        obtain ⟨h1, h2, h3⟩ := hv.1
        exact ⟨fun _ => rfl, fun ht => by simpa [isDt] using h2 ht, fun hp => by simp [isProvAttr, href] at hp⟩
      | _ => simp at hit
    · split at hit
      · cases v with
        | dt t =>
          simp only [List.mem_singleton] at hit
          subst hit
          exact ⟨argFor_formal a (nameOf h c a) huri (.dt t) (.dt t) hv.1 (vEq_refl _), hv.2, List.mem_cons_self⟩
        | _ => simp at hit
      · simp at hit

/-- every other item stands for the stored pair it was read from -/
theorem oItem_for (h : Heap) (c : Nat) (std : StdNames h c) (p : QName × List Value) (hr : PairReadable h c p)
    (hok : ∀ v ∈ p.2, PairOk p.1 v ∧ valOk v) :
    ∀ it ∈ oItem h c p, ArgFor it.1 it.2.1 it.2.2 ∧ valOk it.2.2 ∧ it.2.2 ∈ p.2 := by
  obtain ⟨_, huri⟩ := nameOf_spec hr
  intro it hit
  simp only [oItem] at hit
  split at hit
  · simp at hit
  · next hp =>
    have hnp : isProvAttr p.1 = false := by simpa using hp
    obtain ⟨v, hv, rfl⟩ := List.mem_map.mp hit
    obtain ⟨dv, hdv, hconv⟩ := c01_value_any h c std v (hr.other hnp v hv)
    have hd : dvOf h c v = dv := by simp [dvOf, hdv]
    exact ⟨by simpa [hd] using argFor_other p.1 (nameOf h c p.1) huri hnp v dv.value dv.flt hconv, (hok v hv).2, hv⟩

/-! ### the record -/

theorem formalOk_of_stored (r : Record) (hs : Stored r) (p : QName × List Value) (hp : p ∈ r.attrs) : FormalOk p := by
  intro v more hv
  have hx : (p.1, v) ∈ r.flat := (mem_flat_iff r (p.1, v)).mpr ⟨p, hp, rfl, by rw [hv]; exact List.mem_cons_self⟩
  obtain ⟨⟨h1, h2, _⟩, _⟩ := hs.pairs (p.1, v) hx
  refine ⟨fun href => ?_, fun _ ht => ?_⟩
  · have := h1 href
    cases v <;> simp_all [isQn, formalText]
  · have := h2 ht
    cases v <;> simp_all [isDt, formalText]

def itemsOf (h : Heap) (c : Nat) (r : Record) : List (AttrArg × QName × Value) :=
  r.attrs.flatMap (fItem h c) ++ r.attrs.flatMap (oItem h c)

theorem items_args (h : Heap) (c : Nat) (r : Record) :
    (itemsOf h c r).map (·.1) =
      (r.attrs.flatMap (fEntry h c)).map (fun e => ({ name := .qn e.1, value := e.2 } : AttrArg)) ++
        r.attrs.flatMap (oArgs h c) := by
  simp only [itemsOf, List.map_append, List.map_flatMap, fItem_args, oItem_args]

theorem stored_ok (r : Record) (hs : Stored r) : ∀ p ∈ r.attrs, ∀ v ∈ p.2, PairOk p.1 v ∧ valOk v := fun p hp v hv =>
  hs.pairs (p.1, v) ((mem_flat_iff r (p.1, v)).mpr ⟨p, hp, rfl, hv⟩)

theorem items_for (h : Heap) (c : Nat) (std : StdNames h c) (r : Record) (hs : Stored r)
    (hrd : ∀ p ∈ r.attrs, PairReadable h c p) :
    ∀ it ∈ itemsOf h c r, ArgFor it.1 it.2.1 it.2.2 ∧ valOk it.2.2 ∧ (it.2.1, it.2.2) ∈ r.flat := by
  intro it hit
  rcases List.mem_append.mp hit with h1 | h1
  · obtain ⟨p, hp, hip⟩ := List.mem_flatMap.mp h1
    obtain ⟨f1, f2, f3⟩ := fItem_for h c p (hrd p hp) (stored_ok r hs p hp) it hip
    exact ⟨f1, f2, (mem_flat_iff r _).mpr ⟨p, hp, fItem_name h c p it hip, f3⟩⟩
  · obtain ⟨p, hp, hip⟩ := List.mem_flatMap.mp h1
    obtain ⟨f1, f2, f3⟩ := oItem_for h c std p (hrd p hp) (stored_ok r hs p hp) it hip
    exact ⟨f1, f2, (mem_flat_iff r _).mpr ⟨p, hp, (oItem_name h c p it hip).1, f3⟩⟩

theorem pairwise_of_length_le_one {α : Type} (R : α → α → Prop) : ∀ (l : List α), l.length ≤ 1 → l.Pairwise R
  | [], _ => List.Pairwise.nil
  | [_], _ => List.pairwise_singleton _ _
  | _ :: _ :: _, h => absurd h (by simp)

theorem keys_pairwise (r : Record) (hs : Stored r) : r.attrs.Pairwise (fun p q => p.1.uri ≠ q.1.uri) := by
  have := hs.keys
  unfold List.Nodup at this
  rwa [List.pairwise_map] at this

theorem oItem_notProv (h : Heap) (c : Nat) (r : Record) :
    ∀ y ∈ r.attrs.flatMap (oItem h c), isProvAttr y.2.1 = false := by
  intro y hy
  obtain ⟨p, _, hip⟩ := List.mem_flatMap.mp hy
  obtain ⟨e1, e2⟩ := oItem_name h c p y hip
  rw [e1]; exact e2

theorem items_norepeat (h : Heap) (c : Nat) (r : Record) (hs : Stored r) : NoRepeatA (itemsOf h c r) := by
  unfold NoRepeatA itemsOf
  rw [List.pairwise_append]
  refine ⟨?_, ?_, ?_⟩
  · rw [List.pairwise_flatMap]
    refine ⟨fun p _ => pairwise_of_length_le_one _ _ (fItem_length h c p), (keys_pairwise r hs).imp ?_⟩
    intro p1 p2 hne x hx y hy _
    rw [fItem_name h c p1 x hx, fItem_name h c p2 y hy]; exact hne
  · exact List.pairwise_of_forall_mem_list (fun x _ y hy hp => by
      rw [oItem_notProv h c r y hy] at hp; exact absurd hp (by simp))
  · intro x _ y hy hp
    rw [oItem_notProv h c r y hy] at hp; exact absurd hp (by simp)

/-- every stored pair has its item -/
theorem items_cover (h : Heap) (c : Nat) (r : Record) (hs : Stored r) :
    ∀ x ∈ r.flat, ∃ it ∈ itemsOf h c r, it.2.1 = x.1 ∧ it.2.2 = x.2 := by
  intro x hx
  obtain ⟨p, hp, hx1, hx2⟩ := (mem_flat_iff r x).mp hx
  by_cases hprov : isProvAttr p.1 = true
  · -- single-valued: p.2 = [x.2]
    have hlen := hs.single p.1 hprov
    rw [get_of_mem r hs.keys p hp] at hlen
    obtain ⟨⟨g1, g2, _⟩, _⟩ := stored_ok r hs p hp x.2 hx2
    have hp2 : p.2 = [x.2] := by
      match hv : p.2, hlen, hx2 with
      | [v], _, hx2' =>
        have : x.2 = v := by simpa using hx2'
        rw [this]
    have hmem : ∀ it, it ∈ fItem h c p → it ∈ itemsOf h c r := fun it hit =>
      List.mem_append_left _ (List.mem_flatMap.mpr ⟨p, hp, hit⟩)
    by_cases href : isRefAttr p.1 = true
    · have hq := g1 href
      cases hxv2 : x.2 with
      | qn q =>
        refine ⟨_, hmem ({ name := .qn (nameOf h c p.1), value := .val (.qn (refOf h c q)) }, p.1, .qn q) ?_, hx1.symm, rfl⟩
        simp [fItem, hp2, hxv2, href]
      | _ => rw [hxv2] at hq; simp [isQn] at hq
    · have href0 : isRefAttr p.1 = false := by simpa using href
      have ht : isTimeAttr p.1 = true := by simpa [isProvAttr, href0] using hprov
      have hq := g2 ht
      cases hxv2 : x.2 with
      | dt t =>
        refine ⟨_, hmem ({ name := .qn (nameOf h c p.1), value := .val (.dt t) }, p.1, .dt t) ?_, hx1.symm, rfl⟩
        simp [fItem, hp2, hxv2, href0, ht]
      | _ => rw [hxv2] at hq; simp [isDt] at hq
  · have hnp : isProvAttr p.1 = false := by simpa using hprov
    refine ⟨({ name := .qn (nameOf h c p.1), value := (dvOf h c x.2).value, flt := (dvOf h c x.2).flt }, p.1, x.2),
      List.mem_append_right _ (List.mem_flatMap.mpr ⟨p, hp, ?_⟩), hx1.symm, rfl⟩
    simp only [oItem, hnp, Bool.false_eq_true, if_false]
    exact List.mem_map.mpr ⟨x.2, hx2, rfl⟩

/-- **C01 for one record**: the object the PROV-JSON writer emits for a stored record, whose names all read back in the
    reading container (the C03 (c) hypothesis, per name) and whose attribute names print differently, is accepted by the
    reader's loop, and the arguments it hands to `add_attributes` build — in any namespace-manager state, from an empty
    record — a record with exactly the stored content: every stored (attribute, value) pair is there (same attribute URI,
    `==`-equal value) and nothing else is -/
theorem c01_record (h : Heap) (c : Nat) (std : StdNames h c) (r : Record) (hs : Stored r)
    (hrd : ∀ p ∈ r.attrs, PairReadable h c p)
    (hpr : r.attrs.Pairwise (fun p q => p.1.print ≠ q.1.print)) :
    ∃ kvs acc, encodeJsonRecord r = some (.obj kvs) ∧ h.decodeElemAttrs c r.kind kvs {} = .ok acc ∧
      acc.extraMembers = [] ∧
      ∀ (par : Option NsMgr) (isColl : Bool) (m : NsMgr), m.Inv1 → ∀ r0 : Record, r0.attrs = [] →
        ∃ m' r', addAttrsLoop par isColl m r0
            (acc.formal.map (fun e => { name := .qn e.1, value := e.2 }) ++ acc.other) = (m', r', none) ∧
          m'.Inv1 ∧ r'.kind = r0.kind ∧ r'.id = r0.id ∧
          (∀ x ∈ r.flat, ∃ y ∈ r'.flat, y.1.uri = x.1.uri ∧ y.2.keyEq x.2 = true) ∧
          (∀ y ∈ r'.flat, ∃ x ∈ r.flat, y.1.uri = x.1.uri ∧ y.2.keyEq x.2 = true) := by
  have henc : encodeJsonRecord r = some (.obj (r.attrs.flatMap entryOf)) := by
    rw [encodeJsonRecord_eq, enc_fold r.attrs [] (fun p hp => formalOk_of_stored r hs p hp) (by simp) hpr]
    simp
  have hdec := dec_fold h c std r.kind r.attrs hrd {} (by simp) (keys_pairwise r hs)
  refine ⟨_, _, henc, hdec, rfl, ?_⟩
  intro par isColl m hm r0 hr0
  have hitem := items_for h c std r hs hrd
  have hget : ∀ a, r0.get a = [] := fun a => by simp [Record.get, hr0]
  obtain ⟨m', r', h1, h2, h3, h4, _, h6, h7⟩ := loop_args par isColl (itemsOf h c r) m hm r0
    (fun it hit => ⟨(hitem it hit).1, (hitem it hit).2.1⟩) (fun it _ _ => hget _) (items_norepeat h c r hs)
  have hflat0 : r0.flat = [] := by simp [Record.flat, hr0]
  refine ⟨m', r', ?_, h2, h3, h4, ?_, ?_⟩
  · rw [← h1, items_args]; simp
  · intro x hx
    obtain ⟨it, hit, e1, e2⟩ := items_cover h c r hs x hx
    obtain ⟨y, hy, hy1, hy2⟩ := h6 it hit
    exact ⟨y, hy, by rw [hy1, e1], by rw [← e2]; exact hy2⟩
  · intro y hy
    rcases h7 y hy with h0 | ⟨it, hit, hu, hk⟩
    · rw [hflat0] at h0; simp at h0
    · exact ⟨(it.2.1, it.2.2), (hitem it hit).2.2, hu, hk⟩

/-! ### non-vacuity: the hypotheses of `c01_record` hold for a concrete record in a concrete document -/

/-- a document that declares `ex` -/
def hEx : Heap := (Heap.empty.newDoc [⟨"ex", "http://example.org/"⟩]).1

theorem readsAs_of_eval (s : String) (q : QName) (h : (hEx.validName 0 (.str s)).2 = some q) : ReadsAs hEx 0 s q.uri :=
  ⟨q, h, rfl⟩

theorem hEx_std : StdNames hEx 0 where
  int_ := readsAs_of_eval "xsd:int" ⟨⟨"xsd", xsdUri⟩, "int"⟩ (by decide +kernel)
  double := readsAs_of_eval "xsd:double" ⟨⟨"xsd", xsdUri⟩, "double"⟩ (by decide +kernel)
  dateTime := readsAs_of_eval "xsd:dateTime" ⟨⟨"xsd", xsdUri⟩, "dateTime"⟩ (by decide +kernel)
  anyURI := readsAs_of_eval "xsd:anyURI" ⟨⟨"xsd", xsdUri⟩, "anyURI"⟩ (by decide +kernel)
  qname := readsAs_of_eval "prov:QUALIFIED_NAME" ⟨⟨"prov", provUri⟩, "QUALIFIED_NAME"⟩ (by decide +kernel)

theorem rcEx_readable : ∀ p ∈ rcEx.attrs, PairReadable hEx 0 p := by
  intro p hp
  simp only [rcEx, List.mem_cons, List.mem_nil_iff, or_false] at hp
  rcases hp with rfl | rfl | rfl | rfl
  · refine ⟨⟨provQ "entity", by decide +kernel, by decide +kernel⟩, fun _ v more hv => ?_, fun h => absurd h (by decide +kernel),
      fun h => absurd h (by decide +kernel)⟩
    simp only [List.cons.injEq] at hv
    exact ⟨exQ "e", hv.1.symm, readsAs_of_eval "ex:e" (exQ "e") (by decide +kernel)⟩
  · refine ⟨⟨provQ "activity", by decide +kernel, by decide +kernel⟩, fun _ v more hv => ?_, fun h => absurd h (by decide +kernel),
      fun h => absurd h (by decide +kernel)⟩
    simp only [List.cons.injEq] at hv
    exact ⟨exQ "a", hv.1.symm, readsAs_of_eval "ex:a" (exQ "a") (by decide +kernel)⟩
  · refine ⟨⟨exQ "k", by decide +kernel, by decide +kernel⟩, fun h => absurd h (by decide +kernel),
      fun _ h => absurd h (by decide +kernel), fun _ v hv => ?_⟩
    simp only [List.mem_cons, List.mem_nil_iff, or_false] at hv
    rcases hv with rfl | rfl
    · trivial
    · exact ⟨readsAs_of_eval "ex:T" (exQ "T") (by decide +kernel), by decide +kernel, by decide +kernel, by decide +kernel⟩
  · refine ⟨⟨provQ "label", by decide +kernel, by decide +kernel⟩, fun h => absurd h (by decide +kernel),
      fun _ h => absurd h (by decide +kernel), fun _ v hv => ?_⟩
    simp only [List.mem_cons, List.mem_nil_iff, or_false] at hv
    subst hv
    exact ⟨by decide, by decide +kernel⟩

/-- the conclusion of `c01_record` for the example (hypotheses discharged: the theorem is not vacuous) -/
example := c01_record hEx 0 hEx_std rcEx rcEx_stored rcEx_readable (by decide +kernel)

end Prov.C01

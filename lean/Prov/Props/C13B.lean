/-
  C13, unified(): the whole of `ProvDocument.unified()` (copies, merges, new containers, attaching the unified bundles)
  leaves every container cell and every record cell that existed before the call exactly as it was: content, record
  order, identifier index, bundle table. (Namespace-manager cells of the source: `Props/C13M`.)
-/
import Prov.Props.C13

namespace Prov.C13
open Prov Prov.Heap

/-- cells below the two bounds are unchanged, and nothing shrinks -/
structure FrameB (nc nr : Nat) (h h' : Heap) : Prop where
  conts : ∀ c, c < nc → h'.cont c = h.cont c
  recs : ∀ r, r < nr → h'.recCell r = h.recCell r
  csize : h.conts.size ≤ h'.conts.size
  rsize : h.recs.size ≤ h'.recs.size

theorem frameB_refl (nc nr : Nat) (h : Heap) : FrameB nc nr h h :=
  ⟨fun _ _ => rfl, fun _ _ => rfl, Nat.le_refl _, Nat.le_refl _⟩

theorem frameB_trans {nc nr : Nat} {h1 h2 h3 : Heap} (a : FrameB nc nr h1 h2) (b : FrameB nc nr h2 h3) : FrameB nc nr h1 h3 :=
  ⟨fun c hc => (b.conts c hc).trans (a.conts c hc), fun r hr => (b.recs r hr).trans (a.recs r hr),
   Nat.le_trans a.csize b.csize, Nat.le_trans a.rsize b.rsize⟩

theorem frameB_setMgr (nc nr : Nat) (h : Heap) (c : Nat) (m : NsMgr) : FrameB nc nr h (h.setMgr c m) :=
  ⟨fun _ _ => rfl, fun _ _ => rfl, Nat.le_refl _, Nat.le_refl _⟩

theorem frameB_allocCont (nc nr : Nat) (h : Heap) (isDoc : Bool) (id : Option QName) (nss : List Ns) (doc : Option Nat)
    (hnc : nc ≤ h.conts.size) :
    FrameB nc nr h (h.allocCont isDoc id nss doc).1 ∧ (h.allocCont isDoc id nss doc).2 = h.conts.size ∧
      (h.allocCont isDoc id nss doc).1.conts.size = h.conts.size + 1 := by
  obtain ⟨a1, _, a3, _, a5⟩ := allocCont_fresh h isDoc id nss doc
  refine ⟨⟨fun c hc => a3 c (by omega), fun r _ => by simp [recCell, a5], ?_, by rw [a5]; exact Nat.le_refl _⟩, a1, ?_⟩
  · simp [allocCont, allocMgr]
  · simp [allocCont, allocMgr]

theorem frameB_mkRecord (nc nr : Nat) (h : Heap) (c : Nat) (k : RecKind) (id : Option QName) (attrs : List AttrArg)
    (hnr : nr ≤ h.recs.size) :
    FrameB nc nr h (h.mkRecord c k id attrs).1 ∧
      (∀ r, (h.mkRecord c k id attrs).2 = .ok r → r = h.recs.size ∧ r < (h.mkRecord c k id attrs).1.recs.size) := by
  refine ⟨⟨fun c' _ => by simp [cont, conts_mkRecord], fun r hr => recCell_mkRecord_lt h c k id attrs r (by omega),
    by rw [conts_mkRecord]; exact Nat.le_refl _, recs_size_mkRecord h c k id attrs⟩, ?_⟩
  intro r hr
  unfold mkRecord at hr ⊢
  by_cases hcond : (k.isElement && id.isNone) = true
  · simp [hcond] at hr
  · simp only [hcond, Bool.false_eq_true, if_false] at hr ⊢
    split at hr
    · cases hr
    · next heq =>
      simp only [Except.ok.injEq] at hr
      subst hr
      simp [heq, setMgr]

theorem recCell_setRec_ne (h : Heap) (r r' : Nat) (rc : Record) (hne : r' ≠ r) : (h.setRec r rc).recCell r' = h.recCell r' := by
  simp [setRec, recCell, Array.getD_eq_getD_getElem?, Array.getElem?_setIfInBounds, Ne.symm hne]

theorem frameB_addAttributes (nc nr : Nat) (h : Heap) (r : Nat) (attrs : List AttrArg) (hr : nr ≤ r) :
    FrameB nc nr h (h.addAttributes r attrs).1 ∧ (h.addAttributes r attrs).1.recs.size = h.recs.size := by
  unfold addAttributes
  refine ⟨⟨fun _ _ => rfl, fun r' hr' => ?_, Nat.le_refl _, ?_⟩, ?_⟩
  · show ((h.setMgr _ _).setRec r _).recCell r' = h.recCell r'
    rw [recCell_setRec_ne _ _ _ _ (by omega)]
    rfl
  · simp [setRec, setMgr]
  · simp [setRec, setMgr]

theorem conts_size_newRecord (h : Heap) (c : Nat) (k : RecKind) (idArg : NameArg) (attrs : List AttrArg) :
    (h.newRecord c k idArg attrs).1.conts.size = h.conts.size := by
  unfold newRecord
  simp only [validName]
  have hc := conts_mkRecord (h.setMgr c ((h.mgrOf c).validName (h.parentOf c) idArg).1) c k
    ((h.mgrOf c).validName (h.parentOf c) idArg).2 attrs
  generalize (h.setMgr c ((h.mgrOf c).validName (h.parentOf c) idArg).1).mkRecord c k
    ((h.mgrOf c).validName (h.parentOf c) idArg).2 attrs = res at hc
  obtain ⟨h2, e⟩ := res
  simp only at hc
  cases e with
  | error err => simp [hc, conts_setMgr]
  | ok r => simp [addRecordRaw, setCont, hc, conts_setMgr]

theorem frameB_newRecord (nc nr : Nat) (h : Heap) (t : Nat) (k : RecKind) (idArg : NameArg) (attrs : List AttrArg)
    (ht : nc ≤ t) (hnr : nr ≤ h.recs.size) :
    FrameB nc nr h (h.newRecord t k idArg attrs).1 :=
  ⟨fun c hc => cont_newRecord_ne h t c k idArg attrs (by omega),
   fun r hr => recCell_newRecord_lt h t k idArg attrs r (by omega),
   by rw [conts_size_newRecord]; exact Nat.le_refl _,
   recs_size_newRecord h t k idArg attrs⟩

theorem frameB_addRecords (nc nr : Nat) (t : Nat) (ht : nc ≤ t) : ∀ (rs : List Nat) (h : Heap), nr ≤ h.recs.size →
    FrameB nc nr h (h.addRecords t rs).1
  | [], h, _ => frameB_refl nc nr h
  | r :: rest, h, hnr => by
    unfold Heap.addRecords
    simp only [Heap.addRecord]
    have s1 := frameB_newRecord nc nr h t (h.recCell r).r.kind (recreateArgs (h.recCell r).r).1
      (recreateArgs (h.recCell r).r).2 ht hnr
    generalize h.newRecord t (h.recCell r).r.kind (recreateArgs (h.recCell r).r).1
      (recreateArgs (h.recCell r).r).2 = res at s1
    obtain ⟨h1, e⟩ := res
    cases e with
    | error err => exact s1
    | ok nrr => exact frameB_trans s1 (frameB_addRecords nc nr t ht rest h1 (Nat.le_trans hnr s1.rsize))

/-- the merge loop of one group: only the fresh copy is written -/
theorem frameB_mergeGo (nc nr : Nat) (mref : Nat) (hm : nr ≤ mref) : ∀ (rs : List Nat) (h : Heap),
    FrameB nc nr h (mergeGroup.go mref h rs).1
  | [], h => frameB_refl nc nr h
  | r :: more, h => by
    unfold mergeGroup.go
    simp only []
    have s1 := (frameB_addAttributes nc nr h mref
      ((h.recCell r).r.flat.map (fun p => ({ name := .qn p.1, value := .val p.2 } : AttrArg))) hm).1
    generalize h.addAttributes mref ((h.recCell r).r.flat.map (fun p => ({ name := .qn p.1, value := .val p.2 } : AttrArg))) = res at s1
    obtain ⟨h', e⟩ := res
    cases e with
    | none => exact frameB_trans s1 (frameB_mergeGo nc nr mref hm more h')
    | some err => exact s1

/-- the scratch copy of a group's first record: a new container, a new record, nothing else -/
theorem frameB_scratchCopy (nc nr : Nat) (h : Heap) (r0 : Nat) (hnc : nc ≤ h.conts.size) (hnr : nr ≤ h.recs.size) :
    FrameB nc nr h (h.scratchCopy r0).1 ∧
      (∀ r, (h.scratchCopy r0).2 = .ok r → nr ≤ r) := by
  unfold scratchCopy
  simp only []
  obtain ⟨s0, _, _⟩ := frameB_allocCont nc nr h false none [] none hnc
  generalize h.allocCont false none [] none = al at s0
  obtain ⟨h0, sc⟩ := al
  simp only at s0 ⊢
  have hnr0 : nr ≤ h0.recs.size := Nat.le_trans hnr s0.rsize
  obtain ⟨s1, hidx⟩ := frameB_mkRecord nc nr h0 sc (h.recCell r0).r.kind (h.recCell r0).r.id
    ((h.recCell r0).r.flat.map (fun p => ({ name := .qn p.1, value := .val p.2 } : AttrArg))) hnr0
  exact ⟨frameB_trans s0 s1, fun r hr => by rw [(hidx r hr).1]; exact hnr0⟩

theorem frameB_mergeGroup (nc nr : Nat) (h : Heap) (rs : List Nat) (hnc : nc ≤ h.conts.size) (hnr : nr ≤ h.recs.size) :
    FrameB nc nr h (h.mergeGroup rs).1 := by
  unfold mergeGroup
  cases rs with
  | nil => exact frameB_refl nc nr h
  | cons r0 rest =>
    simp only []
    obtain ⟨s1, hidx⟩ := frameB_scratchCopy nc nr h r0 hnc hnr
    generalize h.scratchCopy r0 = res at s1 hidx
    obtain ⟨h1, e⟩ := res
    cases e with
    | error err => exact s1
    | ok mref =>
      simp only []
      have hm : nr ≤ mref := hidx mref rfl
      have s2 := frameB_mergeGo nc nr mref hm rest h1
      generalize mergeGroup.go mref h1 rest = res2 at s2
      obtain ⟨h2, e2⟩ := res2
      cases e2 <;> exact frameB_trans s1 s2

theorem frameB_mergeAll (nc nr : Nat) : ∀ (gs : List (List Nat)) (h : Heap) (acc : List (Nat × Nat)), nc ≤ h.conts.size →
    nr ≤ h.recs.size → FrameB nc nr h (unifiedRecords.mergeAll h acc gs).1
  | [], h, _, _, _ => frameB_refl nc nr h
  | g :: gs, h, acc, hnc, hnr => by
    unfold unifiedRecords.mergeAll
    have s1 := frameB_mergeGroup nc nr h g hnc hnr
    generalize h.mergeGroup g = res at s1
    obtain ⟨h1, e⟩ := res
    cases e with
    | error err => exact s1
    | ok mref => exact frameB_trans s1 (frameB_mergeAll nc nr gs h1 _ (Nat.le_trans hnc s1.csize) (Nat.le_trans hnr s1.rsize))

theorem frameB_unifiedRecords (nc nr : Nat) (h : Heap) (c : Nat) (hnc : nc ≤ h.conts.size) (hnr : nr ≤ h.recs.size) :
    FrameB nc nr h (h.unifiedRecords c).1 := by
  unfold unifiedRecords
  simp only []
  have s1 := frameB_mergeAll nc nr
    (((h.cont c).idMap.flatMap (fun e => (groupByKind h e.2).map (·.2))).filter (fun g => g.length > 1)) h [] hnc hnr
  generalize unifiedRecords.mergeAll h [] _ = res at s1
  obtain ⟨h1, e⟩ := res
  cases e <;> exact s1

theorem frameB_unifiedBundle (nc nr : Nat) (h : Heap) (c : Nat) (hnc : nc ≤ h.conts.size) (hnr : nr ≤ h.recs.size) :
    FrameB nc nr h (h.unifiedBundle c).1 ∧ ∀ b, (h.unifiedBundle c).2 = .ok b → nc ≤ b := by
  unfold unifiedBundle
  have s1 := frameB_unifiedRecords nc nr h c hnc hnr
  generalize h.unifiedRecords c = res at s1
  obtain ⟨h1, e⟩ := res
  cases e with
  | error err => exact ⟨s1, fun b hb => by cases hb⟩
  | ok rs =>
    simp only []
    obtain ⟨s2, hidx, _⟩ := frameB_allocCont nc nr h1 false (h1.cont c).id [] none (Nat.le_trans hnc s1.csize)
    generalize h1.allocCont false (h1.cont c).id [] none = al at s2 hidx
    obtain ⟨h2, nb⟩ := al
    simp only at s2 hidx
    have hnb : nc ≤ nb := by rw [hidx]; exact Nat.le_trans hnc s1.csize
    have s3 := frameB_addRecords nc nr nb hnb rs h2 (Nat.le_trans hnr (Nat.le_trans s1.rsize s2.rsize))
    generalize h2.addRecords nb rs = res3 at s3
    obtain ⟨h3, e3⟩ := res3
    cases e3 with
    | none => exact ⟨frameB_trans s1 (frameB_trans s2 s3), fun b hb => by cases hb; exact hnb⟩
    | some err => exact ⟨frameB_trans s1 (frameB_trans s2 s3), fun b hb => by cases hb⟩

theorem frameB_setCont (nc nr : Nat) (h : Heap) (c : Nat) (k : Cont) (hc : nc ≤ c) : FrameB nc nr h (h.setCont c k) :=
  ⟨fun c' hc' => cont_setCont_ne h c c' k (by omega), fun _ _ => rfl, by simp [setCont], Nat.le_refl _⟩

theorem frameB_mgrsOnly (nc nr : Nat) (h : Heap) (ms : Array MgrCell) : FrameB nc nr h { h with mgrs := ms } :=
  ⟨fun _ _ => rfl, fun _ _ => rfl, Nat.le_refl _, Nat.le_refl _⟩

theorem frameB_validName (nc nr : Nat) (h : Heap) (c : Nat) (x : NameArg) : FrameB nc nr h (h.validName c x).1 := by
  unfold validName
  exact frameB_setMgr nc nr h c _

theorem frameB_registerBundle (nc nr : Nat) (h3 : Heap) (d b' : Nat) (q : QName) (hd : nc ≤ d) (hb : nc ≤ b') :
    FrameB nc nr h3 (h3.registerBundle d b' q).1 := by
  unfold registerBundle
  simp only []
  have s4 := frameB_setCont nc nr h3 b' { h3.cont b' with id := some q } hb
  split
  · exact s4
  · exact frameB_trans s4 (frameB_trans (frameB_setCont nc nr _ d _ hd) (frameB_setCont nc nr _ b' _ hb))

theorem frameB_attachBundle (nc nr : Nat) (h1 : Heap) (d b' : Nat) (idArg : NameArg) (hd : nc ≤ d) (hb : nc ≤ b') :
    FrameB nc nr h1 (h1.attachBundle d b' idArg).1 := by
  unfold attachBundle
  split
  · exact frameB_refl nc nr h1
  · have s2 : FrameB nc nr h1 (h1.linkParent d b') := frameB_mgrsOnly nc nr h1 _
    have s3 := frameB_validName nc nr (h1.linkParent d b') b' (h1.defaultBundleId b' idArg)
    generalize (h1.linkParent d b').validName b' (h1.defaultBundleId b' idArg) = vn at s3
    obtain ⟨h3, vid⟩ := vn
    cases vid with
    | none => exact frameB_trans s2 s3
    | some q => exact frameB_trans s2 (frameB_trans s3 (frameB_registerBundle nc nr h3 d b' q hd hb))

theorem frameB_addBundle (nc nr : Nat) (h : Heap) (d b : Nat) (idArg : NameArg) (nsOrder : List Ns)
    (hd : nc ≤ d) (hb : nc ≤ b) (hnc : nc ≤ h.conts.size) (hnr : nr ≤ h.recs.size) :
    FrameB nc nr h (h.addBundle d b idArg nsOrder).1 := by
  unfold addBundle
  simp only []
  by_cases hdoc : (h.cont b).isDoc = true
  · simp only [hdoc, if_true]
    by_cases hbs : (!(h.cont b).bundles.isEmpty) = true
    · simp only [hbs, if_true]
      exact frameB_refl nc nr h
    · simp only [hbs, Bool.false_eq_true, if_false]
      obtain ⟨s2, hidx, _⟩ := frameB_allocCont nc nr h false none nsOrder none hnc
      generalize h.allocCont false none nsOrder none = al at s2 hidx
      obtain ⟨h2, nb⟩ := al
      simp only at s2 hidx
      have hnb : nc ≤ nb := by rw [hidx]; exact hnc
      have s3 := frameB_addRecords nc nr nb hnb (h.cont b).records h2 (Nat.le_trans hnr s2.rsize)
      generalize h2.addRecords nb (h.cont b).records = res3 at s3
      obtain ⟨h3, e3⟩ := res3
      have s23 := frameB_trans s2 s3
      cases e3 with
      | some err => exact s23
      | none => exact frameB_trans s23 (frameB_attachBundle nc nr h3 d nb idArg hd hnb)
  · simp only [hdoc, Bool.false_eq_true, if_false]
    exact frameB_attachBundle nc nr h d b idArg hd hb

/-- the loop over the source's bundles: unify each, attach the result to the new document `nd` -/
theorem frameB_unifiedGo (nc nr : Nat) (nd : Nat) (hnd : nc ≤ nd) : ∀ (bs : List (QName × Nat)) (h : Heap),
    nc ≤ h.conts.size → nr ≤ h.recs.size → FrameB nc nr h (unifiedInto.go nd h bs).1
  | [], h, _, _ => frameB_refl nc nr h
  | (_, b) :: rest, h, hnc, hnr => by
    unfold unifiedInto.go
    obtain ⟨s1, hidx⟩ := frameB_unifiedBundle nc nr h b hnc hnr
    generalize h.unifiedBundle b = res at s1 hidx
    obtain ⟨h', e⟩ := res
    cases e with
    | error err => exact s1
    | ok ub =>
      simp only []
      have hub : nc ≤ ub := hidx ub rfl
      have s2 := frameB_addBundle nc nr h' nd ub .nil [] hnd hub (Nat.le_trans hnc s1.csize) (Nat.le_trans hnr s1.rsize)
      generalize h'.addBundle nd ub .nil [] = res2 at s2
      obtain ⟨h'', e2⟩ := res2
      cases e2 with
      | some err => exact frameB_trans s1 s2
      | none =>
        exact frameB_trans s1 (frameB_trans s2 (frameB_unifiedGo nc nr nd hnd rest h''
          (Nat.le_trans hnc (Nat.le_trans s1.csize s2.csize)) (Nat.le_trans hnr (Nat.le_trans s1.rsize s2.rsize))))

theorem frameB_unifiedInto (nc nr : Nat) (h2 : Heap) (d nd : Nat) (hnd : nc ≤ nd) (hnc : nc ≤ h2.conts.size)
    (hnr : nr ≤ h2.recs.size) : FrameB nc nr h2 (h2.unifiedInto d nd).1 := by
  unfold unifiedInto
  have s3 := frameB_unifiedRecords nc nr h2 d hnc hnr
  generalize h2.unifiedRecords d = res at s3
  obtain ⟨h3, e⟩ := res
  cases e with
  | error err => exact s3
  | ok rs =>
    simp only []
    have s4 := frameB_addRecords nc nr nd hnd rs h3 (Nat.le_trans hnr s3.rsize)
    generalize h3.addRecords nd rs = res4 at s4
    obtain ⟨h4, e4⟩ := res4
    cases e4 with
    | some err => exact frameB_trans s3 s4
    | none =>
      simp only []
      have s34 := frameB_trans s3 s4
      have s5 := frameB_unifiedGo nc nr nd hnd (h4.cont d).bundles h4 (Nat.le_trans hnc s34.csize) (Nat.le_trans hnr s34.rsize)
      generalize unifiedInto.go nd h4 (h4.cont d).bundles = res5 at s5
      obtain ⟨h5, e5⟩ := res5
      cases e5 <;> exact frameB_trans s34 s5

/-- **`unified()` never touches what was there**: every container cell (records and their order, identifier index,
    identifier, bundle table) and every record cell that existed before `ProvDocument.unified()` is unchanged after it,
    whether it succeeds or raises. Namespace-manager cells: `Props/C13M`. -/
theorem c13_unified_frame (h : Heap) (d : Nat) : FrameB h.conts.size h.recs.size h (h.unifiedDoc d).1 := by
  unfold unifiedDoc
  simp only []
  obtain ⟨s1, hidx, _⟩ := frameB_allocCont h.conts.size h.recs.size h true none (h.mgrOf d).reg.values none (Nat.le_refl _)
  generalize h.allocCont true none (h.mgrOf d).reg.values none = al at s1 hidx
  obtain ⟨h1, nd⟩ := al
  simp only at s1 hidx
  dsimp only
  have hnd : h.conts.size ≤ nd := by rw [hidx]; exact Nat.le_refl _
  have s2 : FrameB h.conts.size h.recs.size h1 (h1.copyDefault nd (h.mgrOf d).dflt) := by
    unfold copyDefault
    split
    · exact frameB_setMgr _ _ h1 nd _
    · exact frameB_refl _ _ h1
  have s12 := frameB_trans s1 s2
  exact frameB_trans s12 (frameB_unifiedInto _ _ _ d nd hnd s12.csize s12.rsize)

/-- spelled out: content and record order of the source document and of each of its bundles after `unified()` -/
theorem c13_unified_content (h : Heap) (d : Nat) (c : Nat) (hc : c < h.conts.size) :
    ((h.unifiedDoc d).1.cont c).records = (h.cont c).records ∧
    ((h.unifiedDoc d).1.cont c).bundles = (h.cont c).bundles ∧
    ((h.unifiedDoc d).1.cont c).id = (h.cont c).id ∧
    ∀ r ∈ (h.cont c).records, r < h.recs.size → (h.unifiedDoc d).1.recCell r = h.recCell r := by
  have f := c13_unified_frame h d
  rw [f.conts c hc]
  exact ⟨rfl, rfl, rfl, fun r _ hr => f.recs r hr⟩

end Prov.C13

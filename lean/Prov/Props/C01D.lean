/-
  C01 at container level, the reader's side: the record phase of `decode_json_container` — for every kind label, for every
  identifier under it, for every record object under that identifier (the object itself, or the elements of an array) one
  `decode_json_element`, stopping at the first error — is exactly the in-order walk over `contElems` (`Props/C01C`), the list
  the writer's grouping theorem speaks about. Hence, for the dict `encode_json_container` builds, the reader makes one
  `new_record` call per record object the writer filed, each filed object exactly once (`c01_reader_meets_filed`): between
  writer and reader nothing is lost and nothing repeated at the level of whole containers, whatever identifiers repeat.
-/
import Prov.Props.C01C

namespace Prov.C01
open Prov Prov.Heap

/-- the reader's walk, flattened: one `decode_json_element` per (kind label, identifier, record object) -/
def elemFold (c : Nat) : Heap → List (String × String × JVal) → Heap × Option Err
  | h, [] => (h, none)
  | h, (label, rid, e) :: rest =>
    match RecKind.ofProvN label with
    | none => (h, some errKey)
    | some kind =>
      match h.decodeJsonElement c kind rid e with
      | (h', none) => elemFold c h' rest
      | (h', some er) => (h', some er)

theorem elemFold_append (c : Nat) : ∀ (l1 l2 : List (String × String × JVal)) (h : Heap),
    elemFold c h (l1 ++ l2) = match elemFold c h l1 with
      | (h', none) => elemFold c h' l2
      | (h', some er) => (h', some er)
  | [], _, _ => rfl
  | (label, rid, e) :: rest, l2, h => by
    simp only [List.cons_append, elemFold]
    cases RecKind.ofProvN label with
    | none => rfl
    | some kind =>
      simp only []
      cases hd : h.decodeJsonElement c kind rid e with
      | mk h' er =>
        cases er with
        | none => simp only []; exact elemFold_append c rest l2 h'
        | some x => rfl

/-- a container body as the writer builds it: kind labels, each over a dict from identifiers to a record object or an array -/
def WfBody (body : List (String × JVal)) : Prop :=
  ∀ p ∈ body, (p.1 == "prefix") = false ∧ (RecKind.ofProvN p.1).isSome ∧
    ∃ ids, p.2 = .obj ids ∧ ∀ q ∈ ids, (∃ kv, q.2 = .obj kv) ∨ (∃ l, q.2 = .arr l)

theorem perElem_eq (c : Nat) (label : String) (kind : RecKind) (hk : RecKind.ofProvN label = some kind) (rid : String) :
    ∀ (es : List JVal) (h : Heap),
      decodeJsonContainer.recs.perId.perElem c kind rid h es = elemFold c h (es.map (fun e => (label, rid, e)))
  | [], _ => rfl
  | e :: es', h => by
    simp only [List.map_cons, elemFold, hk]
    unfold decodeJsonContainer.recs.perId.perElem
    cases hd : h.decodeJsonElement c kind rid e with
    | mk h' er =>
      cases er with
      | none => simp only []; exact perElem_eq c label kind hk rid es' h'
      | some x => rfl

theorem perId_eq (c : Nat) (label : String) (kind : RecKind) (hk : RecKind.ofProvN label = some kind) :
    ∀ (ids : List (String × JVal)) (h : Heap), (∀ q ∈ ids, (∃ kv, q.2 = .obj kv) ∨ (∃ l, q.2 = .arr l)) →
      decodeJsonContainer.recs.perId c kind h ids = elemFold c h (idsElems label ids)
  | [], _, _ => rfl
  | (rid, cj) :: more, h, hw => by
    have hcj := hw (rid, cj) List.mem_cons_self
    have hrest : ∀ q ∈ more, (∃ kv, q.2 = .obj kv) ∨ (∃ l, q.2 = .arr l) := fun q hq => hw q (List.mem_cons_of_mem _ hq)
    unfold decodeJsonContainer.recs.perId
    have hsplit : idsElems label ((rid, cj) :: more) = (entryElems cj).map (fun e => (label, rid, e)) ++ idsElems label more := by
      simp [idsElems]
    rw [hsplit, elemFold_append]
    have main : ∀ (es : List JVal), entryElems cj = es →
        (match decodeJsonContainer.recs.perId.perElem c kind rid h es with
          | (h', none) => decodeJsonContainer.recs.perId c kind h' more
          | (h', some er) => (h', some er)) =
        match elemFold c h ((entryElems cj).map (fun e => (label, rid, e))) with
          | (h', none) => elemFold c h' (idsElems label more)
          | (h', some er) => (h', some er) := by
      intro es hes
      rw [hes, perElem_eq c label kind hk rid es h]
      cases elemFold c h (es.map (fun e => (label, rid, e))) with
      | mk h' er =>
        cases er with
        | none => simp only []; exact perId_eq c label kind hk more h' hrest
        | some x => rfl
    rcases hcj with ⟨kv, hkv⟩ | ⟨l, hl⟩
    · simp only at hkv
      subst hkv
      exact main [JVal.obj kv] rfl
    · simp only at hl
      subst hl
      exact main l rfl

/-- **the reader's record phase is the in-order walk over `contElems`** -/
theorem recs_eq_elemFold (c : Nat) : ∀ (body : List (String × JVal)) (h : Heap), WfBody body →
    decodeJsonContainer.recs c h body = elemFold c h (contElems body)
  | [], _, _ => rfl
  | (label, content) :: rest, h, hw => by
    obtain ⟨hnp, hkind, ids, hobj, hids⟩ := hw (label, content) List.mem_cons_self
    have hrest : WfBody rest := fun p hp => hw p (List.mem_cons_of_mem _ hp)
    simp only at hnp hkind hobj
    subst hobj
    obtain ⟨kind, hk⟩ := Option.isSome_iff_exists.mp hkind
    unfold decodeJsonContainer.recs
    have hsplit : contElems ((label, JVal.obj ids) :: rest) = idsElems label ids ++ contElems rest := by
      simp [contElems, labelElems, hnp]
    rw [hsplit, elemFold_append]
    simp only [hk]
    rw [perId_eq c label kind hk ids h hids]
    cases elemFold c h (idsElems label ids) with
    | mk h' er =>
      cases er with
      | none => simp only []; exact recs_eq_elemFold c rest h' hrest
      | some x => rfl

/-! ### the dict the writer builds is a body the reader walks -/

def IdsOk (ids : List (String × JVal)) : Prop := ∀ q ∈ ids, (∃ kv, q.2 = .obj kv) ∨ (∃ l, q.2 = .arr l)

/-- every entry is the prefix block or a kind label over a dict of record objects / arrays -/
def WfCont (cont : List (String × JVal)) : Prop :=
  ∀ p ∈ cont, (p.1 == "prefix") = true ∨ ((RecKind.ofProvN p.1).isSome ∧ ∃ ids, p.2 = .obj ids ∧ IdsOk ids)

theorem mem_jsonObjSet (kvs : List (String × JVal)) (k : String) (v : JVal) (x : String × JVal)
    (hx : x ∈ jsonObjSet kvs k v) : x ∈ kvs ∨ x = (k, v) := by
  rcases jsonObjSet_split kvs k v with ⟨_, h2⟩ | ⟨l1, old, l2, h1, _, h3⟩
  · rw [h2] at hx
    rcases List.mem_append.mp hx with h | h
    · exact Or.inl h
    · exact Or.inr (by simpa using h)
  · rw [h3] at hx
    rw [h1]
    rcases List.mem_append.mp hx with h | h
    · exact Or.inl (List.mem_append_left _ h)
    · rcases List.mem_cons.mp h with h | h
      · exact Or.inr h
      · exact Or.inl (List.mem_append_right _ (List.mem_cons_of_mem _ h))

theorem getKey_found (kvs : List (String × JVal)) (k : String) (v : JVal) (h : getKey kvs k = some v) : (k, v) ∈ kvs := by
  unfold getKey at h
  simp only [Option.map_eq_some_iff] at h
  obtain ⟨p, hp, rfl⟩ := h
  have hk := List.find?_some hp
  simp only [beq_iff_eq] at hk
  have := List.mem_of_find?_eq_some hp
  rw [← hk]
  exact this

theorem ofProvN_provN (k : RecKind) : (RecKind.ofProvN k.provN).isSome = true := by cases k <;> decide

theorem encodeJsonRecord_isObj (r : Record) (rj : JVal) (h : encodeJsonRecord r = some rj) : ∃ kv, rj = .obj kv := by
  unfold encodeJsonRecord at h
  simp only [Option.map_eq_some_iff] at h
  obtain ⟨kvs, _, hk⟩ := h
  exact ⟨kvs, hk.symm⟩

theorem getKey_wf (cont : List (String × JVal)) (hw : WfCont cont) (label : String) (hnp : (label == "prefix") = false)
    (v : JVal) (hg : getKey cont label = some v) : ∃ ids, v = .obj ids ∧ IdsOk ids := by
  rcases hw (label, v) (getKey_found cont label v hg) with h | ⟨_, ids, h1, h2⟩
  · simp only at h; rw [hnp] at h; cases h
  · exact ⟨ids, h1, h2⟩

theorem addEntry_wf (cont : List (String × JVal)) (hw : WfCont cont) (k : RecKind) (cur : List (String × JVal)) (hcur : IdsOk cur)
    (ident : String) (ne : JVal) (hne : (∃ kv, ne = JVal.obj kv) ∨ (∃ l, ne = JVal.arr l)) :
    WfCont (jsonObjSet cont k.provN (.obj (jsonObjSet cur ident ne))) := by
  have hids : IdsOk (jsonObjSet cur ident ne) := by
    intro q hq
    rcases mem_jsonObjSet cur ident ne q hq with h | h
    · exact hcur q h
    · subst h; exact hne
  intro p hp
  rcases mem_jsonObjSet cont k.provN _ p hp with h | h
  · exact hw p h
  · subst h
    exact Or.inr ⟨ofProvN_provN k, _, rfl, hids⟩

theorem wfCont_addRecordJson (st : EncSt) (k : RecKind) (ident : String) (rj : JVal) (hw : WfCont st.cont)
    (hrj : ∃ kv, rj = .obj kv) : WfCont (addRecordJson st k.provN ident rj).cont := by
  unfold addRecordJson
  simp only [get?_obj]
  refine addEntry_wf st.cont hw k _ ?_ ident _ ?_
  · cases hg : getKey st.cont k.provN with
    | none => intro q hq; simp at hq
    | some v =>
      obtain ⟨ids, rfl, hids⟩ := getKey_wf st.cont hw k.provN (provN_not_prefix k) v hg
      exact hids
  · split
    · exact Or.inl hrj
    · exact Or.inr ⟨_, rfl⟩
    · exact Or.inr ⟨_, rfl⟩

theorem wfCont_init (m : NsMgr) : WfCont (jsonEncInit m).cont := by
  unfold jsonEncInit
  simp only []
  split
  · intro p hp; simp at hp
  · intro p hp
    simp only [List.mem_singleton] at hp
    subst hp
    exact Or.inl rfl

theorem wfCont_fileAll : ∀ (rs : List Record) (st st' : EncSt) (ts : List (String × String × JVal)),
    fileAll st rs = some (st', ts) → WfCont st.cont → WfCont st'.cont
  | [], st, st', ts, h, hw => by
    simp only [fileAll, Option.some.injEq, Prod.mk.injEq] at h
    rw [← h.1]; exact hw
  | r :: rest, st, st', ts, h, hw => by
    unfold fileAll at h
    cases hs : fileStep st r with
    | none => simp [hs] at h
    | some p =>
      obtain ⟨st1, t⟩ := p
      simp only [hs, Option.map_eq_some_iff, Prod.mk.injEq] at h
      obtain ⟨⟨st2, ts2⟩, h2, rfl, _⟩ := h
      refine wfCont_fileAll rest st1 st2 ts2 h2 ?_
      unfold fileStep at hs
      cases hj : encodeJsonRecord r with
      | none => simp [hj] at hs
      | some rj =>
        simp only [hj, Option.some.injEq, Prod.mk.injEq] at hs
        obtain ⟨rfl, _⟩ := hs
        have hcont : (match r.id with | some q => (st, q.print) | none => anonIdFor st r).1.cont = st.cont := by
          cases r.id with
          | none => exact anonIdFor_cont st r
          | some q => rfl
        have hw1 : WfCont (match r.id with | some q => (st, q.print) | none => anonIdFor st r).1.cont := by rw [hcont]; exact hw
        exact wfCont_addRecordJson (match r.id with | some q => (st, q.print) | none => anonIdFor st r).1 r.kind
          (match r.id with | some q => (st, q.print) | none => anonIdFor st r).2 rj hw1 (encodeJsonRecord_isObj r rj hj)

theorem wfBody_of_wfCont (cont : List (String × JVal)) (hw : WfCont cont) : WfBody (cont.filter (fun p => p.1 != "prefix")) := by
  intro p hp
  obtain ⟨hmem, hne⟩ := List.mem_filter.mp hp
  have hnp : (p.1 == "prefix") = false := by simpa using hne
  rcases hw p hmem with h | ⟨h1, ids, h2, h3⟩
  · rw [hnp] at h; cases h
  · exact ⟨hnp, h1, ids, h2, h3⟩

theorem contElems_filter (cont : List (String × JVal)) : contElems (cont.filter (fun p => p.1 != "prefix")) = contElems cont := by
  induction cont with
  | nil => rfl
  | cons p rest ih =>
    by_cases hp : (p.1 == "prefix") = true
    · have : (p.1 != "prefix") = false := by simp [bne, hp]
      simp only [List.filter_cons, this, Bool.false_eq_true, if_false]
      rw [ih]
      simp [contElems, labelElems, hp]
    · have hp' : (p.1 == "prefix") = false := by simpa using hp
      have : (p.1 != "prefix") = true := by simp [bne, hp']
      simp only [List.filter_cons, this, if_true]
      simp only [contElems, List.flatMap_cons] at ih ⊢
      rw [ih]

/-- **writer and reader meet at container level**: for the dict `encode_json_container` builds from any record list, the
    record phase of `decode_json_container` (what is left of the dict once the prefix block is taken out) makes exactly one
    `decode_json_element` call per record object the writer filed — the in-order walk over `contElems`, which is a
    permutation of the filed objects `ts`, one per record (`c01_container_elems`) -/
theorem c01_reader_meets_filed (m : NsMgr) (records : List Record) (cont : List (String × JVal))
    (henc : encodeJsonContainer m records = some cont) (c : Nat) (h : Heap) :
    ∃ st0 st ts, fileAll st0 records = some (st, ts) ∧ ts.length = records.length ∧ (contElems cont).Perm ts ∧
      decodeJsonContainer.recs c h (cont.filter (fun p => p.1 != "prefix")) = elemFold c h (contElems cont) := by
  obtain ⟨st0, st, ts, _, _, hf, hcont, hlen, hperm⟩ := c01_container_elems m records cont henc
  refine ⟨st0, st, ts, hf, hlen, hperm, ?_⟩
  have hw : WfCont cont := by
    -- the same run, started from the initial state
    unfold encodeJsonContainer at henc
    rw [encStepJ_eq, fold_fileAll] at henc
    simp only [Option.map_map, Option.map_eq_some_iff] at henc
    obtain ⟨⟨st', ts'⟩, hf', hc'⟩ := henc
    simp only [Function.comp] at hc'
    rw [← hc']
    exact wfCont_fileAll records (jsonEncInit m) st' ts' hf' (wfCont_init m)
  rw [recs_eq_elemFold c _ h (wfBody_of_wfCont cont hw), contElems_filter]

end Prov.C01

/-
  C09, `update`: `ProvBundle.update(other)` appends `==` copies of other's records; `ProvDocument.update(other)` does that
  for the top level and then, bundle by bundle of `other`, either merges into the bundle of the same name or creates that
  bundle first. The loop is described as a chain of steps, each of which appends copies to exactly one target bundle and
  writes nothing else but (for a new bundle) one entry of the document's bundle table.
-/
import Prov.Props.C09F
import Prov.Props.C09E

namespace Prov.C09
open Prov Prov.Heap Prov.C13 Prov.C08

/-- sources are existing stored records -/
def SrcOk (h : Heap) (rs : List Nat) : Prop := ∀ r ∈ rs, r < h.recs.size ∧ StoredRec (h.recCell r).r

/-- `h'` is `h` with `news` — `==` copies of `srcs`, in order — appended to container `t`; nothing else written -/
structure Appended (h h' : Heap) (t : Nat) (srcs news : List Nat) : Prop where
  records : (h'.cont t).records = (h.cont t).records ++ news
  len : news.length = srcs.length
  copies : ∀ p ∈ srcs.zip news, recEq (h.recCell p.1).r (h'.recCell p.2).r = true ∧ h.recs.size ≤ p.2
  recs : ∀ r, r < h.recs.size → h'.recCell r = h.recCell r
  conts : ∀ c, c ≠ t → h'.cont c = h.cont c
  csize : h'.conts.size = h.conts.size
  inv : AllInv1 h'
  rsize : h.recs.size ≤ h'.recs.size

theorem appended_of_addRecords (h : Heap) (t : Nat) (srcs : List Nat) (ht : t < h.conts.size) (hn : AllInv1 h) (hs : SrcOk h srcs) :
    ∃ h' news, h.addRecords t srcs = (h', none) ∧ Appended h h' t srcs news := by
  obtain ⟨h', news, f1, f2, flen, f3, f4, f5, f6, f7, f8⟩ := c09_addRecords_heap t srcs h ht hn hs
  exact ⟨h', news, f1, ⟨f2, flen, fun p hp => ⟨(f3 p hp).1, (f3 p hp).2.1⟩, f4, f5, f6, f7, f8⟩⟩

/-- **`ProvBundle.update(other)`** (other a bundle, or a document without bundles) -/
theorem c09_updateBundle_heap (h : Heap) (t o : Nat) (ht : t < h.conts.size) (hn : AllInv1 h)
    (ho : ((h.cont o).isDoc && !(h.cont o).bundles.isEmpty) = false) (hs : SrcOk h (h.cont o).records) :
    ∃ h' news, h.updateBundle t o = (h', none) ∧ Appended h h' t (h.cont o).records news := by
  unfold updateBundle
  simp only [ho, Bool.false_eq_true, if_false]
  exact appended_of_addRecords h t _ ht hn hs

/-- … and it refuses a document with bundles, changing nothing -/
theorem c09_updateBundle_refuses (h : Heap) (t o : Nat) (ho : ((h.cont o).isDoc && !(h.cont o).bundles.isEmpty) = true) :
    h.updateBundle t o = (h, some errProv) := by
  unfold updateBundle
  simp [ho]

theorem bundlesGet_congr (bs : List (QName × Nat)) {q q' : QName} (hu : q.uri = q'.uri) : bundlesGet bs q = bundlesGet bs q' := by
  unfold bundlesGet
  have : (fun (p : QName × Nat) => p.1.same q) = (fun p => p.1.same q') := by
    funext p; simp [QName.same, hu]
  rw [this]

/-- `ProvDocument.bundle(identifier)` with a qualified name the document does not use yet: succeeds, registers one empty bundle -/
theorem bundle_ok (h : Heap) (d : Nat) (bid : QName) (hd : d < h.conts.size) (hn : AllInv1 h)
    (hfree : bundlesGet (h.cont d).bundles bid = none) :
    ∃ h1 q, h.bundle d (.qn bid) = (h1, .ok h.conts.size) ∧ q.uri = bid.uri ∧
      (h1.cont d).bundles = (h.cont d).bundles ++ [(q, h.conts.size)] ∧ (h1.cont d).records = (h.cont d).records ∧
      (h1.cont h.conts.size).records = [] ∧ (h1.cont h.conts.size).isDoc = false ∧
      (∀ c, c ≠ d → c < h.conts.size → h1.cont c = h.cont c) ∧ h1.recs = h.recs ∧
      h1.conts.size = h.conts.size + 1 ∧ AllInv1 h1 := by
  unfold Heap.bundle
  simp only []
  unfold Heap.validName
  simp only [NsMgr.validName]
  have hu := NsMgr.validQ_uri (hn (h.cont d).mgr) bid
  have hi := NsMgr.validQ_inv1 (hn (h.cont d).mgr) bid
  have hmo : h.mgrOf d = (h.mgrCell (h.cont d).mgr).m := rfl
  rw [hmo]
  generalize (h.mgrCell (h.cont d).mgr).m.validQ bid = vq at hu hi
  obtain ⟨m', q⟩ := vq
  simp only at hu hi ⊢
  have hn1 : AllInv1 (h.setMgr d m') := allInv1_setMgr hn d m' hi
  have hc1 : ∀ c, (h.setMgr d m').cont c = h.cont c := fun c => rfl
  have hfree' : (bundlesGet ((h.setMgr d m').cont d).bundles q).isSome = false := by
    rw [hc1, bundlesGet_congr _ hu, hfree]; rfl
  simp only [hfree', Bool.false_eq_true, if_false]
  obtain ⟨a1, _, a3, _, a5⟩ := allocCont_fresh (h.setMgr d m') false (some q) [] (some d)
  have hn2 := allInv1_allocCont' (h.setMgr d m') hn1 false (some q) [] (some d)
  generalize hal : (h.setMgr d m').allocCont false (some q) [] (some d) = al at a1 a3 a5 hn2
  obtain ⟨h2, nb⟩ := al
  simp only at a1 a3 a5 hn2 ⊢
  have hsz0 : (h.setMgr d m').conts.size = h.conts.size := rfl
  have hsz2 : h2.conts.size = h.conts.size + 1 := by
    have := congrArg (fun p => p.1.conts.size) hal
    simp only [allocCont, allocMgr, Array.size_push] at this
    rw [← this]; rfl
  have hnbk : (h2.cont nb).records = [] ∧ (h2.cont nb).isDoc = false := by
    have := congrArg (fun p => ((p.1.cont p.2).records, (p.1.cont p.2).isDoc)) hal
    simp only at this
    rw [Prod.mk.injEq] at this
    constructor
    · rw [← this.1]; simp [allocCont, allocMgr, cont, Array.getD_eq_getD_getElem?]
    · rw [← this.2]; simp [allocCont, allocMgr, cont, Array.getD_eq_getD_getElem?]
  rw [hsz0] at a1
  subst a1
  have hd2 : d < h2.conts.size := by rw [hsz2]; omega
  have hne : h.conts.size ≠ d := Nat.ne_of_gt hd
  refine ⟨_, q, rfl, hu, ?_, ?_, ?_, ?_, ?_, ?_, ?_, ?_⟩
  · rw [cont_setCont_self h2 d _ hd2, a3 d (by rw [hsz0]; exact hd), hc1]
  · rw [cont_setCont_self h2 d _ hd2, a3 d (by rw [hsz0]; exact hd), hc1]
  · rw [cont_setCont_ne h2 d _ _ hne]; exact hnbk.1
  · rw [cont_setCont_ne h2 d _ _ hne]; exact hnbk.2
  · intro c hcd hc
    rw [cont_setCont_ne h2 d c _ hcd, a3 c (by rw [hsz0]; exact hc), hc1]
  · simp only [setCont, a5]; rfl
  · simp [setCont, hsz2]
  · exact fun i => hn2 i

theorem bundlesGet_mem {bs : List (QName × Nat)} {q : QName} {t : Nat} (h : bundlesGet bs q = some t) : ∃ p ∈ bs, p.2 = t := by
  unfold bundlesGet at h
  cases hf : bs.find? (fun p => p.1.same q) with
  | none => rw [hf] at h; cases h
  | some p =>
    rw [hf] at h
    simp only [Option.map_some, Option.some.injEq] at h
    exact ⟨p, List.mem_of_find?_eq_some hf, h⟩

/-- one step of `ProvDocument.update(other)`: the source bundle `b` is merged into the bundle of document `d` that carries
    its identifier (`hm = h`), or that bundle is created first (`hm` = `h` plus one empty bundle registered under a name with
    the same URI); then `==` copies of all records of `b` are appended to it, and nothing else is written -/
def Step (d : Nat) (h : Heap) (b : Nat) (h' : Heap) : Prop :=
  ∃ bid tb hm news, (h.cont b).id = some bid ∧
    ((bundlesGet (h.cont d).bundles bid = some tb ∧ hm = h) ∨
     (bundlesGet (h.cont d).bundles bid = none ∧ tb = h.conts.size ∧ ∃ q, q.uri = bid.uri ∧
        (hm.cont d).bundles = (h.cont d).bundles ++ [(q, tb)] ∧ (hm.cont d).records = (h.cont d).records ∧
        (hm.cont tb).records = [] ∧ (∀ c, c ≠ d → c < h.conts.size → hm.cont c = h.cont c) ∧ hm.recs = h.recs)) ∧
    Appended hm h' tb (h.cont b).records news

inductive Chain (d : Nat) : Heap → List (QName × Nat) → Heap → Prop
  | nil (h : Heap) : Chain d h [] h
  | cons {h h1 h' : Heap} (q : QName) (b : Nat) (rest : List (QName × Nat)) : Step d h b h1 → Chain d h1 rest h' → Chain d h ((q, b) :: rest) h'

/-- what the loop needs of the heap and of the source bundles still to come -/
structure Pre (d : Nat) (h : Heap) (bs : List (QName × Nat)) : Prop where
  dlt : d < h.conts.size
  inv : AllInv1 h
  table : ∀ p ∈ (h.cont d).bundles, p.2 < h.conts.size ∧ p.2 ≠ d
  src : ∀ p ∈ bs, p.2 < h.conts.size ∧ p.2 ≠ d ∧ (∀ t ∈ (h.cont d).bundles, p.2 ≠ t.2) ∧ (h.cont p.2).id.isSome = true ∧
    ((h.cont p.2).isDoc && !(h.cont p.2).bundles.isEmpty) = false ∧ SrcOk h (h.cont p.2).records

theorem srcOk_frame {h h' : Heap} {rs : List Nat} (hs : SrcOk h rs) (hr : ∀ r, r < h.recs.size → h'.recCell r = h.recCell r)
    (hsz : h.recs.size ≤ h'.recs.size) : SrcOk h' rs :=
  fun r hrm => ⟨Nat.lt_of_lt_of_le (hs r hrm).1 hsz, by rw [hr r (hs r hrm).1]; exact (hs r hrm).2⟩

/-- the remaining sources after a step that appends to `tb`, in a heap `hm` that agrees with `h` on them -/
theorem pre_carry (d : Nat) (h : Heap) (q : QName) (b : Nat) (rest : List (QName × Nat)) (pre : Pre d h ((q, b) :: rest))
    (hm h1 : Heap) (tb : Nat) (news : List Nat) (ap : Appended hm h1 tb (h.cont b).records news)
    (hc : ∀ c, c ≠ d → c < h.conts.size → hm.cont c = h.cont c) (hr : hm.recs = h.recs) (hsz : h.conts.size ≤ hm.conts.size)
    (hnot : ∀ p ∈ rest, p.2 ≠ tb) (htd : tb ≠ d)
    (htab : ∀ p ∈ (hm.cont d).bundles, p.2 < hm.conts.size ∧ p.2 ≠ d) (hdis : ∀ p ∈ rest, ∀ t ∈ (hm.cont d).bundles, p.2 ≠ t.2) :
    Pre d h1 rest := by
  have hrec : ∀ r, hm.recCell r = h.recCell r := fun r => by simp [recCell, hr]
  refine ⟨by rw [ap.csize]; exact Nat.lt_of_lt_of_le pre.dlt hsz, ap.inv, ?_, ?_⟩
  · intro p hp
    rw [ap.conts d (Ne.symm htd)] at hp
    rw [ap.csize]
    exact htab p hp
  · intro p hp
    obtain ⟨a1, a2, _, a4, a5, a6⟩ := pre.src p (List.mem_cons_of_mem _ hp)
    have hpc : h1.cont p.2 = h.cont p.2 := by rw [ap.conts p.2 (hnot p hp), hc p.2 a2 a1]
    refine ⟨by rw [ap.csize]; exact Nat.lt_of_lt_of_le a1 hsz, a2, ?_, by rw [hpc]; exact a4, by rw [hpc]; exact a5, ?_⟩
    · intro t ht
      rw [ap.conts d (Ne.symm htd)] at ht
      exact hdis p hp t ht
    · rw [hpc]
      have h0 : SrcOk hm (h.cont p.2).records :=
        fun r hrm => ⟨by rw [hr]; exact (a6 r hrm).1, by rw [hrec]; exact (a6 r hrm).2⟩
      exact srcOk_frame h0 ap.recs ap.rsize

/-- **the loop of `ProvDocument.update(other)` over other's bundles**: it succeeds, and it is a chain of steps as described -/
theorem updateDoc_go_chain (d : Nat) : ∀ (bs : List (QName × Nat)) (h : Heap), Pre d h bs →
    ∃ h', updateDoc.go d h bs = (h', none) ∧ Chain d h bs h'
  | [], h, _ => ⟨h, rfl, Chain.nil h⟩
  | (q, b) :: rest, h, pre => by
    obtain ⟨hblt, hbd, hbt, hbid, hbdoc, hbsrc⟩ := pre.src (q, b) List.mem_cons_self
    simp only at hblt hbd hbt hbid hbdoc hbsrc
    unfold updateDoc.go
    cases hid : (h.cont b).id with
    | none => rw [hid] at hbid; cases hbid
    | some bid =>
      simp only
      cases hget : bundlesGet (h.cont d).bundles bid with
      | some tb =>
        simp only
        obtain ⟨p, hp, hpt⟩ := bundlesGet_mem hget
        have htb : tb < h.conts.size := by rw [← hpt]; exact (pre.table p hp).1
        have htd : tb ≠ d := by rw [← hpt]; exact (pre.table p hp).2
        obtain ⟨h1, news, e1, ap⟩ := c09_updateBundle_heap h tb b htb pre.inv hbdoc hbsrc
        rw [e1]
        simp only
        have pre1 : Pre d h1 rest := pre_carry d h q b rest pre h h1 tb news ap (fun _ _ _ => rfl) rfl (Nat.le_refl _)
          (fun p' hp' => by rw [← hpt]; exact (pre.src p' (List.mem_cons_of_mem _ hp')).2.2.1 p hp) htd pre.table
          (fun p' hp' => (pre.src p' (List.mem_cons_of_mem _ hp')).2.2.1)
        obtain ⟨h', e2, ch⟩ := updateDoc_go_chain d rest h1 pre1
        exact ⟨h', e2, Chain.cons q b rest ⟨bid, tb, h, news, hid, Or.inl ⟨hget, rfl⟩, ap⟩ ch⟩
      | none =>
        simp only
        obtain ⟨hm, q', e0, hu, b1, b2, b3, b4, b5, b6, b7, b8⟩ := bundle_ok h d bid pre.dlt pre.inv hget
        rw [e0]
        simp only
        have hbm : hm.cont b = h.cont b := b5 b hbd hblt
        have hsrcm : SrcOk hm (hm.cont b).records := by
          rw [hbm]
          exact fun r hrm => ⟨by rw [b6]; exact (hbsrc r hrm).1, by simp only [recCell, b6]; exact (hbsrc r hrm).2⟩
        obtain ⟨h1, news, e1, ap⟩ := c09_updateBundle_heap hm h.conts.size b (by rw [b7]; exact Nat.lt_succ_self _) b8
          (by rw [hbm]; exact hbdoc) hsrcm
        rw [e1]
        simp only
        rw [hbm] at ap
        have htd : h.conts.size ≠ d := Nat.ne_of_gt pre.dlt
        have pre1 : Pre d h1 rest := pre_carry d h q b rest pre hm h1 h.conts.size news ap b5 b6 (by rw [b7]; exact Nat.le_succ _)
          (fun p' hp' => Nat.ne_of_lt (pre.src p' (List.mem_cons_of_mem _ hp')).1) htd
          (fun p hp => by
            rw [b1] at hp
            rcases List.mem_append.mp hp with h2 | h2
            · exact ⟨by rw [b7]; exact Nat.lt_succ_of_lt (pre.table p h2).1, (pre.table p h2).2⟩
            · simp only [List.mem_singleton] at h2; subst h2; exact ⟨by rw [b7]; exact Nat.lt_succ_self _, htd⟩)
          (fun p' hp' t ht => by
            rw [b1] at ht
            rcases List.mem_append.mp ht with h2 | h2
            · exact (pre.src p' (List.mem_cons_of_mem _ hp')).2.2.1 t h2
            · simp only [List.mem_singleton] at h2; subst h2; exact Nat.ne_of_lt (pre.src p' (List.mem_cons_of_mem _ hp')).1)
        obtain ⟨h', e2, ch⟩ := updateDoc_go_chain d rest h1 pre1
        exact ⟨h', e2, Chain.cons q b rest ⟨bid, h.conts.size, hm, news, hid,
          Or.inr ⟨hget, rfl, q', hu, b1, b2, b3, b5, b6⟩, ap⟩ ch⟩

theorem cont_bundles_newRecord (h : Heap) (c c' : Nat) (k : RecKind) (idArg : NameArg) (attrs : List AttrArg) :
    ((h.newRecord c k idArg attrs).1.cont c').bundles = (h.cont c').bundles := by
  by_cases hne : c' = c
  · subst hne
    unfold newRecord
    simp only [validName]
    have hc := conts_mkRecord (h.setMgr c' ((h.mgrOf c').validName (h.parentOf c') idArg).1) c' k
      ((h.mgrOf c').validName (h.parentOf c') idArg).2 attrs
    generalize (h.setMgr c' ((h.mgrOf c').validName (h.parentOf c') idArg).1).mkRecord c' k
      ((h.mgrOf c').validName (h.parentOf c') idArg).2 attrs = res at hc
    obtain ⟨h2, e⟩ := res
    have hcont : h2.cont c' = h.cont c' := by
      simp only at hc
      simp only [cont, hc, conts_setMgr]
    cases e with
    | error err => simp only []; rw [hcont]
    | ok r =>
      simp only []
      by_cases hlt : c' < h2.conts.size
      · simp only [addRecordRaw]
        rw [cont_setCont_self _ _ _ hlt, hcont]
      · have : h2.addRecordRaw c' r = h2 := by
          simp only [addRecordRaw, setCont]
          rw [Array.setIfInBounds_eq_of_size_le (by omega)]
        rw [this, hcont]
  · rw [cont_newRecord_ne h c c' k idArg attrs hne]

theorem cont_bundles_addRecords (t c' : Nat) : ∀ (rs : List Nat) (h : Heap),
    ((h.addRecords t rs).1.cont c').bundles = (h.cont c').bundles
  | [], _ => rfl
  | r :: rest, h => by
    unfold Heap.addRecords
    simp only [Heap.addRecord]
    have s1 := cont_bundles_newRecord h t c' (h.recCell r).r.kind (recreateArgs (h.recCell r).r).1 (recreateArgs (h.recCell r).r).2
    generalize h.newRecord t (h.recCell r).r.kind (recreateArgs (h.recCell r).r).1 (recreateArgs (h.recCell r).r).2 = res at s1
    obtain ⟨h1, e⟩ := res
    cases e with
    | error err => exact s1
    | ok nr => exact (cont_bundles_addRecords t c' rest h1).trans s1

/-- **`ProvDocument.update(other)` on the heap**: given that `other`'s records are stored records and its bundles are proper
    bundles with identifiers, distinct from `d` and from `d`'s bundles, the call succeeds; `d` receives, in order, one `==`
    copy of each top-level record of `other` (`Appended h h1 d …`), and then every bundle of `other` is merged into the
    bundle of `d` with the same identifier URI, or into a bundle created for it, step by step (`Chain`): each step appends
    `==` copies of that bundle's records to exactly one bundle of `d` and writes nothing else — in particular no record that
    existed and no container of `other` -/
theorem c09_updateDoc_heap (h : Heap) (d o : Nat) (hne : o ≠ d) (pre : Pre d h (h.cont o).bundles)
    (hsrc : SrcOk h (h.cont o).records) :
    ∃ h1 h' news, h.updateDoc d o = (h', none) ∧ Appended h h1 d (h.cont o).records news ∧ Chain d h1 (h.cont o).bundles h' := by
  unfold updateDoc
  simp only []
  obtain ⟨h1, news, e1, ap⟩ := appended_of_addRecords h d (h.cont o).records pre.dlt pre.inv hsrc
  have hb1 : (h1.cont d).bundles = (h.cont d).bundles := by
    have := cont_bundles_addRecords d d (h.cont o).records h
    rw [e1] at this
    exact this
  rw [e1]
  simp only
  have pre1 : Pre d h1 (h.cont o).bundles := by
    refine ⟨by rw [ap.csize]; exact pre.dlt, ap.inv, ?_, ?_⟩
    · intro p hp
      rw [hb1] at hp
      rw [ap.csize]
      exact pre.table p hp
    · intro p hp
      obtain ⟨a1, a2, a3, a4, a5, a6⟩ := pre.src p hp
      have hpc : h1.cont p.2 = h.cont p.2 := ap.conts p.2 a2
      exact ⟨by rw [ap.csize]; exact a1, a2, by rw [hb1]; exact a3, by rw [hpc]; exact a4, by rw [hpc]; exact a5,
        by rw [hpc]; exact srcOk_frame a6 ap.recs ap.rsize⟩
  obtain ⟨h', e2, ch⟩ := updateDoc_go_chain d (h.cont o).bundles h1 pre1
  exact ⟨h1, h', news, e2, ap, ch⟩

/-! ### non-vacuity: two documents, each with a bundle `ex:b`; the second also has `ex:c`; `d0.update(d2)` -/

open Prov.C05 in
def opsU : List HOp :=
  [.newDoc [⟨"ex", "http://example.org/"⟩],                                   -- container 0
   .bundle 0 (.str "ex:b"),                                                   -- container 1
   .newRecord 0 .entity (.str "ex:e") [⟨.str "ex:p", .val (.int 1), none⟩],
   .newRecord 1 .entity (.str "ex:in-b") [],
   .newDoc [⟨"ex", "http://example.org/"⟩],                                   -- container 2
   .bundle 2 (.str "ex:b"),                                                   -- container 3
   .bundle 2 (.str "ex:c"),                                                   -- container 4
   .newRecord 2 .agent (.str "ex:ag") [],
   .newRecord 3 .entity (.str "ex:other-in-b") [⟨.str "ex:q", .val (.str "x"), none⟩],
   .newRecord 4 .activity (.str "ex:act") []]

open Prov.C05 in
theorem opsU_ok : ∀ op ∈ opsU, op.ok ∧ op.argsOk := by
  intro op hop
  simp only [opsU, List.mem_cons, List.mem_nil_iff, or_false] at hop
  have argok1 : ∀ a ∈ [(⟨.str "ex:p", .val (.int 1), none⟩ : AttrArg)], ArgOk a := fun a ha => by
    simp only [List.mem_singleton] at ha; subst ha
    exact ⟨fun v hv => by cases hv; trivial, fun f hf => by cases hf⟩
  have argok2 : ∀ a ∈ [(⟨.str "ex:q", .val (.str "x"), none⟩ : AttrArg)], ArgOk a := fun a ha => by
    simp only [List.mem_singleton] at ha; subst ha
    exact ⟨fun v hv => by cases hv; trivial, fun f hf => by cases hf⟩
  rcases hop with rfl | rfl | rfl | rfl | rfl | rfl | rfl | rfl | rfl | rfl
  all_goals first
    | exact ⟨trivial, trivial⟩
    | exact ⟨(by show isCollectionCall _ = false; decide), argok1⟩
    | exact ⟨(by show isCollectionCall _ = false; decide), argok2⟩
    | exact ⟨(by show isCollectionCall _ = false; decide), fun a ha => by cases ha⟩

open Prov.C05 in
example : let h := opsU.foldl hstep Heap.empty
    ∃ h1 h' news, h.updateDoc 0 2 = (h', none) ∧ Appended h h1 0 (h.cont 2).records news ∧ Chain 0 h1 (h.cont 2).bundles h' := by
  intro h
  obtain ⟨hn, hall⟩ := c09_reachable_wf opsU opsU_ok
  have hb : (h.cont 2).bundles.map (·.2) = [3, 4] := by decide +kernel
  refine c09_updateDoc_heap h 0 2 (by decide) ⟨by decide +kernel, hn, ?_, ?_⟩ (fun r hr => hall 2 r hr)
  · have : (h.cont 0).bundles.map (·.2) = [1] := by decide +kernel
    intro p hp
    have hm : p.2 ∈ (h.cont 0).bundles.map (·.2) := List.mem_map_of_mem hp
    rw [this] at hm
    simp only [List.mem_singleton] at hm
    rw [hm]
    exact ⟨by decide +kernel, by decide⟩
  · intro p hp
    have hm : p.2 ∈ (h.cont 2).bundles.map (·.2) := List.mem_map_of_mem hp
    rw [hb] at hm
    have h0 : (h.cont 0).bundles.map (·.2) = [1] := by decide +kernel
    have hdis : ∀ t ∈ (h.cont 0).bundles, p.2 ≠ t.2 := by
      intro t ht
      have : t.2 ∈ (h.cont 0).bundles.map (·.2) := List.mem_map_of_mem ht
      rw [h0] at this
      simp only [List.mem_singleton] at this
      rw [this]
      simp only [List.mem_cons, List.mem_nil_iff, or_false] at hm
      rcases hm with e | e <;> rw [e] <;> decide
    simp only [List.mem_cons, List.mem_nil_iff, or_false] at hm
    rcases hm with e | e <;> rw [e] at hdis ⊢
    · exact ⟨by decide +kernel, by decide, hdis, by decide +kernel, by decide +kernel, fun r hr => hall 3 r hr⟩
    · exact ⟨by decide +kernel, by decide, hdis, by decide +kernel, by decide +kernel, fun r hr => hall 4 r hr⟩

end Prov.C09

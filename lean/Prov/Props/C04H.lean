/-
  C04, "for records agrees with hash": whenever `ProvRecord.__eq__` answers True, the three arguments of
  `ProvRecord.__hash__` — type, identifier, `frozenset(attributes)` — are the same as far as `hash` can see, value by value
  (numbers by exact rational value, datetimes by their position on the time line, names by URI).
  Assumption A-SET (DESIGN): `hash` of a tuple / frozenset is a function of the hashes of its members (as a set).
-/
import Prov.Props.C04B

namespace Prov.C04
open Prov

/-- values that are `==` for Python (same `set` member) have one hash key -/
theorem keyEq_hkey {a b : Value} (ha : valOk a) (hb : valOk b) (h : a.keyEq b = true) : a.hkey = b.hkey := by
  cases a <;> cases b <;> simp_all [Value.keyEq, Value.num?, Value.hkey, valOk]
  -- numbers: cross-multiplication is equality of the rational value
  all_goals first
    | (rw [Rat.mkRat_eq_iff (by omega) (by omega)]; first | (simp; omega) | (simp at h ⊢; omega) | (split <;> split <;> simp_all))
    | (rename_i f g; rw [Rat.mkRat_eq_iff ha hb]; exact h)
    | (rename_i f; rw [Rat.mkRat_eq_iff (by first | exact ha | exact hb | omega) (by first | exact ha | exact hb | omega)]; simp_all)
    | (rename_i t1 t2; unfold DateTime.keyEq at h
       cases h1 : t1.tz <;> cases h2 : t2.tz <;> simp_all)
    | (rename_i v1 ty1 l1 v2 ty2 l2; obtain ⟨_, h3⟩ := h
       cases ty1 <;> cases ty2 <;> simp_all)

theorem pairEq_hkey {x y : QName × Value} (hx : valOk x.2) (hy : valOk y.2) (h : pairEq x y = true) :
    (x.1.uri, x.2.hkey) = (y.1.uri, y.2.hkey) := by
  simp only [pairEq, Bool.and_eq_true, QName.same, beq_iff_eq] at h
  rw [h.1, keyEq_hkey hx hy h.2]

theorem hkeys_sub {xs ys : List (QName × Value)} (hx : ∀ p ∈ xs, valOk p.2) (hy : ∀ p ∈ ys, valOk p.2)
    (h : xs.all (fun x => ys.any (pairEq x)) = true) :
    (xs.map (fun p => (p.1.uri, p.2.hkey))).all (fun k => (ys.map (fun p => (p.1.uri, p.2.hkey))).contains k) = true := by
  simp only [List.all_eq_true, List.any_eq_true, List.mem_map, List.contains_iff_mem] at h ⊢
  rintro k ⟨x, hxm, rfl⟩
  obtain ⟨y, hym, hxy⟩ := h x hxm
  exact ⟨y, hym, (pairEq_hkey (hx x hxm) (hy y hym) hxy).symm⟩

/-- **`a == b` implies `hash(a) == hash(b)`** for records: equal kind, identifiers with one URI (or both absent), and the
    two attribute sets have the same members as `hash` sees them -/
theorem c04_eq_hash {a b : Record} (ha : RecOk a) (hb : RecOk b) (h : recEq a b = true) : recHashSame a b = true := by
  simp only [recEq, Bool.and_eq_true, flatSetEq] at h
  obtain ⟨⟨hk, hid⟩, h1, h2⟩ := h
  simp only [recHashSame, Bool.and_eq_true, Record.hkeys]
  refine ⟨⟨⟨hk, ?_⟩, hkeys_sub ha hb h1⟩, hkeys_sub hb ha h2⟩
  cases hai : a.id <;> cases hbi : b.id <;> simp_all [optSame, QName.same]

/-- hash keys do not make `hash` finer than `==` needs: the converse fails only where Python's own hashes coincide by
    design (`hash(QualifiedName) = hash(uri string)`), e.g. a name and the string spelling its URI -/
example : (Value.qn ⟨⟨"ex", "http://e/"⟩, "a"⟩).hkey = (Value.str "http://e/a").hkey ∧
    (Value.qn ⟨⟨"ex", "http://e/"⟩, "a"⟩).keyEq (Value.str "http://e/a") = false := by decide

/-- non-vacuity: two differently spelled, differently ordered records that are `==`, meet the premise and hash alike -/
def rA : Record := ⟨.entity, some ⟨⟨"ex", "http://e/"⟩, "a"⟩, [(⟨⟨"p", "http://p/"⟩, "x"⟩, [.int 1, .str "s"])]⟩
def rB : Record := ⟨.entity, some ⟨⟨"other", "http://e/"⟩, "a"⟩, [(⟨⟨"q", "http://p/"⟩, "x"⟩, [.str "s", .bool true])]⟩
example : RecOk rA ∧ RecOk rB ∧ recEq rA rB = true := by
  refine ⟨?_, ?_, by decide⟩ <;>
  · intro p hp
    have : p.2 = .int 1 ∨ p.2 = .str "s" ∨ p.2 = .bool true := by
      simp [rA, rB, Record.flat] at hp; rcases hp with rfl | rfl <;> simp
    rcases this with h | h | h <;> rw [h] <;> trivial

end Prov.C04

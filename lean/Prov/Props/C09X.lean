/-
  C09, refused calls: `ProvBundle.update(other)` refuses a document with bundles before anything is touched.
  (`add_bundle`'s refusals are `c09_addBundle_error_frame`, `Props/C09F`.)
-/
import Prov.Heap

namespace Prov.C09
open Prov Prov.Heap

/-- **C09**: `bundle.update(document with bundles)` is refused before anything is touched: the heap is the same -/
theorem c09_refused_updateBundle (h : Heap) (c o : Nat) (hd : (h.cont o).isDoc = true) (hb : (h.cont o).bundles ≠ []) :
    h.updateBundle c o = (h, some errProv) := by
  unfold updateBundle
  have : (h.cont o).bundles.isEmpty = false := by
    cases hbs : (h.cont o).bundles with
    | nil => exact absurd hbs hb
    | cons _ _ => rfl
  simp [hd, this]

end Prov.C09

/-
  C09, refused calls: `ProvBundle.update(other)` refuses a document with bundles before anything is touched.
  (`add_bundle`'s refusals are `c09_addBundle_error_frame`, `Props/C09F`.)
-/
import Prov.Heap

namespace Prov.C09
open Prov Prov.Heap

/-- **C09**: `bundle.update(document with bundles)` is refused before anything is touched: the heap is the same -/
theorem c09_refused_updateBundle (h : Heap) (c o : Nat) (hd : (h.cont o).isDoc = true) (hb : (h.cont o).bundles ≠ []) :
    h.updateBundle c o = (h, some errProv) := by
  unfold updateBundle
  have : (h.cont o).bundles.isEmpty = false := by
    cases hbs : (h.cont o).bundles with
    | nil => exact absurd hbs hb
    | cons _ _ => rfl
  simp [hd, this]

end Prov.C09

namespace Prov.C09
open Prov Prov.Heap

/-- `flattened()` of a document that has no bundles is the document itself: nothing is allocated, nothing copied -/
theorem c09_flattened_without_bundles (h : Heap) (d : Nat) (hb : (h.cont d).bundles = []) :
    h.flattened d = (h, .ok d) := by
  unfold flattened
  simp [hb]

/-- `update` on a bundle (not a document) is `ProvBundle.update`; on a document it is `ProvDocument.update` -/
theorem c09_update_dispatch (h : Heap) (c o : Nat) :
    h.update c o = (if (h.cont c).isDoc then h.updateDoc c o else h.updateBundle c o) := rfl

end Prov.C09

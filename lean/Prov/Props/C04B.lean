/-
  C04, part 2: `==` on records is transitive (hence an equivalence), and `ProvBundle.__eq__` — set construction,
  length test, greedy removal loop, exactly as coded — holds iff the two record lists have the same content up to
  record equality. For all record lists (floats with the non-zero denominator `as_integer_ratio` always gives).
-/
import Prov.Props.C04

namespace Prov.C04
open Prov

theorem frac_trans (n1 n2 n3 : Int) (d1 d2 d3 : Nat) (h2 : d2 ≠ 0)
    (e1 : n1 * d2 = n2 * d1) (e2 : n2 * d3 = n3 * d2) : n1 * d3 = n3 * d1 := by
  have hd : (d2 : Int) ≠ 0 := by exact_mod_cast h2
  have : n1 * d3 * d2 = n3 * d1 * d2 := by
    calc n1 * d3 * d2 = n1 * d2 * d3 := Int.mul_right_comm _ _ _
      _ = n2 * d1 * d3 := by rw [e1]
      _ = n2 * d3 * d1 := Int.mul_right_comm _ _ _
      _ = n3 * d2 * d1 := by rw [e2]
      _ = n3 * d1 * d2 := Int.mul_right_comm _ _ _
  exact Int.eq_of_mul_eq_mul_right hd this

theorem keyEq_of_num {a b : Value} {n n' : Int} {d d' : Nat} (ha : a.num? = some (n, d)) (hb : b.num? = some (n', d')) :
    a.keyEq b = (n * d' == n' * d) := by
  cases a <;> cases b <;> simp_all [Value.keyEq, Value.num?]

theorem num_of_keyEq_left {a b : Value} (hb : b.num?.isSome = true) (h : a.keyEq b = true) : a.num?.isSome = true := by
  cases a <;> cases b <;> simp_all [Value.keyEq, Value.num?]

theorem num_of_keyEq_right {a b : Value} (ha : a.num?.isSome = true) (h : a.keyEq b = true) : b.num?.isSome = true := by
  cases a <;> cases b <;> simp_all [Value.keyEq, Value.num?]

theorem den_ne_zero {b : Value} {n : Int} {d : Nat} (hb : valOk b) (h : b.num? = some (n, d)) : d ≠ 0 := by
  cases b <;> simp_all [Value.num?, valOk]
  all_goals omega

theorem keyEq_trans {a b c : Value} (hb : valOk b) (h1 : a.keyEq b = true) (h2 : b.keyEq c = true) : a.keyEq c = true := by
  by_cases hbn : b.num?.isSome = true
  · have han := num_of_keyEq_left hbn h1
    have hcn := num_of_keyEq_right hbn h2
    obtain ⟨⟨n1, d1⟩, ha⟩ := Option.isSome_iff_exists.mp han
    obtain ⟨⟨n2, d2⟩, hb'⟩ := Option.isSome_iff_exists.mp hbn
    obtain ⟨⟨n3, d3⟩, hc⟩ := Option.isSome_iff_exists.mp hcn
    rw [keyEq_of_num ha hb'] at h1
    rw [keyEq_of_num hb' hc] at h2
    rw [keyEq_of_num ha hc]
    simp only [beq_iff_eq] at *
    exact frac_trans n1 n2 n3 d1 d2 d3 (den_ne_zero hb hb') h1 h2
  · cases b with
    | str s => cases a <;> cases c <;> simp_all [Value.keyEq, Value.num?]
    | uri s => cases a <;> cases c <;> simp_all [Value.keyEq, Value.num?]
    | qn s => cases a <;> cases c <;> simp_all [Value.keyEq, Value.num?]
    | dt s =>
      cases a <;> cases c <;> simp_all [Value.keyEq, Value.num?]
      exact dt_keyEq_trans h1 h2
    | lit v ty l =>
      cases a with
      | lit v1 ty1 l1 =>
        cases c with
        | lit v3 ty3 l3 =>
          simp only [Value.keyEq, Bool.and_eq_true, beq_iff_eq] at h1 h2 ⊢
          obtain ⟨⟨e1, e2⟩, e3⟩ := h1
          obtain ⟨⟨f1, f2⟩, f3⟩ := h2
          refine ⟨⟨e1.trans f1, e2.trans f2⟩, ?_⟩
          cases ty1 <;> cases ty <;> cases ty3 <;> simp_all
        | _ => simp [Value.keyEq, Value.num?] at h2
      | _ => simp [Value.keyEq, Value.num?] at h1
    | int n => simp [Value.num?] at hbn
    | bool n => simp [Value.num?] at hbn
    | float n => simp [Value.num?] at hbn

/-! ### records: transitivity -/

def RecOk (r : Record) : Prop := ∀ p ∈ r.flat, valOk p.2

theorem pairEq_trans {a b c : QName × Value} (hb : valOk b.2) (h1 : pairEq a b = true) (h2 : pairEq b c = true) :
    pairEq a c = true := by
  simp only [pairEq, Bool.and_eq_true] at *
  exact ⟨same_trans h1.1 h2.1, keyEq_trans hb h1.2 h2.2⟩

theorem flatSetEq_trans {xs ys zs : List (QName × Value)} (hy : ∀ p ∈ ys, valOk p.2)
    (h1 : flatSetEq xs ys = true) (h2 : flatSetEq ys zs = true) : flatSetEq xs zs = true := by
  simp only [flatSetEq, Bool.and_eq_true, List.all_eq_true, List.any_eq_true] at *
  constructor
  · intro x hx
    obtain ⟨y, hy', hxy⟩ := h1.1 x hx
    obtain ⟨z, hz, hyz⟩ := h2.1 y hy'
    exact ⟨z, hz, pairEq_trans (hy y hy') hxy hyz⟩
  · intro z hz
    obtain ⟨y, hy', hzy⟩ := h2.2 z hz
    obtain ⟨x, hx, hyx⟩ := h1.2 y hy'
    exact ⟨x, hx, pairEq_trans (hy y hy') hzy hyx⟩

theorem optSame_trans {a b c : Option QName} (h1 : optSame a b = true) (h2 : optSame b c = true) : optSame a c = true := by
  cases a <;> cases b <;> cases c <;> simp_all [optSame]
  exact same_trans h1 h2

/-- **C04** (records): `==` is transitive -/
theorem c04_recEq_trans {a b c : Record} (hb : RecOk b) (h1 : recEq a b = true) (h2 : recEq b c = true) :
    recEq a c = true := by
  simp only [recEq, Bool.and_eq_true, beq_iff_eq] at *
  exact ⟨⟨h1.1.1.trans h2.1.1, optSame_trans h1.1.2 h2.1.2⟩, flatSetEq_trans hb h1.2 h2.2⟩

/-! ### the greedy removal loop -/

/-- every record of the first list has an equal one in the second -/
def Cover (xs ys : List Record) : Prop := ∀ x ∈ xs, ∃ y ∈ ys, recEq x y = true

def Distinct (l : List Record) : Prop := l.Pairwise (fun a b => recEq a b = false)

theorem removeFirst_none {a : Record} {ys : List Record} (h : removeFirst a ys = none) : ∀ y ∈ ys, recEq a y = false := by
  induction ys with
  | nil => intro y hy; cases hy
  | cons b rest ih =>
    unfold removeFirst at h
    by_cases hab : recEq a b = true
    · simp [hab] at h
    · simp only [hab, Bool.false_eq_true, if_false] at h
      cases hr : removeFirst a rest with
      | some r => simp [hr] at h
      | none =>
        intro y hy
        rcases List.mem_cons.mp hy with rfl | hy'
        · simpa using hab
        · exact ih hr y hy'

theorem removeFirst_some {a : Record} {ys ys' : List Record} (h : removeFirst a ys = some ys') :
    ys'.length + 1 = ys.length ∧ (∃ y ∈ ys, recEq a y = true) ∧
    (∀ z ∈ ys, recEq a z = false → z ∈ ys') ∧ (∀ z ∈ ys', z ∈ ys) ∧ (∀ z ∈ ys, z ∈ ys' ∨ recEq a z = true) := by
  induction ys generalizing ys' with
  | nil => simp [removeFirst] at h
  | cons b rest ih =>
    unfold removeFirst at h
    by_cases hab : recEq a b = true
    · simp only [hab, if_true, Option.some.injEq] at h
      subst h
      refine ⟨rfl, ⟨b, List.mem_cons_self, hab⟩, ?_, ?_, ?_⟩
      · intro z hz hf
        rcases List.mem_cons.mp hz with rfl | hz'
        · rw [hab] at hf; cases hf
        · exact hz'
      · intro z hz; exact List.mem_cons_of_mem _ hz
      · intro z hz
        rcases List.mem_cons.mp hz with rfl | hz'
        · exact Or.inr hab
        · exact Or.inl hz'
    · simp only [hab, Bool.false_eq_true, if_false] at h
      cases hr : removeFirst a rest with
      | none => simp [hr] at h
      | some r =>
        simp only [hr, Option.some.injEq] at h
        subst h
        obtain ⟨hl, ⟨y, hy, hay⟩, hs, hsub, hor⟩ := ih hr
        refine ⟨by simp [← hl], ⟨y, List.mem_cons_of_mem _ hy, hay⟩, ?_, ?_, ?_⟩
        · intro z hz hf
          rcases List.mem_cons.mp hz with rfl | hz'
          · exact List.mem_cons_self
          · exact List.mem_cons_of_mem _ (hs z hz' hf)
        · intro z hz
          rcases List.mem_cons.mp hz with rfl | hz'
          · exact List.mem_cons_self
          · exact List.mem_cons_of_mem _ (hsub z hz')
        · intro z hz
          rcases List.mem_cons.mp hz with rfl | hz'
          · exact Or.inl List.mem_cons_self
          · rcases hor z hz' with h' | h'
            · exact Or.inl (List.mem_cons_of_mem _ h')
            · exact Or.inr h'

theorem greedy_cover {as ys : List Record} (h : greedyMatch as ys = true) : Cover as ys := by
  induction as generalizing ys with
  | nil => intro x hx; cases hx
  | cons a rest ih =>
    unfold greedyMatch at h
    cases hr : removeFirst a ys with
    | none => simp [hr] at h
    | some ys' =>
      simp only [hr] at h
      obtain ⟨_, hex, _, hsub, _⟩ := removeFirst_some hr
      intro x hx
      rcases List.mem_cons.mp hx with rfl | hx'
      · exact hex
      · obtain ⟨y, hy, hxy⟩ := ih h x hx'
        exact ⟨y, hsub y hy, hxy⟩

theorem greedy_length {as ys : List Record} (h : greedyMatch as ys = true) : as.length ≤ ys.length := by
  induction as generalizing ys with
  | nil => simp
  | cons a rest ih =>
    unfold greedyMatch at h
    cases hr : removeFirst a ys with
    | none => simp [hr] at h
    | some ys' =>
      simp only [hr] at h
      have := ih h
      have hl := (removeFirst_some hr).1
      simp only [List.length_cons]
      omega

theorem greedy_cover_back {as ys : List Record} (h : greedyMatch as ys = true) (hl : as.length = ys.length) :
    ∀ y ∈ ys, ∃ a ∈ as, recEq a y = true := by
  induction as generalizing ys with
  | nil =>
    intro y hy
    have : ys = [] := List.eq_nil_of_length_eq_zero (by simpa using hl.symm)
    rw [this] at hy; cases hy
  | cons a rest ih =>
    unfold greedyMatch at h
    cases hr : removeFirst a ys with
    | none => simp [hr] at h
    | some ys' =>
      simp only [hr] at h
      obtain ⟨hlen, _, _, _, hor⟩ := removeFirst_some hr
      have hl' : rest.length = ys'.length := by simp only [List.length_cons] at hl; omega
      intro y hy
      rcases hor y hy with hy' | hay
      · obtain ⟨x, hx, hxy⟩ := ih h hl' y hy'
        exact ⟨x, List.mem_cons_of_mem _ hx, hxy⟩
      · exact ⟨a, List.mem_cons_self, hay⟩

theorem greedy_of_cover {as ys : List Record} (hd : Distinct as) (hc : Cover as ys)
    (hok : ∀ y ∈ ys, RecOk y) : greedyMatch as ys = true := by
  induction as generalizing ys with
  | nil => rfl
  | cons a rest ih =>
    unfold greedyMatch
    obtain ⟨y0, hy0, hay0⟩ := hc a List.mem_cons_self
    cases hr : removeFirst a ys with
    | none => have := removeFirst_none hr y0 hy0; rw [hay0] at this; cases this
    | some ys' =>
      simp only []
      obtain ⟨_, _, hsurv, hsub, _⟩ := removeFirst_some hr
      have hd' := List.pairwise_cons.mp hd
      apply ih hd'.2
      · intro x hx
        obtain ⟨y, hy, hxy⟩ := hc x (List.mem_cons_of_mem _ hx)
        refine ⟨y, hsurv y hy ?_, hxy⟩
        -- were `a == y`, then `a == x` by symmetry and transitivity through `y`, but the list is duplicate-free
        cases hay : recEq a y with
        | false => rfl
        | true =>
          have hax : recEq a x = true := c04_recEq_trans (hok y hy) hay (c04_recEq_symm hxy)
          rw [hd'.1 x hx] at hax; cases hax
      · intro y hy; exact hok y (hsub y hy)

/-! ### `set(records)` -/

def ddStep (acc : List Record) (r : Record) : List Record := if acc.any (fun x => recEq x r) then acc else acc ++ [r]

theorem dedupRecs_eq (rs : List Record) : dedupRecs rs = rs.foldl ddStep [] := rfl

theorem dd_spec (rs acc : List Record) (hacc : Distinct acc) :
    Distinct (rs.foldl ddStep acc) ∧
    (∀ x ∈ rs.foldl ddStep acc, x ∈ acc ∨ x ∈ rs) ∧
    (∀ z ∈ acc, z ∈ rs.foldl ddStep acc) ∧
    (∀ x ∈ rs, ∃ x' ∈ rs.foldl ddStep acc, recEq x' x = true) := by
  induction rs generalizing acc with
  | nil => exact ⟨hacc, fun x hx => Or.inl hx, fun z hz => hz, fun x hx => by cases hx⟩
  | cons r rest ih =>
    simp only [List.foldl_cons]
    have hstep : Distinct (ddStep acc r) := by
      unfold ddStep
      split
      · exact hacc
      · next hany =>
        unfold Distinct
        rw [List.pairwise_append]
        refine ⟨hacc, by simp, ?_⟩
        intro a ha b hb
        simp only [List.mem_singleton] at hb
        subst hb
        simp only [List.any_eq_true, not_exists, not_and, Bool.not_eq_true] at hany
        exact hany a ha
    have hin : ∀ z ∈ acc, z ∈ ddStep acc r := by
      intro z hz; unfold ddStep; split
      · exact hz
      · exact List.mem_append_left _ hz
    obtain ⟨h1, h2, h3, h4⟩ := ih (ddStep acc r) hstep
    refine ⟨h1, ?_, fun z hz => h3 z (hin z hz), ?_⟩
    · intro x hx
      rcases h2 x hx with h | h
      · unfold ddStep at h
        split at h
        · exact Or.inl h
        · rcases List.mem_append.mp h with h' | h'
          · exact Or.inl h'
          · simp only [List.mem_singleton] at h'; subst h'; exact Or.inr List.mem_cons_self
      · exact Or.inr (List.mem_cons_of_mem _ h)
    · intro x hx
      rcases List.mem_cons.mp hx with rfl | hx'
      · by_cases hany : acc.any (fun z => recEq z x) = true
        · obtain ⟨z, hz, hzx⟩ := List.any_eq_true.mp hany
          exact ⟨z, h3 z (hin z hz), hzx⟩
        · have : x ∈ ddStep acc x := by
            unfold ddStep; rw [if_neg hany]; simp
          exact ⟨x, h3 x this, recEq_refl x⟩
      · exact h4 x hx'

theorem dedup_distinct (rs : List Record) : Distinct (dedupRecs rs) :=
  (dd_spec rs [] List.Pairwise.nil).1

theorem dedup_sub (rs : List Record) : ∀ x ∈ dedupRecs rs, x ∈ rs := by
  intro x hx
  rcases (dd_spec rs [] List.Pairwise.nil).2.1 x hx with h | h
  · cases h
  · exact h

theorem dedup_cover (rs : List Record) : ∀ x ∈ rs, ∃ x' ∈ dedupRecs rs, recEq x' x = true :=
  (dd_spec rs [] List.Pairwise.nil).2.2.2

/-! ### `ProvBundle.__eq__` = same content -/

/-- **C04** (bundles): the set construction, the length test and the greedy loop together decide exactly whether
    each list has, for every record, an equal record in the other -/
theorem c04_recordsEq_iff (xs ys : List Record) (hx : ∀ r ∈ xs, RecOk r) (hy : ∀ r ∈ ys, RecOk r) :
    recordsEq xs ys = true ↔ Cover xs ys ∧ Cover ys xs := by
  unfold recordsEq
  simp only [Bool.and_eq_true, beq_iff_eq]
  constructor
  · rintro ⟨hlen, hg⟩
    have c1 := greedy_cover hg
    have c2 := greedy_cover_back hg hlen
    constructor
    · intro x hxm
      obtain ⟨x', hx', hx'x⟩ := dedup_cover xs x hxm
      obtain ⟨y, hym, hx'y⟩ := c1 x' hx'
      exact ⟨y, dedup_sub ys y hym, c04_recEq_trans (hx x' (dedup_sub xs x' hx')) (c04_recEq_symm hx'x) hx'y⟩
    · intro y hym
      obtain ⟨y', hy', hy'y⟩ := dedup_cover ys y hym
      obtain ⟨x, hxm, hxy'⟩ := c2 y' hy'
      exact ⟨x, dedup_sub xs x hxm, c04_recEq_trans (hy y' (dedup_sub ys y' hy')) (c04_recEq_symm hy'y) (c04_recEq_symm hxy')⟩
  · rintro ⟨cxy, cyx⟩
    have cXY : Cover (dedupRecs xs) (dedupRecs ys) := by
      intro x hxm
      obtain ⟨y, hym, hxy⟩ := cxy x (dedup_sub xs x hxm)
      obtain ⟨y', hy', hy'y⟩ := dedup_cover ys y hym
      exact ⟨y', hy', c04_recEq_trans (hy y hym) hxy (c04_recEq_symm hy'y)⟩
    have cYX : Cover (dedupRecs ys) (dedupRecs xs) := by
      intro y hym
      obtain ⟨x, hxm, hyx⟩ := cyx y (dedup_sub ys y hym)
      obtain ⟨x', hx', hx'x⟩ := dedup_cover xs x hxm
      exact ⟨x', hx', c04_recEq_trans (hx x hxm) hyx (c04_recEq_symm hx'x)⟩
    have g1 := greedy_of_cover (dedup_distinct xs) cXY (fun y hym => hy y (dedup_sub ys y hym))
    have g2 := greedy_of_cover (dedup_distinct ys) cYX (fun x hxm => hx x (dedup_sub xs x hxm))
    exact ⟨Nat.le_antisymm (greedy_length g1) (greedy_length g2), g1⟩

theorem cover_refl (xs : List Record) : Cover xs xs := fun x hx => ⟨x, hx, recEq_refl x⟩

theorem cover_trans {xs ys zs : List Record} (hy : ∀ r ∈ ys, RecOk r) (h1 : Cover xs ys) (h2 : Cover ys zs) : Cover xs zs := by
  intro x hx
  obtain ⟨y, hym, hxy⟩ := h1 x hx
  obtain ⟨z, hz, hyz⟩ := h2 y hym
  exact ⟨z, hz, c04_recEq_trans (hy y hym) hxy hyz⟩

/-- **C04** (bundles): `==` is reflexive, symmetric and transitive on record lists -/
theorem c04_recordsEq_refl (xs : List Record) (hx : ∀ r ∈ xs, RecOk r) : recordsEq xs xs = true :=
  (c04_recordsEq_iff xs xs hx hx).mpr ⟨cover_refl xs, cover_refl xs⟩

theorem c04_recordsEq_symm (xs ys : List Record) (hx : ∀ r ∈ xs, RecOk r) (hy : ∀ r ∈ ys, RecOk r)
    (h : recordsEq xs ys = true) : recordsEq ys xs = true := by
  obtain ⟨h1, h2⟩ := (c04_recordsEq_iff xs ys hx hy).mp h
  exact (c04_recordsEq_iff ys xs hy hx).mpr ⟨h2, h1⟩

theorem c04_recordsEq_trans (xs ys zs : List Record) (hx : ∀ r ∈ xs, RecOk r) (hy : ∀ r ∈ ys, RecOk r)
    (hz : ∀ r ∈ zs, RecOk r) (h1 : recordsEq xs ys = true) (h2 : recordsEq ys zs = true) : recordsEq xs zs = true := by
  obtain ⟨a1, a2⟩ := (c04_recordsEq_iff xs ys hx hy).mp h1
  obtain ⟨b1, b2⟩ := (c04_recordsEq_iff ys zs hy hz).mp h2
  exact (c04_recordsEq_iff xs zs hx hz).mpr ⟨cover_trans hy a1 b1, cover_trans hy b2 a2⟩

/-- order and repetition do not matter: a list equals any list with the same members -/
theorem c04_recordsEq_of_same_members (xs ys : List Record) (hx : ∀ r ∈ xs, RecOk r) (hy : ∀ r ∈ ys, RecOk r)
    (h : ∀ r, r ∈ xs ↔ r ∈ ys) : recordsEq xs ys = true :=
  (c04_recordsEq_iff xs ys hx hy).mpr
    ⟨fun x hxm => ⟨x, (h x).mp hxm, recEq_refl x⟩, fun y hym => ⟨y, (h y).mpr hym, recEq_refl y⟩⟩

/-! ### non-vacuity -/

def exE (l : String) (v : Value) : Record := ⟨.entity, some ⟨⟨"ex", "http://example.org/"⟩, l⟩, [(⟨⟨"ex", "http://example.org/"⟩, "p"⟩, [v])]⟩

example : RecOk (exE "e1" (.int 1)) := by
  intro p hp
  simp [exE, Record.flat] at hp
  subst hp
  trivial

/-- `1`, `True` and `1.0` are one value inside a set; order and repetition do not matter -/
example : recordsEq [exE "e1" (.int 1), exE "e2" (.str "x"), exE "e1" (.bool true)] [exE "e2" (.str "x"), exE "e1" (.int 1)] = true := by
  decide +kernel

end Prov.C04

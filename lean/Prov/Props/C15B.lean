/-
  C15, relations: "every relation with two endpoints is drawn as one edge path whose ends carry the right URIs in the right
  direction (through one blank node when it is n-ary or annotated)".

  Invariant of the drawing state: the node map sends a URI to the name of a node that exists and carries that URI as its URL
  (`MapOkD`); it is kept by every step (`getNode`, `addElemNode`, `addRelation`). On such a state:

  * `c15_binary_relation_one_edge` — a relation whose first two reference arguments are names, drawn plainly, adds exactly one
    edge, labelled with the relation, from a node carrying the first argument's URI to a node carrying the second's;
  * `c15_relation_through_blank_node` — drawn through a blank node (n-ary or annotated), the first two edges it adds are
    first-argument → blank (labelled, no arrow head) and blank → second-argument, the blank node is new, and the ends carry
    the two URIs.
-/
import Prov.Props.C15

namespace Prov.C15
open Prov

/-- the node map points at existing nodes that carry the mapped URI -/
def MapOkD (st : DState) : Prop :=
  ∀ u n, uriMapGet st.nodeMap u = some n → ∃ nd ∈ st.nodes, nd.name = n ∧ nd.url = some (dotParsed u)

theorem uriMapGet_set_ne (m : List (String × String)) (k k' v : String) (hne : k' ≠ k) :
    uriMapGet (uriMapSet m k v) k' = uriMapGet m k' := by
  induction m with
  | nil =>
    have : (k == k') = false := by simp [Ne.symm hne]
    simp [uriMapSet, uriMapGet, this]
  | cons hd tl ih =>
    obtain ⟨a, b⟩ := hd
    by_cases hk : (a == k) = true
    · have hak : a = k := by simpa using hk
      have : (k == k') = false := by simp [Ne.symm hne]
      have : (a == k') = false := by rw [hak]; exact this
      simp [uriMapSet, hk, uriMapGet, List.find?_cons, this, ‹(k == k') = false›]
    · have hk' : (a == k) = false := by simpa using hk
      simp only [uriMapSet, hk', Bool.false_eq_true, if_false, uriMapGet, List.find?_cons]
      by_cases ha : (a == k') = true
      · simp [ha]
      · have ha' : (a == k') = false := by simpa using ha
        simp only [ha']
        simpa [uriMapGet] using ih

/-- `_get_node` for a name: the answer is the name of a node that exists afterwards and carries the name's URI; nodes are only
    appended, edges untouched, the invariant kept -/
theorem getNode_spec (st : DState) (cl : Option String) (q : QName) (attr : String) (hm : MapOkD st) :
    MapOkD (getNode st cl (some (.qn q)) attr).1 ∧ (getNode st cl (some (.qn q)) attr).1.edges = st.edges ∧
      (∃ extra, (getNode st cl (some (.qn q)) attr).1.nodes = st.nodes ++ extra) ∧
      ∃ nd ∈ (getNode st cl (some (.qn q)) attr).1.nodes, nd.name = (getNode st cl (some (.qn q)) attr).2 ∧
        nd.url = some (dotParsed q.uri) := by
  cases hg : uriMapGet st.nodeMap q.uri with
  | some n =>
    have hres : getNode st cl (some (.qn q)) attr = (st, n) := by simp [getNode, hg]
    rw [hres]
    exact ⟨hm, rfl, ⟨[], by simp⟩, hm q.uri n hg⟩
  | none =>
    have hres : ∃ nd : DNode, nd.name = "n" ++ toString (st.cN + 1) ∧ nd.url = some (dotParsed q.uri) ∧
        getNode st cl (some (.qn q)) attr =
          ({ st with cN := st.cN + 1, nodes := st.nodes ++ [nd], nodeMap := uriMapSet st.nodeMap q.uri ("n" ++ toString (st.cN + 1)) },
           "n" ++ toString (st.cN + 1)) := by
      simp only [getNode, hg]
      exact ⟨_, rfl, rfl, rfl⟩
    obtain ⟨nd, hname, hurl, hres⟩ := hres
    rw [hres]
    refine ⟨?_, rfl, ⟨[nd], rfl⟩, ⟨nd, by simp, hname, hurl⟩⟩
    intro u n hu
    simp only at hu
    by_cases e : u = q.uri
    · subst e
      rw [uriMapGet_set] at hu
      simp only [Option.some.injEq] at hu
      exact ⟨nd, by simp, hname.trans hu, hurl⟩
    · rw [uriMapGet_set_ne _ _ _ _ e] at hu
      obtain ⟨nd', hnd', h1, h2⟩ := hm u n hu
      exact ⟨nd', by simp [hnd'], h1, h2⟩

theorem mapOkD_newBnode (st : DState) (cl : Option String) (hm : MapOkD st) : MapOkD (newBnode st cl).1 := by
  intro u n hu
  obtain ⟨nd, hnd, h1, h2⟩ := hm u n hu
  exact ⟨nd, by simp [newBnode, hnd], h1, h2⟩

theorem mapOkD_edges (st : DState) (es : List DEdge) (hm : MapOkD st) : MapOkD { st with edges := es } := hm

/-- `_get_node` only appends nodes and never touches the edges, whatever it is asked for -/
theorem getNode_appends (st : DState) (cl : Option String) (v : Option Value) (attr : String) :
    ∃ en, (getNode st cl v attr).1.nodes = st.nodes ++ en ∧ (getNode st cl v attr).1.edges = st.edges := by
  unfold getNode
  split
  · rename_i q
    split
    · exact ⟨[], by simp, rfl⟩
    · exact ⟨[_], rfl, rfl⟩
  · exact ⟨[⟨"b" ++ toString (st.cB + 1), "point", "", false, none, cl⟩], by simp [newBnode], by simp [newBnode]⟩

/-- an annotation only appends (at most one node, at most one edge) -/
theorem attachAnnotation_appends (st : DState) (cl : Option String) (t : String) (r : Record) :
    ∃ en ee, (attachAnnotation st cl t r).nodes = st.nodes ++ en ∧ (attachAnnotation st cl t r).edges = st.edges ++ ee := by
  unfold attachAnnotation
  dsimp only
  split
  · exact ⟨[], [], by simp, by simp⟩
  · exact ⟨[_], [_], rfl, rfl⟩

/-- the edges to the further arguments of an n-ary relation only append -/
theorem naryFold_appends (cl : Option String) (b : String) : ∀ (l : List (String × Option Value)) (s : DState),
    ∃ en ee, (l.foldl (fun (s : DState) (p : String × Option Value) =>
        match p.2 with
        | some _ =>
          let (s1, n) := getNode s cl p.2 p.1
          { s1 with edges := s1.edges ++ [⟨b, n, some p.1, none, none, some "gray"⟩] }
        | none => s) s).nodes = s.nodes ++ en ∧
      (l.foldl (fun (s : DState) (p : String × Option Value) =>
        match p.2 with
        | some _ =>
          let (s1, n) := getNode s cl p.2 p.1
          { s1 with edges := s1.edges ++ [⟨b, n, some p.1, none, none, some "gray"⟩] }
        | none => s) s).edges = s.edges ++ ee
  | [], s => ⟨[], [], by simp, by simp⟩
  | p :: tl, s => by
    simp only [List.foldl_cons]
    cases hp : p.2 with
    | none =>
      simp only
      exact naryFold_appends cl b tl s
    | some v =>
      simp only
      obtain ⟨en0, hn0, he0⟩ := getNode_appends s cl (some v) p.1
      generalize getNode s cl (some v) p.1 = gg at hn0 he0
      obtain ⟨s1, n⟩ := gg
      simp only at hn0 he0 ⊢
      obtain ⟨en, ee, h1, h2⟩ := naryFold_appends cl b tl { s1 with edges := s1.edges ++ [⟨b, n, some p.1, none, none, some "gray"⟩] }
      refine ⟨en0 ++ en, [⟨b, n, some p.1, none, none, some "gray"⟩] ++ ee, ?_, ?_⟩
      · rw [h1]; simp only; rw [hn0]; simp
      · rw [h2]; simp only; rw [he0]; simp

/-- the reference arguments of a relation, in formal order -/
def relRefs (r : Record) : List (String × Option Value) :=
  (r.kind.formals.filter (fun l => attrQNames.contains l)).map (fun l => (l, (r.get (formalQ l)).head?))

/-- **C15, a plainly drawn relation is exactly one edge with the right ends**: when the first two reference arguments of a
    relation are names and it is drawn neither as n-ary nor with an annotation, `addRelation` adds exactly one edge, labelled
    with the relation's PROV-N name, whose tail is a node carrying the first argument's URI and whose head is a node carrying
    the second argument's URI -/
theorem c15_binary_relation_one_edge (o : DotOpts) (st : DState) (cl : Option String) (r : Record) (hm : MapOkD st)
    (a0 a1 : String) (q0 q1 : QName) (rest : List (String × Option Value))
    (hrefs : relRefs r = (a0, some (.qn q0)) :: (a1, some (.qn q1)) :: rest)
    (hplain : ((rest.length + 2 > 2 && o.showNary) || (o.relAttrs && !(r.flat.filter (fun p => !isRefAttr p.1)).isEmpty)) = false) :
    ∃ e, (addRelation o st cl r).edges = st.edges ++ [e] ∧ e.label = some (relStyle r.kind).1 ∧
      (∃ nd ∈ (addRelation o st cl r).nodes, nd.name = e.tail ∧ nd.url = some (dotParsed q0.uri)) ∧
      (∃ nd ∈ (addRelation o st cl r).nodes, nd.name = e.head ∧ nd.url = some (dotParsed q1.uri)) ∧
      MapOkD (addRelation o st cl r) := by
  unfold addRelation
  have hr : (r.kind.formals.filter (fun l => attrQNames.contains l)).map (fun l => (l, (r.get (formalQ l)).head?)) =
      (a0, some (.qn q0)) :: (a1, some (.qn q1)) :: rest := hrefs
  simp only [hr]
  have hcond : ((((a0, some (Value.qn q0)) :: (a1, some (Value.qn q1)) :: rest).length > 2 && o.showNary) ||
      (o.relAttrs && !(r.flat.filter (fun p => !isRefAttr p.1)).isEmpty)) = false := by
    simpa [List.length_cons] using hplain
  simp only [hcond, Bool.false_eq_true, if_false]
  obtain ⟨m1, e1, ⟨x1, n1⟩, nd0, hnd0, h0n, h0u⟩ := getNode_spec st cl q0 a0 hm
  generalize hg0 : getNode st cl (some (.qn q0)) a0 = g0 at m1 e1 n1 hnd0 h0n
  obtain ⟨st1, n0⟩ := g0
  simp only at m1 e1 n1 hnd0 h0n ⊢
  obtain ⟨m2, e2, ⟨x2, n2⟩, nd1, hnd1, h1n, h1u⟩ := getNode_spec st1 cl q1 a1 m1
  generalize hg1 : getNode st1 cl (some (.qn q1)) a1 = g1 at m2 e2 n2 hnd1 h1n
  obtain ⟨st2, nn1⟩ := g1
  simp only at m2 e2 n2 hnd1 h1n ⊢
  refine ⟨⟨n0, nn1, some (relStyle r.kind).1, none, none, (relStyle r.kind).2⟩, ?_, rfl, ?_, ?_, ?_⟩
  · rw [e2, e1]
  · exact ⟨nd0, by rw [n2]; exact List.mem_append_left _ hnd0, h0n, h0u⟩
  · exact ⟨nd1, hnd1, h1n, h1u⟩
  · exact m2

/-- **C15, a relation drawn through a blank node**: n-ary or annotated, the relation gets a new point-shaped node `b`; the
    first edge it adds goes from a node carrying the first argument's URI to `b` (labelled with the relation, no arrow
    head), the second from `b` to a node carrying the second argument's URI; whatever else is added (further arguments, the
    annotation) comes after these two edges -/
theorem c15_relation_through_blank_node (o : DotOpts) (st : DState) (cl : Option String) (r : Record) (hm : MapOkD st)
    (a0 a1 : String) (q0 q1 : QName) (rest : List (String × Option Value))
    (hrefs : relRefs r = (a0, some (.qn q0)) :: (a1, some (.qn q1)) :: rest)
    (hvia : ((rest.length + 2 > 2 && o.showNary) || (o.relAttrs && !(r.flat.filter (fun p => !isRefAttr p.1)).isEmpty)) = true) :
    ∃ e0 e1 more, (addRelation o st cl r).edges = st.edges ++ e0 :: e1 :: more ∧
      e0.head = "b" ++ toString (st.cB + 1) ∧ e1.tail = "b" ++ toString (st.cB + 1) ∧
      e0.label = some (relStyle r.kind).1 ∧ e0.arrowhead = some "none" ∧
      (∃ nd ∈ (addRelation o st cl r).nodes, nd.name = e0.tail ∧ nd.url = some (dotParsed q0.uri)) ∧
      (∃ nd ∈ (addRelation o st cl r).nodes, nd.name = e1.head ∧ nd.url = some (dotParsed q1.uri)) ∧
      (∃ nd ∈ (addRelation o st cl r).nodes, nd.name = "b" ++ toString (st.cB + 1) ∧ nd.shape = "point") := by
  unfold addRelation
  have hr : (r.kind.formals.filter (fun l => attrQNames.contains l)).map (fun l => (l, (r.get (formalQ l)).head?)) =
      (a0, some (.qn q0)) :: (a1, some (.qn q1)) :: rest := hrefs
  simp only [hr]
  have hcond : ((((a0, some (Value.qn q0)) :: (a1, some (Value.qn q1)) :: rest).length > 2 && o.showNary) ||
      (o.relAttrs && !(r.flat.filter (fun p => !isRefAttr p.1)).isEmpty)) = true := by
    simpa [List.length_cons] using hvia
  simp only [hcond, if_true]
  -- the blank node
  have mb := mapOkD_newBnode st cl hm
  have hbn : (newBnode st cl).2 = "b" ++ toString (st.cB + 1) := rfl
  have hbe : (newBnode st cl).1.edges = st.edges := rfl
  have hbnode : ∃ nd ∈ (newBnode st cl).1.nodes, nd.name = "b" ++ toString (st.cB + 1) ∧ nd.shape = "point" :=
    ⟨⟨"b" ++ toString (st.cB + 1), "point", "", false, none, cl⟩, by simp [newBnode], rfl, rfl⟩
  generalize hnb : newBnode st cl = nb at mb hbn hbe hbnode
  obtain ⟨sb, b⟩ := nb
  simp only at mb hbn hbe hbnode ⊢
  subst hbn
  -- first end
  obtain ⟨m1, e1, ⟨x1, n1⟩, nd0, hnd0, h0n, h0u⟩ := getNode_spec sb cl q0 a0 mb
  generalize hg0 : getNode sb cl (some (.qn q0)) a0 = g0 at m1 e1 n1 hnd0 h0n
  obtain ⟨s2, n0⟩ := g0
  simp only at m1 e1 n1 hnd0 h0n ⊢
  -- second end
  have m3 : MapOkD { s2 with edges := s2.edges ++ [⟨n0, "b" ++ toString (st.cB + 1), some (relStyle r.kind).1, some "none", none, (relStyle r.kind).2⟩] } := m1
  obtain ⟨m4, e4, ⟨x4, n4⟩, nd1, hnd1, h1n, h1u⟩ := getNode_spec _ cl q1 a1 m3
  generalize hg1 : getNode { s2 with edges := s2.edges ++ [⟨n0, "b" ++ toString (st.cB + 1), some (relStyle r.kind).1, some "none", none, (relStyle r.kind).2⟩] }
    cl (some (.qn q1)) a1 = g1 at m4 e4 n4 hnd1 h1n
  obtain ⟨s4, nn1⟩ := g1
  simp only at m4 e4 n4 hnd1 h1n ⊢
  -- what follows only appends
  generalize hs5 : ({ s4 with edges := s4.edges ++ [⟨"b" ++ toString (st.cB + 1), nn1, none, none, none, (relStyle r.kind).2⟩] } : DState) = s5
  have hs5e : s5.edges = st.edges ++ [⟨n0, "b" ++ toString (st.cB + 1), some (relStyle r.kind).1, some "none", none, (relStyle r.kind).2⟩,
      ⟨"b" ++ toString (st.cB + 1), nn1, none, none, none, (relStyle r.kind).2⟩] := by
    rw [← hs5]
    show s4.edges ++ _ = _
    rw [e4]
    show (s2.edges ++ _) ++ _ = _
    rw [e1, hbe]; simp
  have hs5n : s5.nodes = s4.nodes := by rw [← hs5]
  -- what follows only appends: the edges to further arguments, then the annotation
  obtain ⟨en6, ee6, hn6, he6⟩ : ∃ en ee,
      (if (((a0, some (Value.qn q0)) :: (a1, some (Value.qn q1)) :: rest).length > 2 && o.showNary) = true then
          rest.foldl (fun (s : DState) (p : String × Option Value) =>
            match p.2 with
            | some _ =>
              let (s1, n) := getNode s cl p.2 p.1
              { s1 with edges := s1.edges ++ [⟨"b" ++ toString (st.cB + 1), n, some p.1, none, none, some "gray"⟩] }
            | none => s) s5
        else s5).nodes = s5.nodes ++ en ∧
      (if (((a0, some (Value.qn q0)) :: (a1, some (Value.qn q1)) :: rest).length > 2 && o.showNary) = true then
          rest.foldl (fun (s : DState) (p : String × Option Value) =>
            match p.2 with
            | some _ =>
              let (s1, n) := getNode s cl p.2 p.1
              { s1 with edges := s1.edges ++ [⟨"b" ++ toString (st.cB + 1), n, some p.1, none, none, some "gray"⟩] }
            | none => s) s5
        else s5).edges = s5.edges ++ ee := by
    split
    · exact naryFold_appends cl _ rest s5
    · exact ⟨[], [], by simp, by simp⟩
  generalize hs6 : (if (((a0, some (Value.qn q0)) :: (a1, some (Value.qn q1)) :: rest).length > 2 && o.showNary) = true then
          rest.foldl (fun (s : DState) (p : String × Option Value) =>
            match p.2 with
            | some _ =>
              let (s1, n) := getNode s cl p.2 p.1
              { s1 with edges := s1.edges ++ [⟨"b" ++ toString (st.cB + 1), n, some p.1, none, none, some "gray"⟩] }
            | none => s) s5
        else s5) = s6 at hn6 he6
  obtain ⟨en7, ee7, hn7, he7⟩ : ∃ en ee,
      (if (o.relAttrs && !(r.flat.filter (fun p => !isRefAttr p.1)).isEmpty) = true then
          attachAnnotation s6 cl ("b" ++ toString (st.cB + 1)) r else s6).nodes = s6.nodes ++ en ∧
      (if (o.relAttrs && !(r.flat.filter (fun p => !isRefAttr p.1)).isEmpty) = true then
          attachAnnotation s6 cl ("b" ++ toString (st.cB + 1)) r else s6).edges = s6.edges ++ ee := by
    split
    · exact attachAnnotation_appends s6 cl _ r
    · exact ⟨[], [], by simp, by simp⟩
  refine ⟨⟨n0, "b" ++ toString (st.cB + 1), some (relStyle r.kind).1, some "none", none, (relStyle r.kind).2⟩,
    ⟨"b" ++ toString (st.cB + 1), nn1, none, none, none, (relStyle r.kind).2⟩, ee6 ++ ee7, ?_, rfl, rfl, rfl, rfl, ?_, ?_, ?_⟩
  · rw [he7, he6, hs5e]; simp
  · obtain ⟨nd, hnd, h1, h2⟩ : ∃ nd ∈ s4.nodes, nd.name = n0 ∧ nd.url = some (dotParsed q0.uri) :=
      ⟨nd0, by rw [n4]; exact List.mem_append_left _ hnd0, h0n, h0u⟩
    exact ⟨nd, by rw [hn7, hn6, hs5n]; exact List.mem_append_left _ (List.mem_append_left _ hnd), h1, h2⟩
  · exact ⟨nd1, by rw [hn7, hn6, hs5n]; exact List.mem_append_left _ (List.mem_append_left _ hnd1), h1n, h1u⟩
  · obtain ⟨nd, hnd, h1, h2⟩ := hbnode
    have : nd ∈ s4.nodes := by rw [n4]; exact List.mem_append_left _ (by rw [n1]; exact List.mem_append_left _ hnd)
    exact ⟨nd, by rw [hn7, hn6, hs5n]; exact List.mem_append_left _ (List.mem_append_left _ this), h1, h2⟩

theorem mapOkD_empty : MapOkD {} := by
  intro u n h
  simp [uriMapGet] at h

/-- non-vacuity: `used(ex:a, ex:e)` drawn plainly on the empty state is one edge between two inferred nodes -/
def rUsed : Record := ⟨.usage, none, [(formalQ "activity", [.qn ⟨⟨"ex", "http://example.org/"⟩, "a"⟩]),
                                        (formalQ "entity", [.qn ⟨⟨"ex", "http://example.org/"⟩, "e"⟩])]⟩

example : relRefs rUsed = [("activity", some (.qn ⟨⟨"ex", "http://example.org/"⟩, "a"⟩)),
    ("entity", some (.qn ⟨⟨"ex", "http://example.org/"⟩, "e"⟩))] := by decide +kernel

example : (addRelation ⟨true, false, false, false⟩ {} none rUsed).edges.length = 1 := by decide +kernel

end Prov.C15

/-
  C11, "loading then writing then loading gives the same document", record by record, for documents the readers build:
  the readers create records through `new_record` only, so every record of a loaded document is a record of a heap reachable
  by the public mutators — hence a stored record (`Props/C09E`), hence one to which the round-trip theorems of C01 (PROV-JSON)
  and C02 (PROV-XML) apply without any hypothesis on how it was built.
-/
import Prov.Props.C01R
import Prov.Props.C02R
import Prov.Props.C09E

namespace Prov.C11
open Prov Prov.Heap Prov.C05 Prov.C09 Prov.C04

/-- **PROV-JSON, any record of any reachable heap**: written and read back, it is rebuilt with exactly its content, given only
    that its names read back in the reading container (C03 (c)) and print differently from each other -/
theorem c11_reachable_record_json (ops : List HOp) (hops : ∀ op ∈ ops, op.ok ∧ op.argsOk) (r : Nat)
    (h : Heap) (c : Nat) (std : C01.StdNames h c)
    (hrd : ∀ p ∈ ((ops.foldl hstep Heap.empty).recCell r).r.attrs, C01.PairReadable h c p)
    (hpr : ((ops.foldl hstep Heap.empty).recCell r).r.attrs.Pairwise (fun p q => p.1.print ≠ q.1.print)) :
    let rc := ((ops.foldl hstep Heap.empty).recCell r).r
    ∃ kvs acc, encodeJsonRecord rc = some (.obj kvs) ∧ h.decodeElemAttrs c rc.kind kvs {} = .ok acc ∧ acc.extraMembers = [] ∧
      ∀ (par : Option NsMgr) (isColl : Bool) (m : NsMgr), m.Inv1 → ∀ r0 : Record, r0.attrs = [] →
        ∃ m' r', addAttrsLoop par isColl m r0
            (acc.formal.map (fun e => { name := .qn e.1, value := e.2 }) ++ acc.other) = (m', r', none) ∧
          m'.Inv1 ∧ r'.kind = r0.kind ∧ r'.id = r0.id ∧
          (∀ x ∈ rc.flat, ∃ y ∈ r'.flat, y.1.uri = x.1.uri ∧ y.2.keyEq x.2 = true) ∧
          (∀ y ∈ r'.flat, ∃ x ∈ rc.flat, y.1.uri = x.1.uri ∧ y.2.keyEq x.2 = true) :=
  C01.c01_record h c std _ (c09_reachable_stored ops hops r) hrd hpr

/-- **PROV-XML, any record of any reachable heap**, both `force_types` values -/
theorem c11_reachable_record_xml (ops : List HOp) (hops : ∀ op ∈ ops, op.ok ∧ op.argsOk) (r : Nat)
    (nsmap) (hstd : C02.StdMap nsmap) (hints : List (String × FloatAtom)) (ft : Bool) (pfxOf : QName → Option String)
    (hok : let rc := ((ops.foldl hstep Heap.empty).recCell r).r
      ∀ p ∈ (deriveLabel rc.kind rc.flat).2, C02.ChildOk nsmap hints ft pfxOf p) :
    let rc := ((ops.foldl hstep Heap.empty).recCell r).r
    ∃ xs : List (QName × ArgVal),
      Heap.mapExcept extractAttr ((encodeXmlRecord ft rc).children.zip (sortedAttributes rc.kind (deriveLabel rc.kind rc.flat).2) |>.map
        (fun cp => C02.parsed nsmap (pfxOf cp.2.1) cp.1)) = .ok xs ∧
      ∀ (par : Option NsMgr) (isColl : Bool) (m : NsMgr), m.Inv1 → ∀ r0 : Record, r0.attrs = [] →
        ∃ m' r', addAttrsLoop par isColl m r0 (xs.map (C02.argOfPair hints)) = (m', r', none) ∧
          m'.Inv1 ∧ r'.kind = r0.kind ∧ r'.id = r0.id ∧
          (∀ x ∈ (deriveLabel rc.kind rc.flat).2, ∃ y ∈ r'.flat, y.1.uri = x.1.uri ∧ y.2.keyEq x.2 = true) ∧
          (∀ y ∈ r'.flat, ∃ x ∈ (deriveLabel rc.kind rc.flat).2, y.1.uri = x.1.uri ∧ y.2.keyEq x.2 = true) := by
  intro rc
  have hs := c09_reachable_stored ops hops r
  refine C02.c02_record nsmap hstd hints ft pfxOf rc hs (fun p hp => ⟨hok p hp, ?_⟩)
  exact (hs.pairs p ((C02.deriveLabel_sublist rc.kind rc.flat).subset hp)).2

end Prov.C11

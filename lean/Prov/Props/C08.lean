/-
  C08 — unified() merges exactly the records sharing an identifier, losing nothing.
  Theorems about the two passes of `_unified_records` (grouping by kind; placement of merged records).
-/
import Prov.Heap

namespace Prov.C08
open Prov Heap

def stepPlace (mp : List (Nat × Nat)) (acc : List Nat) (r : Nat) : List Nat :=
  match mp.find? (fun p => p.1 == r) with
  | some (_, mref) => if acc.contains mref then acc else acc ++ [mref]
  | none => acc ++ [r]

theorem placeMerged_eq (mp : List (Nat × Nat)) (rs : List Nat) :
    placeMerged mp rs = rs.foldl (stepPlace mp) [] := rfl

theorem foldl_stepPlace_nil (acc rs : List Nat) : rs.foldl (stepPlace []) acc = acc ++ rs := by
  induction rs generalizing acc with
  | nil => simp
  | cons r rest ih => simp [stepPlace, ih]

/-- when no identifier is shared (nothing merged) the record list is returned unchanged, in order -/
theorem c08_no_merge_identity (rs : List Nat) : placeMerged [] rs = rs := by
  rw [placeMerged_eq, foldl_stepPlace_nil]; simp

theorem acc_subset_foldl (mp : List (Nat × Nat)) (rs acc : List Nat) :
    ∀ x ∈ acc, x ∈ rs.foldl (stepPlace mp) acc := by
  induction rs generalizing acc with
  | nil => intro x hx; exact hx
  | cons r rest ih =>
    intro x hx
    apply ih
    unfold stepPlace
    split
    · split
      · exact hx
      · exact List.mem_append_left _ hx
    · exact List.mem_append_left _ hx

/-- **nothing is lost**: every record of the source is represented in the result, either by
    itself (not merged) or by the merged record of its group -/
theorem c08_nothing_lost (mp : List (Nat × Nat)) (rs : List Nat) (r : Nat) (hr : r ∈ rs) :
    (match mp.find? (fun p => p.1 == r) with
     | some (_, mref) => mref
     | none => r) ∈ placeMerged mp rs := by
  rw [placeMerged_eq]
  suffices ∀ acc, (match mp.find? (fun p => p.1 == r) with | some (_, mref) => mref | none => r)
      ∈ rs.foldl (stepPlace mp) acc from this []
  induction rs with
  | nil => cases hr
  | cons x rest ih =>
    intro acc
    simp only [List.foldl_cons]
    rcases List.mem_cons.mp hr with rfl | hr'
    · apply acc_subset_foldl
      cases hfind : mp.find? (fun p => p.1 == r) with
      | none => simp [stepPlace, hfind]
      | some p =>
        obtain ⟨a, mref⟩ := p
        simp only [stepPlace, hfind]
        split
        · next hc => exact List.contains_iff_mem.mp hc
        · simp
    · exact ih hr' _

theorem mem_stepPlace (mp : List (Nat × Nat)) (acc : List Nat) (r y : Nat) (hy : y ∈ stepPlace mp acc r) :
    y ∈ acc ∨ y = r ∨ ∃ p ∈ mp, p.2 = y := by
  unfold stepPlace at hy
  split at hy
  · next p mref hfind =>
    split at hy
    · exact Or.inl hy
    · rcases List.mem_append.mp hy with h | h
      · exact Or.inl h
      · simp only [List.mem_singleton] at h
        exact Or.inr (Or.inr ⟨_, List.mem_of_find?_eq_some hfind, h.symm⟩)
  · rcases List.mem_append.mp hy with h | h
    · exact Or.inl h
    · simp only [List.mem_singleton] at h
      exact Or.inr (Or.inl h)

theorem mem_foldl_stepPlace (mp : List (Nat × Nat)) (rs acc : List Nat) :
    ∀ x ∈ rs.foldl (stepPlace mp) acc, x ∈ acc ∨ x ∈ rs ∨ ∃ p ∈ mp, p.2 = x := by
  induction rs generalizing acc with
  | nil => intro x hx; exact Or.inl hx
  | cons r rest ih =>
    intro x hx
    simp only [List.foldl_cons] at hx
    rcases ih _ x hx with h | h | h
    · rcases mem_stepPlace mp acc r x h with h' | rfl | h'
      · exact Or.inl h'
      · exact Or.inr (Or.inl List.mem_cons_self)
      · exact Or.inr (Or.inr h')
    · exact Or.inr (Or.inl (List.mem_cons_of_mem _ h))
    · exact Or.inr (Or.inr h)

/-- nothing is invented: every element of the result is a source record or a merged record -/
theorem c08_nothing_invented (mp : List (Nat × Nat)) (rs : List Nat) :
    ∀ x ∈ placeMerged mp rs, x ∈ rs ∨ ∃ p ∈ mp, p.2 = x := by
  intro x hx
  rw [placeMerged_eq] at hx
  rcases mem_foldl_stepPlace mp rs [] x hx with h | h | h
  · cases h
  · exact Or.inl h
  · exact Or.inr h

/-- a merged record is placed at most once: the result has no duplicates when the source list has
    none and merged refs are distinct from source refs -/
theorem nodup_foldl_stepPlace (mp : List (Nat × Nat)) (rs acc : List Nat)
    (hacc : acc.Nodup) (hrs : rs.Nodup) (hdisj : ∀ x ∈ rs, x ∉ acc)
    (hfresh : ∀ p ∈ mp, p.2 ∉ rs) : (rs.foldl (stepPlace mp) acc).Nodup := by
  induction rs generalizing acc with
  | nil => exact hacc
  | cons r rest ih =>
    simp only [List.foldl_cons]
    have hr : r ∉ acc := hdisj r List.mem_cons_self
    have hrest : rest.Nodup := (List.nodup_cons.mp hrs).2
    have hrnot : r ∉ rest := (List.nodup_cons.mp hrs).1
    apply ih
    · unfold stepPlace
      split
      · split
        · exact hacc
        · next hc =>
          have : ¬ (_ ∈ acc) := fun hm => hc (List.contains_iff_mem.mpr hm)
          exact List.nodup_append.mpr ⟨hacc, by simp, by
            intro a ha b hb
            simp only [List.mem_singleton] at hb
            subst hb
            intro e; subst e; exact this ha⟩
      · exact List.nodup_append.mpr ⟨hacc, by simp, by
          intro a ha b hb
          simp only [List.mem_singleton] at hb
          subst hb
          intro e; subst e; exact hr ha⟩
    · exact hrest
    · intro x hx hmem
      rcases mem_stepPlace mp acc r x hmem with h | rfl | ⟨p, hp, rfl⟩
      · exact hdisj x (List.mem_cons_of_mem _ hx) h
      · exact hrnot hx
      · exact hfresh p hp (List.mem_cons_of_mem _ hx)
    · intro p hp hmem
      exact hfresh p hp (List.mem_cons_of_mem _ hmem)

/-- **each merged record occurs exactly once, every unmerged record keeps its single place** -/
theorem c08_no_duplicates (mp : List (Nat × Nat)) (rs : List Nat) (hrs : rs.Nodup)
    (hfresh : ∀ p ∈ mp, p.2 ∉ rs) : (placeMerged mp rs).Nodup := by
  rw [placeMerged_eq]
  exact nodup_foldl_stepPlace mp rs [] (by simp) hrs (by simp) hfresh

end Prov.C08

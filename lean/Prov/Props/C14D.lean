/-
  C14, the last step of `graph_to_prov` on the heap: the records it hands to the new document — the declared element nodes
  and the edge relations — are stored records of the unified document, so `add_record` (C09) copies each of them as an `==`
  record. Together with `c14_there_and_back`: the document that comes back holds, in order, `==` copies of the element
  records and of a permutation of exactly the relations whose first two arguments are present.
-/
import Prov.Props.C14C
import Prov.Props.C09E

namespace Prov.C14
open Prov Prov.Heap Prov.C09 Prov.C05

theorem elems_declared_sub (h : Heap) : ∀ (rs : List Nat) (st : GState),
    ∀ r, r ∈ (rs.foldl (elemStep h) st).nodes.filterMap (·.declared) → r ∈ st.nodes.filterMap (·.declared) ∨ r ∈ rs
  | [], _, r, hr => Or.inl hr
  | x :: rest, st, r, hr => by
    rw [List.foldl_cons] at hr
    rcases elems_declared_sub h rest (elemStep h st x) r hr with h1 | h1
    · unfold elemStep at h1
      split at h1
      · simp only [List.filterMap_append, List.filterMap_cons, List.filterMap_nil, List.mem_append, List.mem_singleton] at h1
        rcases h1 with h2 | h2
        · exact Or.inl h2
        · exact Or.inr (h2 ▸ List.mem_cons_self)
      · exact Or.inl h1
    · exact Or.inr (List.mem_cons_of_mem _ h1)

/-- **`graph_to_prov(prov_to_graph(d))` on the heap**: for a unified document `u` in a heap satisfying the reachable
    invariants, with distinct element records and no influence relation, the document `graph_to_prov` builds is new, and its
    records are, in order, `==` copies of the declared element nodes followed by `==` copies of a permutation of exactly the
    relations of `u` whose first two arguments are present; nothing that existed is written -/
theorem c14_roundtrip_heap (h1 : Heap) (u : Nat) (hn : HeapNormal h1) (he : HeapExtra h1) (hw : WfRecs h1)
    (hel : (h1.getRecords u .element).Nodup) (hni : ∀ r ∈ h1.getRecords u .relation, notInfluence h1 r) :
    let st0 := (h1.getRecords u .element).foldl (elemStep h1) ⟨[], [], [], []⟩
    let st := (h1.getRecords u .relation).foldl (graphStep h1) st0
    ∃ h2 rels news, h1.graphToProv st = (h2, .ok h1.conts.size) ∧
      rels.Perm ((h1.getRecords u .relation).filter (bothPresent h1)) ∧
      (h2.cont h1.conts.size).records = news ∧
      news.length = (st0.nodes.filterMap (·.declared) ++ rels).length ∧
      (∀ p ∈ (st0.nodes.filterMap (·.declared) ++ rels).zip news, recEq (h1.recCell p.1).r (h2.recCell p.2).r = true) ∧
      (∀ r, r < h1.recs.size → h2.recCell r = h1.recCell r) := by
  intro st0 st
  obtain ⟨hdecl, hperm⟩ := c14_there_and_back h1 u hel hni
  rw [graphToProv_args]
  have hnodes : st.nodes.filterMap (·.declared) = st0.nodes.filterMap (·.declared) := hdecl
  rw [hnodes]
  -- the fresh document
  obtain ⟨a1, _, a3, _, a5⟩ := allocCont_fresh h1 true none [] none
  have hn1 := allInv1_allocCont h1 hn.1 true none none
  have hnd : (h1.newDoc) = h1.allocCont true none [] none := rfl
  rw [hnd]
  generalize hal : h1.allocCont true none [] none = al at a1 a3 a5 hn1
  obtain ⟨h1', nd⟩ := al
  simp only at a1 a3 a5 hn1 ⊢
  have hsz1 : h1'.conts.size = h1.conts.size + 1 := by
    have := congrArg (fun p => p.1.conts.size) hal
    simp only [allocCont, allocMgr, Array.size_push] at this
    exact this.symm
  have hrecs1 : ∀ r, h1'.recCell r = h1.recCell r := fun r => by simp [recCell, a5]
  have hempty : (h1'.cont nd).records = [] := by
    have := congrArg (fun p => (p.1.cont p.2).records) hal
    simp only at this
    rw [← this]
    simp [allocCont, allocMgr, cont, Array.getD_eq_getD_getElem?]
  -- every source is a stored record of `u`
  have hsub : ∀ r ∈ st0.nodes.filterMap (·.declared) ++ edgeRecsOf st, r ∈ (h1.cont u).records := by
    intro r hr
    rcases List.mem_append.mp hr with h2 | h2
    · rcases elems_declared_sub h1 _ _ r h2 with h3 | h3
      · simp at h3
      · exact (List.mem_filter.mp h3).1
    · have := hperm.mem_iff.mp h2
      exact (List.mem_filter.mp (List.mem_filter.mp this).1).1
  have hsrc : ∀ r ∈ st0.nodes.filterMap (·.declared) ++ edgeRecsOf st, r < h1'.recs.size ∧ StoredRec (h1'.recCell r).r := by
    intro r hr
    have hlt := hw.inRange u r (hsub r hr)
    exact ⟨by rw [a5]; exact hlt, by rw [hrecs1]; exact ⟨stored_of_normal_extra (hn.2 r) (he r), hw.elemId r hlt⟩⟩
  obtain ⟨h2, news, f1, f2, flen, f3, f4, _, _, _, _⟩ := c09_addRecords_heap nd _ h1'
    (by rw [hsz1, a1]; exact Nat.lt_succ_self _) hn1 hsrc
  rw [f1]
  subst a1
  refine ⟨h2, edgeRecsOf st, news, rfl, hperm, by rw [f2, hempty]; simp, flen, ?_, ?_⟩
  · intro p hp
    have := (f3 p hp).1
    rw [hrecs1] at this
    exact this
  · intro r hr
    rw [f4 r (by rw [a5]; exact hr), hrecs1]

end Prov.C14

/-
  C01, writer and reader composed for the records of a document.

  `Props/C01C`/`C01D`: the dict `encode_json_container` builds from a record list holds, up to order, one object per record
  (`c01_container_elems`), and the record phase of `decode_json_container` is the in-order walk over those objects
  (`c01_reader_meets_filed`). `Props/C01E`: that walk, on a document whose manager reads the names back, appends one cell per
  object with exactly the content of the record it was written for (`c01_elements`). Here the two halves are joined:

  * `fileAll_spec`           what the writer files for a record: its kind label, its printed identifier (or a generated blank
                             identifier) and `encode_json_record` of it;
  * `All2.perm_right`        a permutation of the filed objects is the filing of a permutation of the records;
  * `c01_document_records`   **for every record list the writer accepts and every document that reads its names back, the
    record phase of the reader on the writer's dict completes without a refusal and appends to the document exactly one cell per
    record — some permutation of the records, each cell holding the kind, the identifier the written text resolves to and
    exactly the stored content of its record — touching no earlier cell and no namespace manager.**
-/
import Prov.Props.C01E

namespace Prov.C01
open Prov Prov.Heap Prov.C05 Prov.C04 Prov.C09

/-- the identifier text the writer files a record under (given the text a blank identifier would get) -/
def FiledAs (r : Record) (t : String × String × JVal) : Prop :=
  t.1 = r.kind.provN ∧ encodeJsonRecord r = some t.2.2 ∧ (∀ q, r.id = some q → t.2.1 = q.print)

theorem fileAll_spec : ∀ (rs : List Record) (st st' : EncSt) (ts : List (String × String × JVal)),
    fileAll st rs = some (st', ts) → All2 FiledAs rs ts
  | [], _, _, ts, h => by
    simp only [fileAll, Option.some.injEq, Prod.mk.injEq] at h
    rw [← h.2]; exact .nil
  | r :: rest, st, st', ts, h => by
    unfold fileAll at h
    cases hs : fileStep st r with
    | none => rw [hs] at h; simp at h
    | some p =>
      obtain ⟨st1, t⟩ := p
      rw [hs] at h
      simp only [Option.map_eq_some_iff] at h
      obtain ⟨⟨st2, ts2⟩, hrest, heq⟩ := h
      simp only [Prod.mk.injEq] at heq
      rw [← heq.2]
      refine .cons ?_ (fileAll_spec rest st1 st2 ts2 hrest)
      unfold fileStep at hs
      cases he : encodeJsonRecord r with
      | none => rw [he] at hs; simp at hs
      | some rj =>
        rw [he] at hs
        simp only [Option.some.injEq, Prod.mk.injEq] at hs
        rw [← hs.2]
        refine ⟨rfl, he, ?_⟩
        intro q hq
        simp only [hq]

theorem All2.perm_right {α β : Type} {R : α → β → Prop} {l2 l2' : List β} (p : l2.Perm l2') :
    ∀ {l1 : List α}, All2 R l1 l2 → ∃ l1', l1.Perm l1' ∧ All2 R l1' l2' := by
  induction p with
  | nil => intro l1 h; cases h; exact ⟨[], List.Perm.refl _, .nil⟩
  | cons x _ ih =>
    intro l1 h
    cases h with
    | cons hr ht =>
      obtain ⟨t', hp, ha⟩ := ih ht
      exact ⟨_ :: t', List.Perm.cons _ hp, .cons hr ha⟩
  | swap x y l =>
    intro l1 h
    cases h with
    | cons hr1 ht =>
      cases ht with
      | cons hr2 ht2 => exact ⟨_, List.Perm.swap _ _ _, .cons hr2 (.cons hr1 ht2)⟩
  | trans _ _ ih1 ih2 =>
    intro l1 h
    obtain ⟨m1, hp1, ha1⟩ := ih1 h
    obtain ⟨m2, hp2, ha2⟩ := ih2 ha1
    exact ⟨m2, hp1.trans hp2, ha2⟩

/-- the element relation of `c01_elements` determines the element -/
theorem elems_unique : ∀ {items : List (Record × String)} {e1 e2 : List (String × String × JVal)},
    All2 (fun (it : Record × String) (e : String × String × JVal) =>
      e.1 = it.1.kind.provN ∧ e.2.1 = it.2 ∧ encodeJsonRecord it.1 = some e.2.2) items e1 →
    All2 (fun (it : Record × String) (e : String × String × JVal) =>
      e.1 = it.1.kind.provN ∧ e.2.1 = it.2 ∧ encodeJsonRecord it.1 = some e.2.2) items e2 → e1 = e2
  | _, _, _, .nil, .nil => rfl
  | _, _, _, .cons (b := b1) h1 t1, .cons (b := b2) h2 t2 => by
    have : b1 = b2 := by
      obtain ⟨x1, y1, z1⟩ := b1
      obtain ⟨x2, y2, z2⟩ := b2
      simp only at h1 h2
      have hz : z1 = z2 := by
        have := h1.2.2.symm.trans h2.2.2
        simpa using this
      rw [h1.1, h2.1, h1.2.1, h2.2.1, hz]
    rw [this, elems_unique t1 t2]

/-- pair every record with the text it was filed under -/
theorem items_of_filed : ∀ {rs : List Record} {es : List (String × String × JVal)}, All2 FiledAs rs es →
    ∃ items : List (Record × String), items.map (·.1) = rs ∧
      All2 (fun (it : Record × String) (e : String × String × JVal) =>
        e.1 = it.1.kind.provN ∧ e.2.1 = it.2 ∧ encodeJsonRecord it.1 = some e.2.2) items es ∧
      ∀ it ∈ items, ∀ q, it.1.id = some q → it.2 = q.print
  | _, _, .nil => ⟨[], rfl, .nil, by simp⟩
  | _, _, .cons (a := r) (b := e) hr ht => by
    obtain ⟨items, hm, ha, hi⟩ := items_of_filed ht
    refine ⟨(r, e.2.1) :: items, by simp [hm], .cons ⟨hr.1, rfl, hr.2.1⟩ ha, ?_⟩
    intro it hit q hq
    rcases List.mem_cons.mp hit with rfl | hit
    · exact hr.2.2 q hq
    · exact hi it hit q hq

/-- **C01, the records of a document, writer and reader composed** -/
theorem c01_document_records (m : NsMgr) (records : List Record) (cont : List (String × JVal))
    (henc : encodeJsonContainer m records = some cont)
    (h : Heap) (c : Nat) (hc : c < h.conts.size) (d : C13.DocMgr h c) (hinv : (h.mgrOf c).Inv1) (std : StdNames h c)
    (hst : ∀ r ∈ records, Stored r)
    (hrd : ∀ r ∈ records, ∀ p ∈ r.attrs, PairReadable h c p)
    (hpr : ∀ r ∈ records, r.attrs.Pairwise (fun p q => p.1.print ≠ q.1.print))
    (hid : ∀ r ∈ records, r.kind.isElement = true → ∃ q, r.id = some q ∧ ((h.validName c (.str q.print)).2).isSome = true) :
    ∃ (items : List (Record × String)) (h' : Heap) (idxs : List Nat),
      (items.map (·.1)).Perm records ∧
      decodeJsonContainer.recs c h (cont.filter (fun p => p.1 != "prefix")) = (h', none) ∧
      (h'.cont c).records = (h.cont c).records ++ idxs ∧
      All2 (fun it idx => Holds h h' c it idx) items idxs ∧
      (∀ i, i < h.recs.size → h'.recCell i = h.recCell i) ∧
      C13.SameMgrs h h' c := by
  obtain ⟨st0, st, ts, hf, _, hperm, hwalk⟩ := c01_reader_meets_filed m records cont henc c h
  have hfiled := fileAll_spec records st0 st ts hf
  -- the objects in the order the reader meets them are the filing of a permutation of the records
  obtain ⟨rs', hp', hfiled'⟩ := All2.perm_right hperm.symm hfiled
  obtain ⟨items, hmap, hel, hidtext⟩ := items_of_filed hfiled'
  have hmem : ∀ it ∈ items, it.1 ∈ records := by
    intro it hit
    have : it.1 ∈ rs' := by rw [← hmap]; exact List.mem_map_of_mem hit
    exact hp'.symm.subset this
  have hok : ∀ it ∈ items, ItemOk h c it := by
    intro it hit
    refine ⟨hst _ (hmem it hit), hrd _ (hmem it hit), hpr _ (hmem it hit), ?_⟩
    intro hk
    obtain ⟨q, hq, hs⟩ := hid _ (hmem it hit) hk
    rw [hidtext it hit q hq]; exact hs
  obtain ⟨elems, h', idxs, hel', hfold, hrecs, hholds, hfr, _, sm⟩ := c01_elements c items h hc d hinv std hok
  have : elems = contElems cont := elems_unique hel' hel
  rw [this] at hfold
  exact ⟨items, h', idxs, by rw [hmap]; exact hp'.symm, by rw [hwalk]; exact hfold, hrecs, hholds, hfr, sm⟩

/-! ### non-vacuity -/

theorem encEx : (encodeJsonContainer (hEx.mgrOf 0) [rcEx, rcEx]).isSome = true := by decide +kernel

/-- every hypothesis of `c01_document_records` holds for the example document reading the example record written twice -/
example : True := by
  obtain ⟨cont, hcont⟩ := Option.isSome_iff_exists.mp encEx
  have hall : ∀ r ∈ [rcEx, rcEx], r = rcEx := by
    intro r hr
    simp only [List.mem_cons, List.mem_nil_iff, or_false, or_self] at hr
    exact hr
  have := c01_document_records (hEx.mgrOf 0) [rcEx, rcEx] cont hcont hEx 0 (by decide +kernel) C13.hEx_docMgr hEx_inv1 hEx_std
    (fun r hr => by rw [hall r hr]; exact rcEx_stored)
    (fun r hr => by rw [hall r hr]; exact rcEx_readable)
    (fun r hr => by rw [hall r hr]; decide +kernel)
    (fun r hr hk => by rw [hall r hr] at hk; exact absurd hk (by decide +kernel))
  trivial

end Prov.C01

/-
  C09/C08, closing a hypothesis: the theorems of `Props/C09B`–`C09D` and `Props/C08D` speak about *stored* records
  (`Stored`: pairs of the right class, PROV attributes single-valued, one entry per attribute URI). Here: every record of
  every heap the public mutators can reach is stored — `Stored` is C05's `Normal` (proved for all histories in `Props/C05B`)
  plus `Extra` below, and `Extra` is an invariant of the same mutators.
-/
import Prov.Props.C09D
import Prov.Props.C05B

namespace Prov.C09
open Prov Prov.Heap Prov.C05 Prov.C04 Prov.C08

/-- what `Stored` adds to C05's `Normal` -/
structure Extra (rc : Record) : Prop where
  keys : (rc.attrs.map (fun p => p.1.uri)).Nodup
  vals : ∀ x ∈ rc.flat, (isProvAttr x.1 = false → StoredOk x.2) ∧ valOk x.2

theorem stored_of_normal_extra {rc : Record} (hn : Normal rc) (he : Extra rc) : Stored rc := by
  refine ⟨?_, hn.single, he.keys⟩
  intro x hx
  have hg := mem_get_of_flat rc he.keys x hx
  obtain ⟨h1, h2⟩ := he.vals x hx
  exact ⟨⟨fun hr => hn.refs x.1 x.2 hr hg, fun ht => hn.times x.1 x.2 ht hg, h1⟩, h2⟩

theorem extra_empty (k : RecKind) (id : Option QName) : Extra ⟨k, id, []⟩ :=
  ⟨by simp, fun x hx => by simp [Record.flat] at hx⟩

/-- `_attributes[attr].add(value)` keeps one entry per attribute URI -/
theorem attrsInsert_keys (as : List (QName × List Value)) (a : QName) (v : Value)
    (h : (as.map (fun p => p.1.uri)).Nodup) : ((attrsInsert as a v).map (fun p => p.1.uri)).Nodup := by
  induction as with
  | nil => simp [attrsInsert]
  | cons hd tl ih =>
    obtain ⟨k, vs⟩ := hd
    simp only [List.map_cons, List.nodup_cons] at h
    by_cases hk : k.same a = true
    · simp only [attrsInsert, hk, if_true, List.map_cons, List.nodup_cons]
      exact h
    · have hk' : k.same a = false := by simpa using hk
      simp only [attrsInsert, hk', Bool.false_eq_true, if_false, List.map_cons, List.nodup_cons]
      refine ⟨?_, ih h.2⟩
      intro hmem
      obtain ⟨p', hp', hpu⟩ := List.mem_map.mp hmem
      -- a key of the result is a key of `tl`, or the new key `a`
      have hsrc : p'.1.uri ∈ tl.map (fun p => p.1.uri) ∨ p'.1.uri = a.uri := by
        clear ih h hmem hpu
        induction tl with
        | nil => simp only [attrsInsert, List.mem_singleton] at hp'; subst hp'; exact Or.inr rfl
        | cons hd2 tl2 ih2 =>
          obtain ⟨k2, vs2⟩ := hd2
          by_cases hk2 : k2.same a = true
          · simp only [attrsInsert, hk2, if_true, List.mem_cons] at hp'
            rcases hp' with rfl | hp'
            · exact Or.inl (by simp)
            · exact Or.inl (List.mem_map.mpr ⟨p', List.mem_cons_of_mem _ hp', rfl⟩)
          · have hk2' : k2.same a = false := by simpa using hk2
            simp only [attrsInsert, hk2', Bool.false_eq_true, if_false, List.mem_cons] at hp'
            rcases hp' with rfl | hp'
            · exact Or.inl (by simp)
            · rcases ih2 hp' with h | h
              · exact Or.inl (List.mem_cons_of_mem _ h)
              · exact Or.inr h
      rcases hsrc with h1 | h1
      · exact h.1 (by rw [← hpu]; exact h1)
      · exact (QName.same_false_iff.mp hk') (by rw [← hpu]; exact h1)

theorem extra_insert {r : Record} (he : Extra r) (a : QName) (v : Value)
    (hs : isProvAttr a = false → StoredOk v) (hv : valOk v) : Extra (r.insert a v) := by
  refine ⟨attrsInsert_keys r.attrs a v he.keys, ?_⟩
  intro x hx
  rcases (flat_insert r a v).2.2 x hx with h | ⟨hu, rfl⟩
  · exact he.vals x h
  · exact ⟨fun hp => hs (by rw [← isProvAttr_congr hu]; exact hp), hv⟩

theorem extra_storeValue {r : Record} (he : Extra r) (isColl : Bool) (a : QName) (v : Value)
    (hs : isProvAttr a = false → StoredOk v) (hv : valOk v) : Extra (storeValue isColl r a v).1 := by
  unfold storeValue
  split
  · split
    · split <;> exact he
    · exact he
  · exact extra_insert he a v hs hv

/-- what may be asked of an argument: the floats it carries are floats (`as_integer_ratio()` has a positive denominator) -/
def ArgOk (a : AttrArg) : Prop :=
  (∀ v, a.value = .val v → valOk v) ∧ (∀ f, a.flt = some f → f.den ≠ 0)

theorem parseXsd_valOk (p : XsdParser) (lex : String) (flt : Option FloatAtom) (hf : ∀ f, flt = some f → f.den ≠ 0)
    (v : Value) (h : parseXsd p lex flt = .ok v) : valOk v := by
  unfold parseXsd at h
  cases p <;> simp only at h
  all_goals first
    | (simp only [Conv.ok.injEq] at h; subst h; trivial)
    | (split at h <;> first | (simp only [Conv.ok.injEq] at h; subst h; first | trivial | exact hf _ rfl) | cases h)

theorem autoLiteral_valOk (m : NsMgr) (x : ArgVal) (flt : Option FloatAtom) (hx : ∀ v, x = .val v → valOk v)
    (hf : ∀ f, flt = some f → f.den ≠ 0) (v : Value) (h : (autoLiteral m x flt).2 = .ok v) : valOk v := by
  unfold autoLiteral at h
  split at h
  · cases h
  · cases h
  · simp only [Conv.ok.injEq] at h; subst h; trivial
  · simp only [Conv.ok.injEq] at h; subst h; trivial
  · split at h
    · split at h
      · split at h
        · next hp => simp only [Conv.ok.injEq] at h; subst h; exact parseXsd_valOk _ _ _ hf _ hp
        · unfold rehomeLit at h; simp only [Conv.ok.injEq] at h; subst h; trivial
        · cases h
      · unfold rehomeLit at h; simp only [Conv.ok.injEq] at h; subst h; trivial
    · simp only [Conv.ok.injEq] at h; subst h; trivial
  · unfold rehomeLit at h
    split at h <;> (simp only [Conv.ok.injEq] at h; subst h; trivial)
  · simp only [Conv.ok.injEq] at h; subst h; exact hx _ rfl

/-- the value `add_attributes` decides to store is of the stored kind -/
theorem convValue_ok (par : Option NsMgr) (m1 : NsMgr) (hm : m1.Inv1) (attr : QName) (a : AttrArg) (ha : ArgOk a) (v : Value)
    (h : (convValue par m1 attr a).2 = .ok v) : (isProvAttr attr = false → StoredOk v) ∧ valOk v := by
  unfold convValue at h
  by_cases href : isRefAttr attr = true
  · simp only [href, if_true] at h
    have hp : isProvAttr attr = true := by simp [isProvAttr, href]
    refine ⟨fun hf => (by rw [hp] at hf; cases hf), ?_⟩
    split at h
    · simp only at h
      split at h
      · simp only [Conv.ok.injEq] at h; subst h; trivial
      · cases h
    · cases h
  · simp only [href, Bool.false_eq_true, if_false] at h
    by_cases htime : isTimeAttr attr = true
    · simp only [htime, if_true] at h
      have hp : isProvAttr attr = true := by simp [isProvAttr, htime]
      refine ⟨fun hf => (by rw [hp] at hf; cases hf), ?_⟩
      split at h
      · simp only [Conv.ok.injEq] at h; subst h; trivial
      · simp only at h
        split at h
        · simp only [Conv.ok.injEq] at h; subst h; trivial
        · cases h
      · cases h
    · simp only [htime, Bool.false_eq_true, if_false] at h
      exact ⟨fun _ => autoLiteral_stored m1 hm a.value a.flt v h, autoLiteral_valOk m1 a.value a.flt ha.1 ha.2 v h⟩

theorem extra_addOne (par : Option NsMgr) (isColl : Bool) (m : NsMgr) (hm : m.Inv1) (r : Record) (a : AttrArg) (ha : ArgOk a)
    (he : Extra r) : Extra (addOne par isColl m r a).2.1 := by
  unfold addOne
  split
  · exact he
  · simp only []
    split
    · exact he
    · next attr hattr =>
      have hm1 : (m.validName par a.name).1.Inv1 := NsMgr.validName_inv1 hm _ _
      split
      · exact he
      · exact he
      · next v hv => exact extra_storeValue he isColl attr v (convValue_ok par _ hm1 attr a ha v hv).1 (convValue_ok par _ hm1 attr a ha v hv).2

theorem addOne_inv1 (par : Option NsMgr) (isColl : Bool) (m : NsMgr) (hm : m.Inv1) (r : Record) (a : AttrArg) :
    (addOne par isColl m r a).1.Inv1 := by
  unfold addOne
  split
  · exact hm
  · simp only []
    have h1 := NsMgr.validName_inv1 hm par a.name
    split
    · exact h1
    · next attr _ =>
      have h2 := convValue_inv1 par _ h1 attr a
      split <;> exact h2

theorem extra_loop (par : Option NsMgr) (isColl : Bool) : ∀ (as : List AttrArg) (m : NsMgr) (r : Record), m.Inv1 →
    (∀ a ∈ as, ArgOk a) → Extra r → Extra (addAttrsLoop par isColl m r as).2.1
  | [], _, _, _, _, he => he
  | a :: rest, m, r, hm, ha, he => by
    unfold addAttrsLoop
    have e1 := extra_addOne par isColl m hm r a (ha a List.mem_cons_self) he
    have i1 := addOne_inv1 par isColl m hm r a
    generalize addOne par isColl m r a = res at e1 i1
    obtain ⟨m', r', e⟩ := res
    cases e with
    | none => exact extra_loop par isColl rest m' r' i1 (fun x hx => ha x (List.mem_cons_of_mem _ hx)) e1
    | some err => exact e1

theorem extra_addAttributes (par : Option NsMgr) (m : NsMgr) (hm : m.Inv1) (r : Record) (as : List AttrArg)
    (ha : ∀ a ∈ as, ArgOk a) (he : Extra r) : Extra (Record.addAttributes par m r as).2.1 :=
  extra_loop par _ as m r hm ha he

/-! ### on the heap -/

def HeapExtra (h : Heap) : Prop := ∀ r, Extra (h.recCell r).r

theorem default_rec_extra : Extra (default : RecCell).r := by
  have h : (default : RecCell).r = ⟨default, none, []⟩ := rfl
  rw [h]
  exact extra_empty _ _

theorem heapExtra_empty : HeapExtra Heap.empty := by
  intro r; simp only [Heap.recCell, Heap.empty]; simpa using default_rec_extra

theorem heapExtra_setMgr {h : Heap} (he : HeapExtra h) (c : Nat) (m : NsMgr) : HeapExtra (h.setMgr c m) := fun r => he r

theorem heapExtra_conts {h : Heap} (he : HeapExtra h) (cs : Array Cont) : HeapExtra { h with conts := cs } := fun r => he r

theorem heapExtra_mgrs {h : Heap} (he : HeapExtra h) (ms : Array MgrCell) : HeapExtra { h with mgrs := ms } := fun r => he r

theorem heapExtra_setRec {h : Heap} (he : HeapExtra h) (r : Nat) (rc : Record) (hr : Extra rc) : HeapExtra (h.setRec r rc) := by
  intro r'
  rcases recCell_setRec h r r' rc with e | e
  · rw [e]; exact he r'
  · rw [e]; exact hr

theorem heapExtra_pushRec {h : Heap} (he : HeapExtra h) (cell : RecCell) (hr : Extra cell.r) :
    HeapExtra { h with recs := h.recs.push cell } := by
  intro r
  simp only [Heap.recCell, Array.getD_eq_getD_getElem?, Array.getElem?_push]
  split
  · simpa using hr
  · have := he r
    simpa [Heap.recCell, Array.getD_eq_getD_getElem?] using this

theorem heapExtra_allocCont {h : Heap} (he : HeapExtra h) (isDoc : Bool) (id : Option QName) (nss : List Ns) (doc : Option Nat) :
    HeapExtra (h.allocCont isDoc id nss doc).1 := by
  unfold Heap.allocCont Heap.allocMgr
  exact fun r => he r

theorem heapExtra_validName {h : Heap} (he : HeapExtra h) (c : Nat) (x : NameArg) : HeapExtra (h.validName c x).1 := by
  unfold Heap.validName
  exact heapExtra_setMgr he c _

theorem heapExtra_mkRecord {h : Heap} (hn : HeapNormal h) (he : HeapExtra h) (c : Nat) (k : RecKind) (id : Option QName)
    (attrs : List AttrArg) (ha : ∀ a ∈ attrs, ArgOk a) : HeapExtra (h.mkRecord c k id attrs).1 := by
  unfold Heap.mkRecord
  split
  · exact he
  · have hres := extra_addAttributes (h.parentOf c) (h.mgrOf c) (mgrOf_inv1 hn c) ⟨k, id, []⟩ attrs ha (extra_empty k id)
    generalize Record.addAttributes (h.parentOf c) (h.mgrOf c) ⟨k, id, []⟩ attrs = res at hres
    obtain ⟨m', rc, e⟩ := res
    simp only
    have h1 := heapExtra_setMgr he c m'
    cases e with
    | some err => exact h1
    | none => exact heapExtra_pushRec h1 ⟨c, rc⟩ hres

theorem heapExtra_addRecordRaw {h : Heap} (he : HeapExtra h) (c r : Nat) : HeapExtra (h.addRecordRaw c r) := by
  unfold Heap.addRecordRaw Heap.setCont
  exact heapExtra_conts he _

theorem heapExtra_newRecord {h : Heap} (hn : HeapNormal h) (he : HeapExtra h) (c : Nat) (k : RecKind) (idArg : NameArg)
    (attrs : List AttrArg) (ha : ∀ a ∈ attrs, ArgOk a) : HeapExtra (h.newRecord c k idArg attrs).1 := by
  unfold Heap.newRecord
  have n1 := heapNormal_validName hn c idArg
  have h1 := heapExtra_validName he c idArg
  generalize h.validName c idArg = res at h1 n1
  obtain ⟨hh, id⟩ := res
  simp only at h1 n1 ⊢
  have h2 := heapExtra_mkRecord n1 h1 c k id attrs ha
  generalize hh.mkRecord c k id attrs = res2 at h2
  obtain ⟨h3, e⟩ := res2
  cases e with
  | ok r => exact heapExtra_addRecordRaw h2 c r
  | error err => exact h2

theorem heapExtra_addAttributes {h : Heap} (hn : HeapNormal h) (he : HeapExtra h) (r : Nat) (attrs : List AttrArg)
    (ha : ∀ a ∈ attrs, ArgOk a) : HeapExtra (h.addAttributes r attrs).1 := by
  unfold Heap.addAttributes
  dsimp only
  have hres := extra_addAttributes (h.parentOf (h.recCell r).bundle) (h.mgrOf (h.recCell r).bundle)
    (mgrOf_inv1 hn _) (h.recCell r).r attrs ha (he r)
  generalize Record.addAttributes (h.parentOf (h.recCell r).bundle) (h.mgrOf (h.recCell r).bundle) (h.recCell r).r attrs = res at hres ⊢
  obtain ⟨m', rc, e⟩ := res
  exact heapExtra_setRec (heapExtra_setMgr he (h.recCell r).bundle m') r rc hres

theorem heapExtra_addAssertedType {h : Heap} (hn : HeapNormal h) (he : HeapExtra h) (r : Nat) (v : ArgVal) (flt : Option FloatAtom)
    (hv : ∀ x, v = .val x → valOk x) (hf : ∀ f, flt = some f → f.den ≠ 0) : HeapExtra (h.addAssertedType r v flt).1 := by
  unfold Heap.addAssertedType
  dsimp only
  have hm := mgrOf_inv1 hn (h.recCell r).bundle
  have hs := autoLiteral_stored (h.mgrOf (h.recCell r).bundle) hm v flt
  have hvo := autoLiteral_valOk (h.mgrOf (h.recCell r).bundle) v flt hv hf
  generalize autoLiteral (h.mgrOf (h.recCell r).bundle) v flt = res at hs hvo
  obtain ⟨m', conv⟩ := res
  simp only at hs hvo ⊢
  cases conv with
  | ok v' => exact heapExtra_setRec (heapExtra_setMgr he _ m') r _ (extra_insert (he r) _ v' (fun _ => hs v' rfl) (hvo v' rfl))
  | isNone => exact heapExtra_setMgr he _ m'
  | crash e => exact heapExtra_setMgr he _ m'

/-- `set_time` replaces a slot: one entry per URI stays one entry per URI -/
theorem attrsReplace_keys (as : List (QName × List Value)) (a : QName) (v : Value)
    (h : (as.map (fun p => p.1.uri)).Nodup) : ((attrsReplace as a v).map (fun p => p.1.uri)).Nodup := by
  induction as with
  | nil => simp [attrsReplace]
  | cons hd tl ih =>
    obtain ⟨k, vs⟩ := hd
    simp only [List.map_cons, List.nodup_cons] at h
    by_cases hk : k.same a = true
    · simp only [attrsReplace, hk, if_true, List.map_cons, List.nodup_cons]
      exact h
    · have hk' : k.same a = false := by simpa using hk
      simp only [attrsReplace, hk', Bool.false_eq_true, if_false, List.map_cons, List.nodup_cons]
      refine ⟨?_, ih h.2⟩
      intro hmem
      obtain ⟨p', hp', hpu⟩ := List.mem_map.mp hmem
      have hsrc : p'.1.uri ∈ tl.map (fun p => p.1.uri) ∨ p'.1.uri = a.uri := by
        clear ih h hmem hpu
        induction tl with
        | nil => simp only [attrsReplace, List.mem_singleton] at hp'; subst hp'; exact Or.inr rfl
        | cons hd2 tl2 ih2 =>
          obtain ⟨k2, vs2⟩ := hd2
          by_cases hk2 : k2.same a = true
          · simp only [attrsReplace, hk2, if_true, List.mem_cons] at hp'
            rcases hp' with rfl | hp'
            · exact Or.inl (by simp)
            · exact Or.inl (List.mem_map.mpr ⟨p', List.mem_cons_of_mem _ hp', rfl⟩)
          · have hk2' : k2.same a = false := by simpa using hk2
            simp only [attrsReplace, hk2', Bool.false_eq_true, if_false, List.mem_cons] at hp'
            rcases hp' with rfl | hp'
            · exact Or.inl (by simp)
            · rcases ih2 hp' with h | h
              · exact Or.inl (List.mem_cons_of_mem _ h)
              · exact Or.inr h
      rcases hsrc with h1 | h1
      · exact h.1 (by rw [← hpu]; exact h1)
      · exact (QName.same_false_iff.mp hk') (by rw [← hpu]; exact h1)

theorem mem_attrsReplace (as : List (QName × List Value)) (a : QName) (v : Value) :
    ∀ p' ∈ attrsReplace as a v, p' ∈ as ∨ (p'.1.uri = a.uri ∧ p'.2 = [v]) := by
  induction as with
  | nil => intro p' hp'; simp only [attrsReplace, List.mem_singleton] at hp'; subst hp'; exact Or.inr ⟨rfl, rfl⟩
  | cons hd tl ih =>
    obtain ⟨k, vs⟩ := hd
    intro p' hp'
    by_cases hk : k.same a = true
    · simp only [attrsReplace, hk, if_true, List.mem_cons] at hp'
      rcases hp' with rfl | hp'
      · exact Or.inr ⟨QName.same_iff.mp hk, rfl⟩
      · exact Or.inl (List.mem_cons_of_mem _ hp')
    · have hk' : k.same a = false := by simpa using hk
      simp only [attrsReplace, hk', Bool.false_eq_true, if_false, List.mem_cons] at hp'
      rcases hp' with rfl | hp'
      · exact Or.inl List.mem_cons_self
      · rcases ih p' hp' with h | h
        · exact Or.inl (List.mem_cons_of_mem _ h)
        · exact Or.inr h

theorem extra_replace {r : Record} (he : Extra r) (a : QName) (v : Value) (hp : isProvAttr a = true) (hv : valOk v) :
    Extra { r with attrs := attrsReplace r.attrs a v } := by
  refine ⟨attrsReplace_keys r.attrs a v he.keys, ?_⟩
  intro x hx
  obtain ⟨p, hpm, e1, e2⟩ := (mem_flat_iff _ x).mp hx
  rcases mem_attrsReplace r.attrs a v p hpm with h | ⟨hu, hvs⟩
  · exact he.vals x ((mem_flat_iff r x).mpr ⟨p, h, e1, e2⟩)
  · rw [hvs] at e2
    simp only [List.mem_singleton] at e2
    have hxp : isProvAttr x.1 = true := by rw [e1, isProvAttr_congr hu]; exact hp
    exact ⟨fun hf => (by rw [hxp] at hf; cases hf), by rw [e2]; exact hv⟩

theorem heapExtra_setTime {h : Heap} (he : HeapExtra h) (r : Nat) (st en : Option Value) (hs : TimeArg st) (hen : TimeArg en) :
    HeapExtra (h.setTime r st en).1 := by
  have step_ok : ∀ (rc : Record) (slot : String) (v : Option Value), Extra rc → TimeArg v → isProvAttr (formalQ slot) = true →
      ∀ rc', (match v with
        | none => (Except.ok rc : Except Err Record)
        | some v => match Heap.ensureDatetime v with
          | .ok v' => .ok { rc with attrs := attrsReplace rc.attrs (formalQ slot) v' }
          | .error e => .error e) = .ok rc' → Extra rc' := by
    intro rc slot v hrc hv ht rc' hres
    cases v with
    | none => simp only [Except.ok.injEq] at hres; rw [← hres]; exact hrc
    | some v =>
      simp only at hres
      cases hed : Heap.ensureDatetime v with
      | error e => rw [hed] at hres; cases hres
      | ok v' =>
        rw [hed] at hres
        simp only [Except.ok.injEq] at hres
        rw [← hres]
        have hdt := c05_setTime_value v hv v' hed
        exact extra_replace hrc _ v' ht (by cases v' <;> simp_all [isDt, valOk])
  unfold Heap.setTime
  dsimp only
  split
  · exact he
  · next rc1 h1 =>
    have n1 := step_ok _ "startTime" st (he r) hs (by decide) rc1 h1
    split
    · exact heapExtra_setRec he r rc1 n1
    · next rc2 h2 =>
      exact heapExtra_setRec he r rc2 (step_ok _ "endTime" en n1 hen (by decide) rc2 h2)

theorem heapExtra_bundle {h : Heap} (he : HeapExtra h) (d : Nat) (idArg : NameArg) : HeapExtra (h.bundle d idArg).1 := by
  unfold Heap.bundle
  split
  · exact he
  · have h1 := heapExtra_validName he d idArg
    generalize h.validName d idArg = res at h1
    obtain ⟨hh, vid⟩ := res
    simp only at h1 ⊢
    cases vid with
    | none => exact h1
    | some q =>
      simp only
      split
      · exact h1
      · have h2 := heapExtra_allocCont h1 false (some q) [] (some d)
        generalize hh.allocCont false (some q) [] (some d) = al at h2
        obtain ⟨h3, nb⟩ := al
        simp only at h2 ⊢
        unfold Heap.setCont
        exact heapExtra_conts h2 _

/-! ### every reachable heap -/

/-- the floats an operation brings along are floats -/
def _root_.Prov.C05.HOp.argsOk : HOp → Prop
  | .newRecord _ _ _ attrs => ∀ a ∈ attrs, ArgOk a
  | .addAttributes _ attrs => ∀ a ∈ attrs, ArgOk a
  | .addAssertedType _ v flt => (∀ x, v = .val x → valOk x) ∧ (∀ f, flt = some f → f.den ≠ 0)
  | _ => True

theorem hstep_extra {h : Heap} (hn : HeapNormal h) (he : HeapExtra h) (op : HOp) (hop : op.ok) (ha : op.argsOk) :
    HeapExtra (hstep h op) := by
  cases op with
  | newDoc nss => exact heapExtra_allocCont he true none nss none
  | newBundle id nss doc => exact heapExtra_allocCont he false id nss doc
  | bundle d id => exact heapExtra_bundle he d id
  | addNs c n => unfold hstep Heap.addNs; exact heapExtra_setMgr he c _
  | setDefault c u => unfold hstep Heap.setDefault; exact heapExtra_setMgr he c _
  | validName c x => exact heapExtra_validName he c x
  | newRecord c k id attrs => exact heapExtra_newRecord hn he c k id attrs ha
  | addAttributes r attrs => exact heapExtra_addAttributes hn he r attrs ha
  | setTime r st en => exact heapExtra_setTime he r st en hop.1 hop.2
  | addAssertedType r v flt => exact heapExtra_addAssertedType hn he r v flt ha.1 ha.2

/-- **every record of every reachable heap is a stored record**: after any sequence of the public mutators, starting from
    nothing, each record cell satisfies `Stored` — the premise of the C09 and C08 theorems about `add_record`, `update`,
    `flattened`, `unified` is an invariant, not an assumption -/
theorem c09_reachable_stored (ops : List HOp) (hops : ∀ op ∈ ops, op.ok ∧ op.argsOk) (r : Nat) :
    Stored ((ops.foldl hstep Heap.empty).recCell r).r := by
  suffices ∀ h, HeapNormal h → HeapExtra h → HeapNormal (ops.foldl hstep h) ∧ HeapExtra (ops.foldl hstep h) by
    obtain ⟨a, b⟩ := this _ heapNormal_empty heapExtra_empty
    exact stored_of_normal_extra (a.2 r) (b r)
  induction ops with
  | nil => intro h hn he; exact ⟨hn, he⟩
  | cons op rest ih =>
    intro h hn he
    have ho := hops op List.mem_cons_self
    exact ih (fun o hm => hops o (List.mem_cons_of_mem _ hm)) _ (hstep_normal hn op ho.1) (hstep_extra hn he op ho.1 ho.2)

/-! ### the rest of `StoredRec`, and indices in range -/

theorem storeValue_kind_id (isColl : Bool) (r : Record) (a : QName) (v : Value) :
    (storeValue isColl r a v).1.kind = r.kind ∧ (storeValue isColl r a v).1.id = r.id := by
  unfold storeValue
  split
  · split
    · split <;> exact ⟨rfl, rfl⟩
    · exact ⟨rfl, rfl⟩
  · exact ⟨rfl, rfl⟩

theorem addOne_kind_id (par : Option NsMgr) (isColl : Bool) (m : NsMgr) (r : Record) (a : AttrArg) :
    (addOne par isColl m r a).2.1.kind = r.kind ∧ (addOne par isColl m r a).2.1.id = r.id := by
  unfold addOne
  split
  · exact ⟨rfl, rfl⟩
  · simp only []
    split
    · exact ⟨rfl, rfl⟩
    · split
      · exact ⟨rfl, rfl⟩
      · exact ⟨rfl, rfl⟩
      · exact storeValue_kind_id _ _ _ _

theorem loop_kind_id (par : Option NsMgr) (isColl : Bool) : ∀ (as : List AttrArg) (m : NsMgr) (r : Record),
    (addAttrsLoop par isColl m r as).2.1.kind = r.kind ∧ (addAttrsLoop par isColl m r as).2.1.id = r.id
  | [], _, _ => ⟨rfl, rfl⟩
  | a :: rest, m, r => by
    unfold addAttrsLoop
    have e1 := addOne_kind_id par isColl m r a
    generalize addOne par isColl m r a = res at e1
    obtain ⟨m', r', e⟩ := res
    cases e with
    | none =>
      have e2 := loop_kind_id par isColl rest m' r'
      exact ⟨e2.1.trans e1.1, e2.2.trans e1.2⟩
    | some err => exact e1

/-- records in range are elements with an identifier or relations; container lists hold indices in range -/
structure WfRecs (h : Heap) : Prop where
  elemId : ∀ r, r < h.recs.size → (h.recCell r).r.kind.isElement = true → (h.recCell r).r.id.isSome = true
  inRange : ∀ c, ∀ r ∈ (h.cont c).records, r < h.recs.size
  idxIn : ∀ c, ∀ e ∈ (h.cont c).idMap, ∀ r ∈ e.2, r ∈ (h.cont c).records

theorem wfRecs_empty : WfRecs Heap.empty := by
  refine ⟨fun r hr => by simp [Heap.empty] at hr, fun c r hr => ?_, fun c e he => ?_⟩
  · have : (Heap.empty.cont c).records = [] := by simp [Heap.empty, Heap.cont]; rfl
    rw [this] at hr
    cases hr
  · have : (Heap.empty.cont c).idMap = [] := by simp [Heap.empty, Heap.cont]; rfl
    rw [this] at he
    cases he

theorem mem_idMapAppend (im : List (QName × List Nat)) (q : QName) (r : Nat) :
    ∀ e ∈ idMapAppend im q r, ∀ x ∈ e.2, x = r ∨ ∃ e' ∈ im, x ∈ e'.2 := by
  induction im with
  | nil =>
    intro e he x hx
    simp only [idMapAppend, List.mem_singleton] at he
    subst he
    simp only [List.mem_singleton] at hx
    exact Or.inl hx
  | cons hd tl ih =>
    obtain ⟨k, rs⟩ := hd
    intro e he x hx
    by_cases hk : k.same q = true
    · simp only [idMapAppend, hk, if_true, List.mem_cons] at he
      rcases he with rfl | he
      · simp only [List.mem_append, List.mem_singleton] at hx
        rcases hx with h1 | h1
        · exact Or.inr ⟨(k, rs), List.mem_cons_self, h1⟩
        · exact Or.inl h1
      · exact Or.inr ⟨e, List.mem_cons_of_mem _ he, hx⟩
    · have hk' : k.same q = false := by simpa using hk
      simp only [idMapAppend, hk', Bool.false_eq_true, if_false, List.mem_cons] at he
      rcases he with rfl | he
      · exact Or.inr ⟨(k, rs), List.mem_cons_self, hx⟩
      · rcases ih e he x hx with h1 | ⟨e', he', hx'⟩
        · exact Or.inl h1
        · exact Or.inr ⟨e', List.mem_cons_of_mem _ he', hx'⟩

theorem cont_setCont_oob (h : Heap) (c c' : Nat) (k : Cont) (hc : ¬ c < h.conts.size) : (h.setCont c k).cont c' = h.cont c' := by
  simp only [setCont, cont, Array.getD_eq_getD_getElem?, Array.getElem?_setIfInBounds]
  split
  · next e => subst e; simp [hc]
  · rfl

theorem wfRecs_setMgr {h : Heap} (hw : WfRecs h) (c : Nat) (m : NsMgr) : WfRecs (h.setMgr c m) := ⟨hw.elemId, hw.inRange, hw.idxIn⟩

theorem wfRecs_setRec {h : Heap} (hw : WfRecs h) (r : Nat) (rc : Record)
    (hk : rc.kind = (h.recCell r).r.kind) (hi : rc.id = (h.recCell r).r.id) : WfRecs (h.setRec r rc) := by
  have hsz : (h.setRec r rc).recs.size = h.recs.size := by simp [setRec]
  constructor
  · intro r' hr' hel
    rw [hsz] at hr'
    by_cases e : r' = r
    · subst e
      rw [recCell_setRec_self h r' rc hr'] at hel ⊢
      simp only at hel ⊢
      rw [hi]; rw [hk] at hel
      exact hw.elemId r' hr' hel
    · rw [recCell_setRec_other h r r' rc e] at hel ⊢
      exact hw.elemId r' hr' hel
  · intro c r' hr'
    rw [hsz]
    exact hw.inRange c r' hr'
  · exact hw.idxIn

theorem wfRecs_allocCont {h : Heap} (hw : WfRecs h) (isDoc : Bool) (id : Option QName) (nss : List Ns) (doc : Option Nat) :
    WfRecs (h.allocCont isDoc id nss doc).1 := by
  constructor
  · exact hw.elemId
  · intro c r hr
    simp only [allocCont, allocMgr, cont, Array.getD_eq_getD_getElem?, Array.getElem?_push] at hr ⊢
    split at hr
    · simp at hr
    · exact hw.inRange c r (by simpa [cont, Array.getD_eq_getD_getElem?] using hr)
  · intro c e he r hr
    simp only [allocCont, allocMgr, cont, Array.getD_eq_getD_getElem?, Array.getElem?_push] at he ⊢
    split at he
    · simp at he
    · next hne =>
      simp only [hne, if_false]
      have := hw.idxIn c e (by simpa [cont, Array.getD_eq_getD_getElem?] using he) r hr
      simpa [cont, Array.getD_eq_getD_getElem?] using this

theorem wfRecs_validName {h : Heap} (hw : WfRecs h) (c : Nat) (x : NameArg) : WfRecs (h.validName c x).1 := by
  unfold Heap.validName
  exact wfRecs_setMgr hw c _

theorem wfRecs_mkRecord {h : Heap} (hw : WfRecs h) (c : Nat) (k : RecKind) (id : Option QName) (attrs : List AttrArg) :
    WfRecs (h.mkRecord c k id attrs).1 ∧ ∀ r, (h.mkRecord c k id attrs).2 = .ok r → r < (h.mkRecord c k id attrs).1.recs.size := by
  unfold Heap.mkRecord
  by_cases hcond : (k.isElement && id.isNone) = true
  · simp only [hcond, if_true]
    exact ⟨hw, fun r hr => by cases hr⟩
  · simp only [hcond, Bool.false_eq_true, if_false]
    have hki := loop_kind_id (h.parentOf c) (isCollectionCall attrs) attrs (h.mgrOf c) ⟨k, id, []⟩
    unfold Record.addAttributes
    generalize addAttrsLoop (h.parentOf c) (isCollectionCall attrs) (h.mgrOf c) ⟨k, id, []⟩ attrs = res at hki
    obtain ⟨m', rc, e⟩ := res
    simp only at hki ⊢
    cases e with
    | some err => exact ⟨wfRecs_setMgr hw c m', fun r hr => by cases hr⟩
    | none =>
      simp only
      refine ⟨⟨?_, ?_, hw.idxIn⟩, fun r hr => ?_⟩
      · intro r hr hel
        simp only [setMgr, Array.size_push] at hr
        by_cases e : r < h.recs.size
        · rw [show (({ (h.setMgr c m') with recs := (h.setMgr c m').recs.push ⟨c, rc⟩ } : Heap).recCell r) = h.recCell r from
            recCell_push_lt (h.setMgr c m') ⟨c, rc⟩ r e] at hel ⊢
          exact hw.elemId r e hel
        · have : r = (h.setMgr c m').recs.size := by simp only [setMgr]; omega
          rw [this, recCell_push_self] at hel ⊢
          simp only at hel ⊢
          rw [hki.2]; rw [hki.1] at hel
          cases hid : id with
          | some q => rfl
          | none => simp [hel, hid] at hcond
      · intro c' r hr
        simp only [setMgr, Array.size_push]
        exact Nat.lt_succ_of_lt (hw.inRange c' r hr)
      · simp only [Except.ok.injEq] at hr
        subst hr
        simp [setMgr]

theorem wfRecs_addRecordRaw {h : Heap} (hw : WfRecs h) (c r : Nat) (hr : r < h.recs.size) : WfRecs (h.addRecordRaw c r) := by
  constructor
  · exact hw.elemId
  · intro c' r' hr'
    unfold addRecordRaw at hr'
    dsimp only at hr'
    by_cases e : c' = c
    · subst e
      by_cases hc : c' < h.conts.size
      · rw [cont_setCont_self h c' _ hc] at hr'
        simp only [List.mem_append, List.mem_singleton] at hr'
        rcases hr' with h1 | rfl
        · exact hw.inRange c' r' h1
        · exact hr
      · rw [cont_setCont_oob h c' c' _ hc] at hr'
        exact hw.inRange c' r' hr'
    · rw [cont_setCont_ne h c c' _ e] at hr'
      exact hw.inRange c' r' hr'
  · intro c' e he x hx
    unfold addRecordRaw at he ⊢
    dsimp only at he ⊢
    by_cases ec : c' = c
    · subst ec
      by_cases hc : c' < h.conts.size
      · rw [cont_setCont_self h c' _ hc] at he ⊢
        simp only [List.mem_append, List.mem_singleton] at he ⊢
        cases hid : (h.recCell r).r.id with
        | none => rw [hid] at he; exact Or.inl (hw.idxIn c' e he x hx)
        | some q =>
          rw [hid] at he
          rcases mem_idMapAppend _ q r e he x hx with h1 | ⟨e', he', hx'⟩
          · exact Or.inr h1
          · exact Or.inl (hw.idxIn c' e' he' x hx')
      · rw [cont_setCont_oob h c' c' _ hc] at he ⊢
        exact hw.idxIn c' e he x hx
    · rw [cont_setCont_ne h c c' _ ec] at he ⊢
      exact hw.idxIn c' e he x hx

theorem wfRecs_newRecord {h : Heap} (hw : WfRecs h) (c : Nat) (k : RecKind) (idArg : NameArg) (attrs : List AttrArg) :
    WfRecs (h.newRecord c k idArg attrs).1 := by
  unfold Heap.newRecord
  have h1 := wfRecs_validName hw c idArg
  generalize h.validName c idArg = res at h1
  obtain ⟨hh, id⟩ := res
  simp only at h1 ⊢
  obtain ⟨h2, hlt⟩ := wfRecs_mkRecord h1 c k id attrs
  generalize hh.mkRecord c k id attrs = res2 at h2 hlt
  obtain ⟨h3, e⟩ := res2
  cases e with
  | ok r => exact wfRecs_addRecordRaw h2 c r (hlt r rfl)
  | error err => exact h2

theorem wfRecs_addAttributes {h : Heap} (hw : WfRecs h) (r : Nat) (attrs : List AttrArg) : WfRecs (h.addAttributes r attrs).1 := by
  unfold Heap.addAttributes
  dsimp only
  have hki := loop_kind_id (h.parentOf (h.recCell r).bundle) (isCollectionCall attrs) attrs (h.mgrOf (h.recCell r).bundle) (h.recCell r).r
  unfold Record.addAttributes
  generalize addAttrsLoop (h.parentOf (h.recCell r).bundle) (isCollectionCall attrs) (h.mgrOf (h.recCell r).bundle) (h.recCell r).r attrs = res at hki ⊢
  obtain ⟨m', rc, e⟩ := res
  exact wfRecs_setRec (wfRecs_setMgr hw _ m') r rc hki.1 hki.2

theorem wfRecs_addAssertedType {h : Heap} (hw : WfRecs h) (r : Nat) (v : ArgVal) (flt : Option FloatAtom) :
    WfRecs (h.addAssertedType r v flt).1 := by
  unfold Heap.addAssertedType
  dsimp only
  generalize autoLiteral (h.mgrOf (h.recCell r).bundle) v flt = res
  obtain ⟨m', conv⟩ := res
  simp only
  cases conv with
  | ok v' => exact wfRecs_setRec (wfRecs_setMgr hw _ m') r _ rfl rfl
  | isNone => exact wfRecs_setMgr hw _ m'
  | crash e => exact wfRecs_setMgr hw _ m'

theorem wfRecs_setTime {h : Heap} (hw : WfRecs h) (r : Nat) (st en : Option Value) : WfRecs (h.setTime r st en).1 := by
  have step_ok : ∀ (rc : Record) (slot : String) (v : Option Value) (rc' : Record), (match v with
        | none => (Except.ok rc : Except Err Record)
        | some v => match Heap.ensureDatetime v with
          | .ok v' => .ok { rc with attrs := attrsReplace rc.attrs (formalQ slot) v' }
          | .error e => .error e) = .ok rc' → rc'.kind = rc.kind ∧ rc'.id = rc.id := by
    intro rc slot v rc' hres
    cases v with
    | none => simp only [Except.ok.injEq] at hres; rw [← hres]; exact ⟨rfl, rfl⟩
    | some v =>
      simp only at hres
      cases hed : Heap.ensureDatetime v with
      | error e => rw [hed] at hres; cases hres
      | ok v' =>
        rw [hed] at hres
        simp only [Except.ok.injEq] at hres
        rw [← hres]; exact ⟨rfl, rfl⟩
  unfold Heap.setTime
  dsimp only
  split
  · exact hw
  · next rc1 h1 =>
    have n1 := step_ok _ "startTime" st rc1 h1
    split
    · exact wfRecs_setRec hw r rc1 n1.1 n1.2
    · next rc2 h2 =>
      have n2 := step_ok _ "endTime" en rc2 h2
      exact wfRecs_setRec hw r rc2 (n2.1.trans n1.1) (n2.2.trans n1.2)

theorem wfRecs_setCont_sameRecords {h : Heap} (hw : WfRecs h) (c : Nat) (k : Cont) (hk : k.records = (h.cont c).records)
    (hk2 : k.idMap = (h.cont c).idMap) : WfRecs (h.setCont c k) := by
  refine ⟨hw.elemId, fun c' r hr => ?_, fun c' e he x hx => ?_⟩
  · by_cases e : c' = c
    · subst e
      by_cases hc : c' < h.conts.size
      · rw [cont_setCont_self h c' _ hc, hk] at hr
        exact hw.inRange c' r hr
      · rw [cont_setCont_oob h c' c' _ hc] at hr
        exact hw.inRange c' r hr
    · rw [cont_setCont_ne h c c' _ e] at hr
      exact hw.inRange c' r hr
  · by_cases ec : c' = c
    · subst ec
      by_cases hc : c' < h.conts.size
      · rw [cont_setCont_self h c' _ hc] at he ⊢
        rw [hk2] at he; rw [hk]
        exact hw.idxIn c' e he x hx
      · rw [cont_setCont_oob h c' c' _ hc] at he ⊢
        exact hw.idxIn c' e he x hx
    · rw [cont_setCont_ne h c c' _ ec] at he ⊢
      exact hw.idxIn c' e he x hx

theorem wfRecs_bundle {h : Heap} (hw : WfRecs h) (d : Nat) (idArg : NameArg) : WfRecs (h.bundle d idArg).1 := by
  unfold Heap.bundle
  split
  · exact hw
  · have h1 := wfRecs_validName hw d idArg
    generalize h.validName d idArg = res at h1
    obtain ⟨hh, vid⟩ := res
    simp only at h1 ⊢
    cases vid with
    | none => exact h1
    | some q =>
      simp only
      split
      · exact h1
      · have h2 := wfRecs_allocCont h1 false (some q) [] (some d)
        generalize hh.allocCont false (some q) [] (some d) = al at h2
        obtain ⟨h3, nb⟩ := al
        simp only at h2 ⊢
        exact wfRecs_setCont_sameRecords h2 d _ rfl rfl

theorem hstep_wf {h : Heap} (hw : WfRecs h) (op : HOp) : WfRecs (hstep h op) := by
  cases op with
  | newDoc nss => exact wfRecs_allocCont hw true none nss none
  | newBundle id nss doc => exact wfRecs_allocCont hw false id nss doc
  | bundle d id => exact wfRecs_bundle hw d id
  | addNs c n => unfold hstep Heap.addNs; exact wfRecs_setMgr hw c _
  | setDefault c u => unfold hstep Heap.setDefault; exact wfRecs_setMgr hw c _
  | validName c x => exact wfRecs_validName hw c x
  | newRecord c k id attrs => exact wfRecs_newRecord hw c k id attrs
  | addAttributes r attrs => exact wfRecs_addAttributes hw r attrs
  | setTime r st en => exact wfRecs_setTime hw r st en
  | addAssertedType r v flt => exact wfRecs_addAssertedType hw r v flt

/-- **the premises of the C09/C08 heap theorems hold of every reachable heap**: after any sequence of the public mutators
    every manager satisfies the C03 invariant, every container lists indices of existing records only, and every one of those
    records is a stored record with the identifier its class requires -/
theorem c09_reachable_wf (ops : List HOp) (hops : ∀ op ∈ ops, op.ok ∧ op.argsOk) :
    let h := ops.foldl hstep Heap.empty
    AllInv1 h ∧ ∀ c, ∀ r ∈ (h.cont c).records, r < h.recs.size ∧ StoredRec (h.recCell r).r := by
  suffices ∀ h, HeapNormal h → HeapExtra h → WfRecs h →
      HeapNormal (ops.foldl hstep h) ∧ HeapExtra (ops.foldl hstep h) ∧ WfRecs (ops.foldl hstep h) by
    obtain ⟨a, b, w⟩ := this _ heapNormal_empty heapExtra_empty wfRecs_empty
    refine ⟨a.1, fun c r hr => ?_⟩
    have hlt := w.inRange c r hr
    exact ⟨hlt, ⟨stored_of_normal_extra (a.2 r) (b r), w.elemId r hlt⟩⟩
  induction ops with
  | nil => intro h hn he hw; exact ⟨hn, he, hw⟩
  | cons op rest ih =>
    intro h hn he hw
    have ho := hops op List.mem_cons_self
    exact ih (fun o hm => hops o (List.mem_cons_of_mem _ hm)) _ (hstep_normal hn op ho.1) (hstep_extra hn he op ho.1 ho.2) (hstep_wf hw op)

/-- the three invariants themselves, for use by other modules -/
theorem reachable_invariants (ops : List HOp) (hops : ∀ op ∈ ops, op.ok ∧ op.argsOk) :
    HeapNormal (ops.foldl hstep Heap.empty) ∧ HeapExtra (ops.foldl hstep Heap.empty) ∧ WfRecs (ops.foldl hstep Heap.empty) := by
  suffices ∀ h, HeapNormal h → HeapExtra h → WfRecs h →
      HeapNormal (ops.foldl hstep h) ∧ HeapExtra (ops.foldl hstep h) ∧ WfRecs (ops.foldl hstep h) from
    this _ heapNormal_empty heapExtra_empty wfRecs_empty
  induction ops with
  | nil => intro h hn he hw; exact ⟨hn, he, hw⟩
  | cons op rest ih =>
    intro h hn he hw
    have ho := hops op List.mem_cons_self
    exact ih (fun o hm => hops o (List.mem_cons_of_mem _ hm)) _ (hstep_normal hn op ho.1) (hstep_extra hn he op ho.1 ho.2) (hstep_wf hw op)

/-- **`flattened()` of any document with bundles, in any reachable heap**, succeeds and yields a fresh document holding, in
    order, one `==` copy of every record of the document and of its bundles; nothing that existed is written -/
theorem c09_flattened_reachable (ops : List HOp) (hops : ∀ op ∈ ops, op.ok ∧ op.argsOk) (d : Nat)
    (hb : ((ops.foldl hstep Heap.empty).cont d).bundles.isEmpty = false) :
    let h := ops.foldl hstep Heap.empty
    let srcs := (h.cont d).records ++ (h.cont d).bundles.flatMap (fun p => (h.cont p.2).records)
    ∃ h' nd news, h.flattened d = (h', .ok nd) ∧ nd = h.conts.size ∧ (h'.cont nd).records = news ∧ news.length = srcs.length ∧
      (∀ p ∈ srcs.zip news, recEq (h.recCell p.1).r (h'.recCell p.2).r = true) ∧
      (∀ r', r' < h.recs.size → h'.recCell r' = h.recCell r') ∧ (∀ c', c' < h.conts.size → h'.cont c' = h.cont c') := by
  intro h srcs
  obtain ⟨hn, hall⟩ := c09_reachable_wf ops hops
  exact c09_flattened_heap h d hn hb (fun r hr => by
    rcases List.mem_append.mp hr with h1 | h1
    · exact hall d r h1
    · obtain ⟨p, _, hp⟩ := List.mem_flatMap.mp h1
      exact hall p.2 r hp)

/-- non-vacuity: a history that builds a document with a bundle and records in both meets the premises, and the document
    has bundles -/
def opsEx : List HOp :=
  [.newDoc [⟨"ex", "http://example.org/"⟩],
   .bundle 0 (.str "ex:b"),
   .newRecord 0 .entity (.str "ex:e") [⟨.str "ex:p", .val (.int 1), none⟩],
   .newRecord 1 .activity (.str "ex:a") []]

example : (∀ op ∈ opsEx, op.ok ∧ op.argsOk) ∧ ((opsEx.foldl hstep Heap.empty).cont 0).bundles.isEmpty = false := by
  refine ⟨?_, by decide⟩
  intro op hop
  simp only [opsEx, List.mem_cons, List.mem_nil_iff, or_false] at hop
  rcases hop with rfl | rfl | rfl | rfl
  · exact ⟨trivial, trivial⟩
  · exact ⟨trivial, trivial⟩
  · refine ⟨(by show isCollectionCall _ = false; decide), fun a ha => ?_⟩
    simp only [List.mem_singleton] at ha
    subst ha
    exact ⟨fun v hv => by cases hv; trivial, fun f hf => by cases hf⟩
  · exact ⟨(by show isCollectionCall _ = false; decide), fun a ha => by cases ha⟩

end Prov.C09

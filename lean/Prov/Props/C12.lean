/-
  C12 — derived documents and copied records share no mutable state with their sources.
  Heap layer: deriving operations allocate fresh cells; mutators write only inside their own
  container's footprint (its container cell, its manager cell, freshly allocated record cells).
-/
import Prov.Lemmas.Frame

namespace Prov.C12
open Prov Heap

/-- mutators of the quantifier that act on a container -/
inductive Mut where
  | addNs (n : Ns)
  | setDefault (u : String)
  | newRecord (k : RecKind) (id : NameArg) (attrs : List AttrArg)

def applyMut (h : Heap) (c : Nat) : Mut → Heap
  | .addNs n => (h.addNs c n).1
  | .setDefault u => h.setDefault c u
  | .newRecord k id attrs => (h.newRecord c k id attrs).1

/-- what an observation of container `c'` reads: its cell, its manager cell, its record cells -/
structure SameView (h h' : Heap) (c' : Nat) : Prop where
  cont : h'.cont c' = h.cont c'
  mgr  : h'.mgrCell (h.cont c').mgr = h.mgrCell (h.cont c').mgr
  recs : ∀ r, r < h.recs.size → h'.recCell r = h.recCell r

/-- **one mutation** on container `c` leaves the view of any container `c'` with another manager
    cell unchanged (derived containers have fresh manager cells by `c12_alloc_fresh`) -/
theorem c12_mut_frame (h : Heap) (c c' : Nat) (m : Mut) (hc : c' ≠ c)
    (hm : (h.cont c').mgr ≠ (h.cont c).mgr) : SameView h (applyMut h c m) c' := by
  cases m with
  | addNs n =>
    exact ⟨rfl, mgrCell_setMgr_ne h c _ _ hm, fun _ _ => rfl⟩
  | setDefault u =>
    exact ⟨rfl, mgrCell_setMgr_ne h c _ _ hm, fun _ _ => rfl⟩
  | newRecord k id attrs =>
    exact ⟨cont_newRecord_ne h c c' k id attrs hc, mgrCell_newRecord_ne h c k id attrs _ hm,
           fun r hr => recCell_newRecord_lt h c k id attrs r hr⟩

theorem recs_size_mono (h : Heap) (c : Nat) (m : Mut) : h.recs.size ≤ (applyMut h c m).recs.size := by
  cases m with
  | addNs n => exact Nat.le_refl _
  | setDefault u => exact Nat.le_refl _
  | newRecord k id attrs => exact recs_size_newRecord h c k id attrs

theorem cont_mgr_stable (h : Heap) (c c' : Nat) (m : Mut) : ((applyMut h c m).cont c').mgr = (h.cont c').mgr := by
  cases m with
  | addNs n => rfl
  | setDefault u => rfl
  | newRecord k id attrs => exact cont_mgr_newRecord h c c' k id attrs

/-- **C12 non-interference**: any sequence of mutations applied to container `c` leaves every
    container `c'` that has a different manager cell exactly as it was — for every follow-up
    mutation sequence, of any length -/
theorem c12_noninterference (h : Heap) (c c' : Nat) (ms : List Mut) (hc : c' ≠ c)
    (hm : (h.cont c').mgr ≠ (h.cont c).mgr) :
    SameView h (ms.foldl (fun h m => applyMut h c m) h) c' := by
  induction ms generalizing h with
  | nil => exact ⟨rfl, rfl, fun _ _ => rfl⟩
  | cons m rest ih =>
    simp only [List.foldl_cons]
    have s1 := c12_mut_frame h c c' m hc hm
    have hm' : ((applyMut h c m).cont c').mgr ≠ ((applyMut h c m).cont c).mgr := by
      rw [cont_mgr_stable, cont_mgr_stable]; exact hm
    have s2 := ih (applyMut h c m) hm'
    refine ⟨s2.cont.trans s1.cont, ?_, ?_⟩
    · have := s2.mgr
      rw [s1.cont] at this
      exact this.trans s1.mgr
    · intro r hr
      exact (s2.recs r (Nat.lt_of_lt_of_le hr (recs_size_mono h c m))).trans (s1.recs r hr)

/-- deriving operations start from a freshly allocated container with a freshly allocated manager:
    its manager cell index is beyond every existing one, so it differs from every source's -/
theorem c12_alloc_fresh (h : Heap) (isDoc : Bool) (id : Option QName) (nss : List Ns) (doc : Option Nat)
    (c : Nat) (hc : c < h.conts.size) (hwf : (h.cont c).mgr < h.mgrs.size) :
    let r := h.allocCont isDoc id nss doc
    r.2 ≠ c ∧ (r.1.cont r.2).mgr ≠ (r.1.cont c).mgr := by
  obtain ⟨h1, h2, h3, _, _⟩ := allocCont_fresh h isDoc id nss doc
  intro r
  refine ⟨by show (h.allocCont isDoc id nss doc).2 ≠ c; rw [h1]; omega, ?_⟩
  show ((h.allocCont isDoc id nss doc).1.cont (h.allocCont isDoc id nss doc).2).mgr ≠
    ((h.allocCont isDoc id nss doc).1.cont c).mgr
  rw [h2, h3 c hc]; omega

end Prov.C12

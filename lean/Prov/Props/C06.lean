/-
  C06 — PROV-N output is well-formed and denotes the same document.
  Lexical layer, for arbitrary Unicode strings: what the printer writes between the quotes is read back by the
  grammar's string-literal productions as exactly the original string, and the literal ends exactly at the
  printer's closing quote(s) — quotes, backslashes, newlines and carriage returns included.
-/
import Prov.ProvN
import Prov.ProvNSpec
import Prov.Generated.Tables

namespace Prov.C06
open Prov ProvNSpec

theorem lexShort_escape (s rest acc : List Char) (hn : '\n' ∉ s) (hr : '\r' ∉ s) :
    lexShort (provnEscape s ++ '"' :: rest) acc = some (acc.reverse ++ s, rest) := by
  induction s generalizing acc with
  | nil => simp [provnEscape, lexShort]
  | cons c cs ih =>
    simp only [List.mem_cons, not_or] at hn hr
    by_cases hb : c = '\\'
    · subst hb
      have := ih ('\\' :: acc) hn.2 hr.2
      simp [provnEscape, lexShort, unescapeChar, this]
    · by_cases hq : c = '"'
      · subst hq
        have := ih ('"' :: acc) hn.2 hr.2
        simp [provnEscape, lexShort, unescapeChar, this]
      · have h1 : (c == '\\') = false := by simpa using hb
        have h2 : (c == '"') = false := by simpa using hq
        have h3 : (c == '\n') = false := by simpa using (Ne.symm hn.1)
        have h4 : (c == '\r') = false := by simpa using (Ne.symm hr.1)
        have := ih (c :: acc) hn.2 hr.2
        simp only [provnEscape, h1, h2, Bool.false_eq_true, if_false, List.cons_append]
        rw [lexShort]
        · simp [h1, h2, h3, h4, this]
        · intro h; exact hq h
        · intro c' rest' h _; exact hb h

theorem lexLong_escape (s rest acc : List Char) :
    lexLong (provnEscape s ++ '"' :: '"' :: '"' :: rest) acc = some (acc.reverse ++ s, rest) := by
  induction s generalizing acc with
  | nil => simp [provnEscape, lexLong]
  | cons c cs ih =>
    by_cases hb : c = '\\'
    · subst hb
      have := ih ('\\' :: acc)
      simp [provnEscape, lexLong, unescapeChar, this]
    · by_cases hq : c = '"'
      · subst hq
        have := ih ('"' :: acc)
        simp [provnEscape, lexLong, unescapeChar, this]
      · have h1 : (c == '\\') = false := by simpa using hb
        have h2 : (c == '"') = false := by simpa using hq
        have := ih (c :: acc)
        simp only [provnEscape, h1, h2, Bool.false_eq_true, if_false, List.cons_append]
        rw [lexLong]
        · simp [h1, this]
        · intro rest' h _; exact hq h
        · intro c' rest' h _; exact hb h

/-- **C06, single-line strings**: the short literal the printer emits for a string without LF/CR is read back
    (STRING_LITERAL2 with ECHAR) as exactly that string, whatever quotes and backslashes it contains -/
theorem c06_short_string_roundtrip (s : String) (rest : List Char)
    (hn : '\n' ∉ s.toList) (hr : '\r' ∉ s.toList) :
    lexShort (provnEscape s.toList ++ '"' :: rest) [] = some (s.toList, rest) := by
  simpa using lexShort_escape s.toList rest [] hn hr

/-- **C06, multi-line strings**: the long literal (triple quotes) is read back (STRING_LITERAL_LONG2) as exactly
    the original string, for every string -/
theorem c06_long_string_roundtrip (s : String) (rest : List Char) :
    lexLong (provnEscape s.toList ++ '"' :: '"' :: '"' :: rest) [] = some (s.toList, rest) := by
  simpa using lexLong_escape s.toList rest []

/-- the printer chooses the long form exactly when the escaped text contains LF or CR — which is exactly when
    the original does (escaping introduces neither) -/
theorem escape_preserves_newlines (s : List Char) (c : Char) (hc : c ≠ '\\' ∧ c ≠ '"') :
    c ∈ provnEscape s ↔ c ∈ s := by
  induction s with
  | nil => simp [provnEscape]
  | cons x xs ih =>
    by_cases hb : x = '\\'
    · subst hb; simp [provnEscape, ih, hc.1]
    · by_cases hq : x = '"'
      · subst hq; simp [provnEscape, ih, hc.1, hc.2]
      · have h1 : (x == '\\') = false := by simpa using hb
        have h2 : (x == '"') = false := by simpa using hq
        simp [provnEscape, h1, h2, ih]

/-- T6 (PROV-N): the grammar's expression names, their PROV-DM types and the positional argument order transcribed in
    the reader are exactly the code's PROV_N_MAP and FORMAL_ATTRIBUTES (elements aside: they have their own productions) -/
theorem t6_provn_productions :
    prods.all (fun p => Gen.kinds.any (fun k => k.2.1 == p.1 && k.1 == p.2.kind && k.2.2.1 == p.2.args.map (·.1))) = true ∧
    Gen.kinds.all (fun k => k.2.2.2.1 || prods.any (fun p => p.1 == k.2.1)) = true := by decide

/-- the first argument of every relation production is mandatory in the grammar -/
theorem t6_provn_first_mandatory : prods.all (fun p => match p.2.args with | (_, opt) :: _ => !opt | [] => false) = true := by
  decide

end Prov.C06

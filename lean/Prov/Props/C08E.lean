/-
  C08, the last step of `unified()` on the heap: the records `_unified_records()` hands over — originals and merged copies —
  are stored records, so `add_record` copies each of them into the new container as an `==` record (C09), in order.
  Together with `c08_unifiedRecords_content`: the records of the unified bundle are, one by one, `==` to the original
  (records that were not merged) or to a record holding exactly the union of the group's pairs.
  Scope: heaps in which no record carries a `prov:collection` attribute *object* (the membership compatibility call form, for
  which `add_attributes` switches its single-value guard off; excluded by C05's statement too).
-/
import Prov.Props.C09E
import Prov.Props.C08D
import Prov.Props.C13B
import Prov.Props.C08

namespace Prov.C08
open Prov Prov.Heap Prov.C05 Prov.C04 Prov.C09

def collU : String := provUri ++ "collection"

/-- no pair of the record is named `prov:collection` -/
def NoCollRec (rc : Record) : Prop := ∀ x ∈ rc.flat, x.1.uri ≠ collU

theorem isCollectionCall_argsOf {rc : Record} (h : NoCollRec rc) : isCollectionCall (argsOf rc) = false := by
  unfold isCollectionCall argsOf
  rw [Bool.eq_false_iff]
  intro hany
  obtain ⟨a, ha, hq⟩ := List.any_eq_true.mp hany
  obtain ⟨p, hp, rfl⟩ := List.mem_map.mp ha
  simp only [beq_iff_eq] at hq
  exact h p hp hq

theorem noColl_insert {r : Record} (h : NoCollRec r) (a : QName) (v : Value) (ha : a.uri ≠ collU) : NoCollRec (r.insert a v) := by
  intro x hx
  rcases (flat_insert r a v).2.2 x hx with h1 | ⟨hu, _⟩
  · exact h x h1
  · rw [hu]; exact ha

theorem noColl_storeValue {r : Record} (h : NoCollRec r) (isColl : Bool) (a : QName) (v : Value) (ha : a.uri ≠ collU) :
    NoCollRec (storeValue isColl r a v).1 := by
  unfold storeValue
  split
  · split
    · split <;> exact h
    · exact h
  · exact noColl_insert h a v ha

theorem noColl_addOne (par : Option NsMgr) (isColl : Bool) (m : NsMgr) (hm : m.Inv1) (r : Record) (q : QName) (v : Value)
    (hq : q.uri ≠ collU) (h : NoCollRec r) : NoCollRec (addOne par isColl m r ⟨.qn q, .val v, none⟩).2.1 := by
  unfold addOne
  simp only [NsMgr.validName]
  have hu := NsMgr.validQ_uri hm q
  split
  · exact h
  · exact h
  · exact noColl_storeValue h _ _ _ (by rw [hu]; exact hq)

theorem noColl_loop (par : Option NsMgr) (isColl : Bool) : ∀ (ps : List (QName × Value)) (m : NsMgr) (r : Record), m.Inv1 →
    (∀ p ∈ ps, p.1.uri ≠ collU) → NoCollRec r →
    NoCollRec (addAttrsLoop par isColl m r (ps.map (fun p => ({ name := .qn p.1, value := .val p.2 } : AttrArg)))).2.1
  | [], _, _, _, _, h => h
  | p :: rest, m, r, hm, hps, h => by
    simp only [List.map_cons]
    unfold addAttrsLoop
    have e1 := noColl_addOne par isColl m hm r p.1 p.2 (hps p List.mem_cons_self) h
    have i1 := addOne_inv1 par isColl m hm r ⟨.qn p.1, .val p.2, none⟩
    generalize addOne par isColl m r ⟨.qn p.1, .val p.2, none⟩ = res at e1 i1
    obtain ⟨m', r', e⟩ := res
    cases e with
    | none => exact noColl_loop par isColl rest m' r' i1 (fun x hx => hps x (List.mem_cons_of_mem _ hx)) e1
    | some err => exact e1

theorem noColl_addAttributes (par : Option NsMgr) (m : NsMgr) (hm : m.Inv1) (target src : Record)
    (ht : NoCollRec target) (hs : NoCollRec src) : NoCollRec (Record.addAttributes par m target (argsOf src)).2.1 :=
  noColl_loop par _ src.flat m target hm hs ht

theorem argsOf_argOk {rc : Record} (he : Extra rc) : ∀ a ∈ argsOf rc, ArgOk a := by
  intro a ha
  obtain ⟨p, hp, rfl⟩ := List.mem_map.mp ha
  exact ⟨fun v hv => by cases hv; exact (he.vals p hp).2, fun f hf => by cases hf⟩

/-- the invariants of `Props/C05B`, `Props/C09E`, and no `prov:collection` attribute anywhere -/
structure Good (h : Heap) : Prop where
  normal : HeapNormal h
  extra : HeapExtra h
  wf : WfRecs h
  noColl : ∀ r, NoCollRec (h.recCell r).r

theorem Good.storedRec {h : Heap} (g : Good h) (r : Nat) (hr : r < h.recs.size) : StoredRec (h.recCell r).r :=
  ⟨stored_of_normal_extra (g.normal.2 r) (g.extra r), g.wf.elemId r hr⟩

theorem Good.allInv1 {h : Heap} (g : Good h) : AllInv1 h := g.normal.1

theorem default_noColl : NoCollRec (default : RecCell).r := by
  have h : (default : RecCell).r = ⟨default, none, []⟩ := rfl
  rw [h]
  intro x hx
  simp [Record.flat] at hx

theorem good_mkRecord_argsOf {h : Heap} (g : Good h) (c : Nat) (k : RecKind) (id : Option QName) (src : Record)
    (hs : NoCollRec src) (he : Extra src) : Good (h.mkRecord c k id (argsOf src)).1 := by
  refine ⟨heapNormal_mkRecord g.normal c k id _ (isCollectionCall_argsOf hs),
    heapExtra_mkRecord g.normal g.extra c k id _ (argsOf_argOk he), (wfRecs_mkRecord g.wf c k id _).1, ?_⟩
  unfold Heap.mkRecord
  split
  · exact g.noColl
  · have hres := noColl_addAttributes (h.parentOf c) (h.mgrOf c) (mgrOf_inv1 g.normal c) ⟨k, id, []⟩ src
      (by intro x hx; simp [Record.flat] at hx) hs
    generalize Record.addAttributes (h.parentOf c) (h.mgrOf c) ⟨k, id, []⟩ (argsOf src) = res at hres
    obtain ⟨m', rc, e⟩ := res
    simp only at hres ⊢
    cases e with
    | some err => exact g.noColl
    | none =>
      intro r
      simp only [Heap.recCell, Heap.setMgr, Array.getD_eq_getD_getElem?, Array.getElem?_push]
      split
      · simpa using hres
      · have := g.noColl r
        simpa [Heap.recCell, Array.getD_eq_getD_getElem?] using this

theorem good_addAttributes_argsOf {h : Heap} (g : Good h) (mref : Nat) (src : Record)
    (hs : NoCollRec src) (he : Extra src) : Good (h.addAttributes mref (argsOf src)).1 := by
  refine ⟨heapNormal_addAttributes g.normal mref _ (isCollectionCall_argsOf hs),
    heapExtra_addAttributes g.normal g.extra mref _ (argsOf_argOk he), wfRecs_addAttributes g.wf mref _, ?_⟩
  unfold Heap.addAttributes
  dsimp only
  have hres := noColl_addAttributes (h.parentOf (h.recCell mref).bundle) (h.mgrOf (h.recCell mref).bundle)
    (mgrOf_inv1 g.normal _) (h.recCell mref).r src (g.noColl mref) hs
  generalize Record.addAttributes (h.parentOf (h.recCell mref).bundle) (h.mgrOf (h.recCell mref).bundle) (h.recCell mref).r (argsOf src) = res at hres ⊢
  obtain ⟨m', rc, e⟩ := res
  intro r'
  rcases recCell_setRec (h.setMgr (h.recCell mref).bundle m') mref r' rc with e1 | e1
  · rw [e1]; exact g.noColl r'
  · rw [e1]; exact hres

theorem good_copyRecord {h : Heap} (g : Good h) (r0 : Nat) : Good (h.copyRecord r0).1 :=
  good_mkRecord_argsOf g _ _ _ (h.recCell r0).r (g.noColl r0) (g.extra r0)

theorem good_mergeGo (mref : Nat) : ∀ (rs : List Nat) (h : Heap), Good h → Good (mergeGroup.go mref h rs).1
  | [], _, g => g
  | r :: more, h, g => by
    unfold mergeGroup.go
    simp only []
    have s1 := good_addAttributes_argsOf g mref (h.recCell r).r (g.noColl r) (g.extra r)
    have e : argsOf (h.recCell r).r = (h.recCell r).r.flat.map (fun p => ({ name := .qn p.1, value := .val p.2 } : AttrArg)) := rfl
    rw [e] at s1
    generalize h.addAttributes mref ((h.recCell r).r.flat.map (fun p => ({ name := .qn p.1, value := .val p.2 } : AttrArg))) = res at s1
    obtain ⟨h', e⟩ := res
    cases e with
    | none => exact good_mergeGo mref more h' s1
    | some err => exact s1

theorem good_allocCont {h : Heap} (g : Good h) (isDoc : Bool) (id : Option QName) (nss : List Ns) (doc : Option Nat) :
    Good (h.allocCont isDoc id nss doc).1 :=
  ⟨heapNormal_allocCont g.normal isDoc id nss doc, heapExtra_allocCont g.extra isDoc id nss doc,
    wfRecs_allocCont g.wf isDoc id nss doc, fun r => by
      have : (h.allocCont isDoc id nss doc).1.recCell r = h.recCell r := by simp [recCell, allocCont, allocMgr]
      rw [this]; exact g.noColl r⟩

theorem good_scratchCopy {h : Heap} (g : Good h) (r0 : Nat) : Good (h.scratchCopy r0).1 := by
  unfold scratchCopy
  simp only []
  have g0 := good_allocCont g false none [] none
  have hcell : ∀ r, (h.allocCont false none [] none).1.recCell r = h.recCell r := fun r => by simp [recCell, allocCont, allocMgr]
  generalize h.allocCont false none [] none = al at g0 hcell
  obtain ⟨h0, sc⟩ := al
  exact good_mkRecord_argsOf g0 sc _ _ (h.recCell r0).r (g.noColl r0) (g.extra r0)

theorem good_mergeGroup {h : Heap} (g : Good h) (rs : List Nat) : Good (h.mergeGroup rs).1 := by
  unfold mergeGroup
  cases rs with
  | nil => exact g
  | cons r0 rest =>
    simp only []
    have s1 := good_scratchCopy g r0
    generalize h.scratchCopy r0 = res at s1
    obtain ⟨h1, e⟩ := res
    cases e with
    | error err => exact s1
    | ok mref =>
      simp only []
      have s2 := good_mergeGo mref rest h1 s1
      generalize mergeGroup.go mref h1 rest = res2 at s2
      obtain ⟨h2, e2⟩ := res2
      cases e2 <;> exact s2

theorem good_mergeAll : ∀ (gs : List (List Nat)) (h : Heap) (acc : List (Nat × Nat)), Good h →
    Good (unifiedRecords.mergeAll h acc gs).1
  | [], _, _, g => g
  | grp :: gs, h, acc, g => by
    unfold unifiedRecords.mergeAll
    have s1 := good_mergeGroup g grp
    generalize h.mergeGroup grp = res at s1
    obtain ⟨h1, e⟩ := res
    cases e with
    | error err => exact s1
    | ok mref => exact good_mergeAll gs h1 _ s1

theorem good_unifiedRecords {h : Heap} (g : Good h) (c : Nat) : Good (h.unifiedRecords c).1 := by
  unfold unifiedRecords
  simp only []
  have s1 := good_mergeAll (((h.cont c).idMap.flatMap (fun e => (groupByKind h e.2).map (·.2))).filter (fun g => g.length > 1)) h [] g
  generalize unifiedRecords.mergeAll h [] _ = res at s1
  obtain ⟨h1, e⟩ := res
  cases e <;> exact s1

/-- **`ProvBundle.unified()` on the heap, end to end**: in a heap that satisfies the reachable invariants (and holds no
    `prov:collection` attribute), a successful `unified()` of container `c` allocates one new container whose records are, in
    order, `==` copies of the list `_unified_records()` computed — the records of `c` with each group of same-identifier,
    same-kind records replaced, at the place of its first member, by one record holding exactly the union of the group's pairs
    (`GoodMap`) — and writes no record that existed -/
theorem c08_unifiedBundle_content (h : Heap) (c : Nat) (g : Good h)
    (h' : Heap) (nb : Nat) (hres : h.unifiedBundle c = (h', .ok nb)) :
    ∃ h1 mp news, GoodMap h h1 (groupsOf h c) mp ∧ (∀ r, r < h.recs.size → h1.recCell r = h.recCell r) ∧
      nb = h1.conts.size ∧ (h'.cont nb).records = news ∧
      news.length = (placeMerged mp (h.cont c).records).length ∧
      (∀ p ∈ (placeMerged mp (h.cont c).records).zip news, recEq (h1.recCell p.1).r (h'.recCell p.2).r = true) ∧
      (∀ r, r < h1.recs.size → h'.recCell r = h1.recCell r) ∧ h1.recs.size ≤ h'.recs.size ∧
      unifiedRecords.mergeAll h [] (groupsOf h c) = (h1, .ok mp) := by
  unfold unifiedBundle at hres
  have g1 := good_unifiedRecords g c
  have hsz := (C13.frameB_unifiedRecords 0 0 h c (Nat.zero_le _) (Nat.zero_le _)).rsize
  cases hur : h.unifiedRecords c with
  | mk h1 e =>
    rw [hur] at hres g1 hsz
    simp only at g1 hsz
    cases e with
    | error err => simp at hres
    | ok rs =>
      simp only at hres
      obtain ⟨mp, hrs, hgm, hframe, _, hmaeq⟩ := c08_unifiedRecords_content h c g.allInv1
        (fun e he r hr => ⟨g.wf.inRange c r (g.wf.idxIn c e he r hr), (stored_of_normal_extra (g.normal.2 r) (g.extra r)).pairs⟩) h1 rs hur
      obtain ⟨a1, _, _, _, a5⟩ := allocCont_fresh h1 false (h1.cont c).id [] none
      have hn2 := allInv1_allocCont h1 g1.allInv1 false (h1.cont c).id none
      generalize hal : h1.allocCont false (h1.cont c).id [] none = al at hres a1 a5 hn2
      obtain ⟨h2, nb'⟩ := al
      simp only at hres a1 a5 hn2
      have hsz2 : h2.conts.size = h1.conts.size + 1 := by
        have := congrArg (fun p => p.1.conts.size) hal
        simp only [allocCont, allocMgr, Array.size_push] at this
        exact this.symm
      have hrecs2 : ∀ r, h2.recCell r = h1.recCell r := fun r => by simp [recCell, a5]
      have hempty : (h2.cont nb').records = [] := by
        have := congrArg (fun p => (p.1.cont p.2).records) hal
        simp only at this
        rw [← this]
        simp [allocCont, allocMgr, cont, Array.getD_eq_getD_getElem?]
      have hsrc : ∀ r ∈ rs, r < h2.recs.size ∧ StoredRec (h2.recCell r).r := by
        intro r hr
        have hlt : r < h1.recs.size := by
          rw [hrs] at hr
          rcases c08_nothing_invented mp _ r hr with h3 | ⟨e, he, rfl⟩
          · exact Nat.lt_of_lt_of_le (g.wf.inRange c r h3) hsz
          · obtain ⟨_, _, _, _, hlt, _⟩ := hgm.sound e he
            exact hlt
        exact ⟨by rw [a5]; exact hlt, by rw [hrecs2]; exact g1.storedRec r hlt⟩
      obtain ⟨h3, news, f1, f2, flen, f3, f4, _, _, _, _⟩ := c09_addRecords_heap nb' rs h2
        (by rw [hsz2, a1]; exact Nat.lt_succ_self _) hn2 hsrc
      rw [f1] at hres
      simp only [Prod.mk.injEq, Except.ok.injEq] at hres
      obtain ⟨rfl, rfl⟩ := hres
      have hgrow : h1.recs.size ≤ h3.recs.size := by
        have := (C13.frameB_addRecords 0 0 nb' (Nat.zero_le _) rs h2 (Nat.zero_le _)).rsize
        rw [f1, a5] at this
        exact this
      refine ⟨h1, mp, news, hgm, hframe, a1, by rw [f2, hempty]; simp, by rw [flen, hrs], ?_, ?_, hgrow, hmaeq⟩
      · intro p hp
        rw [← hrs] at hp
        have := (f3 p hp).1
        rw [hrecs2] at this
        exact this
      · intro r hr
        rw [f4 r (by rw [a5]; exact hr), hrecs2]

/-- the same for every heap the public mutators can reach (`Props/C09E`), as long as no record carries a `prov:collection`
    attribute: no hypothesis about records, managers or indices is left -/
theorem c08_unifiedBundle_reachable (ops : List HOp) (hops : ∀ op ∈ ops, op.ok ∧ op.argsOk)
    (hnc : ∀ r, NoCollRec ((ops.foldl hstep Heap.empty).recCell r).r) (c : Nat)
    (h' : Heap) (nb : Nat) (hres : (ops.foldl hstep Heap.empty).unifiedBundle c = (h', .ok nb)) :
    let h := ops.foldl hstep Heap.empty
    ∃ h1 mp news, GoodMap h h1 (groupsOf h c) mp ∧ (∀ r, r < h.recs.size → h1.recCell r = h.recCell r) ∧
      nb = h1.conts.size ∧ (h'.cont nb).records = news ∧
      news.length = (placeMerged mp (h.cont c).records).length ∧
      (∀ p ∈ (placeMerged mp (h.cont c).records).zip news, recEq (h1.recCell p.1).r (h'.recCell p.2).r = true) ∧
      (∀ r, r < h1.recs.size → h'.recCell r = h1.recCell r) ∧ h1.recs.size ≤ h'.recs.size ∧
      unifiedRecords.mergeAll h [] (groupsOf h c) = (h1, .ok mp) := by
  obtain ⟨a, b, w⟩ := reachable_invariants ops hops
  exact c08_unifiedBundle_content _ c ⟨a, b, w, hnc⟩ h' nb hres

/-- non-vacuity: a reachable heap with two records under one identifier; `unified()` of the document succeeds -/
def opsDup : List HOp :=
  [.newDoc [⟨"ex", "http://example.org/"⟩],
   .newRecord 0 .entity (.str "ex:e") [⟨.str "ex:p", .val (.int 1), none⟩],
   .newRecord 0 .entity (.str "ex:e") [⟨.str "ex:q", .val (.str "two"), none⟩]]

example : ∃ h' nb, (opsDup.foldl hstep Heap.empty).unifiedBundle 0 = (h', .ok nb) ∧ (h'.cont nb).records.length = 1 :=
  ⟨_, _, rfl, by decide⟩

end Prov.C08

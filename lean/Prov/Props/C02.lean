/-
  C02 — PROV-XML round trip.
  The heart of the property is the xsi:type decision web of the writer: for every value kind, for both
  values of force_types, the child element the writer emits is read back by `_extract_attributes` as a
  value that `add_attributes` stores as the original value (same Python kind, same URIs).
-/
import Std.Data.String.ToInt
import Prov.Xml
import Prov.Lemmas.Text
import Prov.Lemmas.Iso
import Prov.Lemmas.NsMgr

namespace Prov.C02
open Prov Text

/-- the three predeclared prefixes are bound as `serialize_bundle` binds them -/
structure StdMap (nsmap : List (Option String × String)) : Prop where
  xsd : nsmapGet nsmap (some "xsd") = some xmlXsdUri
  prov : nsmapGet nsmap (some "prov") = some provUri

theorem xmlQName_xsd {nsmap : List (Option String × String)} (h : StdMap nsmap) (l : String) :
    xmlQName nsmap ("xsd:" ++ l) = .ok ⟨nsXsd, l⟩ := by
  have hs : splitAt1 ':' ("xsd:" ++ l).toList = some ("xsd".toList, l.toList) := by
    have : ("xsd:" ++ l).toList = "xsd".toList ++ ':' :: l.toList := by
      simp [String.toList_append]
    rw [this]
    exact splitAt1_append ':' _ _ (by decide)
  unfold xmlQName
  rw [hs]
  simp [h.xsd]

/-- an attribute that is neither a reference attribute nor prov:time / prov:label -/
structure PlainAttr (attr : QName) : Prop where
  notRef : isRefAttr attr = false
  notTime : (attr.uri == provUri ++ "time") = false
  notLabel : (attr.uri == provUri ++ "label") = false

/-- the value the reader extracts from the child element written for (attr, value) -/
def readBack (nsmap : List (Option String × String)) (ft : Bool) (attr : QName) (v : Value) : Except Err ArgVal :=
  (extractAttr { childNode attr (encodeXmlAttr ft attr v) with nsmap := nsmap, pfx := some "p" }).map (·.2)

/-- reading a child that carries only xsi:type="xsd:<l>" (l ≠ QName) and text t -/
theorem readBack_typed (nsmap) (hstd : StdMap nsmap) (ft : Bool) (attr : QName) (v : Value) (l t : String)
    (hname : ∃ q, xmlQName nsmap ("p:" ++ attr.loc) = .ok q)
    (henc : encodeXmlAttr ft attr v = { xsiType := some ("xsd:" ++ l), lang := none, ref := none, text := some t })
    (hl : ((⟨nsXsd, l⟩ : QName).uri == xsdUri ++ "QName") = false) :
    readBack nsmap ft attr v = .ok (.val (.lit t (some ⟨nsXsd, l⟩) none)) := by
  obtain ⟨q, hq⟩ := hname
  have hx := xmlQName_xsd hstd l
  have hl' : ¬ ((⟨nsXsd, l⟩ : QName).uri = xsdUri ++ "QName") := by simpa using hl
  simp [readBack, extractAttr, xmlNameStr, xmlValue, xmlValueStep, childNode, henc, hq, hx, hl', Except.map]

/-- reading a child without XML attributes: the text itself -/
theorem readBack_plain (nsmap) (ft : Bool) (attr : QName) (v : Value) (t : String)
    (hname : ∃ q, xmlQName nsmap ("p:" ++ attr.loc) = .ok q)
    (henc : encodeXmlAttr ft attr v = { xsiType := none, lang := none, ref := none, text := some t }) :
    readBack nsmap ft attr v = .ok (.val (.str t)) := by
  obtain ⟨q, hq⟩ := hname
  simp [readBack, extractAttr, xmlNameStr, xmlValue, xmlValueStep, childNode, henc, hq, Except.map]

/-- **int**: written with xsi:type="xsd:int" for both force_types values, read back as Literal(text, xsd:int), stored as the int -/
theorem c02_int (nsmap) (hstd : StdMap nsmap) (ft : Bool) (attr : QName) (ha : PlainAttr attr)
    (hname : ∃ q, xmlQName nsmap ("p:" ++ attr.loc) = .ok q) (n : Int)
    (hlex : strStartsWithProv (toString n) = false) (m : NsMgr) :
    ∃ av, readBack nsmap ft attr (.int n) = .ok av ∧ (autoLiteral m av none).2 = .ok (.int n) := by
  have hp : xsdParserOf (⟨nsXsd, "int"⟩ : QName) = some .int := by decide
  have henc : encodeXmlAttr ft attr (.int n) = { xsiType := some ("xsd:" ++ "int"), lang := none, ref := none, text := some (toString n) } := by
    have hlex' : strStartsWithProv n.repr = false := hlex
    simp [encodeXmlAttr, ha.notRef, ha.notTime, ha.notLabel, Value.pyStrFull, Value.pyStr, hlex']
  refine ⟨_, readBack_typed nsmap hstd ft attr _ "int" _ hname henc (by decide), ?_⟩
  have : (toString n).toInt? = some n := Int.toInt?_repr n
  simp only [autoLiteral, hp, parseXsd, parseInt, this]

/-- **datetime** (as an attribute value outside the PROV namespace): xsi:type="xsd:dateTime", text `isoformat()`;
    read back and stored as the same date-time — for every valid date-time (`parseIso_iso`) -/
theorem c02_datetime (nsmap) (hstd : StdMap nsmap) (ft : Bool) (attr : QName) (ha : PlainAttr attr)
    (hname : ∃ q, xmlQName nsmap ("p:" ++ attr.loc) = .ok q) (t : DateTime) (hv : ValidDT t)
    (hpfx : attr.ns.pfx ≠ "prov") (hlex : strStartsWithProv (Value.dt t).pyStrFull = false) (m : NsMgr) :
    ∃ av, readBack nsmap ft attr (.dt t) = .ok av ∧ (autoLiteral m av none).2 = .ok (.dt t) := by
  have hp : xsdParserOf (⟨nsXsd, "dateTime"⟩ : QName) = some .dateTime := by decide
  have hpfx' : (attr.ns.pfx != "prov") = true := by simpa using hpfx
  have henc : encodeXmlAttr ft attr (.dt t) = { xsiType := some ("xsd:" ++ "dateTime"), lang := none, ref := none, text := some t.iso } := by
    simp [encodeXmlAttr, ha.notRef, ha.notTime, ha.notLabel, hlex, hpfx']
  refine ⟨_, readBack_typed nsmap hstd ft attr _ "dateTime" _ hname henc (by decide), ?_⟩
  simp only [autoLiteral, hp, parseXsd, parseIso_iso t hv]

/-- **bool**: xsi:type="xsd:boolean", text lower-cased; read back and stored as the bool -/
theorem c02_bool (nsmap) (hstd : StdMap nsmap) (ft : Bool) (attr : QName) (ha : PlainAttr attr)
    (hname : ∃ q, xmlQName nsmap ("p:" ++ attr.loc) = .ok q) (b : Bool) (m : NsMgr)
    (hlow : parseBoolean (if b then "True" else "False").toLower = some b) :
    ∃ av, readBack nsmap ft attr (.bool b) = .ok av ∧ (autoLiteral m av none).2 = .ok (.bool b) := by
  have hp : xsdParserOf (⟨nsXsd, "boolean"⟩ : QName) = some .boolean := by decide
  have hs : strStartsWithProv (if b then "True" else "False") = false := by cases b <;> decide
  have henc : encodeXmlAttr ft attr (.bool b) =
      { xsiType := some ("xsd:" ++ "boolean"), lang := none, ref := none, text := some (if b then "True" else "False").toLower } := by
    simp [encodeXmlAttr, ha.notRef, ha.notTime, ha.notLabel, Value.pyStrFull, Value.pyStr, hs]
  refine ⟨_, readBack_typed nsmap hstd ft attr _ "boolean" _ hname henc (by decide), ?_⟩
  simp only [autoLiteral, hp, parseXsd, hlow]

/-- **URI (Identifier)**: xsi:type="xsd:anyURI" -/
theorem c02_uri (nsmap) (hstd : StdMap nsmap) (ft : Bool) (attr : QName) (ha : PlainAttr attr)
    (hname : ∃ q, xmlQName nsmap ("p:" ++ attr.loc) = .ok q) (u : String) (hlex : strStartsWithProv u = false) (m : NsMgr) :
    ∃ av, readBack nsmap ft attr (.uri u) = .ok av ∧ (autoLiteral m av none).2 = .ok (.uri u) := by
  have hp : xsdParserOf (⟨nsXsd, "anyURI"⟩ : QName) = some .anyURI := by decide
  have henc : encodeXmlAttr ft attr (.uri u) = { xsiType := some ("xsd:" ++ "anyURI"), lang := none, ref := none, text := some u } := by
    simp [encodeXmlAttr, ha.notRef, ha.notTime, ha.notLabel, Value.pyStrFull, Value.pyStr, hlex]
  refine ⟨_, readBack_typed nsmap hstd ft attr _ "anyURI" _ hname henc (by decide), ?_⟩
  simp only [autoLiteral, hp, parseXsd]

/-- **float**: xsi:type="xsd:double" with the repr as text (given `float(repr x) = x`, A-LEX: hint `f`) -/
theorem c02_float (nsmap) (hstd : StdMap nsmap) (ft : Bool) (attr : QName) (ha : PlainAttr attr)
    (hname : ∃ q, xmlQName nsmap ("p:" ++ attr.loc) = .ok q) (f : FloatAtom)
    (hlex : strStartsWithProv f.repr = false) (m : NsMgr) :
    ∃ av, readBack nsmap ft attr (.float f) = .ok av ∧ (autoLiteral m av (some f)).2 = .ok (.float f) := by
  have hp : xsdParserOf (⟨nsXsd, "double"⟩ : QName) = some .double := by decide
  have henc : encodeXmlAttr ft attr (.float f) = { xsiType := some ("xsd:" ++ "double"), lang := none, ref := none, text := some f.repr } := by
    simp [encodeXmlAttr, ha.notRef, ha.notTime, ha.notLabel, Value.pyStrFull, Value.pyStr, hlex]
  refine ⟨_, readBack_typed nsmap hstd ft attr _ "double" _ hname henc (by decide), ?_⟩
  simp only [autoLiteral, hp, parseXsd]

/-- **string**: plain text, or xsi:type="xsd:string" (force_types, or on prov:type/location/value) — both are
    read back and stored as the same string, also when the string happens to start with "prov:" -/
theorem c02_str (nsmap) (hstd : StdMap nsmap) (ft : Bool) (attr : QName) (ha : PlainAttr attr)
    (hname : ∃ q, xmlQName nsmap ("p:" ++ attr.loc) = .ok q) (s : String) (m : NsMgr) :
    ∃ av, readBack nsmap ft attr (.str s) = .ok av ∧ (autoLiteral m av none).2 = .ok (.str s) := by
  have hp : xsdParserOf (⟨nsXsd, "string"⟩ : QName) = some .str := by decide
  have hcases : encodeXmlAttr ft attr (.str s) = { xsiType := some ("xsd:" ++ "string"), lang := none, ref := none, text := some s } ∨
      encodeXmlAttr ft attr (.str s) = { xsiType := none, lang := none, ref := none, text := some s } := by
    simp only [encodeXmlAttr, ha.notRef, ha.notTime, ha.notLabel, Value.pyStrFull, Value.pyStr]
    split <;> simp_all
  rcases hcases with henc | henc
  · refine ⟨_, readBack_typed nsmap hstd ft attr _ "string" _ hname henc (by decide), ?_⟩
    simp only [autoLiteral, hp, parseXsd]
  · exact ⟨_, readBack_plain nsmap ft attr _ s hname henc, rfl⟩

/-- **reference attribute** (prov:entity, prov:activity, …): written as prov:ref="prefix:local"; read back as the
    name the element's namespace map gives that string — the same URI when the name is readable there -/
theorem c02_ref (nsmap) (ft : Bool) (attr : QName) (href : isRefAttr attr = true)
    (hname : ∃ q, xmlQName nsmap ("p:" ++ attr.loc) = .ok q) (q : QName) (hne : q.print ≠ "")
    (q' : QName) (hres : xmlQName nsmap q.print = .ok q') (huri : q'.uri = q.uri) (m : NsMgr) (hm : m.Inv1) :
    ∃ av, readBack nsmap ft attr (.qn q) = .ok av ∧
      ∃ v', (m.validName none (match av.toNameArg with | some na => na | none => .nil)).2 = some v' ∧ v'.uri = q.uri := by
  obtain ⟨t, ht⟩ := hname
  have hne' : (q.print != "") = true := by simpa using hne
  have henc : encodeXmlAttr ft attr (.qn q) = { xsiType := none, lang := none, ref := some q.print, text := none } := by
    simp [encodeXmlAttr, href, hne', Value.pyStrFull, Value.pyStr]
  refine ⟨.val (.qn q'), ?_, (m.validQ q').2, ?_, ?_⟩
  · simp [readBack, extractAttr, xmlNameStr, xmlValue, xmlValueStep, childNode, henc, ht, hres, Except.map]
  · simp [ArgVal.toNameArg, NsMgr.validName]
  · rw [NsMgr.validQ_uri hm q', huri]

/-- **language-tagged string** (also on prov:label): xml:lang carries the tag, no xsi:type; comes back as the same
    text with the same tag and datatype prov:InternationalizedString -/
theorem c02_lang (nsmap) (ft : Bool) (attr : QName) (hnr : isRefAttr attr = false)
    (hname : ∃ q, xmlQName nsmap ("p:" ++ attr.loc) = .ok q) (v l : String) (hl : l ≠ "") :
    readBack nsmap ft attr (.lit v (some (provQ "InternationalizedString")) (some l)) =
      .ok (.val (.lit v (some (provQ "InternationalizedString")) (some l))) := by
  obtain ⟨t, ht⟩ := hname
  have hu : ((provQ "InternationalizedString").uri == provUri ++ "InternationalizedString") = true := by decide
  have henc : encodeXmlAttr ft attr (.lit v (some (provQ "InternationalizedString")) (some l)) =
      { xsiType := none, lang := some l, ref := none, text := some v } := by
    simp [encodeXmlAttr, hnr, hu, Value.pyStrFull]
  simp [readBack, extractAttr, xmlNameStr, xmlValue, xmlValueStep, childNode, henc, ht, Except.map, hl]

/-! ### the subtype element consumes exactly one pair -/

/-- **`_derive_record_label`, nothing lost**: either no prov:type names a PROV subtype of the record's kind and the attribute
    list is written as it is under the kind's own element, or exactly one pair — the first such prov:type, a qualified name
    `q` — is taken out *by position* (every other pair, an equal one included, stays in place and in order) and the element
    is the one the table gives for `q` -/
theorem c02_deriveLabel_exact (k : RecKind) (attrs : List (QName × Value)) :
    ((∀ p ∈ attrs, isSubtypePair k p = false) ∧ deriveLabel k attrs = (k.provN, attrs)) ∨
    (∃ a q l₁ l₂, attrs = l₁ ++ (a, .qn q) :: l₂ ∧ (∀ p ∈ l₁, isSubtypePair k p = false) ∧
      isSubtypePair k (a, .qn q) = true ∧ (deriveLabel k attrs).2 = l₁ ++ l₂ ∧
      ∃ s ∈ subtypeTable, q.uri = provUri ++ s.1 ∧ s.2.2 = k ∧
        (deriveLabel k attrs).1 = (match subtypeTable.find? (fun s => q.uri == provUri ++ s.1) with
          | some s => s.2.1 | none => k.provN)) := by
  cases hf : attrs.find? (isSubtypePair k) with
  | none =>
    left
    refine ⟨fun p hp => ?_, by simp [deriveLabel, hf]⟩
    have := List.find?_eq_none.mp hf p hp
    simpa using this
  | some p =>
    right
    obtain ⟨a, v⟩ := p
    have hp : isSubtypePair k (a, v) = true := List.find?_some hf
    have hmem : (a, v) ∈ attrs := List.mem_of_find?_eq_some hf
    cases v with
    | qn q =>
      obtain ⟨l₁, l₂, h1, h2⟩ := List.find?_eq_some_iff_append.mp hf |>.2
      have herase : attrs.eraseP (isSubtypePair k) = l₁ ++ l₂ := by
        rw [h1]
        rw [List.eraseP_append_right _ (by intro b hb; simpa using h2 b hb)]
        simp [hp]
      have htab : ∃ s ∈ subtypeTable, q.uri = provUri ++ s.1 ∧ s.2.2 = k := by
        simp only [isSubtypePair, Bool.and_eq_true, List.any_eq_true, beq_iff_eq] at hp
        obtain ⟨_, s, hs, h3, h4⟩ := hp
        exact ⟨s, hs, h3, h4⟩
      refine ⟨a, q, l₁, l₂, h1, fun p hp' => by simpa using h2 p hp', hp, ?_, ?_⟩
      · simp [deriveLabel, hf, herase]
      · obtain ⟨s, hs, h3, h4⟩ := htab
        exact ⟨s, hs, h3, h4, by rw [deriveLabel, hf]; rfl⟩
    | _ => simp [isSubtypePair] at hp

/-- the defect repaired by the fix "remove that very pair": with removal by `==`, an equal xsd:anyURI value listed first
    was the one taken out (test on a concrete record, not a theorem about all inputs) -/
example : (deriveLabel .entity [(provQ "type", .uri (provUri ++ "Bundle")), (provQ "type", .qn (provQ "Bundle"))]) =
    ("bundle", [(provQ "type", .uri (provUri ++ "Bundle"))]) := by decide


end Prov.C02

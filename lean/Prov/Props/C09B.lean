/-
  C09, part 2: `add_record` re-creates a record that is `==` to its source — the operation underneath `update`,
  `flattened`, `unified`, the constructors with `records=` and `add_bundle` of a document. For every record that
  construction can have produced (`Stored`), in every target manager (`Inv1`), whatever prefixes it has bound.
-/
import Prov.Props.C05
import Prov.Props.C04B
import Prov.Lemmas.Record
import Prov.Lemmas.NsMgr

namespace Prov.C09
open Prov Prov.C05 Prov.C04

/-- what `_auto_literal_conversion` can have stored under a non-PROV attribute -/
def StoredOk : Value → Prop
  | .lit lex (some t) none =>
    xsdParserOf t = none ∨ ∃ p, xsdParserOf t = some p ∧ parseXsd p lex none = .isNone
  | .lit _ none none => False
  | _ => True

/-- equal up to the prefixes of the names mentioned -/
def vEq : Value → Value → Prop
  | .qn a, .qn b => a.uri = b.uri
  | .lit v ty l, .lit v' ty' l' => v = v' ∧ l = l' ∧ ty.map QName.uri = ty'.map QName.uri
  | a, b => a = b

theorem vEq_keyEq {a b : Value} (h : vEq a b) : a.keyEq b = true := by
  cases a with
  | qn x =>
    cases b <;> simp_all [vEq]
    simp [Value.keyEq, h]
  | lit v ty l =>
    cases b with
    | lit v' ty' l' =>
      obtain ⟨h1, h2, h3⟩ := h
      subst h1; subst h2
      cases ty <;> cases ty' <;> simp_all [Value.keyEq]
    | _ => simp [vEq] at h
  | _ =>
    cases b <;> simp_all [vEq]
    all_goals exact keyEq_refl _

theorem parseXsd_ok_stored (p : XsdParser) (lex : String) (f : Option FloatAtom) (v : Value)
    (h : parseXsd p lex f = .ok v) : StoredOk v := by
  cases p <;> simp only [parseXsd] at h
  · cases h; trivial
  · split at h <;> cases h; trivial
  · split at h <;> cases h; trivial
  · split at h <;> cases h; trivial
  · split at h <;> cases h; trivial
  · cases h; trivial

theorem parse_isNone_noflt (p : XsdParser) (lex : String) (f : Option FloatAtom) (h : parseXsd p lex f = .isNone) :
    parseXsd p lex none = .isNone := by
  cases p <;> simp_all [parseXsd]
  all_goals (split at h <;> simp_all)

/-- what the conversion stores is `StoredOk` -/
theorem autoLiteral_stored (m : NsMgr) (hm : m.Inv1) (x : ArgVal) (f : Option FloatAtom) (v : Value)
    (h : (autoLiteral m x f).2 = .ok v) : StoredOk v := by
  unfold autoLiteral at h
  split at h
  · cases h
  · cases h
  · simp only [Conv.ok.injEq] at h; subst h; trivial
  · simp only [Conv.ok.injEq] at h; subst h; trivial
  · next lex ty =>
    split at h
    · next t =>
      split at h
      · next p hp =>
        split at h
        · next v' hv' =>
          simp only [Conv.ok.injEq] at h; subst h
          exact parseXsd_ok_stored p lex f _ hv'
        · next hnone =>
          simp only [rehomeLit, Conv.ok.injEq] at h; subst h
          right
          exact ⟨p, by rw [xsdParserOf_congr (NsMgr.validQ_uri hm t)]; exact hp, parse_isNone_noflt p lex f hnone⟩
        · cases h
      · next hp =>
        simp only [rehomeLit, Conv.ok.injEq] at h; subst h
        left
        rw [xsdParserOf_congr (NsMgr.validQ_uri hm t)]; exact hp
    · simp only [Conv.ok.injEq] at h; subst h; trivial
  · next lex ty lang =>
    unfold rehomeLit at h
    split at h <;> (simp only [Conv.ok.injEq] at h; subst h; trivial)
  · rename_i v' h1 h2 h3
    simp only [Conv.ok.injEq] at h; subst h
    cases v' with
    | lit lex ty lang =>
      cases lang with
      | none => exact absurd rfl (h2 lex ty)
      | some l => exact absurd rfl (h3 lex ty l)
    | _ => trivial
theorem vEq_refl (v : Value) : vEq v v := by
  cases v <;> simp [vEq]

/-- converting a stored value again, in any manager, gives the same value up to prefixes -/
theorem autoLiteral_fix (m : NsMgr) (hm : m.Inv1) (v : Value) (hv : StoredOk v) :
    ∃ v', (autoLiteral m (.val v) none).2 = .ok v' ∧ vEq v' v := by
  cases v with
  | qn q => exact ⟨_, rfl, NsMgr.validQ_uri hm q⟩
  | lit lex ty lang =>
    cases lang with
    | some l =>
      cases ty with
      | none => exact ⟨_, rfl, rfl, rfl, rfl⟩
      | some t => exact ⟨_, rfl, rfl, rfl, by simp [NsMgr.validQ_uri hm t]⟩
    | none =>
      cases ty with
      | none => exact absurd hv (by simp [StoredOk])
      | some t =>
        simp only [StoredOk] at hv
        rcases hv with hp | ⟨p, hp, hn⟩
        · refine ⟨.lit lex (some (m.validQ t).2) none, ?_, rfl, rfl, by simp [NsMgr.validQ_uri hm t]⟩
          simp [autoLiteral, hp, rehomeLit]
        · refine ⟨.lit lex (some (m.validQ t).2) none, ?_, rfl, rfl, by simp [NsMgr.validQ_uri hm t]⟩
          simp [autoLiteral, hp, hn, rehomeLit]
  | str s => exact ⟨_, rfl, rfl⟩
  | int n => exact ⟨_, rfl, rfl⟩
  | bool b => exact ⟨_, rfl, rfl⟩
  | float f => exact ⟨_, rfl, rfl⟩
  | dt t => exact ⟨_, rfl, rfl⟩
  | uri u => exact ⟨_, rfl, rfl⟩

theorem get_congr (r : Record) {a b : QName} (h : a.uri = b.uri) : r.get a = r.get b := by
  unfold Record.get
  have : (fun p : QName × List Value => p.1.same a) = (fun p => p.1.same b) := by
    funext p; simp [QName.same, h]
  rw [this]

/-- the class conditions under which a stored pair can be re-added -/
def PairOk (a : QName) (v : Value) : Prop :=
  (isRefAttr a = true → isQn v = true) ∧ (isTimeAttr a = true → isDt v = true) ∧ (isProvAttr a = false → StoredOk v)

/-- one re-added pair: no error, the pair is inserted under a name with the same URI with a value equal up to prefixes -/
theorem addOne_recreate (par : Option NsMgr) (isColl : Bool) (m : NsMgr) (hm : m.Inv1) (r : Record) (a : QName) (v : Value)
    (hok : PairOk a v) (hslot : isProvAttr a = true → r.get a = []) :
    ∃ m' a' v', addOne par isColl m r ⟨.qn a, .val v, none⟩ = (m', r.insert a' v', none) ∧ m'.Inv1 ∧ a'.uri = a.uri ∧ vEq v' v := by
  obtain ⟨hr, ht, ho⟩ := hok
  have hu := NsMgr.validQ_uri hm a
  have hm1 := NsMgr.validQ_inv1 hm a
  have hslot' : isProvAttr (m.validQ a).2 = true → r.get (m.validQ a).2 = [] := by
    intro hp
    rw [get_congr r hu]
    exact hslot (by rw [← isProvAttr_congr hu]; exact hp)
  have store : ∀ v', storeValue isColl r (m.validQ a).2 v' = (r.insert (m.validQ a).2 v', none) := by
    intro v'
    unfold storeValue
    by_cases hp : isProvAttr (m.validQ a).2 = true
    · simp [hp, hslot' hp]
    · simp [hp]
  unfold addOne
  simp only [NsMgr.validName]
  by_cases href : isRefAttr a = true
  · have href' : isRefAttr (m.validQ a).2 = true := by rw [isRefAttr_congr hu]; exact href
    cases v with
    | qn x =>
      refine ⟨_, (m.validQ a).2, .qn ((m.validQ a).1.validQ x).2, ?_, NsMgr.validQ_inv1 hm1 x, hu, NsMgr.validQ_uri hm1 x⟩
      simp [convValue, href', ArgVal.toNameArg, NsMgr.validName, store]
    | _ => exact absurd (hr href) (by simp [isQn])
  · have href' : isRefAttr (m.validQ a).2 = false := by rw [isRefAttr_congr hu]; simpa using href
    by_cases htime : isTimeAttr a = true
    · have htime' : isTimeAttr (m.validQ a).2 = true := by rw [isTimeAttr_congr hu]; exact htime
      cases v with
      | dt t =>
        refine ⟨_, (m.validQ a).2, .dt t, ?_, hm1, hu, rfl⟩
        simp [convValue, href', htime', store]
      | _ => exact absurd (ht htime) (by simp [isDt])
    · have htime' : isTimeAttr (m.validQ a).2 = false := by rw [isTimeAttr_congr hu]; simpa using htime
      have hprov : isProvAttr a = false := by simp [isProvAttr, href, htime]
      obtain ⟨v', hv', heq⟩ := autoLiteral_fix (m.validQ a).1 hm1 v (ho hprov)
      refine ⟨((autoLiteral (m.validQ a).1 (.val v) none).1), (m.validQ a).2, v', ?_, autoLiteral_inv1 _ hm1 _ _, hu, heq⟩
      simp [convValue, href', htime', hv', store]

/-! ### `Record.insert` and the flat view -/

theorem mem_flat_iff (r : Record) (x : QName × Value) : x ∈ r.flat ↔ ∃ p ∈ r.attrs, x.1 = p.1 ∧ x.2 ∈ p.2 := by
  unfold Record.flat
  rw [List.mem_flatMap]
  constructor
  · rintro ⟨p, hp, hx⟩
    obtain ⟨v, hv, rfl⟩ := List.mem_map.mp hx
    exact ⟨p, hp, rfl, hv⟩
  · rintro ⟨p, hp, h1, h2⟩
    exact ⟨p, hp, List.mem_map.mpr ⟨x.2, h2, by rw [← h1]⟩⟩

theorem mem_attrsInsert (as : List (QName × List Value)) (a : QName) (v : Value) :
    (∀ p ∈ as, ∃ p' ∈ attrsInsert as a v, p'.1 = p.1 ∧ ∀ w ∈ p.2, w ∈ p'.2) ∧
    (∃ p' ∈ attrsInsert as a v, p'.1.uri = a.uri ∧ ∃ w ∈ p'.2, w.keyEq v = true) ∧
    (∀ p' ∈ attrsInsert as a v, ∀ w ∈ p'.2, (∃ p ∈ as, p.1 = p'.1 ∧ w ∈ p.2) ∨ (p'.1.uri = a.uri ∧ w = v)) := by
  induction as with
  | nil =>
    refine ⟨(fun p hp => nomatch hp), ⟨(a, [v]), (by simp [attrsInsert]), rfl, v, (by simp), keyEq_refl v⟩, ?_⟩
    intro p' hp' w hw
    simp only [attrsInsert, List.mem_singleton] at hp'
    subst hp'
    simp only [List.mem_singleton] at hw
    exact Or.inr ⟨rfl, hw⟩
  | cons hd tl ih =>
    obtain ⟨k, vs⟩ := hd
    obtain ⟨ih1, ih2, ih3⟩ := ih
    by_cases hk : k.same a = true
    · have hku : k.uri = a.uri := QName.same_iff.mp hk
      simp only [attrsInsert, hk, if_true]
      have hsub : ∀ w ∈ vs, w ∈ setInsert vs v := by
        intro w hw; unfold setInsert; split
        · exact hw
        · exact List.mem_append_left _ hw
      refine ⟨?_, ?_, ?_⟩
      · intro p hp
        rcases List.mem_cons.mp hp with rfl | hp'
        · exact ⟨(k, setInsert vs v), List.mem_cons_self, rfl, hsub⟩
        · exact ⟨p, List.mem_cons_of_mem _ hp', rfl, fun w hw => hw⟩
      · refine ⟨(k, setInsert vs v), List.mem_cons_self, hku, ?_⟩
        unfold setInsert
        split
        · next hany =>
          obtain ⟨w, hw, hwv⟩ := List.any_eq_true.mp hany
          exact ⟨w, hw, hwv⟩
        · exact ⟨v, by simp, keyEq_refl v⟩
      · intro p' hp' w hw
        rcases List.mem_cons.mp hp' with rfl | hp''
        · rcases mem_setInsert hw with h | h
          · exact Or.inl ⟨(k, vs), List.mem_cons_self, rfl, h⟩
          · exact Or.inr ⟨hku, h⟩
        · exact Or.inl ⟨p', List.mem_cons_of_mem _ hp'', rfl, hw⟩
    · have hk' : k.same a = false := by simpa using hk
      simp only [attrsInsert, hk', Bool.false_eq_true, if_false]
      refine ⟨?_, ?_, ?_⟩
      · intro p hp
        rcases List.mem_cons.mp hp with rfl | hp'
        · exact ⟨(k, vs), List.mem_cons_self, rfl, fun w hw => hw⟩
        · obtain ⟨p', hp'm, h1, h2⟩ := ih1 p hp'
          exact ⟨p', List.mem_cons_of_mem _ hp'm, h1, h2⟩
      · obtain ⟨p', hp', h1, h2⟩ := ih2
        exact ⟨p', List.mem_cons_of_mem _ hp', h1, h2⟩
      · intro p' hp' w hw
        rcases List.mem_cons.mp hp' with rfl | hp''
        · exact Or.inl ⟨(k, vs), List.mem_cons_self, rfl, hw⟩
        · rcases ih3 p' hp'' w hw with ⟨p, hp, h1, h2⟩ | h
          · exact Or.inl ⟨p, List.mem_cons_of_mem _ hp, h1, h2⟩
          · exact Or.inr h

/-- the three facts about one insertion, on the flat view -/
theorem flat_insert (r : Record) (a : QName) (v : Value) :
    (∀ x ∈ r.flat, x ∈ (r.insert a v).flat) ∧
    (∃ x ∈ (r.insert a v).flat, x.1.uri = a.uri ∧ x.2.keyEq v = true) ∧
    (∀ x ∈ (r.insert a v).flat, x ∈ r.flat ∨ (x.1.uri = a.uri ∧ x.2 = v)) := by
  obtain ⟨h1, h2, h3⟩ := mem_attrsInsert r.attrs a v
  refine ⟨?_, ?_, ?_⟩
  · intro x hx
    obtain ⟨p, hp, e1, e2⟩ := (mem_flat_iff r x).mp hx
    obtain ⟨p', hp', f1, f2⟩ := h1 p hp
    exact (mem_flat_iff _ x).mpr ⟨p', hp', e1.trans f1.symm, f2 _ e2⟩
  · obtain ⟨p', hp', hu, w, hw, hk⟩ := h2
    exact ⟨(p'.1, w), (mem_flat_iff _ _).mpr ⟨p', hp', rfl, hw⟩, hu, hk⟩
  · intro x hx
    obtain ⟨p', hp', e1, e2⟩ := (mem_flat_iff _ x).mp hx
    rcases h3 p' hp' x.2 e2 with ⟨p, hp, f1, f2⟩ | ⟨hu, hv⟩
    · exact Or.inl ((mem_flat_iff r x).mpr ⟨p, hp, e1.trans f1.symm, f2⟩)
    · exact Or.inr ⟨by rw [e1]; exact hu, hv⟩

/-! ### the loop of `add_attributes` over the re-creation arguments -/

def toArg (p : QName × Option Value) : AttrArg :=
  { name := .qn p.1, value := match p.2 with | some v => .val v | none => .nil }

/-- a later PROV-attribute pair does not repeat the URI of an earlier pair -/
def NoRepeat (pairs : List (QName × Option Value)) : Prop :=
  pairs.Pairwise (fun p q => p.2.isSome = true → q.2.isSome = true → isProvAttr q.1 = true → p.1.uri ≠ q.1.uri)

theorem vEq_valOk {a b : Value} (h : vEq a b) (hb : valOk b) : valOk a := by
  cases a <;> cases b <;> simp_all [vEq, valOk]

theorem insert_kind_id (r : Record) (a : QName) (v : Value) : (r.insert a v).kind = r.kind ∧ (r.insert a v).id = r.id :=
  ⟨rfl, rfl⟩

theorem loop_recreate (par : Option NsMgr) (isColl : Bool) (pairs : List (QName × Option Value)) (m : NsMgr) (hm : m.Inv1)
    (r : Record)
    (hok : ∀ p ∈ pairs, ∀ v, p.2 = some v → PairOk p.1 v ∧ valOk v)
    (hslot : ∀ p ∈ pairs, p.2.isSome = true → isProvAttr p.1 = true → r.get p.1 = [])
    (hnr : NoRepeat pairs) :
    ∃ m' r', addAttrsLoop par isColl m r (pairs.map toArg) = (m', r', none) ∧ m'.Inv1 ∧ r'.kind = r.kind ∧ r'.id = r.id ∧
      (∀ x ∈ r.flat, x ∈ r'.flat) ∧
      (∀ p ∈ pairs, ∀ v, p.2 = some v → ∃ x ∈ r'.flat, x.1.uri = p.1.uri ∧ x.2.keyEq v = true) ∧
      (∀ x ∈ r'.flat, x ∈ r.flat ∨ ∃ p ∈ pairs, ∃ v, p.2 = some v ∧ x.1.uri = p.1.uri ∧ x.2.keyEq v = true) := by
  induction pairs generalizing m r with
  | nil => exact ⟨m, r, rfl, hm, rfl, rfl, (fun x hx => hx), (fun p hp => absurd hp (by simp)), (fun x hx => Or.inl hx)⟩
  | cons p rest ih =>
    obtain ⟨a, ov⟩ := p
    have hnr' := List.pairwise_cons.mp hnr
    cases ov with
    | none =>
      -- `if original_value is None: continue`
      obtain ⟨m', r', h1, h2, h3, h4, h5, h6, h7⟩ := ih m hm r
        (fun q hq => hok q (List.mem_cons_of_mem _ hq)) (fun q hq => hslot q (List.mem_cons_of_mem _ hq)) hnr'.2
      refine ⟨m', r', ?_, h2, h3, h4, h5, ?_, ?_⟩
      · simp only [List.map_cons, addAttrsLoop, toArg, addOne]
        exact h1
      · intro q hq v hv
        rcases List.mem_cons.mp hq with rfl | hq'
        · cases hv
        · exact h6 q hq' v hv
      · intro x hx
        rcases h7 x hx with h | ⟨q, hq, v, hv, hu, hk⟩
        · exact Or.inl h
        · exact Or.inr ⟨q, List.mem_cons_of_mem _ hq, v, hv, hu, hk⟩
    | some v =>
      obtain ⟨hpok, hvok⟩ := hok (a, some v) List.mem_cons_self v rfl
      obtain ⟨m1, a', v', hstep, hm1, hu, hveq⟩ := addOne_recreate par isColl m hm r a v hpok
        (fun hp => hslot (a, some v) List.mem_cons_self rfl hp)
      obtain ⟨f1, ⟨x0, hx0, hx0u, hx0k⟩, f3⟩ := flat_insert r a' v'
      have hslot1 : ∀ q ∈ rest, q.2.isSome = true → isProvAttr q.1 = true → (r.insert a' v').get q.1 = [] := by
        intro q hq hs hp
        have hne : a'.uri ≠ q.1.uri := by
          rw [hu]
          exact hnr'.1 q hq rfl hs hp
        rw [Record.get_insert_other r a' q.1 v' hne]
        exact hslot q (List.mem_cons_of_mem _ hq) hs hp
      obtain ⟨m', r', h1, h2, h3, h4, h5, h6, h7⟩ := ih m1 hm1 (r.insert a' v')
        (fun q hq => hok q (List.mem_cons_of_mem _ hq)) hslot1 hnr'.2
      refine ⟨m', r', ?_, h2, h3, h4, fun x hx => h5 x (f1 x hx), ?_, ?_⟩
      · simp only [List.map_cons, addAttrsLoop]
        have : toArg (a, some v) = ⟨.qn a, .val v, none⟩ := rfl
        rw [this, hstep]
        exact h1
      · intro q hq w hw
        rcases List.mem_cons.mp hq with rfl | hq'
        · simp only [Option.some.injEq] at hw
          subst hw
          refine ⟨x0, h5 x0 hx0, hx0u.trans hu, ?_⟩
          exact keyEq_trans (vEq_valOk hveq hvok) hx0k (vEq_keyEq hveq)
        · exact h6 q hq' w hw
      · intro x hx
        rcases h7 x hx with h | ⟨q, hq, w, hw, hu', hk⟩
        · rcases f3 x h with h' | ⟨hxu, hxv⟩
          · exact Or.inl h'
          · refine Or.inr ⟨(a, some v), List.mem_cons_self, v, rfl, hxu.trans hu, ?_⟩
            rw [hxv]; exact vEq_keyEq hveq
        · exact Or.inr ⟨q, List.mem_cons_of_mem _ hq, w, hw, hu', hk⟩

/-! ### the re-creation arguments of a stored record -/

/-- a record as the constructors leave it: every pair of the right class, PROV attributes single-valued, one entry
    per attribute URI -/
structure Stored (rc : Record) : Prop where
  pairs : ∀ x ∈ rc.flat, PairOk x.1 x.2 ∧ valOk x.2
  single : ∀ a, isProvAttr a = true → (rc.get a).length ≤ 1
  keys : (rc.attrs.map (fun p => p.1.uri)).Nodup

def pairsOf (rc : Record) : List (QName × Option Value) :=
  rc.formalAttrs ++ rc.extraAttrs.map (fun p => (p.1, some p.2))

theorem recreateArgs_eq (rc : Record) : (Heap.recreateArgs rc).2 = (pairsOf rc).map toArg := by
  simp only [Heap.recreateArgs, pairsOf, List.map_append, List.map_map]
  rfl

theorem formals_nodup (k : RecKind) : k.formals.Nodup := by cases k <;> decide

theorem formal_isProv (k : RecKind) (l : String) (h : l ∈ k.formals) : isProvAttr (formalQ l) = true := by
  cases k <;> simp [RecKind.formals] at h <;> (try rcases h with rfl | h) <;> (try rcases h with rfl | h) <;>
    (try rcases h with rfl | h) <;> (try rcases h with rfl | h) <;> (try subst h) <;> decide

theorem formalQ_uri_inj {l l' : String} (h : (formalQ l).uri = (formalQ l').uri) : l = l' := by
  simp only [formalQ, provQ, QName.uri] at h
  exact String.append_right_inj _ |>.mp h

/-- with one entry per URI, `get` returns the values of the entry -/
theorem get_of_mem (rc : Record) (hk : (rc.attrs.map (fun p => p.1.uri)).Nodup) (p : QName × List Value) (hp : p ∈ rc.attrs) :
    rc.get p.1 = p.2 := by
  rw [Record.get_eq]
  generalize rc.attrs = as at hk hp
  induction as with
  | nil => cases hp
  | cons hd tl ih =>
    simp only [List.map_cons, List.nodup_cons] at hk
    rcases List.mem_cons.mp hp with rfl | hp'
    · rw [attrsGet_cons]; simp [QName.same]
    · have : hd.1.same p.1 = false := by
        rw [QName.same_false_iff]
        intro e
        exact hk.1 (List.mem_map.mpr ⟨p, hp', e.symm⟩)
      obtain ⟨k, vs⟩ := hd
      rw [attrsGet_cons]
      simp only [this, Bool.false_eq_true, if_false]
      exact ih hk.2 hp'

theorem mem_get_of_flat (rc : Record) (hk : (rc.attrs.map (fun p => p.1.uri)).Nodup) (x : QName × Value) (hx : x ∈ rc.flat) :
    x.2 ∈ rc.get x.1 := by
  obtain ⟨p, hp, e1, e2⟩ := (mem_flat_iff rc x).mp hx
  rw [e1, get_of_mem rc hk p hp]; exact e2

theorem flat_of_mem_get (rc : Record) (a : QName) (v : Value) (h : v ∈ rc.get a) : ∃ k, (k, v) ∈ rc.flat ∧ k.uri = a.uri := by
  unfold Record.get at h
  cases hf : rc.attrs.find? (fun p => p.1.same a) with
  | none => simp [hf] at h
  | some p =>
    simp only [hf] at h
    have hs := List.find?_some hf
    exact ⟨p.1, (mem_flat_iff rc _).mpr ⟨p, List.mem_of_find?_eq_some hf, rfl, h⟩, QName.same_iff.mp hs⟩

theorem isProvAttr_uri {a b : QName} (h : a.uri = b.uri) : isProvAttr a = isProvAttr b := isProvAttr_congr h

theorem pairOk_congr {a b : QName} {v : Value} (h : a.uri = b.uri) (hp : PairOk a v) : PairOk b v := by
  obtain ⟨h1, h2, h3⟩ := hp
  exact ⟨fun hb => h1 (by rw [isRefAttr_congr h]; exact hb), fun hb => h2 (by rw [isTimeAttr_congr h]; exact hb),
         fun hb => h3 (by rw [isProvAttr_congr h]; exact hb)⟩

/-- no PROV attribute URI occurs twice in the flat view of a stored record -/
theorem flat_norepeat (rc : Record) (hs : Stored rc) :
    rc.flat.Pairwise (fun p q => isProvAttr q.1 = true → p.1.uri ≠ q.1.uri) := by
  unfold Record.flat
  rw [List.pairwise_flatMap]
  constructor
  · intro e he
    have hget := get_of_mem rc hs.keys e he
    by_cases hp : isProvAttr e.1 = true
    · have hl := hs.single e.1 hp
      rw [hget] at hl
      match hv : e.2, hl with
      | [], _ => simp
      | [v], _ => simp
    · rw [List.pairwise_map]
      exact List.pairwise_of_forall (fun _ _ hq => absurd hq hp)
  · have := hs.keys
    unfold List.Nodup at this
    rw [List.pairwise_map] at this
    refine this.imp ?_
    intro e1 e2 hne x hx y hy _
    obtain ⟨v, _, rfl⟩ := List.mem_map.mp hx
    obtain ⟨w, _, rfl⟩ := List.mem_map.mp hy
    exact hne

theorem formalQ_uri (l : String) : (formalQ l).uri = provUri ++ l := rfl

theorem not_formal_uri (k : RecKind) (a : QName) (h : isFormalOf k a = false) (l : String) (hl : l ∈ k.formals) :
    (formalQ l).uri ≠ a.uri := by
  unfold isFormalOf inProvSet at h
  rw [List.any_eq_false] at h
  have := h l hl
  intro e
  apply this
  simp only [beq_iff_eq]
  rw [← e]; rfl

theorem pairsOf_norepeat (rc : Record) (hs : Stored rc) : NoRepeat (pairsOf rc) := by
  unfold NoRepeat pairsOf
  rw [List.pairwise_append]
  refine ⟨?_, ?_, ?_⟩
  · unfold Record.formalAttrs
    rw [List.pairwise_map]
    have := formals_nodup rc.kind
    unfold List.Nodup at this
    refine this.imp ?_
    intro l l' hne _ _ _ e
    exact hne (formalQ_uri_inj e)
  · unfold Record.extraAttrs
    rw [List.pairwise_map]
    refine ((flat_norepeat rc hs).filter _).imp ?_
    intro p q h _ _ hq
    exact h hq
  · intro p hp q hq _ _ _
    obtain ⟨l, hl, rfl⟩ := List.mem_map.mp hp
    obtain ⟨x, hx, rfl⟩ := List.mem_map.mp hq
    unfold Record.extraAttrs at hx
    have hnf : isFormalOf rc.kind x.1 = false := by
      have := (List.mem_filter.mp hx).2
      simpa using this
    exact not_formal_uri rc.kind x.1 hnf l hl

/-- **C09** (`add_record`): re-creating a stored record from its own arguments — in any manager, under whatever
    identifier the target resolved — never fails and yields a record with the same kind and, attribute by attribute,
    the same content as the source in the sense of `==` -/
theorem c09_recreate_content (par : Option NsMgr) (m : NsMgr) (hm : m.Inv1) (rc : Record) (hs : Stored rc) (id' : Option QName) :
    ∃ m' rc', Record.addAttributes par m ⟨rc.kind, id', []⟩ (Heap.recreateArgs rc).2 = (m', rc', none) ∧ m'.Inv1 ∧
      rc'.kind = rc.kind ∧ rc'.id = id' ∧ flatSetEq rc.flat rc'.flat = true := by
  have hok : ∀ p ∈ pairsOf rc, ∀ v, p.2 = some v → PairOk p.1 v ∧ valOk v := by
    intro p hp v hv
    unfold pairsOf at hp
    rcases List.mem_append.mp hp with h | h
    · unfold Record.formalAttrs at h
      obtain ⟨l, hl, rfl⟩ := List.mem_map.mp h
      simp only at hv
      have hmem : v ∈ rc.get (formalQ l) := List.mem_of_mem_head? hv
      obtain ⟨k, hk, hu⟩ := flat_of_mem_get rc _ v hmem
      obtain ⟨h1, h2⟩ := hs.pairs (k, v) hk
      exact ⟨pairOk_congr hu h1, h2⟩
    · obtain ⟨x, hx, rfl⟩ := List.mem_map.mp h
      simp only [Option.some.injEq] at hv
      subst hv
      unfold Record.extraAttrs at hx
      exact hs.pairs x (List.mem_filter.mp hx).1
  obtain ⟨m', rc', h1, h2, h3, h4, _, h6, h7⟩ := loop_recreate par (isCollectionCall (Heap.recreateArgs rc).2) (pairsOf rc) m hm
    ⟨rc.kind, id', []⟩ hok (fun _ _ _ _ => rfl) (pairsOf_norepeat rc hs)
  refine ⟨m', rc', ?_, h2, h3, h4, ?_⟩
  · unfold Record.addAttributes
    rw [recreateArgs_eq] at h1 ⊢
    exact h1
  · simp only [flatSetEq, Bool.and_eq_true, List.all_eq_true, List.any_eq_true]
    constructor
    · intro x hx
      -- the pair of the re-creation arguments that stands for x
      have hrep : ∃ p ∈ pairsOf rc, p.2 = some x.2 ∧ p.1.uri = x.1.uri := by
        by_cases hf : isFormalOf rc.kind x.1 = true
        · unfold isFormalOf inProvSet at hf
          obtain ⟨l, hl, hlu⟩ := List.any_eq_true.mp hf
          have hu : (formalQ l).uri = x.1.uri := by
            simp only [beq_iff_eq] at hlu
            rw [hlu]; rfl
          have hmem : x.2 ∈ rc.get (formalQ l) := by
            rw [get_congr rc hu]; exact mem_get_of_flat rc hs.keys x hx
          have hlen := hs.single (formalQ l) (formal_isProv rc.kind l hl)
          have hhead : (rc.get (formalQ l)).head? = some x.2 := by
            match hg : rc.get (formalQ l), hlen, hmem with
            | [w], _, hm' =>
              simp only [List.mem_singleton] at hm'
              simp [hm']
          refine ⟨(formalQ l, (rc.get (formalQ l)).head?), ?_, hhead, hu⟩
          unfold pairsOf Record.formalAttrs
          exact List.mem_append_left _ (List.mem_map.mpr ⟨l, hl, rfl⟩)
        · refine ⟨(x.1, some x.2), ?_, rfl, rfl⟩
          unfold pairsOf Record.extraAttrs
          apply List.mem_append_right
          exact List.mem_map.mpr ⟨x, List.mem_filter.mpr ⟨hx, by simpa using hf⟩, rfl⟩
      obtain ⟨p, hp, hpv, hpu⟩ := hrep
      obtain ⟨y, hy, hyu, hyk⟩ := h6 p hp x.2 hpv
      refine ⟨y, hy, ?_⟩
      simp only [pairEq, Bool.and_eq_true]
      exact ⟨QName.same_iff.mpr (hpu.symm.trans hyu.symm), keyEq_symm hyk⟩
    · intro y hy
      rcases h7 y hy with h | ⟨p, hp, v, hv, hu, hk⟩
      · simp [Record.flat] at h
      · -- the stored pair that p stands for
        have hsrc : ∃ x ∈ rc.flat, x.1.uri = p.1.uri ∧ x.2 = v := by
          unfold pairsOf at hp
          rcases List.mem_append.mp hp with h | h
          · unfold Record.formalAttrs at h
            obtain ⟨l, hl, rfl⟩ := List.mem_map.mp h
            simp only at hv
            obtain ⟨k, hk', hku⟩ := flat_of_mem_get rc _ v (List.mem_of_mem_head? hv)
            exact ⟨(k, v), hk', hku, rfl⟩
          · obtain ⟨x, hx, rfl⟩ := List.mem_map.mp h
            simp only [Option.some.injEq] at hv
            unfold Record.extraAttrs at hx
            exact ⟨x, (List.mem_filter.mp hx).1, rfl, hv⟩
        obtain ⟨x, hx, hxu, hxv⟩ := hsrc
        refine ⟨x, hx, ?_⟩
        simp only [pairEq, Bool.and_eq_true]
        exact ⟨QName.same_iff.mpr (hu.trans hxu.symm), by rw [hxv]; exact hk⟩

/-- … so, when the target resolves the identifier to a name with the same URI, source and copy are `==` -/
theorem c09_recreate_eq (par : Option NsMgr) (m : NsMgr) (hm : m.Inv1) (rc : Record) (hs : Stored rc) (id' : Option QName)
    (hid : optSame rc.id id' = true) :
    ∃ m' rc', Record.addAttributes par m ⟨rc.kind, id', []⟩ (Heap.recreateArgs rc).2 = (m', rc', none) ∧
      recEq rc rc' = true := by
  obtain ⟨m', rc', h1, _, h3, h4, h5⟩ := c09_recreate_content par m hm rc hs id'
  refine ⟨m', rc', h1, ?_⟩
  simp only [recEq, Bool.and_eq_true, beq_iff_eq]
  exact ⟨⟨h3.symm, by rw [h4]; exact hid⟩, h5⟩

/-! ### non-vacuity: a generation with a time, a typed literal the parser table cannot convert and a language-tagged label -/

def exQ (l : String) : QName := ⟨⟨"ex", "http://example.org/"⟩, l⟩

def rcEx : Record := ⟨.generation, some (exQ "g"),
  [(formalQ "entity", [.qn (exQ "e")]), (formalQ "activity", [.qn (exQ "a")]),
   (exQ "k", [.int 1, .lit "abc" (some (exQ "T")) none]), (provQ "label", [.lit "étiquette" (some (provQ "InternationalizedString")) (some "fr")])]⟩

theorem rcEx_stored : Stored rcEx := by
  refine ⟨?_, ?_, by decide +kernel⟩
  · intro x hx
    have hx' : x ∈ [(formalQ "entity", Value.qn (exQ "e")), (formalQ "activity", .qn (exQ "a")), (exQ "k", .int 1),
        (exQ "k", .lit "abc" (some (exQ "T")) none),
        (provQ "label", .lit "étiquette" (some (provQ "InternationalizedString")) (some "fr"))] := by
      simpa [rcEx, Record.flat] using hx
    simp only [List.mem_cons, List.mem_nil_iff, or_false] at hx'
    rcases hx' with rfl | rfl | rfl | rfl | rfl
    · exact ⟨⟨fun _ => rfl, fun h => absurd h (by decide +kernel), fun h => absurd h (by decide +kernel)⟩, trivial⟩
    · exact ⟨⟨fun _ => rfl, fun h => absurd h (by decide +kernel), fun h => absurd h (by decide +kernel)⟩, trivial⟩
    · exact ⟨⟨fun h => absurd h (by decide +kernel), fun h => absurd h (by decide +kernel), fun _ => trivial⟩, trivial⟩
    · refine ⟨⟨fun h => absurd h (by decide +kernel), fun h => absurd h (by decide +kernel), fun _ => Or.inl (by decide +kernel)⟩, trivial⟩
    · exact ⟨⟨fun h => absurd h (by decide +kernel), fun h => absurd h (by decide +kernel), fun _ => trivial⟩, trivial⟩
  · intro a ha
    rw [Record.get_eq]
    simp only [rcEx, attrsGet_cons, attrsGet_nil]
    by_cases h1 : (formalQ "entity").same a = true
    · simp [h1]
    · by_cases h2 : (formalQ "activity").same a = true
      · simp [h1, h2]
      · by_cases h3 : (exQ "k").same a = true
        · have : isProvAttr (exQ "k") = true := by rw [isProvAttr_congr (QName.same_iff.mp h3)]; exact ha
          exact absurd this (by decide +kernel)
        · by_cases h4 : (provQ "label").same a = true <;> simp [h1, h2, h3, h4]

end Prov.C09

/-
  C14 — graph conversion mirrors the document.
  Theorems about the relation loop of `prov_to_graph` (model: `graphStep`): at most one edge per relation, only
  for relations whose first two arguments are present, carrying that relation; one node per identifier.
-/
import Prov.Graph
import Prov.Generated.Tables

namespace Prov.C14
open Prov Heap

/-- table obligation: the model's inference table is the code's INFERRED_ELEMENT_CLASS (bundle aside: it can never
    stand in one of the first two positions) -/
theorem t_inferred_class :
    (Gen.inferredElementClass.filter (fun p => p.1 != "bundle")).all (fun p =>
      inferredClass.any (fun q => q.1 == p.1 && ("Prov" ++ q.2.typeName) == p.2)) = true ∧
    inferredClass.all (fun q => Gen.inferredElementClass.any (fun p => p.1 == q.1)) = true := by decide

/-- influence is the only relation kind whose first two attributes are not in the inference table -/
theorem t_only_influence_uninferable :
    RecKind.all.all (fun k => k.isElement || k == .influence ||
      (k.formals.take 2).all (fun a => inferredClass.any (fun q => q.1 == a))) = true := by decide

theorem endpoint_edges (st : GState) (a : String) (q : QName) (st' : GState) (i : Nat)
    (h : endpoint st a q = some (st', i)) : st'.edges = st.edges ∧ st'.nodes = st.nodes := by
  unfold endpoint at h
  split at h
  · cases h; exact ⟨rfl, rfl⟩
  · split at h
    · cases h
    · cases h; exact ⟨rfl, rfl⟩

theorem addGraphNode_edges (st : GState) (i : Nat) : (addGraphNode st i).edges = st.edges := by
  unfold addGraphNode
  split
  · split <;> rfl
  · rfl

/-- **one relation, at most one edge, and it carries that relation** -/
theorem c14_step_edges (h : Heap) (st : GState) (rref : Nat) :
    (graphStep h st rref).edges = st.edges ∨
    ∃ i1 i2, (graphStep h st rref).edges = st.edges ++ [(i1, i2, rref)] := by
  unfold graphStep
  dsimp only
  split
  · next a1 q1 a2 q2 _ =>
    split
    · exact Or.inl rfl
    · next st1 i1 h1 =>
      split
      · exact Or.inl (endpoint_edges _ _ _ _ _ h1).1
      · next st2 i2 h2 =>
        right
        refine ⟨i1, i2, ?_⟩
        simp only [addGraphNode_edges, (endpoint_edges _ _ _ _ _ h2).1, (endpoint_edges _ _ _ _ _ h1).1]
  · exact Or.inl rfl

/-- a relation lacking one of its first two arguments (or holding a non-name there) changes nothing -/
theorem c14_no_endpoint_no_change (h : Heap) (st : GState) (rref : Nat)
    (h1 : ∀ a1 a2 q1 q2, firstTwo (h.recCell rref).r ≠ some ((a1, some (.qn q1)), (a2, some (.qn q2)))) :
    graphStep h st rref = st := by
  unfold graphStep
  dsimp only
  split
  · next a1 q1 a2 q2 heq => exact absurd heq (h1 a1 a2 q1 q2)
  · rfl

/-- over all relations: every edge carries one of the relations, in order, none twice -/
theorem c14_edges_sublist (h : Heap) (rels : List Nat) (st : GState) :
    ∃ kept : List (Nat × Nat × Nat), (rels.foldl (graphStep h) st).edges = st.edges ++ kept ∧
      (kept.map (·.2.2)).Sublist rels := by
  induction rels generalizing st with
  | nil => exact ⟨[], by simp, List.Sublist.refl _⟩
  | cons r rest ih =>
    simp only [List.foldl_cons]
    obtain ⟨kept, hk, hs⟩ := ih (graphStep h st r)
    rcases c14_step_edges h st r with he | ⟨i1, i2, he⟩
    · refine ⟨kept, by rw [hk, he], hs.cons _⟩
    · refine ⟨(i1, i2, r) :: kept, by rw [hk, he]; simp, ?_⟩
      simp only [List.map_cons]
      exact hs.cons_cons _

/-- hence: never more edges than relations (nothing duplicated or invented) -/
theorem c14_edge_count (h : Heap) (rels : List Nat) (st : GState) (hst : st.edges = []) :
    (rels.foldl (graphStep h) st).edges.length ≤ rels.length := by
  obtain ⟨kept, hk, hs⟩ := c14_edges_sublist h rels st
  rw [hk, hst]
  simpa using hs.length_le

/-- one node per identifier: an identifier already in the node map is answered with its existing node -/
theorem c14_endpoint_reuses (st : GState) (a : String) (q : QName) (i : Nat)
    (hk : nodeMapGet st.nodeMap q = some i) : endpoint st a q = some (st, i) := by
  simp [endpoint, hk]

end Prov.C14

/-
  C10, PROV-XML at record level: the record element the writer emits, read by the specification reader (`readRecord`:
  element table, schema child order, reference / time / value children, subtype elements), yields the record's type, the
  URI of its identifier and exactly its (attribute URI, value) pairs — the consumed prov:type included — each once.
-/
import Prov.Props.C10X
import Prov.Props.C10Y
import Prov.Props.C02R

namespace Prov.C10
open Prov Prov.XmlSpec Prov.C02 Prov.JsonSpec

/-- values the specification reader recovers from the child the writer emits for a non-formal, non-label attribute -/
def SpecValOk (nsmap : List (Option String × String)) (hints : List (String × FloatAtom)) (attr : QName) : Value → Prop
  | .int _ => True
  | .dt t => ValidDT t ∧ attr.ns.pfx ≠ "prov" ∧ strStartsWithProv (Value.dt t).pyStrFull = false
  | .bool _ => True
  | .uri u => strStartsWithProv u = false
  | .float f => strStartsWithProv f.repr = false ∧ ∃ h, hints.find? (fun h => h.1 == f.repr) = some h ∧ h.2.repr = f.repr
  | .str _ => True
  | .qn q => resolveQName nsmap q.print = some q.uri
  | .lit _ (some t) none => (t.uri == provUri ++ "InternationalizedString") = false ∧
      resolveQName nsmap (t.ns.pfx ++ ":" ++ t.loc) = some t.uri ∧
      (t.uri ≠ xsdNsX ++ "#" ++ "QName" ∧ t.uri ≠ xsdNsX ++ "#" ++ "string" ∧ t.uri ≠ xsdNsX ++ "#" ++ "anyURI" ∧
        t.uri ≠ xsdNsX ++ "#" ++ "int" ∧ t.uri ≠ xsdNsX ++ "#" ++ "long" ∧ t.uri ≠ xsdNsX ++ "#" ++ "double" ∧
        t.uri ≠ xsdNsX ++ "#" ++ "boolean" ∧ t.uri ≠ xsdNsX ++ "#" ++ "dateTime")
  | .lit _ (some t) (some _) => t = provQ "InternationalizedString"
  | .lit _ none _ => False

/-- **every value of a plain attribute**, through the specification reader -/
theorem c10x_value_any (nsmap) (hstd : StdMapX nsmap) (hints : List (String × FloatAtom)) (ft : Bool) (attr : QName)
    (ha : PlainAttr attr) (v : Value) (hv : SpecValOk nsmap hints attr v) :
    readChildValue hints false false (childAt nsmap ft attr v) = some (absValue v) := by
  cases v with
  | int n => exact c10x_int nsmap hstd hints ft attr ha n
  | dt t => exact c10x_datetime nsmap hstd hints ft attr ha t hv.1 hv.2.1 hv.2.2
  | bool b => exact c10x_bool nsmap hstd hints ft attr ha b
  | uri u => exact c10x_uri nsmap hstd hints ft attr ha u hv
  | float f => exact c10x_float nsmap hstd hints ft attr ha f hv.1 hv.2
  | str s => exact c10x_str nsmap hstd hints ft attr ha s
  | qn q => exact c10x_qname nsmap hstd hints ft attr ha q hv
  | lit s ty lang =>
    cases ty with
    | none => exact absurd hv (by simp [SpecValOk])
    | some t =>
      cases lang with
      | none => exact c10x_typed nsmap hints ft attr ha.notRef s t hv.1 hv.2.1 hv.2.2
      | some l =>
        have : t = provQ "InternationalizedString" := hv
        subst this
        exact c10x_lang nsmap hints ft attr ha.notRef s l

/-- prov:label: strings, plain or language-tagged -/
theorem c10x_label (nsmap) (hints : List (String × FloatAtom)) (ft : Bool) (attr : QName) (hr : isRefAttr attr = false)
    (hl : (attr.uri == provUri ++ "label") = true) (v : Value) (hv : LabelValOk v) :
    readChildValue hints false false (childAt nsmap ft attr v) = some (absValue v) := by
  cases v with
  | str s =>
    have henc : encodeXmlAttr ft attr (.str s) = { xsiType := none, lang := none, ref := none, text := some s } := by
      simp [encodeXmlAttr, hr, hl, Value.pyStrFull, Value.pyStr]
    simp [readChildValue, childAt, childNode, henc, attrOf, absValue]
  | lit s ty lang =>
    cases ty with
    | none => exact absurd hv (by simp [LabelValOk])
    | some t =>
      cases lang with
      | none => exact absurd hv (by simp [LabelValOk])
      | some l =>
        obtain ⟨rfl, _⟩ := hv
        exact c10x_lang nsmap hints ft attr hr s l
  | _ => exact absurd hv (by simp [LabelValOk])

/-! ### one child, as `readRecord` classifies it -/

theorem formals_sub (k : RecKind) : ∀ l ∈ k.formals, l ∈ attrQNames ∨ l ∈ attrLiterals := by cases k <;> decide

theorem ref_not_time : ∀ l ∈ attrQNames, timeChildren.contains l = false := by decide
theorem time_is_time : ∀ l ∈ attrLiterals, timeChildren.contains l = true := by decide

theorem loc_of_inProvSet {names : List String} {a : QName} (hns : a.ns.uri = provUri) (h : inProvSet names a = true) : a.loc ∈ names := by
  simp only [inProvSet, List.any_eq_true, beq_iff_eq] at h
  obtain ⟨l, hl, hu⟩ := h
  have : a.loc = l := by
    have e : provUri ++ a.loc = provUri ++ l := by rw [← hu]; simp [QName.uri, hns]
    exact str_append_left_cancel _ _ _ e
  rw [this]; exact hl

theorem inProvSet_of_loc {names : List String} {a : QName} (hns : a.ns.uri = provUri) (h : a.loc ∈ names) : inProvSet names a = true := by
  simp only [inProvSet, List.any_eq_true, beq_iff_eq]
  exact ⟨a.loc, h, by simp [QName.uri, hns]⟩

/-- what is asked of a pair for the specification reader, by class of attribute -/
def SpecPairOk (nsmap : List (Option String × String)) (hints : List (String × FloatAtom)) (k : RecKind) (a : QName) (v : Value) : Prop :=
  if isRefAttr a then a.ns.uri = provUri ∧ a.loc ∈ k.formals ∧ ∃ q, v = .qn q ∧ q.print ≠ "" ∧ resolveQName nsmap q.print = some q.uri
  else if isTimeAttr a then a.ns.uri = provUri ∧ a.loc ∈ k.formals ∧ ∃ t, v = .dt t
  else if a.uri == provUri ++ "label" then LabelValOk v
  else SpecValOk nsmap hints a v

theorem child_read (nsmap) (hstd : StdMapX nsmap) (hints : List (String × FloatAtom)) (ft : Bool) (k : RecKind) (a : QName) (v : Value)
    (hok : SpecPairOk nsmap hints k a v) :
    childEntry hints k.formals (childAt nsmap ft a v) = some (a.uri, absValue v) := by
  have hcu : (childAt nsmap ft a v).uri = a.ns.uri := rfl
  have hcl : (childAt nsmap ft a v).loc = a.loc := rfl
  unfold SpecPairOk at hok
  unfold childEntry
  rw [hcu, hcl]
  by_cases href : isRefAttr a = true
  · simp only [href, if_true] at hok
    obtain ⟨hns, hloc, q, rfl, hne, hres⟩ := hok
    have h1 : (a.ns.uri == provNsX) = true := by rw [hns, provUri_eq]; simp
    have h2 : k.formals.contains a.loc = true := by simpa using hloc
    have h3 : timeChildren.contains a.loc = false := ref_not_time a.loc (loc_of_inProvSet hns href)
    simp only [h1, h2, h3, Bool.and_self, Bool.and_false, Bool.not_false, Bool.and_true]
    rw [c10x_ref nsmap hints ft a href q hne hres]
    simp [QName.uri]
  · have href' : isRefAttr a = false := by simpa using href
    simp only [href', Bool.false_eq_true, if_false] at hok
    by_cases htime : isTimeAttr a = true
    · simp only [htime, if_true] at hok
      obtain ⟨hns, hloc, t, rfl⟩ := hok
      have h1 : (a.ns.uri == provNsX) = true := by rw [hns, provUri_eq]; simp
      have h2 : k.formals.contains a.loc = true := by simpa using hloc
      have h3 : timeChildren.contains a.loc = true := time_is_time a.loc (loc_of_inProvSet hns htime)
      simp only [h1, h2, h3, Bool.and_self, Bool.not_true, Bool.and_false]
      rw [c10x_time nsmap hints ft a href' t]
      simp [QName.uri]
    · have htime' : isTimeAttr a = false := by simpa using htime
      simp only [htime', Bool.false_eq_true, if_false] at hok
      -- not a formal child of this record type
      have hnf : (a.ns.uri == provNsX && k.formals.contains a.loc) = false := by
        rw [Bool.eq_false_iff]
        intro h
        simp only [Bool.and_eq_true, beq_iff_eq, List.contains_iff_mem] at h
        obtain ⟨hns, hloc⟩ := h
        have hns' : a.ns.uri = provUri := by rw [provUri_eq]; exact hns
        rcases formals_sub k a.loc hloc with h1 | h1
        · have : isRefAttr a = true := inProvSet_of_loc hns' h1
          rw [href'] at this; cases this
        · have : isTimeAttr a = true := inProvSet_of_loc hns' h1
          rw [htime'] at this; cases this
      simp only [hnf, Bool.false_and, Bool.not_false, Bool.and_true]
      by_cases hlab : (a.uri == provUri ++ "label") = true
      · simp only [hlab, if_true] at hok
        rw [c10x_label nsmap hints ft a href' hlab v hok]
        simp [QName.uri]
      · have hlab' : (a.uri == provUri ++ "label") = false := by simpa using hlab
        simp only [hlab', Bool.false_eq_true, if_false] at hok
        rw [c10x_value_any nsmap hstd hints ft a ⟨href', notTime_of_notTimeAttr htime', hlab'⟩ v hok]
        simp [QName.uri]

theorem mapM_children (nsmap) (hstd : StdMapX nsmap) (hints : List (String × FloatAtom)) (ft : Bool) (k : RecKind) :
    ∀ (ps : List (QName × Value)), (∀ p ∈ ps, SpecPairOk nsmap hints k p.1 p.2) →
    mapM? (childEntry hints k.formals) (ps.map (fun p => childAt nsmap ft p.1 p.2)) = some (ps.map (fun p => (p.1.uri, absValue p.2)))
  | [], _ => rfl
  | p :: rest, h => by
    simp only [List.map_cons, mapM?, child_read nsmap hstd hints ft k p.1 p.2 (h p List.mem_cons_self),
      mapM_children nsmap hstd hints ft k rest (fun q hq => h q (List.mem_cons_of_mem _ hq))]

/-! ### the record element -/

/-- the record element as the reader meets it: in-scope declarations filled in, here and on every child -/
def elemAt (nsmap : List (Option String × String)) (ft : Bool) (r : Record) : XNode :=
  { (encodeXmlRecord ft r) with
    nsmap := nsmap
    children := (sortedAttributes r.kind (deriveLabel r.kind r.flat).2).map (fun p => childAt nsmap ft p.1 p.2) }

theorem elementTable_base (k : RecKind) : elementTable.find? (fun e => e.1 == k.provN) = some (k.provN, k.typeName, none) := by
  cases k <;> decide

theorem elementTable_sub (s : String × String × RecKind) (hs : s ∈ subtypeTable) :
    elementTable.find? (fun e => e.1 == s.2.1) = some (s.2.1, s.2.2.typeName, some s.1) := by
  revert s
  decide

def subTypeOf : Option String → List (String × AVal)
  | some t => [(provNsX ++ "type", AVal.qn (provNsX ++ t))]
  | none => []

theorem readRecord_eq (hints : List (String × FloatAtom)) (el : XNode) (label kind : String) (sub : Option String) (formals : List String)
    (hu : el.uri = provNsX) (hl : el.loc = label)
    (ht : elementTable.find? (fun e => e.1 == label) = some (label, kind, sub))
    (hf : ((formalOrder.find? (fun f => f.1 == kind)).map (·.2)).getD [] = formals)
    (hord : isNonDecreasing (el.children.map (childRank formals)) = true)
    (id : Option String) (hid : readId el = some id)
    (attrs : List (String × AVal)) (hattrs : mapM? (childEntry hints formals) el.children = some attrs)
    (hnoty : attrOf el xsiNsX "type" = none) :
    readRecord hints el = some ⟨kind, id, attrs ++ subTypeOf sub⟩ := by
  unfold readRecord
  have hne : (el.uri != provNsX) = false := by simp [hu]
  simp only [hne, Bool.false_eq_true, if_false, hl, ht, hf, hord, Bool.not_true, hid, hattrs, extraTypes, hnoty, List.append_nil]
  cases sub <;> rfl

/-- **C10 for one PROV-XML record**: the element the writer emits for a record, with identifier and names that resolve in the
    element's scope and PROV names split canonically, is read by the specification reader as a record of the same PROV-DM type,
    with the identifier's URI and exactly the record's pairs — those written as children, in the writer's (= the schema's)
    order, followed by the prov:type the element name stands for -/
theorem c10x_record (nsmap) (hstd : StdMapX nsmap) (hints : List (String × FloatAtom)) (ft : Bool) (r : Record)
    (hid : ∀ q, r.id = some q → resolveQName nsmap q.print = some q.uri)
    (hcanon : Canon (r.kind.formals ++ tailOrder) (deriveLabel r.kind r.flat).2)
    (hok : ∀ p ∈ (deriveLabel r.kind r.flat).2, SpecPairOk nsmap hints r.kind p.1 p.2) :
    ∃ pairs : List (QName × Value), pairs.Perm r.flat ∧
      readRecord hints (elemAt nsmap ft r) =
        some ⟨r.kind.typeName, r.id.map QName.uri, pairs.map (fun p => (p.1.uri, absValue p.2))⟩ := by
  generalize hps : sortedAttributes r.kind (deriveLabel r.kind r.flat).2 = ps
  have hperm : ps.Perm (deriveLabel r.kind r.flat).2 := by rw [← hps]; exact c02_sortedAttributes_perm _ _
  have hokps : ∀ p ∈ ps, SpecPairOk nsmap hints r.kind p.1 p.2 := fun p hp => hok p (hperm.mem_iff.mp hp)
  have hchildren : (elemAt nsmap ft r).children = ps.map (fun p => childAt nsmap ft p.1 p.2) := by rw [← hps]; rfl
  have hattrs := mapM_children nsmap hstd hints ft r.kind ps hokps
  have hord : isNonDecreasing ((elemAt nsmap ft r).children.map (childRank r.kind.formals)) = true := by
    have := c10x_schema_order ft r.kind (deriveLabel r.kind r.flat).2 hcanon
    rw [hps] at this
    rw [hchildren]
    simp only [List.map_map] at this ⊢
    exact this
  have hidr : readId (elemAt nsmap ft r) = some (r.id.map QName.uri) := by
    unfold readId
    cases hrid : r.id with
    | none => simp [elemAt, encodeXmlRecord, attrOf, hrid]
    | some q =>
      have e : ((provUri, "id") == (provNsX, "id")) = true := by decide
      simp [elemAt, encodeXmlRecord, attrOf, hrid, e, hid q hrid]
  have hnoty : attrOf (elemAt nsmap ft r) xsiNsX "type" = none := by
    have e : ((provUri, "id") == (xsiNsX, "type")) = false := by decide
    cases hrid : r.id <;> simp [elemAt, encodeXmlRecord, attrOf, hrid, e]
  have hu : (elemAt nsmap ft r).uri = provNsX := by simp [elemAt, encodeXmlRecord, provUri_eq]
  have hl : (elemAt nsmap ft r).loc = (deriveLabel r.kind r.flat).1 := by simp [elemAt, encodeXmlRecord]
  rw [← hchildren] at hattrs
  rcases c02_deriveLabel_exact r.kind r.flat with ⟨_, hdl⟩ | ⟨a, q, l₁, l₂, h1, _, h3, h4, s, hs, hq, hk, hlbl⟩
  · refine ⟨ps, by rw [hdl] at hperm; exact hperm, ?_⟩
    have := readRecord_eq hints (elemAt nsmap ft r) r.kind.provN r.kind.typeName none r.kind.formals hu (by rw [hl, hdl])
      (elementTable_base r.kind) (formalOrder_kind r.kind) hord _ hidr _ hattrs hnoty
    simpa [subTypeOf] using this
  · refine ⟨ps ++ [(a, .qn q)], ?_, ?_⟩
    · rw [h1]
      have p1 : (ps ++ [(a, Value.qn q)]).Perm ((a, Value.qn q) :: ps) := List.perm_append_comm
      have p2 : ((a, Value.qn q) :: ps).Perm ((a, Value.qn q) :: (l₁ ++ l₂)) := List.Perm.cons _ (by rw [← h4]; exact hperm)
      exact p1.trans (p2.trans List.perm_middle.symm)
    · have hfind := subtype_find s hs q.uri hq
      have hlbl' : (deriveLabel r.kind r.flat).1 = s.2.1 := by rw [hlbl, hfind]
      have := readRecord_eq hints (elemAt nsmap ft r) s.2.1 r.kind.typeName (some s.1) r.kind.formals hu (by rw [hl, hlbl'])
        (by rw [← hk]; exact elementTable_sub s hs) (formalOrder_kind r.kind) hord _ hidr _ hattrs hnoty
      rw [this]
      have hau : a.uri = provNsX ++ "type" := by
        simp only [isSubtypePair, Bool.and_eq_true, beq_iff_eq] at h3
        rw [h3.1, provUri_eq]
      simp [List.map_append, absValue, hau, hq, provUri_eq, subTypeOf]

/-! ### non-vacuity: `wasGeneratedBy(ex:g; ex:e, ex:a, -, [ex:k=1, ex:k="abc" %% ex:T, prov:label="étiquette"@fr])` -/

def nsExX : List (Option String × String) :=
  [(some "ex", "http://example.org/"), (some "prov", provUri), (some "xsd", xsdNsX)]

example (ft : Bool) : ∃ pairs : List (QName × Value), pairs.Perm C09.rcEx.flat ∧
    readRecord [] (elemAt nsExX ft C09.rcEx) =
      some ⟨"Generation", some "http://example.org/g", pairs.map (fun p => (p.1.uri, absValue p.2))⟩ := by
  have hd : (deriveLabel C09.rcEx.kind C09.rcEx.flat).2 = C09.rcEx.flat := by decide +kernel
  have hstd : StdMapX nsExX := by show nsmapGet nsExX (some "xsd") = some xsdNsX; decide +kernel
  have := c10x_record nsExX hstd [] ft C09.rcEx
    (fun q hq => by
      have : q = C09.exQ "g" := by simpa [C09.rcEx] using hq.symm
      subst this
      decide +kernel)
    (by
      rw [hd, rcEx_flat]
      intro p hp n hn hu
      simp only [List.mem_cons, List.mem_nil_iff, or_false] at hp
      rcases hp with rfl | rfl | rfl | rfl | rfl
      · exact ⟨rfl, str_append_left_cancel provUri _ _ hu⟩
      · exact ⟨rfl, str_append_left_cancel provUri _ _ hu⟩
      · exfalso
        have hn' : n ∈ ["entity", "activity", "time", "label", "location", "role", "type", "value"] := hn
        simp only [List.mem_cons, List.mem_nil_iff, or_false] at hn'
        rcases hn' with rfl | rfl | rfl | rfl | rfl | rfl | rfl | rfl <;> exact absurd hu (by decide)
      · exfalso
        have hn' : n ∈ ["entity", "activity", "time", "label", "location", "role", "type", "value"] := hn
        simp only [List.mem_cons, List.mem_nil_iff, or_false] at hn'
        rcases hn' with rfl | rfl | rfl | rfl | rfl | rfl | rfl | rfl <;> exact absurd hu (by decide)
      · exact ⟨rfl, str_append_left_cancel provUri _ _ hu⟩)
    (by
      rw [hd, rcEx_flat]
      intro p hp
      simp only [List.mem_cons, List.mem_nil_iff, or_false] at hp
      rcases hp with rfl | rfl | rfl | rfl | rfl
      · have : isRefAttr (provQ "entity") = true := by decide
        simp only [SpecPairOk, this, if_true]
        exact ⟨rfl, by decide, C09.exQ "e", rfl, by decide, by decide +kernel⟩
      · have : isRefAttr (provQ "activity") = true := by decide
        simp only [SpecPairOk, this, if_true]
        exact ⟨rfl, by decide, C09.exQ "a", rfl, by decide, by decide +kernel⟩
      · have h1 : isRefAttr (C09.exQ "k") = false := by decide
        have h2 : isTimeAttr (C09.exQ "k") = false := by decide
        have h3 : ((C09.exQ "k").uri == provUri ++ "label") = false := by decide
        simp only [SpecPairOk, h1, h2, h3, Bool.false_eq_true, if_false, SpecValOk]
      · have h1 : isRefAttr (C09.exQ "k") = false := by decide
        have h2 : isTimeAttr (C09.exQ "k") = false := by decide
        have h3 : ((C09.exQ "k").uri == provUri ++ "label") = false := by decide
        simp only [SpecPairOk, h1, h2, h3, Bool.false_eq_true, if_false, SpecValOk]
        exact ⟨by decide, by decide +kernel, by decide, by decide, by decide, by decide, by decide, by decide, by decide, by decide⟩
      · have h1 : isRefAttr (provQ "label") = false := by decide
        have h2 : isTimeAttr (provQ "label") = false := by decide
        have h3 : ((provQ "label").uri == provUri ++ "label") = true := by decide
        simp only [SpecPairOk, h1, h2, h3, Bool.false_eq_true, if_false, if_true, LabelValOk]
        exact ⟨trivial, by decide⟩)
  simpa [C09.rcEx, RecKind.typeName, C09.exQ, QName.uri] using this

end Prov.C10

/-
  C09 — flattened(), update() and add_bundle() conserve records.
  Counting/kind conservation of `add_record` sequences (the body of update, flattened, add_bundle of a
  document and the constructors); target-only footprint.
-/
import Prov.Lemmas.Frame

namespace Prov.C09
open Prov Heap

theorem mkRecord_ok_spec (h : Heap) (c : Nat) (k : RecKind) (id : Option QName) (attrs : List AttrArg)
    (h' : Heap) (r : Nat) (hres : h.mkRecord c k id attrs = (h', .ok r)) :
    r = h.recs.size ∧ h'.conts = h.conts ∧ (h'.recCell r).r.kind = k ∧ (h'.recCell r).r.id = id ∧
    (h'.recCell r).bundle = c ∧ h'.recs.size = h.recs.size + 1 := by
  unfold Heap.mkRecord at hres
  split at hres
  · cases hres
  · simp only [] at hres
    -- addAttributes never changes kind or identifier
    have hkind : ∀ (par : Option NsMgr) (m : NsMgr) (rc : Record) (as : List AttrArg),
        (Record.addAttributes par m rc as).2.1.kind = rc.kind ∧ (Record.addAttributes par m rc as).2.1.id = rc.id := by
      intro par m rc as
      unfold Record.addAttributes
      generalize isCollectionCall as = ic
      induction as generalizing m rc with
      | nil => exact ⟨rfl, rfl⟩
      | cons a rest ih =>
        unfold addAttrsLoop
        have h1 : (addOne par ic m rc a).2.1.kind = rc.kind ∧ (addOne par ic m rc a).2.1.id = rc.id := by
          unfold addOne
          split
          · exact ⟨rfl, rfl⟩
          · simp only []
            split
            · exact ⟨rfl, rfl⟩
            · split
              · exact ⟨rfl, rfl⟩
              · exact ⟨rfl, rfl⟩
              · unfold storeValue
                split
                · split
                  · split <;> exact ⟨rfl, rfl⟩
                  · exact ⟨rfl, rfl⟩
                · exact ⟨rfl, rfl⟩
        generalize hres1 : addOne par ic m rc a = res1 at h1
        obtain ⟨m', r', e⟩ := res1
        cases e with
        | none =>
          simp only []
          have := ih m' r'
          exact ⟨this.1.trans h1.1, this.2.trans h1.2⟩
        | some err => exact h1
    have hk := hkind (h.parentOf c) (h.mgrOf c) ⟨k, id, []⟩ attrs
    generalize Record.addAttributes (h.parentOf c) (h.mgrOf c) ⟨k, id, []⟩ attrs = res at hres hk
    obtain ⟨m', rc, e⟩ := res
    cases e with
    | some err => cases hres
    | none =>
      simp only [Prod.mk.injEq, Except.ok.injEq] at hres
      obtain ⟨hh, hr⟩ := hres
      subst hh
      have hr' : r = h.recs.size := by simpa [Heap.setMgr] using hr.symm
      subst hr'
      simp only at hk
      refine ⟨rfl, rfl, ?_, ?_, ?_, ?_⟩
      · simpa [Heap.recCell, Heap.setMgr, Array.getD_eq_getD_getElem?] using hk.1
      · simpa [Heap.recCell, Heap.setMgr, Array.getD_eq_getD_getElem?] using hk.2
      · simp [Heap.recCell, Heap.setMgr, Array.getD_eq_getD_getElem?]
      · simp [Heap.setMgr]

/-- a successful `new_record` appends exactly one record, of the requested kind, to its container and to
    no other -/
theorem c09_newRecord_appends (h : Heap) (c : Nat) (hc : c < h.conts.size) (k : RecKind) (idArg : NameArg)
    (attrs : List AttrArg) (h' : Heap) (r : Nat) (hres : h.newRecord c k idArg attrs = (h', .ok r)) :
    (h'.cont c).records = (h.cont c).records ++ [r] ∧ (h'.recCell r).r.kind = k ∧ r = h.recs.size ∧
    h'.recs.size = h.recs.size + 1 := by
  unfold Heap.newRecord at hres
  simp only [Heap.validName] at hres
  generalize hmk : (h.setMgr c ((h.mgrOf c).validName (h.parentOf c) idArg).1).mkRecord c k
    ((h.mgrOf c).validName (h.parentOf c) idArg).2 attrs = res at hres
  obtain ⟨h2, e⟩ := res
  cases e with
  | error err => cases hres
  | ok r2 =>
    simp only [Prod.mk.injEq, Except.ok.injEq] at hres
    obtain ⟨hh, hr⟩ := hres
    subst hr
    obtain ⟨hr2, hconts, hkind, _, _, hsz2⟩ := mkRecord_ok_spec _ c k _ attrs h2 r2 hmk
    have hc2 : c < h2.conts.size := by rw [hconts]; exact hc
    have hcont2 : h2.cont c = h.cont c := by simp [Heap.cont, hconts, conts_setMgr]
    subst hh
    refine ⟨?_, ?_, by simpa [recs_setMgr] using hr2, by simpa [recs_setMgr, recs_addRecordRaw] using hsz2⟩
    · simp only [Heap.addRecordRaw]
      rw [cont_setCont_self _ _ _ hc2, hcont2]
    · simp only [Heap.recCell, recs_addRecordRaw]
      exact hkind

/-- **conservation for a whole `add_record` sequence** (update, flattened, constructors, add_bundle of a
    document): on success the target holds its former records followed by exactly one new record per
    source record, of the same kinds in the same order; nothing is dropped or duplicated -/
theorem c09_addRecords_conserves (h : Heap) (c : Nat) (hc : c < h.conts.size) (rs : List Nat) (h' : Heap)
    (hsrc : ∀ r ∈ rs, r < h.recs.size)
    (hres : h.addRecords c rs = (h', none)) :
    ∃ news : List Nat, (h'.cont c).records = (h.cont c).records ++ news ∧ news.length = rs.length ∧
      news.map (fun r => (h'.recCell r).r.kind) = rs.map (fun r => (h.recCell r).r.kind) ∧
      h'.conts.size = h.conts.size ∧ h.recs.size ≤ h'.recs.size ∧
      (∀ r, r < h.recs.size → h'.recCell r = h.recCell r) := by
  induction rs generalizing h with
  | nil =>
    simp only [Heap.addRecords, Prod.mk.injEq, and_true] at hres
    subst hres
    exact ⟨[], by simp, rfl, rfl, rfl, Nat.le_refl _, fun _ _ => rfl⟩
  | cons r rest ih =>
    unfold Heap.addRecords at hres
    simp only [Heap.addRecord] at hres
    generalize hnr : h.newRecord c (h.recCell r).r.kind (recreateArgs (h.recCell r).r).1
      (recreateArgs (h.recCell r).r).2 = res at hres
    obtain ⟨h1, e⟩ := res
    cases e with
    | error err => cases hres
    | ok nr =>
      simp only [] at hres
      obtain ⟨happ, hkind, hnew, hsize1⟩ := c09_newRecord_appends h c hc _ _ _ h1 nr hnr
      have hsz : h1.conts.size = h.conts.size := by
        have := congrArg (fun p => p.1.conts.size) hnr
        simp only at this
        rw [← this]
        simp only [Heap.newRecord, Heap.validName]
        have hcm := conts_mkRecord (h.setMgr c ((h.mgrOf c).validName (h.parentOf c) (recreateArgs (h.recCell r).r).1).1) c
          (h.recCell r).r.kind ((h.mgrOf c).validName (h.parentOf c) (recreateArgs (h.recCell r).r).1).2
          (recreateArgs (h.recCell r).r).2
        generalize (h.setMgr c ((h.mgrOf c).validName (h.parentOf c) (recreateArgs (h.recCell r).r).1).1).mkRecord c
          (h.recCell r).r.kind ((h.mgrOf c).validName (h.parentOf c) (recreateArgs (h.recCell r).r).1).2
          (recreateArgs (h.recCell r).r).2 = res2 at hcm
        obtain ⟨hh, e2⟩ := res2
        simp only at hcm
        cases e2 <;> simp [hcm, conts_setMgr, Heap.addRecordRaw, Heap.setCont]
      have hrecs1 : h.recs.size ≤ h1.recs.size := by
        have := recs_size_newRecord h c (h.recCell r).r.kind (recreateArgs (h.recCell r).r).1 (recreateArgs (h.recCell r).r).2
        rw [hnr] at this; exact this
      have hframe1 : ∀ x, x < h.recs.size → h1.recCell x = h.recCell x := by
        intro x hx
        have := recCell_newRecord_lt h c (h.recCell r).r.kind (recreateArgs (h.recCell r).r).1 (recreateArgs (h.recCell r).r).2 x hx
        rw [hnr] at this; exact this
      obtain ⟨news, h1r, h1l, h1k, h1s, h1m, h1f⟩ := ih h1 (by rw [hsz]; exact hc)
        (fun x hx => Nat.lt_of_lt_of_le (hsrc x (List.mem_cons_of_mem _ hx)) hrecs1) hres
      refine ⟨nr :: news, ?_, by simp [h1l], ?_, h1s.trans hsz, Nat.le_trans hrecs1 h1m, ?_⟩
      · rw [h1r, happ]; simp
      · simp only [List.map_cons]
        congr 1
        · rw [h1f nr (by rw [hnew, hsize1]; exact Nat.lt_succ_self _)]
          exact hkind
        · rw [h1k]
          apply List.map_congr_left
          intro x hx
          rw [hframe1 x (hsrc x (List.mem_cons_of_mem _ hx))]
      · intro x hx
        rw [h1f x (Nat.lt_of_lt_of_le hx hrecs1), hframe1 x hx]

end Prov.C09

/-
  C08 / C09 / C14, every state the public operations can reach: `Reach` closes the empty heap under the mutators of
  `Props/C05B` (`HOp`: documents, `bundle()`, `new_record`, `add_attributes`, `set_time`, `add_asserted_type`, namespace
  operations) **and** under the deriving operations — `add_record`, `update`, `add_bundle`, `flattened()`, `unified()` of
  bundles and documents, successful or not. Every reachable heap satisfies `Good2` (`reach_good2`), so the heap theorems of
  C08/C09 hold of every such state with no hypothesis on records, managers or indices: histories may go through derived
  documents and come back. The one side condition is on the *mutators*: a step that stores a `prov:collection` attribute or a
  membership record leaves the space (the library's multi-value compatibility path, which no property claims).
-/
import Prov.Props.C08H

namespace Prov.C08
open Prov Prov.Heap Prov.C05 Prov.C04 Prov.C09 Prov.C13

theorem recs_bundle (h : Heap) (d : Nat) (idArg : NameArg) : (h.bundle d idArg).1.recs = h.recs := by
  unfold Heap.bundle
  split
  · rfl
  · have h1 : (h.validName d idArg).1.recs = h.recs := rfl
    generalize h.validName d idArg = res at h1
    obtain ⟨hh, vid⟩ := res
    simp only at h1 ⊢
    cases vid with
    | none => exact h1
    | some q =>
      simp only
      split
      · exact h1
      · have h2 : (hh.allocCont false (some q) [] (some d)).1.recs = hh.recs := rfl
        generalize hh.allocCont false (some q) [] (some d) = al at h2
        obtain ⟨h3, nb⟩ := al
        simp only at h2 ⊢
        unfold Heap.setCont
        exact h2.trans h1

theorem good2_bundle {h : Heap} (g : Good2 h) (d : Nat) (idArg : NameArg) : Good2 (h.bundle d idArg).1 := by
  have e : ∀ r, (h.bundle d idArg).1.recCell r = h.recCell r := fun r => by simp [recCell, recs_bundle]
  exact ⟨⟨heapNormal_bundle g.good.normal d idArg, heapExtra_bundle g.good.extra d idArg, wfRecs_bundle g.good.wf d idArg,
    fun r => by rw [e]; exact g.good.noColl r⟩, fun r => by rw [e]; exact g.noMem r⟩

theorem good2_updateBundle {h : Heap} (g : Good2 h) (c o : Nat) : Good2 (h.updateBundle c o).1 := by
  unfold updateBundle
  simp only []
  split
  · exact g
  · exact good2_addRecords c _ h g

theorem good2_updateGo (d : Nat) : ∀ (bs : List (QName × Nat)) (h : Heap), Good2 h → Good2 (updateDoc.go d h bs).1
  | [], _, g => g
  | (_, b) :: rest, h, g => by
    unfold updateDoc.go
    cases hid : (h.cont b).id with
    | none => exact g
    | some bid =>
      simp only []
      cases hget : bundlesGet (h.cont d).bundles bid with
      | some tb =>
        simp only []
        have s1 := good2_updateBundle g tb b
        generalize h.updateBundle tb b = res at s1
        obtain ⟨h', e⟩ := res
        cases e with
        | none => exact good2_updateGo d rest h' s1
        | some err => exact s1
      | none =>
        simp only []
        have s1 := good2_bundle g d (.qn bid)
        generalize h.bundle d (.qn bid) = res at s1
        obtain ⟨h', e⟩ := res
        cases e with
        | error err => exact s1
        | ok nb =>
          simp only []
          have s2 := good2_updateBundle s1 nb b
          generalize h'.updateBundle nb b = res2 at s2
          obtain ⟨h'', e2⟩ := res2
          cases e2 with
          | none => exact good2_updateGo d rest h'' s2
          | some err => exact s2

/-- **`update` keeps the invariants** -/
theorem good2_update {h : Heap} (g : Good2 h) (c o : Nat) : Good2 (h.update c o).1 := by
  unfold update
  split
  · unfold updateDoc
    simp only []
    have s1 := good2_addRecords c (h.cont o).records h g
    generalize h.addRecords c (h.cont o).records = res at s1
    obtain ⟨h1, e⟩ := res
    cases e with
    | some err => exact s1
    | none => exact good2_updateGo c (h.cont o).bundles h1 s1
  · exact good2_updateBundle g c o

/-- the deriving operations of the public interface -/
inductive DOp where
  | addRecord (c r : Nat)
  | update (c o : Nat)
  | addBundle (d b : Nat) (id : NameArg) (nsOrder : List Ns)
  | flattened (d : Nat)
  | unifiedBundle (c : Nat)
  | unifiedDoc (d : Nat)

def dstep (h : Heap) : DOp → Heap
  | .addRecord c r => (h.addRecord c r).1
  | .update c o => (h.update c o).1
  | .addBundle d b id nsOrder => (h.addBundle d b id nsOrder).1
  | .flattened d => (h.flattened d).1
  | .unifiedBundle c => (h.unifiedBundle c).1
  | .unifiedDoc d => (h.unifiedDoc d).1

theorem dstep_good2 {h : Heap} (g : Good2 h) (op : DOp) : Good2 (dstep h op) := by
  cases op with
  | addRecord c r => exact good2_addRecord g c r
  | update c o => exact good2_update g c o
  | addBundle d b id nsOrder => exact good2_addBundle g d b id nsOrder
  | flattened d => exact good2_flattened g d
  | unifiedBundle c => exact good2_unifiedBundle g c
  | unifiedDoc d => exact good2_unifiedDoc g d

/-- no `prov:collection` attribute, no membership record -/
def Clean (h : Heap) : Prop := (∀ r, NoCollRec (h.recCell r).r) ∧ NoMem h

/-- the same, computed -/
def cleanB (h : Heap) : Bool :=
  h.recs.toList.all (fun cell => cell.r.kind != .membership && cell.r.flat.all (fun x => x.1.uri != collU))

theorem clean_of_cleanB {h : Heap} (hb : cleanB h = true) : Clean h := by
  unfold cleanB at hb
  rw [List.all_eq_true] at hb
  have key : ∀ r, (h.recCell r).r.kind ≠ .membership ∧ NoCollRec (h.recCell r).r := by
    intro r
    by_cases hr : r < h.recs.size
    · have hmem : h.recs[r] ∈ h.recs.toList := by simp [Array.mem_toList_iff]
      have hc := hb _ hmem
      simp only [Bool.and_eq_true, bne_iff_ne, ne_eq, List.all_eq_true] at hc
      have e : h.recCell r = h.recs[r] := by simp [recCell, Array.getD_eq_getD_getElem?, Array.getElem?_eq_getElem hr]
      rw [e]
      exact ⟨hc.1, fun x hx => hc.2 x hx⟩
    · have e : h.recCell r = default := by
        simp [recCell, Array.getD_eq_getD_getElem?, Array.getElem?_eq_none (Nat.le_of_not_lt hr)]
      rw [e]
      exact ⟨by decide, default_noColl⟩
  exact ⟨fun r => (key r).2, fun r => (key r).1⟩

/-- the states the public operations reach from nothing: mutators (whose arguments are of the right classes and which store
    neither a `prov:collection` attribute nor a membership record) and deriving operations, in any order -/
inductive Reach : Heap → Prop
  | empty : Reach Heap.empty
  | mutate {h : Heap} (op : HOp) : Reach h → op.ok → op.argsOk → Clean (hstep h op) → Reach (hstep h op)
  | derive {h : Heap} (op : DOp) : Reach h → Reach (dstep h op)

theorem good2_empty : Good2 Heap.empty :=
  ⟨⟨heapNormal_empty, heapExtra_empty, wfRecs_empty, fun r => by
      have : (Heap.empty.recCell r) = default := by simp [Heap.empty, recCell]
      rw [this]; exact default_noColl⟩, fun r => by
      have : (Heap.empty.recCell r) = default := by simp [Heap.empty, recCell]
      rw [this]; decide⟩

/-- **every reachable state satisfies the invariants** -/
theorem reach_good2 {h : Heap} (hr : Reach h) : Good2 h := by
  induction hr with
  | empty => exact good2_empty
  | mutate op _ hok hargs hclean ih =>
    exact ⟨⟨hstep_normal ih.good.normal op hok, hstep_extra ih.good.normal ih.good.extra op hok hargs, hstep_wf ih.good.wf op, hclean.1⟩,
      hclean.2⟩
  | derive op _ ih => exact dstep_good2 ih op

/-- **every record of every reachable state is a stored record** with the identifier its class requires — also in
    documents obtained by `update`, `add_bundle`, `flattened()`, `unified()` -/
theorem c09_reach_stored {h : Heap} (hr : Reach h) (r : Nat) (hlt : r < h.recs.size) : StoredRec (h.recCell r).r :=
  (reach_good2 hr).good.storedRec r hlt

/-- **`unified()` of a bundle in any reachable state** (the conclusion of `c08_unifiedBundle_content`) -/
theorem c08_unifiedBundle_reach {h : Heap} (hr : Reach h) (c : Nat) (h' : Heap) (nb : Nat)
    (hres : h.unifiedBundle c = (h', .ok nb)) :
    ∃ h1 mp news, GoodMap h h1 (groupsOf h c) mp ∧ (∀ r, r < h.recs.size → h1.recCell r = h.recCell r) ∧
      nb = h1.conts.size ∧ (h'.cont nb).records = news ∧
      news.length = (placeMerged mp (h.cont c).records).length ∧
      (∀ p ∈ (placeMerged mp (h.cont c).records).zip news, recEq (h1.recCell p.1).r (h'.recCell p.2).r = true) ∧
      (∀ r, r < h1.recs.size → h'.recCell r = h1.recCell r) ∧ h1.recs.size ≤ h'.recs.size ∧
      unifiedRecords.mergeAll h [] (groupsOf h c) = (h1, .ok mp) :=
  c08_unifiedBundle_content h c (reach_good2 hr).good h' nb hres

theorem reach_of_ops : ∀ (ops : List HOp) (h : Heap), Reach h → (∀ op ∈ ops, op.ok ∧ op.argsOk) →
    (∀ n, n ≤ ops.length → Clean ((ops.take n).foldl hstep h)) → Reach (ops.foldl hstep h)
  | [], _, hr, _, _ => hr
  | op :: rest, h, hr, hok, hcl => by
    have h1 : Clean (hstep h op) := by simpa using hcl 1 (by simp)
    exact reach_of_ops rest (hstep h op) (Reach.mutate op hr (hok op List.mem_cons_self).1 (hok op List.mem_cons_self).2 h1)
      (fun o ho => hok o (List.mem_cons_of_mem _ ho))
      (fun n hn => by simpa using hcl (n + 1) (by simpa using hn))

theorem opsBundleDup_ok : ∀ op ∈ opsBundleDup, op.ok ∧ op.argsOk := by
  intro op hop
  simp only [opsBundleDup, List.mem_cons, List.mem_nil_iff, or_false] at hop
  rcases hop with rfl | rfl | rfl | rfl | rfl
  · exact ⟨trivial, trivial⟩
  · exact ⟨trivial, trivial⟩
  · refine ⟨by show isCollectionCall _ = false; decide, ?_⟩
    intro a ha
    simp only [List.mem_cons, List.mem_nil_iff, or_false] at ha
    subst ha
    exact ⟨fun v hv => by cases hv; trivial, fun f hf => by cases hf⟩
  · refine ⟨by show isCollectionCall _ = false; decide, ?_⟩
    intro a ha
    simp only [List.mem_cons, List.mem_nil_iff, or_false] at ha
    subst ha
    exact ⟨fun v hv => by cases hv; trivial, fun f hf => by cases hf⟩
  · exact ⟨by show isCollectionCall _ = false; decide, fun a ha => by cases ha⟩

/-- non-vacuity: a history through derived documents — build, unify, add a record to the result, flatten it — is reachable -/
example : Reach (dstep (hstep (dstep (opsBundleDup.foldl hstep Heap.empty) (.unifiedDoc 0))
    (.newRecord 2 .entity (.str "ex:later") [])) (.flattened 2)) := by
  refine Reach.derive _ (Reach.mutate _ (Reach.derive _ ?_) (by show isCollectionCall _ = false; decide) (by intro a ha; cases ha)
    (clean_of_cleanB (by decide +kernel)))
  refine reach_of_ops opsBundleDup Heap.empty Reach.empty opsBundleDup_ok ?_
  intro n hn
  have : n = 0 ∨ n = 1 ∨ n = 2 ∨ n = 3 ∨ n = 4 ∨ n = 5 := by
    have : n ≤ 5 := hn
    omega
  rcases this with rfl | rfl | rfl | rfl | rfl | rfl <;> exact clean_of_cleanB (by decide +kernel)

end Prov.C08

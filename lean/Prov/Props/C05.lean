/-
  C05 — Records stay in normal form: formal attributes single-valued, typed, normalised.
-/
import Std.Data.String.ToInt
import Prov.Lemmas.Record
import Prov.Lemmas.NsMgr
import Prov.Heap

namespace Prov.C05
open Prov

def isQn : Value → Bool | .qn _ => true | _ => false
def isDt : Value → Bool | .dt _ => true | _ => false

/-- a stored value is not a literal that the native parser table could still convert -/
def normalLit : Value → Bool
  | .lit lex (some t) none =>
    match xsdParserOf t with
    | some p => (match parseXsd p lex none with | .ok _ => false | _ => true)
    | none => true
  | .lit _ none none => false
  | _ => true

/-- normal form of a record -/
structure Normal (r : Record) : Prop where
  single : ∀ a, isProvAttr a = true → (r.get a).length ≤ 1
  refs   : ∀ a v, isRefAttr a = true → v ∈ r.get a → isQn v = true
  times  : ∀ a v, isTimeAttr a = true → v ∈ r.get a → isDt v = true
  others : ∀ a v, isProvAttr a = false → v ∈ r.get a → normalLit v = true

theorem normal_empty (k : RecKind) (id : Option QName) : Normal ⟨k, id, []⟩ := by
  refine ⟨?_, ?_, ?_, ?_⟩ <;> intros <;> simp_all [Record.get]

/-- reference and time attributes are disjoint classes (table fact) -/
theorem ref_not_time (a : QName) (h : isRefAttr a = true) : isTimeAttr a = false := by
  simp only [isRefAttr, isTimeAttr, inProvSet, List.any_eq_true, beq_iff_eq] at h ⊢
  obtain ⟨l, hl, he⟩ := h
  simp only [Bool.eq_false_iff, ne_eq, List.any_eq_true, beq_iff_eq, not_exists, not_and]
  intro l' hl' he'
  have hll : l = l' := by
    have := he.symm.trans he'
    have h2 := congrArg String.toList this
    simp only [String.toList_append] at h2
    exact String.toList_inj.mp (List.append_cancel_left h2)
  subst hll
  revert hl hl'
  simp only [attrQNames, attrLiterals]
  intro hl hl'
  simp only [List.mem_cons, List.mem_nil_iff, or_false] at hl hl'
  rcases hl' with rfl | rfl | rfl <;> simp at hl

theorem xsdParserOf_congr {a b : QName} (h : a.uri = b.uri) : xsdParserOf a = xsdParserOf b := by
  simp [xsdParserOf, h]

theorem rehomeLit_normal (m : NsMgr) (hm : m.Inv1) (lex : String) (ty : Option QName) (lang : Option String)
    (v : Value) (h : (rehomeLit m lex ty lang).2 = .ok v)
    (hnorm : normalLit (.lit lex ty lang) = true) : normalLit v = true := by
  cases ty with
  | none => simp only [rehomeLit] at h; cases h; exact hnorm
  | some t =>
    simp only [rehomeLit] at h
    cases h
    cases lang with
    | some l => rfl
    | none =>
      have hu := NsMgr.validQ_uri hm t
      simp only [normalLit, xsdParserOf_congr hu] at hnorm ⊢
      exact hnorm

/-- whatever `_auto_literal_conversion` stores is normalised -/
theorem autoLiteral_normal (m : NsMgr) (hm : m.Inv1) (x : ArgVal) (f : Option FloatAtom) (v : Value)
    (h : (autoLiteral m x f).2 = .ok v) : normalLit v = true := by
  cases x with
  | nil => simp [autoLiteral] at h
  | recId id =>
    cases id with
    | none => simp [autoLiteral] at h
    | some q => simp only [autoLiteral] at h; cases h; rfl
  | val w =>
    cases w with
    | qn q => simp only [autoLiteral] at h; cases h; rfl
    | lit lex ty lang =>
      cases lang with
      | some l =>
        simp only [autoLiteral] at h
        exact rehomeLit_normal m hm lex ty (some l) v h (by cases ty <;> rfl)
      | none =>
        cases ty with
        | none => simp only [autoLiteral] at h; cases h; rfl
        | some t =>
          simp only [autoLiteral] at h
          cases hp : xsdParserOf t with
          | none =>
            simp only [hp] at h
            exact rehomeLit_normal m hm lex (some t) none v h (by simp [normalLit, hp])
          | some p =>
            simp only [hp] at h
            cases hx : parseXsd p lex f with
            | ok v' =>
              simp only [hx] at h; cases h
              cases p <;> simp only [parseXsd] at hx
              · cases hx; rfl
              · split at hx <;> cases hx; rfl
              · split at hx <;> cases hx; rfl
              · split at hx <;> cases hx; rfl
              · split at hx <;> cases hx; rfl
              · cases hx; rfl
            | isNone =>
              simp only [hx] at h
              apply rehomeLit_normal m hm lex (some t) none v h
              simp only [normalLit, hp]
              cases p <;> simp only [parseXsd] at hx ⊢
              all_goals first
                | (cases hx; done)
                | (split at hx <;> first | (cases hx; done) | (simp_all))
            | crash e => simp only [hx] at h; cases h
    | str _ => simp only [autoLiteral] at h; cases h; rfl
    | int _ => simp only [autoLiteral] at h; cases h; rfl
    | bool _ => simp only [autoLiteral] at h; cases h; rfl
    | float _ => simp only [autoLiteral] at h; cases h; rfl
    | dt _ => simp only [autoLiteral] at h; cases h; rfl
    | uri _ => simp only [autoLiteral] at h; cases h; rfl

theorem autoLiteral_inv1 (m : NsMgr) (hm : m.Inv1) (x : ArgVal) (f : Option FloatAtom) :
    (autoLiteral m x f).1.Inv1 := by
  have hre : ∀ lex ty lang, (rehomeLit m lex ty lang).1.Inv1 := by
    intro lex ty lang
    cases ty with
    | none => exact hm
    | some t => exact NsMgr.validQ_inv1 hm t
  cases x with
  | nil => exact hm
  | recId id =>
    cases id with
    | none => exact hm
    | some q => exact NsMgr.validQ_inv1 hm q
  | val w =>
    cases w with
    | qn q => exact NsMgr.validQ_inv1 hm q
    | lit lex ty lang =>
      cases lang with
      | some l => exact hre lex ty (some l)
      | none =>
        cases ty with
        | none => exact hm
        | some t =>
          simp only [autoLiteral]
          split
          · split
            · exact hm
            · exact hre lex (some t) none
            · exact hm
          · exact hre lex (some t) none
    | str _ => exact hm
    | int _ => exact hm
    | bool _ => exact hm
    | float _ => exact hm
    | dt _ => exact hm
    | uri _ => exact hm

/-- what `convValue` yields is of the right kind for the attribute class -/
theorem convValue_kind (par : Option NsMgr) (m : NsMgr) (hm : m.Inv1) (attr : QName) (a : AttrArg) (v : Value)
    (h : (convValue par m attr a).2 = .ok v) :
    (isRefAttr attr = true → isQn v = true) ∧ (isTimeAttr attr = true → isDt v = true) ∧
    (isProvAttr attr = false → normalLit v = true) := by
  unfold convValue at h
  split at h
  · next href =>
    have hv : isQn v = true := by
      split at h
      · simp only at h
        split at h
        · cases h; rfl
        · cases h
      · cases h
    refine ⟨fun _ => hv, ?_, ?_⟩
    · intro ht; rw [ref_not_time attr href] at ht; cases ht
    · intro hp; simp [isProvAttr, href] at hp
  · next href =>
    split at h
    · next htime =>
      have hv : isDt v = true := by
        split at h
        · cases h; rfl
        · simp only at h
          split at h
          · cases h; rfl
          · cases h
        · cases h
      refine ⟨fun hr => absurd hr href, fun _ => hv, ?_⟩
      intro hp; simp [isProvAttr, htime] at hp
    · next htime =>
      exact ⟨fun hr => absurd hr href, fun ht => absurd ht htime, fun _ => autoLiteral_normal _ hm _ _ _ h⟩

/-- inserting a value of the right kind under a non-PROV attribute or into an empty slot keeps `Normal` -/
theorem insert_normal (r : Record) (attr : QName) (v : Value) (hn : Normal r)
    (hq : isRefAttr attr = true → isQn v = true) (ht : isTimeAttr attr = true → isDt v = true)
    (ho : isProvAttr attr = false → normalLit v = true)
    (hcase : isProvAttr attr = false ∨ r.get attr = []) : Normal (r.insert attr v) := by
  refine ⟨?_, ?_, ?_, ?_⟩
  · intro a ha
    by_cases hu : attr.uri = a.uri
    · rw [Record.get_insert_same _ _ _ _ hu]
      rcases hcase with hp | hempty
      · rw [isProvAttr_congr hu] at hp; rw [hp] at ha; cases ha
      · have : r.get a = [] := by
          simpa [Record.get, QName.same, hu] using hempty
        rw [this, setInsert_nil]; simp
    · rw [Record.get_insert_other _ _ _ _ hu]; exact hn.single a ha
  · intro a w ha hw
    by_cases hu : attr.uri = a.uri
    · rw [Record.get_insert_same _ _ _ _ hu] at hw
      rcases mem_setInsert hw with hw | rfl
      · exact hn.refs a w ha hw
      · exact hq (by rw [isRefAttr_congr hu]; exact ha)
    · rw [Record.get_insert_other _ _ _ _ hu] at hw; exact hn.refs a w ha hw
  · intro a w ha hw
    by_cases hu : attr.uri = a.uri
    · rw [Record.get_insert_same _ _ _ _ hu] at hw
      rcases mem_setInsert hw with hw | rfl
      · exact hn.times a w ha hw
      · exact ht (by rw [isTimeAttr_congr hu]; exact ha)
    · rw [Record.get_insert_other _ _ _ _ hu] at hw; exact hn.times a w ha hw
  · intro a w ha hw
    by_cases hu : attr.uri = a.uri
    · rw [Record.get_insert_same _ _ _ _ hu] at hw
      rcases mem_setInsert hw with hw | rfl
      · exact hn.others a w ha hw
      · exact ho (by rw [isProvAttr_congr hu]; exact ha)
    · rw [Record.get_insert_other _ _ _ _ hu] at hw; exact hn.others a w ha hw

theorem storeValue_normal (r : Record) (attr : QName) (v : Value) (hn : Normal r)
    (hq : isRefAttr attr = true → isQn v = true) (ht : isTimeAttr attr = true → isDt v = true)
    (ho : isProvAttr attr = false → normalLit v = true) :
    Normal (storeValue false r attr v).1 := by
  unfold storeValue
  split
  · split
    · split <;> exact hn
    · exact hn
  · next hguard =>
    -- inserted: either not a PROV attribute, or the slot was empty
    have hcase : isProvAttr attr = false ∨ r.get attr = [] := by
      by_cases hp : isProvAttr attr = true
      · right
        simp [hp] at hguard
        exact hguard
      · left; simpa using hp
    exact insert_normal r attr v hn hq ht ho hcase

/-- `add_asserted_type` (after the fix) stores a normalised value under prov:type and keeps the
    record normal -/
theorem c05_addAssertedType_normal (m : NsMgr) (hm : m.Inv1) (r : Record) (x : ArgVal) (f : Option FloatAtom)
    (v : Value) (hn : Normal r) (h : (autoLiteral m x f).2 = .ok v) :
    Normal (r.insert (provQ "type") v) := by
  have h1 : isRefAttr (provQ "type") = false := by decide
  have h2 : isTimeAttr (provQ "type") = false := by decide
  exact insert_normal r _ v hn (fun hh => by rw [h1] at hh; cases hh) (fun hh => by rw [h2] at hh; cases hh)
    (fun _ => autoLiteral_normal m hm x f v h) (Or.inl (by decide))

theorem convValue_inv1 (par : Option NsMgr) (m : NsMgr) (hm : m.Inv1) (attr : QName) (a : AttrArg) :
    (convValue par m attr a).1.Inv1 := by
  unfold convValue
  split
  · split
    · exact NsMgr.validName_inv1 hm _ _
    · exact hm
  · split
    · split <;> exact hm
    · exact autoLiteral_inv1 m hm _ _

/-- one (name, value) pair of `add_attributes` keeps the record normal (and the manager's invariant),
    whatever the representation of name and value, whether or not the call fails -/
theorem addOne_normal (par : Option NsMgr) (m : NsMgr) (hm : m.Inv1) (r : Record) (a : AttrArg) (hn : Normal r) :
    Normal (addOne par false m r a).2.1 ∧ (addOne par false m r a).1.Inv1 := by
  unfold addOne
  split
  · exact ⟨hn, hm⟩
  · simp only []
    have h1 := NsMgr.validName_inv1 hm par a.name
    split
    · exact ⟨hn, h1⟩
    · next attr _ =>
      have h2 := convValue_inv1 par _ h1 attr a
      split
      · exact ⟨hn, h2⟩
      · exact ⟨hn, h2⟩
      · next v hv =>
        obtain ⟨k1, k2, k3⟩ := convValue_kind _ _ h1 _ _ _ hv
        exact ⟨storeValue_normal r attr v hn k1 k2 k3, h2⟩

theorem addAttrsLoop_normal (par : Option NsMgr) (m : NsMgr) (hm : m.Inv1) (r : Record) (as : List AttrArg)
    (hn : Normal r) : Normal (addAttrsLoop par false m r as).2.1 ∧ (addAttrsLoop par false m r as).1.Inv1 := by
  induction as generalizing m r with
  | nil => exact ⟨hn, hm⟩
  | cons a rest ih =>
    unfold addAttrsLoop
    have h1 := addOne_normal par m hm r a hn
    generalize hres : addOne par false m r a = res at h1
    obtain ⟨m', r', e⟩ := res
    cases e with
    | none => exact ih m' h1.2 r' h1.1
    | some err => exact h1

/-- **C05**: `add_attributes` (dict or pair-list form, any argument representation) keeps a record in
    normal form, outside the PROV-JSON membership compatibility path (`isCollectionCall`). -/
theorem c05_addAttributes_preserves_normal (par : Option NsMgr) (m : NsMgr) (hm : m.Inv1) (r : Record)
    (as : List AttrArg) (hc : isCollectionCall as = false) (hn : Normal r) :
    Normal (Record.addAttributes par m r as).2.1 ∧ (Record.addAttributes par m r as).1.Inv1 := by
  unfold Record.addAttributes
  rw [hc]
  exact addAttrsLoop_normal par m hm r as hn

/-- a second, different value for a PROV formal attribute is refused with ProvException and the
    record is unchanged -/
theorem c05_second_value_refused (r : Record) (attr : QName) (v ex : Value)
    (hp : isProvAttr attr = true) (hex : (r.get attr).head? = some ex) (hne : v.pyEq ex = false) :
    storeValue false r attr v = (r, some errProv) := by
  unfold storeValue
  have hne' : (r.get attr).isEmpty = false := by
    cases hg : r.get attr with
    | nil => rw [hg] at hex; cases hex
    | cons x xs => rfl
  simp [hp, hne', hex, hne]

/-- re-adding the same value is a no-op -/
theorem c05_same_value_noop (r : Record) (attr : QName) (v ex : Value)
    (hp : isProvAttr attr = true) (hex : (r.get attr).head? = some ex) (heq : v.pyEq ex = true) :
    storeValue false r attr v = (r, none) := by
  unfold storeValue
  have hne' : (r.get attr).isEmpty = false := by
    cases hg : r.get attr with
    | nil => rw [hg] at hex; cases hex
    | cons x xs => rfl
  simp [hp, hne', hex, heq]

/-- entry-path independence for the native datatypes whose lexical mapping is modelled:
    a typed literal is stored as the value a direct assignment stores -/
theorem c05_entry_path_int (m : NsMgr) (n : Int) (loc : String) (hl : loc = "int" ∨ loc = "long") :
    (autoLiteral m (.val (.lit (toString n) (some (xsdQ loc)) none)) none).2 = .ok (.int n) ∧
    (autoLiteral m (.val (.int n)) none).2 = .ok (.int n) := by
  have hp : xsdParserOf (xsdQ loc) = some .int := by
    rcases hl with rfl | rfl <;> decide
  refine ⟨?_, rfl⟩
  have : (toString n).toInt? = some n := Int.toInt?_repr n
  simp only [autoLiteral, hp, parseXsd, parseInt, this]

theorem c05_entry_path_string (m : NsMgr) (s : String) :
    (autoLiteral m (.val (.lit s (some (xsdQ "string")) none)) none).2 = .ok (.str s) ∧
    (autoLiteral m (.val (.lit s none none)) none).2 = .ok (.str s) ∧
    (autoLiteral m (.val (.str s)) none).2 = .ok (.str s) := by
  have hp : xsdParserOf (xsdQ "string") = some .str := by decide
  refine ⟨?_, rfl, rfl⟩
  simp [autoLiteral, hp, parseXsd]

theorem c05_entry_path_anyURI (m : NsMgr) (s : String) :
    (autoLiteral m (.val (.lit s (some (xsdQ "anyURI")) none)) none).2 = .ok (.uri s) := by
  have hp : xsdParserOf (xsdQ "anyURI") = some .anyURI := by decide
  simp [autoLiteral, hp, parseXsd]

theorem c05_entry_path_boolean (m : NsMgr) (lex : String) (b : Bool) (h : parseBoolean lex = some b) :
    (autoLiteral m (.val (.lit lex (some (xsdQ "boolean")) none)) none).2 = .ok (.bool b) := by
  have hp : xsdParserOf (xsdQ "boolean") = some .boolean := by decide
  simp [autoLiteral, hp, parseXsd, h]

/-- `set_time` (after the fix) with a datetime or an ISO string keeps the record normal -/
theorem c05_setTime_value (v : Value) (hv : isDt v = true ∨ ∃ s, v = .str s) (v' : Value)
    (h : Heap.ensureDatetime v = .ok v') : isDt v' = true := by
  rcases hv with hv | ⟨s, rfl⟩
  · cases v <;> simp_all [isDt, Heap.ensureDatetime]
    cases h; rfl
  · simp only [Heap.ensureDatetime] at h
    split at h
    · cases h; rfl
    · cases h

/-- non-vacuity: a non-empty record obtained by a store is normal, and a second value is refused -/
example : Normal (storeValue false ⟨.generation, none, []⟩ (provQ "entity")
    (.qn ⟨⟨"ex", "http://e/"⟩, "e1"⟩)).1 :=
  storeValue_normal _ _ _ (normal_empty _ _) (fun _ => rfl) (fun h => by revert h; decide) (fun h => by revert h; decide)

end Prov.C05

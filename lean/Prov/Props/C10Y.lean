/-
  C10, "schema child order": the children the PROV-XML writer emits for a record come in the sequence the PROV-XML schema
  prescribes for the record's type — the formal children in their order, then label, location, role, type, value, then
  everything else — which is what the specification reader demands (`isNonDecreasing (children.map childRank)`).
  `sorted_attributes` is shown to produce that sequence for every record kind and every attribute list whose PROV names
  are split in the canonical way (namespace = the PROV namespace).
-/
import Prov.Props.C02S
import Prov.XmlSpec

namespace Prov.C10
open Prov Prov.XmlSpec Prov.C02

/-- rank of a local name in a schema sequence; past the end when it is not in it -/
def rk (names : List String) (loc : String) : Nat := (names.findIdx? (· == loc)).getD names.length

/-- rank of an attribute pair: by local name when the name lies in the PROV namespace, past the end otherwise -/
def rkp (names : List String) (p : QName × Value) : Nat :=
  if p.1.ns.uri == provNsX then rk names p.1.loc else names.length

theorem rk_cons_self (n : String) (ns : List String) : rk (n :: ns) n = 0 := by
  simp [rk, List.findIdx?_cons]

theorem rk_cons_ne (n : String) (ns : List String) (loc : String) (h : n ≠ loc) : rk (n :: ns) loc = rk ns loc + 1 := by
  have : (n == loc) = false := by simpa using h
  simp only [rk, List.findIdx?_cons, this, Bool.false_eq_true, if_false, List.length_cons]
  cases ns.findIdx? (· == loc) <;> simp

/-- `sorted_attributes` for an arbitrary list of local names of the PROV namespace -/
def sortedBy (names : List String) (attrs : List (QName × Value)) : List (QName × Value) :=
  names.flatMap (fun n => stableSort (attrs.filter (fun p => p.1.uri == provUri ++ n))) ++
    stableSort (attrs.filter (fun p => !((names.map (provUri ++ ·)).contains p.1.uri)))

theorem sortedAttributes_eq (k : RecKind) (attrs : List (QName × Value)) :
    sortedAttributes k attrs = sortedBy (k.formals ++ ["label", "location", "role", "type", "value"]) attrs := by
  simp only [sortedAttributes, sortedBy, List.flatMap_map]

/-- PROV names are split canonically: a pair whose attribute URI is `prov:n` for one of the `names` has namespace PROV, local part `n` -/
def Canon (names : List String) (attrs : List (QName × Value)) : Prop :=
  ∀ p ∈ attrs, ∀ n ∈ names, p.1.uri = provUri ++ n → p.1.ns.uri = provUri ∧ p.1.loc = n

theorem mem_stableSort {l : List (QName × Value)} {p : QName × Value} : p ∈ stableSort l ↔ p ∈ l :=
  (stableSort_perm l).mem_iff

theorem provUri_eq : provUri = provNsX := by decide

theorem str_append_left_cancel (a b c : String) (h : a ++ b = a ++ c) : b = c := by
  have := congrArg String.toList h
  simp only [String.toList_append] at this
  have := List.append_cancel_left this
  exact String.toList_inj.mp this

/-- **the writer's order is the schema's order**: ranks never decrease along `sorted_attributes` -/
theorem sortedBy_ranks : ∀ (names : List String) (attrs : List (QName × Value)), names.Nodup → Canon names attrs →
    ((sortedBy names attrs).map (rkp names)).Pairwise (· ≤ ·)
  | [], attrs, _, _ => by
    rw [List.pairwise_map]
    refine List.Pairwise.imp_of_mem (R := fun _ _ => True) (fun {a b} _ _ _ => ?_) (List.pairwise_of_forall (fun _ _ => trivial))
    simp [rkp, rk]
  | n :: ns, attrs, hnd, hc => by
    have hnd' := List.nodup_cons.mp hnd
    -- the tail of the sequence is the sequence for `ns` over the attributes not named `prov:n`
    let attrs' := attrs.filter (fun p => !(p.1.uri == provUri ++ n))
    have htail : sortedBy (n :: ns) attrs =
        stableSort (attrs.filter (fun p => p.1.uri == provUri ++ n)) ++ sortedBy ns attrs' := by
      simp only [sortedBy, List.flatMap_cons, List.append_assoc, List.map_cons]
      congr 1
      congr 1
      · apply Prov.Perm.flatMap_congr'
        intro m hm
        simp only [attrs', List.filter_filter]
        congr 1
        apply List.filter_congr
        intro p _
        by_cases e : p.1.uri = provUri ++ m
        · have hmn : ¬ (provUri ++ m = provUri ++ n) := fun e2 => hnd'.1 (str_append_left_cancel _ _ _ e2 ▸ hm)
          simp [e, hmn]
        · simp [e]
      · congr 1
        simp only [attrs', List.filter_filter]
        apply List.filter_congr
        intro p _
        simp only [List.contains_cons, Bool.not_or, Bool.and_comm]
    rw [htail, List.map_append, List.pairwise_append]
    have hc' : Canon ns attrs' := fun p hp m hm e =>
      hc p (List.mem_filter.mp hp).1 m (List.mem_cons_of_mem _ hm) e
    have ih := sortedBy_ranks ns attrs' hnd'.2 hc'
    -- ranks in the head group are 0
    have hhead : ∀ p ∈ stableSort (attrs.filter (fun p => p.1.uri == provUri ++ n)), rkp (n :: ns) p = 0 := by
      intro p hp
      have hp' := List.mem_filter.mp (mem_stableSort.mp hp)
      have hu : p.1.uri = provUri ++ n := by simpa using hp'.2
      obtain ⟨h1, h2⟩ := hc p hp'.1 n List.mem_cons_self hu
      simp [rkp, h1, provUri_eq, h2, rk_cons_self]
    -- ranks in the tail are one more than with respect to `ns`
    have htl : ∀ p ∈ sortedBy ns attrs', rkp (n :: ns) p = rkp ns p + 1 := by
      intro p hp
      have hpa : p ∈ attrs' := by
        simp only [sortedBy, List.mem_append, List.mem_flatMap] at hp
        rcases hp with ⟨m, _, hm⟩ | hm
        · exact (List.mem_filter.mp (mem_stableSort.mp hm)).1
        · exact (List.mem_filter.mp (mem_stableSort.mp hm)).1
      have hne : ¬ (p.1.uri = provUri ++ n) := by simpa [attrs'] using (List.mem_filter.mp hpa).2
      unfold rkp
      by_cases hprov : (p.1.ns.uri == provNsX) = true
      · simp only [hprov, if_true]
        have hloc : n ≠ p.1.loc := fun e => hne (by
          have : p.1.ns.uri = provUri := by rw [provUri_eq]; simpa using hprov
          simp [QName.uri, this, e])
        exact rk_cons_ne n ns p.1.loc hloc
      · simp [hprov]
    refine ⟨?_, ?_, ?_⟩
    · rw [List.pairwise_map]
      exact List.Pairwise.imp_of_mem (R := fun _ _ => True) (fun {a b} ha hb _ => by rw [hhead a ha, hhead b hb]; exact Nat.le_refl _)
        (List.pairwise_of_forall (fun _ _ => trivial))
    · rw [List.pairwise_map] at ih ⊢
      exact List.Pairwise.imp_of_mem (fun {a b} ha hb h => by rw [htl a ha, htl b hb]; omega) ih
    · intro a ha b _
      obtain ⟨p, hp, rfl⟩ := List.mem_map.mp ha
      rw [hhead p hp]
      exact Nat.zero_le _

theorem isNonDecreasing_of_pairwise : ∀ (l : List Nat), l.Pairwise (· ≤ ·) → isNonDecreasing l = true
  | [], _ => rfl
  | [_], _ => rfl
  | a :: b :: rest, h => by
    have h' := List.pairwise_cons.mp h
    simp only [isNonDecreasing, Bool.and_eq_true, decide_eq_true_eq]
    exact ⟨h'.1 b List.mem_cons_self, isNonDecreasing_of_pairwise (b :: rest) h'.2⟩

/-- the specification's rank of a child element is the rank of the pair it was written for -/
theorem childRank_eq (formals : List String) (c : XNode) (p : QName × Value) (hu : c.uri = p.1.ns.uri) (hl : c.loc = p.1.loc) :
    childRank formals c = rkp (formals ++ tailOrder) p := by
  unfold childRank rkp rk
  rw [hu, hl, List.findIdx?_append]
  by_cases hp : (p.1.ns.uri == provNsX) = true
  · simp only [hp, if_true, List.length_append]
    cases h1 : formals.findIdx? (· == p.1.loc) with
    | some i => simp
    | none =>
      simp only [Option.none_or]
      cases h2 : tailOrder.findIdx? (· == p.1.loc) with
      | some j => simp [Nat.add_comm]
      | none => simp
  · simp [hp]

/-- the schema sequences of the specification reader are the formal attributes of the library's record classes -/
theorem formalOrder_kind (k : RecKind) :
    ((formalOrder.find? (fun f => f.1 == k.typeName)).map (·.2)).getD [] = k.formals := by
  cases k <;> decide

theorem names_nodup (k : RecKind) : (k.formals ++ tailOrder).Nodup := by cases k <;> decide

/-- **schema child order**: for every record kind and every attribute list with canonically split PROV names, the children
    the writer emits have non-decreasing schema ranks: the specification reader's order test passes -/
theorem c10x_schema_order (ft : Bool) (k : RecKind) (attrs : List (QName × Value)) (hc : Canon (k.formals ++ tailOrder) attrs) :
    isNonDecreasing (((sortedAttributes k attrs).map (fun p => childNode p.1 (encodeXmlAttr ft p.1 p.2))).map
      (childRank k.formals)) = true := by
  apply isNonDecreasing_of_pairwise
  have h := sortedBy_ranks (k.formals ++ tailOrder) attrs (names_nodup k) hc
  have e : sortedAttributes k attrs = sortedBy (k.formals ++ tailOrder) attrs := sortedAttributes_eq k attrs
  rw [e, List.map_map]
  have : (childRank k.formals ∘ fun p : QName × Value => childNode p.1 (encodeXmlAttr ft p.1 p.2)) = rkp (k.formals ++ tailOrder) := by
    funext p
    exact childRank_eq k.formals _ p rfl rfl
  rw [this]
  exact h

end Prov.C10

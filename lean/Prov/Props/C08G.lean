/-
  C08 / C09, the reachable invariants through the *deriving* operations: `add_record`, `unified()` of bundles and documents,
  `add_bundle`, `flattened()` keep the invariants of `Props/C08E` (`Good`: C05's normal form, C09E's `Extra`, index
  well-formedness, no `prov:collection` attribute) together with "no membership record" (`NoMem`; `add_record` re-creates a
  record from its formal slots, and for `hadMember` the slot `prov:collection` switches on the library's multi-value
  compatibility path, which no property claims). So the heaps these operations produce are again heaps to which every
  heap theorem of C08/C09/C14 applies: histories may go through derived documents.
-/
import Prov.Props.C08F
import Prov.Props.C09F

namespace Prov.C08
open Prov Prov.Heap Prov.C05 Prov.C04 Prov.C09 Prov.C13

/-- no record is a membership -/
def NoMem (h : Heap) : Prop := ∀ r, (h.recCell r).r.kind ≠ .membership

structure Good2 (h : Heap) : Prop where
  good : Good h
  noMem : NoMem h

theorem noMem_recs {h h' : Heap} (e : h'.recs = h.recs) (n : NoMem h) : NoMem h' := fun r => by
  have : h'.recCell r = h.recCell r := by simp [recCell, e]
  rw [this]; exact n r

theorem good2_allocCont {h : Heap} (g : Good2 h) (isDoc : Bool) (id : Option QName) (nss : List Ns) (doc : Option Nat) :
    Good2 (h.allocCont isDoc id nss doc).1 :=
  ⟨good_allocCont g.good isDoc id nss doc, noMem_recs rfl g.noMem⟩

theorem good2_copyDefault {h : Heap} (g : Good2 h) (nd : Nat) (dn : Option Ns) : Good2 (h.copyDefault nd dn) :=
  ⟨good_copyDefault g.good nd dn, noMem_recs (by unfold copyDefault; cases dn <;> rfl) g.noMem⟩

theorem good_validName {h : Heap} (g : Good h) (c : Nat) (x : NameArg) : Good (h.validName c x).1 :=
  ⟨heapNormal_validName g.normal c x, heapExtra_validName g.extra c x, wfRecs_validName g.wf c x, g.noColl⟩

theorem good2_validName {h : Heap} (g : Good2 h) (c : Nat) (x : NameArg) : Good2 (h.validName c x).1 :=
  ⟨good_validName g.good c x, noMem_recs rfl g.noMem⟩

/-- a container cell rewritten with the same record list and index -/
theorem good_setCont {h : Heap} (g : Good h) (c : Nat) (k : Cont) (hk : k.records = (h.cont c).records)
    (hi : k.idMap = (h.cont c).idMap) : Good (h.setCont c k) :=
  ⟨heapNormal_conts g.normal _, heapExtra_conts g.extra _, wfRecs_setCont_sameRecords g.wf c k hk hi, g.noColl⟩

theorem good2_setCont {h : Heap} (g : Good2 h) (c : Nat) (k : Cont) (hk : k.records = (h.cont c).records)
    (hi : k.idMap = (h.cont c).idMap) : Good2 (h.setCont c k) :=
  ⟨good_setCont g.good c k hk hi, noMem_recs rfl g.noMem⟩

/-! ### record kinds -/

theorem kind_mkRecord (h : Heap) (c : Nat) (k : RecKind) (id : Option QName) (attrs : List AttrArg) (r : Nat) :
    ((h.mkRecord c k id attrs).1.recCell r).r.kind = (h.recCell r).r.kind ∨
      ((h.mkRecord c k id attrs).1.recCell r).r.kind = k := by
  unfold Heap.mkRecord
  by_cases hcond : (k.isElement && id.isNone) = true
  · rw [if_pos hcond]; exact Or.inl rfl
  · simp only [hcond, Bool.false_eq_true, if_false]
    have hki := loop_kind_id (h.parentOf c) (isCollectionCall attrs) attrs (h.mgrOf c) ⟨k, id, []⟩
    unfold Record.addAttributes
    generalize addAttrsLoop (h.parentOf c) (isCollectionCall attrs) (h.mgrOf c) ⟨k, id, []⟩ attrs = res at hki
    obtain ⟨m', rc, e⟩ := res
    simp only at hki ⊢
    cases e with
    | some err => exact Or.inl rfl
    | none =>
      simp only
      by_cases e : r < h.recs.size
      · left
        rw [show (({ (h.setMgr c m') with recs := (h.setMgr c m').recs.push ⟨c, rc⟩ } : Heap).recCell r) = h.recCell r from
          recCell_push_lt (h.setMgr c m') ⟨c, rc⟩ r e]
      · by_cases e2 : r = h.recs.size
        · right
          have : r = (h.setMgr c m').recs.size := by simp only [setMgr]; exact e2
          rw [this, recCell_push_self]
          exact hki.1
        · left
          have hgt : h.recs.size < r := by omega
          have a1 : (h.recs.push ⟨c, rc⟩)[r]? = none := Array.getElem?_eq_none (by simp; omega)
          have a2 : h.recs[r]? = none := Array.getElem?_eq_none (Nat.le_of_lt hgt)
          simp [recCell, setMgr, Array.getD_eq_getD_getElem?, a1, a2]

theorem noMem_mkRecord {h : Heap} (n : NoMem h) (c : Nat) (k : RecKind) (id : Option QName) (attrs : List AttrArg)
    (hk : k ≠ .membership) : NoMem (h.mkRecord c k id attrs).1 := fun r => by
  rcases kind_mkRecord h c k id attrs r with e | e
  · rw [e]; exact n r
  · rw [e]; exact hk

theorem kind_addAttributes (h : Heap) (r : Nat) (attrs : List AttrArg) (r' : Nat) :
    ((h.addAttributes r attrs).1.recCell r').r.kind = (h.recCell r').r.kind := by
  unfold Heap.addAttributes
  simp only []
  have hki := loop_kind_id (h.parentOf (h.recCell r).bundle) (isCollectionCall attrs) attrs (h.mgrOf (h.recCell r).bundle) (h.recCell r).r
  unfold Record.addAttributes
  generalize addAttrsLoop (h.parentOf (h.recCell r).bundle) (isCollectionCall attrs) (h.mgrOf (h.recCell r).bundle) (h.recCell r).r attrs = res at hki
  obtain ⟨m', rc, e⟩ := res
  simp only at hki ⊢
  by_cases e1 : r' = r
  · subst e1
    by_cases e2 : r' < h.recs.size
    · rw [recCell_setRec_self _ _ _ (by simpa [recs_setMgr] using e2)]
      exact hki.1
    · have : ((h.setMgr (h.recCell r').bundle m').setRec r' rc).recCell r' = h.recCell r' := by
        simp [setRec, recCell, setMgr, Array.getD_eq_getD_getElem?, Array.getElem?_eq_none (Nat.le_of_not_lt e2), e2]
      rw [this]
  · rw [recCell_setRec_other _ _ _ _ e1]
    rfl

theorem noMem_addAttributes {h : Heap} (n : NoMem h) (r : Nat) (attrs : List AttrArg) : NoMem (h.addAttributes r attrs).1 :=
  fun r' => by rw [kind_addAttributes]; exact n r'

theorem noMem_newRecord {h : Heap} (n : NoMem h) (c : Nat) (k : RecKind) (idArg : NameArg) (attrs : List AttrArg)
    (hk : k ≠ .membership) : NoMem (h.newRecord c k idArg attrs).1 := by
  unfold Heap.newRecord
  simp only []
  have n1 : NoMem (h.validName c idArg).1 := noMem_recs rfl n
  generalize h.validName c idArg = vn at n1
  obtain ⟨h1, vid⟩ := vn
  simp only at n1 ⊢
  have n2 := noMem_mkRecord n1 c k vid attrs hk
  generalize h1.mkRecord c k vid attrs = mk at n2
  obtain ⟨h2, e⟩ := mk
  cases e with
  | error err => exact n2
  | ok r => exact noMem_recs rfl n2

/-! ### the merge pass keeps `NoMem` -/

theorem noMem_scratchCopy {h : Heap} (n : NoMem h) (r0 : Nat) : NoMem (h.scratchCopy r0).1 := by
  unfold scratchCopy
  simp only []
  have n0 : NoMem (h.allocCont false none [] none).1 := noMem_recs rfl n
  generalize h.allocCont false none [] none = al at n0
  obtain ⟨h0, sc⟩ := al
  exact noMem_mkRecord n0 sc _ _ _ (n r0)

theorem noMem_mergeGo (mref : Nat) : ∀ (rs : List Nat) (h : Heap), NoMem h → NoMem (mergeGroup.go mref h rs).1
  | [], _, n => n
  | r :: more, h, n => by
    unfold mergeGroup.go
    simp only []
    have s1 := noMem_addAttributes n mref ((h.recCell r).r.flat.map (fun p => ({ name := .qn p.1, value := .val p.2 } : AttrArg)))
    generalize h.addAttributes mref ((h.recCell r).r.flat.map (fun p => ({ name := .qn p.1, value := .val p.2 } : AttrArg))) = res at s1
    obtain ⟨h', e⟩ := res
    cases e with
    | none => exact noMem_mergeGo mref more h' s1
    | some err => exact s1

theorem noMem_mergeGroup {h : Heap} (n : NoMem h) (rs : List Nat) : NoMem (h.mergeGroup rs).1 := by
  unfold mergeGroup
  cases rs with
  | nil => exact n
  | cons r0 rest =>
    simp only []
    have s1 := noMem_scratchCopy n r0
    generalize h.scratchCopy r0 = res at s1
    obtain ⟨h1, e⟩ := res
    cases e with
    | error err => exact s1
    | ok mref =>
      simp only []
      have s2 := noMem_mergeGo mref rest h1 s1
      generalize mergeGroup.go mref h1 rest = res2 at s2
      obtain ⟨h2, e2⟩ := res2
      cases e2 <;> exact s2

theorem noMem_mergeAll : ∀ (gs : List (List Nat)) (h : Heap) (acc : List (Nat × Nat)), NoMem h →
    NoMem (unifiedRecords.mergeAll h acc gs).1
  | [], _, _, n => n
  | grp :: gs, h, acc, n => by
    unfold unifiedRecords.mergeAll
    have s1 := noMem_mergeGroup n grp
    generalize h.mergeGroup grp = res at s1
    obtain ⟨h1, e⟩ := res
    cases e with
    | error err => exact s1
    | ok mref => exact noMem_mergeAll gs h1 _ s1

theorem good2_unifiedRecords {h : Heap} (g : Good2 h) (c : Nat) : Good2 (h.unifiedRecords c).1 := by
  refine ⟨good_unifiedRecords g.good c, ?_⟩
  unfold unifiedRecords
  simp only []
  have s1 := noMem_mergeAll (((h.cont c).idMap.flatMap (fun e => (groupByKind h e.2).map (·.2))).filter (fun g => g.length > 1)) h [] g.noMem
  generalize unifiedRecords.mergeAll h [] _ = res at s1
  obtain ⟨h1, e⟩ := res
  cases e <;> exact s1

/-! ### `add_record` -/

/-- an argument named by a qualified name that is not `prov:collection` -/
def NotCollArg (a : AttrArg) : Prop := ∃ q, a.name = .qn q ∧ q.uri ≠ collU

theorem noColl_addOne_qn (par : Option NsMgr) (isColl : Bool) (m : NsMgr) (hm : m.Inv1) (r : Record) (a : AttrArg)
    (ha : NotCollArg a) (h : NoCollRec r) : NoCollRec (addOne par isColl m r a).2.1 := by
  obtain ⟨q, hq, hne⟩ := ha
  unfold addOne
  split
  · exact h
  · simp only [hq, NsMgr.validName]
    have hu := NsMgr.validQ_uri hm q
    split
    · exact h
    · exact h
    · exact noColl_storeValue h _ _ _ (by rw [hu]; exact hne)

theorem noColl_loop_qn (par : Option NsMgr) (isColl : Bool) : ∀ (as : List AttrArg) (m : NsMgr) (r : Record), m.Inv1 →
    (∀ a ∈ as, NotCollArg a) → NoCollRec r → NoCollRec (addAttrsLoop par isColl m r as).2.1
  | [], _, _, _, _, h => h
  | a :: rest, m, r, hm, has, h => by
    unfold addAttrsLoop
    have e1 := noColl_addOne_qn par isColl m hm r a (has a List.mem_cons_self) h
    have i1 := addOne_inv1 par isColl m hm r a
    generalize addOne par isColl m r a = res at e1 i1
    obtain ⟨m', r', e⟩ := res
    cases e with
    | none => exact noColl_loop_qn par isColl rest m' r' i1 (fun x hx => has x (List.mem_cons_of_mem _ hx)) e1
    | some err => exact e1

theorem isCollectionCall_notColl {as : List AttrArg} (h : ∀ a ∈ as, NotCollArg a) : isCollectionCall as = false := by
  unfold isCollectionCall
  rw [Bool.eq_false_iff]
  intro hany
  obtain ⟨a, ha, hq⟩ := List.any_eq_true.mp hany
  obtain ⟨q, hn, hne⟩ := h a ha
  rw [hn] at hq
  simp only [beq_iff_eq] at hq
  exact hne hq

theorem formals_not_coll (k : RecKind) (hk : k ≠ .membership) : ∀ l ∈ k.formals, (formalQ l).uri ≠ collU := by
  cases k <;> first | exact absurd rfl hk | decide

theorem recreateArgs_notColl {rc : Record} (hk : rc.kind ≠ .membership) (hs : NoCollRec rc) :
    ∀ a ∈ (recreateArgs rc).2, NotCollArg a := by
  intro a ha
  unfold recreateArgs at ha
  simp only [List.mem_append, List.mem_map] at ha
  rcases ha with ⟨p, hp, rfl⟩ | ⟨p, hp, rfl⟩
  · unfold Record.formalAttrs at hp
    obtain ⟨l, hl, rfl⟩ := List.mem_map.mp hp
    exact ⟨formalQ l, rfl, formals_not_coll rc.kind hk l hl⟩
  · unfold Record.extraAttrs at hp
    exact ⟨p.1, rfl, hs p (List.mem_filter.mp hp).1⟩

theorem recreateArgs_argOk {rc : Record} (he : Extra rc) : ∀ a ∈ (recreateArgs rc).2, ArgOk a := by
  intro a ha
  unfold recreateArgs at ha
  simp only [List.mem_append, List.mem_map] at ha
  rcases ha with ⟨p, hp, rfl⟩ | ⟨p, hp, rfl⟩
  · refine ⟨fun v hv => ?_, fun f hf => by cases hf⟩
    unfold Record.formalAttrs at hp
    obtain ⟨l, hl, rfl⟩ := List.mem_map.mp hp
    simp only at hv
    cases hh : (rc.get (formalQ l)).head? with
    | none => rw [hh] at hv; cases hv
    | some v0 =>
      rw [hh] at hv
      simp only [ArgVal.val.injEq] at hv
      subst hv
      obtain ⟨k, hk, _⟩ := flat_of_mem_get rc _ v0 (List.mem_of_mem_head? hh)
      exact (he.vals (k, v0) hk).2
  · refine ⟨fun v hv => ?_, fun f hf => by cases hf⟩
    simp only [ArgVal.val.injEq] at hv
    subst hv
    unfold Record.extraAttrs at hp
    exact (he.vals p (List.mem_filter.mp hp).1).2

theorem noColl_mkRecord_qn {h : Heap} (hn : HeapNormal h) (hc : ∀ r, NoCollRec (h.recCell r).r) (c : Nat) (k : RecKind)
    (id : Option QName) (attrs : List AttrArg) (ha : ∀ a ∈ attrs, NotCollArg a) :
    ∀ r, NoCollRec ((h.mkRecord c k id attrs).1.recCell r).r := by
  unfold Heap.mkRecord
  split
  · exact hc
  · have hres := noColl_loop_qn (h.parentOf c) (isCollectionCall attrs) attrs (h.mgrOf c) ⟨k, id, []⟩ (mgrOf_inv1 hn c) ha
      (by intro x hx; simp [Record.flat] at hx)
    unfold Record.addAttributes
    generalize addAttrsLoop (h.parentOf c) (isCollectionCall attrs) (h.mgrOf c) ⟨k, id, []⟩ attrs = res at hres
    obtain ⟨m', rc, e⟩ := res
    simp only at hres ⊢
    cases e with
    | some err => exact hc
    | none =>
      intro r
      simp only [Heap.recCell, Heap.setMgr, Array.getD_eq_getD_getElem?, Array.getElem?_push]
      split
      · simpa using hres
      · have := hc r
        simpa [Heap.recCell, Array.getD_eq_getD_getElem?] using this

theorem good_newRecord_qn {h : Heap} (g : Good h) (c : Nat) (k : RecKind) (idArg : NameArg) (attrs : List AttrArg)
    (ha : ∀ a ∈ attrs, NotCollArg a) (hok : ∀ a ∈ attrs, ArgOk a) : Good (h.newRecord c k idArg attrs).1 := by
  refine ⟨heapNormal_newRecord g.normal c k idArg attrs (isCollectionCall_notColl ha),
    heapExtra_newRecord g.normal g.extra c k idArg attrs hok, wfRecs_newRecord g.wf c k idArg attrs, ?_⟩
  unfold Heap.newRecord
  simp only []
  have g1 := good_validName g c idArg
  generalize h.validName c idArg = vn at g1
  obtain ⟨h1, vid⟩ := vn
  simp only at g1 ⊢
  have s2 := noColl_mkRecord_qn g1.normal g1.noColl c k vid attrs ha
  generalize h1.mkRecord c k vid attrs = mk at s2
  obtain ⟨h2, e⟩ := mk
  cases e with
  | error err => exact s2
  | ok r => exact s2

/-- **`add_record` keeps the invariants** -/
theorem good2_addRecord {h : Heap} (g : Good2 h) (c r : Nat) : Good2 (h.addRecord c r).1 := by
  unfold Heap.addRecord
  simp only []
  exact ⟨good_newRecord_qn g.good c _ _ _ (recreateArgs_notColl (g.noMem r) (g.good.noColl r)) (recreateArgs_argOk (g.good.extra r)),
    noMem_newRecord g.noMem c _ _ _ (g.noMem r)⟩

theorem good2_addRecords (c : Nat) : ∀ (rs : List Nat) (h : Heap), Good2 h → Good2 (h.addRecords c rs).1
  | [], _, g => g
  | r :: rest, h, g => by
    unfold Heap.addRecords
    have s1 := good2_addRecord g c r
    generalize h.addRecord c r = res at s1
    obtain ⟨h1, e⟩ := res
    cases e with
    | error err => exact s1
    | ok nr => exact good2_addRecords c rest h1 s1

/-- **`ProvBundle.unified()` keeps the invariants** -/
theorem good2_unifiedBundle {h : Heap} (g : Good2 h) (c : Nat) : Good2 (h.unifiedBundle c).1 := by
  unfold unifiedBundle
  have s1 := good2_unifiedRecords g c
  generalize h.unifiedRecords c = res at s1
  obtain ⟨h1, e⟩ := res
  cases e with
  | error err => exact s1
  | ok rs =>
    simp only []
    have s2 := good2_allocCont s1 false (h1.cont c).id [] none
    generalize h1.allocCont false (h1.cont c).id [] none = al at s2
    obtain ⟨h2, nb⟩ := al
    have s3 := good2_addRecords nb rs h2 s2
    generalize h2.addRecords nb rs = res3 at s3
    obtain ⟨h3, e3⟩ := res3
    cases e3 <;> exact s3

/-! ### `add_bundle`, the loop of `ProvDocument.unified()`, `flattened()` -/

theorem good2_linkParent {h : Heap} (g : Good2 h) (d b' : Nat) : Good2 (h.linkParent d b') := by
  refine ⟨⟨⟨fun j => ?_, g.good.normal.2⟩, heapExtra_mgrs g.good.extra _, ⟨g.good.wf.elemId, g.good.wf.inRange, g.good.wf.idxIn⟩,
    g.good.noColl⟩, noMem_recs rfl g.noMem⟩
  unfold linkParent
  simp only [mgrCell, Array.getD_eq_getD_getElem?, Array.getElem?_setIfInBounds]
  split
  · split
    · simpa [mgrCell, Array.getD_eq_getD_getElem?] using g.good.normal.1 (h.cont b').mgr
    · simpa using default_mgr_inv1
  · have := g.good.normal.1 j
    simpa [mgrCell, Array.getD_eq_getD_getElem?] using this

theorem good2_registerBundle {h3 : Heap} (g : Good2 h3) (d b' : Nat) (q : QName) : Good2 (h3.registerBundle d b' q).1 := by
  unfold registerBundle
  simp only []
  have s4 := good2_setCont g b' { h3.cont b' with id := some q } rfl rfl
  split
  · exact s4
  · refine good2_setCont (good2_setCont s4 d _ ?_ ?_) b' _ ?_ ?_ <;> rfl

theorem good2_attachBundle {h1 : Heap} (g : Good2 h1) (d b' : Nat) (idArg : NameArg) : Good2 (h1.attachBundle d b' idArg).1 := by
  unfold attachBundle
  split
  · exact g
  · have s2 := good2_linkParent g d b'
    have s3 := good2_validName s2 b' (h1.defaultBundleId b' idArg)
    generalize (h1.linkParent d b').validName b' (h1.defaultBundleId b' idArg) = vn at s3
    obtain ⟨h3, vid⟩ := vn
    cases vid with
    | none => exact s3
    | some q => exact good2_registerBundle s3 d b' q

theorem good2_addBundle {h : Heap} (g : Good2 h) (d b : Nat) (idArg : NameArg) (nsOrder : List Ns) :
    Good2 (h.addBundle d b idArg nsOrder).1 := by
  unfold addBundle
  simp only []
  by_cases hdoc : (h.cont b).isDoc = true
  · simp only [hdoc, if_true]
    by_cases hbs : (!(h.cont b).bundles.isEmpty) = true
    · simp only [hbs, if_true]
      exact g
    · simp only [hbs, Bool.false_eq_true, if_false]
      have s2 := good2_allocCont g false none nsOrder none
      generalize h.allocCont false none nsOrder none = al at s2
      obtain ⟨h2, nb⟩ := al
      have s3 := good2_addRecords nb (h.cont b).records h2 s2
      generalize h2.addRecords nb (h.cont b).records = res3 at s3
      obtain ⟨h3, e3⟩ := res3
      cases e3 with
      | some err => exact s3
      | none => exact good2_attachBundle s3 d nb idArg
  · simp only [hdoc, Bool.false_eq_true, if_false]
    exact good2_attachBundle g d b idArg

theorem good2_unifiedGo (nd : Nat) : ∀ (bs : List (QName × Nat)) (h : Heap), Good2 h → Good2 (unifiedInto.go nd h bs).1
  | [], _, g => g
  | (q, b) :: rest, h, g => by
    unfold unifiedInto.go
    have s1 := good2_unifiedBundle g b
    generalize h.unifiedBundle b = res at s1
    obtain ⟨h', e⟩ := res
    cases e with
    | error err => exact s1
    | ok ub =>
      simp only []
      have s2 := good2_addBundle s1 nd ub .nil []
      generalize h'.addBundle nd ub .nil [] = res2 at s2
      obtain ⟨h'', e2⟩ := res2
      cases e2 with
      | some err => exact s2
      | none => exact good2_unifiedGo nd rest h'' s2

theorem good2_unifiedInto {h2 : Heap} (g : Good2 h2) (d nd : Nat) : Good2 (h2.unifiedInto d nd).1 := by
  unfold unifiedInto
  have s3 := good2_unifiedRecords g d
  generalize h2.unifiedRecords d = res at s3
  obtain ⟨h3, e⟩ := res
  cases e with
  | error err => exact s3
  | ok rs =>
    simp only []
    have s4 := good2_addRecords nd rs h3 s3
    generalize h3.addRecords nd rs = res4 at s4
    obtain ⟨h4, e4⟩ := res4
    cases e4 with
    | some err => exact s4
    | none =>
      simp only []
      have s5 := good2_unifiedGo nd (h4.cont d).bundles h4 s4
      generalize unifiedInto.go nd h4 (h4.cont d).bundles = res5 at s5
      obtain ⟨h5, e5⟩ := res5
      cases e5 <;> exact s5

/-- **`ProvDocument.unified()` keeps the invariants**, whether it succeeds or raises -/
theorem good2_unifiedDoc {h : Heap} (g : Good2 h) (d : Nat) : Good2 (h.unifiedDoc d).1 := by
  unfold unifiedDoc
  simp only []
  have s1 := good2_allocCont g true none (h.mgrOf d).reg.values none
  generalize h.allocCont true none (h.mgrOf d).reg.values none = al at s1
  obtain ⟨h1, nd⟩ := al
  exact good2_unifiedInto (good2_copyDefault s1 nd (h.mgrOf d).dflt) d nd

/-- **`flattened()` keeps the invariants** -/
theorem good2_flattened {h : Heap} (g : Good2 h) (d : Nat) : Good2 (h.flattened d).1 := by
  unfold flattened
  simp only []
  split
  · exact g
  · simp only [newDoc]
    have s1 := good2_allocCont g true none [] none
    generalize h.allocCont true none [] none = al at s1
    obtain ⟨h1, nd⟩ := al
    simp only []
    have s2 := good2_addRecords nd ((h.cont d).records ++ (h.cont d).bundles.flatMap (fun p => (h.cont p.2).records)) h1 s1
    generalize h1.addRecords nd _ = res at s2
    obtain ⟨h2, e⟩ := res
    cases e <;> exact s2

end Prov.C08

/-
  C08, `ProvDocument.unified()`, the document's own records: whatever the loop over the bundles does afterwards (unify each
  bundle into a fresh container, attach it with `add_bundle`), the new document's own record list stays the list of `==`
  copies of the placed list — each group of same-identifier, same-kind records replaced by one record holding exactly the
  union of the group's pairs. (Per bundle: `c08_unifiedBundle_content`; that nothing old is written: `c13_unified_frame`.)
-/
import Prov.Props.C08E
import Prov.Props.C09G

namespace Prov.C08
open Prov Prov.Heap Prov.C05 Prov.C04 Prov.C09 Prov.C13

theorem cont_isDoc_newRecord (h : Heap) (c c' : Nat) (k : RecKind) (idArg : NameArg) (attrs : List AttrArg) :
    ((h.newRecord c k idArg attrs).1.cont c').isDoc = (h.cont c').isDoc := by
  by_cases hne : c' = c
  · subst hne
    unfold newRecord
    simp only [validName]
    have hc := conts_mkRecord (h.setMgr c' ((h.mgrOf c').validName (h.parentOf c') idArg).1) c' k
      ((h.mgrOf c').validName (h.parentOf c') idArg).2 attrs
    generalize (h.setMgr c' ((h.mgrOf c').validName (h.parentOf c') idArg).1).mkRecord c' k
      ((h.mgrOf c').validName (h.parentOf c') idArg).2 attrs = res at hc
    obtain ⟨h2, e⟩ := res
    have hcont : h2.cont c' = h.cont c' := by
      simp only at hc
      simp only [cont, hc, conts_setMgr]
    cases e with
    | error err => simp only []; rw [hcont]
    | ok r =>
      simp only []
      by_cases hlt : c' < h2.conts.size
      · simp only [addRecordRaw]
        rw [cont_setCont_self _ _ _ hlt, hcont]
      · have : h2.addRecordRaw c' r = h2 := by
          simp only [addRecordRaw, setCont]
          rw [Array.setIfInBounds_eq_of_size_le (by omega)]
        rw [this, hcont]
  · rw [cont_newRecord_ne h c c' k idArg attrs hne]

theorem cont_isDoc_addRecords (t c' : Nat) : ∀ (rs : List Nat) (h : Heap),
    ((h.addRecords t rs).1.cont c').isDoc = (h.cont c').isDoc
  | [], _ => rfl
  | r :: rest, h => by
    unfold Heap.addRecords
    simp only [Heap.addRecord]
    have s1 := cont_isDoc_newRecord h t c' (h.recCell r).r.kind (recreateArgs (h.recCell r).r).1 (recreateArgs (h.recCell r).r).2
    generalize h.newRecord t (h.recCell r).r.kind (recreateArgs (h.recCell r).r).1 (recreateArgs (h.recCell r).r).2 = res at s1
    obtain ⟨h1, e⟩ := res
    cases e with
    | error err => exact s1
    | ok nr => exact (cont_isDoc_addRecords t c' rest h1).trans s1

/-- the container `unified()` of a bundle returns is a bundle, and a new one -/
theorem unifiedBundle_result (h : Heap) (c : Nat) (h' : Heap) (ub : Nat) (hres : h.unifiedBundle c = (h', .ok ub)) :
    (h'.cont ub).isDoc = false ∧ h.conts.size ≤ ub ∧ ub < h'.conts.size := by
  unfold unifiedBundle at hres
  have s1 := frameB_unifiedRecords 0 0 h c (Nat.zero_le _) (Nat.zero_le _)
  generalize h.unifiedRecords c = res at hres s1
  obtain ⟨h1, e⟩ := res
  cases e with
  | error err => simp at hres
  | ok rs =>
    simp only at hres
    obtain ⟨a1, _, _, _, _⟩ := allocCont_fresh h1 false (h1.cont c).id [] none
    have hd : ((h1.allocCont false (h1.cont c).id [] none).1.cont (h1.allocCont false (h1.cont c).id [] none).2).isDoc = false := by
      simp [allocCont, allocMgr, cont, Array.getD_eq_getD_getElem?]
    have hsz : (h1.allocCont false (h1.cont c).id [] none).1.conts.size = h1.conts.size + 1 := by simp [allocCont, allocMgr]
    generalize h1.allocCont false (h1.cont c).id [] none = al at hres a1 hd hsz
    obtain ⟨h2, nb⟩ := al
    simp only at hres a1 hd hsz
    have s3 := cont_isDoc_addRecords nb nb rs h2
    have s4 := frameB_addRecords 0 0 nb (Nat.zero_le _) rs h2 (Nat.zero_le _)
    generalize h2.addRecords nb rs = res3 at hres s3 s4
    obtain ⟨h3, e3⟩ := res3
    cases e3 with
    | some err => simp at hres
    | none =>
      simp only [Prod.mk.injEq, Except.ok.injEq] at hres
      obtain ⟨rfl, rfl⟩ := hres
      refine ⟨by rw [s3]; exact hd, by rw [a1]; exact s1.csize, ?_⟩
      have h4 : h2.conts.size ≤ h3.conts.size := s4.csize
      rw [a1]
      omega

/-- the loop over the bundles leaves the new document's record list, and every record cell, alone -/
theorem unifiedGo_keeps (nd : Nat) : ∀ (bs : List (QName × Nat)) (h h' : Heap), nd < h.conts.size →
    unifiedInto.go nd h bs = (h', none) →
    (h'.cont nd).records = (h.cont nd).records ∧ (∀ r, r < h.recs.size → h'.recCell r = h.recCell r) ∧ h.recs.size ≤ h'.recs.size
  | [], h, h', _, hres => by
    simp only [unifiedInto.go, Prod.mk.injEq, and_true] at hres
    subst hres
    exact ⟨rfl, fun _ _ => rfl, Nat.le_refl _⟩
  | (_, b) :: rest, h, h', hnd, hres => by
    unfold unifiedInto.go at hres
    obtain ⟨s1, _⟩ := frameB_unifiedBundle (nd + 1) h.recs.size h b (by omega) (Nat.le_refl _)
    cases hub : h.unifiedBundle b with
    | mk h1 e =>
      rw [hub] at hres s1
      cases e with
      | error err => simp at hres
      | ok ub =>
        simp only at hres s1
        obtain ⟨u1, u2, u3⟩ := unifiedBundle_result h b h1 ub hub
        cases hab : h1.addBundle nd ub .nil [] with
        | mk h2 e2 =>
          rw [hab] at hres
          cases e2 with
          | some err => simp at hres
          | none =>
            simp only at hres
            have hne : ub ≠ nd := by omega
            have hnd1 : nd < h1.conts.size := by omega
            unfold addBundle at hab
            simp only [u1, Bool.false_eq_true, if_false] at hab
            obtain ⟨q, _, c2, _, _, _, _, _, _, c9, c10⟩ := attachBundle_ok h1 nd ub .nil hne hnd1 u3 h2 hab
            have hsz2 : nd < h2.conts.size := by rw [c10]; exact hnd1
            obtain ⟨i1, i2, i3⟩ := unifiedGo_keeps nd rest h2 h' hsz2 hres
            have hr2 : ∀ r, h2.recCell r = h1.recCell r := fun r => by simp [recCell, c9]
            refine ⟨?_, ?_, ?_⟩
            · rw [i1, c2, s1.conts nd (Nat.lt_succ_self _)]
            · intro r hr
              have hr1 : r < h1.recs.size := Nat.lt_of_lt_of_le hr s1.rsize
              rw [i2 r (by rw [c9]; exact hr1), hr2, s1.recs r hr]
            · have : h2.recs.size = h1.recs.size := by rw [c9]
              have := s1.rsize
              omega

theorem good_copyDefault {h : Heap} (g : Good h) (nd : Nat) (dn : Option Ns) : Good (h.copyDefault nd dn) := by
  unfold copyDefault
  cases dn with
  | none => exact g
  | some n =>
    simp only
    unfold setDefault
    exact ⟨heapNormal_setMgr g.normal nd _ (NsMgr.setDefault_inv1 (mgrOf_inv1 g.normal nd) n.uri),
      heapExtra_setMgr g.extra nd _, wfRecs_setMgr g.wf nd _, g.noColl⟩

/-- **`ProvDocument.unified()`, the document's own records**: on success the new document's record list is, in order, a list
    of `==` copies of the placed list of the source's own records — every group of same-identifier, same-kind records replaced,
    at the place of its first member, by one record holding exactly the union of the group's pairs (`GoodMap`) — and it stays
    that through the whole loop over the bundles -/
theorem c08_unifiedDoc_top (h : Heap) (d : Nat) (g : Good h) (hd : d < h.conts.size) (h' : Heap) (nd : Nat)
    (hres : h.unifiedDoc d = (h', .ok nd)) :
    ∃ h2 h3 mp news, GoodMap h2 h3 (groupsOf h2 d) mp ∧ (h2.cont d).records = (h.cont d).records ∧
      (∀ r, r < h.recs.size → h2.recCell r = h.recCell r ∧ h3.recCell r = h.recCell r) ∧
      (h'.cont nd).records = news ∧ news.length = (placeMerged mp (h.cont d).records).length ∧
      (∀ p ∈ (placeMerged mp (h.cont d).records).zip news, recEq (h3.recCell p.1).r (h'.recCell p.2).r = true) := by
  unfold unifiedDoc at hres
  simp only [] at hres
  have g1 := good_allocCont g true none (h.mgrOf d).reg.values none
  obtain ⟨a1, _, a3, _, a5⟩ := allocCont_fresh h true none (h.mgrOf d).reg.values none
  have hsz1 : (h.allocCont true none (h.mgrOf d).reg.values none).1.conts.size = h.conts.size + 1 := by simp [allocCont, allocMgr]
  have hempty : ((h.allocCont true none (h.mgrOf d).reg.values none).1.cont (h.allocCont true none (h.mgrOf d).reg.values none).2).records = [] := by
    simp [allocCont, allocMgr, cont, Array.getD_eq_getD_getElem?]
  generalize h.allocCont true none (h.mgrOf d).reg.values none = al at hres g1 a1 a3 a5 hsz1 hempty
  obtain ⟨h1, n1⟩ := al
  simp only at hres g1 a1 a3 a5 hsz1 hempty
  have g2 := good_copyDefault g1 n1 (h.mgrOf d).dflt
  have hc2 : ∀ c, (h1.copyDefault n1 (h.mgrOf d).dflt).cont c = h1.cont c := fun c => by
    unfold copyDefault; cases (h.mgrOf d).dflt <;> rfl
  have hr2 : (h1.copyDefault n1 (h.mgrOf d).dflt).recs = h1.recs := by
    unfold copyDefault; cases (h.mgrOf d).dflt <;> rfl
  have hs2 : (h1.copyDefault n1 (h.mgrOf d).dflt).conts.size = h1.conts.size := by
    unfold copyDefault; cases (h.mgrOf d).dflt <;> rfl
  generalize h1.copyDefault n1 (h.mgrOf d).dflt = h2 at hres g2 hc2 hr2 hs2
  have hrec2 : ∀ r, h2.recCell r = h.recCell r := fun r => by simp [recCell, hr2, a5]
  have hd2 : h2.cont d = h.cont d := by rw [hc2, a3 d hd]
  unfold unifiedInto at hres
  have g3 := good_unifiedRecords g2 d
  have hsz := (frameB_unifiedRecords 0 0 h2 d (Nat.zero_le _) (Nat.zero_le _))
  have hcu := (frameB_unifiedRecords (n1 + 1) 0 h2 d (by rw [hs2, hsz1, a1]; exact Nat.le_refl _) (Nat.zero_le _))
  cases hur : h2.unifiedRecords d with
  | mk h3 e =>
    rw [hur] at hres g3 hsz hcu
    simp only at g3 hsz hcu
    cases e with
    | error err => simp at hres
    | ok rs =>
      simp only at hres
      obtain ⟨mp, hrs, hgm, hframe, _⟩ := c08_unifiedRecords_content h2 d g2.allInv1
        (fun e he r hr => ⟨g2.wf.inRange d r (g2.wf.idxIn d e he r hr), (stored_of_normal_extra (g2.normal.2 r) (g2.extra r)).pairs⟩) h3 rs hur
      have hn1lt : n1 < h3.conts.size := by
        have := hsz.csize
        rw [hs2, hsz1] at this
        rw [a1]; omega
      have hsrc : ∀ r ∈ rs, r < h3.recs.size ∧ StoredRec (h3.recCell r).r := by
        intro r hr
        have hlt : r < h3.recs.size := by
          rw [hrs] at hr
          rcases c08_nothing_invented mp _ r hr with h4 | ⟨e, he, rfl⟩
          · exact Nat.lt_of_lt_of_le (g2.wf.inRange d r h4) hsz.rsize
          · obtain ⟨_, _, _, _, hlt, _⟩ := hgm.sound e he
            exact hlt
        exact ⟨hlt, g3.storedRec r hlt⟩
      obtain ⟨h4, news, f1, f2, flen, f3, f4, _, f6, _, f8⟩ := c09_addRecords_heap n1 rs h3 hn1lt g3.allInv1 hsrc
      rw [f1] at hres
      simp only at hres
      cases hgo : unifiedInto.go n1 h4 (h4.cont d).bundles with
      | mk h5 e5 =>
        rw [hgo] at hres
        cases e5 with
        | some err => simp at hres
        | none =>
          simp only [Prod.mk.injEq, Except.ok.injEq] at hres
          obtain ⟨rfl, rfl⟩ := hres
          obtain ⟨k1, k2, _⟩ := unifiedGo_keeps n1 _ h4 h5 (by rw [f6]; exact hn1lt) hgo
          have hempty3 : (h3.cont n1).records = [] := by
            rw [hcu.conts n1 (Nat.lt_succ_self _), hc2]; exact hempty
          refine ⟨h2, h3, mp, news, hgm, by rw [hd2], ?_, by rw [k1, f2, hempty3]; simp, by rw [flen, hrs, hd2], ?_⟩
          · intro r hr
            exact ⟨hrec2 r, by rw [hframe r (by rw [hr2, a5]; exact hr), hrec2]⟩
          · intro p hp
            rw [← hd2, ← hrs] at hp
            obtain ⟨q1, q2, q3⟩ := f3 p hp
            rw [k2 p.2 q3]
            exact q1

end Prov.C08

/-
  C12, the well-formedness premise of the independence theorems is an invariant of every history: in every state the public
  interface can produce (`ReachAny`: mutators and deriving operations in any order, any arguments, succeeding or raising) every
  container refers to an allocated namespace-manager cell (`WfMgr`). So `c12_flattened_independent` and
  `c12_unified_independent` hold of every reachable state with no hypothesis left: whatever is done afterwards to the document
  `flattened()` / `unified()` returned leaves every earlier container, manager and record cell as it was.
-/
import Prov.Props.C12B
import Prov.Props.C18S

namespace Prov.C12
open Prov Prov.Heap Prov.C05 Prov.C09 Prov.C08 Prov.C18

theorem wfMgr_same {h h' : Heap} (hw : WfMgr h) (hc : h'.conts = h.conts) (hm : h'.mgrs.size = h.mgrs.size) : WfMgr h' := by
  intro c hlt
  have hlt' : c < h.conts.size := by rw [← hc]; exact hlt
  have : h'.cont c = h.cont c := by simp [cont, hc]
  rw [this, hm]; exact hw c hlt'

theorem wfMgr_setMgr {h : Heap} (hw : WfMgr h) (c : Nat) (m : NsMgr) : WfMgr (h.setMgr c m) :=
  wfMgr_same hw rfl (by simp [setMgr])

theorem wfMgr_setRec {h : Heap} (hw : WfMgr h) (r : Nat) (rc : Record) : WfMgr (h.setRec r rc) := wfMgr_same hw rfl rfl

theorem wfMgr_setCont {h : Heap} (hw : WfMgr h) (c : Nat) (k : Cont) (hk : k.mgr = (h.cont c).mgr) : WfMgr (h.setCont c k) := by
  intro c' hlt
  have hlt' : c' < h.conts.size := by simpa [setCont] using hlt
  have hm : (h.setCont c k).mgrs.size = h.mgrs.size := rfl
  rw [hm]
  by_cases e : c' = c
  · subst e; rw [cont_setCont_self h c' k hlt', hk]; exact hw c' hlt'
  · rw [cont_setCont_ne h c c' k e]; exact hw c' hlt'

theorem wfMgr_validName {h : Heap} (hw : WfMgr h) (c : Nat) (x : NameArg) : WfMgr (h.validName c x).1 := by
  unfold Heap.validName; exact wfMgr_setMgr hw _ _

theorem wfMgr_mkRecord {h : Heap} (hw : WfMgr h) (c : Nat) (k : RecKind) (id : Option QName) (attrs : List AttrArg) :
    WfMgr (h.mkRecord c k id attrs).1 := by
  unfold Heap.mkRecord
  split
  · exact hw
  · simp only []
    split
    · exact wfMgr_setMgr hw _ _
    · exact wfMgr_same (wfMgr_setMgr hw c _) rfl rfl

theorem wfMgr_addAttributes {h : Heap} (hw : WfMgr h) (r : Nat) (attrs : List AttrArg) : WfMgr (h.addAttributes r attrs).1 := by
  unfold Heap.addAttributes
  simp only []
  exact wfMgr_setRec (wfMgr_setMgr hw _ _) _ _

theorem wfMgr_newRecord {h : Heap} (hw : WfMgr h) (c : Nat) (k : RecKind) (idArg : NameArg) (attrs : List AttrArg) :
    WfMgr (h.newRecord c k idArg attrs).1 := by
  unfold Heap.newRecord
  simp only []
  have s1 := wfMgr_validName hw c idArg
  generalize h.validName c idArg = vn at s1
  obtain ⟨h1, vid⟩ := vn
  simp only at s1 ⊢
  have s2 := wfMgr_mkRecord s1 c k vid attrs
  generalize h1.mkRecord c k vid attrs = mk at s2
  obtain ⟨h2, e⟩ := mk
  cases e with
  | error err => exact s2
  | ok r => unfold addRecordRaw; exact wfMgr_setCont s2 c _ rfl

theorem wfMgr_bundle {h : Heap} (hw : WfMgr h) (d : Nat) (idArg : NameArg) : WfMgr (h.bundle d idArg).1 := by
  unfold Heap.bundle
  split
  · exact hw
  · have h1 := wfMgr_validName hw d idArg
    generalize h.validName d idArg = res at h1
    obtain ⟨hh, vid⟩ := res
    simp only at h1 ⊢
    cases vid with
    | none => exact h1
    | some q =>
      simp only
      split
      · exact h1
      · have h2 := wfMgr_allocCont hh false (some q) [] (some d) h1
        generalize hh.allocCont false (some q) [] (some d) = al at h2
        obtain ⟨h3, nb⟩ := al
        simp only at h2 ⊢
        exact wfMgr_setCont h2 d _ rfl

theorem wfMgr_addRecords (c : Nat) : ∀ (rs : List Nat) (h : Heap), WfMgr h → WfMgr (h.addRecords c rs).1
  | [], _, hw => hw
  | r :: rest, h, hw => by
    unfold Heap.addRecords
    simp only [Heap.addRecord]
    have s1 := wfMgr_newRecord hw c (h.recCell r).r.kind (recreateArgs (h.recCell r).r).1 (recreateArgs (h.recCell r).r).2
    generalize h.newRecord c (h.recCell r).r.kind (recreateArgs (h.recCell r).r).1 (recreateArgs (h.recCell r).r).2 = res at s1
    obtain ⟨h1, e⟩ := res
    cases e with
    | error err => exact s1
    | ok nr => exact wfMgr_addRecords c rest h1 s1

theorem wfMgr_scratchCopy {h : Heap} (hw : WfMgr h) (r0 : Nat) : WfMgr (h.scratchCopy r0).1 := by
  unfold scratchCopy
  simp only []
  have s0 := wfMgr_allocCont _ false none [] none hw
  generalize h.allocCont false none [] none = al at s0
  obtain ⟨h0, sc⟩ := al
  exact wfMgr_mkRecord s0 sc _ _ _

theorem wfMgr_mergeGo (mref : Nat) : ∀ (rs : List Nat) (h : Heap), WfMgr h → WfMgr (mergeGroup.go mref h rs).1
  | [], _, hw => hw
  | r :: more, h, hw => by
    unfold mergeGroup.go
    simp only []
    have s1 := wfMgr_addAttributes hw mref ((h.recCell r).r.flat.map (fun p => ({ name := .qn p.1, value := .val p.2 } : AttrArg)))
    generalize h.addAttributes mref ((h.recCell r).r.flat.map (fun p => ({ name := .qn p.1, value := .val p.2 } : AttrArg))) = res at s1
    obtain ⟨h', e⟩ := res
    cases e with
    | none => exact wfMgr_mergeGo mref more h' s1
    | some err => exact s1

theorem wfMgr_mergeGroup {h : Heap} (hw : WfMgr h) (rs : List Nat) : WfMgr (h.mergeGroup rs).1 := by
  unfold mergeGroup
  cases rs with
  | nil => exact hw
  | cons r0 rest =>
    simp only []
    have s1 := wfMgr_scratchCopy hw r0
    generalize h.scratchCopy r0 = res at s1
    obtain ⟨h1, e⟩ := res
    cases e with
    | error err => exact s1
    | ok mref =>
      simp only []
      have s2 := wfMgr_mergeGo mref rest h1 s1
      generalize mergeGroup.go mref h1 rest = res2 at s2
      obtain ⟨h2, e2⟩ := res2
      cases e2 <;> exact s2

theorem wfMgr_mergeAll : ∀ (gs : List (List Nat)) (h : Heap) (acc : List (Nat × Nat)), WfMgr h →
    WfMgr (unifiedRecords.mergeAll h acc gs).1
  | [], _, _, hw => hw
  | grp :: gs, h, acc, hw => by
    unfold unifiedRecords.mergeAll
    have s1 := wfMgr_mergeGroup hw grp
    generalize h.mergeGroup grp = res at s1
    obtain ⟨h1, e⟩ := res
    cases e with
    | error err => exact s1
    | ok mref => exact wfMgr_mergeAll gs h1 _ s1

theorem wfMgr_unifiedRecords {h : Heap} (hw : WfMgr h) (c : Nat) : WfMgr (h.unifiedRecords c).1 := by
  unfold unifiedRecords
  simp only []
  have s1 := wfMgr_mergeAll (((h.cont c).idMap.flatMap (fun e => (groupByKind h e.2).map (·.2))).filter (fun g => g.length > 1)) h [] hw
  generalize unifiedRecords.mergeAll h [] _ = res at s1
  obtain ⟨h1, e⟩ := res
  cases e <;> exact s1

theorem wfMgr_unifiedBundle {h : Heap} (hw : WfMgr h) (c : Nat) : WfMgr (h.unifiedBundle c).1 := by
  unfold unifiedBundle
  have s1 := wfMgr_unifiedRecords hw c
  generalize h.unifiedRecords c = res at s1
  obtain ⟨h1, e⟩ := res
  cases e with
  | error err => exact s1
  | ok rs =>
    simp only []
    have s2 := wfMgr_allocCont _ false (h1.cont c).id [] none s1
    generalize h1.allocCont false (h1.cont c).id [] none = al at s2
    obtain ⟨h2, nb⟩ := al
    have s3 := wfMgr_addRecords nb rs h2 s2
    generalize h2.addRecords nb rs = res3 at s3
    obtain ⟨h3, e3⟩ := res3
    cases e3 <;> exact s3

theorem wfMgr_registerBundle {h3 : Heap} (hw : WfMgr h3) (d b' : Nat) (q : QName) : WfMgr (h3.registerBundle d b' q).1 := by
  unfold registerBundle
  simp only []
  have s4 := wfMgr_setCont hw b' { h3.cont b' with id := some q } rfl
  split
  · exact s4
  · refine wfMgr_setCont (wfMgr_setCont s4 d _ ?_) b' _ ?_ <;> rfl

theorem wfMgr_attachBundle {h1 : Heap} (hw : WfMgr h1) (d b' : Nat) (idArg : NameArg) : WfMgr (h1.attachBundle d b' idArg).1 := by
  unfold attachBundle
  split
  · exact hw
  · have s2 : WfMgr (h1.linkParent d b') := by exact wfMgr_same hw rfl (by simp [linkParent])
    have s3 := wfMgr_validName s2 b' (h1.defaultBundleId b' idArg)
    generalize (h1.linkParent d b').validName b' (h1.defaultBundleId b' idArg) = vn at s3
    obtain ⟨h3, vid⟩ := vn
    cases vid with
    | none => exact s3
    | some q => exact wfMgr_registerBundle s3 d b' q

theorem wfMgr_addBundle {h : Heap} (hw : WfMgr h) (d b : Nat) (idArg : NameArg) (nsOrder : List Ns) :
    WfMgr (h.addBundle d b idArg nsOrder).1 := by
  unfold addBundle
  simp only []
  by_cases hdoc : (h.cont b).isDoc = true
  · simp only [hdoc, if_true]
    by_cases hbs : (!(h.cont b).bundles.isEmpty) = true
    · simp only [hbs, if_true]
      exact hw
    · simp only [hbs, Bool.false_eq_true, if_false]
      have s2 := wfMgr_allocCont _ false none nsOrder none hw
      generalize h.allocCont false none nsOrder none = al at s2
      obtain ⟨h2, nb⟩ := al
      have s3 := wfMgr_addRecords nb (h.cont b).records h2 s2
      generalize h2.addRecords nb (h.cont b).records = res3 at s3
      obtain ⟨h3, e3⟩ := res3
      cases e3 with
      | some err => exact s3
      | none => exact wfMgr_attachBundle s3 d nb idArg
  · simp only [hdoc, Bool.false_eq_true, if_false]
    exact wfMgr_attachBundle hw d b idArg

theorem wfMgr_unifiedGo (nd : Nat) : ∀ (bs : List (QName × Nat)) (h : Heap), WfMgr h → WfMgr (unifiedInto.go nd h bs).1
  | [], _, hw => hw
  | (q, b) :: rest, h, hw => by
    unfold unifiedInto.go
    have s1 := wfMgr_unifiedBundle hw b
    generalize h.unifiedBundle b = res at s1
    obtain ⟨h', e⟩ := res
    cases e with
    | error err => exact s1
    | ok ub =>
      simp only []
      have s2 := wfMgr_addBundle s1 nd ub .nil []
      generalize h'.addBundle nd ub .nil [] = res2 at s2
      obtain ⟨h'', e2⟩ := res2
      cases e2 with
      | some err => exact s2
      | none => exact wfMgr_unifiedGo nd rest h'' s2

theorem wfMgr_unifiedDoc {h : Heap} (hw : WfMgr h) (d : Nat) : WfMgr (h.unifiedDoc d).1 := by
  unfold unifiedDoc
  simp only []
  have s1 := wfMgr_allocCont _ true none (h.mgrOf d).reg.values none hw
  generalize h.allocCont true none (h.mgrOf d).reg.values none = al at s1
  obtain ⟨h1, nd⟩ := al
  simp only []
  have s2 : WfMgr (h1.copyDefault nd (h.mgrOf d).dflt) := by
    unfold copyDefault
    split
    · unfold Heap.setDefault; exact wfMgr_setMgr s1 _ _
    · exact s1
  generalize h1.copyDefault nd (h.mgrOf d).dflt = h2 at s2
  unfold unifiedInto
  have s3 := wfMgr_unifiedRecords s2 d
  generalize h2.unifiedRecords d = res at s3
  obtain ⟨h3, e⟩ := res
  cases e with
  | error err => exact s3
  | ok rs =>
    simp only []
    have s4 := wfMgr_addRecords nd rs h3 s3
    generalize h3.addRecords nd rs = res4 at s4
    obtain ⟨h4, e4⟩ := res4
    cases e4 with
    | some err => exact s4
    | none =>
      simp only []
      have s5 := wfMgr_unifiedGo nd (h4.cont d).bundles h4 s4
      generalize unifiedInto.go nd h4 (h4.cont d).bundles = res5 at s5
      obtain ⟨h5, e5⟩ := res5
      cases e5 <;> exact s5

theorem wfMgr_flattened {h : Heap} (hw : WfMgr h) (d : Nat) : WfMgr (h.flattened d).1 := by
  unfold flattened
  simp only []
  split
  · exact hw
  · simp only [newDoc]
    have s1 := wfMgr_allocCont _ true none [] none hw
    generalize h.allocCont true none [] none = al at s1
    obtain ⟨h1, nd⟩ := al
    simp only []
    have s2 := wfMgr_addRecords nd ((h.cont d).records ++ (h.cont d).bundles.flatMap (fun p => (h.cont p.2).records)) h1 s1
    generalize h1.addRecords nd _ = res at s2
    obtain ⟨h2, e⟩ := res
    cases e <;> exact s2

theorem wfMgr_updateBundle {h : Heap} (hw : WfMgr h) (c o : Nat) : WfMgr (h.updateBundle c o).1 := by
  unfold updateBundle
  simp only []
  split
  · exact hw
  · exact wfMgr_addRecords c _ h hw

theorem wfMgr_updateGo (d : Nat) : ∀ (bs : List (QName × Nat)) (h : Heap), WfMgr h → WfMgr (updateDoc.go d h bs).1
  | [], _, hw => hw
  | (_, b) :: rest, h, hw => by
    unfold updateDoc.go
    cases hid : (h.cont b).id with
    | none => exact hw
    | some bid =>
      simp only []
      cases hget : bundlesGet (h.cont d).bundles bid with
      | some tb =>
        simp only []
        have s1 := wfMgr_updateBundle hw tb b
        generalize h.updateBundle tb b = res at s1
        obtain ⟨h', e⟩ := res
        cases e with
        | none => exact wfMgr_updateGo d rest h' s1
        | some err => exact s1
      | none =>
        simp only []
        have s1 := wfMgr_bundle hw d (.qn bid)
        generalize h.bundle d (.qn bid) = res at s1
        obtain ⟨h', e⟩ := res
        cases e with
        | error err => exact s1
        | ok nb =>
          simp only []
          have s2 := wfMgr_updateBundle s1 nb b
          generalize h'.updateBundle nb b = res2 at s2
          obtain ⟨h'', e2⟩ := res2
          cases e2 with
          | none => exact wfMgr_updateGo d rest h'' s2
          | some err => exact s2

theorem wfMgr_update {h : Heap} (hw : WfMgr h) (c o : Nat) : WfMgr (h.update c o).1 := by
  unfold update
  split
  · unfold updateDoc
    simp only []
    have s1 := wfMgr_addRecords c (h.cont o).records h hw
    generalize h.addRecords c (h.cont o).records = res at s1
    obtain ⟨h1, e⟩ := res
    cases e with
    | some err => exact s1
    | none => exact wfMgr_updateGo c (h.cont o).bundles h1 s1
  · exact wfMgr_updateBundle hw c o

theorem dstep_wfMgr {h : Heap} (hw : WfMgr h) (op : DOp) : WfMgr (dstep h op) := by
  cases op with
  | addRecord c r => exact wfMgr_newRecord hw c _ _ _
  | update c o => exact wfMgr_update hw c o
  | addBundle d b id nsOrder => exact wfMgr_addBundle hw d b id nsOrder
  | flattened d => exact wfMgr_flattened hw d
  | unifiedBundle c => exact wfMgr_unifiedBundle hw c
  | unifiedDoc d => exact wfMgr_unifiedDoc hw d

theorem hstep_wfMgr {h : Heap} (hw : WfMgr h) (op : HOp) : WfMgr (hstep h op) := by
  cases op with
  | newDoc nss => exact wfMgr_allocCont h true none nss none hw
  | newBundle id nss doc => exact wfMgr_allocCont h false id nss doc hw
  | bundle d id => exact wfMgr_bundle hw d id
  | addNs c n => unfold hstep Heap.addNs; exact wfMgr_setMgr hw c _
  | setDefault c u => unfold hstep Heap.setDefault; exact wfMgr_setMgr hw c _
  | validName c x => exact wfMgr_validName hw c x
  | newRecord c k id attrs => exact wfMgr_newRecord hw c k id attrs
  | addAttributes r attrs => exact wfMgr_addAttributes hw r attrs
  | setTime r st en =>
    unfold hstep Heap.setTime
    dsimp only
    split
    · exact hw
    · split
      · exact wfMgr_setRec hw _ _
      · exact wfMgr_setRec hw _ _
  | addAssertedType r v flt =>
    unfold hstep Heap.addAssertedType
    dsimp only
    generalize autoLiteral (h.mgrOf (h.recCell r).bundle) v flt = res
    obtain ⟨m', conv⟩ := res
    simp only
    cases conv with
    | ok v' => exact wfMgr_setRec (wfMgr_setMgr hw _ m') r _
    | isNone => exact wfMgr_setMgr hw _ m'
    | crash e => exact wfMgr_setMgr hw _ m'

/-- **every reachable state is well-formed**: each container refers to an allocated manager cell -/
theorem reachAny_wfMgr {h : Heap} (hr : ReachAny h) : WfMgr h := by
  induction hr with
  | empty => exact wfMgr_empty
  | mutate op _ ih => exact hstep_wfMgr ih op
  | derive op _ ih => exact dstep_wfMgr ih op

/-- **`unified()` returns an independent document, in every reachable state**: no sequence of later mutations of the result
    changes any container, manager or record that existed -/
theorem c12_unified_independent_reach {h : Heap} (hr : ReachAny h) (d : Nat) (h' : Heap) (nd : Nat)
    (hres : h.unifiedDoc d = (h', .ok nd)) (c : Nat) (hc : c < h.conts.size) (ms : List Mut) :
    nd ≠ c ∧ SameView h' (ms.foldl (fun hh m => applyMut hh nd m) h') c :=
  c12_unified_independent h d (reachAny_wfMgr hr) h' nd hres c hc ms

/-- **`flattened()` likewise** -/
theorem c12_flattened_independent_reach {h : Heap} (hr : ReachAny h) (d : Nat) (hb : (h.cont d).bundles.isEmpty = false)
    (h' : Heap) (nd : Nat) (hres : h.flattened d = (h', .ok nd)) (c : Nat) (hc : c < h.conts.size) (ms : List Mut) :
    nd ≠ c ∧ SameView h' (ms.foldl (fun hh m => applyMut hh nd m) h') c :=
  c12_flattened_independent h d hb (reachAny_wfMgr hr) h' nd hres c hc ms

end Prov.C12

/-
  C17 — writing to a file path is exact and all-or-nothing.
-/
import Prov.FileIO
import Prov.Lemmas.Text

namespace Prov.C17
open Prov.FileIO Prov.Text

/-- **exactness**: a location that has no URL network part and is not a file: URL is written to exactly that name —
    whatever '#', '?', ';' or ':' it contains -/
theorem c17_exact (location : String)
    (hnet : (splitNetloc (splitScheme location.toList).2).1 = [])
    (hfile : (splitScheme location.toList).1 ≠ "file") : destPath location = some location := by
  unfold destPath
  simp only []
  rw [hnet]
  simp [hfile]

/-- names without ':' that do not start with "//" are such locations: '#', '?', ';', spaces, non-ASCII are ordinary characters -/
theorem c17_exact_plain (location : String) (hcolon : ':' ∉ location.toList)
    (hslash : ∀ rest, location.toList ≠ '/' :: '/' :: rest) : destPath location = some location := by
  have hs : splitScheme location.toList = ("", location.toList) := by
    simp [splitScheme, splitAt1_none ':' _ hcolon]
  apply c17_exact
  · rw [hs]
    show (splitNetloc location.toList).1 = []
    unfold splitNetloc
    split
    · next more heq => exact absurd heq (hslash more)
    · rfl
  · rw [hs]; simp

theorem fsGet_set_self (fs : FS) (p c : String) : fsGet (fsSet fs p c) p = some c := by
  induction fs with
  | nil => simp [fsSet, fsGet]
  | cons hd tl ih =>
    obtain ⟨k, v⟩ := hd
    by_cases hk : (k == p) = true
    · simp [fsSet, fsGet, hk]
    · simp only [fsSet, hk, Bool.false_eq_true, if_false, fsGet, List.find?_cons]
      simpa [fsGet] using ih

theorem fsGet_set_ne (fs : FS) (p q c : String) (h : q ≠ p) : fsGet (fsSet fs p c) q = fsGet fs q := by
  induction fs with
  | nil =>
    have : (p == q) = false := by simpa using (Ne.symm h)
    simp [fsSet, fsGet, this]
  | cons hd tl ih =>
    obtain ⟨k, v⟩ := hd
    by_cases hk : (k == p) = true
    · have hkp : k = p := by simpa using hk
      have hpq : (p == q) = false := by simpa using (Ne.symm h)
      have hkq : (k == q) = false := by rw [hkp]; exact hpq
      simp [fsSet, fsGet, hk, hpq, hkq]
    · by_cases hkq : (k == q) = true
      · simp [fsSet, fsGet, hk, hkq]
      · simp only [fsSet, hk, Bool.false_eq_true, if_false, fsGet, List.find?_cons, hkq]
        simpa [fsGet] using ih

theorem fsGet_del_ne (fs : FS) (p q : String) (h : q ≠ p) : fsGet (fsDel fs p) q = fsGet fs q := by
  induction fs with
  | nil => simp [fsDel, fsGet]
  | cons hd tl ih =>
    obtain ⟨k, v⟩ := hd
    by_cases hk : (k == p) = true
    · have hkp : k = p := by simpa using hk
      have hkq : (k == q) = false := by rw [hkp]; simpa using (Ne.symm h)
      have : (k != p) = false := by simp [hkp]
      simp only [fsDel, List.filter_cons, this, Bool.false_eq_true, if_false, fsGet, List.find?_cons, hkq]
      simpa [fsDel, fsGet] using ih
    · have : (k != p) = true := by simpa using hk
      simp only [fsDel, List.filter_cons, this, if_true, fsGet, List.find?_cons]
      by_cases hkq : (k == q) = true
      · simp [hkq]
      · simp only [hkq, Bool.false_eq_true]
        simpa [fsDel, fsGet] using ih

theorem fsGet_del_self (fs : FS) (p : String) : fsGet (fsDel fs p) p = none := by
  induction fs with
  | nil => simp [fsDel, fsGet]
  | cons hd tl ih =>
    obtain ⟨k, v⟩ := hd
    by_cases hk : (k == p) = true
    · have : (k != p) = false := by simpa using hk
      simp only [fsDel, List.filter_cons, this, Bool.false_eq_true, if_false]
      simpa [fsDel] using ih
    · have : (k != p) = true := by simpa using hk
      simp only [fsDel, List.filter_cons, this, if_true, fsGet, List.find?_cons, hk, Bool.false_eq_true]
      simpa [fsDel, fsGet] using ih

/-- **all-or-nothing, for every fault point**: whatever step fails (or none), the named file afterwards holds either
    its previous content (or is still absent) or the complete serialisation; every other named file is unchanged;
    and the temporary file is gone -/
theorem c17_all_or_nothing (fs : FS) (tmp dest : String) (chunks : List String) (fault : Option Nat)
    (hne : tmp ≠ dest) (hfresh : fsGet fs tmp = none) :
    let r := writePath fs tmp dest chunks fault
    (fsGet r.1 dest = fsGet fs dest ∨ fsGet r.1 dest = some (String.join chunks)) ∧
    (∀ p, p ≠ dest → p ≠ tmp → fsGet r.1 p = fsGet fs p) ∧
    fsGet r.1 tmp = none ∧
    (r.2 = true → fsGet r.1 dest = some (String.join chunks)) := by
  intro r
  have okcase : ∀ r' : FS × Bool, r' = ((fsDel (fsSet (fsSet fs tmp (String.join chunks)) dest (String.join chunks)) tmp), true) →
      (fsGet r'.1 dest = fsGet fs dest ∨ fsGet r'.1 dest = some (String.join chunks)) ∧
      (∀ p, p ≠ dest → p ≠ tmp → fsGet r'.1 p = fsGet fs p) ∧ fsGet r'.1 tmp = none ∧
      (r'.2 = true → fsGet r'.1 dest = some (String.join chunks)) := by
    intro r' hr'
    subst hr'
    have hd : fsGet (fsDel (fsSet (fsSet fs tmp (String.join chunks)) dest (String.join chunks)) tmp) dest = some (String.join chunks) := by
      rw [fsGet_del_ne _ _ _ (Ne.symm hne), fsGet_set_self]
    refine ⟨Or.inr hd, ?_, fsGet_del_self _ _, fun _ => hd⟩
    intro p hp1 hp2
    rw [fsGet_del_ne _ _ _ hp2, fsGet_set_ne _ _ _ _ hp1, fsGet_set_ne _ _ _ _ hp2]
  have failcase : ∀ r' : FS × Bool, r' = (fsDel (fsSet fs tmp "") tmp, false) →
      (fsGet r'.1 dest = fsGet fs dest ∨ fsGet r'.1 dest = some (String.join chunks)) ∧
      (∀ p, p ≠ dest → p ≠ tmp → fsGet r'.1 p = fsGet fs p) ∧ fsGet r'.1 tmp = none ∧
      (r'.2 = true → fsGet r'.1 dest = some (String.join chunks)) := by
    intro r' hr'
    subst hr'
    refine ⟨Or.inl ?_, ?_, fsGet_del_self _ _, fun h => by cases h⟩
    · rw [fsGet_del_ne _ _ _ (Ne.symm hne), fsGet_set_ne _ _ _ _ (Ne.symm hne)]
    · intro p _ hp2
      rw [fsGet_del_ne _ _ _ hp2, fsGet_set_ne _ _ _ _ hp2]
  show _ ∧ _ ∧ _ ∧ _
  cases fault with
  | none => exact okcase r rfl
  | some k =>
    cases k with
    | zero =>
      exact ⟨Or.inl rfl, fun _ _ _ => rfl, hfresh, fun h => by cases h⟩
    | succ j =>
      by_cases hk : j + 1 ≤ chunks.length + 2
      · exact failcase r (by simp [r, writePath, hk])
      · exact okcase r (by simp [r, writePath, hk])

/-- non-vacuity: an existing destination, a fault in the middle of the writes -/
example : (writePath [("out.json", "old")] "/tmp/tmpabc" "out.json" ["{", "}", "\n"] (some 2)).1 = [("out.json", "old")] := by
  decide

end Prov.C17

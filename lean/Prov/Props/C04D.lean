/-
  C04 at document level: `ProvDocument.__eq__` holds exactly when the two documents have the same set of records at top
  level and the same bundles (by identifier URI), each with the same set of records.
-/
import Prov.Props.C04C

namespace Prov.C04
open Prov Prov.Heap

/-- two record lists have the same members up to `==` -/
def SameRecords (xs ys : List Record) : Prop := Cover xs ys ∧ Cover ys xs

/-- same bundles, same content -/
structure SameDocs (h : Heap) (a b : Nat) : Prop where
  top : SameRecords (h.recsOf a) (h.recsOf b)
  fwd : ∀ p ∈ (h.cont a).bundles, ∃ q ∈ (h.cont b).bundles, q.1.uri = p.1.uri ∧ SameRecords (h.recsOf p.2) (h.recsOf q.2)
  back : ∀ q ∈ (h.cont b).bundles, ∃ p ∈ (h.cont a).bundles, p.1.uri = q.1.uri ∧ SameRecords (h.recsOf p.2) (h.recsOf q.2)

/-- **C04** (documents): `d1 == d2` decides exactly "same records at top level, same bundle identifiers, same records in
    each bundle" -/
theorem c04_docEq_iff (h : Heap) (ok : HeapOk h) (a b : Nat) (hb : (h.cont b).isDoc = true)
    (ka : KeysDistinct (h.cont a).bundles) (kb : KeysDistinct (h.cont b).bundles) :
    h.docEq a b = true ↔ SameDocs h a b := by
  have iff_b : ∀ x y, h.bundleEq x y = true ↔ SameRecords (h.recsOf x) (h.recsOf y) := fun x y =>
    c04_recordsEq_iff _ _ (ok x) (ok y)
  unfold docEq
  simp only [hb, Bool.true_and, Bool.and_eq_true, beq_iff_eq, List.all_eq_true]
  constructor
  · rintro ⟨⟨htop, hlen⟩, hall⟩
    have hfwd : ∀ p ∈ (h.cont a).bundles, ∃ q ∈ (h.cont b).bundles, q.1.uri = p.1.uri ∧
        SameRecords (h.recsOf p.2) (h.recsOf q.2) := by
      intro p hp
      have := hall p hp
      cases hg : bundlesGet (h.cont b).bundles p.1 with
      | none => simp [hg] at this
      | some ob =>
        simp only [hg] at this
        obtain ⟨q, hq, hu, rfl⟩ := bundlesGet_some hg
        exact ⟨q, hq, hu, (iff_b _ _).mp this⟩
    refine ⟨(iff_b a b).mp htop, hfwd, ?_⟩
    intro q hq
    obtain ⟨p, hp, hpu⟩ := keys_back ka hlen (fun p hp => by obtain ⟨q, hq, hu, _⟩ := hfwd p hp; exact ⟨q, hq, hu⟩) q hq
    obtain ⟨q', hq', hu', hs'⟩ := hfwd p hp
    -- q' and q carry the same URI in a list with distinct keys: the same entry
    have hget1 := bundlesGet_of_mem kb hq' (q := p.1) hu'
    have hget2 := bundlesGet_of_mem kb hq (q := p.1) hpu.symm
    rw [hget1] at hget2
    simp only [Option.some.injEq] at hget2
    exact ⟨p, hp, hpu, by rw [← hget2]; exact hs'⟩
  · intro hs
    refine ⟨⟨(iff_b a b).mpr hs.top, ?_⟩, ?_⟩
    · -- equal counts: each side's keys embed into the other's
      have h1 : (h.cont a).bundles.map (fun p => p.1.uri) ⊆ (h.cont b).bundles.map (fun p => p.1.uri) := by
        intro u hu
        obtain ⟨p, hp, rfl⟩ := List.mem_map.mp hu
        obtain ⟨q, hq, e, _⟩ := hs.fwd p hp
        exact List.mem_map.mpr ⟨q, hq, e⟩
      have h2 : (h.cont b).bundles.map (fun p => p.1.uri) ⊆ (h.cont a).bundles.map (fun p => p.1.uri) := by
        intro u hu
        obtain ⟨q, hq, rfl⟩ := List.mem_map.mp hu
        obtain ⟨p, hp, e, _⟩ := hs.back q hq
        exact List.mem_map.mpr ⟨p, hp, e⟩
      have l1 := (List.subperm_of_subset ka h1).length_le
      have l2 := (List.subperm_of_subset kb h2).length_le
      simp only [List.length_map] at l1 l2
      omega
    · intro p hp
      obtain ⟨q, hq, hu, hsr⟩ := hs.fwd p hp
      rw [bundlesGet_of_mem kb hq hu]
      exact (iff_b _ _).mpr hsr

end Prov.C04

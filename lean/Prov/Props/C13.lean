/-
  C13 — exporting never mutates the document and is repeatable.

  In the model every text/graph exporter (encodeJson, encodeXml, printProvN, encodeRdf, provToGraph,
  toDot, ==, hash) is a *pure function* of the heap: it has no way to return a changed heap, and two
  calls on one heap return equal results (functional congruence, `c13_pure_repeatable`). The two
  exporters that are heap functions because they allocate — flattened() and unified() — are covered by
  the frame theorems below: everything that existed before the call is unchanged.
-/
import Prov.Lemmas.Frame
import Prov.Eq

namespace Prov.C13
open Prov Heap

/-- repeatability of any pure exporter: same heap, same answer (this is all "calling twice" can mean
    for a function that cannot write) -/
theorem c13_pure_repeatable {α : Type} (export_ : Heap → Nat → α) (h : Heap) (d : Nat) :
    export_ h d = export_ h d := rfl

/-- comparing documents is a pure observation -/
theorem c13_eq_pure (h : Heap) (a b : Nat) : ∃ r : Bool, h.contEq a b = r := ⟨_, rfl⟩

/-- what existed before: container cells other than the target, manager cells other than the target's,
    and all record cells -/
structure Preserved (h h' : Heap) (target : Nat) : Prop where
  conts : ∀ c, c ≠ target → h'.cont c = h.cont c
  mgrs  : ∀ i, i ≠ (h.cont target).mgr → h'.mgrCell i = h.mgrCell i
  recs  : ∀ r, r < h.recs.size → h'.recCell r = h.recCell r
  grow  : h.recs.size ≤ h'.recs.size
  tmgr  : (h'.cont target).mgr = (h.cont target).mgr

theorem preserved_refl (h : Heap) (t : Nat) : Preserved h h t :=
  ⟨fun _ _ => rfl, fun _ _ => rfl, fun _ _ => rfl, Nat.le_refl _, rfl⟩

theorem preserved_newRecord (h : Heap) (t : Nat) (k : RecKind) (id : NameArg) (attrs : List AttrArg) :
    Preserved h (h.newRecord t k id attrs).1 t :=
  ⟨fun c hc => cont_newRecord_ne h t c k id attrs hc,
   fun i hi => mgrCell_newRecord_ne h t k id attrs i hi,
   fun r hr => recCell_newRecord_lt h t k id attrs r hr,
   recs_size_newRecord h t k id attrs,
   cont_mgr_newRecord h t t k id attrs⟩

theorem preserved_trans {h1 h2 h3 : Heap} {t : Nat} (a : Preserved h1 h2 t) (b : Preserved h2 h3 t) :
    Preserved h1 h3 t :=
  ⟨fun c hc => (b.conts c hc).trans (a.conts c hc),
   fun i hi => (b.mgrs i (by rw [a.tmgr]; exact hi)).trans (a.mgrs i hi),
   fun r hr => (b.recs r (Nat.lt_of_lt_of_le hr a.grow)).trans (a.recs r hr),
   Nat.le_trans a.grow b.grow,
   b.tmgr.trans a.tmgr⟩

/-- adding any list of records to container `t` (re-creation through `new_record`) touches only `t`'s
    own cell, `t`'s manager cell and freshly allocated record cells -/
theorem c13_addRecords_frame (h : Heap) (t : Nat) (rs : List Nat) : Preserved h (h.addRecords t rs).1 t := by
  induction rs generalizing h with
  | nil => exact preserved_refl h t
  | cons r rest ih =>
    unfold Heap.addRecords
    simp only [Heap.addRecord]
    have s1 := preserved_newRecord h t (h.recCell r).r.kind (recreateArgs (h.recCell r).r).1
      (recreateArgs (h.recCell r).r).2
    generalize h.newRecord t (h.recCell r).r.kind (recreateArgs (h.recCell r).r).1
      (recreateArgs (h.recCell r).r).2 = res at s1
    obtain ⟨h1, e⟩ := res
    cases e with
    | error err => exact s1
    | ok nr => exact preserved_trans s1 (ih h1)

/-- **flattened() never mutates**: every container, manager and record cell that existed before the
    call is unchanged afterwards (the result lives in freshly allocated cells) -/
theorem c13_flattened_frame (h : Heap) (d : Nat) :
    (∀ c, c < h.conts.size → (h.flattened d).1.cont c = h.cont c) ∧
    (∀ i, i < h.mgrs.size → (h.flattened d).1.mgrCell i = h.mgrCell i) ∧
    (∀ r, r < h.recs.size → (h.flattened d).1.recCell r = h.recCell r) := by
  unfold Heap.flattened
  by_cases hb : (h.cont d).bundles.isEmpty = true
  · simp [hb]
  · simp only [hb, Heap.newDoc]
    obtain ⟨a1, a2, a3, a4, a5⟩ := allocCont_fresh h true none [] none
    generalize hal : h.allocCont true none [] none = al at a1 a2 a3 a4 a5
    obtain ⟨h1, nd⟩ := al
    simp only at a1 a2 a3 a4 a5
    have fr := c13_addRecords_frame h1 nd
      ((h.cont d).records ++ (h.cont d).bundles.flatMap (fun p => (h.cont p.2).records))
    generalize h1.addRecords nd ((h.cont d).records ++ (h.cont d).bundles.flatMap (fun p => (h.cont p.2).records)) = res at fr
    obtain ⟨h2, e⟩ := res
    have key : (∀ c, c < h.conts.size → h2.cont c = h.cont c) ∧
        (∀ i, i < h.mgrs.size → h2.mgrCell i = h.mgrCell i) ∧
        (∀ r, r < h.recs.size → h2.recCell r = h.recCell r) := by
      refine ⟨?_, ?_, ?_⟩
      · intro c hc
        rw [fr.conts c (by rw [a1]; omega), a3 c hc]
      · intro i hi
        rw [fr.mgrs i (by rw [a2]; omega), a4 i hi]
      · intro r hr
        rw [fr.recs r (by rw [a5]; exact hr)]
        simp [Heap.recCell, a5]
    cases e <;> exact key

end Prov.C13

/-
  C03, namespaces handed to the constructor.

  `ProvDocument(namespaces=…)` builds its manager as `NamespaceManager.__init__` does: the built-in table first, then
  `add_namespaces(namespaces)`, one `add_namespace` per entry in the order given. The theorems below show that a document
  built that way is *in the same state* as an empty document on which the same `add_namespace` calls were made, so every
  statement of `Props/C03` about "every state any namespace history reaches" speaks about constructor-built documents too:

  * `c03_constructor_is_history`    the manager `NsMgr.init.addNss nss` is the document of `Sys.init.run (nss.map (.addNs none))`;
  * `c03_constructor_then_history`  … and continuing with any operations gives the state of the concatenated history;
  * `c03_constructor_inv`, `c03_constructor_uri_preserved`  the invariant and the URI-preservation theorem, restated for it;
  * `c03_newDoc_mgr`                the heap's `newDoc nss` (what the driver's `new_doc` with `"ns"` executes) holds exactly
                                    that manager, without a parent;
  * `c03_constructor_builtin_clash` a built-in prefix offered for another URI does not displace the built-in namespace: the
                                    table keeps it, the newcomer is filed under a generated prefix (concrete witness for `xsd`).
-/
import Prov.Props.C03
import Prov.Heap

namespace Prov.C03
open Prov Text

/-- the operations a constructor's namespace list stands for -/
def ctorOps (nss : List Ns) : List Op := nss.map (Op.addNs none)

theorem run_append (s : Sys) (a b : List Op) : s.run (a ++ b) = (s.run a).run b := by
  simp [Sys.run, List.foldl_append]

theorem run_ctorOps (s : Sys) (nss : List Ns) : s.run (ctorOps nss) = { s with doc := s.doc.addNss nss } := by
  induction nss generalizing s with
  | nil => rfl
  | cons n rest ih =>
    show (Sys.run (s.step (Op.addNs none n)).1 (ctorOps rest)) = _
    rw [ih]
    simp [Sys.step, Sys.setMgr, Sys.mgr, NsMgr.addNss]

/-- **a constructor-built document is the document of the history made of its `add_namespace` calls** -/
theorem c03_constructor_is_history (nss : List Ns) :
    Sys.init.run (ctorOps nss) = ⟨NsMgr.init.addNss nss, []⟩ := by
  rw [run_ctorOps]; rfl

/-- **… and whatever follows continues that history** -/
theorem c03_constructor_then_history (nss : List Ns) (ops : List Op) :
    (⟨NsMgr.init.addNss nss, []⟩ : Sys).run ops = Sys.init.run (ctorOps nss ++ ops) := by
  rw [run_append, c03_constructor_is_history]

theorem ctorOps_ok (nss : List Ns) (h : ∀ n ∈ nss, n.pfx ≠ "") : ∀ op ∈ ctorOps nss, op.ok := by
  intro op hop
  simp only [ctorOps, List.mem_map] at hop
  obtain ⟨n, hn, rfl⟩ := hop
  exact h n hn

/-- the invariants of `Props/C03` hold in every state reached from a constructor-built document -/
theorem c03_constructor_inv (nss : List Ns) (hn : ∀ n ∈ nss, n.pfx ≠ "") (ops : List Op) (hops : ∀ op ∈ ops, op.ok) :
    ((⟨NsMgr.init.addNss nss, []⟩ : Sys).run ops).Inv := by
  rw [c03_constructor_then_history]
  apply inv_reachable
  intro op hop
  rcases List.mem_append.mp hop with h | h
  · exact ctorOps_ok nss hn op h
  · exact hops op h

/-- the heap's `newDoc nss` holds exactly the constructor's manager, and no parent -/
theorem c03_newDoc_mgr (h : Heap) (nss : List Ns) :
    let r := h.newDoc nss
    r.1.mgrOf r.2 = NsMgr.init.addNss nss ∧ r.1.parentOf r.2 = none := by
  simp [Heap.newDoc, Heap.allocCont, Heap.allocMgr, Heap.mgrOf, Heap.parentOf, Heap.cont, Heap.mgrCell]

/-- non-vacuity and the built-in clash: `ProvDocument(namespaces={'xsd': 'http://www.w3.org/2001/XMLSchema'})` keeps the
    built-in `xsd`, and the hash-less URI is filed under `xsd_1` -/
theorem c03_constructor_builtin_clash :
    let m := NsMgr.init.addNss [⟨"xsd", "http://www.w3.org/2001/XMLSchema"⟩]
    (m.tbl.get? "xsd").map Ns.uri = some "http://www.w3.org/2001/XMLSchema#" ∧
    (m.tbl.get? "xsd_1").map Ns.uri = some "http://www.w3.org/2001/XMLSchema" := by decide +kernel

example : (Sys.init.run (ctorOps [⟨"ex", "http://a/"⟩, ⟨"ex", "http://b/"⟩])).doc.tbl.get? "ex_1" = some ⟨"ex_1", "http://b/"⟩ := by
  decide +kernel

end Prov.C03

/-
  C08, one group on the heap: `mergeGroup` (re-create the first record of a group in a scratch bundle, then `add_attributes` of every other
  member onto the copy) allocates one fresh record cell, touches no other record cell, and — when it succeeds — that
  cell holds exactly the union of the members' (attribute, value) pairs: every pair of every member is represented,
  and nothing else is there.
-/
import Prov.Props.C08C
import Prov.Props.C08B
import Prov.Props.C05B
import Prov.Lemmas.Frame

namespace Prov.C08
open Prov Prov.Heap Prov.C05 Prov.C04 Prov.C09

def AllInv1 (h : Heap) : Prop := ∀ i, (h.mgrCell i).m.Inv1

theorem allInv1_setMgr {h : Heap} (hn : AllInv1 h) (c : Nat) (m : NsMgr) (hm : m.Inv1) : AllInv1 (h.setMgr c m) := by
  intro i
  rcases mgrCell_setMgr h c i m with e | e
  · rw [e]; exact hn i
  · rw [e]; exact hm

/-- the arguments `copy()` / the merge loop pass for a record -/
def argsOf (rc : Record) : List AttrArg := rc.flat.map (fun p => { name := .qn p.1, value := .val p.2 })

theorem argsOf_eq (rc : Record) : argsOf rc = rc.flat.map (fun p => toArg (p.1, some p.2)) := rfl

/-- all pairs of a record are of the right class (true of every stored record: C05) -/
def PairsOk (rc : Record) : Prop := ∀ p ∈ rc.flat, PairOk p.1 p.2 ∧ valOk p.2

/-- `target` holds the union of what it held and `src`'s pairs -/
structure Absorbed (before after src : Record) : Prop where
  kind : after.kind = before.kind
  id : after.id = before.id
  keeps : ∀ x ∈ before.flat, x ∈ after.flat
  takes : ∀ p ∈ src.flat, ∃ x ∈ after.flat, Stands x p.1 p.2
  only : ∀ x ∈ after.flat, x ∈ before.flat ∨ ∃ p ∈ src.flat, Stands x p.1 p.2

/-- `Record.addAttributes` with a record's own arguments, on any target -/
theorem addAttributes_absorbs (par : Option NsMgr) (m : NsMgr) (hm : m.Inv1) (target src : Record) (hok : PairsOk src)
    (m' : NsMgr) (r' : Record) (hres : Record.addAttributes par m target (argsOf src) = (m', r', none)) :
    m'.Inv1 ∧ Absorbed target r' src := by
  unfold Record.addAttributes at hres
  rw [argsOf_eq] at hres
  obtain ⟨h1, h2, h3, h4, h5, h6⟩ := loop_merge par _ src.flat m hm target hok m' r' hres
  exact ⟨h1, ⟨h2, h3, h4, h5, h6⟩⟩

theorem recCell_setRec_self (h : Heap) (r : Nat) (rc : Record) (hr : r < h.recs.size) :
    (h.setRec r rc).recCell r = { h.recCell r with r := rc } := by
  simp [setRec, recCell, Array.getD_eq_getD_getElem?, Array.getElem?_setIfInBounds, hr]

theorem recCell_setRec_other (h : Heap) (r r' : Nat) (rc : Record) (hne : r' ≠ r) : (h.setRec r rc).recCell r' = h.recCell r' := by
  simp [setRec, recCell, Array.getD_eq_getD_getElem?, Array.getElem?_setIfInBounds, Ne.symm hne]

/-- one step of the merge loop on the heap -/
theorem addAttributes_heap (h : Heap) (mref src : Nat) (hn : AllInv1 h) (hlt : mref < h.recs.size) (hne : src ≠ mref)
    (hok : PairsOk (h.recCell src).r) (h' : Heap)
    (hres : h.addAttributes mref (argsOf (h.recCell src).r) = (h', none)) :
    AllInv1 h' ∧ Absorbed (h.recCell mref).r (h'.recCell mref).r (h.recCell src).r ∧
      (∀ r, r ≠ mref → h'.recCell r = h.recCell r) ∧ (h'.recCell mref).bundle = (h.recCell mref).bundle ∧
      h'.recs.size = h.recs.size := by
  unfold addAttributes at hres
  simp only [] at hres
  generalize hra : Record.addAttributes (h.parentOf (h.recCell mref).bundle) (h.mgrOf (h.recCell mref).bundle)
    (h.recCell mref).r (argsOf (h.recCell src).r) = res at hres
  obtain ⟨m', rc, e⟩ := res
  simp only [Prod.mk.injEq] at hres
  obtain ⟨rfl, rfl⟩ := hres
  obtain ⟨hm', habs⟩ := addAttributes_absorbs _ _ (hn _) _ _ hok m' rc hra
  have hlt' : mref < (h.setMgr (h.recCell mref).bundle m').recs.size := by simpa [recs_setMgr] using hlt
  refine ⟨?_, ?_, ?_, ?_, ?_⟩
  · intro i
    rw [mgrCell_setRec]
    exact allInv1_setMgr hn _ m' hm' i
  · rw [recCell_setRec_self _ _ _ hlt']
    exact habs
  · intro r hr
    rw [recCell_setRec_other _ _ _ _ hr]
    rfl
  · rw [recCell_setRec_self _ _ _ hlt']
    rfl
  · simp [setRec, setMgr]

/-- `rc` holds exactly the union of the pairs of the `members` (as they are in heap `h0`) -/
structure MergedOf (h0 : Heap) (members : List Nat) (rc : Record) : Prop where
  all : ∀ r ∈ members, ∀ p ∈ (h0.recCell r).r.flat, ∃ x ∈ rc.flat, Stands x p.1 p.2
  only : ∀ x ∈ rc.flat, ∃ r ∈ members, ∃ p ∈ (h0.recCell r).r.flat, Stands x p.1 p.2

theorem mergedOf_absorb {h0 : Heap} {members : List Nat} {before after : Record} (src : Nat)
    (hm : MergedOf h0 members before) (ha : Absorbed before after (h0.recCell src).r) :
    MergedOf h0 (members ++ [src]) after := by
  constructor
  · intro r hr p hp
    rcases List.mem_append.mp hr with h1 | h1
    · obtain ⟨x, hx, hs⟩ := hm.all r h1 p hp
      exact ⟨x, ha.keeps x hx, hs⟩
    · simp only [List.mem_singleton] at h1
      subst h1
      exact ha.takes p hp
  · intro x hx
    rcases ha.only x hx with h1 | ⟨p, hp, hs⟩
    · obtain ⟨r, hr, p, hp, hs⟩ := hm.only x h1
      exact ⟨r, List.mem_append_left _ hr, p, hp, hs⟩
    · exact ⟨src, List.mem_append_right _ (by simp), p, hp, hs⟩

/-- the merge loop: every further member is absorbed into the copy; no other record cell is written -/
theorem mergeGo_content (h0 : Heap) (mref : Nat) : ∀ (rest : List Nat) (h : Heap) (done : List Nat),
    AllInv1 h → mref < h.recs.size →
    (∀ r ∈ rest, r ≠ mref ∧ h.recCell r = h0.recCell r ∧ PairsOk (h0.recCell r).r) →
    MergedOf h0 done (h.recCell mref).r →
    ∀ h', mergeGroup.go mref h rest = (h', none) →
      MergedOf h0 (done ++ rest) (h'.recCell mref).r ∧ (h'.recCell mref).r.kind = (h.recCell mref).r.kind ∧
      (h'.recCell mref).r.id = (h.recCell mref).r.id ∧ AllInv1 h' ∧ (∀ r, r ≠ mref → h'.recCell r = h.recCell r) ∧
      h'.recs.size = h.recs.size
  | [], h, done, hn, _, _, hm, h', hres => by
    simp only [mergeGroup.go, Prod.mk.injEq] at hres
    obtain ⟨rfl, _⟩ := hres
    exact ⟨by simpa using hm, rfl, rfl, hn, fun _ _ => rfl, rfl⟩
  | r :: more, h, done, hn, hlt, hsrc, hm, h', hres => by
    obtain ⟨hne, hsame, hok⟩ := hsrc r List.mem_cons_self
    unfold mergeGroup.go at hres
    simp only [] at hres
    have hargs : (h.recCell r).r.flat.map (fun p => ({ name := .qn p.1, value := .val p.2 } : AttrArg)) = argsOf (h.recCell r).r := rfl
    rw [hargs] at hres
    cases hstep : h.addAttributes mref (argsOf (h.recCell r).r) with
    | mk h1 e =>
      rw [hstep] at hres
      cases e with
      | some err => simp at hres
      | none =>
        simp only [] at hres
        obtain ⟨hn1, habs, hother, _, hsize⟩ := addAttributes_heap h mref r hn hlt hne (by rw [hsame]; exact hok) h1 hstep
        rw [hsame] at habs
        have hm1 := mergedOf_absorb r hm habs
        obtain ⟨g1, g2, g3, g4, g5, g6⟩ := mergeGo_content h0 mref more h1 (done ++ [r]) hn1 (by rw [hsize]; exact hlt)
          (fun r' hr' => by
            obtain ⟨a1, a2, a3⟩ := hsrc r' (List.mem_cons_of_mem _ hr')
            exact ⟨a1, by rw [hother r' a1]; exact a2, a3⟩)
          hm1 h' hres
        refine ⟨by simpa [List.append_assoc] using g1, g2.trans habs.kind, g3.trans habs.id, g4, ?_, g6.trans hsize⟩
        intro r' hr'
        rw [g5 r' hr', hother r' hr']

theorem recCell_push_self (h : Heap) (cell : RecCell) : ({ h with recs := h.recs.push cell } : Heap).recCell h.recs.size = cell := by
  simp [recCell, Array.getD_eq_getD_getElem?]

theorem recCell_push_lt (h : Heap) (cell : RecCell) (r : Nat) (hr : r < h.recs.size) :
    ({ h with recs := h.recs.push cell } : Heap).recCell r = h.recCell r := by
  simp [recCell, Array.getD_eq_getD_getElem?, Array.getElem?_push, Nat.ne_of_lt hr]

theorem allInv1_scratch (h : Heap) (hn : AllInv1 h) : AllInv1 (h.allocCont false none [] none).1 := by
  intro i
  simp only [Heap.allocCont, Heap.allocMgr, Heap.mgrCell, Array.getD_eq_getD_getElem?, Array.getElem?_push]
  split
  · simpa using C05.addNss_inv1 _ NsMgr.init_inv1 []
  · have := hn i
    simpa [Heap.mgrCell, Array.getD_eq_getD_getElem?] using this

/-- `mkRecord` with a record's own arguments, in any container: one fresh cell holding the source's pairs, nothing else
    written -/
theorem mkRecord_content (h : Heap) (c : Nat) (src : Record) (hn : AllInv1 h) (hok : PairsOk src) (h1 : Heap) (mref : Nat)
    (hres : h.mkRecord c src.kind src.id (argsOf src) = (h1, .ok mref)) :
    mref = h.recs.size ∧ h1.recs.size = h.recs.size + 1 ∧ AllInv1 h1 ∧
      Absorbed ⟨src.kind, src.id, []⟩ (h1.recCell mref).r src ∧
      (∀ r, r < h.recs.size → h1.recCell r = h.recCell r) := by
  unfold mkRecord at hres
  simp only [] at hres
  split at hres
  · cases hres
  · generalize hra : Record.addAttributes (h.parentOf c) (h.mgrOf c) ⟨src.kind, src.id, []⟩ (argsOf src) = res at hres
    obtain ⟨m', rc, e⟩ := res
    cases e with
    | some err => simp at hres
    | none =>
      simp only [Prod.mk.injEq, Except.ok.injEq] at hres
      obtain ⟨rfl, rfl⟩ := hres
      obtain ⟨hm', habs⟩ := addAttributes_absorbs _ _ (hn _) _ _ hok m' rc hra
      have hsz : (h.setMgr c m').recs.size = h.recs.size := by simp [recs_setMgr]
      refine ⟨hsz, by simp [setMgr], ?_, ?_, ?_⟩
      · intro i
        exact allInv1_setMgr hn _ m' hm' i
      · rw [hsz, ← hsz, recCell_push_self]
        exact habs
      · intro r hr
        rw [recCell_push_lt _ _ _ (by rw [hsz]; exact hr)]
        rfl

/-- `record.copy()` on the heap: one fresh cell holding the source's pairs, nothing else written -/
theorem copyRecord_content (h : Heap) (r0 : Nat) (hn : AllInv1 h) (hok : PairsOk (h.recCell r0).r) (h1 : Heap) (mref : Nat)
    (hres : h.copyRecord r0 = (h1, .ok mref)) :
    mref = h.recs.size ∧ h1.recs.size = h.recs.size + 1 ∧ AllInv1 h1 ∧
      Absorbed ⟨(h.recCell r0).r.kind, (h.recCell r0).r.id, []⟩ (h1.recCell mref).r (h.recCell r0).r ∧
      (∀ r, r < h.recs.size → h1.recCell r = h.recCell r) :=
  mkRecord_content h (h.recCell r0).bundle (h.recCell r0).r hn hok h1 mref hres

/-- the scratch copy that starts a merge: one fresh record cell (in a fresh container) holding the first member's pairs;
    no record cell that existed is written -/
theorem scratchCopy_content (h : Heap) (r0 : Nat) (hn : AllInv1 h) (hok : PairsOk (h.recCell r0).r) (h1 : Heap) (mref : Nat)
    (hres : h.scratchCopy r0 = (h1, .ok mref)) :
    mref = h.recs.size ∧ h1.recs.size = h.recs.size + 1 ∧ AllInv1 h1 ∧
      Absorbed ⟨(h.recCell r0).r.kind, (h.recCell r0).r.id, []⟩ (h1.recCell mref).r (h.recCell r0).r ∧
      (∀ r, r < h.recs.size → h1.recCell r = h.recCell r) := by
  unfold scratchCopy at hres
  simp only [] at hres
  have hn0 := allInv1_scratch h hn
  have hrecs : (h.allocCont false none [] none).1.recs = h.recs := rfl
  generalize h.allocCont false none [] none = al at hres hn0 hrecs
  obtain ⟨h0, sc⟩ := al
  simp only at hres hn0 hrecs
  obtain ⟨a1, a2, a3, a4, a5⟩ := mkRecord_content h0 sc (h.recCell r0).r hn0 hok h1 mref hres
  have hcell : ∀ r, h0.recCell r = h.recCell r := fun r => by simp [recCell, hrecs]
  refine ⟨by rw [a1, hrecs], by rw [a2, hrecs], a3, a4, fun r hr => ?_⟩
  rw [a5 r (by rw [hrecs]; exact hr), hcell]

/-- **`mergeGroup` on the heap**: for a group of existing records (distinct from one another is not needed) whose pairs
    are of the right classes, in a heap whose managers satisfy the C03 invariant, a successful merge allocates exactly one
    record cell — `mref = h.recs.size` — holding the kind and identifier of the first member and **exactly the union** of
    all members' pairs (each represented up to prefixes, nothing else present); every record cell that existed is unchanged -/
theorem c08_mergeGroup_content (h : Heap) (r0 : Nat) (rest : List Nat) (hn : AllInv1 h)
    (hex : ∀ r ∈ r0 :: rest, r < h.recs.size ∧ PairsOk (h.recCell r).r)
    (h' : Heap) (mref : Nat) (hres : h.mergeGroup (r0 :: rest) = (h', .ok mref)) :
    mref = h.recs.size ∧
    (h'.recCell mref).r.kind = (h.recCell r0).r.kind ∧ (h'.recCell mref).r.id = (h.recCell r0).r.id ∧
    MergedOf h (r0 :: rest) (h'.recCell mref).r ∧
    (∀ r, r < h.recs.size → h'.recCell r = h.recCell r) ∧ AllInv1 h' ∧ h'.recs.size = h.recs.size + 1 := by
  unfold mergeGroup at hres
  simp only [] at hres
  cases hc : h.scratchCopy r0 with
  | mk h1 e =>
    rw [hc] at hres
    cases e with
    | error err => simp at hres
    | ok m0 =>
      simp only [] at hres
      obtain ⟨hidx, hsize, hn1, habs, hkeep⟩ := scratchCopy_content h r0 hn (hex r0 List.mem_cons_self).2 h1 m0 hc
      cases hg : mergeGroup.go m0 h1 rest with
      | mk h2 e2 =>
        rw [hg] at hres
        cases e2 with
        | some err => simp at hres
        | none =>
          simp only [Prod.mk.injEq, Except.ok.injEq] at hres
          obtain ⟨rfl, rfl⟩ := hres
          have hm0 : MergedOf h [r0] (h1.recCell m0).r := by
            constructor
            · intro r hr p hp
              simp only [List.mem_singleton] at hr
              subst hr
              exact habs.takes p hp
            · intro x hx
              rcases habs.only x hx with h0' | ⟨p, hp, hs⟩
              · simp [Record.flat] at h0'
              · exact ⟨r0, by simp, p, hp, hs⟩
          obtain ⟨g1, g2, g3, g4, g5, g6⟩ := mergeGo_content h m0 rest h1 [r0] hn1 (by rw [hsize, hidx]; exact Nat.lt_succ_self _)
            (fun r hr => by
              obtain ⟨a1, a2⟩ := hex r (List.mem_cons_of_mem _ hr)
              exact ⟨by rw [hidx]; exact Nat.ne_of_lt a1, hkeep r a1, a2⟩)
            hm0 h2 hg
          refine ⟨hidx, g2.trans habs.kind, g3.trans habs.id, by simpa using g1, ?_, g4, g6.trans hsize⟩
          intro r hr
          rw [g5 r (by rw [hidx]; exact Nat.ne_of_lt hr), hkeep r hr]

theorem mergedOf_congr {h h0 : Heap} {g : List Nat} {rc : Record} (hsame : ∀ r ∈ g, h.recCell r = h0.recCell r)
    (hm : MergedOf h g rc) : MergedOf h0 g rc := by
  constructor
  · intro r hr p hp
    rw [← hsame r hr] at hp
    exact hm.all r hr p hp
  · intro x hx
    obtain ⟨r, hr, p, hp, hs⟩ := hm.only x hx
    exact ⟨r, hr, p, by rw [← hsame r hr]; exact hp, hs⟩

/-- what the merge table promises about heap `h'`, relative to the records as they were in `h0` -/
structure GoodMap (h0 h' : Heap) (gs : List (List Nat)) (mp : List (Nat × Nat)) : Prop where
  sound : ∀ e ∈ mp, ∃ g ∈ gs, e.1 ∈ g ∧ h0.recs.size ≤ e.2 ∧ e.2 < h'.recs.size ∧ MergedOf h0 g (h'.recCell e.2).r ∧
    (∀ r0 rest, g = r0 :: rest → (h'.recCell e.2).r.kind = (h0.recCell r0).r.kind ∧ (h'.recCell e.2).r.id = (h0.recCell r0).r.id)
  complete : ∀ g ∈ gs, ∀ r ∈ g, ∃ m, (r, m) ∈ mp

/-- **the merge pass of `_unified_records`**: after all groups have been merged, the table maps every member of every
    group to a fresh record that holds exactly the union of that group's pairs; records that existed are unchanged -/
theorem c08_mergeAll_content (h0 : Heap) : ∀ (gs : List (List Nat)) (h : Heap) (acc : List (Nat × Nat)) (done : List (List Nat)),
    AllInv1 h → (∀ r, r < h0.recs.size → h.recCell r = h0.recCell r) → h0.recs.size ≤ h.recs.size →
    (∀ g ∈ gs, g ≠ [] ∧ ∀ r ∈ g, r < h0.recs.size ∧ PairsOk (h0.recCell r).r) →
    GoodMap h0 h done acc →
    ∀ h' mp, unifiedRecords.mergeAll h acc gs = (h', .ok mp) →
      GoodMap h0 h' (done ++ gs) mp ∧ (∀ r, r < h0.recs.size → h'.recCell r = h0.recCell r) ∧ AllInv1 h'
  | [], h, acc, done, hn, hsame, _, _, hgm, h', mp, hres => by
    simp only [unifiedRecords.mergeAll, Prod.mk.injEq, Except.ok.injEq] at hres
    obtain ⟨rfl, rfl⟩ := hres
    exact ⟨by simpa using hgm, hsame, hn⟩
  | g :: gs, h, acc, done, hn, hsame, hle, hgs, hgm, h', mp, hres => by
    obtain ⟨hgne, hg⟩ := hgs g List.mem_cons_self
    unfold unifiedRecords.mergeAll at hres
    cases hmg : h.mergeGroup g with
    | mk h1 e =>
      rw [hmg] at hres
      cases e with
      | error err => simp at hres
      | ok mref =>
        simp only [] at hres
        cases g with
        | nil => exact absurd rfl hgne
        | cons r0 rest =>
          have hex : ∀ r ∈ r0 :: rest, r < h.recs.size ∧ PairsOk (h.recCell r).r := by
            intro r hr
            obtain ⟨a1, a2⟩ := hg r hr
            exact ⟨Nat.lt_of_lt_of_le a1 hle, by rw [hsame r a1]; exact a2⟩
          obtain ⟨hidx, hk, hid, hmer, hkeep, hn1, hsize1⟩ := c08_mergeGroup_content h r0 rest hn hex h1 mref hmg
          have hsame1 : ∀ r, r < h0.recs.size → h1.recCell r = h0.recCell r := fun r hr => by
            rw [hkeep r (Nat.lt_of_lt_of_le hr hle), hsame r hr]
          have hsz1 : h.recs.size ≤ h1.recs.size := by rw [hsize1]; exact Nat.le_succ _
          have hmer0 : MergedOf h0 (r0 :: rest) (h1.recCell mref).r :=
            mergedOf_congr (fun r hr => hsame r (hg r hr).1) hmer
          have hmlt : mref < h1.recs.size := by rw [hsize1, hidx]; exact Nat.lt_succ_self _
          -- the table entries for this group
          have hgm1 : GoodMap h0 h1 (done ++ [r0 :: rest]) (acc ++ (r0 :: rest).map (fun r => (r, mref))) := by
            constructor
            · intro e he
              rcases List.mem_append.mp he with h2 | h2
              · obtain ⟨g', hg', b1, b2, b3, b4, b5⟩ := hgm.sound e h2
                have hunch : h1.recCell e.2 = h.recCell e.2 := hkeep e.2 b3
                exact ⟨g', List.mem_append_left _ hg', b1, b2, Nat.lt_of_lt_of_le b3 hsz1, by rw [hunch]; exact b4,
                  fun r0' rest' hgeq => by rw [hunch]; exact b5 r0' rest' hgeq⟩
              · obtain ⟨r, hr, rfl⟩ := List.mem_map.mp h2
                refine ⟨r0 :: rest, List.mem_append_right _ (by simp), hr, by rw [hidx]; exact hle, hmlt, hmer0, ?_⟩
                intro r0' rest' hgeq
                cases hgeq
                rw [hk, hid, hsame r0 (hg r0 List.mem_cons_self).1]
                exact ⟨rfl, rfl⟩
            · intro g' hg' r hr
              rcases List.mem_append.mp hg' with h2 | h2
              · obtain ⟨m, hm⟩ := hgm.complete g' h2 r hr
                exact ⟨m, List.mem_append_left _ hm⟩
              · simp only [List.mem_singleton] at h2
                subst h2
                exact ⟨mref, List.mem_append_right _ (List.mem_map.mpr ⟨r, hr, rfl⟩)⟩
          obtain ⟨f1, f2, f3⟩ := c08_mergeAll_content h0 gs h1 _ (done ++ [r0 :: rest]) hn1 hsame1 (Nat.le_trans hle hsz1)
            (fun g' hg' => hgs g' (List.mem_cons_of_mem _ hg')) hgm1 h' mp hres
          exact ⟨by simpa [List.append_assoc] using f1, f2, f3⟩

/-- the groups `_unified_records` merges: per identifier, per kind, with at least two members -/
def groupsOf (h : Heap) (c : Nat) : List (List Nat) :=
  ((h.cont c).idMap.flatMap (fun e => (groupByKind h e.2).map (·.2))).filter (fun g => g.length > 1)

theorem groupsOf_members (h : Heap) (c : Nat) : ∀ g ∈ groupsOf h c, g ≠ [] ∧ ∀ r ∈ g, ∃ e ∈ (h.cont c).idMap, r ∈ e.2 := by
  intro g hg
  obtain ⟨hg1, hlen⟩ := List.mem_filter.mp hg
  obtain ⟨e, he, hge⟩ := List.mem_flatMap.mp hg1
  obtain ⟨kg, hkg, rfl⟩ := List.mem_map.mp hge
  refine ⟨?_, fun r hr => ⟨e, he, ((c08_groupByKind_spec h e.2).1 r).mp ⟨kg, hkg, hr⟩⟩⟩
  intro hnil
  rw [hnil] at hlen
  simp at hlen

/-- **`_unified_records` on the heap**: for a container whose indexed records exist and hold pairs of the right classes,
    in a heap whose managers satisfy the C03 invariant, a successful run returns the record list with each group replaced
    (at the place of its first member) by one fresh record that holds exactly the union of the group's pairs under the
    kind and identifier of the group's first member; no record that existed is written -/
theorem c08_unifiedRecords_content (h : Heap) (c : Nat) (hn : AllInv1 h)
    (hidx : ∀ e ∈ (h.cont c).idMap, ∀ r ∈ e.2, r < h.recs.size ∧ PairsOk (h.recCell r).r)
    (h' : Heap) (rs : List Nat) (hres : h.unifiedRecords c = (h', .ok rs)) :
    ∃ mp, rs = placeMerged mp (h.cont c).records ∧ GoodMap h h' (groupsOf h c) mp ∧
      (∀ r, r < h.recs.size → h'.recCell r = h.recCell r) ∧ AllInv1 h' ∧
      unifiedRecords.mergeAll h [] (groupsOf h c) = (h', .ok mp) := by
  unfold unifiedRecords at hres
  simp only [] at hres
  have hgroups : (((h.cont c).idMap.flatMap (fun e => (groupByKind h e.2).map (·.2))).filter (fun g => g.length > 1)) = groupsOf h c := rfl
  rw [hgroups] at hres
  cases hma : unifiedRecords.mergeAll h [] (groupsOf h c) with
  | mk h1 e =>
    rw [hma] at hres
    cases e with
    | error err => simp at hres
    | ok mp =>
      simp only [Prod.mk.injEq, Except.ok.injEq] at hres
      obtain ⟨rfl, rfl⟩ := hres
      obtain ⟨f1, f2, f3⟩ := c08_mergeAll_content h (groupsOf h c) h [] [] hn (fun _ _ => rfl) (Nat.le_refl _)
        (fun g hg => by
          obtain ⟨a1, a2⟩ := groupsOf_members h c g hg
          exact ⟨a1, fun r hr => by obtain ⟨e, he, hre⟩ := a2 r hr; exact hidx e he r hre⟩)
        ⟨fun e he => absurd he (by simp), fun g hg => absurd hg (by simp)⟩ h1 mp hma
      exact ⟨mp, rfl, by simpa using f1, f2, f3, rfl⟩

end Prov.C08

/-
  C16 — all source / destination kinds agree, and prov.read detects the format.

  The theorems are about the dispatch model `Prov/SourceIO.lean`; the dump / parse functions of the
  external libraries are parameters (`Ext`). Two facts about them are hypotheses where they are needed,
  and the harness validates both on every generated document:
    * `RdfTextBytes`: rdflib parses a text stream and the UTF-8 bytes of the same text alike;
    * `XmlTextBytes`: lxml's two writers (`tostring().decode()` for text targets, `ElementTree.write`
      for binary ones) produce documents that parse identically — the property's own wording for XML.
-/
import Prov.SourceIO
import Prov.Generated.Tables

namespace Prov.C16
open Prov.SourceIO

variable {Doc : Type}

/-- UTF-8: decode ∘ encode = id, for every string -/
theorem utf8_roundtrip (s : String) : decode s.toUTF8 = some s := by
  unfold decode String.fromUTF8?
  have h : s.toUTF8.IsValidUTF8 := s.isValidUTF8
  rw [dif_pos h]
  rfl

@[simp] theorem utf8_roundtrip' (s : String) : decode s.toByteArray = some s := utf8_roundtrip s

/-- … and encode ∘ decode = id where decode is defined -/
theorem decode_some (b : ByteArray) (s : String) (h : decode b = some s) : s.toUTF8 = b := by
  unfold decode String.fromUTF8? at h
  split at h
  · injection h with h; subst h; rfl
  · cases h

/-! ### destinations -/

/-- **the four destination kinds carry the same text** (json, rdf, provn): if the serializer produces text `t`,
    then `t` is returned, `t` is written to a text stream, and exactly the UTF-8 bytes of `t` are written to a
    binary stream and to the file -/
theorem c16_dest_agree (x : Ext Doc) (f : Fmt) (d : Doc) (t : String) (hf : f ≠ .xml)
    (ht : serText x f d = some t) :
    serialize x f d .ret = .returned t ∧ serialize x f d .textStream = .text t ∧
    serialize x f d .binStream = .bytes t.toUTF8 ∧ serialize x f d .path = .file t.toUTF8 := by
  have hb : serBytes x f d = t.toUTF8 := by
    cases f with
    | json => simp only [serText, Option.some.injEq] at ht; simp [serBytes, ht]
    | provn => simp only [serText, Option.some.injEq] at ht; simp [serBytes, ht]
    | rdf => simp only [serText] at ht; simp only [serBytes]; exact (decode_some _ _ ht).symm
    | xml => exact absurd rfl hf
  simp [serialize, ht, hb]

/-- XML: text targets get one text, binary targets one byte string -/
theorem c16_dest_agree_xml (x : Ext Doc) (d : Doc) :
    serialize x .xml d .ret = .returned (x.xmlOutText d) ∧ serialize x .xml d .textStream = .text (x.xmlOutText d) ∧
    serialize x .xml d .binStream = .bytes (x.xmlOutBytes d) ∧ serialize x .xml d .path = .file (x.xmlOutBytes d) := by
  simp [serialize, serText, serBytes]

/-- json and PROV-N never fail to produce text; rdf fails only if rdflib's output is not UTF-8 -/
theorem serText_total (x : Ext Doc) (f : Fmt) (d : Doc) (hrdf : (decode (x.rdfOut d)).isSome) :
    (serText x f d).isSome := by
  cases f <;> simp [serText, hrdf]

/-! ### sources -/

def RdfTextBytes (x : Ext Doc) (t : String) : Prop := x.rdfParseBytes t.toUTF8 = x.rdfParseText t

/-- the five source kinds a text `t` can be offered as; the file system holds its UTF-8 bytes under `p` -/
def sourcesOf (t : String) (p : String) : List Source :=
  [.contentStr t, .contentBytes t.toUTF8, .stream (.text t false), .stream (.bin t.toUTF8 false), .path p]

theorem deData_bytes_text (x : Ext Doc) (f : Fmt) (t : String) (h : RdfTextBytes x t) :
    deData x f (.bytes t.toUTF8) = deData x f (.text t) := by
  cases f with
  | json => simp [deData]
  | xml => simp [deData]
  | rdf => simpa [deData, RdfTextBytes] using h
  | provn => simp [deData]

/-- **the five source kinds yield the same document** (or all fail alike): content string, content bytes,
    text stream, binary stream, path -/
theorem c16_source_agree (x : Ext Doc) (fs : FS) (f : Fmt) (t p : String)
    (hfs : fs p = some t.toUTF8) (h : RdfTextBytes x t) :
    ∀ src ∈ sourcesOf t p, (deserialize x fs f src).1 = deData x f (.text t) := by
  intro src hsrc
  simp only [sourcesOf, List.mem_cons, List.mem_nil_iff, or_false] at hsrc
  rcases hsrc with rfl | rfl | rfl | rfl | rfl
  · simp [deserialize]
  · simp [deserialize]
  · cases f <;> simp [deserialize, consumes, Stream.read, deData]
  · cases hf : consumes f
    · cases f <;> simp_all [consumes, deserialize, deData]
    · simp only [deserialize, hf, if_true, Stream.read, Bool.false_eq_true, if_false]
      exact deData_bytes_text x f t h
  · simp only [deserialize, hfs, Option.bind_some]
    exact deData_bytes_text x f t h

/-- a stream that was read is at its end, whatever format was tried (PROV-N raises before reading) -/
theorem deserialize_stream_state (x : Ext Doc) (fs : FS) (f : Fmt) (st : Stream) (hf : consumes f = true) :
    ∃ st', (deserialize x fs f (.stream st)).2 = .stream st' ∧ st'.atEnd = true := by
  cases st <;> simp [deserialize, hf, Stream.read, Stream.atEnd]

/-! ### write, then read back: every destination kind × every source kind -/

def XmlTextBytes (x : Ext Doc) (d : Doc) : Prop := x.xmlParse (x.xmlOutText d).toUTF8 = x.xmlParse (x.xmlOutBytes d)

/-- what a destination received, offered back in each way that fits its type -/
def sourcesOfWritten (fs : FS) (p : String) : Written → List Source
  | .returned t => [.contentStr t, .stream (.text t false)]
  | .text t => [.contentStr t, .stream (.text t false)]
  | .bytes b => [.contentBytes b, .stream (.bin b false)]
  | .file b => if fs p = some b then [.path p, .contentBytes b, .stream (.bin b false)] else []
  | .raised => []

/-- **json / rdf: 4 destinations × 5 sources give one document** -/
theorem c16_write_read (x : Ext Doc) (fs : FS) (f : Fmt) (d : Doc) (t p : String) (hf : f ≠ .xml)
    (ht : serText x f d = some t) (h : RdfTextBytes x t) (dest : Dest) :
    ∀ src ∈ sourcesOfWritten fs p (serialize x f d dest), (deserialize x fs f src).1 = deData x f (.text t) := by
  obtain ⟨h1, h2, h3, h4⟩ := c16_dest_agree x f d t hf ht
  intro src hsrc
  cases dest with
  | ret =>
    rw [h1] at hsrc
    simp only [sourcesOfWritten, List.mem_cons, List.mem_nil_iff, or_false] at hsrc
    rcases hsrc with rfl | rfl
    · simp [deserialize]
    · cases f <;> simp [deserialize, consumes, Stream.read, deData]
  | textStream =>
    rw [h2] at hsrc
    simp only [sourcesOfWritten, List.mem_cons, List.mem_nil_iff, or_false] at hsrc
    rcases hsrc with rfl | rfl
    · simp [deserialize]
    · cases f <;> simp [deserialize, consumes, Stream.read, deData]
  | binStream =>
    rw [h3] at hsrc
    simp only [sourcesOfWritten, List.mem_cons, List.mem_nil_iff, or_false] at hsrc
    rcases hsrc with rfl | rfl
    · simp [deserialize]
    · cases hc : consumes f
      · cases f <;> simp_all [consumes, deserialize, deData]
      · simp only [deserialize, hc, if_true, Stream.read, Bool.false_eq_true, if_false]
        exact deData_bytes_text x f t h
  | path =>
    rw [h4] at hsrc
    simp only [sourcesOfWritten] at hsrc
    split at hsrc
    · next hfs =>
      simp only [List.mem_cons, List.mem_nil_iff, or_false] at hsrc
      rcases hsrc with rfl | rfl | rfl
      · simp only [deserialize, hfs, Option.bind_some]
        exact deData_bytes_text x f t h
      · simp [deserialize]
      · cases hc : consumes f
        · cases f <;> simp_all [consumes, deserialize, deData]
        · simp only [deserialize, hc, if_true, Stream.read, Bool.false_eq_true, if_false]
          exact deData_bytes_text x f t h
    · cases hsrc

/-- a byte string that decodes parses the same whether offered as bytes or as its decoded text -/
theorem xml_content_bytes (x : Ext Doc) (b : ByteArray) (s : String) (h : decode b = some s) :
    (decode b).bind (fun s => deData x .xml (.text s)) = x.xmlParse b := by
  rw [h]; simp only [Option.bind_some, deData]; rw [decode_some b s h]

/-- **XML: 4 destinations × 5 sources give one document**, given that lxml's two writers agree up to parsing
    and that its binary output is UTF-8 (it is written with `encoding="UTF-8"`) -/
theorem c16_write_read_xml (x : Ext Doc) (fs : FS) (d : Doc) (p : String)
    (hx : XmlTextBytes x d) (hu : (decode (x.xmlOutBytes d)).isSome) (dest : Dest) :
    ∀ src ∈ sourcesOfWritten fs p (serialize x .xml d dest),
      (deserialize x fs .xml src).1 = x.xmlParse (x.xmlOutBytes d) := by
  obtain ⟨h1, h2, h3, h4⟩ := c16_dest_agree_xml x d
  obtain ⟨s, hs⟩ := Option.isSome_iff_exists.mp hu
  intro src hsrc
  cases dest with
  | ret =>
    rw [h1] at hsrc
    simp only [sourcesOfWritten, List.mem_cons, List.mem_nil_iff, or_false] at hsrc
    rcases hsrc with rfl | rfl <;> simpa [deserialize, consumes, Stream.read, deData, XmlTextBytes] using hx
  | textStream =>
    rw [h2] at hsrc
    simp only [sourcesOfWritten, List.mem_cons, List.mem_nil_iff, or_false] at hsrc
    rcases hsrc with rfl | rfl <;> simpa [deserialize, consumes, Stream.read, deData, XmlTextBytes] using hx
  | binStream =>
    rw [h3] at hsrc
    simp only [sourcesOfWritten, List.mem_cons, List.mem_nil_iff, or_false] at hsrc
    rcases hsrc with rfl | rfl
    · simp only [deserialize]; exact xml_content_bytes x _ s hs
    · simp [deserialize, consumes, Stream.read, deData]
  | path =>
    rw [h4] at hsrc
    simp only [sourcesOfWritten] at hsrc
    split at hsrc
    · next hfs =>
      simp only [List.mem_cons, List.mem_nil_iff, or_false] at hsrc
      rcases hsrc with rfl | rfl | rfl
      · simp [deserialize, hfs, deData]
      · simp only [deserialize]; exact xml_content_bytes x _ s hs
      · simp [deserialize, consumes, Stream.read, deData]
    · cases hsrc

/-! ### prov.read -/

/-- with an explicit format `prov.read` is `deserialize` -/
theorem c16_read_explicit (x : Ext Doc) (fs : FS) (order : List Fmt) (src : Source) (f : Fmt) :
    read x fs order src (some f) = deserialize x fs f src := rfl

/-- what is tried on the content of a stream equals what an unread stream would have given each format -/
theorem content_of_stream (x : Ext Doc) (fs : FS) (f : Fmt) (t : String) :
    (deserialize x fs f (contentOf (Stream.read (.text t false)).1)).1 = deData x f (.text t) ∧
    (deserialize x fs f (contentOf (Stream.read (.bin t.toUTF8 false)).1)).1 = deData x f (.text t) := by
  constructor
  · simp [Stream.read, contentOf, deserialize]
  · simp [Stream.read, contentOf, deserialize]

/-- **format sniffing is one function of the text, for every source kind**: without a format, `prov.read`
    returns what the first format of the registry order that accepts the text makes of it — the same for a
    text stream, a binary stream and a path (a content string is not a source `prov.read` accepts) -/
theorem c16_read_sniffs (x : Ext Doc) (fs : FS) (order : List Fmt) (t p : String)
    (hfs : fs p = some t.toUTF8) (h : RdfTextBytes x t) :
    ∀ src ∈ [Source.stream (.text t false), .stream (.bin t.toUTF8 false), .path p],
      (read x fs order src none).1 = order.findSome? (fun f => deData x f (.text t)) := by
  intro src hsrc
  simp only [List.mem_cons, List.mem_nil_iff, or_false] at hsrc
  rcases hsrc with rfl | rfl | rfl
  · have e : (fun f => (deserialize x fs f (contentOf (Stream.read (.text t false)).1)).1) =
        fun f => deData x f (.text t) := funext fun f => (content_of_stream x fs f t).1
    show order.findSome? (fun f => (deserialize x fs f (contentOf (Stream.read (.text t false)).1)).1) = _
    rw [e]
  · have e : (fun f => (deserialize x fs f (contentOf (Stream.read (.bin t.toUTF8 false)).1)).1) =
        fun f => deData x f (.text t) := funext fun f => (content_of_stream x fs f t).2
    show order.findSome? (fun f => (deserialize x fs f (contentOf (Stream.read (.bin t.toUTF8 false)).1)).1) = _
    rw [e]
  · have e : (fun f => (deserialize x fs f (.path p)).1) = fun f => deData x f (.text t) := by
      funext f
      simp only [deserialize, hfs, Option.bind_some]
      exact deData_bytes_text x f t h
    show order.findSome? (fun f => (deserialize x fs f (.path p)).1) = _
    rw [e]

theorem findSome_first {α β} (l : List α) (g : α → Option β) (a : α) (b : β)
    (hmem : a ∈ l) (ha : g a = some b) (hbefore : ∀ a' ∈ l, a' ≠ a → g a' = none) : l.findSome? g = some b := by
  induction l with
  | nil => cases hmem
  | cons hd tl ih =>
    simp only [List.findSome?_cons]
    by_cases hhd : hd = a
    · subst hhd; rw [ha]
    · rw [hbefore hd List.mem_cons_self hhd]
      rcases List.mem_cons.mp hmem with rfl | hm
      · exact absurd rfl hhd
      · exact ih hm (fun a' ha' => hbefore a' (List.mem_cons_of_mem _ ha'))

/-- **prov.read detects the format**: when the text is a document of format `f` that no other format's reader
    accepts, `prov.read` without a format returns exactly what `deserialize(format=f)` returns, for every
    source kind, and leaves a stream consumed exactly once -/
theorem c16_read_detects (x : Ext Doc) (fs : FS) (order : List Fmt) (f : Fmt) (t p : String) (doc : Doc)
    (hfs : fs p = some t.toUTF8) (h : RdfTextBytes x t) (hf : f ∈ order)
    (hok : deData x f (.text t) = some doc)
    (hother : ∀ f' ∈ order, f' ≠ f → deData x f' (.text t) = none) :
    ∀ src ∈ [Source.stream (.text t false), .stream (.bin t.toUTF8 false), .path p],
      (read x fs order src none).1 = some doc ∧ (read x fs order src none).1 = (deserialize x fs f src).1 := by
  intro src hsrc
  have h1 := c16_read_sniffs x fs order t p hfs h src hsrc
  have h2 : order.findSome? (fun f => deData x f (.text t)) = some doc :=
    findSome_first order _ f doc hf hok hother
  refine ⟨h1.trans h2, ?_⟩
  rw [h1, h2]
  have hall := c16_source_agree x fs f t p hfs h src (by
    simp only [List.mem_cons, List.mem_nil_iff, or_false] at hsrc
    rcases hsrc with rfl | rfl | rfl <;> simp [sourcesOf])
  rw [hall, hok]

theorem c16_read_stream_consumed (x : Ext Doc) (fs : FS) (order : List Fmt) (st : Stream) :
    ∃ st', (read x fs order (.stream st) none).2 = .stream st' ∧ st'.atEnd = true := by
  cases st <;> simp [SourceIO.read, Stream.read, Stream.atEnd]

/-! ### the loop as it was is refuted in the model: a toy library where only "X" is XML and the empty text
    is an (empty) RDF document -/

def toy : Ext String where
  jsonDump := fun d => d
  jsonLoad := fun s => if s == "J" then some "json-doc" else none
  provnText := fun d => d
  rdfOut := fun d => d.toUTF8
  rdfParseText := fun s => if s == "" then some "empty-doc" else if s == "R" then some "rdf-doc" else none
  rdfParseBytes := fun b => if b == "".toUTF8 then some "empty-doc" else if b == "R".toUTF8 then some "rdf-doc" else none
  xmlOutText := fun d => d
  xmlOutBytes := fun d => d.toUTF8
  xmlParse := fun b => if b == "X".toUTF8 then some "xml-doc" else none

def order0 : List Fmt := [.json, .rdf, .provn, .xml]

/-- the order in which `prov.read` tries the formats is the order of `Registry.serializers` as regenerated from
    the live registry on this run -/
theorem t_registry_order : Prov.Gen.registry.map Fmt.ofName? = order0.map some := by decide

/-- the old loop hands the consumed stream to the RDF reader and returns an empty document for XML input -/
theorem c16_old_loop_refuted :
    (readOld toy (fun _ => none) order0 (.stream (.text "X" false))).1 = some "empty-doc" ∧
    (read toy (fun _ => none) order0 (.stream (.text "X" false)) none).1 = some "xml-doc" := by
  decide

/-- non-vacuity of `c16_read_detects`: the toy library meets its hypotheses for the XML text -/
example : deData toy .xml (.text "X") = some "xml-doc" ∧
    (∀ f' ∈ order0, f' ≠ .xml → deData toy f' (.text "X") = none) ∧ RdfTextBytes toy "X" := by
  refine ⟨by decide, ?_, by show toy.rdfParseBytes "X".toUTF8 = toy.rdfParseText "X"; decide⟩
  intro f' hf' hne
  cases f' <;> first | exact absurd rfl hne | decide

end Prov.C16

/-
  C18 — identifier lookup and typed listing agree with the record list.

  `_id_map` is a separate component of the container, updated only by `addRecordRaw`; the theorems
  show it is always the URI-indexed view of `_records`.
-/
import Prov.Lemmas.Record
import Prov.Heap

namespace Prov.C18
open Prov Heap

/-- the records of `rs` whose identifier has the URI of `q`, in order -/
def byId (ids : Nat → Option QName) (rs : List Nat) (q : QName) : List Nat :=
  rs.filter (fun r => match ids r with | some i => i.same q | none => false)

/-- `_id_map` agrees with `_records` -/
def Coherent (ids : Nat → Option QName) (rs : List Nat) (im : List (QName × List Nat)) : Prop :=
  ∀ q, idMapGet im q = byId ids rs q

theorem idMapGet_nil (q : QName) : idMapGet [] q = [] := rfl

theorem idMapGet_cons (k : QName) (rs : List Nat) (tl : List (QName × List Nat)) (q : QName) :
    idMapGet ((k, rs) :: tl) q = if k.same q = true then rs else idMapGet tl q := by
  unfold idMapGet
  rw [List.find?_cons]
  by_cases h : k.same q = true <;> simp [h]

/-- lookup after `_id_map[identifier].append(record)` -/
theorem c18_idmap_append (im : List (QName × List Nat)) (q q' : QName) (r : Nat) :
    idMapGet (idMapAppend im q r) q' =
      if q.uri = q'.uri then idMapGet im q' ++ [r] else idMapGet im q' := by
  induction im with
  | nil =>
    by_cases h : q.uri = q'.uri
    · simp [idMapAppend, idMapGet_cons, idMapGet_nil, QName.same_iff.mpr h, h]
    · have : q.same q' = false := QName.same_false_iff.mpr h
      simp [idMapAppend, idMapGet_cons, idMapGet_nil, this, h]
  | cons hd tl ih =>
    obtain ⟨k, rs⟩ := hd
    by_cases hk : k.same q = true
    · have hkq := QName.same_iff.mp hk
      by_cases h : q.uri = q'.uri
      · have : k.same q' = true := QName.same_iff.mpr (hkq.trans h)
        simp [idMapAppend, hk, idMapGet_cons, this, h]
      · have : k.same q' = false := QName.same_false_iff.mpr (fun e => h (hkq.symm.trans e))
        simp [idMapAppend, hk, idMapGet_cons, this, h]
    · have hk' : k.same q = false := by simpa using hk
      by_cases hkq' : k.same q' = true
      · have hne : q.uri ≠ q'.uri := by
          intro e
          have := QName.same_false_iff.mp hk'
          exact this ((QName.same_iff.mp hkq').trans e.symm)
        simp [idMapAppend, hk', idMapGet_cons, hkq', hne]
      · have hkq'' : k.same q' = false := by simpa using hkq'
        simp only [idMapAppend, hk', Bool.false_eq_true, if_false]
        rw [idMapGet_cons, idMapGet_cons]
        simp only [hkq'', Bool.false_eq_true, if_false]
        exact ih

/-- `_add_record` keeps the index coherent (identified and anonymous records) -/
theorem c18_coherent_add (ids : Nat → Option QName) (rs : List Nat) (im : List (QName × List Nat))
    (r : Nat) (h : Coherent ids rs im) :
    Coherent ids (rs ++ [r]) (match ids r with | some q => idMapAppend im q r | none => im) := by
  intro q'
  cases hid : ids r with
  | none =>
    simp only [byId, List.filter_append, List.filter_cons, List.filter_nil, hid]
    simpa [byId] using h q'
  | some q =>
    simp only [c18_idmap_append, byId, List.filter_append, List.filter_cons, List.filter_nil, hid]
    by_cases hu : q.uri = q'.uri
    · simp only [hu, if_true, QName.same_iff.mpr hu]
      have := h q'
      simp only [byId] at this
      rw [this]
    · have : q.same q' = false := QName.same_false_iff.mpr hu
      simp only [hu, if_false, this]
      have := h q'
      simp only [byId] at this
      simpa using this

/-- identifiers of the record cells of a heap -/
def idsOf (h : Heap) : Nat → Option QName := fun r => (h.recCell r).r.id

/-- container `c` of heap `h` is coherent -/
def CohCont (h : Heap) (c : Nat) : Prop := Coherent (idsOf h) (h.cont c).records (h.cont c).idMap

theorem cont_setMgr (h : Heap) (c c' : Nat) (m : NsMgr) : (h.setMgr c m).cont c' = h.cont c' := rfl
theorem recCell_setMgr (h : Heap) (c r : Nat) (m : NsMgr) : (h.setMgr c m).recCell r = h.recCell r := rfl

/-- `addRecordRaw` on a valid container keeps it coherent -/
theorem addRecordRaw_coherent (h : Heap) (c r : Nat) (hc : c < h.conts.size) (hcoh : CohCont h c) :
    CohCont (h.addRecordRaw c r) c := by
  unfold CohCont
  have hrec : idsOf (h.addRecordRaw c r) = idsOf h := rfl
  have hcont : (h.addRecordRaw c r).cont c =
      { h.cont c with records := (h.cont c).records ++ [r],
                      idMap := (match (h.recCell r).r.id with
                                | some q => idMapAppend (h.cont c).idMap q r
                                | none => (h.cont c).idMap) } := by
    simp only [Heap.addRecordRaw, Heap.setCont, Heap.cont]
    simp only [Array.getD_eq_getD_getElem?, Array.getElem?_setIfInBounds_self_of_lt hc, Option.getD_some]
    cases (h.recCell r).r.id <;> rfl
  rw [hrec, hcont]
  exact c18_coherent_add (idsOf h) _ _ r hcoh

/-- an empty container is coherent -/
theorem empty_coherent (ids : Nat → Option QName) : Coherent ids [] [] := by
  intro q; rfl

/-- **C18**: on a coherent container `get_record(x)` returns exactly the records whose identifier URI
    is the URI of the name `x` resolves to, in insertion order (any spelling: the lookup key is the URI) -/
theorem c18_get_record (h : Heap) (c : Nat) (x : NameArg) (hx : x ≠ .nil) (hcoh : CohCont h c) :
    (h.getRecord c x).2 =
      some (match (h.validName c x).2 with
            | some q => byId (idsOf h) (h.cont c).records q
            | none => []) := by
  unfold Heap.getRecord
  cases x with
  | nil => exact absurd rfl hx
  | qn q0 =>
    simp only []
    cases hq : (h.validName c (.qn q0)).2 with
    | none => simp [hq]
    | some q =>
      simp only [hq]
      have : (h.validName c (.qn q0)).1.cont c = h.cont c := by
        simp [Heap.validName, cont_setMgr]
      rw [this]
      exact congrArg some (hcoh q)
  | str s =>
    simp only []
    cases hq : (h.validName c (.str s)).2 with
    | none => simp [hq]
    | some q =>
      simp only [hq]
      have : (h.validName c (.str s)).1.cont c = h.cont c := by
        simp [Heap.validName, cont_setMgr]
      rw [this]
      exact congrArg some (hcoh q)

/-- two spellings that resolve to names with one URI select the same records -/
theorem c18_spelling_independent (ids : Nat → Option QName) (rs : List Nat) (q q' : QName)
    (h : q.uri = q'.uri) : byId ids rs q = byId ids rs q' := by
  unfold byId
  congr 1
  funext r
  cases ids r with
  | none => rfl
  | some i => simp [QName.same, h]

/-- `get_records(cls)` is the class filter of the record list (by definition of the model; the
    class table itself is obligation `t_bases` in Props/Tables) -/
theorem c18_get_records (h : Heap) (c : Nat) (f : ClsFilter) :
    h.getRecords c f = (h.cont c).records.filter (fun r => f.accepts (h.recCell r).r.kind) := rfl


/-! ### every reachable heap is coherent: `new_record` (and hence every factory, `add_record`,
    `update`, the constructors, `unified`, `flattened`, which only insert through it) -/

theorem byId_congr (ids ids' : Nat → Option QName) (rs : List Nat) (q : QName)
    (h : ∀ r ∈ rs, ids r = ids' r) : byId ids rs q = byId ids' rs q := by
  unfold byId
  apply List.filter_congr
  intro r hr
  rw [h r hr]

/-- all containers coherent, and every record reference is allocated -/
def WF (h : Heap) : Prop :=
  ∀ c, c < h.conts.size → CohCont h c ∧ ∀ r ∈ (h.cont c).records, r < h.recs.size

theorem wf_setMgr {h : Heap} (hw : WF h) (c : Nat) (m : NsMgr) : WF (h.setMgr c m) := hw

theorem recCell_push_lt (h : Heap) (cell : RecCell) (r : Nat) (hr : r < h.recs.size) :
    ({ h with recs := h.recs.push cell } : Heap).recCell r = h.recCell r := by
  simp [Heap.recCell, Array.getD_eq_getD_getElem?, Array.getElem?_push, Nat.ne_of_lt hr]

theorem wf_push_rec {h : Heap} (hw : WF h) (cell : RecCell) :
    WF { h with recs := h.recs.push cell } := by
  intro c hc
  obtain ⟨hcoh, hlt⟩ := hw c hc
  refine ⟨?_, fun r hr => by
    show r < (h.recs.push cell).size
    rw [Array.size_push]; exact Nat.lt_succ_of_lt (hlt r hr)⟩
  intro q
  have := hcoh q
  show idMapGet (h.cont c).idMap q = byId _ (h.cont c).records q
  rw [this]
  apply byId_congr
  intro r hr
  simp only [idsOf]
  rw [recCell_push_lt h cell r (hlt r hr)]

theorem wf_addRecordRaw {h : Heap} (hw : WF h) (c r : Nat) (hc : c < h.conts.size) (hr : r < h.recs.size) :
    WF (h.addRecordRaw c r) := by
  intro c' hc'
  have hsize : (h.addRecordRaw c r).conts.size = h.conts.size := by
    simp [Heap.addRecordRaw, Heap.setCont]
  rw [hsize] at hc'
  by_cases hcc : c' = c
  · subst hcc
    refine ⟨addRecordRaw_coherent h c' r hc (hw c' hc).1, ?_⟩
    intro r' hr'
    have hcont : ((h.addRecordRaw c' r).cont c').records = (h.cont c').records ++ [r] := by
      simp only [Heap.addRecordRaw, Heap.setCont, Heap.cont]
      simp only [Array.getD_eq_getD_getElem?, Array.getElem?_setIfInBounds_self_of_lt hc, Option.getD_some]
    rw [hcont] at hr'
    simp only [List.mem_append, List.mem_singleton] at hr'
    rcases hr' with hr' | rfl
    · exact (hw c' hc).2 r' hr'
    · exact hr
  · have hcont : (h.addRecordRaw c r).cont c' = h.cont c' := by
      simp only [Heap.addRecordRaw, Heap.setCont, Heap.cont, Array.getD_eq_getD_getElem?]
      rw [Array.getElem?_setIfInBounds_ne (Ne.symm hcc)]
    unfold CohCont
    rw [hcont]
    exact hw c' hc'

theorem mkRecord_wf {h : Heap} (hw : WF h) (c : Nat) (k : RecKind) (id : Option QName)
    (attrs : List AttrArg) :
    WF (h.mkRecord c k id attrs).1 ∧ (h.mkRecord c k id attrs).1.conts.size = h.conts.size ∧
    ∀ r, (h.mkRecord c k id attrs).2 = .ok r → r < (h.mkRecord c k id attrs).1.recs.size := by
  unfold Heap.mkRecord
  split
  · exact ⟨hw, rfl, fun r hr => by cases hr⟩
  · simp only []
    generalize Record.addAttributes (h.parentOf c) (h.mgrOf c) _ attrs = res
    obtain ⟨m', rc, e⟩ := res
    cases e with
    | some err => exact ⟨wf_setMgr hw _ _, rfl, fun r hr => by cases hr⟩
    | none =>
      refine ⟨wf_push_rec (wf_setMgr hw c m') ⟨c, rc⟩, rfl, ?_⟩
      intro r hr
      simp only [Except.ok.injEq] at hr
      subst hr
      simp [Heap.setMgr]

theorem addRecordRaw_size (h : Heap) (c r : Nat) : (h.addRecordRaw c r).conts.size = h.conts.size := by
  simp [Heap.addRecordRaw, Heap.setCont]

theorem addRecordRaw_recs (h : Heap) (c r : Nat) : (h.addRecordRaw c r).recs = h.recs := rfl

/-- **C18**, reachability: `new_record` keeps every container of the heap coherent, whether it
    succeeds or raises -/
theorem c18_newRecord_wf {h : Heap} (hw : WF h) (c : Nat) (hc : c < h.conts.size) (k : RecKind)
    (idArg : NameArg) (attrs : List AttrArg) :
    WF (h.newRecord c k idArg attrs).1 ∧ (h.newRecord c k idArg attrs).1.conts.size = h.conts.size := by
  unfold Heap.newRecord
  simp only [Heap.validName]
  generalize hh1 : h.setMgr c ((h.mgrOf c).validName (h.parentOf c) idArg).1 = h1
  have hw1 : WF h1 := by rw [← hh1]; exact wf_setMgr hw _ _
  have hc1 : h1.conts.size = h.conts.size := by rw [← hh1]; rfl
  obtain ⟨hwm, hsz, hlt⟩ := mkRecord_wf hw1 c k ((h.mgrOf c).validName (h.parentOf c) idArg).2 attrs
  generalize h1.mkRecord c k ((h.mgrOf c).validName (h.parentOf c) idArg).2 attrs = res at hwm hsz hlt
  obtain ⟨h2, e⟩ := res
  cases e with
  | error err => exact ⟨hwm, by simpa [hc1] using hsz⟩
  | ok r =>
    simp only []
    have hc2 : c < h2.conts.size := by simp only at hsz; rw [hsz, hc1]; exact hc
    refine ⟨wf_addRecordRaw hwm c r hc2 (hlt r rfl), ?_⟩
    rw [addRecordRaw_size]; simp only at hsz; rw [hsz, hc1]

/-- `add_record` for a whole list (the body of `update`, the constructors, `unified`, `flattened`) -/
theorem c18_addRecords_wf {h : Heap} (hw : WF h) (c : Nat) (hc : c < h.conts.size) (rs : List Nat) :
    WF (h.addRecords c rs).1 := by
  induction rs generalizing h with
  | nil => exact hw
  | cons r rest ih =>
    unfold Heap.addRecords
    obtain ⟨hstep, hsz⟩ := c18_newRecord_wf hw c hc (h.recCell r).r.kind (recreateArgs (h.recCell r).r).1
      (recreateArgs (h.recCell r).r).2
    simp only [Heap.addRecord]
    generalize h.newRecord c (h.recCell r).r.kind (recreateArgs (h.recCell r).r).1
      (recreateArgs (h.recCell r).r).2 = res at hstep hsz
    obtain ⟨h1, e⟩ := res
    cases e with
    | error err => exact hstep
    | ok nr =>
      simp only []
      exact ih hstep (by simp only at hsz; rw [hsz]; exact hc)

/-- a fresh container (document, bundle, result of unified/flattened before records are added) -/
theorem c18_allocCont_wf {h : Heap} (hw : WF h) (isDoc : Bool) (id : Option QName) (nss : List Ns)
    (doc : Option Nat) : WF (h.allocCont isDoc id nss doc).1 := by
  intro c hc
  simp only [Heap.allocCont, Heap.allocMgr] at hc ⊢
  simp only [Array.size_push] at hc
  by_cases hlt : c < h.conts.size
  · obtain ⟨hcoh, hr⟩ := hw c hlt
    refine ⟨?_, ?_⟩
    · intro q
      have := hcoh q
      simp only [Heap.cont, Array.getD_eq_getD_getElem?, Array.getElem?_push, Nat.ne_of_lt hlt, if_false] at this ⊢
      exact this
    · intro r hrm
      simp only [Heap.cont, Array.getD_eq_getD_getElem?, Array.getElem?_push, Nat.ne_of_lt hlt, if_false] at hrm
      exact hr r (by simpa [Heap.cont, Array.getD_eq_getD_getElem?] using hrm)
  · have hceq : c = h.conts.size := by omega
    subst hceq
    refine ⟨?_, ?_⟩
    · intro q
      simp [Heap.cont, Array.getD_eq_getD_getElem?, idMapGet, byId]
    · intro r hrm
      simp [Heap.cont, Array.getD_eq_getD_getElem?] at hrm

theorem wf_empty : WF Heap.empty := by
  intro c hc
  simp [Heap.empty] at hc

/-- non-vacuity: a two-record container built by `addRecordRaw` is coherent -/
example : Coherent (fun r => if r = 0 then some ⟨⟨"ex", "http://e/"⟩, "a"⟩ else none) [0, 1]
    [(⟨⟨"ex", "http://e/"⟩, "a"⟩, [0])] := by
  have h0 := c18_coherent_add (fun r => if r = 0 then some ⟨⟨"ex", "http://e/"⟩, "a"⟩ else none) [] [] 0
    (empty_coherent _)
  have h1 := c18_coherent_add _ _ _ 1 h0
  simpa [idMapAppend] using h1

end Prov.C18

/-
  C03 — Qualified names keep their URI and stay unambiguous under any namespace history.

  System: one document manager and any number of bundle managers that read it as parent.
  Property theorems only; helper lemmas live in Prov/Lemmas.
-/
import Prov.Lemmas.Owns
import Prov.Lemmas.Text

namespace Prov.C03
open Prov Text

/-- scopes: the document (`none`) or its i-th bundle -/
abbrev Scope := Option Nat

structure Sys where
  doc : NsMgr
  buns : List NsMgr

inductive Op where
  | addNs (t : Scope) (n : Ns)
  | setDefault (t : Scope) (u : String)
  | vqn (t : Scope) (x : NameArg)
  | newBundle

def Sys.init : Sys := ⟨NsMgr.init, []⟩

def Sys.mgr (s : Sys) : Scope → NsMgr
  | none => s.doc
  | some i => s.buns.getD i NsMgr.init

def Sys.parent (s : Sys) : Scope → Option NsMgr
  | none => none
  | some _ => some s.doc

def Sys.setMgr (s : Sys) (t : Scope) (m : NsMgr) : Sys :=
  match t with
  | none => { s with doc := m }
  | some i => { s with buns := s.buns.set i m }

/-- one API call; the second component is the name handed out, if any -/
def Sys.step (s : Sys) : Op → Sys × Option QName
  | .addNs t n => (s.setMgr t ((s.mgr t).addNs n).1, none)
  | .setDefault t u => (s.setMgr t ((s.mgr t).setDefault u), none)
  | .vqn t x =>
    let r := (s.mgr t).validName (s.parent t) x
    (s.setMgr t r.1, r.2)
  | .newBundle => ({ s with buns := s.buns ++ [NsMgr.init] }, none)

def Sys.run (s : Sys) (ops : List Op) : Sys := ops.foldl (fun s op => (s.step op).1) s

/-- usage discipline needed by the invariants: `add_namespace` is not called with an empty prefix -/
def Op.ok : Op → Prop
  | .addNs _ n => n.pfx ≠ ""
  | _ => True

def Sys.Inv (s : Sys) : Prop :=
  (s.doc.Inv1 ∧ s.doc.Inv2) ∧ ∀ m ∈ s.buns, m.Inv1 ∧ m.Inv2

def Sys.ValidScope (s : Sys) : Scope → Prop
  | none => True
  | some i => i < s.buns.length

theorem Sys.mgr_setMgr (s : Sys) (t t' : Scope) (m : NsMgr) :
    ((s.setMgr t m).mgr t' = m ∧ t = t' ∧ s.ValidScope t) ∨ (s.setMgr t m).mgr t' = s.mgr t' := by
  cases t with
  | none =>
    cases t' with
    | none => exact Or.inl ⟨rfl, rfl, trivial⟩
    | some j => exact Or.inr rfl
  | some i =>
    cases t' with
    | none => exact Or.inr rfl
    | some j =>
      simp only [Sys.setMgr, Sys.mgr, List.getD_eq_getElem?_getD]
      by_cases hij : i = j
      · subst hij
        by_cases hlt : i < s.buns.length
        · left
          refine ⟨by simp [hlt], rfl, hlt⟩
        · right
          rw [List.set_eq_of_length_le (by omega)]
      · right
        simp [List.getElem?_set, hij]

theorem Sys.mgr_setMgr_same (s : Sys) (t : Scope) (m : NsMgr) (hv : s.ValidScope t) :
    (s.setMgr t m).mgr t = m := by
  cases t with
  | none => rfl
  | some i =>
    simp only [Sys.ValidScope] at hv
    simp [Sys.setMgr, Sys.mgr, hv]

theorem Sys.mgr_inv {s : Sys} (h : s.Inv) (t : Scope) : (s.mgr t).Inv1 ∧ (s.mgr t).Inv2 := by
  cases t with
  | none => exact h.1
  | some i =>
    simp only [Sys.mgr, List.getD_eq_getElem?_getD]
    cases hi : s.buns[i]? with
    | none => exact ⟨NsMgr.init_inv1, NsMgr.init_inv2⟩
    | some m => exact h.2 m (List.mem_of_getElem? hi)

theorem Sys.setMgr_inv {s : Sys} (h : s.Inv) (t : Scope) {m : NsMgr} (hm : m.Inv1 ∧ m.Inv2) :
    (s.setMgr t m).Inv := by
  cases t with
  | none => exact ⟨hm, h.2⟩
  | some i =>
    refine ⟨h.1, ?_⟩
    intro m' hm'
    simp only [Sys.setMgr] at hm'
    rcases List.mem_or_eq_of_mem_set hm' with h' | rfl
    · exact h.2 m' h'
    · exact hm

theorem Sys.init_inv : Sys.init.Inv :=
  ⟨⟨NsMgr.init_inv1, NsMgr.init_inv2⟩, by simp [Sys.init]⟩

theorem validName_inv2 {m : NsMgr} (h : m.Inv2) (par : Option NsMgr) (x : NameArg) :
    (m.validName par x).1.Inv2 := by
  unfold NsMgr.validName
  split
  · exact h
  · exact NsMgr.validQ_inv2 h _
  · exact h

theorem Sys.step_inv {s : Sys} (h : s.Inv) (op : Op) (hop : op.ok) : (s.step op).1.Inv := by
  cases op with
  | addNs t n =>
    have := Sys.mgr_inv h t
    exact Sys.setMgr_inv h t ⟨NsMgr.addNs_inv1 this.1 n, NsMgr.addNs_inv2 this.2 n hop⟩
  | setDefault t u =>
    have := Sys.mgr_inv h t
    exact Sys.setMgr_inv h t ⟨NsMgr.setDefault_inv1 this.1 u, NsMgr.setDefault_inv2 this.2 u⟩
  | vqn t x =>
    have := Sys.mgr_inv h t
    exact Sys.setMgr_inv h t ⟨NsMgr.validName_inv1 this.1 _ x, validName_inv2 this.2 _ x⟩
  | newBundle =>
    refine ⟨h.1, ?_⟩
    intro m hm
    simp only [Sys.step, List.mem_append, List.mem_singleton] at hm
    rcases hm with hm | rfl
    · exact h.2 m hm
    · exact ⟨NsMgr.init_inv1, NsMgr.init_inv2⟩

/-- the invariants hold in every state reachable by a disciplined history, of any length -/
theorem inv_reachable (ops : List Op) (hops : ∀ op ∈ ops, op.ok) : (Sys.init.run ops).Inv := by
  suffices ∀ s : Sys, s.Inv → (s.run ops).Inv from this _ Sys.init_inv
  induction ops with
  | nil => intro s h; exact h
  | cons op rest ih =>
    intro s h
    exact ih (fun o ho => hops o (List.mem_cons_of_mem _ ho)) _
      (Sys.step_inv h op (hops op List.mem_cons_self))

/-- **C03 (a)**: in every reachable state, resolving a `QualifiedName` in any scope returns a
    name with the same URI. -/
theorem c03a_uri_preserved (ops : List Op) (hops : ∀ op ∈ ops, op.ok) (t : Scope) (q : QName) :
    ∃ q', ((Sys.init.run ops).step (.vqn t (.qn q))).2 = some q' ∧ q'.uri = q.uri := by
  have hinv := Sys.mgr_inv (inv_reachable ops hops) t
  refine ⟨((Sys.init.run ops).mgr t |>.validQ q).2, rfl, ?_⟩
  exact NsMgr.validQ_uri hinv.1 q

/-- **C03 (b)**, one step: a non-empty prefix bound in scope `t'` is bound to the same namespace
    after any operation on any scope. -/
theorem c03b_prefix_stable_step (s : Sys) (op : Op) (t' : Scope) (p : String) (e : Ns)
    (hp : p ≠ "") (hb : (s.mgr t').tbl.get? p = some e) :
    ((s.step op).1.mgr t').tbl.get? p = some e := by
  have key : ∀ (t : Scope) (m' : NsMgr), ((s.mgr t).tbl.get? p = some e → m'.tbl.get? p = some e) →
      ((s.setMgr t m').mgr t').tbl.get? p = some e := by
    intro t m' hm'
    rcases Sys.mgr_setMgr s t t' m' with ⟨h1, h2, _⟩ | h1
    · rw [h1]; subst h2; exact hm' hb
    · rw [h1]; exact hb
  cases op with
  | addNs t n => exact key t _ (fun h => NsMgr.addNs_stable n h)
  | setDefault t u => exact key t _ (fun h => NsMgr.setDefault_stable u hp h)
  | vqn t x =>
    refine key t _ (fun h => ?_)
    unfold NsMgr.validName
    split
    · exact h
    · exact NsMgr.validQ_stable _ hp h
    · exact h
  | newBundle =>
    cases t' with
    | none => exact hb
    | some j =>
      simp only [Sys.step, Sys.mgr, List.getD_eq_getElem?_getD] at hb ⊢
      by_cases hj : j < s.buns.length
      · simp [List.getElem?_append_left hj]; exact hb
      · have hnone : s.buns[j]? = none := List.getElem?_eq_none (by omega)
        simp only [hnone, Option.getD_none] at hb
        by_cases hj' : j = s.buns.length
        · subst hj'; simp; exact hb
        · have : (s.buns ++ [NsMgr.init])[j]? = none := List.getElem?_eq_none (by simp; omega)
          simp [this]; exact hb

/-- **C03 (b)** over whole histories: a registered non-empty prefix is never re-pointed. -/
theorem c03b_prefix_stable (s : Sys) (ops : List Op) (t' : Scope) (p : String) (e : Ns)
    (hp : p ≠ "") (hb : (s.mgr t').tbl.get? p = some e) :
    ((s.run ops).mgr t').tbl.get? p = some e := by
  induction ops generalizing s with
  | nil => exact hb
  | cons op rest ih => exact ih _ (c03b_prefix_stable_step s op t' p e hp hb)

/-- **C03 (b)**, clash case: when the requested prefix is already bound to another namespace and
    the URI is new, `add_namespace` answers with a prefix that was not bound before. -/
theorem c03b_clash_fresh (m : NsMgr) (n : Ns)
    (h1 : n ∉ m.tbl.values) (h2 : lookupRename m.rename n = none)
    (h3 : m.uriMap.get? n.uri = none) (h4 : m.tbl.contains n.pfx = true) :
    m.tbl.contains (m.addNs n).2.pfx = false ∧ (m.addNs n).2.uri = n.uri := by
  unfold NsMgr.addNs
  simp [h1, h2, h3, h4, NsMgr.unusedPrefix_fresh]

theorem startsWith_us_colon_false (p l : List Char) (hp : p ≠ ['_']) (hc : ':' ∉ p) :
    startsWith (p ++ ':' :: l) ['_', ':'] = false := by
  match p with
  | [] => simp [startsWith, dropPrefix?]
  | [c] =>
    have : c ≠ '_' := fun e => hp (by rw [e])
    simp [startsWith, dropPrefix?, Ne.symm this]
  | c :: d :: rest =>
    simp only [List.mem_cons, not_or] at hc
    by_cases h1 : c = '_'
    · simp [startsWith, dropPrefix?, h1, hc.2.1]
    · simp [startsWith, dropPrefix?, Ne.symm h1]

/-- core of (c): a manager reads its own print form of an owned name back as the same name -/
theorem owns_resolveOwn (m : NsMgr) (q : QName) (hown : m.Owns q) (hwf : WfName q) :
    m.resolveOwn q.print = some q ∧ q.print ≠ "" ∧ sStartsWith q.print "_:" = false := by
  obtain ⟨hcolon, hus, hbare⟩ := hwf
  rcases hown with ⟨hne, hb⟩ | ⟨he, hd⟩
  · have hprint : q.print = q.ns.pfx ++ ":" ++ q.loc := by simp [QName.print, hne]
    have hlist : q.print.toList = q.ns.pfx.toList ++ ':' :: q.loc.toList := by
      rw [hprint]; simp [String.toList_append]
    have hsplit := splitAt1_append ':' q.ns.pfx.toList q.loc.toList hcolon
    have hnotus : sStartsWith q.print "_:" = false := by
      unfold sStartsWith
      rw [hlist]
      apply startsWith_us_colon_false _ _ _ hcolon
      intro hh
      apply hus
      exact String.toList_inj.mp (by simpa using hh)
    have hnonempty : q.print ≠ "" := by
      intro hh
      have := congrArg String.toList hh
      rw [hlist] at this
      simp at this
    refine ⟨?_, hnonempty, hnotus⟩
    unfold NsMgr.resolveOwn
    rw [hlist, hsplit]
    simp [hb]
  · obtain ⟨hc, hl, hs⟩ := hbare he
    have hprint : q.print = q.loc := by simp [QName.print, he]
    rw [hprint]
    refine ⟨?_, hl, hs⟩
    unfold NsMgr.resolveOwn
    rw [splitAt1_none ':' _ hc]
    simp only [hd, Option.map_some]

/-- **C03 (c), one scope**: a name owned by a manager, printed and resolved again by the same
    manager (whatever its parent), is read back as exactly the same name — hence the same URI. -/
theorem c03c_print_resolve (par : Option NsMgr) (m : NsMgr) (q : QName)
    (hown : m.Owns q) (hwf : WfName q) : m.resolveStr par q.print = some q := by
  obtain ⟨h1, h2, h3⟩ := owns_resolveOwn m q hown hwf
  unfold NsMgr.resolveStr
  simp [h1, h2, h3]

/-- **C03 (c), two levels, partial**: a name a bundle obtained from its parent document is read
    back unchanged as long as the bundle itself cannot resolve the print form (`NoShadow`: the
    bundle binds neither the prefix nor, through URI compaction or a default namespace, the text). -/
theorem c03c_two_level_partial (par m : NsMgr) (q : QName) (hpar : par.Owns q) (hwf : WfName q)
    (hnoshadow : m.resolveOwn q.print = none) : m.resolveStr (some par) q.print = some q := by
  obtain ⟨h1, h2, h3⟩ := owns_resolveOwn par q hpar hwf
  unfold NsMgr.resolveStr
  simp [hnoshadow, h1, h2, h3]

/-- The full two-level statement of (c) — *every* name handed out in a bundle scope keeps its URI
    when printed and resolved again after any later history — is **false** for today's code.
    Witness: the bundle hands out `ex:x` through its parent, then binds `ex` itself. -/
def witnessOps : List Op :=
  [.addNs none ⟨"ex", "http://a/"⟩, .newBundle, .vqn (some 0) (.str "ex:x"),
   .addNs (some 0) ⟨"ex", "http://other/"⟩]

def handedOut : Option QName :=
  ((Sys.init.run (witnessOps.take 2)).step (.vqn (some 0) (.str "ex:x"))).2

def reResolved : Option QName :=
  let s := Sys.init.run witnessOps
  (s.mgr (some 0)).resolveStr (s.parent (some 0)) "ex:x"

theorem c03c_two_level_refuted :
    handedOut.map QName.uri = some "http://a/x" ∧ reResolved.map QName.uri = some "http://other/x" := by
  decide

/-- non-vacuity: a reachable two-scope state and a name meeting the hypotheses of the partial theorem -/
example : (Sys.init.run (witnessOps.take 3)).doc.Owns ⟨⟨"ex", "http://a/"⟩, "x"⟩ ∧
    ((Sys.init.run (witnessOps.take 3)).mgr (some 0)).resolveOwn "ex:x" = none := by
  decide

/-- ownership is preserved by every later operation on the same scope, under the stated default
    discipline (the effective default is not re-bound to a different URI) -/
def DefaultKept (s : Sys) (op : Op) (t : Scope) : Prop :=
  ∀ d, (s.mgr t).dflt = some d → ((s.step op).1.mgr t).dflt = some d

theorem c03c_owns_step (s : Sys) (op : Op) (t : Scope) (q : QName)
    (hown : (s.mgr t).Owns q) (hd : DefaultKept s op t) : ((s.step op).1.mgr t).Owns q := by
  rcases hown with ⟨hne, hb⟩ | ⟨he, hdf⟩
  · exact Or.inl ⟨hne, c03b_prefix_stable_step s op t _ _ hne hb⟩
  · exact Or.inr ⟨he, hd _ hdf⟩

/-- **C03 (c), single scope, all histories**: a name handed out by the `QualifiedName` path in
    scope `t` is still read back as the same name after any later history that keeps `t`'s
    default namespace. -/
theorem c03c_single_scope (s : Sys) (hs : s.Inv) (t : Scope) (hv : s.ValidScope t) (q0 : QName)
    (later : List Op)
    (hkept : ∀ (pre : List Op) (op : Op) (post : List Op), later = pre ++ op :: post →
      DefaultKept (((s.step (.vqn t (.qn q0))).1).run pre) op t)
    (hwf : WfName ((s.mgr t).validQ q0).2) :
    let q := ((s.mgr t).validQ q0).2
    let s' := ((s.step (.vqn t (.qn q0))).1).run later
    (s'.mgr t).resolveStr (s'.parent t) q.print = some q ∧ q.uri = q0.uri := by
  intro q s'
  have hinv := Sys.mgr_inv hs t
  refine ⟨?_, NsMgr.validQ_uri hinv.1 q0⟩
  apply c03c_print_resolve _ _ _ _ hwf
  -- ownership right after the call
  have hown0 : (((s.step (.vqn t (.qn q0))).1).mgr t).Owns q := by
    have := NsMgr.validQ_owns hinv.2 q0
    simp only [Sys.step, NsMgr.validName]
    rw [Sys.mgr_setMgr_same s t _ hv]
    exact this
  -- and after every later op
  suffices ∀ (later : List Op) (s1 : Sys), (s1.mgr t).Owns q →
      (∀ pre op post, later = pre ++ op :: post → DefaultKept (s1.run pre) op t) →
      ((s1.run later).mgr t).Owns q from this later _ hown0 hkept
  intro later
  induction later with
  | nil => intro s1 h _; exact h
  | cons op rest ih =>
    intro s1 h hk
    apply ih (s1.step op).1 (c03c_owns_step s1 op t q h (hk [] op rest rfl))
    intro pre op' post heq
    have := hk (op :: pre) op' post (by simp [heq])
    simpa [Sys.run] using this

/-! ### full-URI strings: compaction denotes the URI it was given -/

theorem dropPrefix_eq_drop : ∀ (pre s rest : List Char), dropPrefix? pre s = some rest → s = pre ++ rest ∧ rest = s.drop pre.length
  | [], s, rest, h => by simp [dropPrefix?] at h; subst h; simp
  | _ :: _, [], rest, h => by simp [dropPrefix?] at h
  | p :: ps, x :: xs, rest, h => by
    simp only [dropPrefix?] at h
    split at h
    · next hpx =>
      obtain ⟨h1, h2⟩ := dropPrefix_eq_drop ps xs rest h
      subst hpx
      exact ⟨by rw [h1]; rfl, by simpa using h2⟩
    · exact absurd h (by simp)

theorem sStartsWith_dropLen (s pre : String) (h : sStartsWith s pre = true) : pre ++ sDropLen s pre = s := by
  unfold sStartsWith startsWith at h
  obtain ⟨rest, hr⟩ := Option.isSome_iff_exists.mp h
  obtain ⟨h1, h2⟩ := dropPrefix_eq_drop _ _ _ hr
  apply String.ext
  simp only [String.toList_append, sDropLen, String.toList_ofList]
  rw [← h2]; exact h1.symm

/-- **compaction**: the name chosen for a full URI denotes exactly that URI (whichever namespace is chosen) -/
theorem c03_compact_uri (vals : List Ns) (s : String) (q : QName) (h : compact vals s = some q) : q.uri = s := by
  induction vals with
  | nil => simp [compact] at h
  | cons n rest ih =>
    simp only [compact] at h
    split at h
    · next hs =>
      cases h
      exact sStartsWith_dropLen s n.uri hs
    · exact ih h

/-- a string with an unregistered scheme (no prefix and no renamed prefix of that name) that the manager resolves on its own
    denotes itself -/
theorem c03_full_uri_denotes_itself (m : NsMgr) (s : String) (p l : List Char) (hs : splitAt1 ':' s.toList = some (p, l))
    (h1 : m.tbl.get? (String.ofList p) = none) (h2 : m.pren.get? (String.ofList p) = none) (q : QName)
    (h : m.resolveOwn s = some q) : q.uri = s := by
  simp only [NsMgr.resolveOwn, hs, h1, h2] at h
  exact c03_compact_uri _ s q h

example : (compact [⟨"ex", "http://a/"⟩] "http://a/r?u=http://a/z").map QName.uri = some "http://a/r?u=http://a/z" := by decide


end Prov.C03

/-
  C05, one call that states a PROV formal attribute twice.

  A constructing call hands `add_attributes` one list: the positional formal arguments followed by the other attributes
  (`new_record(type, id, attributes, other_attributes)`, every typed factory, every convenience method). If that list gives,
  for one PROV formal attribute, two values that are `!=` — the start time as an argument and another start time among the
  other attributes — the call is refused, wherever in the list the two pairs stand and whatever stands between them
  (`c05_stated_twice_refused`); a record under construction that is refused is not created (`mkRecord` allocates only on
  success, `c18_refused_newRecord`). The mechanism: once a PROV attribute holds a value, no accepted pair changes it
  (`loop_keeps_head`), so the later pair meets the earlier value at the guard.
-/
import Prov.Props.C08O

namespace Prov.C05
open Prov Prov.C09 Prov.C04 Prov.C08

theorem addAttrsLoop_append (par : Option NsMgr) (isColl : Bool) : ∀ (l1 l2 : List AttrArg) (m : NsMgr) (r : Record),
    addAttrsLoop par isColl m r (l1 ++ l2) =
      (match addAttrsLoop par isColl m r l1 with
       | (m', r', none) => addAttrsLoop par isColl m' r' l2
       | res => res)
  | [], l2, m, r => by simp [addAttrsLoop]
  | a :: l1, l2, m, r => by
    simp only [List.cons_append, addAttrsLoop]
    cases h : addOne par isColl m r a with
    | mk m1 rest =>
      obtain ⟨r1, e⟩ := rest
      cases e with
      | none => simp only; exact addAttrsLoop_append par isColl l1 l2 m1 r1
      | some err => simp

/-- a filled PROV slot is not changed by any pair the guard accepts -/
theorem storeValue_keeps_head (r : Record) (a b : QName) (v ex : Value) (hprov : isProvAttr a = true)
    (hex : (r.get a).head? = some ex) (r' : Record) (h : storeValue false r b v = (r', none)) :
    (r'.get a).head? = some ex := by
  unfold storeValue at h
  split at h
  · split at h
    · split at h
      · simp only [Prod.mk.injEq] at h; rw [← h.1]; exact hex
      · simp at h
    · simp only [Prod.mk.injEq] at h; rw [← h.1]; exact hex
  · rename_i hg
    simp only [Prod.mk.injEq] at h
    rw [← h.1]
    by_cases hu : b.uri = a.uri
    · exfalso
      apply hg
      have hpb : isProvAttr b = true := by rw [isProvAttr_congr hu]; exact hprov
      have hne : (r.get b).isEmpty = false := by
        rw [get_congr r hu]
        cases hg' : r.get a with
        | nil => rw [hg'] at hex; simp at hex
        | cons _ _ => rfl
      simp [hpb, hne]
    · rw [Record.get_insert_other r b a v hu]; exact hex

theorem loop_keeps_head (par : Option NsMgr) (a : QName) (ex : Value) (hprov : isProvAttr a = true) :
    ∀ (pairs : List (QName × Value)) (m : NsMgr) (r : Record), m.Inv1 → (∀ p ∈ pairs, PairOk p.1 p.2 ∧ valOk p.2) →
      (r.get a).head? = some ex → ∀ m' r', addAttrsLoop par false m r (pairs.map (fun p => toArg (p.1, some p.2))) = (m', r', none) →
        (r'.get a).head? = some ex ∧ m'.Inv1
  | [], m, r, hm, _, hex, m', r', h => by
    simp only [List.map_nil, addAttrsLoop, Prod.mk.injEq] at h
    obtain ⟨rfl, rfl, _⟩ := h
    exact ⟨hex, hm⟩
  | p :: rest, m, r, hm, hok, hex, m', r', h => by
    obtain ⟨m1, a', v', hm1, _, _, hstep⟩ := addOne_general par false m hm r p.1 p.2 (hok p List.mem_cons_self).1
    have harg : toArg (p.1, some p.2) = ⟨.qn p.1, .val p.2, none⟩ := rfl
    simp only [List.map_cons, addAttrsLoop, harg, hstep] at h
    cases hs : (storeValue false r a' v').2 with
    | some err => rw [hs] at h; simp at h
    | none =>
      rw [hs] at h
      simp only at h
      have hk := storeValue_keeps_head r a a' v' ex hprov hex (storeValue false r a' v').1 (by rw [← hs])
      exact loop_keeps_head par a ex hprov rest m1 _ hm1 (fun q hq => hok q (List.mem_cons_of_mem _ hq)) hk m' r' h

/-- a PROV slot after an accepted pair: it holds a value the offered one equals -/
theorem storeValue_accept (r : Record) (a : QName) (v : Value) (hp : isProvAttr a = true)
    (h : (storeValue false r a v).2 = none) :
    ∃ ex, ((storeValue false r a v).1.get a).head? = some ex ∧ v.pyEq ex = true := by
  cases hl : r.get a with
  | nil =>
    have hsv : storeValue false r a v = (r.insert a v, none) := by simp [storeValue, hl]
    rw [hsv]
    refine ⟨v, ?_, ?_⟩
    · simp only
      rw [Record.get_insert_same r a a v rfl, hl]
      simp [setInsert]
    · have := keyEq_refl v
      cases v <;> simp_all [Value.pyEq]
  | cons ex rest =>
    cases hq : v.pyEq ex with
    | true =>
      have hsv : storeValue false r a v = (r, none) := by simp [storeValue, hl, hp, hq]
      rw [hsv]
      exact ⟨ex, by simp [hl], hq⟩
    | false =>
      have hsv : storeValue false r a v = (r, some errProv) := by simp [storeValue, hl, hp, hq]
      rw [hsv] at h
      simp at h

/-- two offered values that each equal the stored one are equal to each other (names and times) -/
theorem pyEq_through (a : QName) (hprov : isProvAttr a = true) (v1 v2 w1 w2 ex : Value)
    (hok1 : PairOk a v1) (hok2 : PairOk a v2) (hw1 : vEq w1 v1) (hw2 : vEq w2 v2)
    (h1 : w1.pyEq ex = true) (h2 : w2.pyEq ex = true) : v2.pyEq v1 = true := by
  have hcls : isRefAttr a = true ∨ isTimeAttr a = true := by
    simpa [isProvAttr, Bool.or_eq_true] using hprov
  rcases hcls with href | htime
  · have g1 := hok1.1 href
    have g2 := hok2.1 href
    cases hp1 : v1 <;> rw [hp1] at g1 <;> simp [isQn] at g1
    cases hp2 : v2 <;> rw [hp2] at g2 <;> simp [isQn] at g2
    rename_i q1 q2
    rw [hp1] at hw1; rw [hp2] at hw2
    cases w1 <;> simp [vEq] at hw1
    cases w2 <;> simp [vEq] at hw2
    rename_i q1' q2'
    simp only [Value.pyEq, Value.keyEq, beq_iff_eq]
    cases ex <;> simp_all [Value.pyEq, Value.keyEq, Value.num?]
  · have g1 := hok1.2.1 htime
    have g2 := hok2.2.1 htime
    cases hp1 : v1 <;> rw [hp1] at g1 <;> simp [isDt] at g1
    cases hp2 : v2 <;> rw [hp2] at g2 <;> simp [isDt] at g2
    rename_i t1 t2
    rw [hp1] at hw1; rw [hp2] at hw2
    have e1 : w1 = .dt t1 := by cases w1 <;> simp_all [vEq]
    have e2 : w2 = .dt t2 := by cases w2 <;> simp_all [vEq]
    subst e1; subst e2
    have k1 : (Value.dt t1).keyEq ex = true := by cases ex <;> simp_all [Value.pyEq]
    have k2 : (Value.dt t2).keyEq ex = true := by cases ex <;> simp_all [Value.pyEq]
    have hxv : valOk ex := by
      cases ex <;> simp_all [Value.keyEq, Value.num?, valOk]
    have := keyEq_trans hxv k2 (keyEq_symm k1)
    simpa [Value.pyEq] using this

/-- **C05, a formal attribute stated twice in one call with different values is refused**: the pairs of one
    `add_attributes` call (not the membership compatibility form) contain, somewhere, two pairs for one PROV formal
    attribute whose values are `!=`; then the call ends in an error, whatever the record held before, whatever stands before,
    between and after the two pairs -/
theorem c05_stated_twice_refused (par : Option NsMgr) (m : NsMgr) (hm : m.Inv1) (r : Record)
    (pre mid post : List (QName × Value)) (p1 p2 : QName × Value)
    (hok : ∀ p ∈ pre ++ p1 :: (mid ++ p2 :: post), PairOk p.1 p.2 ∧ valOk p.2)
    (hu : p1.1.uri = p2.1.uri) (hprov : isProvAttr p2.1 = true) (hne : p2.2.pyEq p1.2 = false) :
    ∃ m' r' e, addAttrsLoop par false m r ((pre ++ p1 :: (mid ++ p2 :: post)).map (fun p => toArg (p.1, some p.2))) = (m', r', some e) := by
  have hprov1 : isProvAttr p1.1 = true := by rw [isProvAttr_congr hu]; exact hprov
  have hokpre : ∀ p ∈ pre, PairOk p.1 p.2 ∧ valOk p.2 := fun p hp => hok p (List.mem_append_left _ hp)
  have hok1 := hok p1 (List.mem_append_right _ List.mem_cons_self)
  have hokmid : ∀ p ∈ mid, PairOk p.1 p.2 ∧ valOk p.2 := fun p hp =>
    hok p (List.mem_append_right _ (List.mem_cons_of_mem _ (List.mem_append_left _ hp)))
  have hok2 := hok p2 (List.mem_append_right _ (List.mem_cons_of_mem _ (List.mem_append_right _ List.mem_cons_self)))
  rw [List.map_append, addAttrsLoop_append]
  -- the pairs before the first of the two
  cases hpre : addAttrsLoop par false m r (pre.map (fun p => toArg (p.1, some p.2))) with
  | mk m1 rest1 =>
    obtain ⟨r1, e1⟩ := rest1
    cases e1 with
    | some err => exact ⟨m1, r1, err, rfl⟩
    | none =>
      simp only
      obtain ⟨hm1, _⟩ := loop_merge par false pre m hm r hokpre m1 r1 hpre
      -- the first pair
      obtain ⟨m2, a1', v1', hm2, hu1, hveq1, hstep1⟩ := addOne_general par false m1 hm1 r1 p1.1 p1.2 hok1.1
      have harg1 : toArg (p1.1, some p1.2) = ⟨.qn p1.1, .val p1.2, none⟩ := rfl
      simp only [List.map_cons, addAttrsLoop, harg1, hstep1]
      cases hs1 : (storeValue false r1 a1' v1').2 with
      | some err => exact ⟨_, _, err, rfl⟩
      | none =>
        simp only
        have hprov1' : isProvAttr a1' = true := by rw [isProvAttr_congr hu1]; exact hprov1
        -- the slot now holds a value the first offered value equals
        have hheld := storeValue_accept r1 a1' v1' hprov1' hs1
        obtain ⟨ex, hex, hpe1⟩ := hheld
        generalize (storeValue false r1 a1' v1').1 = r2 at hex
        -- the pairs between the two
        rw [List.map_append, addAttrsLoop_append]
        cases hmid : addAttrsLoop par false m2 r2 (mid.map (fun p => toArg (p.1, some p.2))) with
        | mk m3 rest3 =>
          obtain ⟨r3, e3⟩ := rest3
          cases e3 with
          | some err => exact ⟨m3, r3, err, rfl⟩
          | none =>
            simp only
            obtain ⟨hex3, hm3⟩ := loop_keeps_head par a1' ex hprov1' mid m2 r2 hm2 hokmid hex m3 r3 hmid
            -- the second pair meets the first at the guard
            obtain ⟨m4, a2', v2', _, hu2, hveq2, hstep2⟩ := addOne_general par false m3 hm3 r3 p2.1 p2.2 hok2.1
            have harg2 : toArg (p2.1, some p2.2) = ⟨.qn p2.1, .val p2.2, none⟩ := rfl
            simp only [List.map_cons, addAttrsLoop, harg2, hstep2]
            have huu : a2'.uri = a1'.uri := hu2.trans (hu.symm.trans hu1.symm)
            have hex3' : (r3.get a2').head? = some ex := by rw [get_congr r3 huu]; exact hex3
            have hprov2' : isProvAttr a2' = true := by rw [isProvAttr_congr hu2]; exact hprov
            have hne2 : v2'.pyEq ex = false := by
              cases hq : v2'.pyEq ex with
              | false => rfl
              | true =>
                exfalso
                have := pyEq_through p2.1 hprov p1.2 p2.2 v1' v2' ex (pairOk_congr hu hok1.1) hok2.1 hveq1 hveq2 hpe1 hq
                rw [this] at hne
                exact Bool.noConfusion hne
            have hrefuse : storeValue false r3 a2' v2' = (r3, some errProv) := by
              unfold storeValue
              have hnonempty : (r3.get a2').isEmpty = false := by
                cases hl : r3.get a2' with
                | nil => rw [hl] at hex3'; simp at hex3'
                | cons _ _ => rfl
              simp [hprov2', hnonempty, hex3', hne2]
            rw [hrefuse]
            exact ⟨_, _, errProv, rfl⟩

/-- instance: an activity created with a start time as argument and another start time among the other attributes -/
example : ∃ m' r' e, addAttrsLoop none false NsMgr.init ⟨.activity, none, []⟩
    ((([] : List (QName × Value)) ++ (provQ "startTime", Value.dt ⟨2012, 1, 1, 0, 0, 0, 0, none⟩) ::
      ([(provQ "label", Value.str "x")] ++ (provQ "startTime", Value.dt ⟨2013, 1, 1, 0, 0, 0, 0, none⟩) :: [])).map
        (fun p => toArg (p.1, some p.2))) = (m', r', some e) :=
  ⟨_, _, _, rfl⟩

end Prov.C05

/-
  C14, the way back: `graph_to_prov` hands to the new document the declared nodes and, for the edges, a permutation of
  the edge relations — every relation that became an edge exactly once (networkx iterates edges grouped by source node
  and by neighbour; the grouping loses and repeats nothing).
-/
import Prov.Props.C14B
import Prov.Lemmas.Perm

namespace Prov.C14
open Prov Prov.Heap Prov.Perm

/-- neighbours in order of their first edge (networkx adjacency order) -/
def dedupStep (acc : List Nat) (e : Nat × Nat × Nat) : List Nat := if acc.contains e.2.1 then acc else acc ++ [e.2.1]

theorem dedup_spec : ∀ (out : List (Nat × Nat × Nat)) (acc : List Nat), acc.Nodup →
    (out.foldl dedupStep acc).Nodup ∧ (∀ x ∈ acc, x ∈ out.foldl dedupStep acc) ∧ (∀ e ∈ out, e.2.1 ∈ out.foldl dedupStep acc)
  | [], acc, h => ⟨h, fun _ hx => hx, fun _ he => absurd he (by simp)⟩
  | e :: rest, acc, h => by
    have hacc' : (dedupStep acc e).Nodup := by
      unfold dedupStep
      split
      · exact h
      · next hc =>
        rw [List.nodup_append]
        refine ⟨h, by simp, ?_⟩
        intro a ha b hb
        simp only [List.mem_singleton] at hb
        subst hb
        intro hab; subst hab
        exact hc (by simpa using ha)
    obtain ⟨h1, h2, h3⟩ := dedup_spec rest (dedupStep acc e) hacc'
    have hsub : ∀ x ∈ acc, x ∈ dedupStep acc e := by
      intro x hx; unfold dedupStep; split
      · exact hx
      · exact List.mem_append_left _ hx
    have he : e.2.1 ∈ dedupStep acc e := by
      unfold dedupStep; split
      · next hc => simpa using hc
      · simp
    refine ⟨h1, fun x hx => h2 x (hsub x hx), ?_⟩
    intro e' he'
    rcases List.mem_cons.mp he' with rfl | h'
    · exact h2 _ he
    · exact h3 e' h'

/-- the out-edges of one node, grouped by neighbour: a permutation of its out-edges -/
theorem group_perm (out : List (Nat × Nat × Nat)) :
    ((out.foldl dedupStep []).flatMap (fun t => (out.filter (fun e => e.2.1 == t)).map (fun e => e.2.2))).Perm
      (out.map (fun e => e.2.2)) := by
  obtain ⟨h1, _, h3⟩ := dedup_spec out [] List.nodup_nil
  have := flatMap_filter_perm (fun e : Nat × Nat × Nat => e.2.1) (out.foldl dedupStep []) out h1 h3
  have h := this.map (fun e => e.2.2)
  rwa [List.map_flatMap] at h

/-! ### the invariant of the conversion state -/

structure GInv (st : GState) : Prop where
  poolNodup : st.pool.Nodup
  nodesNodup : st.nodes.Nodup
  nodesPool : ∀ n ∈ st.nodes, n ∈ st.pool
  edgeSrc : ∀ e ∈ st.edges, ∃ n, st.pool[e.1]? = some n ∧ n ∈ st.nodes
  keyed : ∀ n ∈ st.pool, (nodeMapGet st.nodeMap n.id).isSome
  declaredIn : ∀ n ∈ st.pool, n.declared.isSome → n ∈ st.nodes

theorem getElem?_append_left_of_some {α : Type} {l : List α} {i : Nat} {a : α} (h : l[i]? = some a) (extra : List α) :
    (l ++ extra)[i]? = some a := by
  rw [List.getElem?_append_left (List.getElem?_eq_some_iff.mp h).1]; exact h

theorem endpoint_inv (st : GState) (a : String) (q : QName) (st' : GState) (i : Nat) (hi : GInv st)
    (h : endpoint st a q = some (st', i)) :
    GInv st' ∧ st'.nodes = st.nodes ∧ st'.edges = st.edges ∧ (∃ extra, st'.pool = st.pool ++ extra) := by
  unfold endpoint at h
  split at h
  · simp only [Option.some.injEq, Prod.mk.injEq] at h
    obtain ⟨rfl, rfl⟩ := h
    exact ⟨hi, rfl, rfl, [], by simp⟩
  · next hnone =>
    split at h
    · cases h
    · next k _ =>
      simp only [Option.some.injEq, Prod.mk.injEq] at h
      obtain ⟨rfl, rfl⟩ := h
      refine ⟨⟨?_, hi.nodesNodup, fun n hn => List.mem_append_left _ (hi.nodesPool n hn), ?_, ?_, ?_⟩, rfl, rfl,
        [(⟨none, k, q⟩ : GNode)], rfl⟩
      · -- the new node is not in the pool: its identifier was not in the map
        show (st.pool ++ [(⟨none, k, q⟩ : GNode)]).Nodup
        rw [List.nodup_append]
        refine ⟨hi.poolNodup, by simp, ?_⟩
        intro x hx y hy hxy
        simp only [List.mem_singleton] at hy
        subst hy; subst hxy
        have := hi.keyed _ hx
        simp only at this
        rw [hnone] at this
        cases this
      · intro e he
        obtain ⟨n, hn, hnn⟩ := hi.edgeSrc e he
        exact ⟨n, getElem?_append_left_of_some hn _, hnn⟩
      · intro n hn
        show (nodeMapGet (nodeMapSet st.nodeMap q st.pool.length) n.id).isSome
        rw [nodeMapGet_set]
        split
        · rfl
        · rcases List.mem_append.mp hn with h1 | h1
          · exact hi.keyed n h1
          · simp only [List.mem_singleton] at h1
            subst h1
            rename_i hne
            exact absurd (same_refl2 q) hne
      · intro n hn hd
        rcases List.mem_append.mp hn with h1 | h1
        · exact hi.declaredIn n h1 hd
        · simp only [List.mem_singleton] at h1
          subst h1
          cases hd

theorem addGraphNode_inv (st : GState) (i : Nat) (hi : GInv st) :
    GInv (addGraphNode st i) ∧ (∀ n, st.pool[i]? = some n → n ∈ (addGraphNode st i).nodes) ∧
      (∀ n ∈ st.nodes, n ∈ (addGraphNode st i).nodes) ∧
      (addGraphNode st i).nodes.filterMap (·.declared) = st.nodes.filterMap (·.declared) := by
  unfold addGraphNode
  split
  · next n hn =>
    split
    · next hc =>
      exact ⟨hi, fun n' hn' => (by rw [hn] at hn'; cases hn'; simpa using hc), fun _ h => h, rfl⟩
    · next hc =>
      have hnot : n ∉ st.nodes := by simpa using hc
      have hpool : n ∈ st.pool := List.mem_of_getElem? hn
      have hdecl : n.declared = none := by
        cases hd : n.declared with
        | none => rfl
        | some r => exact absurd (hi.declaredIn n hpool (by simp [hd])) hnot
      refine ⟨⟨hi.poolNodup, ?_, ?_, ?_, hi.keyed, ?_⟩, ?_, fun _ h => List.mem_append_left _ h, ?_⟩
      · show (st.nodes ++ [n]).Nodup
        rw [List.nodup_append]
        refine ⟨hi.nodesNodup, by simp, ?_⟩
        intro x hx y hy hxy
        simp only [List.mem_singleton] at hy
        subst hy; subst hxy
        exact hnot hx
      · intro x hx
        rcases List.mem_append.mp hx with h1 | h1
        · exact hi.nodesPool x h1
        · simp only [List.mem_singleton] at h1; subst h1; exact hpool
      · intro e he
        obtain ⟨x, hx, hxn⟩ := hi.edgeSrc e he
        exact ⟨x, hx, List.mem_append_left _ hxn⟩
      · intro x hx hd
        exact List.mem_append_left _ (hi.declaredIn x hx hd)
      · intro n' hn'
        rw [hn] at hn'; cases hn'
        exact List.mem_append_right _ (by simp)
      · show (st.nodes ++ [n]).filterMap (·.declared) = _
        simp [List.filterMap_append, hdecl]
  · next hn =>
    exact ⟨hi, fun n' hn' => (by rw [hn] at hn'; cases hn'), fun _ h => h, rfl⟩

/-- one relation of the loop keeps the invariant and leaves the declared nodes alone -/
theorem graphStep_inv (h : Heap) (st : GState) (rref : Nat) (hi : GInv st) (hm : MapOk st) :
    GInv (graphStep h st rref) ∧
      (graphStep h st rref).nodes.filterMap (·.declared) = st.nodes.filterMap (·.declared) := by
  simp only [graphStep]
  split
  · next a1 q1 a2 q2 _ =>
    cases h1 : endpoint st a1 q1 with
    | none => exact ⟨hi, rfl⟩
    | some p1 =>
      obtain ⟨st1, i1⟩ := p1
      dsimp only
      obtain ⟨hi1, hn1, _, _⟩ := endpoint_inv st a1 q1 st1 i1 hi h1
      obtain ⟨hm1, ⟨n1, hp1, _⟩, _, _⟩ := endpoint_spec st a1 q1 st1 i1 hm h1
      cases h2 : endpoint st1 a2 q2 with
      | none => exact ⟨hi1, by simp only [hn1]⟩
      | some p2 =>
        obtain ⟨st2, i2⟩ := p2
        dsimp only
        obtain ⟨hi2, hn2, _, ⟨extra, hpool2⟩⟩ := endpoint_inv st1 a2 q2 st2 i2 hi1 h2
        have hp1' : st2.pool[i1]? = some n1 := by rw [hpool2]; exact getElem?_append_left_of_some hp1 _
        obtain ⟨hi3, hin1, _, hd3⟩ := addGraphNode_inv st2 i1 hi2
        obtain ⟨hi4, _, hkeep, hd4⟩ := addGraphNode_inv (addGraphNode st2 i1) i2 hi3
        have hpool4 : (addGraphNode (addGraphNode st2 i1) i2).pool = st2.pool := by
          rw [(addGraphNode_pool _ _).1, (addGraphNode_pool _ _).1]
        refine ⟨⟨hi4.poolNodup, hi4.nodesNodup, hi4.nodesPool, ?_, hi4.keyed, hi4.declaredIn⟩, ?_⟩
        · intro e he
          rcases List.mem_append.mp he with h' | h'
          · exact hi4.edgeSrc e h'
          · simp only [List.mem_singleton] at h'
            subst h'
            exact ⟨n1, by show (addGraphNode (addGraphNode st2 i1) i2).pool[i1]? = some n1; rw [hpool4]; exact hp1',
              hkeep n1 (hin1 n1 hp1')⟩
        · show (addGraphNode (addGraphNode st2 i1) i2).nodes.filterMap (·.declared) = _
          rw [hd4, hd3, hn2, hn1]
  · exact ⟨hi, rfl⟩

theorem fold_inv (h : Heap) (rels : List Nat) (st : GState) (hi : GInv st) (hm : MapOk st) :
    GInv (rels.foldl (graphStep h) st) ∧
      (rels.foldl (graphStep h) st).nodes.filterMap (·.declared) = st.nodes.filterMap (·.declared) := by
  induction rels generalizing st with
  | nil => exact ⟨hi, rfl⟩
  | cons r rest ih =>
    obtain ⟨h1, h2⟩ := graphStep_inv h st r hi hm
    obtain ⟨h3, h4⟩ := ih (graphStep h st r) h1 (graphStep_mapOk h st r hm)
    exact ⟨h3, h4.trans h2⟩

/-- the out-edges of pool index `i`, in networkx adjacency order -/
def groupedOut (st : GState) (i : Nat) : List Nat :=
  ((st.edges.filter (fun e => e.1 == i)).foldl dedupStep []).flatMap
    (fun t => ((st.edges.filter (fun e => e.1 == i)).filter (fun e => e.2.1 == t)).map (fun e => e.2.2))

/-- the edge relations as `graph_to_prov` collects them -/
def edgeRecsOf (st : GState) : List Nat :=
  st.nodes.flatMap (fun n =>
    match st.pool.findIdx? (· == n) with
    | some i => groupedOut st i
    | none => [])

theorem findIdx_of_nodup (pool : List GNode) (hnd : pool.Nodup) (i : Nat) (n : GNode) (h : pool[i]? = some n) :
    pool.findIdx? (· == n) = some i := by
  rw [List.findIdx?_eq_some_iff_getElem]
  obtain ⟨hlt, hget⟩ := List.getElem?_eq_some_iff.mp h
  refine ⟨hlt, by simp [hget], ?_⟩
  intro j hji hj
  have hj' : pool[j]'(Nat.lt_trans hji hlt) = n := by simpa using hj
  have := (List.getElem_inj (h₀ := Nat.lt_trans hji hlt) (h₁ := hlt) hnd).mp (by rw [hj', hget])
  omega

/-- **the way back loses and repeats no edge**: the relations handed to the new document for the edges are a permutation
    of the relations of the edges -/
theorem c14_edgeRecs_perm (st : GState) (hi : GInv st) : (edgeRecsOf st).Perm (st.edges.map (fun e => e.2.2)) := by
  have hnode : ∀ n ∈ st.nodes, ∃ i, st.pool.findIdx? (· == n) = some i ∧ st.pool[i]? = some n := by
    intro n hn
    obtain ⟨i, hlt, hget⟩ := List.getElem_of_mem (hi.nodesPool n hn)
    have h' : st.pool[i]? = some n := by rw [List.getElem?_eq_some_iff]; exact ⟨hlt, hget⟩
    exact ⟨i, findIdx_of_nodup st.pool hi.poolNodup i n h', h'⟩
  let idx : GNode → Nat := fun n => (st.pool.findIdx? (· == n)).getD 0
  have hidx : ∀ n ∈ st.nodes, st.pool.findIdx? (· == n) = some (idx n) ∧ st.pool[idx n]? = some n := by
    intro n hn
    obtain ⟨i, h1, h2⟩ := hnode n hn
    have : idx n = i := by simp [idx, h1]
    rw [this]; exact ⟨h1, h2⟩
  -- 1. as a flatMap over the node indices
  have h1 : edgeRecsOf st = (st.nodes.map idx).flatMap (groupedOut st) := by
    rw [List.flatMap_map]
    unfold edgeRecsOf
    apply flatMap_congr'
    intro n hn
    rw [(hidx n hn).1]
  -- 2. each group is a permutation of that node's out-edges
  have h2 : ((st.nodes.map idx).flatMap (groupedOut st)).Perm
      ((st.nodes.map idx).flatMap (fun i => (st.edges.filter (fun e => e.1 == i)).map (fun e => e.2.2))) :=
    perm_flatMap_of_perm _ (fun i _ => group_perm _)
  -- 3. the indices are distinct and cover every edge's source
  have hnd : (st.nodes.map idx).Nodup := by
    unfold List.Nodup
    rw [List.pairwise_map]
    refine List.Pairwise.imp_of_mem ?_ hi.nodesNodup
    intro a b ha hb hab heq
    have e1 := (hidx a ha).2
    have e2 := (hidx b hb).2
    rw [heq] at e1
    rw [e1] at e2
    exact hab (by simpa using e2)
  have hcov : ∀ e ∈ st.edges, e.1 ∈ st.nodes.map idx := by
    intro e he
    obtain ⟨n, hn, hnn⟩ := hi.edgeSrc e he
    have := findIdx_of_nodup st.pool hi.poolNodup e.1 n hn
    exact List.mem_map.mpr ⟨n, hnn, by simp [idx, this]⟩
  have h3 := (flatMap_filter_perm (fun e : Nat × Nat × Nat => e.1) (st.nodes.map idx) st.edges hnd hcov).map (fun e => e.2.2)
  rw [List.map_flatMap] at h3
  rw [h1]
  exact h2.trans h3

/-- what `graph_to_prov` hands to the new document: the declared nodes, then `edgeRecsOf` -/
theorem graphToProv_args (h : Heap) (st : GState) :
    h.graphToProv st =
      (match (h.newDoc).1.addRecords (h.newDoc).2 (st.nodes.filterMap (·.declared) ++ edgeRecsOf st) with
       | (h2, none) => (h2, .ok (h.newDoc).2)
       | (h2, some e) => (h2, .error e)) := rfl

/-- **C14, the way back**: after the relation loop, from any state satisfying the invariant and holding no edge yet,
    `graph_to_prov` hands to the new document exactly the declared nodes it started with and a permutation of the
    relations whose first two arguments are present (documents without influence relations) -/
theorem c14_back (h : Heap) (rels : List Nat) (st0 : GState) (hi : GInv st0) (hm : MapOk st0) (he0 : st0.edges = [])
    (hni : ∀ r ∈ rels, notInfluence h r) :
    (rels.foldl (graphStep h) st0).nodes.filterMap (·.declared) = st0.nodes.filterMap (·.declared) ∧
    (edgeRecsOf (rels.foldl (graphStep h) st0)).Perm (rels.filter (bothPresent h)) := by
  obtain ⟨h1, h2⟩ := fold_inv h rels st0 hi hm
  refine ⟨h2, ?_⟩
  have h3 := c14_edgeRecs_perm _ h1
  have h4 := c14_edges_exact h rels st0 hm hni
  rw [he0] at h4
  simp only [List.map_nil, List.nil_append] at h4
  rw [h4] at h3
  exact h3

/-! ### the element phase establishes the invariant -/

/-- the loop body over the element records of the unified document -/
def elemStep (h : Heap) (st : GState) (r : Nat) : GState :=
  match (h.recCell r).r.id with
  | some q =>
    { st with nodes := st.nodes ++ [⟨some r, (h.recCell r).r.kind, q⟩], pool := st.pool ++ [⟨some r, (h.recCell r).r.kind, q⟩],
              nodeMap := nodeMapSet st.nodeMap q st.pool.length }
  | none => st

theorem elemStep_inv (h : Heap) (st : GState) (r : Nat) (hi : GInv st) (hm : MapOk st) (he : st.edges = [])
    (hfresh : ∀ n ∈ st.pool, n.declared ≠ some r) :
    GInv (elemStep h st r) ∧ MapOk (elemStep h st r) ∧ (elemStep h st r).edges = [] ∧
      (∀ n ∈ (elemStep h st r).pool, n ∈ st.pool ∨ n.declared = some r) := by
  unfold elemStep
  split
  case h_2 => exact ⟨hi, hm, he, fun n hn => Or.inl hn⟩
  case h_1 q _ =>
    refine ⟨⟨?_, ?_, ?_, ?_, ?_, ?_⟩, ?_, he, ?_⟩
    · rw [List.nodup_append]
      refine ⟨hi.poolNodup, by simp, ?_⟩
      intro x hx y hy hxy
      simp only [List.mem_singleton] at hy
      subst hy; subst hxy
      exact hfresh _ hx rfl
    · rw [List.nodup_append]
      refine ⟨hi.nodesNodup, by simp, ?_⟩
      intro x hx y hy hxy
      simp only [List.mem_singleton] at hy
      subst hy; subst hxy
      exact hfresh _ (hi.nodesPool _ hx) rfl
    · intro n hn
      rcases List.mem_append.mp hn with h1 | h1
      · exact List.mem_append_left _ (hi.nodesPool n h1)
      · exact List.mem_append_right _ h1
    · intro e hee
      rw [he] at hee; cases hee
    · intro n hn
      show (nodeMapGet (nodeMapSet st.nodeMap q st.pool.length) n.id).isSome
      rw [nodeMapGet_set]
      split
      · rfl
      · rcases List.mem_append.mp hn with h1 | h1
        · exact hi.keyed n h1
        · simp only [List.mem_singleton] at h1
          subst h1
          rename_i hne
          exact absurd (same_refl2 q) hne
    · intro n hn hd
      rcases List.mem_append.mp hn with h1 | h1
      · exact List.mem_append_left _ (hi.declaredIn n h1 hd)
      · exact List.mem_append_right _ h1
    · intro q' j hj
      simp only [nodeMapGet_set] at hj
      split at hj
      · next hs =>
        simp only [Option.some.injEq] at hj
        subst hj
        exact ⟨⟨some r, (h.recCell r).r.kind, q⟩, by simp, hs⟩
      · obtain ⟨n, hn, hns⟩ := hm q' j hj
        exact ⟨n, getElem?_append_left_of_some hn _, hns⟩
    · intro n hn
      rcases List.mem_append.mp hn with h1 | h1
      · exact Or.inl h1
      · simp only [List.mem_singleton] at h1
        subst h1
        exact Or.inr rfl

theorem elems_inv (h : Heap) : ∀ (elems : List Nat) (st : GState), elems.Nodup → GInv st → MapOk st → st.edges = [] →
    (∀ n ∈ st.pool, ∀ r ∈ elems, n.declared ≠ some r) →
    GInv (elems.foldl (elemStep h) st) ∧ MapOk (elems.foldl (elemStep h) st) ∧ (elems.foldl (elemStep h) st).edges = []
  | [], st, _, hi, hm, he, _ => ⟨hi, hm, he⟩
  | r :: rest, st, hnd, hi, hm, he, hfresh => by
    obtain ⟨hr, hnd'⟩ := List.nodup_cons.mp hnd
    obtain ⟨h1, h2, h3, h4⟩ := elemStep_inv h st r hi hm he (fun n hn => hfresh n hn r List.mem_cons_self)
    refine elems_inv h rest (elemStep h st r) hnd' h1 h2 h3 ?_
    intro n hn r' hr'
    rcases h4 n hn with h5 | h5
    · exact hfresh n h5 r' (List.mem_cons_of_mem _ hr')
    · rw [h5]
      intro heq
      cases heq
      exact hr hr'

theorem ginv_empty : GInv ⟨[], [], [], []⟩ :=
  ⟨List.nodup_nil, List.nodup_nil, fun _ h => h, fun _ h => absurd h (by simp), fun _ h => absurd h (by simp),
   fun _ h => absurd h (by simp)⟩

theorem mapOk_empty : MapOk ⟨[], [], [], []⟩ := fun q i h => by simp [nodeMapGet] at h

/-- `prov_to_graph` is the element phase followed by the relation loop -/
theorem provToGraph_eq (h : Heap) (d : Nat) :
    h.provToGraph d =
      (match h.unifiedDoc d with
       | (h1, .error e) => (h1, .error e)
       | (h1, .ok u) =>
         (h1, .ok (u, (h1.getRecords u .relation).foldl (graphStep h1)
            ((h1.getRecords u .element).foldl (elemStep h1) ⟨[], [], [], []⟩)))) := rfl

/-- **C14, there and back**: for a unified document whose element records are distinct objects and which holds no influence
    relation, `graph_to_prov (prov_to_graph d)` hands to the new document the declared element nodes followed by a
    permutation of exactly the relations whose first two arguments are present -/
theorem c14_there_and_back (h1 : Heap) (u : Nat) (hel : (h1.getRecords u .element).Nodup)
    (hni : ∀ r ∈ h1.getRecords u .relation, notInfluence h1 r) :
    let st0 := (h1.getRecords u .element).foldl (elemStep h1) ⟨[], [], [], []⟩
    let st := (h1.getRecords u .relation).foldl (graphStep h1) st0
    st.nodes.filterMap (·.declared) = st0.nodes.filterMap (·.declared) ∧
    (edgeRecsOf st).Perm ((h1.getRecords u .relation).filter (bothPresent h1)) := by
  intro st0 st
  obtain ⟨hi, hm, he⟩ := elems_inv h1 _ ⟨[], [], [], []⟩ hel ginv_empty mapOk_empty rfl (fun _ h => absurd h (by simp))
  exact c14_back h1 _ st0 hi hm he hni

end Prov.C14

/-
  C07 — PROV-O (RDF) round trip. Theorems about the writer / reader model `Prov/Rdf.lean`:
  the per-kind predicate rewrites are inverse to each other on every formal argument; attributes outside the
  PROV namespace pass through both string-matched rewrites unchanged, for every URI; every value kind of the
  property's space is written and read back as the same value; the tables the reader consults are the
  library's. The record- and document-level round trip is validated by the correspondence (three channels),
  not proved (see DESIGN §4.C07).
-/
import Prov.Rdf
import Prov.Generated.Tables
import Prov.Props.C07T1
import Prov.Props.C07T2
import Prov.Props.C07T3
import Prov.Props.C07T4
import Prov.Props.C07W
import Prov.Lemmas.Text
import Prov.Lemmas.Iso
import Prov.Lemmas.NsMgr
import Std.Data.String.ToInt

namespace Prov.C07
open Prov Prov.Rdf Prov.Text

/-! ### tables -/

/-- `PROV_CLS_MAP` of the reader is `PROV_BASE_CLS` as regenerated from the library on this run -/
theorem t_base_classes :
    Prov.Gen.baseCls.all (fun p => baseKindOf (provU p.1) == (RecKind.all.find? (fun k => k.typeName == p.2))) = true := by
  decide +kernel

/-- every PROV class the reader knows is in that table -/
theorem t_base_classes_complete :
    (RecKind.all.map (·.typeName) ++ subtypeTable.map (·.1)).all (fun n => Prov.Gen.baseCls.any (fun p => p.1 == n)) = true := by
  decide +kernel

/-! ### formal arguments: the reader's renaming inverts the writer's, for every kind and every argument that
    travels as a predicate of the qualified node (every formal argument but the first) -/





/-! ### attributes outside the PROV namespace: unchanged by both string-matched rewrites, for EVERY URI -/

theorem provU_eq (l : String) : provU l = provUri ++ l := rfl

theorem isProv_false (a : QName) (l : String) (h : sContains a.uri provUri = false) : isProv a l = false := by
  unfold isProv
  have := ne_append_of_not_contains a.uri provUri l h
  simpa [provU_eq] using this

theorem isFormalOf_false (k : RecKind) (a : QName) (h : sContains a.uri provUri = false) : isFormalOf k a = false := by
  unfold isFormalOf inProvSet
  rw [List.any_eq_false]
  intro l _
  have := ne_append_of_not_contains a.uri provUri l h
  simpa using this

/-- **writer**: an attribute whose URI does not contain the PROV namespace URI is written under its own URI,
    whatever the relation kind -/
theorem c07_user_attr_writer (k : RecKind) (a : QName) (h : sContains a.uri provUri = false) :
    relAttrPred k a = a.uri := by
  have c : ∀ l, sContains a.uri (provU l) = false := fun l => sContains_append_false a.uri provUri l h
  unfold relAttrPred
  simp only [isFormalOf_false k a h, isProv_false a _ h, Bool.false_eq_true, if_false, c, Bool.and_false, Bool.or_false,
    ite_self]

theorem c07_user_attr_element (a : QName) (h : sContains a.uri provUri = false) : elemPred a = a.uri := by
  unfold elemPred
  simp only [isProv_false a _ h, Bool.false_eq_true, if_false]

/-- **reader**: such a predicate is not mapped, not renamed for any kind, and not dropped: it reaches
    `other_attributes` under its own URI. (With the substring tests the reader had before the "fix:" commit this
    statement is false: `ex:activityLevel` on a communication became `prov:informant`.) -/
theorem c07_user_attr_reader (k : RecKind) (u : String) (h : sContains u provUri = false) (hl : u ≠ rdfsLabel) :
    (predicateMapper.find? (fun p => p.1 == u)) = none ∧
    readerRename k u none = .inr u ∧
    (!sStartsWith u (provU "qualified") && u != provU "asInBundle") = true := by
  have ne : ∀ l, u ≠ provU l := fun l => ne_append_of_not_contains u provUri l h
  refine ⟨?_, ?_, ?_⟩
  · have : ∀ l, (provU l == u) = false := fun l => by simpa using (ne l).symm
    have hl' : (rdfsLabel == u) = false := by simpa using hl.symm
    simp [predicateMapper, this, hl']
  · have e : ∀ l, (u == provU l) = false := fun l => by simpa using ne l
    simp [readerRename, e]
  · have s1 := sStartsWith_append_false u provUri "qualified" h
    have e : (u != provU "asInBundle") = true := by simpa using ne "asInBundle"
    rw [provU_eq, s1, e]; rfl

/-- non-vacuity: the attribute names the old reader mangled meet the hypotheses -/
example : sContains "http://example.org/activityLevel" provUri = false ∧ "http://example.org/activityLevel" ≠ rdfsLabel := by
  decide

/-! ### values: written and read back as the same value -/

/-- A-EXT (rdflib, dateutil): `str(literal.value)` / the parsed datetime, on the lexical forms the writer produces:
    booleans come back as Python `True`/`False`, datetimes through the ISO parser, everything else by its lexical
    form. The harness compares this function with what rdflib really returns for every literal it meets. -/
def rdflibHint : Term → Option LitHint
  | .lit lex (some d) none =>
    if d == xsdU "boolean" then some { pv := if lex == "true" then "True" else if lex == "false" then "False" else lex }
    else if d == xsdU "dateTime" then some { pv := lex, pdt := parseIso lex }
    else some { pv := lex }
  | .lit lex none _ => some { pv := lex }
  | _ => none

/-- the URI `u` is read by the document's manager as a name with that URI (its namespace is declared on the
    document: the first clause of the property's quantifier) -/
def Declared (h : Heap) (doc : Nat) (u : String) : Prop :=
  ∃ q, (h.validName doc (.str u)).2 = some q ∧ q.uri = u

theorem c07_int (h : Heap) (doc : Nat) (m : NsMgr) (hd : Declared h doc (xsdU "int")) (n : Int) :
    ∃ t a, encodeValue (.int n) = some t ∧ decodeTerm h doc rdflibHint t = .ok a ∧
      (autoLiteral m a none).2 = .ok (.int n) := by
  obtain ⟨q, hq, hu⟩ := hd
  have hp : xsdParserOf q = some .int := by simp only [xsdParserOf, hu]; decide
  refine ⟨_, .val (.lit (toString n) (some q) none), rfl, ?_, ?_⟩
  · have e : ∀ l, l ≠ "int" → (xsdU "int" == xsdU l) = false := by
      intro l hl; simp [xsdU]; exact fun e => hl e.symm
    simp only [decodeTerm, rdflibHint]
    have b1 : (xsdU "int" == xsdU "boolean") = false := by decide
    have b2 : (xsdU "int" == xsdU "dateTime") = false := by decide
    have c1 : sContains (xsdU "int") "XMLLiteral" = false := by decide
    have c2 : sContains (xsdU "int") "base64Binary" = false := by decide
    have d1 : (xsdU "int" == xsdU "QName") = false := by decide
    have d2 : (xsdU "int" == xsdU "gYear") = false := by decide
    have d3 : (xsdU "int" == xsdU "gYearMonth") = false := by decide
    simp [b1, b2, c1, c2, d1, d2, d3, hq, mkLiteral]
  · have : (toString n).toInt? = some n := Int.toInt?_repr n
    simp only [autoLiteral, hp, parseXsd, parseInt, this]

theorem c07_str (h : Heap) (doc : Nat) (m : NsMgr) (hd : Declared h doc (xsdU "string")) (s : String) :
    ∃ t a, encodeValue (.str s) = some t ∧ decodeTerm h doc rdflibHint t = .ok a ∧
      (autoLiteral m a none).2 = .ok (.str s) := by
  obtain ⟨q, hq, hu⟩ := hd
  have hp : xsdParserOf q = some .str := by simp only [xsdParserOf, hu]; decide
  refine ⟨_, .val (.lit s (some q) none), rfl, ?_, ?_⟩
  · simp only [decodeTerm, rdflibHint]
    have b1 : (xsdU "string" == xsdU "boolean") = false := by decide
    have b2 : (xsdU "string" == xsdU "dateTime") = false := by decide
    have c1 : sContains (xsdU "string") "XMLLiteral" = false := by decide
    have c2 : sContains (xsdU "string") "base64Binary" = false := by decide
    have d1 : (xsdU "string" == xsdU "QName") = false := by decide
    have d2 : (xsdU "string" == xsdU "gYear") = false := by decide
    have d3 : (xsdU "string" == xsdU "gYearMonth") = false := by decide
    simp [b1, b2, c1, c2, d1, d2, d3, hq, mkLiteral]
  · simp only [autoLiteral, hp, parseXsd]

theorem c07_bool (h : Heap) (doc : Nat) (m : NsMgr) (hd : Declared h doc (xsdU "boolean")) (b : Bool) :
    ∃ t a, encodeValue (.bool b) = some t ∧ decodeTerm h doc rdflibHint t = .ok a ∧
      (autoLiteral m a none).2 = .ok (.bool b) := by
  obtain ⟨q, hq, hu⟩ := hd
  have hp : xsdParserOf q = some .boolean := by simp only [xsdParserOf, hu]; decide
  refine ⟨_, .val (.lit (if b then "True" else "False") (some q) none), rfl, ?_, ?_⟩
  · simp only [decodeTerm, rdflibHint]
    have b2 : (xsdU "boolean" == xsdU "dateTime") = false := by decide
    have c1 : sContains (xsdU "boolean") "XMLLiteral" = false := by decide
    have c2 : sContains (xsdU "boolean") "base64Binary" = false := by decide
    have d1 : (xsdU "boolean" == xsdU "QName") = false := by decide
    have d2 : (xsdU "boolean" == xsdU "gYear") = false := by decide
    have d3 : (xsdU "boolean" == xsdU "gYearMonth") = false := by decide
    cases b <;> simp [b2, c1, c2, d1, d2, d3, hq, mkLiteral]
  · have pt : parseBoolean "True" = some true := by decide +kernel
    have pf : parseBoolean "False" = some false := by decide +kernel
    cases b <;> simp [autoLiteral, hp, parseXsd, pt, pf]

theorem c07_uri (h : Heap) (doc : Nat) (m : NsMgr) (hd : Declared h doc (xsdU "anyURI")) (u : String) :
    ∃ t a, encodeValue (.uri u) = some t ∧ decodeTerm h doc rdflibHint t = .ok a ∧
      (autoLiteral m a none).2 = .ok (.uri u) := by
  obtain ⟨q, hq, hu⟩ := hd
  have hp : xsdParserOf q = some .anyURI := by simp only [xsdParserOf, hu]; decide
  refine ⟨_, .val (.lit u (some q) none), rfl, ?_, ?_⟩
  · simp only [decodeTerm, rdflibHint]
    have b1 : (xsdU "anyURI" == xsdU "boolean") = false := by decide
    have b2 : (xsdU "anyURI" == xsdU "dateTime") = false := by decide
    have c1 : sContains (xsdU "anyURI") "XMLLiteral" = false := by decide
    have c2 : sContains (xsdU "anyURI") "base64Binary" = false := by decide
    have d1 : (xsdU "anyURI" == xsdU "QName") = false := by decide
    have d2 : (xsdU "anyURI" == xsdU "gYear") = false := by decide
    have d3 : (xsdU "anyURI" == xsdU "gYearMonth") = false := by decide
    simp [b1, b2, c1, c2, d1, d2, d3, hq, mkLiteral]
  · simp only [autoLiteral, hp, parseXsd]

/-- datetimes: given `parse(isoformat t) = t` (A-LEX, as in C01) -/
theorem c07_datetime (h : Heap) (doc : Nat) (m : NsMgr) (t : DateTime) (hiso : parseIso t.iso = some t) :
    ∃ tm a, encodeValue (.dt t) = some tm ∧ decodeTerm h doc rdflibHint tm = .ok a ∧
      (autoLiteral m a none).2 = .ok (.dt t) := by
  refine ⟨_, .val (.dt t), rfl, ?_, rfl⟩
  simp only [decodeTerm, rdflibHint]
  have b1 : (xsdU "dateTime" == xsdU "boolean") = false := by decide
  have c1 : sContains (xsdU "dateTime") "XMLLiteral" = false := by decide
  have c2 : sContains (xsdU "dateTime") "base64Binary" = false := by decide
  have d1 : (xsdU "dateTime" == xsdU "QName") = false := by decide
  have d2 : (xsdU "dateTime" == xsdU "gYear") = false := by decide
  have d3 : (xsdU "dateTime" == xsdU "gYearMonth") = false := by decide
  simp [b1, c1, c2, d1, d2, d3, hiso]

/-- … unconditionally for every valid date-time -/
theorem c07_datetime_valid (h : Heap) (doc : Nat) (m : NsMgr) (t : DateTime) (hv : ValidDT t) :
    ∃ tm a, encodeValue (.dt t) = some tm ∧ decodeTerm h doc rdflibHint tm = .ok a ∧
      (autoLiteral m a none).2 = .ok (.dt t) :=
  c07_datetime h doc m t (parseIso_iso t hv)

/-- qualified-name values: a name whose namespace is declared on the document comes back with the same URI -/
theorem c07_qname (h : Heap) (doc : Nat) (m : NsMgr) (hm : m.Inv1) (q : QName) (hd : Declared h doc q.uri) :
    ∃ t a v', encodeValue (.qn q) = some t ∧ decodeTerm h doc rdflibHint t = .ok a ∧
      (autoLiteral m a none).2 = .ok (.qn v') ∧ v'.uri = q.uri := by
  obtain ⟨q', hq, hu⟩ := hd
  refine ⟨_, .val (.qn q'), (m.validQ q').2, rfl, ?_, ?_, ?_⟩
  · simp [decodeTerm, hq]
  · simp [autoLiteral]
  · rw [NsMgr.validQ_uri hm q', hu]

/-- language-tagged strings, the empty string included (the case the "fix:" commit repaired in the writer) -/
theorem c07_lang (h : Heap) (doc : Nat) (m : NsMgr) (hm : m.Inv1) (v l : String) (hl : l ≠ "") :
    ∃ t a ty, encodeValue (.lit v (some (provQ "InternationalizedString")) (some l)) = some t ∧
      decodeTerm h doc rdflibHint t = .ok a ∧
      (autoLiteral m a none).2 = .ok (.lit v (some ty) (some l)) ∧ ty.uri = provU "InternationalizedString" := by
  have hl' : (l != "") = true := by simpa using hl
  refine ⟨_, .val (.lit v (some (provQ "InternationalizedString")) (some l)),
          (m.validQ (provQ "InternationalizedString")).2, rfl, ?_, ?_, ?_⟩
  · simp [decodeTerm, rdflibHint, mkLiteral, hl']
  · simp [autoLiteral, rehomeLit]
  · rw [NsMgr.validQ_uri hm]; rfl

/-! ### the unqualified triple and the qualified node: which relations get which -/

/-- kinds for which the writer states the plain triple even when it also builds a qualified node -/
def alwaysPlain (k : RecKind) : Bool := !qset.contains k

/-- `walk` enumerates exactly the combinations: their number is the product of the numbers of values -/
theorem walk_length (l : List (QName × List ArgVal)) : (walk l).length = (l.map (·.2.length)).foldr (· * ·) 1 := by
  induction l with
  | nil => rfl
  | cons hd tl ih =>
    obtain ⟨k, vs⟩ := hd
    simp only [walk, List.map_cons, List.foldr_cons]
    rw [← ih]
    induction vs with
    | nil => simp
    | cons v vs ihv => simp [List.flatMap_cons, ihv, Nat.add_mul]; omega

end Prov.C07

/-
  Table obligations: the constant tables the hand-written model uses are equal to the tables
  regenerated from the live Python objects (Prov/Generated/Tables.lean), and have the shape the
  proofs rely on. All closed by kernel evaluation (`decide`).
-/
import Prov.Generated.Tables
import Prov.Kinds
import Prov.NsMgr

namespace Prov.Tables
open Prov

def sameSet (a b : List String) : Bool := a.all b.contains && b.all a.contains
def sameSet2 (a b : List (String × String)) : Bool := a.all b.contains && b.all a.contains

/-- T0: `PROV_REC_CLS` (kinds, order, PROV-N names, formal attributes, element/relation) -/
theorem t_kinds :
    Gen.kinds.map (fun k => (k.1, k.2.1, k.2.2.1, k.2.2.2.1)) =
    RecKind.all.map (fun k => (k.typeName, k.provN, k.formals, k.isElement)) := by decide

/-- mention is the only kind deriving from another concrete record class (`get_records(cls)`) -/
theorem t_bases :
    Gen.kinds.map (fun k => (k.1, k.2.2.2.2)) =
    RecKind.all.map (fun k => (k.typeName,
      if k == .mention then "ProvSpecialization" else if k.isElement then "ProvElement" else "ProvRelation")) := by
  decide

theorem t_attr_qnames : sameSet Gen.attrQnames attrQNames = true := by decide
theorem t_attr_literals : sameSet Gen.attrLiterals attrLiterals = true := by decide
theorem t_prov_attributes : sameSet Gen.provAttributes (attrQNames ++ attrLiterals) = true := by decide

theorem t_xsd_parsers :
    sameSet2 Gen.xsdParsers (xsdParsers.map (fun p => (p.1, match p.2 with
      | .str => "str" | .double => "double" | .int => "int" | .boolean => "boolean"
      | .dateTime => "dateTime" | .anyURI => "anyURI"))) = true := by decide

theorem t_default_namespaces :
    Gen.defaultNamespaces = defaultTbl.map (fun p => (p.1, p.2.pfx, p.2.uri)) := by decide

/-- T1: `PROV_N_MAP` restricted to record kinds is injective and `PROV_RECORD_IDS_MAP` is its inverse -/
theorem t_nmap_inverse :
    sameSet2 (Gen.nMap.map (fun p => (p.2, p.1))) Gen.recordIdsMap = true := by decide

theorem t_nmap_kinds : ∀ k ∈ RecKind.all, Gen.nMap.contains (k.typeName, k.provN) = true := by decide

theorem t_provN_injective : (RecKind.all.map RecKind.provN).Nodup := by decide

/-- T3: formal attributes have no duplicates, are PROV attributes; relations have ≥ 2 formals and
    their first two are reference attributes -/
theorem t_formals_shape : ∀ k ∈ RecKind.all,
    k.formals.Nodup ∧ (k.formals.all (attrQNames ++ attrLiterals).contains = true) ∧
    (k.isElement = false → 2 ≤ k.formals.length ∧ (k.formals.take 2).all attrQNames.contains = true) := by
  decide

/-- T4: `PROV_ATTRIBUTES_ID_MAP` is `"prov:" ++ local ↦ local` on all PROV attributes -/
theorem t_attributes_id_map :
    sameSet2 Gen.attributesIdMap ((attrQNames ++ attrLiterals).map (fun l => ("prov:" ++ l, l))) = true := by
  decide

end Prov.Tables

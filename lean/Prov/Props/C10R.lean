/-
  C10 for PROV-JSON at record level: the specification reader (written from the PROV-JSON submission, Prov/JsonSpec.lean)
  recovers from the object the library's writer emits for a record exactly the record's (attribute URI, value) pairs, in
  order — for every record whose names resolve in the reading scope the way they are meant (the C03 (c) hypothesis, here
  against the *independent* resolver) and whose PROV attributes print under the reserved `prov:` keys.
-/
import Prov.Props.C10
import Prov.Props.C01R

namespace Prov.C10
open Prov Prov.JsonSpec Prov.C01

/-- the scope resolves the writer's fixed datatype names as the specification defines them -/
structure StdScope (sc : Scope) : Prop where
  int_ : sc.resolve "xsd:int" = some (xsdNs ++ "int")
  double : sc.resolve "xsd:double" = some (xsdNs ++ "double")
  dateTime : sc.resolve "xsd:dateTime" = some (xsdNs ++ "dateTime")
  anyURI : sc.resolve "xsd:anyURI" = some (xsdNs ++ "anyURI")
  qname : sc.resolve "prov:QUALIFIED_NAME" = some (provNs ++ "QUALIFIED_NAME")

theorem stdScope_std : StdScope stdScope := ⟨by decide, by decide, by decide, by decide, by decide⟩

/-- a datatype URI the specification reader has no conversion for -/
def ForeignType (u : String) : Prop :=
  u ≠ xsdNs ++ "anyURI" ∧ u ≠ provNs ++ "QUALIFIED_NAME" ∧ u ≠ xsdNs ++ "int" ∧ u ≠ xsdNs ++ "long" ∧
  u ≠ xsdNs ++ "double" ∧ u ≠ xsdNs ++ "dateTime" ∧ u ≠ xsdNs ++ "string" ∧ u ≠ xsdNs ++ "boolean"

/-- the names a value mentions resolve, in the reading scope, to what they denote -/
def SpecReadable (sc : Scope) : Value → Prop
  | .qn q => sc.resolve q.print = some q.uri
  | .lit _ (some t) none => sc.resolve t.print = some t.uri ∧ ForeignType t.uri
  | .lit _ none none => False
  | .lit _ ty (some l) => l ≠ "" ∧ ty.map QName.uri = some (provNs ++ "InternationalizedString")
  | .dt t => ValidDT t
  | _ => True

/-- **any value, any scope**: the specification reader inverts the writer -/
theorem c10_value_any (sc : Scope) (std : StdScope sc) (v : Value) (hr : SpecReadable sc v) :
    readValue sc (encodeJsonValue v) = some (absValue v) := by
  have n1 : (xsdNs ++ "int" == xsdNs ++ "anyURI") = false := by decide
  have n2 : (xsdNs ++ "int" == provNs ++ "QUALIFIED_NAME") = false := by decide
  have d1 : (xsdNs ++ "double" == xsdNs ++ "anyURI") = false := by decide
  have d2 : (xsdNs ++ "double" == provNs ++ "QUALIFIED_NAME") = false := by decide
  have d3 : (xsdNs ++ "double" == xsdNs ++ "int") = false := by decide
  have d4 : (xsdNs ++ "double" == xsdNs ++ "long") = false := by decide
  have t1 : (xsdNs ++ "dateTime" == xsdNs ++ "anyURI") = false := by decide
  have t2 : (xsdNs ++ "dateTime" == provNs ++ "QUALIFIED_NAME") = false := by decide
  have t3 : (xsdNs ++ "dateTime" == xsdNs ++ "int") = false := by decide
  have t4 : (xsdNs ++ "dateTime" == xsdNs ++ "long") = false := by decide
  have t5 : (xsdNs ++ "dateTime" == xsdNs ++ "double") = false := by decide
  have q1 : (provNs ++ "QUALIFIED_NAME" == xsdNs ++ "anyURI") = false := by decide
  cases v with
  | str s => rfl
  | bool b => rfl
  | int n => simp [encodeJsonValue, readValue, JVal.get?, typedValue, std.int_, n1, n2, absValue]
  | float f => simp [encodeJsonValue, readValue, JVal.get?, typedValue, std.double, d1, d2, d3, d4, absValue]
  | uri u => simp [encodeJsonValue, readValue, JVal.get?, typedValue, std.anyURI, absValue]
  | dt t =>
    have hp : (parseIso t.iso).isSome = true := by rw [parseIso_iso t hr]; rfl
    simp [encodeJsonValue, readValue, JVal.get?, typedValue, std.dateTime, t1, t2, t3, t4, t5, absValue, hp]
  | qn q =>
    have hq : sc.resolve q.print = some q.uri := hr
    simp [encodeJsonValue, readValue, JVal.get?, typedValue, std.qname, q1, absValue, hq]
  | lit s ty lang =>
    cases lang with
    | some l =>
      have hr' : l ≠ "" ∧ ty.map QName.uri = some (provNs ++ "InternationalizedString") := by
        cases ty <;> simpa [SpecReadable] using hr
      obtain ⟨hl, hty⟩ := hr'
      have hl' : (l == "") = false := by simpa using hl
      simp [encodeJsonValue, hl', readValue, JVal.get?, absValue, hty]
    | none =>
      cases ty with
      | none => exact absurd hr (by simp [SpecReadable])
      | some t =>
        have hr' : sc.resolve t.print = some t.uri ∧ ForeignType t.uri := by simpa [SpecReadable] using hr
        obtain ⟨hres, f1, f2, f3, f4, f5, f6, f7, f8⟩ := hr'
        simp [encodeJsonValue, readValue, JVal.get?, typedValue, hres, f1, f2, f3, f4, f5, f6, f7, f8, absValue]

/-! ### the record -/

theorem mapM?_map {α β γ : Type} (f : β → Option γ) (g : α → β) (k : α → γ) :
    ∀ (l : List α), (∀ x ∈ l, f (g x) = some (k x)) → mapM? f (l.map g) = some (l.map k)
  | [], _ => rfl
  | x :: xs, h => by
    simp only [List.map_cons, mapM?, h x List.mem_cons_self,
      mapM?_map f g k xs (fun y hy => h y (List.mem_cons_of_mem _ hy))]

/-- what the reader does with one member of a record object -/
def readMember (sc : Scope) (p : String × JVal) : Option (List (String × AVal)) :=
  match sc.resolve p.1 with
  | none => none
  | some au =>
    if refKeys.contains p.1 then
      let vals : List JVal := match p.2 with | .arr l => l | x => [x]
      mapM? (fun v => match v with
        | .str s => (sc.resolve s).map (fun u => (au, AVal.qn u))
        | _ => none) vals
    else if timeKeys.contains p.1 then
      (match p.2 with | .str s => some [(au, AVal.dt s)] | _ => none)
    else
      let vals : List JVal := match p.2 with | .arr l => l | x => [x]
      mapM? (fun v => (readValue sc v).map (fun a => (au, a))) vals

theorem readAttrs_eq (sc : Scope) (kvs : List (String × JVal)) :
    readAttrs sc kvs = (mapM? (readMember sc) kvs).map List.flatten := rfl

/-- everything the writer prints for this attribute means, to the specification reader, what it denotes -/
structure SpecPair (sc : Scope) (p : QName × List Value) : Prop where
  name : sc.resolve p.1.print = some p.1.uri
  ref : isRefAttr p.1 = true → refKeys.contains p.1.print = true ∧ ∃ q, p.2 = [.qn q] ∧ sc.resolve q.print = some q.uri
  time : isRefAttr p.1 = false → isTimeAttr p.1 = true →
    refKeys.contains p.1.print = false ∧ timeKeys.contains p.1.print = true ∧ ∃ t, p.2 = [.dt t]
  other : isProvAttr p.1 = false →
    refKeys.contains p.1.print = false ∧ timeKeys.contains p.1.print = false ∧ ∀ v ∈ p.2, SpecReadable sc v

def absPairs (p : QName × List Value) : List (String × AVal) := p.2.map (fun v => (p.1.uri, absValue v))

theorem readMember_entry (sc : Scope) (std : StdScope sc) (a : QName) (v : Value) (more : List Value)
    (hp : SpecPair sc (a, v :: more)) :
    readMember sc (a.print, jvalOf a v more) = some (absPairs (a, v :: more)) := by
  unfold readMember
  simp only [hp.name]
  by_cases href : isRefAttr a = true
  · obtain ⟨hk, q, hq, hres⟩ := hp.ref href
    simp only [List.cons.injEq] at hq
    obtain ⟨rfl, rfl⟩ := hq
    have hk' : a.print ∈ refKeys := by simpa using hk
    simp [hk', jvalOf, href, formalText, mapM?, hres, absPairs, absValue]
  · have href0 : isRefAttr a = false := by simpa using href
    by_cases ht : isTimeAttr a = true
    · obtain ⟨hk1, hk2, t, hq⟩ := hp.time href0 ht
      simp only [List.cons.injEq] at hq
      obtain ⟨rfl, rfl⟩ := hq
      have hk1' : a.print ∉ refKeys := by simpa using hk1
      have hk2' : a.print ∈ timeKeys := by simpa using hk2
      simp [hk1', hk2', jvalOf, href0, ht, formalText, absPairs, absValue]
    · have ht0 : isTimeAttr a = false := by simpa using ht
      have hprov : isProvAttr a = false := by simp [isProvAttr, href0, ht0]
      obtain ⟨hk1, hk2, hvals⟩ := hp.other hprov
      have hall : ∀ x ∈ v :: more, (fun j => (readValue sc j).map (fun a' => (a.uri, a'))) (encodeJsonValue x) =
          some ((fun x => (a.uri, absValue x)) x) := by
        intro x hx
        simp [c10_value_any sc std x (hvals x hx)]
      have hmm := mapM?_map (fun j => (readValue sc j).map (fun a' => (a.uri, a'))) encodeJsonValue
        (fun x => (a.uri, absValue x)) (v :: more) hall
      have hk1' : refKeys.contains a.print = false := hk1
      have hk2' : timeKeys.contains a.print = false := hk2
      simp only [hk1', hk2', Bool.false_eq_true, if_false]
      by_cases hm : more.isEmpty = true
      · have hmore : more = [] := by simpa using hm
        subst hmore
        have hj : jvalOf a v [] = encodeJsonValue v := by simp [jvalOf, href0, ht0]
        rw [hj]
        have hna := encodeJsonValue_not_arr v
        simp only [List.map_cons, List.map_nil] at hmm
        cases hev : encodeJsonValue v with
        | arr l => exact absurd hev (hna l)
        | _ => rw [hev] at hmm; simpa [absPairs] using hmm
      · have hm0 : more.isEmpty = false := by simpa using hm
        have hj : jvalOf a v more = .arr ((v :: more).map encodeJsonValue) := by simp [jvalOf, href0, ht0, hm0]
        rw [hj]
        simpa [absPairs] using hmm

/-- **C10, PROV-JSON, one record**: from the object the library writes for a record, the specification reader recovers the
    record's (attribute URI, value) pairs, all of them, in order, nothing else -/
theorem c10_record (sc : Scope) (std : StdScope sc) (r : Record) (hs : C09.Stored r)
    (hsp : ∀ p ∈ r.attrs, SpecPair sc p) (hpr : r.attrs.Pairwise (fun p q => p.1.print ≠ q.1.print)) :
    ∃ kvs, encodeJsonRecord r = some (.obj kvs) ∧
      readAttrs sc kvs = some (r.flat.map (fun x => (x.1.uri, absValue x.2))) := by
  have henc : encodeJsonRecord r = some (.obj (r.attrs.flatMap entryOf)) := by
    rw [encodeJsonRecord_eq, enc_fold r.attrs [] (fun p hp => formalOk_of_stored r hs p hp) (by simp) hpr]
    simp
  refine ⟨_, henc, ?_⟩
  rw [readAttrs_eq]
  have key : ∀ (attrs : List (QName × List Value)), (∀ p ∈ attrs, SpecPair sc p) →
      ∃ ls, mapM? (readMember sc) (attrs.flatMap entryOf) = some ls ∧ ls.flatten = attrs.flatMap absPairs := by
    intro attrs
    induction attrs with
    | nil => intro _; exact ⟨[], rfl, rfl⟩
    | cons p rest ih =>
      intro hall
      obtain ⟨ls, h1, h2⟩ := ih (fun q hq => hall q (List.mem_cons_of_mem _ hq))
      obtain ⟨a, vs⟩ := p
      cases vs with
      | nil => exact ⟨ls, by simpa [entryOf] using h1, by simpa [absPairs] using h2⟩
      | cons v more =>
        have he := readMember_entry sc std a v more (hall (a, v :: more) List.mem_cons_self)
        refine ⟨absPairs (a, v :: more) :: ls, ?_, by simp [h2]⟩
        simp only [List.flatMap_cons, entryOf, List.cons_append, List.nil_append, mapM?, he, h1]
  obtain ⟨ls, h1, h2⟩ := key r.attrs hsp
  rw [h1]
  simp only [Option.map_some, Option.some.injEq]
  rw [h2]
  simp [Record.flat, absPairs, List.map_flatMap, List.map_map]
  rfl

/-! ### non-vacuity -/

def scEx : Scope := ⟨[("ex", "http://example.org/")], []⟩

theorem scEx_std : StdScope scEx := ⟨by decide, by decide, by decide, by decide, by decide⟩

theorem rcEx_spec : ∀ p ∈ C09.rcEx.attrs, SpecPair scEx p := by
  intro p hp
  simp only [C09.rcEx, List.mem_cons, List.mem_nil_iff, or_false] at hp
  rcases hp with rfl | rfl | rfl | rfl
  · exact ⟨by decide +kernel, fun _ => ⟨by decide +kernel, C09.exQ "e", rfl, by decide +kernel⟩,
      fun h => absurd h (by decide +kernel), fun h => absurd h (by decide +kernel)⟩
  · exact ⟨by decide +kernel, fun _ => ⟨by decide +kernel, C09.exQ "a", rfl, by decide +kernel⟩,
      fun h => absurd h (by decide +kernel), fun h => absurd h (by decide +kernel)⟩
  · refine ⟨by decide +kernel, fun h => absurd h (by decide +kernel), fun _ h => absurd h (by decide +kernel),
      fun _ => ⟨by decide +kernel, by decide +kernel, fun v hv => ?_⟩⟩
    simp only [List.mem_cons, List.mem_nil_iff, or_false] at hv
    rcases hv with rfl | rfl
    · trivial
    · exact ⟨by decide +kernel, by decide +kernel, by decide +kernel, by decide +kernel, by decide +kernel, by decide +kernel,
        by decide +kernel, by decide +kernel, by decide +kernel⟩
  · refine ⟨by decide +kernel, fun h => absurd h (by decide +kernel), fun _ h => absurd h (by decide +kernel),
      fun _ => ⟨by decide +kernel, by decide +kernel, fun v hv => ?_⟩⟩
    simp only [List.mem_cons, List.mem_nil_iff, or_false] at hv
    subst hv
    exact ⟨by decide, by decide +kernel⟩

example := c10_record scEx scEx_std C09.rcEx C09.rcEx_stored rcEx_spec (by decide +kernel)

end Prov.C10

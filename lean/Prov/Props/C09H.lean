/-
  C09 on every reachable state (`Reach`, `Props/C08I`: mutators and deriving operations in any order): the heap theorems
  theorem about `flattened()` holds there with no hypothesis on records, managers or
  indices — also for documents that are themselves results of `unified()`, `flattened()`, `update` or `add_bundle`.
-/
import Prov.Props.C08I
import Prov.Props.C09G

namespace Prov.C09
open Prov Prov.Heap Prov.C05 Prov.C04 Prov.C08

/-- **`flattened()` of any document with bundles, in any reachable state** (the conclusion of `c09_flattened_heap`) -/
theorem c09_flattened_reach {h : Heap} (hr : Reach h) (d : Nat) (hb : (h.cont d).bundles.isEmpty = false) :
    let srcs := (h.cont d).records ++ (h.cont d).bundles.flatMap (fun p => (h.cont p.2).records)
    ∃ h' nd news, h.flattened d = (h', .ok nd) ∧ nd = h.conts.size ∧ (h'.cont nd).records = news ∧ news.length = srcs.length ∧
      (∀ p ∈ srcs.zip news, recEq (h.recCell p.1).r (h'.recCell p.2).r = true) ∧
      (∀ r', r' < h.recs.size → h'.recCell r' = h.recCell r') ∧ (∀ c', c' < h.conts.size → h'.cont c' = h.cont c') := by
  intro srcs
  have g := (reach_good2 hr).good
  have hall : ∀ c r, r ∈ (h.cont c).records → r < h.recs.size ∧ StoredRec (h.recCell r).r := fun c r hm =>
    ⟨g.wf.inRange c r hm, g.storedRec r (g.wf.inRange c r hm)⟩
  exact c09_flattened_heap h d g.allInv1 hb (fun r hr' => by
    rcases List.mem_append.mp hr' with h1 | h1
    · exact hall d r h1
    · obtain ⟨p, _, hp⟩ := List.mem_flatMap.mp h1
      exact hall p.2 r hp)

theorem srcOk_reach {h : Heap} (hr : Reach h) (c : Nat) : SrcOk h (h.cont c).records := by
  have g := (reach_good2 hr).good
  exact fun r hm => ⟨g.wf.inRange c r hm, g.storedRec r (g.wf.inRange c r hm)⟩

/-- **`ProvBundle.update(other)` in any reachable state**: `other` a bundle or a document without bundles is appended as `==`
    copies, in order, to exactly the target; nothing else is written -/
theorem c09_updateBundle_reach {h : Heap} (hr : Reach h) (t o : Nat) (ht : t < h.conts.size)
    (ho : ((h.cont o).isDoc && !(h.cont o).bundles.isEmpty) = false) :
    ∃ h' news, h.updateBundle t o = (h', none) ∧ Appended h h' t (h.cont o).records news :=
  c09_updateBundle_heap h t o ht (reach_good2 hr).good.allInv1 ho (srcOk_reach hr o)

/-- **`add_bundle` of a bundle-free document in any reachable state** (the conclusion of `c09_addBundle_attaches_document`) -/
theorem c09_addBundle_document_reach {h : Heap} (hr : Reach h) (d b : Nat) (idArg : NameArg) (nsOrder : List Ns)
    (hd : d < h.conts.size) (hb : (h.cont b).isDoc = true) (hbs : (h.cont b).bundles.isEmpty = true)
    (h' : Heap) (hres : h.addBundle d b idArg nsOrder = (h', none)) :
    ∃ q news, (h'.cont d).bundles = (h.cont d).bundles ++ [(q, h.conts.size)] ∧ (h'.cont d).records = (h.cont d).records ∧
      (bundlesGet (h.cont d).bundles q).isSome = false ∧
      (h'.cont h.conts.size).records = news ∧ (h'.cont h.conts.size).id = some q ∧ news.length = (h.cont b).records.length ∧
      (∀ p ∈ (h.cont b).records.zip news, recEq (h.recCell p.1).r (h'.recCell p.2).r = true) ∧
      (∀ r, r < h.recs.size → h'.recCell r = h.recCell r) :=
  c09_addBundle_attaches_document h d b idArg nsOrder hd (reach_good2 hr).good.allInv1 hb hbs (srcOk_reach hr b) h' hres

end Prov.C09

/-
  C09 on every reachable state (`Reach`, `Props/C08I`: mutators and deriving operations in any order): the heap theorems
  theorem about `flattened()` holds there with no hypothesis on records, managers or
  indices — also for documents that are themselves results of `unified()`, `flattened()`, `update` or `add_bundle`.
-/
import Prov.Props.C08I

namespace Prov.C09
open Prov Prov.Heap Prov.C05 Prov.C04 Prov.C08

/-- **`flattened()` of any document with bundles, in any reachable state** (the conclusion of `c09_flattened_heap`) -/
theorem c09_flattened_reach {h : Heap} (hr : Reach h) (d : Nat) (hb : (h.cont d).bundles.isEmpty = false) :
    let srcs := (h.cont d).records ++ (h.cont d).bundles.flatMap (fun p => (h.cont p.2).records)
    ∃ h' nd news, h.flattened d = (h', .ok nd) ∧ nd = h.conts.size ∧ (h'.cont nd).records = news ∧ news.length = srcs.length ∧
      (∀ p ∈ srcs.zip news, recEq (h.recCell p.1).r (h'.recCell p.2).r = true) ∧
      (∀ r', r' < h.recs.size → h'.recCell r' = h.recCell r') ∧ (∀ c', c' < h.conts.size → h'.cont c' = h.cont c') := by
  intro srcs
  have g := (reach_good2 hr).good
  have hall : ∀ c r, r ∈ (h.cont c).records → r < h.recs.size ∧ StoredRec (h.recCell r).r := fun c r hm =>
    ⟨g.wf.inRange c r hm, g.storedRec r (g.wf.inRange c r hm)⟩
  exact c09_flattened_heap h d g.allInv1 hb (fun r hr' => by
    rcases List.mem_append.mp hr' with h1 | h1
    · exact hall d r h1
    · obtain ⟨p, _, hp⟩ := List.mem_flatMap.mp h1
      exact hall p.2 r hp)

end Prov.C09

/-
  C14, part 2: exactly one edge per relation whose first two arguments are present, directed from the first to the
  second argument, between nodes that carry those identifiers; inferred nodes only for identifiers not yet known.
-/
import Prov.Props.C14

namespace Prov.C14
open Prov Heap

/-- the node map points at pool entries that carry the identifier looked up -/
def MapOk (st : GState) : Prop :=
  ∀ q i, nodeMapGet st.nodeMap q = some i → ∃ n, st.pool[i]? = some n ∧ n.id.same q = true

theorem nodeMapGet_set (m : List (QName × Nat)) (q q' : QName) (i : Nat) :
    nodeMapGet (nodeMapSet m q i) q' = if q.same q' then some i else nodeMapGet m q' := by
  induction m with
  | nil => simp [nodeMapSet, nodeMapGet]
  | cons hd tl ih =>
    obtain ⟨k, v⟩ := hd
    unfold nodeMapSet
    by_cases hk : k.same q = true
    · simp only [hk, if_true]
      have hku : k.uri = q.uri := by simpa [QName.same] using hk
      by_cases hq : q.same q' = true
      · have : k.same q' = true := by simp [QName.same] at hq ⊢; rw [hku]; exact hq
        simp [nodeMapGet, List.find?_cons, this, hq]
      · have hq' : q.same q' = false := by simpa using hq
        have : k.same q' = false := by
          simp only [QName.same, beq_eq_false_iff_ne, ne_eq] at hq' ⊢; rw [hku]; exact hq'
        simp [nodeMapGet, List.find?_cons, this, hq']
    · have hk' : k.same q = false := by simpa using hk
      simp only [hk', Bool.false_eq_true, if_false]
      by_cases hkq : k.same q' = true
      · have hne : q.same q' = false := by
          simp only [QName.same, beq_eq_false_iff_ne, ne_eq, beq_iff_eq] at hk' hkq ⊢
          intro e; exact hk' (hkq.trans e.symm)
        simp [nodeMapGet, List.find?_cons, hkq, hne]
      · have hkq' : k.same q' = false := by simpa using hkq
        have := ih
        simp only [nodeMapGet, List.find?_cons, hkq', Bool.false_eq_true] at this ⊢
        exact this

theorem same_refl2 (q : QName) : q.same q = true := by simp [QName.same]

/-- resolving an endpoint keeps the map sound, returns a pool entry with that identifier, and only ever appends to the pool -/
theorem endpoint_spec (st : GState) (a : String) (q : QName) (st' : GState) (i : Nat) (hm : MapOk st)
    (h : endpoint st a q = some (st', i)) :
    MapOk st' ∧ (∃ n, st'.pool[i]? = some n ∧ n.id.same q = true) ∧
    (∃ extra, st'.pool = st.pool ++ extra) ∧ st'.edges = st.edges := by
  unfold endpoint at h
  split at h
  · rename_i j hj
    simp only [Option.some.injEq, Prod.mk.injEq] at h
    obtain ⟨rfl, rfl⟩ := h
    exact ⟨hm, hm q _ hj, ⟨[], by simp⟩, rfl⟩
  · split at h
    · cases h
    · next k _ =>
      simp only [Option.some.injEq, Prod.mk.injEq] at h
      obtain ⟨rfl, rfl⟩ := h
      refine ⟨?_, ⟨⟨none, k, q⟩, by simp, same_refl2 q⟩, ⟨[⟨none, k, q⟩], rfl⟩, rfl⟩
      intro q' j hj
      simp only [nodeMapGet_set] at hj
      split at hj
      · next hs =>
        simp only [Option.some.injEq] at hj
        subst hj
        exact ⟨⟨none, k, q⟩, by simp, hs⟩
      · obtain ⟨n, hn, hns⟩ := hm q' j hj
        refine ⟨n, ?_, hns⟩
        rw [List.getElem?_append_left]
        · exact hn
        · exact (List.getElem?_eq_some_iff.mp hn).1

theorem addGraphNode_pool (st : GState) (i : Nat) :
    (addGraphNode st i).pool = st.pool ∧ (addGraphNode st i).nodeMap = st.nodeMap := by
  unfold addGraphNode
  split
  · split <;> exact ⟨rfl, rfl⟩
  · exact ⟨rfl, rfl⟩

/-- **exactly one edge, in the right direction, between the right identifiers**: a relation whose first two arguments are
    present and whose argument positions allow an element class to be inferred (every kind but influence) gets one edge from
    a node carrying its first argument to a node carrying its second, and that edge carries the relation -/
theorem c14_one_edge (h : Heap) (st : GState) (rref : Nat) (hm : MapOk st) (a1 a2 : String) (q1 q2 : QName)
    (hft : firstTwo (h.recCell rref).r = some ((a1, some (.qn q1)), (a2, some (.qn q2))))
    (hi1 : (inferredClass.find? (fun p => p.1 == a1)).isSome) (hi2 : (inferredClass.find? (fun p => p.1 == a2)).isSome) :
    ∃ i1 i2 n1 n2, (graphStep h st rref).edges = st.edges ++ [(i1, i2, rref)] ∧
      (graphStep h st rref).pool[i1]? = some n1 ∧ n1.id.same q1 = true ∧
      (graphStep h st rref).pool[i2]? = some n2 ∧ n2.id.same q2 = true ∧ MapOk (graphStep h st rref) := by
  have e1 : ∃ st1 i1, endpoint st a1 q1 = some (st1, i1) := by
    unfold endpoint
    split
    · exact ⟨_, _, rfl⟩
    · obtain ⟨p, hp⟩ := Option.isSome_iff_exists.mp hi1
      simp [hp]
  obtain ⟨st1, i1, h1⟩ := e1
  obtain ⟨hm1, ⟨n1, hn1, hs1⟩, ⟨ex1, hp1⟩, hed1⟩ := endpoint_spec st a1 q1 st1 i1 hm h1
  have e2 : ∃ st2 i2, endpoint st1 a2 q2 = some (st2, i2) := by
    unfold endpoint
    split
    · exact ⟨_, _, rfl⟩
    · obtain ⟨p, hp⟩ := Option.isSome_iff_exists.mp hi2
      simp [hp]
  obtain ⟨st2, i2, h2⟩ := e2
  obtain ⟨hm2, ⟨n2, hn2, hs2⟩, ⟨ex2, hp2⟩, hed2⟩ := endpoint_spec st1 a2 q2 st2 i2 hm1 h2
  have hres : graphStep h st rref =
      { addGraphNode (addGraphNode st2 i1) i2 with edges := (addGraphNode (addGraphNode st2 i1) i2).edges ++ [(i1, i2, rref)] } := by
    unfold graphStep
    simp only [hft, h1, h2]
  have hpool : (graphStep h st rref).pool = st2.pool := by
    rw [hres]
    simp [(addGraphNode_pool _ _).1]
  have hmap : (graphStep h st rref).nodeMap = st2.nodeMap := by
    rw [hres]
    simp [(addGraphNode_pool _ _).2]
  refine ⟨i1, i2, n1, n2, ?_, ?_, hs1, ?_, hs2, ?_⟩
  · rw [hres]
    simp [addGraphNode_edges, hed2, hed1]
  · rw [hpool, hp2, List.getElem?_append_left]
    · exact hn1
    · exact (List.getElem?_eq_some_iff.mp hn1).1
  · rw [hpool]; exact hn2
  · intro q i hq
    rw [hmap] at hq
    rw [hpool]
    exact hm2 q i hq

/-- the table fact behind the hypothesis: every relation kind but influence has inferable first two positions -/
theorem c14_inferable :
    RecKind.all.all (fun k => k.isElement || k == .influence ||
      (k.formals.take 2).all (fun a => (inferredClass.find? (fun p => p.1 == a)).isSome)) = true := by decide

theorem addGraphNode_mapOk (st : GState) (i : Nat) (hm : MapOk st) : MapOk (addGraphNode st i) := by
  intro q j hq
  rw [(addGraphNode_pool st i).2] at hq
  rw [(addGraphNode_pool st i).1]
  exact hm q j hq

/-- the soundness of the node map survives every relation, drawn or skipped -/
theorem graphStep_mapOk (h : Heap) (st : GState) (rref : Nat) (hm : MapOk st) : MapOk (graphStep h st rref) := by
  unfold graphStep
  dsimp only
  split
  · split
    · exact hm
    · next st1 i1 h1 =>
      have hm1 := (endpoint_spec _ _ _ _ _ hm h1).1
      split
      · exact hm1
      · next st2 i2 h2 =>
        have hm2 := (endpoint_spec _ _ _ _ _ hm1 h2).1
        have := addGraphNode_mapOk _ i2 (addGraphNode_mapOk _ i1 hm2)
        intro q j hq
        exact this q j hq
  · exact hm

/-- both of the first two arguments are present (as names) -/
def bothPresent (h : Heap) (rref : Nat) : Bool :=
  match firstTwo (h.recCell rref).r with
  | some ((_, some (.qn _)), (_, some (.qn _))) => true
  | _ => false

def notInfluence (h : Heap) (rref : Nat) : Prop := (h.recCell rref).r.kind ≠ .influence ∧ (h.recCell rref).r.kind.isElement = false

theorem firstTwo_attrs (r : Record) (a1 a2 : String) (v1 v2 : Option Value)
    (h : firstTwo r = some ((a1, v1), (a2, v2))) : r.kind.formals.take 2 = [a1, a2] := by
  unfold firstTwo at h
  split at h
  · next a b rest heq =>
    simp only [Option.some.injEq, Prod.mk.injEq] at h
    obtain ⟨⟨rfl, _⟩, rfl, _⟩ := h
    rw [heq]; rfl
  · cases h

/-- **exactly the relations with both endpoints are drawn, once each, in order** (documents without influence relations;
    an influence relation with an undeclared endpoint is the documented exception) -/
theorem c14_edges_exact (h : Heap) (rels : List Nat) (st : GState) (hm : MapOk st)
    (hni : ∀ r ∈ rels, notInfluence h r) :
    ((rels.foldl (graphStep h) st).edges.map (·.2.2)) = st.edges.map (·.2.2) ++ rels.filter (bothPresent h) := by
  induction rels generalizing st with
  | nil => simp
  | cons r rest ih =>
    simp only [List.foldl_cons]
    rw [ih (graphStep h st r) (graphStep_mapOk h st r hm) (fun x hx => hni x (List.mem_cons_of_mem _ hx))]
    by_cases hb : bothPresent h r = true
    · -- drawn: one edge
      unfold bothPresent at hb
      split at hb
      · next a1 q1 a2 q2 hft =>
        have hk := hni r List.mem_cons_self
        have hfa := firstTwo_attrs _ a1 a2 _ _ hft
        have htab := c14_inferable
        rw [List.all_eq_true] at htab
        have hk' := htab (h.recCell r).r.kind (by cases (h.recCell r).r.kind <;> simp [RecKind.all])
        have hinf : ((h.recCell r).r.kind.formals.take 2).all (fun a => (inferredClass.find? (fun p => p.1 == a)).isSome) = true := by
          simp only [Bool.or_eq_true, beq_iff_eq] at hk'
          rcases hk' with (h' | h') | h'
          · rw [hk.2] at h'; cases h'
          · exact absurd h' hk.1
          · exact h'
        rw [hfa] at hinf
        simp only [List.all_cons, List.all_nil, Bool.and_true, Bool.and_eq_true] at hinf
        obtain ⟨i1, i2, n1, n2, he, _⟩ := c14_one_edge h st r hm a1 a2 q1 q2 hft hinf.1 hinf.2
        rw [he]
        have hb' : bothPresent h r = true := by unfold bothPresent; rw [hft]
        simp [List.filter_cons, hb']
      · cases hb
    · have hb' : bothPresent h r = false := by simpa using hb
      have : graphStep h st r = st := by
        apply c14_no_endpoint_no_change
        intro a1 a2 q1 q2 hft
        unfold bothPresent at hb'
        rw [hft] at hb'
        cases hb'
      rw [this]
      simp [List.filter_cons, hb']

end Prov.C14
